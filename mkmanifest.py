#!/usr/bin/env python3
"""Regenerates MANIFEST.json from props/*.json (claimed checks) and properties.jsonl."""
import json, glob, os, subprocess
ROOT = os.path.dirname(os.path.abspath(__file__))
props = [json.loads(l) for l in open(os.path.join(ROOT, "properties.jsonl"))]
cfgs = {}
for f in sorted(glob.glob(os.path.join(ROOT, "props", "C*.json"))):
    c = json.load(open(f)); cfgs[c["id"]] = c
na_reasons = json.load(open(os.path.join(ROOT, "props", "not_applicable.json"))) if os.path.exists(os.path.join(ROOT, "props", "not_applicable.json")) else {}
hooks = subprocess.run(["git", "-C", "/repo", "log", "--format=%H %s"], capture_output=True, text=True).stdout.splitlines()
hook_commits = [l.split()[0] for l in hooks if l.split(" ", 1)[1].startswith("verif hook")]
checks, na = [], []
for p in props:
    pid = p["id"]
    c = cfgs.get(pid)
    if c and c.get("claimed", True):
        checks.append({
            "property_id": pid,
            "quick_cmd": "./check %s --tier quick" % pid,
            "thorough_cmd": "./check %s --tier thorough" % pid,
            "evidence_file": "/verif/evidence/%s.json" % pid,
            "replay_cmd_template": "./check %s --replay {path}" % pid,
            "engine": "lean4-proof+correspondence",
            "level_claimed": {"category": "proof", "text": ("Machine-checked proof in Lean 4 (%s): %d property theorems over an executable model of the anchored code, quantified over all inputs/histories/schedules the property names, audited with #print axioms (propext, Classical.choice, Quot.sound only; no sorry/native_decide). The model is tied to /repo's current source on every run: facts regenerated from the code into lean/KeepVerif/Gen (where the property depends on constants/lock sets) and a differential correspondence run of the real Go code against the model's executable definitions on generated cases (%s quick / %s thorough, forward and reverse order), plus a Lean monitor that evaluates the property itself on the implementation's observations to produce a concrete failing input. A proof gives the unbounded quantifier the tests cannot reach; the correspondence is what carries it to the code." % (c.get("level_text", "full"), len(c.get("theorems", [])), c.get("quick_n", "?"), c.get("thorough_n", "?"))), "design_ref": "DESIGN.md §5 " + pid + ", §10"},
            "level_note": c.get("level_note", "; ".join(c.get("assumptions", [])) or "Lean kernel; correspondence harness"),
            "technique": c.get("technique", "Lean 4 machine-checked proof over a hand-written model + model/implementation correspondence check"),
        })
    else:
        na.append({"property_id": pid, "reason": na_reasons.get(pid, "not claimed yet: model and proof for this property are not built in this revision (no other technique substituted)")})
m = {
    "version": 1,
    "setup_cmd": "./setup.sh",
    "hooks": {
        "guard": "verif",
        "enable": "go build -tags verif (hook files pkg/**/zz_verif_*.go are //go:build verif and only re-export existing identifiers or add no-op yield points)",
        "baseline_off_cmd": json.load(open("/root/.vp/BASELINE.json"))["cmd"],
        "source_commits": hook_commits,
        "add_only": True,
    },
    "engines": [{"name": "lean4-proof+correspondence", "path": "/verif/check", "serves_properties": [c["property_id"] for c in checks],
                 "kind_free_text": "Lean 4 theorems (lake build + #print axioms audit) over executable models; Go harness runs the real code on generated cases, Lean driver runs the model on the same lines, outputs diffed; Lean monitor evaluates the property on the implementation's observations"}],
    "checks": checks,
    "not_applicable": na,
    "notes": "see DESIGN.md; known_findings.json lists genuine defects (fixed / known)",
}
def atomic(path, obj):
    tmp = path + ".tmp%d" % os.getpid()
    json.dump(obj, open(tmp, "w"), indent=1)
    os.replace(tmp, path)
atomic(os.path.join(ROOT, "MANIFEST.json"), m)
# known_findings.json = merge of findings/C*.json (one file per property, hand-written, committed)
fnd = []
for f in sorted(glob.glob(os.path.join(ROOT, "findings", "C*.json"))):
    for e in json.load(open(f)):
        e = dict(e)
        if e.get("kind") == "fixed":
            e["line"] = "fixed: property=%s %s %s" % (e["property"], e.get("commit", "?"), " ".join(str(e.get("what", "")).split()))
        else:
            e["line"] = "known: property=%s %s" % (e["property"], " ".join(str(e.get("what", "")).split()))
        fnd.append(e)
atomic(os.path.join(ROOT, "known_findings.json"), {
    "_comment": "Genuine defects of keep-core found by the checks (merged from findings/C*.json by mkmanifest.py; never written by a check run). kind=known: recorded, matched by regex on '<op>\\t<impl observation>\\t<monitor verdict>' and printed as KNOWN-FINDING; kind=fixed: repaired by a 'fix:' commit in /repo, suppresses nothing.",
    "findings": fnd})
print("claimed", len(checks), "unclaimed", len(na))
