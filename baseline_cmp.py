#!/usr/bin/env python3
"""baseline_cmp.py <gotest.json>: compares a `go test -json` log with BASELINE.json's stable_pass list."""
import json, sys
b = json.load(open('/root/.vp/BASELINE.json'))
want = set(b['stable_pass'])
res = {}
for l in open(sys.argv[1], errors='replace'):
    try: e = json.loads(l)
    except Exception: continue
    if e.get('Action') in ('pass', 'fail', 'skip') and e.get('Test'):
        res[e['Package'] + '::' + e['Test']] = e['Action']
missing = sorted(t for t in want if res.get(t) != 'pass')
print('stable_pass:', len(want), 'passing now:', len(want) - len(missing))
for t in missing: print('  NOT PASSING:', t, res.get(t))
