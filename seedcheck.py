#!/usr/bin/env python3
"""
seedcheck.py <seed-id>... [--tier quick|thorough]
Runs our check for the seeded change /verif/seeded/<id>/ (already confirmed by seedtest.py):
scratch worktree of /repo HEAD + patch.diff -> VERIF_REPO=<wt> ./check <prop> -> record result in
seeded/<id>/meta.json ("detection") -> remove worktree -> plain ./check <prop> (restores Gen facts).
"""
import argparse, json, os, shutil, subprocess, sys, time
ROOT = os.path.dirname(os.path.abspath(__file__))

def sh(cmd, cwd=None, env=None, timeout=7200):
    p = subprocess.run(cmd, cwd=cwd, env=env, timeout=timeout, stdout=subprocess.PIPE, stderr=subprocess.STDOUT, text=True, errors="replace")
    return p.returncode, p.stdout

ap = argparse.ArgumentParser(); ap.add_argument("ids", nargs="+"); ap.add_argument("--tier", default="quick"); a = ap.parse_args()
for sid in a.ids:
    d = os.path.join(ROOT, "seeded", sid)
    meta = json.load(open(os.path.join(d, "meta.json")))
    prop = meta["property"]
    if not os.path.exists(os.path.join(ROOT, "props", prop + ".json")):
        print(sid, "no check for", prop); continue
    wt = "/tmp/sc-" + sid
    sh(["git", "-C", "/repo", "worktree", "remove", "--force", wt]); shutil.rmtree(wt, ignore_errors=True)
    rc, o = sh(["git", "-C", "/repo", "worktree", "add", "-q", "--detach", wt, "HEAD"]); assert rc == 0, o
    try:
        rc, o = sh(["git", "apply", os.path.join(d, "patch.diff")], cwd=wt)
        if rc != 0:
            rc, o = sh(["git", "apply", "--3way", os.path.join(d, "patch.diff")], cwd=wt)
        if rc != 0:
            print(sid, "patch no longer applies:", o[-300:]); continue
        t0 = time.time()
        rc, o = sh([os.path.join(ROOT, "check"), prop, "--tier", a.tier], cwd=ROOT, env=dict(os.environ, VERIF_REPO=wt))
        viol = [l for l in o.splitlines() if l.startswith("VIOLATION")]
        det = {"tier": a.tier, "base": subprocess.check_output(["git", "-C", "/repo", "rev-parse", "--short", "HEAD"], text=True).strip(),
               "rc": rc, "detected": rc == 1 and bool(viol), "concrete_replay": bool(viol) and "no-failing-input-found" not in viol[0],
               "wall_s": round(time.time() - t0, 1), "output": "\n".join(o.splitlines()[:10])[:2000]}
        if viol and "replay=" in viol[0]:
            rp = viol[0].split("replay=")[1].split()[0]
            if os.path.exists(rp): det["replay_file"] = open(rp).read()[:2500]
        meta.setdefault("detection", {})[a.tier] = det
        json.dump(meta, open(os.path.join(d, "meta.json"), "w"), indent=1)
        print("%s prop=%s tier=%s detected=%s concrete=%s wall=%.0fs" % (sid, prop, a.tier, det["detected"], det["concrete_replay"], det["wall_s"]))
        if not det["detected"]:
            print("   " + "\n   ".join(o.splitlines()[:6]))
    finally:
        sh(["git", "-C", "/repo", "worktree", "remove", "--force", wt]); shutil.rmtree(wt, ignore_errors=True)
        rc, o = sh([os.path.join(ROOT, "check"), prop], cwd=ROOT)
        print("   restore: rc=%d %s" % (rc, (o.splitlines() or [""])[0][:150]))
        if rc != 0:
            # the unchanged tree is red for this property: the score above means nothing
            try:
                meta = json.load(open(os.path.join(d, "meta.json")))
                q = meta.get("detection", {}).get(a.tier)
                if q:
                    q["baseline_red"] = True
                    meta["detection"].pop(a.tier)
                    meta.setdefault("invalid_runs", []).append(q)
                    json.dump(meta, open(os.path.join(d, "meta.json"), "w"), indent=1)
                print("   BASELINE RED for %s: detection record of %s discarded" % (prop, sid))
            except Exception as e:
                print("   (could not discard record: %s)" % e)
