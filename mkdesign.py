#!/usr/bin/env python3
"""Rewrites the generated tables of DESIGN.md (between the AUTO markers) from props/*.json,
findings/*.json and seeded/*/meta.json."""
import glob, json, os, re
ROOT = os.path.dirname(os.path.abspath(__file__))


def esc(s, n=400):
    s = re.sub(r"\s+", " ", str(s)).replace("|", "\\|")
    return s if len(s) <= n else s[: n - 1] + "…"


out = []
out.append("## 10. Status per property (generated from `props/*.json` by `mkdesign.py`)\n")
out.append("| id | strength (`level_text`) | theorems audited | `_partial` theorems | quick cases | own mutations tried | what is assumed / not covered (`level_note`) |")
out.append("|----|----|----|----|----|----|----|")
for f in sorted(glob.glob(os.path.join(ROOT, "props", "C*.json"))):
    c = json.load(open(f))
    th = c.get("theorems", [])
    part = [t.split(".")[-1] for t in th if "partial" in t]
    out.append("| %s | %s | %d | %s | %s | %d | %s |" % (c["id"], esc(c.get("level_text", "full"), 160), len(th), esc(", ".join(part) or "–", 200),
                                                       c.get("quick_n", "?"), len(c.get("mutations_tried", [])), esc(c.get("level_note", ""), 500)))
out.append("")
out.append("## 11. Genuine defects of keep-core found by the checks (generated from `findings/*.json`)\n")
out.append("Every entry was reproduced on the real code by the harness op line given as replay; `fixed` entries were repaired by one minimal `fix:` commit in /repo (the package's unedited tests pass), the model follows the repaired code, the pre-fix behaviour is kept in the Lean files as a `…_counterexample`/`…_unfixed` theorem, and reverting the commit makes the check report the violation again. `fixed` entries suppress nothing.\n")
out.append("| property | kind | commit | what failed | replay (op line) |")
out.append("|----|----|----|----|----|")
nf = 0
for f in sorted(glob.glob(os.path.join(ROOT, "findings", "C*.json"))):
    for e in json.load(open(f)):
        nf += 1
        out.append("| %s | %s | %s | %s | `%s` |" % (e["property"], e["kind"], e.get("commit", "–"), esc(e["what"], 600), esc(e.get("replay", e.get("match", "")), 160)))
out.append("\n%d entries.\n" % nf)
out.append("## 12. Independently written breaking changes and which checks catch them (generated from `seeded/*/meta.json`)\n")
out.append("Each change was written by a fresh sub-agent that saw only the property text and its own scratch worktree, then confirmed by `seedtest.py` in a scratch worktree of /repo HEAD (applies, `go build ./...`, demonstration fails with the change and passes without it, the touched packages' tests of the baseline's stable list pass) and run through `./check` with `VERIF_REPO` pointing at the patched worktree (`seedcheck.py`). `detected (input)` = VIOLATION with a concrete failing input as replay; `detected (no input)` = a proof obligation or the correspondence broke and the search found no failing input (`no-failing-input-found`).\n")
out.append("| seed | property | change | needs, to manifest | quick check |")
out.append("|----|----|----|----|----|")
tot = det = conc = miss = 0
for d in sorted(glob.glob(os.path.join(ROOT, "seeded", "C*"))):
    try:
        m = json.load(open(os.path.join(d, "meta.json")))
    except Exception:
        continue
    q = m.get("detection", {}).get("quick")
    if not q:
        st = "not run yet"
    elif q.get("detected") is None:
        st = "n/a at HEAD: " + esc(q.get("note", ""), 80)
    elif q["detected"]:
        st = "detected (input)" if q.get("concrete_replay") else "detected (no input)"
    else:
        st = "MISSED"
    if q and q.get("detected") is not None:
        tot += 1; det += bool(q["detected"]); conc += bool(q["detected"] and q.get("concrete_replay")); miss += (not q["detected"])
    out.append("| %s | %s | %s | %s | %s |" % (os.path.basename(d), m["property"], esc(m.get("summary", ""), 330), esc(m.get("needs", ""), 330), st))
out.append("\n%d changes run: %d detected (%d with a concrete failing input), %d missed.\n" % (tot, det, conc, miss))

text = "\n".join(out)
p = os.path.join(ROOT, "DESIGN.md")
s = open(p).read()
B, E = "<!-- AUTO:BEGIN -->", "<!-- AUTO:END -->"
if B not in s:
    s = s.rstrip("\n") + "\n\n" + B + "\n" + E + "\n"
s = s[: s.index(B) + len(B)] + "\n" + text + "\n" + s[s.index(E):]
open(p, "w").write(s)
print("DESIGN.md tables regenerated: %d findings, %d seeded changes" % (nf, tot))
