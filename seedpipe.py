#!/usr/bin/env python3
"""Background pipeline: confirm new seeded changes from /tmp/mut/out (parallel), then run our
check on each (one at a time per property). Properties listed in /tmp/mut/defer.txt are
confirmed but not checked (their builder is still editing)."""
import glob, json, os, subprocess, threading, time
from concurrent.futures import ThreadPoolExecutor

ROOT = "/verif"; OUT = "/tmp/mut/out"; LOG = "/tmp/mut/pipeline.log"
locks = {}; inflight = set(); mu = threading.Lock()


def log(s):
    with mu:
        open(LOG, "a").write(time.strftime("%H:%M:%S ") + s + "\n")


def deferred():
    try:
        return set(open("/tmp/mut/defer.txt").read().split())
    except Exception:
        return set()


def work(sid):
    try:
        d = os.path.join(OUT, sid)
        sd = os.path.join(ROOT, "seeded", sid)
        if not os.path.isdir(sd) and not os.path.exists(os.path.join("/tmp/mut/rejected", sid + ".json")):
            log("confirm " + sid)
            p = subprocess.run([os.path.join(ROOT, "seedtest.py"), d, "--skip-check"], cwd=ROOT, capture_output=True, text=True)
            open("/tmp/mut/confirm-%s.log" % sid, "w").write(p.stdout + p.stderr)
            log("confirm %s -> %s" % (sid, "confirmed" if os.path.isdir(sd) else "REJECTED"))
        if os.path.isdir(sd):
            meta = json.load(open(os.path.join(sd, "meta.json")))
            prop = meta["property"]
            if "detection" not in meta and prop not in deferred() and os.path.exists(os.path.join(ROOT, "props", prop + ".json")):
                with mu:
                    lk = locks.setdefault(prop, threading.Lock())
                with lk:
                    p = subprocess.run([os.path.join(ROOT, "seedcheck.py"), sid], cwd=ROOT, capture_output=True, text=True)
                    log("check " + (p.stdout + p.stderr).strip().replace("\n", " | ")[:400])
    finally:
        with mu:
            inflight.discard(sid)


with ThreadPoolExecutor(5) as ex:
    while True:
        # wave 2 deliveries are copied into OUT as <id>-w2 once they have settled
        for d2 in sorted(glob.glob("/tmp/mut2/out/C*")) + sorted(glob.glob("/tmp/mut3/out/C*")):
            mj2 = os.path.join(d2, "meta.json")
            tgt = os.path.join(OUT, os.path.basename(d2) + ("-w3" if d2.startswith("/tmp/mut3") else "-w2"))
            if os.path.isdir(d2) and os.path.exists(mj2) and os.path.exists(os.path.join(d2, "patch.diff")) \
                    and time.time() - os.path.getmtime(mj2) > 240 and not os.path.exists(tgt):
                import shutil
                shutil.copytree(d2, tgt)
        for d in sorted(glob.glob(OUT + "/C*")):
            sid = os.path.basename(d)
            mj = os.path.join(d, "meta.json")
            if not (os.path.isdir(d) and os.path.exists(mj) and os.path.exists(os.path.join(d, "patch.diff"))):
                continue
            if "none found" in open(mj).read():
                continue
            if time.time() - os.path.getmtime(mj) < 180:
                continue
            sd = os.path.join(ROOT, "seeded", sid)
            done = os.path.exists(os.path.join("/tmp/mut/rejected", sid + ".json"))
            if os.path.isdir(sd):
                try:
                    m = json.load(open(os.path.join(sd, "meta.json")))
                except Exception:
                    continue
                done = "detection" in m or m["property"] in deferred()
            with mu:
                if done or sid in inflight:
                    continue
                inflight.add(sid)
            ex.submit(work, sid)
        time.sleep(45)
