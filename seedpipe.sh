#!/bin/bash
# Background pipeline: confirm new seeded changes from /tmp/mut/out, then run our check on them.
cd /verif
while true; do
  for d in /tmp/mut/out/C*; do
    [ -d "$d" ] || continue
    id=$(basename $d)
    [ -f $d/meta.json ] && [ -f $d/patch.diff ] || continue
    grep -q '"none found"' $d/meta.json && continue
    # settled for 3 minutes?
    [ $(( $(date +%s) - $(stat -c %Y $d/meta.json) )) -gt 180 ] || continue
    if [ ! -d seeded/$id ] && [ ! -f .work/seed-rejected/$id.json ]; then
      echo "$(date +%T) confirm $id" >> /tmp/mut/pipeline.log
      ./seedtest.py $d --skip-check > /tmp/mut/confirm-$id.log 2>&1
      grep -E '"confirmed"' /tmp/mut/confirm-$id.log >> /tmp/mut/pipeline.log
    fi
    if [ -d seeded/$id ] && ! grep -q '"detection"' seeded/$id/meta.json; then
      prop=$(python3 -c "import json;print(json.load(open('seeded/$id/meta.json'))['property'])")
      if ! grep -qw $prop /tmp/mut/defer.txt 2>/dev/null && [ -f props/$prop.json ]; then
        echo "$(date +%T) check $id" >> /tmp/mut/pipeline.log
        ./seedcheck.py $id >> /tmp/mut/pipeline.log 2>&1
      fi
    fi
  done
  sleep 60
done
