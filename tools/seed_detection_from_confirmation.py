#!/usr/bin/env python3
"""seedtest.py records the check's verdict under confirmation.check; mkdesign.py's table reads
detection.quick (written by seedcheck.py).  For seeds that only went through seedtest.py, copy the
verdict of that run (same check, same scratch worktree) into detection.quick."""
import json, glob, os, sys
for d in sorted(glob.glob('/verif/seeded/*')):
    p = os.path.join(d, 'meta.json')
    try: m = json.load(open(p))
    except Exception: continue
    if (m.get('detection') or {}).get('quick'): continue
    c = (m.get('confirmation') or {}).get('check')
    if not c: continue
    rf = c.get('replay_file', '') or ''
    concrete = bool(c.get('detected') and 'no-failing-input-found' not in c.get('output', '') and 'violated on the implementation' in rf)
    m['detection'] = {'quick': {'tier': 'quick', 'base': m['confirmation'].get('base'), 'rc': c.get('rc'), 'detected': c.get('detected'),
                                'concrete_replay': concrete, 'wall_s': c.get('wall_s'), 'note': 'from the seedtest.py run (same check, same scratch worktree)'}}
    json.dump(m, open(p, 'w'), indent=1)
    print(os.path.basename(d), c.get('detected'), concrete)
