#!/usr/bin/env python3
"""
seedtest.py <src-dir> [--no-tests] [--tier quick|thorough] [--keep]

Confirms an independently written breaking change (patch.diff + demonstration + meta.json in
<src-dir>, produced by a sub-agent that saw only the property text) in a scratch worktree of
/repo's HEAD, then runs our check for the property against that worktree, and files the change
under /verif/seeded/<id>/ with what was run and what the check said.

Steps: worktree add -> git apply -> go build ./... -> demo must FAIL -> git apply -R -> demo must
PASS -> re-apply -> existing tests of touched packages must pass -> VERIF_REPO=<wt> ./check <prop>
-> worktree remove -> ./check <prop> on /repo (restores generated facts).
"""
import argparse, json, os, shutil, subprocess, sys, time

ROOT = os.path.dirname(os.path.abspath(__file__))
ENV = dict(os.environ, GOFLAGS="-mod=mod", GOPROXY="off", GOSUMDB="off", GOTOOLCHAIN="local")


def sh(cmd, cwd=None, timeout=3600, env=None):
    p = subprocess.run(cmd, cwd=cwd, shell=isinstance(cmd, str), env=env or ENV, timeout=timeout,
                       stdout=subprocess.PIPE, stderr=subprocess.STDOUT, text=True, errors="replace")
    return p.returncode, p.stdout


def main():
    ap = argparse.ArgumentParser()
    ap.add_argument("src")
    ap.add_argument("--no-tests", action="store_true")
    ap.add_argument("--tier", default="quick")
    ap.add_argument("--skip-check", action="store_true")
    a = ap.parse_args()
    src = os.path.abspath(a.src)
    sid = os.path.basename(src.rstrip("/"))
    meta = json.load(open(os.path.join(src, "meta.json")))
    prop = meta["property"]
    wt = "/tmp/sv-" + sid
    res = {"seed_id": sid, "property": prop, "base": subprocess.check_output(["git", "-C", "/repo", "rev-parse", "--short", "HEAD"], text=True).strip(), "ran": []}
    sh(["git", "-C", "/repo", "worktree", "remove", "--force", wt]); shutil.rmtree(wt, ignore_errors=True)
    rc, out = sh(["git", "-C", "/repo", "worktree", "add", "-q", "--detach", wt, "HEAD"])
    assert rc == 0, out
    try:
        patch = os.path.join(src, "patch.diff")
        rc, out = sh(["git", "apply", patch], cwd=wt)
        if rc != 0:
            rc, out = sh(["git", "apply", "--3way", patch], cwd=wt)
            res["ran"].append("git apply --3way (plain apply failed on HEAD with fix commits)")
            sh(["git", "reset", "-q"], cwd=wt)
        res["applies"] = rc == 0
        if rc != 0:
            res["error"] = out[-1500:]
            return finish(res, src, meta, wt)
        # save the patch as it applies to HEAD
        rc, headpatch = sh(["git", "diff"], cwd=wt)
        rc, out = sh("go build ./...", cwd=wt, timeout=1800)
        res["builds"] = rc == 0
        res["ran"].append("go build ./...")
        if rc != 0:
            res["error"] = out[-1500:]
            return finish(res, src, meta, wt)
        demo = meta.get("demo", {})
        demo_src = os.path.join(src, demo.get("file", "zz_mut_demo_test.go"))
        place = os.path.join(wt, demo.get("place_at", ""))
        run = demo.get("run", "")
        if os.path.isdir(place):
            place = os.path.join(place, os.path.basename(demo_src))
        if os.path.exists(demo_src) and run:
            os.makedirs(os.path.dirname(place), exist_ok=True)
            shutil.copy(demo_src, place)
            rc1, o1 = sh(run, cwd=wt, timeout=2400)
            res["demo_fails_with_patch"] = rc1 != 0
            res["ran"].append(run + "  (with patch: rc=%d)" % rc1)
            open(os.path.join(wt, ".p.diff"), "w").write(headpatch)
            sh(["git", "apply", "-R", ".p.diff"], cwd=wt)
            rc2, o2 = sh(run, cwd=wt, timeout=2400)
            for _ in range(2):          # a demo that drives real protocols may time out under load: retry on the clean tree
                if rc2 == 0: break
                rc2, o2 = sh(run, cwd=wt, timeout=2400)
            res["demo_passes_without_patch"] = rc2 == 0
            res["ran"].append(run + "  (without patch: rc=%d)" % rc2)
            if rc2 != 0:
                res["demo_clean_output"] = o2[-1200:]
            sh(["git", "apply", ".p.diff"], cwd=wt)
            os.remove(place); os.remove(os.path.join(wt, ".p.diff"))
        else:
            res["demo_missing"] = True
        if not a.no_tests:
            pkgs = sorted({"./" + os.path.dirname(f) + "/" for f in meta.get("touched_files", []) if f.endswith(".go")})
            ok_all = True
            stable = set(json.load(open("/root/.vp/BASELINE.json"))["stable_pass"])
            def stable_failures(p, o):
                pkg = "github.com/keep-network/keep-core/" + p.strip("./")
                names = [l.split()[2] for l in o.splitlines() if l.startswith("--- FAIL:") and len(l.split()) > 2]
                bad = [n for n in names if (pkg + "::" + n) in stable]
                if not names and ("panic:" in o or "FAIL" in o):   # build failure / crash: no test names
                    bad = ["<package failed without a named test>"]
                return bad, names
            for p in pkgs:
                cmd = "go test -vet=off -count=1 -timeout 40m -skip TestWatchCoordinationWindows " + p
                bad = names = None
                for attempt in range(3):  # loaded machine: wall-clock tests flake; retry the package
                    rc, o = sh(cmd, cwd=wt, timeout=3000)
                    if rc == 0:
                        bad, names = [], []
                        break
                    bad, names = stable_failures(p, o)
                    if not bad:
                        break
                res["ran"].append("%s (rc=%d; failing tests: %s; of which in the baseline's stable_pass list: %s)" % (cmd, rc, names, bad))
                if bad:
                    ok_all = False
                    res.setdefault("test_failures", {})[p] = "\n".join(l for l in o.splitlines() if l.startswith(("--- FAIL", "FAIL", "panic")))[-800:]
            res["existing_tests_pass"] = ok_all
        if not a.skip_check and os.path.exists(os.path.join(ROOT, "props", prop + ".json")):
            t0 = time.time()
            rc, o = sh([os.path.join(ROOT, "check"), prop, "--tier", a.tier], cwd=ROOT, env=dict(os.environ, VERIF_REPO=wt), timeout=7200)
            res["check"] = {"tier": a.tier, "rc": rc, "detected": rc == 1 and "VIOLATION" in o, "wall_s": round(time.time() - t0, 1),
                            "output": "\n".join(o.splitlines()[:14])[:2500]}
            # keep the replay the check wrote
            for l in o.splitlines():
                if l.startswith("VIOLATION") and "replay=" in l:
                    rp = l.split("replay=")[1].split()[0]
                    if os.path.exists(rp):
                        res["check"]["replay_file"] = open(rp).read()[:3000]
        return finish(res, src, meta, wt, headpatch)
    finally:
        sh(["git", "-C", "/repo", "worktree", "remove", "--force", wt]); shutil.rmtree(wt, ignore_errors=True)
        if not a.skip_check and os.path.exists(os.path.join(ROOT, "props", prop + ".json")):
            rc, o = sh([os.path.join(ROOT, "check"), prop], cwd=ROOT, timeout=3600)
            print("restore check on /repo: rc=%d %s" % (rc, o.splitlines()[0] if o else ""))


def finish(res, src, meta, wt, headpatch=None):
    ok = res.get("applies") and res.get("builds") and res.get("demo_fails_with_patch") and res.get("demo_passes_without_patch") and res.get("existing_tests_pass", True)
    res["confirmed"] = bool(ok)
    dst = os.path.join(ROOT, "seeded", res["seed_id"])
    print(json.dumps({k: v for k, v in res.items() if k != "ran"}, indent=1)[:3000])
    if ok:
        os.makedirs(dst, exist_ok=True)
        for f in os.listdir(src):
            if f.endswith((".diff", ".go", ".txt", ".md")):
                shutil.copy(os.path.join(src, f), os.path.join(dst, f))
        if headpatch:
            open(os.path.join(dst, "patch.diff"), "w").write(headpatch)
        m = dict(meta); m["confirmation"] = res
        json.dump(m, open(os.path.join(dst, "meta.json"), "w"), indent=1)
    else:
        os.makedirs("/tmp/mut/rejected", exist_ok=True)
        json.dump(res, open(os.path.join("/tmp/mut/rejected", res["seed_id"] + ".json"), "w"), indent=1)
    return 0


if __name__ == "__main__":
    sys.exit(main())
