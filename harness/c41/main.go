// C41: ephemeral ECDH channels agree on keys and reject tampering.
//
// Op line (one complete two-party channel per line):
//
//	ec <a> <b> <c> <pt> <nonce> <mods>
//
// a, b   private scalars of the two parties: lower-case hex of the big-endian bytes handed to
//
//	UnmarshalPrivateKey ("-" = empty)
//
// c      a third scalar: claimed private key for IsKeyMatching(pub(a), c) and the key of an
//
//	outsider who tries c.Ecdh(pub(a)) on a's ciphertext
//
// pt     plaintext: x<hex> literal ("x" = empty) or g<len>.<seed> (byte i = (seed + 131*i + 7*(i/256)) mod 256)
// nonce  48 hex digits: the 24 bytes crypto/rand.Reader yields to Encrypt (scripted)
// mods   "-" or comma list of independent modifications of the ciphertext a -> b, each decrypted by b:
//
//	x<pos>.<mask> xor byte pos with mask; t<n> truncate to n bytes; e<n> append n zero bytes
//
// Obs: agree=<t|f> ref=<t|f> ct=<len>:<first 24 bytes hex> dec=<ok:len:checksum|err> wrong=<o|x|r>
//
//	mods=<one of o|x|r per modification, or -> back=<ok:len:checksum|err> match=<t|f>x4
//
// agree  Encrypt under a.Ecdh(pub b) and under b.Ecdh(pub a) with the same nonce give the same bytes
// ref    …and the same bytes as a box keyed with sha256(X((a*b mod N)·G)) computed independently
// o = decrypts to the original plaintext, x = decrypts to something else, r = rejected
// back   what b encrypts (same nonce) is decrypted by a
// match  IsKeyMatching(pub(a), c), IsKeyMatching(pub(a), a), IsKeyMatching(pub(b), c), IsKeyMatching(pub(c), a)
// The public keys travel in a wire form chosen by nonce[0] mod 3: compressed, uncompressed, hybrid.
package main

import (
	"bytes"
	crand "crypto/rand"
	"crypto/sha256"
	"encoding/hex"
	"errors"
	"fmt"
	"math/big"
	"strconv"
	"strings"

	"github.com/btcsuite/btcd/btcec"
	"github.com/keep-network/keep-common/pkg/encryption"
	"golang.org/x/crypto/nacl/secretbox"

	"keepverif/harness/hx"

	"github.com/keep-network/keep-core/pkg/crypto/ephemeral"
)

const csMod = 2147483647 // 2^31 - 1

func checksum(b []byte) uint64 {
	var cs uint64
	for _, x := range b {
		cs = (cs*257 + uint64(x) + 1) % csMod
	}
	return cs
}

var curveN = btcec.S256().N

func scalarHex(v *big.Int) string {
	if v.Sign() == 0 {
		return "-"
	}
	return hex.EncodeToString(v.Bytes())
}

// scalarEnc is scalarHex with occasional non-canonical encodings (leading zero bytes, "00" for 0).
func scalarEnc(r *hx.Rng, v *big.Int) string {
	h := scalarHex(v)
	if r.Chance(1, 10) {
		if h == "-" {
			return strings.Repeat("00", r.Range(1, 3))
		}
		if len(h) < 80 {
			return strings.Repeat("00", r.Range(1, 3)) + h
		}
	}
	return h
}

func randScalar(r *hx.Rng) *big.Int {
	switch r.Intn(14) {
	case 0:
		return big.NewInt(int64(r.Range(1, 3)))
	case 1:
		return new(big.Int).Sub(curveN, big.NewInt(int64(r.Range(1, 3))))
	case 2:
		return new(big.Int).SetBytes(r.Bytes(r.Range(1, 31)))
	default:
		v := new(big.Int).SetBytes(r.Bytes(32))
		v.Mod(v, curveN)
		if v.Sign() == 0 {
			v.SetInt64(1)
		}
		return v
	}
}

func gen(r *hx.Rng, n int, tier string) []string {
	var ops []string
	for i := 0; i < n; i++ {
		a, b := randScalar(r), randScalar(r)
		if r.Chance(1, 25) {
			b = new(big.Int).Set(a)
		}
		if r.Chance(1, 20) { // unreduced / degenerate encodings of private keys
			switch r.Intn(4) {
			case 0:
				a = new(big.Int).Add(a, curveN)
			case 1:
				b = new(big.Int).Add(b, curveN)
			case 2:
				a = new(big.Int).Set(curveN) // = 0 mod N
			default:
				b = big.NewInt(0)
			}
		}
		var c *big.Int
		switch r.Intn(12) {
		case 0:
			c = new(big.Int).Set(a)
		case 1:
			c = new(big.Int).Sub(curveN, new(big.Int).Mod(a, curveN)) // -a: same X, other Y
		case 2:
			c = new(big.Int).Add(a, curveN)
		case 3:
			c = new(big.Int).Add(a, big.NewInt(1))
		case 4:
			c = new(big.Int).Set(b)
		case 5:
			c = new(big.Int).Sub(curveN, new(big.Int).Mod(b, curveN)) // -b: same shared X
		case 6:
			c = new(big.Int).Add(b, curveN)
		case 7:
			c = big.NewInt(int64(r.Intn(2))) // 0 or 1
		case 8:
			c = new(big.Int).Add(new(big.Int).Lsh(curveN, 1), a) // a + 2N (33 bytes)
		default:
			c = randScalar(r)
		}
		// plaintext
		var pt string
		ptLen := 0
		switch r.Intn(10) {
		case 0:
			pt = "x"
		case 1, 2, 3:
			ptLen = r.Range(1, 40)
			pt = "x" + hex.EncodeToString(r.Bytes(ptLen))
		case 4, 5, 6:
			ptLen = hx.Pick(r, []int{1, 15, 16, 17, 31, 32, 33, 63, 64, 65, 255, 256, 257, 1000})
			pt = fmt.Sprintf("g%d.%d", ptLen, r.Intn(256))
		case 7, 8:
			ptLen = r.Range(100, 3000)
			pt = fmt.Sprintf("g%d.%d", ptLen, r.Intn(256))
		default:
			ptLen = hx.Pick(r, []int{4096, 16384, 65536})
			if tier == "thorough" && r.Chance(1, 20) {
				ptLen = 1 << 20
			}
			pt = fmt.Sprintf("g%d.%d", ptLen, r.Intn(256))
		}
		ctLen := 24 + 16 + ptLen
		nb := r.Bytes(24)
		switch r.Intn(20) {
		case 0:
			nb = make([]byte, 24)
		case 1:
			nb = bytes.Repeat([]byte{0xff}, 24)
		case 2:
			nb = append([]byte{byte(r.Intn(3))}, make([]byte, 23)...)
		}
		nonce := hex.EncodeToString(nb)
		var mods []string
		if ctLen <= 72 && r.Chance(1, 3) {
			// every single byte of a short ciphertext
			mask := 1 << uint(r.Intn(8))
			if r.Chance(1, 3) {
				mask = r.Range(1, 255)
			}
			for p := 0; p < ctLen; p++ {
				mods = append(mods, fmt.Sprintf("x%d.%d", p, mask))
			}
		} else {
			for k := r.Range(0, 8); k > 0; k-- {
				switch r.Intn(10) {
				case 0:
					mods = append(mods, fmt.Sprintf("x%d.0", r.Intn(ctLen))) // no change
				case 1:
					mods = append(mods, fmt.Sprintf("t%d", r.Intn(24))) // shorter than the nonce
				case 2:
					mods = append(mods, fmt.Sprintf("t%d", r.Range(24, 40))) // shorter than nonce+tag
				case 3:
					mods = append(mods, fmt.Sprintf("t%d", r.Range(0, ctLen)))
				case 4:
					mods = append(mods, fmt.Sprintf("e%d", r.Range(0, 3)))
				case 5:
					mods = append(mods, fmt.Sprintf("x%d.%d", r.Intn(24), r.Range(1, 255))) // nonce
				case 6:
					mods = append(mods, fmt.Sprintf("x%d.%d", 24+r.Intn(16), r.Range(1, 255))) // tag
				case 7:
					mods = append(mods, fmt.Sprintf("x%d.%d", ctLen-1, 1<<uint(r.Intn(8)))) // last byte
				default:
					mods = append(mods, fmt.Sprintf("x%d.%d", r.Intn(ctLen), r.Range(1, 255)))
				}
			}
		}
		ops = append(ops, fmt.Sprintf("ec %s %s %s %s %s %s", scalarEnc(r, a), scalarEnc(r, b), scalarEnc(r, c), pt, nonce, hx.JoinStrs(mods)))
	}
	return ops
}

// ---- parsing -----------------------------------------------------------------

func lowerHex(s string) ([]byte, bool) {
	if strings.ToLower(s) != s {
		return nil, false
	}
	b, err := hex.DecodeString(s)
	return b, err == nil
}

func parseScalar(s string) ([]byte, bool) {
	if s == "-" {
		return []byte{}, true
	}
	b, ok := lowerHex(s)
	if !ok || len(b) == 0 || len(b) > 48 {
		return nil, false
	}
	return b, true
}

func small(s string, max int) (int, bool) {
	if s == "" || len(s) > 8 {
		return 0, false
	}
	for _, c := range s {
		if c < '0' || c > '9' {
			return 0, false
		}
	}
	v, _ := strconv.Atoi(s)
	return v, v <= max
}

func parsePlain(s string) ([]byte, bool) {
	if strings.HasPrefix(s, "x") {
		b, ok := lowerHex(s[1:])
		return b, ok && len(b) <= 4096
	}
	if strings.HasPrefix(s, "g") {
		p := strings.Split(s[1:], ".")
		if len(p) != 2 {
			return nil, false
		}
		n, ok1 := small(p[0], 1<<21)
		seed, ok2 := small(p[1], 255)
		if !ok1 || !ok2 {
			return nil, false
		}
		b := make([]byte, n)
		for i := range b {
			b[i] = byte((seed + 131*i + 7*(i/256)) % 256)
		}
		return b, true
	}
	return nil, false
}

type mod struct {
	kind byte
	a, b int
}

func parseMods(s string, ctLen int) ([]mod, bool) {
	var out []mod
	for _, it := range hx.SplitList(s) {
		if len(it) < 2 {
			return nil, false
		}
		switch it[0] {
		case 'x':
			p := strings.Split(it[1:], ".")
			if len(p) != 2 {
				return nil, false
			}
			pos, ok1 := small(p[0], ctLen-1)
			mask, ok2 := small(p[1], 255)
			if !ok1 || !ok2 {
				return nil, false
			}
			out = append(out, mod{'x', pos, mask})
		case 't':
			n, ok := small(it[1:], ctLen)
			if !ok {
				return nil, false
			}
			out = append(out, mod{'t', n, 0})
		case 'e':
			n, ok := small(it[1:], 64)
			if !ok {
				return nil, false
			}
			out = append(out, mod{'e', n, 0})
		default:
			return nil, false
		}
	}
	return out, true
}

type scripted struct{ buf []byte }

func (s *scripted) Read(p []byte) (int, error) {
	if len(s.buf) == 0 {
		return 0, errors.New("scripted randomness exhausted")
	}
	n := copy(p, s.buf)
	s.buf = s.buf[n:]
	return n, nil
}

func pubOf(p *ephemeral.PrivateKey) *ephemeral.PublicKey {
	return (*ephemeral.PublicKey)(&(*btcec.PrivateKey)(p).PublicKey)
}

func verdict(pt []byte, err error, orig []byte) byte {
	if err != nil {
		return 'r'
	}
	if bytes.Equal(pt, orig) {
		return 'o'
	}
	return 'x'
}

func tf(b bool) string {
	if b {
		return "t"
	}
	return "f"
}

func exec(op string) (string, string) {
	f := strings.Split(op, " ")
	if len(f) != 7 || f[0] != "ec" {
		return "bad-op", "bad"
	}
	ab, ok1 := parseScalar(f[1])
	bb, ok2 := parseScalar(f[2])
	cb, ok3 := parseScalar(f[3])
	pt, ok4 := parsePlain(f[4])
	nonce, ok5 := lowerHex(f[5])
	if !ok1 || !ok2 || !ok3 || !ok4 || !ok5 || len(nonce) != encryption.NonceSize {
		return "bad-op", "bad"
	}
	ctLen := encryption.NonceSize + secretbox.Overhead + len(pt)
	mods, ok6 := parseMods(f[6], ctLen)
	if !ok6 {
		return "bad-op", "bad"
	}

	a, b, c := ephemeral.UnmarshalPrivateKey(ab), ephemeral.UnmarshalPrivateKey(bb), ephemeral.UnmarshalPrivateKey(cb)
	// public keys travel in their wire form, as in the protocols
	wire := func(p *ephemeral.PublicKey) []byte {
		switch nonce[0] % 3 {
		case 1:
			return (*btcec.PublicKey)(p).SerializeUncompressed()
		case 2:
			return (*btcec.PublicKey)(p).SerializeHybrid()
		}
		return p.Marshal()
	}
	pubA, errA := ephemeral.UnmarshalPublicKey(wire(pubOf(a)))
	pubB, errB := ephemeral.UnmarshalPublicKey(wire(pubOf(b)))
	tags := []string{[]string{"wire-compressed", "wire-uncompressed", "wire-hybrid"}[nonce[0]%3]}
	if errA != nil || errB != nil {
		// a scalar = 0 mod N has no public key encoding (point at infinity): not a key pair
		pubA, pubB = pubOf(a), pubOf(b)
		tags = append(tags, "degenerate")
	}
	ka := a.Ecdh(pubB)
	kb := b.Ecdh(pubA)
	kc := c.Ecdh(pubA)

	old := crand.Reader
	defer func() { crand.Reader = old }()
	script := func() { crand.Reader = &scripted{buf: append([]byte{}, nonce...)} }

	script()
	ct, err := ka.Encrypt(pt)
	if err != nil {
		return "encrypt-error", "bad"
	}
	script()
	ct2, err := kb.Encrypt(pt)
	if err != nil {
		return "encrypt-error", "bad"
	}
	// independent reference: sha256(X((a*b mod N)·G))
	prod := new(big.Int).Mul(new(big.Int).SetBytes(ab), new(big.Int).SetBytes(bb))
	prod.Mod(prod, curveN)
	rx, _ := btcec.S256().ScalarBaseMult(prod.Bytes())
	script()
	ct3, err := encryption.NewBox(sha256.Sum256(rx.Bytes())).Encrypt(pt)
	if err != nil {
		return "encrypt-error", "bad"
	}
	crand.Reader = old

	var obs []string
	obs = append(obs, "agree="+tf(bytes.Equal(ct, ct2)), "ref="+tf(bytes.Equal(ct, ct3)))
	head := ct
	if len(head) > 24 {
		head = head[:24]
	}
	obs = append(obs, fmt.Sprintf("ct=%d:%s", len(ct), hex.EncodeToString(head)))
	dec, err := kb.Decrypt(append([]byte{}, ct...))
	if err != nil {
		obs = append(obs, "dec=err")
	} else {
		obs = append(obs, fmt.Sprintf("dec=ok:%d:%d", len(dec), checksum(dec)))
		tags = append(tags, "roundtrip")
	}
	dw, err := kc.Decrypt(append([]byte{}, ct...))
	w := verdict(dw, err, pt)
	obs = append(obs, "wrong="+string(w))
	if w == 'r' {
		tags = append(tags, "wrong-rej")
	} else {
		tags = append(tags, "wrong-same")
	}
	var ms []byte
	for _, m := range mods {
		var mc []byte
		switch m.kind {
		case 'x':
			mc = append([]byte{}, ct...)
			mc[m.a] ^= byte(m.b)
			if m.b == 0 {
				tags = append(tags, "mod-none")
			}
		case 't':
			// keep spare capacity behind the slice, like a buffer read from the network
			mc = append(make([]byte, 0, len(ct)+8), ct[:m.a]...)
			if m.a < encryption.NonceSize {
				tags = append(tags, "short")
			}
		case 'e':
			mc = append(append([]byte{}, ct...), make([]byte, m.a)...)
		}
		d, err := kb.Decrypt(mc)
		v := verdict(d, err, pt)
		if v == 'r' {
			tags = append(tags, "mod-rej")
		}
		ms = append(ms, v)
	}
	if len(ms) == 0 {
		obs = append(obs, "mods=-")
	} else {
		obs = append(obs, "mods="+string(ms))
	}
	back, err := ka.Decrypt(append([]byte{}, ct2...))
	if err != nil {
		obs = append(obs, "back=err")
	} else {
		obs = append(obs, fmt.Sprintf("back=ok:%d:%d", len(back), checksum(back)))
	}
	m1, m2 := pubA.IsKeyMatching(c), pubA.IsKeyMatching(a)
	m3, m4 := pubB.IsKeyMatching(c), pubOf(c).IsKeyMatching(a)
	obs = append(obs, "match="+tf(m1)+tf(m2)+tf(m3)+tf(m4))
	if m3 {
		tags = append(tags, "match-b-true")
	}
	if m1 {
		tags = append(tags, "match-true")
	} else {
		tags = append(tags, "match-false")
		if pubOf(c).X != nil && pubA.X != nil && pubOf(c).X.Cmp(pubA.X) == 0 {
			tags = append(tags, "match-false-same-x")
		}
	}
	if len(pt) == 0 {
		tags = append(tags, "empty")
	}
	if len(pt) >= 4096 {
		tags = append(tags, "big")
	}
	seen := map[string]bool{}
	var ts []string
	for _, t := range tags {
		if !seen[t] {
			seen[t] = true
			ts = append(ts, t)
		}
	}
	return strings.Join(obs, " "), strings.Join(ts, "+")
}

func main() {
	hx.Main(&hx.Config{
		Prop: "C41",
		Gen:  gen,
		Exec: exec,
		Facts: func() []string {
			return []string{
				"nat curveOrder " + curveN.String(),
				fmt.Sprintf("nat nonceSize %d", encryption.NonceSize),
				fmt.Sprintf("nat overhead %d", secretbox.Overhead),
			}
		},
	})
}
