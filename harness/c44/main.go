// C44: explicit configuration is never overridden by network defaults.
//
// Op line:  cfg <net> <peers> <electrum> <contracts> <timeouts>
//
//	net:       m no network flag | M --mainnet | t --testnet | d --developer |
//	           x --testnet --developer (rejected by cobra) | n ReadConfig with a nil flag set
//	peers / electrum:  - unset | f config file | F flag | b both (file and flag) | e (peers only) empty list in file
//	contracts: 8 characters (RandomBeacon WalletRegistry Bridge MaintainerProxy LightRelay
//	           LightRelayMaintainerProxy TokenStaking WalletProposalValidator), each
//	           - unset | f file | F flag | b both | x file value that is not a hex address
//
//	timeouts:  5 characters, the other `bitcoin.electrum.*` values (ConnectTimeout ConnectRetryTimeout
//	           RequestTimeout RequestRetryTimeout KeepAliveInterval), each - unset | f file | F flag | b both
//
// Default contract addresses: where the checkout embeds none, the harness assigns synthetic ones to
// the exported package variables the resolver reads (…/gen.RandomBeaconAddress etc.) before any case.
//
// Every case: fresh viper instance (viper.Reset), fresh cobra command built like the client
// commands (cmd.initGlobalFlags + cmd.initFlags through the verif hook), a config file written to
// a temp dir, the real Config.ReadConfig.
//
// Observation: rc=<ok|err:validation|err:flags|err:other> eth=<n> btc=<n> peers=<file|flag|default:<network>|none|other>
// electrum=<file|flag|default:<btc network>|none|other> contracts=<8 x f|F|D|x|-|?>
// etimeouts=<5 x f|F|d (the flag's default value)|0 (zero)|?>
package main

import (
	"fmt"
	"os"
	"path/filepath"
	"reflect"
	"strings"
	"time"

	"github.com/spf13/cobra"
	"github.com/spf13/viper"

	"keepverif/harness/hx"

	"github.com/keep-network/keep-core/cmd"
	"github.com/keep-network/keep-core/config"
	"github.com/keep-network/keep-core/config/network"
	"github.com/keep-network/keep-core/pkg/bitcoin"
	"github.com/keep-network/keep-core/pkg/bitcoin/electrum"
	chainEthereum "github.com/keep-network/keep-core/pkg/chain/ethereum"
	ethereumBeacon "github.com/keep-network/keep-core/pkg/chain/ethereum/beacon/gen"
	ethereumEcdsa "github.com/keep-network/keep-core/pkg/chain/ethereum/ecdsa/gen"
	ethereumTbtc "github.com/keep-network/keep-core/pkg/chain/ethereum/tbtc/gen"
	ethereumThreshold "github.com/keep-network/keep-core/pkg/chain/ethereum/threshold/gen"
)

type contract struct{ name, def string }

var contracts []contract

var synthesizedDefaults = 0

func defaultAddr(i int) string { return fmt.Sprintf("0x%039dd", i+1) }

func init() {
	ptrs := []*string{
		&ethereumBeacon.RandomBeaconAddress, &ethereumEcdsa.WalletRegistryAddress, &ethereumTbtc.BridgeAddress,
		&ethereumTbtc.MaintainerProxyAddress, &ethereumTbtc.LightRelayAddress, &ethereumTbtc.LightRelayMaintainerProxyAddress,
		&ethereumThreshold.TokenStakingAddress, &ethereumTbtc.WalletProposalValidatorAddress,
	}
	names := []string{
		chainEthereum.RandomBeaconContractName, chainEthereum.WalletRegistryContractName, chainEthereum.BridgeContractName,
		chainEthereum.MaintainerProxyContractName, chainEthereum.LightRelayContractName,
		chainEthereum.LightRelayMaintainerProxyContractName, chainEthereum.TokenStakingContractName,
		chainEthereum.WalletProposalValidatorContractName,
	}
	for i, p := range ptrs {
		// leave one contract (the last) without a default so that the "no default embedded" path stays covered
		if *p == "" && i != len(ptrs)-1 {
			*p = defaultAddr(i)
			synthesizedDefaults++
		}
		contracts = append(contracts, contract{names[i], *p})
	}
}

type timeoutField struct {
	key      string
	flag     string
	get      func(*config.Config) time.Duration
	flagDflt time.Duration
}

var timeoutFields = []timeoutField{
	{"ConnectTimeout", "bitcoin.electrum.connectTimeout", func(c *config.Config) time.Duration { return c.Bitcoin.Electrum.ConnectTimeout }, electrum.DefaultConnectTimeout},
	{"ConnectRetryTimeout", "bitcoin.electrum.connectRetryTimeout", func(c *config.Config) time.Duration { return c.Bitcoin.Electrum.ConnectRetryTimeout }, electrum.DefaultConnectRetryTimeout},
	{"RequestTimeout", "bitcoin.electrum.requestTimeout", func(c *config.Config) time.Duration { return c.Bitcoin.Electrum.RequestTimeout }, electrum.DefaultRequestTimeout},
	{"RequestRetryTimeout", "bitcoin.electrum.requestRetryTimeout", func(c *config.Config) time.Duration { return c.Bitcoin.Electrum.RequestRetryTimeout }, electrum.DefaultRequestRetryTimeout},
	{"KeepAliveInterval", "bitcoin.electrum.keepAliveInterval", func(c *config.Config) time.Duration { return c.Bitcoin.Electrum.KeepAliveInterval }, electrum.DefaultKeepAliveInterval},
}

func fileTimeout(i int) time.Duration { return time.Duration(101+i) * time.Second }
func flagTimeout(i int) time.Duration { return time.Duration(201+i) * time.Second }

const (
	filePeer     = "/ip4/10.0.0.1/tcp/3919/ipfs/16Uiu2HAmFilePeerFilePeerFilePeerFilePeerFilePeerFile"
	flagPeer     = "/ip4/10.0.0.2/tcp/3919/ipfs/16Uiu2HAmFlagPeerFlagPeerFlagPeerFlagPeerFlagPeerFlag"
	fileElectrum = "tcp://file.electrum.example:50001"
	flagElectrum = "tcp://flag.electrum.example:50001"
	invalidAddr  = "0xnot-a-hex-address"
)

func fileAddr(i int) string { return fmt.Sprintf("0x%039df", i+1) }
func flagAddr(i int) string { return fmt.Sprintf("0x%039da", i+1) }

func networkNames() []string {
	return []string{network.Unknown.String(), network.Mainnet.String(), network.Testnet.String(), network.Developer.String()}
}

func sameSet(a, b []string) bool {
	return len(a) > 0 && reflect.DeepEqual(a, b)
}

func exec(op string) (string, string) {
	fs := strings.Fields(op)
	if len(fs) != 6 || fs[0] != "cfg" || len(fs[5]) != len(timeoutFields) || strings.Trim(fs[5], "-fFb") != "" || len(fs[1]) != 1 || !strings.Contains("mMtdxn", fs[1]) ||
		len(fs[2]) != 1 || !strings.Contains("-fFbe", fs[2]) || len(fs[3]) != 1 || !strings.Contains("-fFb", fs[3]) ||
		len(fs[4]) != len(contracts) || strings.Trim(fs[4], "-fFbx") != "" {
		return "bad-op", "bad"
	}
	net, peers, electrum, cs, ts := fs[1], fs[2], fs[3], fs[4], fs[5]
	nilFlags := net == "n"
	if nilFlags && (peers == "F" || peers == "b" || electrum == "F" || electrum == "b" || strings.ContainsAny(cs, "Fb") || strings.ContainsAny(ts, "Fb")) {
		return "bad-op", "bad"
	}
	viper.Reset() // fresh global viper instance for every case
	if err := os.Setenv(config.EthereumPasswordEnvVariable, "password"); err != nil {
		panic(err)
	}
	dir, err := os.MkdirTemp("", "c44")
	if err != nil {
		panic(err)
	}
	defer os.RemoveAll(dir)

	var b strings.Builder
	b.WriteString("[ethereum]\nURL = \"ws://eth.example:8546\"\nKeyFile = \"/tmp/keyfile\"\n")
	esec := ""
	if electrum == "f" || electrum == "b" {
		esec += fmt.Sprintf("URL = %q\n", fileElectrum)
	}
	for i, tf := range timeoutFields {
		if ts[i] == 'f' || ts[i] == 'b' {
			esec += fmt.Sprintf("%s = %q\n", tf.key, fileTimeout(i).String())
		}
	}
	if esec != "" {
		b.WriteString("[bitcoin.electrum]\n" + esec)
	}
	b.WriteString("[network]\nPort = 3919\n")
	switch peers {
	case "f", "b":
		fmt.Fprintf(&b, "Peers = [%q]\n", filePeer)
	case "e":
		b.WriteString("Peers = []\n")
	}
	b.WriteString("[storage]\nDir = \"/tmp/storage\"\n")
	dev := ""
	for i, c := range contracts {
		switch cs[i] {
		case 'f', 'b':
			dev += fmt.Sprintf("%sAddress = %q\n", c.name, fileAddr(i))
		case 'x':
			dev += fmt.Sprintf("%sAddress = %q\n", c.name, invalidAddr)
		}
	}
	if dev != "" {
		b.WriteString("[developer]\n" + dev)
	}
	path := filepath.Join(dir, "config.toml")
	if err := os.WriteFile(path, []byte(b.String()), 0o600); err != nil {
		panic(err)
	}

	cfg := &config.Config{}
	rc := "ok"
	ran := false
	if nilFlags {
		ran = true
		if err := cfg.ReadConfig(path, nil, config.AllCategories...); err != nil {
			rc = classify(err)
		}
	} else {
		var cfgPath string
		var readErr error
		command := &cobra.Command{
			Use:           "verif",
			SilenceErrors: true,
			SilenceUsage:  true,
			PreRun: func(c *cobra.Command, args []string) {
				ran = true
				readErr = cfg.ReadConfig(cfgPath, c.Flags(), config.AllCategories...)
			},
			Run: func(c *cobra.Command, args []string) {},
		}
		cmd.VerifC44InitFlags(command, &cfgPath, cfg, config.AllCategories...)
		args := []string{"--config", path}
		switch net {
		case "M":
			args = append(args, "--mainnet")
		case "t":
			args = append(args, "--testnet")
		case "d":
			args = append(args, "--developer")
		case "x":
			args = append(args, "--testnet", "--developer")
		}
		if peers == "F" || peers == "b" {
			args = append(args, "--network.peers", flagPeer)
		}
		if electrum == "F" || electrum == "b" {
			args = append(args, "--bitcoin.electrum.url", flagElectrum)
		}
		for i, c := range contracts {
			if cs[i] == 'F' || cs[i] == 'b' {
				args = append(args, "--"+config.GetDeveloperContractAddressKey(c.name), flagAddr(i))
			}
		}
		for i, tf := range timeoutFields {
			if ts[i] == 'F' || ts[i] == 'b' {
				args = append(args, "--"+tf.flag, flagTimeout(i).String())
			}
		}
		command.SetArgs(args)
		command.SetOut(new(strings.Builder))
		command.SetErr(new(strings.Builder))
		if err := command.Execute(); err != nil {
			return "rc=err:flags", "flags-rejected"
		}
		if readErr != nil {
			rc = classify(readErr)
		}
	}
	if !ran {
		return "rc=err:notrun", "notrun"
	}

	tags := map[string]bool{}
	// peers
	pobs := "other"
	switch {
	case len(cfg.LibP2P.Peers) == 0:
		pobs = "none"
	case reflect.DeepEqual(cfg.LibP2P.Peers, []string{filePeer}):
		pobs = "file"
	case reflect.DeepEqual(cfg.LibP2P.Peers, []string{flagPeer}):
		pobs = "flag"
	default:
		for _, n := range []network.Type{network.Mainnet, network.Testnet} {
			if d, err := config.VerifC44ReadPeers(n); err == nil && sameSet(cfg.LibP2P.Peers, d) {
				pobs = "default:" + n.String()
				tags["peers-default"] = true
			}
		}
	}
	if pobs == "file" || pobs == "flag" {
		tags["peers-explicit"] = true
	}
	// electrum
	eobs := "other"
	switch cfg.Bitcoin.Electrum.URL {
	case "":
		eobs = "none"
	case fileElectrum:
		eobs = "file"
	case flagElectrum:
		eobs = "flag"
	default:
		for _, n := range []bitcoin.Network{bitcoin.Mainnet, bitcoin.Testnet} {
			if d, err := config.VerifC44ReadElectrumUrls(n); err == nil {
				for _, u := range d {
					if u == cfg.Bitcoin.Electrum.URL {
						eobs = "default:" + n.String()
						tags["electrum-default"] = true
					}
				}
			}
		}
	}
	if eobs == "file" || eobs == "flag" {
		tags["electrum-explicit"] = true
	}
	// contracts
	cobs := make([]byte, len(contracts))
	for i, c := range contracts {
		v := cfg.Ethereum.ContractAddresses[strings.ToLower(c.name)]
		switch {
		case v == "":
			cobs[i] = '-'
		case strings.EqualFold(v, fileAddr(i)):
			cobs[i] = 'f'
			tags["contract-explicit"] = true
		case strings.EqualFold(v, flagAddr(i)):
			cobs[i] = 'F'
			tags["contract-explicit"] = true
		case v == invalidAddr:
			cobs[i] = 'x'
		case strings.EqualFold(v, c.def):
			cobs[i] = 'D'
			tags["contract-default"] = true
		default:
			cobs[i] = '?'
		}
	}
	tobs := make([]byte, len(timeoutFields))
	for i, tf := range timeoutFields {
		switch v := tf.get(cfg); {
		case v == fileTimeout(i):
			tobs[i] = 'f'
		case v == flagTimeout(i):
			tobs[i] = 'F'
		case v == tf.flagDflt:
			tobs[i] = 'd'
		case v == 0:
			tobs[i] = '0'
		default:
			tobs[i] = '?'
		}
		if (ts[i] != '-') && strings.HasPrefix(eobs, "default:") {
			tags["timeouts-with-default-url"] = true
		}
	}
	tags["net-"+net] = true
	if rc != "ok" {
		tags["rc-err"] = true
	}
	var ks []string
	for _, k := range []string{"net-m", "net-M", "net-t", "net-d", "net-n", "peers-explicit", "peers-default", "electrum-explicit", "electrum-default", "contract-explicit", "contract-default", "timeouts-with-default-url", "rc-err"} {
		if tags[k] {
			ks = append(ks, k)
		}
	}
	return fmt.Sprintf("rc=%s eth=%d btc=%d peers=%s electrum=%s contracts=%s etimeouts=%s", rc,
		int(cfg.Ethereum.Network), int(cfg.Bitcoin.Network), pobs, eobs, string(cobs), string(tobs)), strings.Join(ks, "+")
}

func classify(err error) string {
	switch {
	case strings.Contains(err.Error(), "validation failed"):
		return "err:validation"
	case strings.Contains(err.Error(), "unable to resolve networks"), strings.Contains(err.Error(), "unable to bind the flags"):
		return "err:flags"
	}
	return "err:other"
}

func gen(r *hx.Rng, n int, tier string) []string {
	var ops []string
	// all network selections x peers x electrum with no contract configured / all / mixed
	for _, net := range []string{"m", "M", "t", "d", "n", "x"} {
		for _, p := range []string{"-", "f", "F", "b", "e"} {
			for _, e := range []string{"-", "f", "F", "b"} {
				for _, c := range []string{"--------", "ffffffff", "FfbxF-f-"} {
					if net == "n" && (strings.ContainsAny(p+e, "Fb") || strings.ContainsAny(c, "Fb")) {
						continue
					}
					for _, t := range []string{"-----", "fFbf-"} {
						if net == "n" && strings.ContainsAny(t, "Fb") {
							t = "ff-f-"
						}
						ops = append(ops, fmt.Sprintf("cfg %s %s %s %s %s", net, p, e, c, t))
					}
				}
			}
		}
	}
	letters := "-fFbx"
	for i := 0; i < n; i++ {
		if r.Chance(1, 20) {
			ops = append(ops, hx.Pick(r, []string{"cfg q - - -------- -----", "cfg m - - --- -----", "cfg n F - -------- -----", "cfg m z - -------- -----", "cfg", "cfg m - - -------y -----", "cfg m - - --------", "cfg n - - -------- F----"}))
			continue
		}
		net := hx.Pick(r, []string{"m", "M", "t", "t", "d", "d", "n", "x"})
		p := hx.Pick(r, []string{"-", "-", "f", "F", "b", "e"})
		e := hx.Pick(r, []string{"-", "-", "f", "F", "b"})
		c := make([]byte, len(contracts))
		for j := range c {
			c[j] = letters[r.Intn(len(letters))]
			if r.Chance(1, 3) {
				c[j] = '-'
			}
		}
		if net == "n" {
			p = hx.Pick(r, []string{"-", "f", "e"})
			e = hx.Pick(r, []string{"-", "f"})
			for j := range c {
				if c[j] == 'F' || c[j] == 'b' {
					c[j] = 'f'
				}
			}
		}
		t := make([]byte, len(timeoutFields))
		for j := range t {
			t[j] = "-fFb"[r.Intn(4)]
			if r.Chance(1, 3) {
				t[j] = '-'
			}
			if net == "n" && (t[j] == 'F' || t[j] == 'b') {
				t[j] = 'f'
			}
		}
		ops = append(ops, fmt.Sprintf("cfg %s %s %s %s %s", net, p, e, string(c), string(t)))
	}
	return ops
}

func facts() []string {
	var out []string
	var eth, btc []string
	for _, n := range []network.Type{network.Unknown, network.Mainnet, network.Testnet, network.Developer} {
		eth = append(eth, fmt.Sprint(int(n.Ethereum())))
		btc = append(btc, fmt.Sprint(int(n.Bitcoin())))
	}
	out = append(out, "strlist networkNames "+strings.Join(networkNames(), ","))
	out = append(out, "natlist ethereumOf "+strings.Join(eth, ","))
	out = append(out, "natlist bitcoinOf "+strings.Join(btc, ","))
	var ethNames, btcNames []string
	for _, n := range []network.Type{network.Unknown, network.Mainnet, network.Testnet, network.Developer} {
		ethNames = append(ethNames, n.Ethereum().String())
		btcNames = append(btcNames, n.Bitcoin().String())
	}
	out = append(out, "strlist ethereumNameOf "+strings.Join(ethNames, ","))
	out = append(out, "strlist bitcoinNameOf "+strings.Join(btcNames, ","))
	// embedded default files present (non-empty) per client network / bitcoin network value
	var peersPresent, electrumPresent []string
	for _, n := range []network.Type{network.Unknown, network.Mainnet, network.Testnet, network.Developer} {
		func() {
			defer func() { _ = recover() }()
			v := "0"
			if d, err := config.VerifC44ReadPeers(n); err == nil && len(d) > 0 {
				v = "1"
			}
			peersPresent = append(peersPresent, v)
		}()
	}
	for _, n := range []bitcoin.Network{bitcoin.Unknown, bitcoin.Mainnet, bitcoin.Testnet, bitcoin.Regtest} {
		v := "0"
		if d, err := config.VerifC44ReadElectrumUrls(n); err == nil && len(d) > 0 {
			v = "1"
		}
		electrumPresent = append(electrumPresent, v)
	}
	out = append(out, "natlist peersDefaultPresent "+strings.Join(peersPresent, ","))
	out = append(out, "natlist electrumDefaultPresent "+strings.Join(electrumPresent, ","))
	var names, present []string
	for _, c := range contracts {
		names = append(names, c.name)
		if c.def != "" {
			present = append(present, "1")
		} else {
			present = append(present, "0")
		}
	}
	out = append(out, "strlist contractNames "+strings.Join(names, ","))
	out = append(out, "natlist contractDefaultPresent "+strings.Join(present, ","))
	out = append(out, fmt.Sprintf("nat contractDefaultsSynthesizedByHarness %d", synthesizedDefaults))
	out = append(out, fmt.Sprintf("nat electrumTimeoutFields %d", len(timeoutFields)))
	return out
}

func main() {
	hx.Main(&hx.Config{Prop: "C44", Gen: gen, Exec: exec, Facts: facts})
}
