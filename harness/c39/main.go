// C39: the pre-parameter pool never serves a parameter twice or an invalid one.
//
// Op line:  pool <size> <step,step,...>     (one complete history per line)
//
//	g   generate, Save succeeds            gf  generate, Save fails (nothing written)
//	gw  generate, Save fails but the file was written (torn failure)
//	gn  generateFn returns nil (timeout)   gc  generate, Save succeeds, process dies right after
//	t   GetNow, Delete succeeds            tf  GetNow, Delete fails (file stays)
//	tb  GetNow, process dies inside Delete before the file is removed (then restart)
//	ta  GetNow, process dies inside Delete after the file is removed (then restart)
//	r   restart (new pool over the same storage)   rf  restart, ReadAll fails
//	gt  generate, process dies inside Save leaving an empty file (ppool family, see ppool.go)
//	ps  the scheduler stops generation (a protocol runs)   pr  it resumes generation
//	gx  a valid parameter file appears on storage under a non-canonical name (not via Save)
//
// Obs line: outs=<per-step result> counts=<ParametersCount after each step> disk=<ids on storage>
//
//	s saved+pushed, sp saved+generator blocked on the full pool, f save failed (fp: and the
//	generator is blocked pushing), n nil, b generator busy (blocked), c crashed+restarted,
//	v<id> served, v<id>! served while still on storage, E empty, d delete error, r restarted,
//	PANIC (history ends).
//
// The real generator.ParameterPool runs with a real Scheduler; generateFn and the Persistence
// are the harness's (the faults live there).
package main

import (
	"context"
	"fmt"
	"go/ast"
	"go/parser"
	"go/token"
	"os"
	"path/filepath"
	"runtime"
	"strconv"
	"strings"
	"sync"
	"sync/atomic"
	"time"

	"keepverif/harness/hx"

	logging "github.com/ipfs/go-log/v2"
	"github.com/keep-network/keep-core/pkg/generator"
)

type param struct{ V int }

type persisted = generator.Persisted[param]

// ---- fault-injecting persistence ------------------------------------------

type store struct {
	mu       sync.Mutex
	files    []string // IDs in save order (= creation order = what ReadAll sorts by)
	data     map[string]int
	saveMode string // consumed by the next Save: "", "fail", "failwrote"
	delMode  string // consumed by the next Delete: "", "fail", "crashbefore", "crashafter"
	readFail bool
	crashed  bool
	saved    chan struct{}
}

func (s *store) Save(p *param) (*persisted, error) {
	s.mu.Lock()
	mode := s.saveMode
	s.saveMode = ""
	id := fmt.Sprintf("id%d", p.V)
	var err error
	switch mode {
	case "fail":
		err = fmt.Errorf("injected save failure")
	case "failwrote":
		s.put(id, p.V)
		err = fmt.Errorf("injected save failure after write")
	case "crashtorn":
		err = fmt.Errorf("process died")
	default:
		s.put(id, p.V)
	}
	s.mu.Unlock()
	select {
	case s.saved <- struct{}{}:
	default: // nobody is waiting for this Save (only code that saves on its own initiative gets here)
	}
	if err != nil {
		return nil, err
	}
	return &persisted{Data: *p, ID: id}, nil
}

func (s *store) put(id string, v int) {
	if _, ok := s.data[id]; !ok {
		s.files = append(s.files, id)
	}
	s.data[id] = v
}

func (s *store) remove(id string) bool {
	if _, ok := s.data[id]; !ok {
		return false
	}
	delete(s.data, id)
	for i, f := range s.files {
		if f == id {
			s.files = append(s.files[:i:i], s.files[i+1:]...)
			break
		}
	}
	return true
}

func (s *store) Delete(p *persisted) error {
	id := p.ID // a nil *Persisted panics here, exactly like preParamsStorage.Delete
	s.mu.Lock()
	defer s.mu.Unlock()
	mode := s.delMode
	s.delMode = ""
	switch mode {
	case "fail":
		return fmt.Errorf("injected delete failure")
	case "crashbefore":
		s.crashed = true
		return fmt.Errorf("process died")
	case "crashafter":
		s.crashed = true
		s.remove(id)
		return nil
	}
	if !s.remove(id) {
		return fmt.Errorf("no such file")
	}
	return nil
}

func (s *store) ReadAll() ([]*persisted, error) {
	s.mu.Lock()
	defer s.mu.Unlock()
	if s.readFail {
		s.readFail = false
		return nil, fmt.Errorf("injected read failure")
	}
	var out []*persisted
	for _, id := range s.files {
		out = append(out, &persisted{Data: param{V: s.data[id]}, ID: id})
	}
	return out, nil
}

func (s *store) Persistence() generator.Persistence[param] { return s }
func (s *store) Make(v int) *param                          { return &param{V: v} }
func (s *store) Val(p *param) string                        { return strconv.Itoa(p.V) }
func (s *store) SetSave(m string)                           { s.mu.Lock(); s.saveMode = m; s.mu.Unlock() }
func (s *store) SetDel(m string)                            { s.mu.Lock(); s.delMode = m; s.mu.Unlock() }
func (s *store) SetReadFail(b bool)                         { s.mu.Lock(); s.readFail = b; s.mu.Unlock() }
func (s *store) ResetFaults() {
	s.mu.Lock()
	s.saveMode, s.delMode, s.readFail, s.crashed = "", "", false, false
	s.mu.Unlock()
}
func (s *store) Crashed() bool         { s.mu.Lock(); defer s.mu.Unlock(); return s.crashed }
func (s *store) Saved() chan struct{}  { return s.saved }
func (s *store) BeforeRestart()        {}
func (s *store) PutExternal(v int) {
	s.mu.Lock()
	s.put(fmt.Sprintf("id%d", v), v)
	s.mu.Unlock()
}
func (s *store) Has(v int) bool {
	s.mu.Lock()
	defer s.mu.Unlock()
	_, ok := s.data[fmt.Sprintf("id%d", v)]
	return ok
}
func (s *store) Disk() []int {
	s.mu.Lock()
	defer s.mu.Unlock()
	var disk []int
	for _, id := range s.files {
		disk = append(disk, s.data[id])
	}
	return disk
}

// ---- one pool instance (= one process lifetime) ------------------------------

type genCmd struct {
	v     int
	isNil bool
}

type instance[T any] struct {
	sched *generator.Scheduler
	pool  *generator.ParameterPool[T]
	ready chan struct{}
	cmd   chan genCmd
	mk    func(v int) *T
}

// backend is the storage side of a pool case: the Persistence the pool talks to plus the
// fault controls and observations the harness needs.
type backend[T any] interface {
	Persistence() generator.Persistence[T]
	Make(v int) *T  // the parameter generated for id v
	Val(p *T) string // id of a served parameter (with `?` when its content is not what was generated)
	SetSave(mode string)
	SetDel(mode string)
	SetReadFail(b bool)
	ResetFaults()
	Crashed() bool
	Saved() chan struct{}
	Has(v int) bool
	Disk() []int
	BeforeRestart()
	PutExternal(v int) // a valid parameter file appears on storage under a non-canonical name
}

var quietLogger = func() logging.StandardLogger {
	l := logging.Logger("verif-c39")
	logging.SetAllLoggers(logging.LevelFatal)
	return l
}()

func newInstance[T any](b backend[T], size int) *instance[T] {
	in := &instance[T]{sched: &generator.Scheduler{}, ready: make(chan struct{}), cmd: make(chan genCmd), mk: b.Make}
	in.pool = generator.NewParameterPool[T](quietLogger, in.sched, b.Persistence(), size, in.generate, 0)
	return in
}

func (in *instance[T]) generate(ctx context.Context) *T {
	select {
	case in.ready <- struct{}{}: // the harness learns that the previous iteration is over
	case <-ctx.Done():
		return nil
	}
	select {
	case c := <-in.cmd:
		if c.isNil {
			return nil
		}
		return in.mk(c.v)
	case <-ctx.Done():
		return nil
	}
}

// waitNoPoolWorker waits until no goroutine is running the worker closure of NewParameterPool.
func waitNoPoolWorker(d time.Duration) bool {
	deadline := time.Now().Add(d)
	buf := make([]byte, 1<<20)
	for {
		n := runtime.Stack(buf, true)
		if !strings.Contains(string(buf[:n]), "generator.NewParameterPool[") {
			return true
		}
		if time.Now().After(deadline) {
			return false
		}
		time.Sleep(200 * time.Microsecond)
	}
}

// waitWorkerParkedInPush waits until a goroutine running the worker closure of NewParameterPool is
// parked in its `select { case pool <- persisted: … case <-ctx.Done(): … }` (state "select", not
// inside the harness's generateFn).
func waitWorkerParkedInPush(d time.Duration) bool {
	deadline := time.Now().Add(d)
	buf := make([]byte, 1<<20)
	for {
		n := runtime.Stack(buf, true)
		for _, g := range strings.Split(string(buf[:n]), "\n\n") {
			if !strings.Contains(g, "generator.NewParameterPool[") || strings.Contains(g, ").generate(") {
				continue
			}
			head := g
			if i := strings.Index(g, "\n"); i >= 0 {
				head = g[:i]
			}
			if strings.Contains(head, "[select") {
				return true
			}
		}
		if time.Now().After(deadline) {
			return false
		}
		time.Sleep(100 * time.Microsecond)
	}
}

// sendCmd hands the next command to the generator goroutine, which the unchanged code always
// picks up (it is waiting in generateFn).
func sendCmd(ch chan genCmd, c genCmd) bool {
	select {
	case ch <- c:
		return true
	case <-time.After(longWait()):
		return false
	}
}

func waitCh(ch chan struct{}, d time.Duration) bool {
	select {
	case <-ch:
		return true
	case <-time.After(d):
		return false
	}
}

// waiting for a goroutine handoff that the unchanged code always performs; a mutant that never
// performs it costs this much per case, so after a few stuck cases the wait is shortened.
var stuckCases int32

func longWait() time.Duration {
	if atomic.LoadInt32(&stuckCases) >= 3 {
		return 400 * time.Millisecond
	}
	return 4 * time.Second
}

const blockedProbe = 1500 * time.Millisecond

func execPool(f []string) (string, string) {
	st := &store{data: map[string]int{}, saved: make(chan struct{}, 1)}
	return runPool[param](hx.Atoi(f[1]), hx.SplitList(f[2]), st)
}

func runPool[T any](size int, steps []string, st backend[T]) (string, string) {
	in := newInstance(st, size)
	defer func() { in.sched.VerifC39Stop() }()
	if !waitCh(in.ready, longWait()) {
		return "STUCK start", "stuck"
	}
	next := 1
	pending := false
	paused := false // generation stopped by the scheduler (this process lifetime)
	var outs []string
	var counts []int
	tags := map[string]bool{}
	restart := func(readFail bool) bool {
		in.sched.VerifC39Stop()
		st.ResetFaults()
		st.BeforeRestart()
		st.SetReadFail(readFail)
		in = newInstance(st, size)
		pending, paused = false, false
		return waitCh(in.ready, longWait())
	}
	panicked := false
	for _, s := range steps {
		out := ""
		switch s {
		case "g", "gf", "gw", "gn", "gc", "gt":
			if pending || paused {
				out = "b"
				tags["busy"] = true
				break
			}
			if s == "gn" {
				if !sendCmd(in.cmd, genCmd{isNil: true}) {
					return "STUCK cmd", "stuck"
				}
				if !waitCh(in.ready, longWait()) {
					return "STUCK gn", "stuck"
				}
				out = "n"
				break
			}
			switch s {
			case "gf":
				st.SetSave("fail")
			case "gw":
				st.SetSave("failwrote")
			case "gt":
				st.SetSave("crashtorn")
			}
			full := in.pool.ParametersCount() >= size
			select { // forget a Save signal nobody asked for
			case <-st.Saved():
			default:
			}
			if !sendCmd(in.cmd, genCmd{v: next}) {
				return "STUCK cmd", "stuck"
			}
			next++
			if !waitCh(st.Saved(), longWait()) {
				return "STUCK save", "stuck"
			}
			if s == "gc" || s == "gt" {
				if !restart(false) {
					return "STUCK restart", "stuck"
				}
				out = "c"
				tags["crash"] = true
				if s == "gt" {
					tags["torn"] = true
				}
				break
			}
			failed := s == "gf" || s == "gw"
			if failed {
				out = "f"
				tags["savefail"] = true
			} else {
				out = "s"
			}
			switch {
			case !full:
				if !waitCh(in.ready, longWait()) {
					return "STUCK push", "stuck"
				}
			case full && !failed:
				// the push blocks: nobody receives until the next GetNow. Wait until the generator
				// goroutine is really parked in that send: with an unbuffered pool (size 0) GetNow's
				// non-blocking receive only finds a sender that is already waiting.
				if !waitWorkerParkedInPush(longWait()) {
					return "STUCK park", "stuck"
				}
				pending = true
			default:
				// full pool and failed save: code that skips the push comes back at once,
				// code that still pushes blocks.
				if !waitCh(in.ready, blockedProbe) {
					pending = waitWorkerParkedInPush(longWait())
				}
			}
			if pending {
				out += "p"
				tags["blocked"] = true
			}
		case "ps":
			// a protocol starts: the scheduler stops generation (same pool, no restart)
			out = "z"
			if !paused {
				in.sched.VerifC39Stop()
				// the generator goroutine (possibly blocked on the full pool) leaves through
				// ctx.Done(); wait until no pool worker goroutine is left before any slot is freed
				if !waitNoPoolWorker(longWait()) {
					return "STUCK pause", "stuck"
				}
				paused, pending = true, false
				tags["pause"] = true
			}
		case "pr":
			// the protocol is over: generation resumes
			out = "z"
			if paused {
				in.sched.VerifC39Resume()
				paused = false
				if !waitCh(in.ready, longWait()) {
					return "STUCK resume", "stuck"
				}
				tags["resume"] = true
			}
		case "gx":
			// an operator copies a valid parameter file into the storage (not through Save)
			if pending || paused {
				out = "b"
				tags["busy"] = true
				break
			}
			st.PutExternal(next)
			next++
			out = "f"
			tags["external"] = true
		case "t", "tf", "tb", "ta":
			switch s {
			case "tf":
				st.SetDel("fail")
			case "tb":
				st.SetDel("crashbefore")
			case "ta":
				st.SetDel("crashafter")
			}
			var v *T
			var err error
			func() {
				defer func() {
					if e := recover(); e != nil {
						panicked = true
						if os.Getenv("VERIF_PANIC_TRACE") != "" {
							fmt.Fprintf(os.Stderr, "GetNow panic: %v\n", e)
						}
					}
				}()
				v, err = in.pool.GetNow()
			}()
			st.SetDel("")
			crashed := st.Crashed()
			switch {
			case panicked:
				out = "PANIC"
				tags["panic"] = true
			case crashed:
				if !restart(false) {
					return "STUCK restart", "stuck"
				}
				out = "c"
				tags["crash"] = true
			case err == generator.ErrEmptyPool:
				out = "E"
				tags["empty"] = true
			case err != nil:
				out = "d"
				tags["delfail"] = true
			default:
				val := st.Val(v)
				out = "v" + val
				if id, err := strconv.Atoi(strings.TrimSuffix(val, "?")); err == nil && st.Has(id) {
					out += "!"
				}
				tags["served"] = true
			}
			if !panicked && !crashed && pending && err != generator.ErrEmptyPool {
				if !waitCh(in.ready, longWait()) {
					return "STUCK unblock", "stuck"
				}
				pending = false
			}
		case "r", "rf":
			if !restart(s == "rf") {
				return "STUCK restart", "stuck"
			}
			out = "r"
			tags["restart"] = true
			if s == "rf" {
				tags["readfail"] = true
			}
		default:
			return "bad-op", "bad"
		}
		outs = append(outs, out)
		if panicked {
			break
		}
		counts = append(counts, in.pool.ParametersCount())
	}
	disk := st.Disk()
	obs := "outs=" + hx.JoinStrs(outs) + " counts=" + hx.JoinInts(counts) + " disk=" + hx.JoinInts(disk)
	var ts []string
	for _, t := range []string{"served", "savefail", "delfail", "crash", "torn", "restart", "readfail", "blocked", "busy", "empty", "external", "pause", "resume", "panic"} {
		if tags[t] {
			ts = append(ts, t)
		}
	}
	if len(ts) == 0 {
		return obs, "none"
	}
	return obs, strings.Join(ts, "+")
}

func exec(op string) (string, string) {
	obs, tag := exec1(op)
	if tag == "stuck" {
		atomic.AddInt32(&stuckCases, 1)
	}
	return obs, tag
}

func exec1(op string) (string, string) {
	f := strings.Fields(op)
	switch {
	case len(f) == 3 && f[0] == "pool":
		return execPool(f)
	case len(f) == 4 && f[0] == "ppool":
		return execPPool(f)
	}
	return "bad-op", "bad"
}

var stepKinds = []string{"g", "g", "g", "g", "gf", "gf", "gw", "gn", "gc", "gx", "ps", "pr", "pr", "t", "t", "t", "t", "tf", "tb", "ta", "r", "rf"}

func gen(r *hx.Rng, n int, tier string) []string {
	var ops []string
	for i := 0; i < n; i++ {
		if i%4 == 3 {
			ops = append(ops, genPPool(r))
			continue
		}
		size := r.Range(1, 4)
		if r.Chance(1, 12) || i%15 == 7 {
			size = 0 // unbuffered pool
		}
		ln := r.Range(1, 14)
		if r.Chance(1, 8) {
			ln = r.Range(14, 40)
		}
		var steps []string
		for j := 0; j < ln; j++ {
			steps = append(steps, hx.Pick(r, stepKinds))
		}
		ops = append(ops, fmt.Sprintf("pool %d %s", size, strings.Join(steps, ",")))
	}
	return ops
}

// ---- T1 fact: does the generator loop leave the iteration when Save failed? -----------

func returnsOnSaveError() bool {
	repo := os.Getenv("VERIF_REPO")
	if repo == "" {
		repo = "/repo"
	}
	fset := token.NewFileSet()
	file, err := parser.ParseFile(fset, filepath.Join(repo, "pkg/generator/pool.go"), nil, 0)
	if err != nil {
		return false
	}
	found := false
	ast.Inspect(file, func(n ast.Node) bool {
		b, ok := n.(*ast.BlockStmt)
		if !ok {
			return true
		}
		for i, s := range b.List {
			as, ok := s.(*ast.AssignStmt)
			if !ok || len(as.Rhs) != 1 {
				continue
			}
			call, ok := as.Rhs[0].(*ast.CallExpr)
			if !ok {
				continue
			}
			sel, ok := call.Fun.(*ast.SelectorExpr)
			if !ok || sel.Sel.Name != "Save" || i+1 >= len(b.List) {
				continue
			}
			ifs, ok := b.List[i+1].(*ast.IfStmt)
			if !ok {
				continue
			}
			for _, bs := range ifs.Body.List {
				if _, ok := bs.(*ast.ReturnStmt); ok {
					found = true
				}
			}
		}
		return true
	})
	return found
}

// loadRejectsIncompleteFiles: in pkg/tecdsa/dkg/preparams.go the condition that guards the
// "failed validation" branch of ReadAll is `!…ValidateWithProof() || <something more>`.
func loadRejectsIncompleteFiles() bool {
	repo := os.Getenv("VERIF_REPO")
	if repo == "" {
		repo = "/repo"
	}
	fset := token.NewFileSet()
	file, err := parser.ParseFile(fset, filepath.Join(repo, "pkg/tecdsa/dkg/preparams.go"), nil, 0)
	if err != nil {
		return false
	}
	mentions := func(e ast.Expr) bool {
		hit := false
		ast.Inspect(e, func(n ast.Node) bool {
			if id, ok := n.(*ast.Ident); ok && id.Name == "ValidateWithProof" {
				hit = true
			}
			return true
		})
		return hit
	}
	found := false
	ast.Inspect(file, func(n ast.Node) bool {
		if ifs, ok := n.(*ast.IfStmt); ok {
			if be, ok := ifs.Cond.(*ast.BinaryExpr); ok && be.Op == token.LOR && mentions(be.X) && !mentions(be.Y) {
				found = true
			}
		}
		return true
	})
	// ... and the "something more" (hasAllNumbers) looks at every number of the persisted form:
	// the Paillier key (N, LambdaN, PhiN), NTildei, H1i, H2i and the proof numbers Alpha, Beta, P, Q.
	need := map[string]bool{"N": false, "LambdaN": false, "PhiN": false, "NTildei": false, "H1i": false,
		"H2i": false, "Alpha": false, "Beta": false, "P": false, "Q": false}
	for _, d := range file.Decls {
		fn, ok := d.(*ast.FuncDecl)
		if !ok || fn.Name.Name != "hasAllNumbers" || fn.Body == nil {
			continue
		}
		ast.Inspect(fn.Body, func(n ast.Node) bool {
			if sel, ok := n.(*ast.SelectorExpr); ok {
				if _, want := need[sel.Sel.Name]; want {
					need[sel.Sel.Name] = true
				}
			}
			return true
		})
	}
	for _, seen := range need {
		if !seen {
			found = false
		}
	}
	return found
}

func main() {
	hx.Main(&hx.Config{
		Prop: "C39",
		Gen:  gen,
		Exec: exec,
		Facts: func() []string {
			return []string{
				fmt.Sprintf("bool returnsOnSaveError %v", returnsOnSaveError()),
				fmt.Sprintf("bool loadRejectsIncompleteFiles %v", loadRejectsIncompleteFiles()),
			}
		},
		PerOpTimeout: 60 * time.Second,
	})
}
