// C39: the pre-parameter pool never serves a parameter twice or an invalid one.
//
// Op line:  pool <size> <step,step,...>     (one complete history per line)
//
//	g   generate, Save succeeds            gf  generate, Save fails (nothing written)
//	gw  generate, Save fails but the file was written (torn failure)
//	gn  generateFn returns nil (timeout)   gc  generate, Save succeeds, process dies right after
//	t   GetNow, Delete succeeds            tf  GetNow, Delete fails (file stays)
//	tb  GetNow, process dies inside Delete before the file is removed (then restart)
//	ta  GetNow, process dies inside Delete after the file is removed (then restart)
//	r   restart (new pool over the same storage)   rf  restart, ReadAll fails
//
// Obs line: outs=<per-step result> counts=<ParametersCount after each step> disk=<ids on storage>
//
//	s saved+pushed, sp saved+generator blocked on the full pool, f save failed (fp: and the
//	generator is blocked pushing), n nil, b generator busy (blocked), c crashed+restarted,
//	v<id> served, v<id>! served while still on storage, E empty, d delete error, r restarted,
//	PANIC (history ends).
//
// The real generator.ParameterPool runs with a real Scheduler; generateFn and the Persistence
// are the harness's (the faults live there).
package main

import (
	"context"
	"fmt"
	"go/ast"
	"go/parser"
	"go/token"
	"os"
	"path/filepath"
	"strings"
	"sync"
	"time"

	"keepverif/harness/hx"

	logging "github.com/ipfs/go-log/v2"
	"github.com/keep-network/keep-core/pkg/generator"
)

type param struct{ V int }

type persisted = generator.Persisted[param]

// ---- fault-injecting persistence ------------------------------------------

type store struct {
	mu       sync.Mutex
	files    []string // IDs in save order (= creation order = what ReadAll sorts by)
	data     map[string]int
	saveMode string // consumed by the next Save: "", "fail", "failwrote"
	delMode  string // consumed by the next Delete: "", "fail", "crashbefore", "crashafter"
	readFail bool
	crashed  bool
	saved    chan struct{}
}

func (s *store) Save(p *param) (*persisted, error) {
	s.mu.Lock()
	mode := s.saveMode
	s.saveMode = ""
	id := fmt.Sprintf("id%d", p.V)
	var err error
	switch mode {
	case "fail":
		err = fmt.Errorf("injected save failure")
	case "failwrote":
		s.put(id, p.V)
		err = fmt.Errorf("injected save failure after write")
	default:
		s.put(id, p.V)
	}
	s.mu.Unlock()
	s.saved <- struct{}{}
	if err != nil {
		return nil, err
	}
	return &persisted{Data: *p, ID: id}, nil
}

func (s *store) put(id string, v int) {
	if _, ok := s.data[id]; !ok {
		s.files = append(s.files, id)
	}
	s.data[id] = v
}

func (s *store) remove(id string) bool {
	if _, ok := s.data[id]; !ok {
		return false
	}
	delete(s.data, id)
	for i, f := range s.files {
		if f == id {
			s.files = append(s.files[:i:i], s.files[i+1:]...)
			break
		}
	}
	return true
}

func (s *store) Delete(p *persisted) error {
	id := p.ID // a nil *Persisted panics here, exactly like preParamsStorage.Delete
	s.mu.Lock()
	defer s.mu.Unlock()
	mode := s.delMode
	s.delMode = ""
	switch mode {
	case "fail":
		return fmt.Errorf("injected delete failure")
	case "crashbefore":
		s.crashed = true
		return fmt.Errorf("process died")
	case "crashafter":
		s.crashed = true
		s.remove(id)
		return nil
	}
	if !s.remove(id) {
		return fmt.Errorf("no such file")
	}
	return nil
}

func (s *store) ReadAll() ([]*persisted, error) {
	s.mu.Lock()
	defer s.mu.Unlock()
	if s.readFail {
		s.readFail = false
		return nil, fmt.Errorf("injected read failure")
	}
	var out []*persisted
	for _, id := range s.files {
		out = append(out, &persisted{Data: param{V: s.data[id]}, ID: id})
	}
	return out, nil
}

func (s *store) has(id string) bool {
	s.mu.Lock()
	defer s.mu.Unlock()
	_, ok := s.data[id]
	return ok
}

// ---- one pool instance (= one process lifetime) ------------------------------

type genCmd struct {
	v     int
	isNil bool
}

type instance struct {
	sched *generator.Scheduler
	pool  *generator.ParameterPool[param]
	ready chan struct{}
	cmd   chan genCmd
}

var quietLogger = func() logging.StandardLogger {
	l := logging.Logger("verif-c39")
	logging.SetAllLoggers(logging.LevelFatal)
	return l
}()

func newInstance(st *store, size int) *instance {
	in := &instance{sched: &generator.Scheduler{}, ready: make(chan struct{}), cmd: make(chan genCmd)}
	in.pool = generator.NewParameterPool[param](quietLogger, in.sched, st, size, in.generate, 0)
	return in
}

func (in *instance) generate(ctx context.Context) *param {
	select {
	case in.ready <- struct{}{}: // the harness learns that the previous iteration is over
	case <-ctx.Done():
		return nil
	}
	select {
	case c := <-in.cmd:
		if c.isNil {
			return nil
		}
		return &param{V: c.v}
	case <-ctx.Done():
		return nil
	}
}

func waitCh(ch chan struct{}, d time.Duration) bool {
	select {
	case <-ch:
		return true
	case <-time.After(d):
		return false
	}
}

const long = 15 * time.Second
const blockedProbe = 1500 * time.Millisecond

func execPool(f []string) (string, string) {
	size := hx.Atoi(f[1])
	steps := hx.SplitList(f[2])
	st := &store{data: map[string]int{}, saved: make(chan struct{}, 1)}
	in := newInstance(st, size)
	defer func() { in.sched.VerifC39Stop() }()
	if !waitCh(in.ready, long) {
		return "STUCK start", "stuck"
	}
	next := 1
	pending := false
	var outs []string
	var counts []int
	tags := map[string]bool{}
	restart := func(readFail bool) bool {
		in.sched.VerifC39Stop()
		st.mu.Lock()
		st.readFail = readFail
		st.crashed = false
		st.saveMode, st.delMode = "", ""
		st.mu.Unlock()
		in = newInstance(st, size)
		pending = false
		return waitCh(in.ready, long)
	}
	panicked := false
	for _, s := range steps {
		out := ""
		switch s {
		case "g", "gf", "gw", "gn", "gc":
			if pending {
				out = "b"
				tags["busy"] = true
				break
			}
			if s == "gn" {
				in.cmd <- genCmd{isNil: true}
				if !waitCh(in.ready, long) {
					return "STUCK gn", "stuck"
				}
				out = "n"
				break
			}
			st.mu.Lock()
			switch s {
			case "gf":
				st.saveMode = "fail"
			case "gw":
				st.saveMode = "failwrote"
			}
			st.mu.Unlock()
			full := in.pool.ParametersCount() >= size
			in.cmd <- genCmd{v: next}
			next++
			if !waitCh(st.saved, long) {
				return "STUCK save", "stuck"
			}
			if s == "gc" {
				if !restart(false) {
					return "STUCK restart", "stuck"
				}
				out = "c"
				tags["crash"] = true
				break
			}
			failed := s == "gf" || s == "gw"
			if failed {
				out = "f"
				tags["savefail"] = true
			} else {
				out = "s"
			}
			switch {
			case !full:
				if !waitCh(in.ready, long) {
					return "STUCK push", "stuck"
				}
			case full && !failed:
				pending = true // the push blocks: nobody receives until the next GetNow
			default:
				// full pool and failed save: code that skips the push comes back at once,
				// code that still pushes blocks.
				if !waitCh(in.ready, blockedProbe) {
					pending = true
				}
			}
			if pending {
				out += "p"
				tags["blocked"] = true
			}
		case "t", "tf", "tb", "ta":
			st.mu.Lock()
			switch s {
			case "tf":
				st.delMode = "fail"
			case "tb":
				st.delMode = "crashbefore"
			case "ta":
				st.delMode = "crashafter"
			}
			st.mu.Unlock()
			var v *param
			var err error
			func() {
				defer func() {
					if e := recover(); e != nil {
						panicked = true
						if os.Getenv("VERIF_PANIC_TRACE") != "" {
							fmt.Fprintf(os.Stderr, "GetNow panic: %v\n", e)
						}
					}
				}()
				v, err = in.pool.GetNow()
			}()
			st.mu.Lock()
			st.delMode = ""
			crashed := st.crashed
			st.mu.Unlock()
			switch {
			case panicked:
				out = "PANIC"
				tags["panic"] = true
			case crashed:
				if !restart(false) {
					return "STUCK restart", "stuck"
				}
				out = "c"
				tags["crash"] = true
			case err == generator.ErrEmptyPool:
				out = "E"
				tags["empty"] = true
			case err != nil:
				out = "d"
				tags["delfail"] = true
			default:
				out = fmt.Sprintf("v%d", v.V)
				if st.has(fmt.Sprintf("id%d", v.V)) {
					out += "!"
				}
				tags["served"] = true
			}
			if !panicked && !crashed && pending && err != generator.ErrEmptyPool {
				if !waitCh(in.ready, long) {
					return "STUCK unblock", "stuck"
				}
				pending = false
			}
		case "r", "rf":
			if !restart(s == "rf") {
				return "STUCK restart", "stuck"
			}
			out = "r"
			tags["restart"] = true
			if s == "rf" {
				tags["readfail"] = true
			}
		default:
			return "bad-op", "bad"
		}
		outs = append(outs, out)
		if panicked {
			break
		}
		counts = append(counts, in.pool.ParametersCount())
	}
	st.mu.Lock()
	var disk []int
	for _, id := range st.files {
		disk = append(disk, st.data[id])
	}
	st.mu.Unlock()
	obs := "outs=" + hx.JoinStrs(outs) + " counts=" + hx.JoinInts(counts) + " disk=" + hx.JoinInts(disk)
	var ts []string
	for _, t := range []string{"served", "savefail", "delfail", "crash", "restart", "readfail", "blocked", "busy", "empty", "panic"} {
		if tags[t] {
			ts = append(ts, t)
		}
	}
	if len(ts) == 0 {
		return obs, "none"
	}
	return obs, strings.Join(ts, "+")
}

func exec(op string) (string, string) {
	f := strings.Fields(op)
	switch {
	case len(f) == 3 && f[0] == "pool":
		return execPool(f)
	}
	return "bad-op", "bad"
}

var stepKinds = []string{"g", "g", "g", "g", "gf", "gf", "gw", "gn", "gc", "t", "t", "t", "t", "tf", "tb", "ta", "r", "rf"}

func gen(r *hx.Rng, n int, tier string) []string {
	var ops []string
	for i := 0; i < n; i++ {
		size := r.Range(1, 4)
		if r.Chance(1, 12) {
			size = 0
		}
		ln := r.Range(1, 14)
		if r.Chance(1, 8) {
			ln = r.Range(14, 40)
		}
		var steps []string
		for j := 0; j < ln; j++ {
			steps = append(steps, hx.Pick(r, stepKinds))
		}
		ops = append(ops, fmt.Sprintf("pool %d %s", size, strings.Join(steps, ",")))
	}
	return ops
}

// ---- T1 fact: does the generator loop leave the iteration when Save failed? -----------

func returnsOnSaveError() bool {
	repo := os.Getenv("VERIF_REPO")
	if repo == "" {
		repo = "/repo"
	}
	fset := token.NewFileSet()
	file, err := parser.ParseFile(fset, filepath.Join(repo, "pkg/generator/pool.go"), nil, 0)
	if err != nil {
		return false
	}
	found := false
	ast.Inspect(file, func(n ast.Node) bool {
		b, ok := n.(*ast.BlockStmt)
		if !ok {
			return true
		}
		for i, s := range b.List {
			as, ok := s.(*ast.AssignStmt)
			if !ok || len(as.Rhs) != 1 {
				continue
			}
			call, ok := as.Rhs[0].(*ast.CallExpr)
			if !ok {
				continue
			}
			sel, ok := call.Fun.(*ast.SelectorExpr)
			if !ok || sel.Sel.Name != "Save" || i+1 >= len(b.List) {
				continue
			}
			ifs, ok := b.List[i+1].(*ast.IfStmt)
			if !ok {
				continue
			}
			for _, bs := range ifs.Body.List {
				if _, ok := bs.(*ast.ReturnStmt); ok {
					found = true
				}
			}
		}
		return true
	})
	return found
}

func main() {
	hx.Main(&hx.Config{
		Prop: "C39",
		Gen:  gen,
		Exec: exec,
		Facts: func() []string {
			return []string{fmt.Sprintf("bool returnsOnSaveError %v", returnsOnSaveError())}
		},
		PerOpTimeout: 60 * time.Second,
	})
}
