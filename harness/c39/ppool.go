package main

// Second family: the same pool histories, but the Persistence is the REAL preParamsStorage of
// pkg/tecdsa/dkg/preparams.go over an in-memory persistence.BasicHandle (faults live in the
// handle), with fixture pre-parameters.
//
// Op line:  ppool <size> <order-seed> <step,step,...>   (steps as for `pool`, plus
//	gt  generate, the process dies inside Save after the file was created but before its content
//	    was written: an empty file with the parameter's name stays behind; then restart)
//
// Parameter v is fixture (v mod 3) with creation timestamp base+v seconds, so storage order by
// timestamp = generation order while the handle's ReadAll order is shuffled from <order-seed>; at
// every restart a valid parameter file in a foreign directory is present (must be ignored).

import (
	"fmt"
	"io/fs"
	"math/big"
	"os"
	"path/filepath"
	"regexp"
	"sort"
	"strconv"
	"strings"
	"sync"
	"time"

	"keepverif/harness/hx"

	"github.com/bnb-chain/tss-lib/crypto/paillier"
	"github.com/bnb-chain/tss-lib/ecdsa/keygen"
	"github.com/keep-network/keep-common/pkg/persistence"
	"github.com/keep-network/keep-core/pkg/generator"
	"github.com/keep-network/keep-core/pkg/tecdsa/dkg"
)

var (
	ppOnce     sync.Once
	ppFixtures []*keygen.LocalPreParams
	ppErr      error
	ppBase     = time.Date(2024, 1, 1, 0, 0, 0, 0, time.UTC)
)

func ppLoadFixtures() {
	repo := os.Getenv("VERIF_REPO")
	if repo == "" {
		repo = "/repo"
	}
	src, err := os.ReadFile(filepath.Join(repo, "pkg/tecdsa/dkg/protocol_test.go"))
	if err != nil {
		ppErr = err
		return
	}
	nums := regexp.MustCompile(`"([0-9]{100,})"`).FindAllStringSubmatch(string(src), -1)
	if len(nums) < 30 {
		ppErr = fmt.Errorf("expected 30 fixture numbers, found %d", len(nums))
		return
	}
	bi := func(s string) *big.Int { n, _ := new(big.Int).SetString(s, 10); return n }
	for k := 0; k < 3; k++ {
		n := nums[k*10 : k*10+10]
		ppFixtures = append(ppFixtures, &keygen.LocalPreParams{
			PaillierSK: &paillier.PrivateKey{
				PublicKey: paillier.PublicKey{N: bi(n[0][1])},
				LambdaN:   bi(n[1][1]),
				PhiN:      bi(n[2][1]),
			},
			NTildei: bi(n[3][1]), H1i: bi(n[4][1]), H2i: bi(n[5][1]),
			Alpha: bi(n[6][1]), Beta: bi(n[7][1]), P: bi(n[8][1]), Q: bi(n[9][1]),
		})
	}
}

// ---- in-memory BasicHandle with faults ------------------------------------------------

type memBasic struct {
	mu       sync.Mutex
	files    map[string]map[string][]byte
	saveMode string // "", fail, failwrote, crashtorn
	delMode  string // "", fail, crashbefore, crashafter
	readFail bool
	crashed  bool
	saved    chan struct{}
	rng      *hx.Rng
}

func (h *memBasic) put(dir, name string, data []byte) {
	if h.files[dir] == nil {
		h.files[dir] = map[string][]byte{}
	}
	h.files[dir][name] = append([]byte(nil), data...)
}

func (h *memBasic) Save(data []byte, dir, name string) error {
	h.mu.Lock()
	mode := h.saveMode
	h.saveMode = ""
	var err error
	switch mode {
	case "fail":
		err = fmt.Errorf("injected save failure")
	case "failwrote":
		h.put(dir, name, data)
		err = fmt.Errorf("injected save failure after write")
	case "crashtorn":
		h.put(dir, name, nil)
		err = fmt.Errorf("process died")
	default:
		h.put(dir, name, data)
	}
	h.mu.Unlock()
	select {
	case h.saved <- struct{}{}:
	default: // nobody is waiting for this Save
	}
	return err
}

func (h *memBasic) Delete(dir, name string) error {
	h.mu.Lock()
	defer h.mu.Unlock()
	mode := h.delMode
	h.delMode = ""
	_, ok := h.files[dir][name]
	switch mode {
	case "fail":
		return fmt.Errorf("injected delete failure")
	case "crashbefore":
		h.crashed = true
		return fmt.Errorf("process died")
	case "crashafter":
		h.crashed = true
		delete(h.files[dir], name)
		return nil
	}
	if !ok {
		// what os.Remove reports for a missing file
		return &fs.PathError{Op: "remove", Path: dir + "/" + name, Err: fs.ErrNotExist}
	}
	delete(h.files[dir], name)
	return nil
}

type ppDescriptor struct {
	name, dir string
	content   []byte
}

func (d *ppDescriptor) Name() string             { return d.name }
func (d *ppDescriptor) Directory() string        { return d.dir }
func (d *ppDescriptor) Content() ([]byte, error) { return d.content, nil }

func (h *memBasic) ReadAll() (<-chan persistence.DataDescriptor, <-chan error) {
	h.mu.Lock()
	fail := h.readFail
	h.readFail = false
	var ds []*ppDescriptor
	if !fail {
		for dir, files := range h.files {
			for name, data := range files {
				ds = append(ds, &ppDescriptor{name, dir, append([]byte(nil), data...)})
			}
		}
		sort.Slice(ds, func(i, j int) bool { return ds[i].dir+"/"+ds[i].name < ds[j].dir+"/"+ds[j].name })
	}
	perm := h.rng.Perm(len(ds))
	h.mu.Unlock()
	dc := make(chan persistence.DataDescriptor)
	ec := make(chan error)
	go func() {
		defer close(dc)
		defer close(ec)
		if fail {
			ec <- fmt.Errorf("injected read failure")
			return
		}
		for _, i := range perm {
			dc <- ds[i]
		}
	}()
	return dc, ec
}

// ---- backend over the real preParamsStorage ----------------------------------------------

type ppBackend struct {
	h  *memBasic
	st *dkg.VerifC39Storage
}

func (b *ppBackend) Persistence() generator.Persistence[dkg.PreParams] { return b.st }

func (b *ppBackend) Make(v int) *dkg.PreParams {
	return dkg.VerifC39NewPreParams(ppFixtures[v%3], ppBase.Add(time.Duration(v)*time.Second))
}

func (b *ppBackend) Val(p *dkg.PreParams) string {
	data, ts := dkg.VerifC39PreParamsFields(p)
	d := ts.Sub(ppBase)
	if d < 0 || d%time.Second != 0 {
		return "0?"
	}
	v := int(d / time.Second)
	f := ppFixtures[v%3]
	same := data != nil && data.PaillierSK != nil &&
		data.PaillierSK.N.Cmp(f.PaillierSK.N) == 0 && data.PaillierSK.LambdaN.Cmp(f.PaillierSK.LambdaN) == 0 &&
		data.PaillierSK.PhiN.Cmp(f.PaillierSK.PhiN) == 0 && data.NTildei.Cmp(f.NTildei) == 0 &&
		data.H1i.Cmp(f.H1i) == 0 && data.H2i.Cmp(f.H2i) == 0 && data.Alpha.Cmp(f.Alpha) == 0 &&
		data.Beta.Cmp(f.Beta) == 0 && data.P.Cmp(f.P) == 0 && data.Q.Cmp(f.Q) == 0
	if !same {
		return strconv.Itoa(v) + "?"
	}
	return strconv.Itoa(v)
}

func (b *ppBackend) SetSave(m string)   { b.h.mu.Lock(); b.h.saveMode = m; b.h.mu.Unlock() }
func (b *ppBackend) SetDel(m string)    { b.h.mu.Lock(); b.h.delMode = m; b.h.mu.Unlock() }
func (b *ppBackend) SetReadFail(f bool) { b.h.mu.Lock(); b.h.readFail = f; b.h.mu.Unlock() }
func (b *ppBackend) ResetFaults() {
	b.h.mu.Lock()
	b.h.saveMode, b.h.delMode, b.h.readFail, b.h.crashed = "", "", false, false
	b.h.mu.Unlock()
}
func (b *ppBackend) Crashed() bool        { b.h.mu.Lock(); defer b.h.mu.Unlock(); return b.h.crashed }
func (b *ppBackend) Saved() chan struct{} { return b.h.saved }

// idsOnDisk: ids of the intact (non-empty) parameter files of the preparams directory.
func (b *ppBackend) idsOnDisk() []int {
	var out []int
	for name, data := range b.h.files[dkg.VerifC39DirName] {
		parts := strings.Split(name, "_")
		if len(parts) != 3 || parts[0] != "pp" || len(data) == 0 {
			continue
		}
		ms, err := strconv.ParseInt(parts[1], 10, 64)
		if err != nil {
			continue
		}
		out = append(out, int((ms-ppBase.UnixMilli())/1000))
	}
	sort.Ints(out)
	return out
}

func (b *ppBackend) Has(v int) bool {
	b.h.mu.Lock()
	defer b.h.mu.Unlock()
	for _, x := range b.idsOnDisk() {
		if x == v {
			return true
		}
	}
	return false
}

func (b *ppBackend) Disk() []int {
	b.h.mu.Lock()
	defer b.h.mu.Unlock()
	return b.idsOnDisk()
}

func (b *ppBackend) PutExternal(v int) {
	pp := b.Make(v)
	bytes, err := pp.Marshal()
	if err != nil {
		return
	}
	_, ts := dkg.VerifC39PreParamsFields(pp)
	b.h.mu.Lock()
	b.h.put(dkg.VerifC39DirName, fmt.Sprintf("pp_%d_manualcopy", ts.UnixMilli()), bytes)
	b.h.mu.Unlock()
}

// BeforeRestart: a valid parameter file that lives in another directory must never be loaded.
func (b *ppBackend) BeforeRestart() {
	pp := b.Make(9000)
	bytes, err := pp.Marshal()
	if err != nil {
		return
	}
	b.h.mu.Lock()
	b.h.put("snapshot", "pp_9000_foreign", bytes)
	b.h.mu.Unlock()
}

func execPPool(f []string) (string, string) {
	ppOnce.Do(ppLoadFixtures)
	if ppErr != nil {
		return "fixture-error " + ppErr.Error(), "bad"
	}
	h := &memBasic{files: map[string]map[string][]byte{}, saved: make(chan struct{}, 1), rng: hx.NewRng(hx.AtoU64(f[2]))}
	b := &ppBackend{h: h, st: dkg.VerifC39NewPreParamsStorage(h, quietLogger)}
	b.BeforeRestart()
	obs, tag := runPool[dkg.PreParams](hx.Atoi(f[1]), hx.SplitList(f[3]), b)
	if tag == "none" {
		return obs, "real"
	}
	return obs, "real+" + tag
}

var ppStepKinds = []string{"g", "g", "g", "g", "gf", "gw", "gn", "gc", "gt", "gx", "gx", "ps", "pr", "pr", "t", "t", "t", "t", "tf", "tb", "ta", "r", "r", "rf"}

func genPPool(r *hx.Rng) string {
	size := r.Range(1, 4)
	if r.Chance(1, 6) {
		size = 0 // unbuffered pool
	}
	ln := r.Range(1, 14)
	if r.Chance(1, 8) {
		ln = r.Range(14, 30)
	}
	var steps []string
	for j := 0; j < ln; j++ {
		steps = append(steps, hx.Pick(r, ppStepKinds))
	}
	return fmt.Sprintf("ppool %d %d %s", size, r.Intn(1000), strings.Join(steps, ","))
}
