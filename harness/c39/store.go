package main

import "keepverif/harness/hx"

func execStore(f []string) (string, string) { return "bad-op", "bad" }

func genStore(r *hx.Rng) string { return "pool 2 g,g,g,t,t,t" }
