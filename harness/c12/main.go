// C12: protocol messages are only accepted from the member index the sender controls.
//
// Op line (13 tokens):
//
//	<step> <variant> <ops> <gs> <ia> <dq> <selfs> <sess> <aux1> <aux2> <leaderAddr> <allowed> <msgs>
//
// step     mv | gjkr | bres | tdkg | tsig | tres | inact | ann | coord | done
// variant  state/message kind ("commit/shares"), "-" where the step has a single state
// ops      operator address id of every seat (validator input)
// gs       group size handed to group.NewGroup; ia, dq: members marked inactive / disqualified
// selfs    own member index (follower: all own indices; done/mv: "-")
// sess     receiver session id (done: the message being signed)
// aux1     announcer protocol id | follower wallet hash id | done attempt number
// aux2     follower coordination block | done attempt timeout block
// allowed  follower: allowed action types | done: member indexes of the signing attempt
// msgs     idx:netKey:msgKey:sess:aux1:aux2:action:sig  (comma separated, fed in order)
//
// Obs line: one outcome per message: stored | dropped | fault-imp | fault-mistake
// (mv: stored = IsValidMembership returned true).
package main

import (
	"context"
	"crypto/ecdsa"
	"crypto/elliptic"
	"fmt"
	"go/ast"
	"go/parser"
	"go/token"
	"math/big"
	"os"
	"path/filepath"
	"strconv"
	"strings"
	"sync"
	"time"
	"unsafe"

	"keepverif/harness/hx"

	tsscrypto "github.com/bnb-chain/tss-lib/crypto"
	"github.com/bnb-chain/tss-lib/ecdsa/keygen"
	"github.com/bnb-chain/tss-lib/tss"
	golog "github.com/ipfs/go-log/v2"

	"github.com/keep-network/keep-core/pkg/beacon/dkg/result"
	"github.com/keep-network/keep-core/pkg/beacon/gjkr"
	"github.com/keep-network/keep-core/pkg/bitcoin"
	"github.com/keep-network/keep-core/pkg/chain"
	"github.com/keep-network/keep-core/pkg/chain/local_v1"
	"github.com/keep-network/keep-core/pkg/net"
	"github.com/keep-network/keep-core/pkg/protocol/announcer"
	announcerpb "github.com/keep-network/keep-core/pkg/protocol/announcer/gen/pb"
	"github.com/keep-network/keep-core/pkg/protocol/group"
	"github.com/keep-network/keep-core/pkg/protocol/inactivity"
	"github.com/keep-network/keep-core/pkg/tbtc"
	"github.com/keep-network/keep-core/pkg/tecdsa"
	tdkg "github.com/keep-network/keep-core/pkg/tecdsa/dkg"
	tsig "github.com/keep-network/keep-core/pkg/tecdsa/signing"
	"google.golang.org/protobuf/proto"
)

var signing = local_v1.Connect(5, 3).Signing()

var logger = golog.Logger("verif-c12")

const waitTimeout = 15 * time.Second

// ---- identifiers -> concrete values ---------------------------------------

func keyBytes(k int) []byte { return []byte{0x04, byte(k >> 8), byte(k)} }

func address(a int) chain.Address { return signing.PublicKeyBytesToAddress(keyBytes(a)) }

func session(s int) string { return fmt.Sprintf("s%d", s) }

// ---- fake network pieces --------------------------------------------------

type tid string

func (t tid) String() string { return string(t) }

type fmsg struct {
	payload   interface{}
	key       []byte
	onPayload func()
}

func (m *fmsg) TransportSenderID() net.TransportIdentifier { return tid("peer") }
func (m *fmsg) SenderPublicKey() []byte                    { return m.key }
func (m *fmsg) Payload() interface{} {
	if m.onPayload != nil {
		m.onPayload()
	}
	return m.payload
}
func (m *fmsg) Type() string {
	if t, ok := m.payload.(interface{ Type() string }); ok {
		return t.Type()
	}
	return "sentinel"
}
func (m *fmsg) Seqno() uint64 { return 0 }

type fchan struct {
	mu          sync.Mutex
	handlers    []func(m net.Message)
	registered  chan struct{}
	unmarshaler func() net.TaggedUnmarshaler
}

func newFchan() *fchan { return &fchan{registered: make(chan struct{}, 16)} }

func (c *fchan) Name() string { return "c12" }
func (c *fchan) Send(context.Context, net.TaggedMarshaler, ...net.RetransmissionStrategy) error {
	return nil
}
func (c *fchan) Recv(_ context.Context, h func(m net.Message)) {
	c.mu.Lock()
	c.handlers = append(c.handlers, h)
	c.mu.Unlock()
	c.registered <- struct{}{}
}
func (c *fchan) SetUnmarshaler(u func() net.TaggedUnmarshaler) { c.unmarshaler = u }
func (c *fchan) SetFilter(net.BroadcastChannelFilter) error    { return nil }
func (c *fchan) deliver(m net.Message) {
	c.mu.Lock()
	hs := append([]func(m net.Message){}, c.handlers...)
	c.mu.Unlock()
	for _, h := range hs {
		h(m)
	}
}
func (c *fchan) waitRegistered() {
	select {
	case <-c.registered:
	case <-time.After(waitTimeout):
		panic("harness: receiver never registered")
	}
}

// sentinel returns a message whose consumption signals that every message
// delivered before it has been fully processed by the consuming loop.
func sentinel() (*fmsg, chan struct{}) {
	seen := make(chan struct{})
	var once sync.Once
	return &fmsg{payload: struct{}{}, onPayload: func() { once.Do(func() { close(seen) }) }}, seen
}

// fakeChain satisfies tbtc.Chain for the follower routine, which only needs Signing().
type fakeChain struct{ tbtc.Chain }

func (fakeChain) Signing() chain.Signing { return signing }

// proposal is a CoordinationProposal with a chosen action type.
type proposal struct{ action tbtc.WalletActionType }

func (p *proposal) Marshal() ([]byte, error)          { return nil, nil }
func (p *proposal) Unmarshal([]byte) error            { return nil }
func (p *proposal) ActionType() tbtc.WalletActionType { return p.action }
func (p *proposal) ValidityBlocks() uint64            { return 1 }

// ---- op parsing -----------------------------------------------------------

type msgT struct {
	idx                                      uint8
	netKey, msgKey, sess, aux1, aux2, action int
	sig                                      bool
}

type opT struct {
	step, variant    string
	ops              []int
	gs               int
	ia, dq, selfs    []int
	sess, aux1, aux2 int
	leader           int
	allowed          []int
	msgs             []msgT
}

func parse(op string) (*opT, bool) {
	defer func() { recover() }()
	f := strings.Fields(op)
	if len(f) != 13 {
		return nil, false
	}
	o := &opT{step: f[0], variant: f[1]}
	o.ops = hx.ParseInts(f[2])
	o.gs = hx.Atoi(f[3])
	o.ia, o.dq, o.selfs = hx.ParseInts(f[4]), hx.ParseInts(f[5]), hx.ParseInts(f[6])
	o.sess, o.aux1, o.aux2, o.leader = hx.Atoi(f[7]), hx.Atoi(f[8]), hx.Atoi(f[9]), hx.Atoi(f[10])
	o.allowed = hx.ParseInts(f[11])
	for _, ms := range hx.SplitList(f[12]) {
		p := strings.Split(ms, ":")
		if len(p) != 8 {
			return nil, false
		}
		v := make([]int, 8)
		for i := range p {
			v[i] = hx.Atoi(p[i])
		}
		if v[0] < 0 || v[0] > 255 {
			return nil, false
		}
		o.msgs = append(o.msgs, msgT{uint8(v[0]), v[1], v[2], v[3], v[4], v[5], v[6], v[7] != 0})
	}
	for _, l := range [][]int{o.ia, o.dq, o.selfs} {
		for _, x := range l {
			if x < 0 || x > 255 {
				return nil, false
			}
		}
	}
	if o.gs < 0 || o.gs > 400 || len(o.ops) > 400 {
		return nil, false
	}
	return o, true
}

func (o *opT) validator() *group.MembershipValidator {
	addrs := make([]chain.Address, len(o.ops))
	for i, a := range o.ops {
		addrs[i] = address(a)
	}
	return group.NewMembershipValidator(nil, addrs, signing)
}

func (o *opT) group() *group.Group {
	g := group.NewGroup(0, o.gs)
	for _, x := range o.ia {
		g.MarkMemberAsInactive(uint8(x))
	}
	for _, x := range o.dq {
		g.MarkMemberAsDisqualified(uint8(x))
	}
	return g
}

func (o *opT) self() uint8 {
	if len(o.selfs) == 0 {
		return 0
	}
	return uint8(o.selfs[0])
}

func outcome(b bool) string {
	if b {
		return "stored"
	}
	return "dropped"
}

// receiverStep feeds the messages to a state's Receive method.
func receiverStep(o *opT, recv func(net.Message) error, stored func() int, mk func(m msgT) interface{}) []string {
	var out []string
	for _, m := range o.msgs {
		before := stored()
		if err := recv(&fmsg{payload: mk(m), key: keyBytes(m.netKey)}); err != nil {
			out = append(out, "err")
			continue
		}
		switch stored() - before {
		case 0:
			out = append(out, "dropped")
		case 1:
			out = append(out, "stored")
		default:
			out = append(out, "stored-many")
		}
	}
	return out
}

func variantParts(v string) (string, string) {
	p := strings.SplitN(v, "/", 2)
	if len(p) != 2 {
		return v, v
	}
	return p[0], p[1]
}

func execOp(o *opT) []string {
	mv := o.validator()
	switch o.step {
	case "mv":
		var out []string
		for _, m := range o.msgs {
			out = append(out, outcome(mv.IsValidMembership(m.idx, keyBytes(m.netKey))))
		}
		return out
	case "gjkr":
		sk, mk := variantParts(o.variant)
		var r *gjkr.VerifC12Receiver
		if strings.HasSuffix(sk, "-init") {
			// the state's own Initiate runs first: members silent in the previous phase become inactive
			var active []group.MemberIndex
			for _, a := range o.allowed {
				if a >= 0 && a <= 255 {
					active = append(active, uint8(a))
				}
			}
			var err error
			r, err = gjkr.VerifC12NewInitiatedReceiver(context.Background(), sk, logger, newFchan(), o.self(),
				o.group(), mv, session(o.sess), active)
			if err != nil {
				return []string{"err:initiate"}
			}
			mk = strings.TrimSuffix(mk, "-init")
		} else {
			r = gjkr.VerifC12NewReceiver(sk, o.self(), o.group(), mv, session(o.sess))
		}
		if r == nil || gjkr.VerifC12NewMessage(mk, 1, "") == nil {
			return nil
		}
		return receiverStep(o, r.Receive, r.Stored, func(m msgT) interface{} {
			return gjkr.VerifC12NewMessage(mk, m.idx, session(m.sess))
		})
	case "bres":
		member := result.NewSigningMember(nil, o.self(), o.group(), mv, session(o.sess))
		r := result.VerifC12NewReceiver(member)
		return receiverStep(o, r.Receive, r.Stored, func(m msgT) interface{} {
			return result.VerifC12NewMessage(m.idx, keyBytes(m.msgKey), session(m.sess))
		})
	case "tdkg":
		sk, mk := variantParts(o.variant)
		r := tdkg.VerifC12NewReceiver(sk, o.self(), o.group(), mv, session(o.sess))
		if r == nil || sk == "result" || tdkg.VerifC12NewMessage(mk, 1, "") == nil {
			return nil
		}
		return receiverStep(o, r.Receive, r.Stored, func(m msgT) interface{} {
			return tdkg.VerifC12NewMessage(mk, m.idx, session(m.sess))
		})
	case "tres":
		r := tdkg.VerifC12NewReceiver("result", o.self(), o.group(), mv, session(o.sess))
		return receiverStep(o, r.Receive, r.Stored, func(m msgT) interface{} {
			return tdkg.VerifC12NewResultSignatureMessage(m.idx, keyBytes(m.msgKey), session(m.sess))
		})
	case "tsig":
		sk, mk := variantParts(o.variant)
		r := tsig.VerifC12NewReceiver(sk, o.self(), o.group(), mv, session(o.sess))
		if r == nil || tsig.VerifC12NewMessage(mk, 1, "") == nil {
			return nil
		}
		return receiverStep(o, r.Receive, r.Stored, func(m msgT) interface{} {
			return tsig.VerifC12NewMessage(mk, m.idx, session(m.sess))
		})
	case "inact":
		r := inactivity.VerifC12NewReceiver(o.self(), o.group(), mv, session(o.sess))
		return receiverStep(o, r.Receive, r.Stored, func(m msgT) interface{} {
			return inactivity.VerifC12NewMessage(m.idx, keyBytes(m.msgKey), session(m.sess))
		})
	case "ann":
		return execAnnouncer(o, mv)
	case "annh":
		return execAnnouncerHistory(o, mv)
	case "coord":
		return execFollower(o, mv)
	case "coordh":
		return execFollowerHistory(o, mv)
	case "done":
		return execDone(o, mv)
	}
	return nil
}

// execAnnouncer starts a fresh Announce per message; the message was acted on
// iff the returned ready list holds the claimed index besides the own one.
func execAnnouncer(o *opT, mv *group.MembershipValidator) []string {
	var out []string
	for _, m := range o.msgs {
		ch := newFchan()
		announcer.RegisterUnmarshaller(ch)
		payload := ch.unmarshaler()
		bytes, err := proto.Marshal(&announcerpb.AnnouncementMessage{
			SenderID:   uint32(m.idx),
			ProtocolID: fmt.Sprintf("p%d", m.aux1),
			SessionID:  session(m.sess),
		})
		if err != nil || payload.Unmarshal(bytes) != nil {
			out = append(out, "err:unmarshal")
			continue
		}
		a := announcer.New(fmt.Sprintf("p%d", o.aux1), ch, mv)
		ctx, cancel := context.WithCancel(context.Background())
		type res struct {
			ready []group.MemberIndex
			err   error
		}
		done := make(chan res, 1)
		go func() {
			r, err := a.Announce(ctx, o.self(), session(o.sess))
			done <- res{r, err}
		}()
		ch.waitRegistered()
		s, seen := sentinel()
		ch.deliver(&fmsg{payload: payload, key: keyBytes(m.netKey)})
		ch.deliver(s)
		select {
		case <-seen:
		case <-time.After(waitTimeout):
			panic("harness: announcer did not consume messages")
		}
		cancel()
		r := <-done
		switch {
		case r.err != nil:
			out = append(out, "err")
		case len(r.ready) == 1 && r.ready[0] == o.self():
			out = append(out, "dropped")
		case len(r.ready) == 2 && m.idx != o.self() &&
			((r.ready[0] == o.self() && r.ready[1] == m.idx) || (r.ready[1] == o.self() && r.ready[0] == m.idx)):
			out = append(out, "stored")
		default:
			out = append(out, "weird-ready:"+strings.ReplaceAll(hx.JoinInts(r.ready), ",", "/"))
		}
	}
	return out
}

var walletKey = func() *ecdsa.PublicKey {
	c := elliptic.P256()
	x, y := c.ScalarBaseMult([]byte{7})
	return &ecdsa.PublicKey{Curve: c, X: x, Y: y}
}()

func walletHash(id int, own int) [20]byte {
	if id == own {
		return bitcoin.PublicKeyHash(walletKey)
	}
	var h [20]byte
	h[0], h[1], h[2], h[19] = byte(id>>16), byte(id>>8), byte(id), 0x5a
	return h
}

// execFollower starts a fresh follower routine per message.
func execFollower(o *opT, mv *group.MembershipValidator) []string {
	addrs := make([]chain.Address, len(o.ops))
	for i, a := range o.ops {
		addrs[i] = address(a)
	}
	selfs := make([]group.MemberIndex, len(o.selfs))
	for i, s := range o.selfs {
		selfs[i] = uint8(s)
	}
	allowed := make([]tbtc.WalletActionType, len(o.allowed))
	for i, a := range o.allowed {
		allowed[i] = tbtc.WalletActionType(a)
	}
	var out []string
	for _, m := range o.msgs {
		ch := newFchan()
		ctx, cancel := context.WithCancel(context.Background())
		type res struct {
			p      tbtc.CoordinationProposal
			faults []tbtc.CoordinationFaultType
		}
		done := make(chan res, 1)
		prop := &proposal{tbtc.WalletActionType(m.action)}
		go func() {
			p, f, _ := tbtc.VerifC12FollowerRoutine(ctx, fakeChain{}, walletKey, addrs, selfs, ch, mv,
				address(o.leader), uint64(o.aux2), allowed)
			done <- res{p, f}
		}()
		ch.waitRegistered()
		s, seen := sentinel()
		ch.deliver(&fmsg{
			payload: tbtc.VerifC12NewCoordinationMessage(m.idx, uint64(m.aux2), walletHash(m.aux1, o.aux1), prop),
			key:     keyBytes(m.netKey),
		})
		ch.deliver(s)
		var r res
		select {
		case <-seen:
			cancel()
			r = <-done
		case r = <-done:
			cancel()
		case <-time.After(waitTimeout):
			panic("harness: follower did not consume messages")
		}
		// the idleness fault is appended when the routine ends without a proposal
		var fs []string
		for _, f := range r.faults {
			switch f {
			case tbtc.FaultLeaderImpersonation:
				fs = append(fs, "fault-imp")
			case tbtc.FaultLeaderMistake:
				fs = append(fs, "fault-mistake")
			case tbtc.FaultLeaderIdleness:
			default:
				fs = append(fs, "fault-unknown")
			}
		}
		switch {
		case r.p != nil && len(fs) == 0 && r.p == tbtc.CoordinationProposal(prop):
			out = append(out, "stored")
		case r.p == nil && len(fs) == 0:
			out = append(out, "dropped")
		case r.p == nil && len(fs) == 1:
			out = append(out, fs[0])
		default:
			out = append(out, "weird-follower")
		}
	}
	return out
}

// execAnnouncerHistory delivers the whole history inside ONE announcement window and returns the
// ready list (one element per ready member).
func execAnnouncerHistory(o *opT, mv *group.MembershipValidator) []string {
	ch := newFchan()
	announcer.RegisterUnmarshaller(ch)
	a := announcer.New(fmt.Sprintf("p%d", o.aux1), ch, mv)
	ctx, cancel := context.WithCancel(context.Background())
	type res struct {
		ready []group.MemberIndex
		err   error
	}
	done := make(chan res, 1)
	go func() {
		r, err := a.Announce(ctx, o.self(), session(o.sess))
		done <- res{r, err}
	}()
	ch.waitRegistered()
	for _, m := range o.msgs {
		payload := ch.unmarshaler()
		bytes, err := proto.Marshal(&announcerpb.AnnouncementMessage{
			SenderID:   uint32(m.idx),
			ProtocolID: fmt.Sprintf("p%d", m.aux1),
			SessionID:  session(m.sess),
		})
		if err != nil || payload.Unmarshal(bytes) != nil {
			panic("harness: announcement unmarshal")
		}
		ch.deliver(&fmsg{payload: payload, key: keyBytes(m.netKey)})
	}
	s, seen := sentinel()
	ch.deliver(s)
	select {
	case <-seen:
	case <-time.After(waitTimeout):
		panic("harness: announcer did not consume messages")
	}
	cancel()
	r := <-done
	if r.err != nil {
		return []string{"err"}
	}
	out := make([]string, len(r.ready))
	for i, x := range r.ready {
		out[i] = fmt.Sprint(x)
	}
	return out
}

// execFollowerHistory delivers the whole history to ONE follower routine: faults in order and, if a
// proposal was returned, the position of the message that carried it.
func execFollowerHistory(o *opT, mv *group.MembershipValidator) []string {
	addrs := make([]chain.Address, len(o.ops))
	for i, a := range o.ops {
		addrs[i] = address(a)
	}
	selfs := make([]group.MemberIndex, len(o.selfs))
	for i, s := range o.selfs {
		selfs[i] = uint8(s)
	}
	allowed := make([]tbtc.WalletActionType, len(o.allowed))
	for i, a := range o.allowed {
		allowed[i] = tbtc.WalletActionType(a)
	}
	ch := newFchan()
	ctx, cancel := context.WithCancel(context.Background())
	type res struct {
		p      tbtc.CoordinationProposal
		faults []tbtc.CoordinationFaultType
	}
	done := make(chan res, 1)
	go func() {
		p, f, _ := tbtc.VerifC12FollowerRoutine(ctx, fakeChain{}, walletKey, addrs, selfs, ch, mv,
			address(o.leader), uint64(o.aux2), allowed)
		done <- res{p, f}
	}()
	ch.waitRegistered()
	props := make([]*proposal, len(o.msgs))
	for i, m := range o.msgs {
		props[i] = &proposal{tbtc.WalletActionType(m.action)}
		ch.deliver(&fmsg{
			payload: tbtc.VerifC12NewCoordinationMessage(m.idx, uint64(m.aux2), walletHash(m.aux1, o.aux1), props[i]),
			key:     keyBytes(m.netKey),
		})
	}
	s, seen := sentinel()
	ch.deliver(s)
	var r res
	select {
	case <-seen:
		cancel()
		r = <-done
	case r = <-done:
		cancel()
	case <-time.After(waitTimeout):
		panic("harness: follower did not consume messages")
	}
	var out []string
	for _, f := range r.faults {
		switch f {
		case tbtc.FaultLeaderImpersonation:
			out = append(out, "fault-imp")
		case tbtc.FaultLeaderMistake:
			out = append(out, "fault-mistake")
		case tbtc.FaultLeaderIdleness:
			if r.p != nil {
				out = append(out, "idle-with-proposal")
			}
		default:
			out = append(out, "fault-unknown")
		}
	}
	if r.p != nil {
		pos := -1
		for i := range props {
			if r.p == tbtc.CoordinationProposal(props[i]) {
				pos = i
			}
		}
		out = append(out, fmt.Sprintf("stored@%d", pos))
	}
	return out
}

// execDone feeds the messages in order to one listening done check.
func execDone(o *opT, mv *group.MembershipValidator) []string {
	ch := newFchan()
	dc := tbtc.VerifC12NewDoneCheck(len(o.ops), ch, mv)
	ctx, cancel := context.WithCancel(context.Background())
	defer cancel()
	attempt := make([]group.MemberIndex, 0, len(o.allowed))
	for _, a := range o.allowed {
		attempt = append(attempt, uint8(a))
	}
	dc.Listen(ctx, big.NewInt(int64(o.sess)), uint64(o.aux1), uint64(o.aux2), attempt)
	ch.waitRegistered()
	var out []string
	for _, m := range o.msgs {
		before := dc.DoneSigners()
		s, seen := sentinel()
		ch.deliver(&fmsg{
			payload: tbtc.VerifC12NewDoneMessage(m.idx, big.NewInt(int64(m.sess)), uint64(m.aux1), m.sig, uint64(m.aux2)),
			key:     keyBytes(m.netKey),
		})
		ch.deliver(s)
		select {
		case <-seen:
		case <-time.After(waitTimeout):
			panic("harness: done check did not consume messages")
		}
		after := dc.DoneSigners()
		has := func(l []group.MemberIndex, x uint8) bool {
			for _, y := range l {
				if y == x {
					return true
				}
			}
			return false
		}
		switch {
		case len(after) == len(before):
			out = append(out, "dropped")
		case len(after) == len(before)+1 && has(after, m.idx) && !has(before, m.idx):
			out = append(out, "stored")
		default:
			out = append(out, "weird-done")
		}
	}
	return out
}

// callsite: source-level observation of the session identifier the retry loops of pkg/tbtc hand to
// the protocol executor: every attempt is a separate session, so the identifier must be built from the
// attempt number (the states tell sessions apart only by comparing this string).
func callsite(which string) string {
	repo := os.Getenv("VERIF_REPO")
	if repo == "" {
		repo = "/repo"
	}
	file := map[string]string{"signing": "pkg/tbtc/signing.go", "dkg": "pkg/tbtc/dkg.go"}[which]
	if file == "" {
		return "bad-op"
	}
	fset := token.NewFileSet()
	f, err := parser.ParseFile(fset, filepath.Join(repo, file), nil, 0)
	if err != nil {
		return "err:parse"
	}
	// the Execute call that takes an argument named sessionID
	var call *ast.CallExpr
	ast.Inspect(f, func(n ast.Node) bool {
		c, ok := n.(*ast.CallExpr)
		if !ok {
			return true
		}
		sel, ok := c.Fun.(*ast.SelectorExpr)
		if !ok || sel.Sel.Name != "Execute" {
			return true
		}
		for _, a := range c.Args {
			if id, ok := a.(*ast.Ident); ok && id.Name == "sessionID" {
				call = c
			}
		}
		return true
	})
	if call == nil {
		return "err:no-execute-call-with-sessionID"
	}
	// the definition of sessionID in force at the call: the last `sessionID := ...` before it
	var def *ast.AssignStmt
	ast.Inspect(f, func(n ast.Node) bool {
		a, ok := n.(*ast.AssignStmt)
		if !ok || len(a.Lhs) != 1 || len(a.Rhs) != 1 {
			return true
		}
		if id, ok := a.Lhs[0].(*ast.Ident); ok && id.Name == "sessionID" && a.Pos() < call.Pos() {
			if def == nil || a.Pos() > def.Pos() {
				def = a
			}
		}
		return true
	})
	if def == nil {
		return "err:no-sessionID-definition"
	}
	mentions := false
	ast.Inspect(def.Rhs[0], func(n ast.Node) bool {
		if sel, ok := n.(*ast.SelectorExpr); ok {
			if x, ok := sel.X.(*ast.Ident); ok && x.Name == "attempt" && sel.Sel.Name == "number" {
				mentions = true
			}
		}
		return true
	})
	if mentions {
		return "session-per-attempt"
	}
	return "session-shared-by-attempts"
}

func exec(op string) (string, string) {
	if f := strings.Fields(op); len(f) == 3 && f[0] == "sessions" {
		ok := true
		var msgs []uint64
		for _, t := range hx.SplitList(f[1]) {
			v, err := strconv.ParseUint(t, 10, 63)
			if err != nil || v == 0 {
				ok = false
			}
			msgs = append(msgs, v)
		}
		k, err := strconv.Atoi(f[2])
		if !ok || err != nil || k < 1 || k > 5 || len(msgs) == 0 || len(msgs) > 4 {
			return "bad-op", "bad"
		}
		return execSessions(msgs, k)
	}
	if f := strings.Fields(op); len(f) == 2 && f[0] == "callsite" {
		obs := callsite(f[1])
		if obs == "bad-op" {
			return obs, "bad"
		}
		return obs, "callsite"
	}
	o, ok := parse(op)
	if !ok {
		return "bad-op", "bad"
	}
	if o.step == "annh" || o.step == "coordh" {
		return execHistory(o)
	}
	out := execOp(o)
	if out == nil && len(o.msgs) > 0 {
		return "bad-op", "bad"
	}
	// branch tags
	tags := map[string]bool{o.step: true}
	seats := map[int]int{}
	for _, a := range o.ops {
		seats[a]++
	}
	for i, m := range o.msgs {
		oc := out[i]
		tags[oc] = true
		owner := 0
		if m.idx >= 1 && int(m.idx) <= len(o.ops) {
			owner = o.ops[m.idx-1]
		}
		if m.idx == 0 {
			tags["idx0"] = true
			if len(o.ops) > 255 && oc != "dropped" {
				tags["wrap256"] = true
			}
		}
		if int(m.idx) > len(o.ops) {
			tags["idx-above"] = true
		}
		if owner != 0 && owner == m.netKey && seats[owner] > 1 && oc == "stored" {
			tags["multiseat"] = true
		}
		if owner != 0 && owner != m.netKey && seats[m.netKey] > 0 {
			tags["spoof"] = true
		}
		for _, s := range o.selfs {
			if int(m.idx) == s && owner == m.netKey {
				tags["self"] = true
			}
		}
		for _, x := range append(append([]int{}, o.ia...), o.dq...) {
			if int(m.idx) == x && owner == m.netKey {
				tags["excluded"] = true
			}
		}
		if owner == m.netKey && m.sess != o.sess {
			tags["wrongsession"] = true
		}
		if strings.Contains(o.variant, "-init") && owner == m.netKey && owner != 0 && int(m.idx) != int(o.self()) {
			silent := true
			for _, a := range o.allowed {
				if a == int(m.idx) {
					silent = false
				}
			}
			if silent {
				tags["silent-prev-phase"] = true
			} else if oc == "stored" {
				tags["active-prev-phase"] = true
			}
		}
		if owner == m.netKey && m.msgKey != m.netKey {
			tags["wrongkey"] = true
		}
	}
	var ts []string
	for t := range tags {
		ts = append(ts, t)
	}
	sortStrings(ts)
	if len(out) == 0 {
		return "-", strings.Join(ts, "+")
	}
	return strings.Join(out, ","), strings.Join(ts, "+")
}

// execHistory: one window / one routine over the whole history.
func execHistory(o *opT) (string, string) {
	out := execOp(o)
	tags := map[string]bool{o.step: true}
	confirmed := map[int]bool{} // keys that already sent an announcement for a seat they hold
	for _, m := range o.msgs {
		owner := 0
		if m.idx >= 1 && int(m.idx) <= len(o.ops) {
			owner = o.ops[m.idx-1]
		}
		if owner != 0 && owner == m.netKey && m.sess == o.sess && m.aux1 == o.aux1 {
			confirmed[m.netKey] = true
		} else if owner != 0 && owner != m.netKey && confirmed[m.netKey] && m.sess == o.sess && m.aux1 == o.aux1 {
			tags["valid-then-spoof"] = true
		}
	}
	seen := map[string]bool{}
	for _, m := range o.msgs {
		k := fmtMsg(m)
		if seen[k] {
			tags["hist-dup"] = true
		}
		seen[k] = true
	}
	for _, x := range out {
		if strings.HasPrefix(x, "stored@") {
			tags["hist-accepted"] = true
		}
		if strings.HasPrefix(x, "fault") {
			tags["hist-fault"] = true
		}
	}
	if o.step == "annh" && len(out) > 2 {
		tags["hist-ready"] = true
	}
	var ts []string
	for t := range tags {
		ts = append(ts, t)
	}
	sortStrings(ts)
	return hx.JoinStrs(out), strings.Join(ts, "+")
}

func sortStrings(s []string) {
	for i := 1; i < len(s); i++ {
		for j := i; j > 0 && s[j] < s[j-1]; j-- {
			s[j], s[j-1] = s[j-1], s[j]
		}
	}
}

// ---- sessions: the signing retry loop run for real, one seat, several attempts -------------------

// blockClock is a manually driven block counter: waiters return exactly when the controller moves
// the clock to their block (no wall-clock dependence).
type blockClock struct {
	mu  sync.Mutex
	cur uint64
	ch  chan struct{}
}

func (c *blockClock) set(b uint64) {
	c.mu.Lock()
	if b > c.cur {
		c.cur = b
	}
	close(c.ch)
	c.ch = make(chan struct{})
	c.mu.Unlock()
}
func (c *blockClock) current() (uint64, error) {
	c.mu.Lock()
	defer c.mu.Unlock()
	return c.cur, nil
}
func (c *blockClock) wait(ctx context.Context, b uint64) error {
	for {
		c.mu.Lock()
		cur, ch := c.cur, c.ch
		c.mu.Unlock()
		if cur >= b {
			return nil
		}
		select {
		case <-ch:
		case <-ctx.Done():
			return ctx.Err()
		}
	}
}

type annEvent struct {
	protocol, session string
	handler           func(net.Message)
}

// sessChan records what the member under test sends: its readiness announcement (with the handler
// its announcer registered just before) and the session id of the first signing protocol message.
type sessChan struct {
	mu       sync.Mutex
	handlers []func(net.Message)
	self     uint32
	ann      chan annEvent
	epk      chan string
}

func (c *sessChan) Name() string { return "c12-sessions" }
func (c *sessChan) Recv(_ context.Context, h func(m net.Message)) {
	c.mu.Lock()
	c.handlers = append(c.handlers, h)
	c.mu.Unlock()
}
func (c *sessChan) SetUnmarshaler(func() net.TaggedUnmarshaler) {}
func (c *sessChan) SetFilter(net.BroadcastChannelFilter) error  { return nil }
func (c *sessChan) Send(_ context.Context, m net.TaggedMarshaler, _ ...net.RetransmissionStrategy) error {
	switch m.Type() {
	case "protocol_announcer/announcement_message":
		bytes, err := m.Marshal()
		if err != nil {
			return nil
		}
		var pbm announcerpb.AnnouncementMessage
		if proto.Unmarshal(bytes, &pbm) != nil || pbm.SenderID != c.self {
			return nil
		}
		c.mu.Lock()
		h := c.handlers[len(c.handlers)-1]
		c.mu.Unlock()
		c.ann <- annEvent{pbm.ProtocolID, pbm.SessionID, h}
	case "tecdsa_signing/ephemeral_public_key_message":
		if sm, ok := m.(interface{ SessionID() string }); ok {
			c.epk <- sm.SessionID()
		}
	}
	return nil
}

// execSessions: op `sessions <m1,m2,...> <attempts>`; obs = the session ids handed to the signing
// protocol, in order (per message, attempts 1..K).
func execSessions(msgs []uint64, attempts int) (string, string) {
	golog.SetAllLoggers(golog.LevelFatal) // the aborted attempts log errors by design
	const self, start = 2, uint64(200)
	delay, announcement, _, total := tbtc.VerifC12SigningAttemptBlocks()
	operators := []chain.Address{address(1), address(1), address(1)}
	mv := group.NewMembershipValidator(logger, operators, signing)
	x, y := tss.EC().ScalarBaseMult([]byte{13})
	pt, err := tsscrypto.NewECPoint(tss.EC(), x, y)
	if err != nil {
		panic(err)
	}
	share := tecdsa.NewPrivateKeyShare(keygen.LocalPartySaveData{ECDSAPub: pt})
	gp := &tbtc.GroupParameters{GroupSize: 3, GroupQuorum: 3, HonestThreshold: 3}
	unm := newFchan()
	announcer.RegisterUnmarshaller(unm)

	var sessions []string
	for _, msg := range msgs {
		clk := &blockClock{cur: start, ch: make(chan struct{})}
		ch := &sessChan{self: self, ann: make(chan annEvent, 16), epk: make(chan string, 16)}
		ctx, cancel := context.WithCancel(context.Background())
		done := make(chan error, 1)
		go func() {
			done <- tbtc.VerifC12Sign(ctx, share.PublicKey(), operators, self, share, ch, mv, gp,
				clk.current, clk.wait, uint(attempts), new(big.Int).SetUint64(msg), start)
		}()
		fail := ""
		for k := 0; k < attempts && fail == ""; k++ {
			attemptStart := start + uint64(k)*total
			clk.set(attemptStart + delay) // announcement phase opens (past the previous attempt's timeout)
			select {
			case ev := <-ch.ann:
				// the two other seats announce for the same protocol and session
				for _, seat := range []uint32{1, 3} {
					payload := unm.unmarshaler()
					bytes, _ := proto.Marshal(&announcerpb.AnnouncementMessage{
						SenderID: seat, ProtocolID: ev.protocol, SessionID: ev.session})
					if payload.Unmarshal(bytes) != nil {
						panic("harness: announcement unmarshal")
					}
					ev.handler(&fmsg{payload: payload, key: keyBytes(1)})
				}
				s, seen := sentinel()
				ev.handler(s)
				select {
				case <-seen:
				case <-time.After(waitTimeout):
					fail = "err:announcer-stuck"
				}
			case <-time.After(waitTimeout):
				fail = fmt.Sprintf("err:no-announcement-in-attempt-%d", k+1)
			}
			if fail != "" {
				break
			}
			clk.set(attemptStart + delay + announcement) // announcement phase closes
			select {
			case sid := <-ch.epk:
				sessions = append(sessions, sid)
			case <-time.After(waitTimeout):
				fail = fmt.Sprintf("err:no-protocol-message-in-attempt-%d", k+1)
			}
		}
		cancel()
		clk.set(start + uint64(attempts+2)*total)
		select {
		case <-done:
		case <-time.After(waitTimeout):
			fail = "err:sign-did-not-return"
		}
		if fail != "" {
			return fail, "err"
		}
	}
	return hx.JoinStrs(sessions), "sessions"
}

// ---- generator ------------------------------------------------------------

var variants = map[string][]string{
	"mv":     {"-"},
	"gjkr":   {"epk/epk", "commit/shares", "commit/commitments", "accuse/accuse", "points/points", "paccuse/paccuse", "reveal/reveal"},
	"bres":   {"-"},
	"tdkg":   {"epk/epk", "symkey/epk", "tss1/tss1", "tss2/tss2", "tss3/tss3", "final/final", "epk/final", "tss3/epk"},
	"tres":   {"-"},
	"tsig":   {"epk/epk", "symkey/epk", "tss1/tss1", "tss2/tss5", "tss3/tss9", "tss4/epk", "tss5/tss5", "tss6/tss1", "tss7/tss9", "tss8/epk", "tss9/tss9"},
	"inact":  {"-"},
	"ann":    {"-"},
	"annh":   {"-"},
	"coord":  {"-"},
	"coordh": {"-"},
	"done":   {"-"},
}

var steps = []string{"mv", "gjkr", "bres", "tdkg", "tsig", "tres", "inact", "ann", "coord", "done", "annh", "coordh"}

func fmtMsg(m msgT) string {
	s := 0
	if m.sig {
		s = 1
	}
	return fmt.Sprintf("%d:%d:%d:%d:%d:%d:%d:%d", m.idx, m.netKey, m.msgKey, m.sess, m.aux1, m.aux2, m.action, s)
}

func fmtOp(o *opT) string {
	ms := make([]string, len(o.msgs))
	for i, m := range o.msgs {
		ms[i] = fmtMsg(m)
	}
	return fmt.Sprintf("%s %s %s %d %s %s %s %d %d %d %d %s %s", o.step, o.variant, hx.JoinInts(o.ops), o.gs,
		hx.JoinInts(o.ia), hx.JoinInts(o.dq), hx.JoinInts(o.selfs), o.sess, o.aux1, o.aux2, o.leader,
		hx.JoinInts(o.allowed), hx.JoinStrs(ms))
}

func seatsOf(ops []int, a int) []int {
	var out []int
	for i, x := range ops {
		if x == a && i+1 <= 255 {
			out = append(out, i+1)
		}
	}
	return out
}

func baseOp(r *hx.Rng, step string, ops []int) *opT {
	o := &opT{step: step, ops: ops, gs: len(ops), sess: r.Range(1, 3), aux1: r.Range(1, 3), aux2: r.Range(5, 9)}
	o.variant = hx.Pick(r, variants[step])
	n := len(ops)
	selfSeat := r.Range(1, maxI(1, minI(n, 255)))
	o.selfs = []int{selfSeat}
	switch step {
	case "coord", "coordh":
		if n > 0 {
			o.selfs = seatsOf(ops, ops[selfSeat-1])
			if r.Chance(1, 4) && len(o.selfs) > 1 {
				o.selfs = o.selfs[:1]
			}
			o.leader = ops[r.Intn(minI(n, 255))]
		}
		for a := 0; a < 6; a++ {
			if r.Chance(1, 2) {
				o.allowed = append(o.allowed, a)
			}
		}
	case "gjkr":
		if strings.Contains(o.variant, "-init") {
			// members that sent their message in the previous phase
			for s := 1; s <= minI(n, 255); s++ {
				if !r.Chance(1, 4) {
					o.allowed = append(o.allowed, s)
				}
			}
		}
	case "done":
		o.selfs = nil
		// members of the signing attempt: mostly every seat
		for s := 1; s <= minI(n, 255); s++ {
			if !r.Chance(1, 6) {
				o.allowed = append(o.allowed, s)
			}
		}
	case "mv":
		o.selfs = nil
	}
	return o
}

func randMsg(r *hx.Rng, o *opT, keys int) msgT {
	n := len(o.ops)
	var idx int
	switch r.Intn(10) {
	case 0:
		idx = 0
	case 1:
		idx = hx.Pick(r, []int{n + 1, 255, 254, 128, n + 2})
	default:
		idx = r.Range(1, maxI(1, n))
	}
	idx &= 0xff
	m := msgT{idx: uint8(idx), sess: o.sess, aux1: o.aux1, aux2: o.aux2, sig: true}
	if idx >= 1 && idx <= n && !r.Chance(1, 4) {
		m.netKey = o.ops[idx-1]
	} else {
		m.netKey = r.Range(1, keys)
	}
	m.msgKey = m.netKey
	if r.Chance(1, 8) {
		m.msgKey = r.Range(1, keys)
	}
	if r.Chance(1, 8) {
		m.sess = r.Range(1, 4)
	}
	if r.Chance(1, 8) {
		m.aux1 = r.Range(1, 4)
	}
	if r.Chance(1, 6) {
		m.aux2 = r.Range(4, 10)
	}
	if r.Chance(1, 10) {
		m.sig = false
	}
	m.action = r.Intn(6)
	if len(o.allowed) > 0 && r.Chance(2, 3) {
		m.action = hx.Pick(r, o.allowed)
	}
	if (o.step == "coord" || o.step == "coordh") && r.Chance(1, 3) && o.leader != 0 {
		// the leader's first seat, sent by the leader
		if s := seatsOf(o.ops, o.leader); len(s) > 0 {
			m.idx, m.netKey, m.msgKey = uint8(s[0]), o.leader, o.leader
		}
	}
	return m
}

// exhaustive: every (claimed index, key, session ok/wrong) combination for one small configuration.
func exhaustiveOps(r *hx.Rng) []string {
	var out []string
	configs := [][]int{{1, 2, 1}, {1, 1, 2, 3, 2}, {2}, {3, 3}}
	for _, step := range steps {
		for ci, ops := range configs {
			o := baseOp(r, step, ops)
			if (step == "coord" || step == "coordh") && len(o.allowed) == 0 {
				o.allowed = []int{1}
			}
			n := len(ops)
			if ci == 1 {
				o.ia, o.dq = []int{2}, []int{4}
			}
			idxs := []int{255, 254}
			for i := 0; i <= n+1; i++ {
				idxs = append(idxs, i)
			}
			for _, idx := range idxs {
				for key := 1; key <= 4; key++ {
					for _, sess := range []int{o.sess, o.sess + 1} {
						m := msgT{idx: uint8(idx), netKey: key, msgKey: key, sess: sess, aux1: o.aux1, aux2: o.aux2, sig: true}
						if len(o.allowed) > 0 {
							m.action = o.allowed[0]
						}
						o.msgs = append(o.msgs, m)
					}
				}
			}
			out = append(out, fmtOp(o))
		}
	}
	return out
}

// productionSweepOps: groups of 64 and 100 seats; for every step one sender key claims EVERY index
// 0..n+2 and 255 (all distances between the claim and the sender's own seats).
func productionSweepOps(r *hx.Rng) []string {
	var out []string
	for _, ns := range []int{64, 100} {
		seats := make([]int, ns)
		for j := range seats {
			seats[j] = r.Range(1, 6)
		}
		for _, step := range steps {
			o := baseOp(r, step, seats)
			key := r.Range(1, 6)
			switch step {
			case "coord", "coordh":
				o.allowed = []int{1, 2}
				if r.Chance(1, 2) {
					// a sender that is not the leader, so that the routine sees the whole sweep
					for o.leader == key {
						key = key%6 + 1
					}
				}
			case "done":
				o.allowed = nil
				for s := 1; s <= ns; s++ {
					o.allowed = append(o.allowed, s)
				}
			}
			idxs := []int{255}
			for i := 0; i <= ns+2; i++ {
				idxs = append(idxs, i)
			}
			for _, idx := range idxs {
				m := msgT{idx: uint8(idx), netKey: key, msgKey: key, sess: o.sess, aux1: o.aux1, aux2: o.aux2, sig: true, action: 1}
				o.msgs = append(o.msgs, m)
			}
			out = append(out, fmtOp(o))
		}
	}
	return out
}

func gen(r *hx.Rng, n int, tier string) []string {
	ops := exhaustiveOps(r)
	if n > 0 {
		ops = append(ops, productionSweepOps(r)...)
	}
	for i := 0; i < n; i++ {
		step := steps[i%len(steps)]
		var seats []int
		keys := 4
		switch {
		case r.Chance(1, 6):
			// production group sizes (beacon 64, tbtc 100), six operators
			ns := hx.Pick(r, []int{64, 100, 33, 65, 97})
			keys = 7
			for j := 0; j < ns; j++ {
				seats = append(seats, r.Range(1, 6))
			}
		case r.Chance(1, 25):
			// wrap-around territory: 254..257 seats, the last seats held by key 2
			ns := hx.Pick(r, []int{254, 255, 256, 257, 300})
			for j := 0; j < ns; j++ {
				if j >= 253 {
					seats = append(seats, 2)
				} else {
					seats = append(seats, 1)
				}
			}
		default:
			ns := r.Range(1, 6)
			distinct := r.Range(1, 3)
			for j := 0; j < ns; j++ {
				seats = append(seats, r.Range(1, distinct))
			}
		}
		o := baseOp(r, step, seats)
		ns := len(seats)
		if ns > 250 && (step == "coord" || step == "coordh") && r.Chance(1, 2) {
			// the leader holds the last seats: above 255 seats its sorted MemberIndex list starts
			// with the wrapped indexes 0, 1
			o.leader = 2
		}
		if r.Chance(1, 6) {
			o.gs = hx.Pick(r, []int{0, maxI(0, ns-1), ns + 1, 256})
		}
		if r.Chance(1, 2) {
			o.ia = append(o.ia, r.Range(1, maxI(1, minI(ns, 255))))
		}
		if r.Chance(1, 3) {
			o.dq = append(o.dq, r.Range(1, maxI(1, minI(ns, 255))))
		}
		k := r.Range(1, 6)
		for j := 0; j < k; j++ {
			m := randMsg(r, o, keys)
			if ns > 250 && r.Chance(1, 2) {
				m.idx = uint8(hx.Pick(r, []int{0, 255, 254, 1}))
				m.netKey = hx.Pick(r, []int{1, 2})
				m.msgKey = m.netKey
			}
			if ns >= 33 && ns <= 100 && r.Chance(1, 2) {
				// claim an index at a power-of-two distance from one of the sender's own seats
				p := r.Range(1, ns)
				d := hx.Pick(r, []int{-64, -32, -16, -8, -1, 1, 8, 16, 32, 64})
				if q := p + d; q >= 0 && q <= 255 {
					m.idx, m.netKey, m.msgKey = uint8(q), seats[p-1], seats[p-1]
				}
			}
			o.msgs = append(o.msgs, m)
			if step == "done" && r.Chance(1, 3) {
				o.msgs = append(o.msgs, m) // duplicate done message
			}
		}
		if (step == "annh" || step == "coordh") && ns <= 255 && r.Chance(3, 4) {
			// one sender: first a seat it holds, then seats of others (and a retransmission)
			p := r.Range(1, ns)
			key := seats[p-1]
			first := msgT{idx: uint8(p), netKey: key, msgKey: key, sess: o.sess, aux1: o.aux1, aux2: o.aux2, sig: true}
			if len(o.allowed) > 0 {
				first.action = o.allowed[0]
			}
			o.msgs = append(o.msgs, first)
			for j := r.Range(1, 3); j > 0; j-- {
				sp := first
				sp.idx = uint8(r.Range(0, minI(ns+1, 255)))
				o.msgs = append(o.msgs, sp)
				if r.Chance(1, 3) {
					o.msgs = append(o.msgs, first)
				}
			}
			if r.Chance(1, 3) {
				// interleave with what was generated before
				pm := r.Perm(len(o.msgs))
				sh := make([]msgT, len(o.msgs))
				for a, b := range pm {
					sh[a] = o.msgs[b]
				}
				o.msgs = sh
			}
		}
		ops = append(ops, fmtOp(o))
	}
	if n > 0 {
		ops = append(ops, "mv - 1,2 2 - - - 1 1 1 0 - 1:1:1", "nonsense", "callsite signing", "callsite dkg",
			fmt.Sprintf("sessions %d,%d,%d 4", r.Range(1, 1<<30), r.Range(1, 300), uint64(r.U64()>>2)|1))
	}
	return ops
}

// facts: the compiled width and wrap-around of group.MemberIndex (T1 tie of the UInt8 model).
func facts() []string {
	var z group.MemberIndex
	m := group.MemberIndex(group.MaxMemberIndex)
	return []string{
		fmt.Sprintf("nat maxMemberIndex %d", group.MaxMemberIndex),
		fmt.Sprintf("nat memberIndexBits %d", unsafe.Sizeof(z)*8),
		fmt.Sprintf("nat zeroMinusOne %d", int(z-1)),
		fmt.Sprintf("nat maxPlusOne %d", int(m+1)),
	}
}

func main() {
	hx.Main(&hx.Config{Prop: "C12", Gen: gen, Exec: exec, Facts: facts})
}

func maxI(a, b int) int {
	if a > b {
		return a
	}
	return b
}

func minI(a, b int) int {
	if a < b {
		return a
	}
	return b
}
