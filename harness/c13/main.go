// C13: result and claim support counts only valid, distinct, matching signatures.
//
// Op line (12 tokens):
//
//	<proto> <ops> <gs> <ia> <dq> <self> <sess> <pref> <N> <H> <Q> <msgs>
//
// proto  beacon | tecdsa | inact
// ops    operator key id of every seat (key ids 1..4 are real ECDSA keys, 0 is malformed key bytes)
// gs/ia/dq  the member's group (size, inactive, disqualified);  self: own seat;  sess: session id
// pref   id of the preferred result/claim hash;  N,H,Q: group size, honest threshold, group quorum
// msgs   history of network messages  idx:netKey:msgKey:sess:hash:kind
//
//	kind 0 valid signature of msgKey over hash, 1 signature over another hash,
//	2 signature by another key, 3 garbage bytes, 4 empty
//
// The REAL result signing -> signatures verification -> submission states run on the history.
// Obs line: <idx:src,...> submit|nosubmit   (sorted map handed to the submitter; src = position of the
// history message whose signature bytes are in the map, or "self")
package main

import (
	"bytes"
	"context"
	"crypto/ecdsa"
	"crypto/elliptic"
	"fmt"
	"math/big"
	"sort"
	"strings"

	"keepverif/harness/hx"

	tsscrypto "github.com/bnb-chain/tss-lib/crypto"
	"github.com/bnb-chain/tss-lib/ecdsa/keygen"
	"github.com/bnb-chain/tss-lib/tss"
	golog "github.com/ipfs/go-log/v2"
	beaconchain "github.com/keep-network/keep-core/pkg/beacon/chain"
	"github.com/keep-network/keep-core/pkg/beacon/dkg/result"
	"github.com/keep-network/keep-core/pkg/beacon/event"
	"github.com/keep-network/keep-core/pkg/chain"
	"github.com/keep-network/keep-core/pkg/chain/local_v1"
	"github.com/keep-network/keep-core/pkg/net"
	"github.com/keep-network/keep-core/pkg/operator"
	"github.com/keep-network/keep-core/pkg/protocol/group"
	"github.com/keep-network/keep-core/pkg/protocol/inactivity"
	"github.com/keep-network/keep-core/pkg/subscription"
	"github.com/keep-network/keep-core/pkg/tbtc"
	"github.com/keep-network/keep-core/pkg/tecdsa"
	tdkg "github.com/keep-network/keep-core/pkg/tecdsa/dkg"
)

var logger = golog.Logger("verif-c13")

const numKeys = 4

var localChain = local_v1.Connect(5, 3)

// signers[1..numKeys]: real operator keys
var signers = func() []chain.Signing {
	s := make([]chain.Signing, numKeys+1)
	for i := 1; i <= numKeys; i++ {
		priv, _, err := operator.GenerateKeyPair(local_v1.DefaultCurve)
		if err != nil {
			panic(err)
		}
		s[i] = local_v1.NewSigner(priv)
	}
	return s
}()

func pub(k int) []byte {
	if k >= 1 && k <= numKeys {
		return signers[k].PublicKey()
	}
	return []byte{1, 2, byte(k)}
}

func address(k int) chain.Address { return signers[1].PublicKeyBytesToAddress(pub(k)) }

func session(s int) string { return fmt.Sprintf("s%d", s) }

// ---- fakes ------------------------------------------------------------------

type tid string

func (t tid) String() string { return string(t) }

type fmsg struct {
	payload interface{}
	key     []byte
}

func (m *fmsg) TransportSenderID() net.TransportIdentifier { return tid("peer") }
func (m *fmsg) SenderPublicKey() []byte                    { return m.key }
func (m *fmsg) Payload() interface{}                       { return m.payload }
func (m *fmsg) Type() string                               { return m.payload.(interface{ Type() string }).Type() }
func (m *fmsg) Seqno() uint64                              { return 0 }

type fchan struct{}

func (fchan) Name() string { return "c13" }
func (fchan) Send(context.Context, net.TaggedMarshaler, ...net.RetransmissionStrategy) error {
	return nil
}
func (fchan) Recv(context.Context, func(m net.Message))   {}
func (fchan) SetUnmarshaler(func() net.TaggedUnmarshaler) {}
func (fchan) SetFilter(net.BroadcastChannelFilter) error  { return nil }

type fcounter struct{}

func (fcounter) WaitForBlockHeight(uint64) error { return nil }
func (fcounter) BlockHeightWaiter(b uint64) (<-chan uint64, error) {
	c := make(chan uint64, 1)
	c <- b
	return c, nil
}
func (fcounter) CurrentBlock() (uint64, error) { return 1, nil }
func (fcounter) WatchBlocks(ctx context.Context) <-chan uint64 {
	return make(chan uint64)
}

// bchain: the local beacon chain with a per-case config and a recording SubmitDKGResult.
type bchain struct {
	beaconchain.Interface
	cfg       *beaconchain.Config
	s         chain.Signing
	submitted []map[group.MemberIndex][]byte
}

func (b *bchain) GetConfig() *beaconchain.Config         { return b.cfg }
func (b *bchain) Signing() chain.Signing                 { return b.s }
func (b *bchain) IsGroupRegistered([]byte) (bool, error) { return false, nil }
func (b *bchain) OnDKGResultSubmitted(func(*event.DKGResultSubmission)) subscription.EventSubscription {
	return subscription.NewEventSubscription(func() {})
}
func (b *bchain) SubmitDKGResult(_ beaconchain.GroupMemberIndex, _ *beaconchain.DKGResult,
	sigs map[beaconchain.GroupMemberIndex][]byte) error {
	b.submitted = append(b.submitted, sigs)
	return nil
}

// tchain: tbtc.Chain stub — the submitters consult it only after their threshold gate.
type tchain struct {
	tbtc.Chain
	s    chain.Signing
	pref [32]byte
}

// the chain-specific hash of the member's own result / claim is an input of the case
func (t tchain) CalculateDKGResultSignatureHash(*ecdsa.PublicKey, []group.MemberIndex, uint64) (tdkg.ResultSignatureHash, error) {
	return t.pref, nil
}
func (t tchain) CalculateInactivityClaimHash(*inactivity.ClaimPreimage) (inactivity.ClaimHash, error) {
	return t.pref, nil
}

func (t tchain) Signing() chain.Signing              { return t.s }
func (t tchain) GetDKGState() (tbtc.DKGState, error) { return tbtc.Idle, nil }
func (t tchain) GetWallet([20]byte) (*tbtc.WalletChainData, error) {
	return nil, fmt.Errorf("no wallet in the stub chain")
}

// dkgResult is a tecdsa DKG result carrying just a group public key (all SignResult needs).
func dkgResult(grp *group.Group) *tdkg.Result {
	x, y := tss.EC().ScalarBaseMult([]byte{11})
	pt, err := tsscrypto.NewECPoint(tss.EC(), x, y)
	if err != nil {
		panic(err)
	}
	return &tdkg.Result{Group: grp, PrivateKeyShare: tecdsa.NewPrivateKeyShare(keygen.LocalPartySaveData{ECDSAPub: pt})}
}

// ---- op ---------------------------------------------------------------------

type msgT struct {
	idx                              uint8
	netKey, msgKey, sess, hash, kind int
}

type opT struct {
	proto            string
	ops              []int
	gs               int
	ia, dq           []int
	self, sess, pref int
	n, h, q          int
	msgs             []msgT
}

func parse(op string) (*opT, bool) {
	defer func() { recover() }()
	f := strings.Fields(op)
	if len(f) != 12 {
		return nil, false
	}
	o := &opT{proto: f[0]}
	if o.proto != "beacon" && o.proto != "tecdsa" && o.proto != "inact" {
		return nil, false
	}
	o.ops = hx.ParseInts(f[1])
	o.gs = hx.Atoi(f[2])
	o.ia, o.dq = hx.ParseInts(f[3]), hx.ParseInts(f[4])
	o.self, o.sess, o.pref = hx.Atoi(f[5]), hx.Atoi(f[6]), hx.Atoi(f[7])
	o.n, o.h, o.q = hx.Atoi(f[8]), hx.Atoi(f[9]), hx.Atoi(f[10])
	for _, ms := range hx.SplitList(f[11]) {
		p := strings.Split(ms, ":")
		if len(p) != 6 {
			return nil, false
		}
		v := make([]int, 6)
		for i := range p {
			v[i] = hx.Atoi(p[i])
			if v[i] < 0 {
				return nil, false
			}
		}
		if v[0] > 255 || v[4] > 255 || v[5] > 4 {
			return nil, false
		}
		o.msgs = append(o.msgs, msgT{uint8(v[0]), v[1], v[2], v[3], v[4], v[5]})
	}
	for _, l := range [][]int{o.ia, o.dq, {o.self}, o.ops} {
		for _, x := range l {
			if x < 0 || x > 255 {
				return nil, false
			}
		}
	}
	if o.gs < 0 || o.gs > 255 || len(o.ops) > 255 || o.pref < 0 || o.pref > 255 ||
		o.n < 0 || o.h < 0 || o.q < 0 || o.n > 1000 || o.h > 1000 || o.q > 1000 || len(o.msgs) > 500 {
		return nil, false
	}
	return o, true
}

func hash32(proto string, id int) [32]byte {
	if proto == "beacon" {
		h, err := localChain.CalculateDKGResultHash(&beaconchain.DKGResult{GroupPublicKey: []byte{byte(id)}})
		if err != nil {
			panic(err)
		}
		return h
	}
	var h [32]byte
	h[0], h[31] = byte(id), 0x77
	return h
}

// signature builds the signature bytes of message number pos and reports whether the real library
// verifies it under the message's key over the message's hash.
func signature(proto string, m msgT, pos int) ([]byte, bool) {
	h := hash32(proto, m.hash)
	other := hash32(proto, (m.hash+1)%256)
	var sig []byte
	valid := m.msgKey >= 1 && m.msgKey <= numKeys
	switch {
	case m.kind == 3 || (!valid && m.kind <= 2):
		sig = []byte{0x30, 0x03, byte(pos), byte(pos >> 8), byte(m.idx)}
	case m.kind == 4:
		sig = nil
	case m.kind == 0:
		sig, _ = signers[m.msgKey].Sign(h[:])
	case m.kind == 1:
		sig, _ = signers[m.msgKey].Sign(other[:])
	case m.kind == 2:
		sig, _ = signers[m.msgKey%numKeys+1].Sign(h[:])
	}
	ok, err := signers[1].VerifyWithPublicKey(h[:], sig, pub(m.msgKey))
	return sig, ok && err == nil
}

func exec(op string) (string, string) {
	o, ok := parse(op)
	if !ok {
		return "bad-op", "bad"
	}
	addrs := make([]chain.Address, len(o.ops))
	for i, a := range o.ops {
		addrs[i] = address(a)
	}
	mv := group.NewMembershipValidator(logger, addrs, signers[1])
	grp := group.NewGroup(0, o.gs)
	for _, x := range o.ia {
		grp.MarkMemberAsInactive(uint8(x))
	}
	for _, x := range o.dq {
		grp.MarkMemberAsDisqualified(uint8(x))
	}
	own := signers[1]
	if o.self >= 1 && o.self <= len(o.ops) {
		if k := o.ops[o.self-1]; k >= 1 && k <= numKeys {
			own = signers[k]
		}
	}
	sigs := make([][]byte, len(o.msgs))
	assumptionOK := true
	for i, m := range o.msgs {
		var v bool
		sigs[i], v = signature(o.proto, m, i)
		if v != (m.kind == 0 && m.msgKey >= 1 && m.msgKey <= numKeys) {
			assumptionOK = false
		}
	}
	ctx := context.Background()
	var selfSig []byte
	var valid map[group.MemberIndex][]byte
	var submitErr, runErr error
	verdict := ""
	switch o.proto {
	case "beacon":
		bc := &bchain{Interface: localChain, s: own,
			cfg: &beaconchain.Config{GroupSize: o.n, HonestThreshold: o.h, ResultPublicationBlockStep: 1}}
		var msgs []net.Message
		for i, m := range o.msgs {
			msgs = append(msgs, &fmsg{key: pub(m.netKey), payload: result.VerifC13NewMessage(
				m.idx, hash32("beacon", m.hash), sigs[i], pub(m.msgKey), session(m.sess))})
		}
		member := result.NewSigningMember(logger, uint8(o.self), grp, mv, session(o.sess))
		selfSig, valid, submitErr, runErr = result.VerifC13RunPublication(ctx, member, fchan{}, bc, fcounter{},
			&beaconchain.DKGResult{GroupPublicKey: []byte{byte(o.pref)}}, msgs)
		switch {
		case submitErr == nil && len(bc.submitted) == 1:
			verdict = "submit"
			if !sameMap(bc.submitted[0], valid) {
				verdict = "submitted-map-differs"
			}
		case submitErr != nil && strings.Contains(submitErr.Error(), "could not submit result with") && len(bc.submitted) == 0:
			verdict = "nosubmit"
		default:
			verdict = "err:submission"
		}
	case "tecdsa":
		tc := tchain{s: own, pref: hash32("tecdsa", o.pref)}
		signer := tbtc.VerifC13NewDkgResultSigner(tc) // the real signer: SignResult and VerifySignature
		submitter := tbtc.VerifC13NewDkgResultSubmitter(tc, &tbtc.GroupParameters{GroupSize: o.n, GroupQuorum: o.q, HonestThreshold: o.h})
		var msgs []net.Message
		for i, m := range o.msgs {
			msgs = append(msgs, &fmsg{key: pub(m.netKey), payload: tdkg.VerifC13NewMessage(
				m.idx, hash32("tecdsa", m.hash), sigs[i], pub(m.msgKey), session(m.sess))})
		}
		selfSig, valid, submitErr, runErr = tdkg.VerifC13RunPublication(ctx, logger, uint8(o.self), grp, mv,
			session(o.sess), fchan{}, signer, submitter, dkgResult(grp), msgs)
		switch {
		case submitErr == nil:
			verdict = "submit" // gate passed; the stub chain then reports "not awaiting a result"
		case strings.Contains(submitErr.Error(), "could not submit result with"):
			verdict = "nosubmit"
		default:
			verdict = "err:submission"
		}
	case "inact":
		tc := tchain{s: own, pref: hash32("inact", o.pref)}
		signer := tbtc.VerifC13NewInactivityClaimSigner(tc) // the real signer: SignClaim and VerifySignature
		submitter := tbtc.VerifC13NewInactivityClaimSubmitter(tc, &tbtc.GroupParameters{GroupSize: o.n, GroupQuorum: o.q, HonestThreshold: o.h})
		var msgs []net.Message
		for i, m := range o.msgs {
			msgs = append(msgs, &fmsg{key: pub(m.netKey), payload: inactivity.VerifC13NewMessage(
				m.idx, hash32("inact", m.hash), sigs[i], pub(m.msgKey), session(m.sess))})
		}
		c := elliptic.P256()
		x, y := c.ScalarBaseMult([]byte{9})
		claim := inactivity.NewClaimPreimage(big.NewInt(1), &ecdsa.PublicKey{Curve: c, X: x, Y: y}, nil, false)
		selfSig, valid, submitErr, runErr = inactivity.VerifC13RunPublication(ctx, logger, uint8(o.self), grp, mv,
			session(o.sess), fchan{}, signer, submitter, claim, msgs)
		switch {
		case submitErr != nil && strings.Contains(submitErr.Error(), "could not submit inactivity claim with"):
			verdict = "nosubmit"
		case submitErr != nil && strings.Contains(submitErr.Error(), "no wallet in the stub chain"):
			verdict = "submit" // gate passed; the stub chain has no wallet registry
		default:
			verdict = "err:submission"
		}
	}
	if runErr != nil {
		return "err:run", "err"
	}
	if !assumptionOK {
		return "assumption-A-ecdsa-violated", "err"
	}
	// canonical map
	var idxs []int
	for i := range valid {
		idxs = append(idxs, int(i))
	}
	sort.Ints(idxs)
	var ents []string
	for _, i := range idxs {
		s := valid[uint8(i)]
		src := "?"
		if bytes.Equal(s, selfSig) && len(selfSig) > 0 {
			src = "self"
		} else {
			for p := range sigs {
				if sigs[p] != nil && bytes.Equal(sigs[p], s) {
					src = fmt.Sprint(p)
					break
				}
			}
		}
		ents = append(ents, fmt.Sprintf("%d:%s", i, src))
	}
	// tags
	tags := map[string]bool{o.proto: true, verdict: true}
	seen := map[uint8]int{}
	for _, m := range o.msgs {
		seen[m.idx]++
	}
	for _, m := range o.msgs {
		owner := -1
		if m.idx >= 1 && int(m.idx) <= len(o.ops) {
			owner = o.ops[m.idx-1]
		}
		if seen[m.idx] > 1 {
			tags["dup"] = true
		}
		if m.hash != o.pref {
			tags["conflict"] = true
		}
		if m.kind != 0 {
			tags["badsig"] = true
		}
		if m.msgKey != m.netKey {
			tags["foreignkey"] = true
		}
		if owner != m.netKey {
			tags["nonmember"] = true
		}
		if int(m.idx) == o.self {
			tags["selfmsg"] = true
		}
	}
	if len(ents) > 1 {
		tags["supported"] = true
	}
	validBy := map[int]bool{}
	for _, m := range o.msgs {
		owner := -1
		if m.idx >= 1 && int(m.idx) <= len(o.ops) {
			owner = o.ops[m.idx-1]
		}
		if owner != m.netKey || m.msgKey != m.netKey || m.hash != o.pref || m.sess != o.sess {
			continue
		}
		if m.kind == 0 {
			validBy[m.netKey] = true
		} else if validBy[m.netKey] {
			tags["multiseat-valid-then-invalid"] = true
		}
	}
	var ts []string
	for t := range tags {
		ts = append(ts, t)
	}
	sort.Strings(ts)
	return hx.JoinStrs(ents) + " " + verdict, strings.Join(ts, "+")
}

func sameMap(a, b map[group.MemberIndex][]byte) bool {
	if len(a) != len(b) {
		return false
	}
	for k, v := range a {
		if w, ok := b[k]; !ok || !bytes.Equal(v, w) {
			return false
		}
	}
	return true
}

// ---- generator --------------------------------------------------------------

func fmtOp(o *opT) string {
	ms := make([]string, len(o.msgs))
	for i, m := range o.msgs {
		ms[i] = fmt.Sprintf("%d:%d:%d:%d:%d:%d", m.idx, m.netKey, m.msgKey, m.sess, m.hash, m.kind)
	}
	return fmt.Sprintf("%s %s %d %s %s %d %d %d %d %d %d %s", o.proto, hx.JoinInts(o.ops), o.gs, hx.JoinInts(o.ia),
		hx.JoinInts(o.dq), o.self, o.sess, o.pref, o.n, o.h, o.q, hx.JoinStrs(ms))
}

func gen(r *hx.Rng, n int, tier string) []string {
	var ops []string
	protos := []string{"beacon", "tecdsa", "inact"}
	for i := 0; i < n; i++ {
		o := &opT{proto: protos[i%3], sess: r.Range(1, 2), pref: r.Range(1, 3)}
		ns := r.Range(2, 8)
		for j := 0; j < ns; j++ {
			k := r.Range(1, 3)
			if r.Chance(1, 30) {
				k = 0
			}
			o.ops = append(o.ops, k)
		}
		o.gs = ns
		if r.Chance(1, 10) {
			o.gs = hx.Pick(r, []int{ns - 1, ns + 1})
		}
		o.self = r.Range(1, ns)
		if r.Chance(1, 3) {
			o.ia = append(o.ia, r.Range(1, ns))
		}
		if r.Chance(1, 4) {
			o.dq = append(o.dq, r.Range(1, ns))
		}
		// mostly honest senders
		for s := 1; s <= ns; s++ {
			if s == o.self && !r.Chance(1, 6) {
				continue
			}
			if !r.Chance(5, 6) {
				continue
			}
			m := msgT{idx: uint8(s), netKey: o.ops[s-1], msgKey: o.ops[s-1], sess: o.sess, hash: o.pref, kind: 0}
			o.msgs = append(o.msgs, m)
		}
		// noise
		noise := r.Range(0, 5)
		for j := 0; j < noise; j++ {
			s := r.Range(0, ns+1)
			if r.Chance(1, 12) {
				s = 255
			}
			m := msgT{idx: uint8(s), sess: o.sess, hash: o.pref, kind: 0}
			if s >= 1 && s <= ns {
				m.netKey = o.ops[s-1]
			} else {
				m.netKey = r.Range(1, 4)
			}
			m.msgKey = m.netKey
			switch r.Intn(7) {
			case 0: // duplicate of an honest message (same content)
			case 1:
				m.hash = o.pref%3 + 1 // conflicting hash
			case 2:
				m.kind = r.Range(1, 4)
			case 3:
				m.msgKey = m.netKey%numKeys + 1 // key differing from the network key, validly signed
			case 4:
				m.netKey = r.Range(1, 4) // possibly a non-member / other operator
				m.msgKey = m.netKey
			case 5:
				m.sess = o.sess + 1
			case 6:
				m.hash = o.pref%3 + 1
				m.kind = r.Range(0, 4)
			}
			o.msgs = append(o.msgs, m)
		}
		// order
		if r.Chance(1, 2) {
			p := r.Perm(len(o.msgs))
			sh := make([]msgT, len(o.msgs))
			for a, b := range p {
				sh[a] = o.msgs[b]
			}
			o.msgs = sh
		}
		// a multi-seat operator: its first seat signs validly, a later seat sends a wrong signature
		// (other hash / other key / garbage) with the same key over the same hash
		if r.Chance(1, 3) {
			bySeat := map[int][]int{}
			for s := 1; s <= ns; s++ {
				if s != o.self && o.ops[s-1] >= 1 {
					bySeat[o.ops[s-1]] = append(bySeat[o.ops[s-1]], s)
				}
			}
			for k := 1; k <= 3; k++ {
				if seats := bySeat[k]; len(seats) >= 2 {
					a, b := seats[0], seats[1]
					if r.Bool() {
						a, b = b, a
					}
					var rest []msgT
					for _, m := range o.msgs {
						if int(m.idx) != a && int(m.idx) != b {
							rest = append(rest, m)
						}
					}
					good := msgT{idx: uint8(a), netKey: k, msgKey: k, sess: o.sess, hash: o.pref, kind: 0}
					bad := msgT{idx: uint8(b), netKey: k, msgKey: k, sess: o.sess, hash: o.pref, kind: r.Range(1, 3)}
					cut := r.Intn(len(rest) + 1)
					o.msgs = append(append(append([]msgT{}, rest[:cut]...), good, bad), rest[cut:]...)
					break
				}
			}
		}
		// an operator first sends its legitimate message, then further messages with the same network
		// key, inner key and hash but claiming seats of OTHER operators (silent so far or not)
		if r.Chance(1, 4) {
			p := r.Range(1, ns)
			if k := o.ops[p-1]; p != o.self && k >= 1 {
				first := msgT{idx: uint8(p), netKey: k, msgKey: k, sess: o.sess, hash: o.pref, kind: 0}
				msgs := []msgT{first}
				for j := r.Range(1, 3); j > 0; j-- {
					sp := first
					sp.idx = uint8(r.Range(0, ns+1))
					msgs = append(msgs, sp)
				}
				if r.Bool() {
					o.msgs = append(msgs, o.msgs...)
				} else {
					o.msgs = append(o.msgs, msgs...)
				}
			}
		}
		// thresholds around the plausible support size
		o.n = ns
		o.h = r.Range(1, ns)
		o.q = r.Range(o.h, ns)
		if r.Chance(1, 10) {
			o.n = r.Range(ns, ns+4)
		}
		if o.proto == "beacon" && r.Chance(1, 3) {
			// group size and honest threshold both odd (integer-division boundary of the midpoint)
			o.n |= 1
			o.h = o.h | 1
			if o.h > o.n {
				o.h = o.n
			}
		}
		ops = append(ops, fmtOp(o))
	}
	if n > 0 {
		ops = append(ops, "nonsense")
	}
	return ops
}

func main() {
	hx.Main(&hx.Config{Prop: "C13", Gen: gen, Exec: exec})
}
