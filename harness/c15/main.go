// C15: message-driven state machine never loses early messages or skips a state.
//
// The REAL state.AsyncMachine.Execute runs toy states built on the REAL state.BaseAsyncState
// (shared along the chain as the tecdsa states do), state.ExtractMessagesPayloads and
// state.DeduplicateMessagesPayloads. The harness is the environment: it delivers messages,
// releases blocking Initiate calls, holds the receive loop inside Receive and cancels the
// context; between events it waits (on conditions, never on time) for the machine to be
// quiescent, so that scripts made only of waiting events have exactly one outcome.
//
// Op line:  async <chain> <events>
//
//	chain   comma list  <need>[g][e][n] : state k can transition when the shared history holds
//	        <need> distinct messages of type k; g = Initiate blocks until `i`, e = Initiate
//	        fails, n = Next fails
//	events  m<t>.<id>  deliver message id of type t, then wait for quiescence
//	        M<t>.<id>  deliver without waiting (burst; races with the machine)
//	        F<t>.<id>.<n>  n copies of message id of type t (a repeating sender), each delivered to
//	                   a quiescent machine
//	        B<t>.<id>.<n>  busy flood: hold the receive loop inside Receive of message <id>, deliver
//	                   ids id+1..id+n-1 of type t concurrently from the channel side (a correct handler
//	                   blocks while recvChan is full), let the loop go, wait until all were consumed
//	        i          let the blocking Initiate of the current state return
//	        h / u      hold the receive loop inside its next Receive call / let it go
//	        x          cancel the machine's context
//	After the script: unhold, wait, cancel.
//
// Obs line: seq=<states initiated> out=<final:k|err:initiate:k|err:next:k|ctx> hist=<t.id admitted, in
// order> drop=<n> real=<the REAL
// stored history per type> log=<I k/<history size> Initiate called, J k/<size> returned, T k/<history size> CanTransition true,
// N k Next, R k.<t>.<id> Receive, X k CanTransition before Initiate returned>
package main

import (
	"context"
	"errors"
	"fmt"
	"go/ast"
	"go/parser"
	"go/token"
	"math/big"
	"os"
	"path/filepath"
	"runtime"
	"sort"
	"strconv"
	"strings"
	"sync"
	"time"

	"keepverif/harness/c07/dkgrun"
	"keepverif/harness/hx"

	"github.com/ipfs/go-log/v2"
	"github.com/keep-network/keep-core/pkg/net"
	"github.com/keep-network/keep-core/pkg/protocol/group"
	"github.com/keep-network/keep-core/pkg/protocol/state"
	"github.com/keep-network/keep-core/pkg/tecdsa"
	"github.com/keep-network/keep-core/pkg/tecdsa/dkg"
	"github.com/keep-network/keep-core/pkg/tecdsa/signing"
)

const waitTimeout = 20 * time.Second

// lostTimeout bounds the wait for the machine to consume a finished busy flood.
const lostTimeout = 12 * time.Second

var logger = func() log.StandardLogger {
	l := log.Logger("verif-c15")
	log.SetAllLoggers(log.LevelFatal)
	return l
}()

type spec struct {
	need    int
	g, e, n bool
}

type toyMsg struct{ typ, id int }

func (m *toyMsg) TransportSenderID() net.TransportIdentifier { return nil }
func (m *toyMsg) SenderPublicKey() []byte                    { return nil }
func (m *toyMsg) Payload() interface{}                       { return m }
func (m *toyMsg) Type() string                               { return "t" + strconv.Itoa(m.typ) }
func (m *toyMsg) Seqno() uint64                              { return uint64(m.id) }

type world struct {
	mu    sync.Mutex
	cond  *sync.Cond
	specs []spec
	base  *state.BaseAsyncState

	log      []string
	closed   bool // Execute returned: stop logging
	cur      int
	initRet  map[int]bool
	gateWait map[int]bool
	gates    map[int]chan struct{}
	trueSeen map[int]bool
	enqueued int
	consumed int
	dropped  int
	hist     []string

	holdNext bool
	held     bool
	holdCh   chan struct{}

	recvCtx context.Context
	handler func(net.Message)
	hang    bool
}

// ---- net.BroadcastChannel ---------------------------------------------------

func (w *world) Name() string { return "c15" }
func (w *world) Send(ctx context.Context, m net.TaggedMarshaler, s ...net.RetransmissionStrategy) error {
	return nil
}
func (w *world) Recv(ctx context.Context, handler func(m net.Message)) {
	w.mu.Lock()
	defer w.mu.Unlock()
	w.recvCtx, w.handler = ctx, handler
}
func (w *world) SetUnmarshaler(func() net.TaggedUnmarshaler)  {}
func (w *world) SetFilter(net.BroadcastChannelFilter) error { return nil }

// ---- toy state ---------------------------------------------------------------

type toyState struct {
	*state.BaseAsyncState
	w *world
	k int
}

func (s *toyState) add(ev string) {
	if !s.w.closed {
		s.w.log = append(s.w.log, ev)
	}
}

// can evaluates the transition condition on the REAL shared history.
func (s *toyState) can() bool {
	payloads := state.ExtractMessagesPayloads[*toyMsg](s.BaseAsyncState, "t"+strconv.Itoa(s.k))
	dedup := state.DeduplicateMessagesPayloads(payloads, func(m *toyMsg) string { return strconv.Itoa(m.id) })
	return len(dedup) >= s.w.specs[s.k].need
}

func (s *toyState) histLen() int {
	n := 0
	for t := 0; t < 8; t++ {
		n += len(s.GetAllReceivedMessages("t" + strconv.Itoa(t)))
	}
	return n
}

func (s *toyState) CanTransition() bool {
	w := s.w
	w.mu.Lock()
	defer w.mu.Unlock()
	if !w.initRet[s.k] {
		s.add(fmt.Sprintf("X%d", s.k))
	}
	c := s.can()
	if c {
		s.add(fmt.Sprintf("T%d/%d", s.k, s.histLen()))
		w.trueSeen[s.k] = true
	}
	w.cond.Broadcast()
	return c
}

func (s *toyState) Initiate(ctx context.Context) error {
	w := s.w
	w.mu.Lock()
	w.cur = s.k
	s.add(fmt.Sprintf("I%d/%d", s.k, s.histLen()))
	sp := w.specs[s.k]
	if sp.g {
		g := make(chan struct{})
		w.gates[s.k] = g
		w.gateWait[s.k] = true
		w.cond.Broadcast()
		w.mu.Unlock()
		<-g
		w.mu.Lock()
		w.gateWait[s.k] = false
	}
	s.add(fmt.Sprintf("J%d/%d", s.k, s.histLen()))
	w.initRet[s.k] = true
	w.cond.Broadcast()
	w.mu.Unlock()
	if sp.e {
		return errors.New("toy initiate failure")
	}
	return nil
}

func (s *toyState) Receive(msg net.Message) error {
	w := s.w
	m := msg.Payload().(*toyMsg)
	w.mu.Lock()
	s.ReceiveToHistory(msg) // real history; under w.mu so that the log order is the history order
	s.add(fmt.Sprintf("R%d.%d.%d", s.k, m.typ, m.id))
	if !w.closed {
		w.hist = append(w.hist, fmt.Sprintf("%d.%d", m.typ, m.id))
	}
	w.consumed++
	var hc chan struct{}
	if w.holdNext {
		w.holdNext = false
		w.held = true
		hc = make(chan struct{})
		w.holdCh = hc
	}
	w.cond.Broadcast()
	w.mu.Unlock()
	if hc != nil {
		<-hc
	}
	if m.id%3 == 0 {
		return errors.New("toy receive failure") // only logged by the machine
	}
	return nil
}

func (s *toyState) Next() (state.AsyncState, error) {
	w := s.w
	w.mu.Lock()
	defer w.mu.Unlock()
	s.add(fmt.Sprintf("N%d", s.k))
	w.cond.Broadcast()
	if w.specs[s.k].n {
		return nil, errors.New("toy next failure")
	}
	if s.k+1 >= len(w.specs) {
		return nil, nil
	}
	// the history is handed over to the next state, as the tecdsa states do
	return &toyState{BaseAsyncState: s.BaseAsyncState, w: w, k: s.k + 1}, nil
}

func (s *toyState) MemberIndex() group.MemberIndex { return 1 }

// ---- driving -------------------------------------------------------------------

func (w *world) waitFor(pred func() bool) bool { return w.waitForT(pred, waitTimeout) }

func (w *world) waitForT(pred func() bool, waitTimeout time.Duration) bool {
	deadline := time.Now().Add(waitTimeout)
	timer := time.AfterFunc(waitTimeout+time.Second, func() { w.mu.Lock(); w.cond.Broadcast(); w.mu.Unlock() })
	defer timer.Stop()
	for !pred() {
		if time.Now().After(deadline) {
			w.hang = true
			return false
		}
		w.cond.Wait()
	}
	return true
}

// quiescent: nothing more will happen without the environment (w.mu held).
func (w *world) quiescent(st *toyState) bool {
	if w.closed {
		return true
	}
	cur := &toyState{BaseAsyncState: st.BaseAsyncState, w: w, k: w.cur}
	tickSettled := w.gateWait[w.cur] || (w.initRet[w.cur] && (!cur.can() || w.trueSeen[w.cur]))
	if w.held {
		return tickSettled || (w.specs[w.cur].e && w.initRet[w.cur])
	}
	if w.specs[w.cur].e && w.initRet[w.cur] {
		return false // the error is on its way to the receive loop
	}
	if w.recvCtx != nil && w.recvCtx.Err() != nil {
		return false // cancelled: Execute is about to return
	}
	return w.consumed == w.enqueued && tickSettled && !w.trueSeen[w.cur]
}

func parseChain(s string) ([]spec, bool) {
	var out []spec
	for _, t := range strings.Split(s, ",") {
		var sp spec
		for strings.HasSuffix(t, "g") || strings.HasSuffix(t, "e") || strings.HasSuffix(t, "n") {
			switch t[len(t)-1] {
			case 'g':
				sp.g = true
			case 'e':
				sp.e = true
			case 'n':
				sp.n = true
			}
			t = t[:len(t)-1]
		}
		v, err := strconv.Atoi(t)
		if err != nil || v < 0 {
			return nil, false
		}
		sp.need = v
		out = append(out, sp)
	}
	return out, len(out) > 0 && len(out) <= 8
}

type event struct {
	kind         byte
	typ, id, cnt int
}

func parseEvents(s string) ([]event, bool) {
	var out []event
	for _, t := range hx.SplitList(s) {
		switch {
		case t == "i" || t == "h" || t == "u" || t == "x":
			out = append(out, event{kind: t[0]})
		case len(t) > 1 && (t[0] == 'm' || t[0] == 'M'):
			p := strings.Split(t[1:], ".")
			if len(p) != 2 {
				return nil, false
			}
			a, e1 := strconv.Atoi(p[0])
			b, e2 := strconv.Atoi(p[1])
			if e1 != nil || e2 != nil || a < 0 || a > 7 || b < 0 {
				return nil, false
			}
			out = append(out, event{t[0], a, b, 1})
		case len(t) > 1 && (t[0] == 'F' || t[0] == 'B'):
			p := strings.Split(t[1:], ".")
			if len(p) != 3 {
				return nil, false
			}
			a, e1 := strconv.Atoi(p[0])
			b, e2 := strconv.Atoi(p[1])
			c, e3 := strconv.Atoi(p[2])
			if e1 != nil || e2 != nil || e3 != nil || a < 0 || a > 7 || b < 0 || c < 0 || c > 5000 {
				return nil, false
			}
			out = append(out, event{t[0], a, b, c})
		default:
			return nil, false
		}
	}
	return out, true
}

// ---- the real tecdsa state chains (structural walk) ---------------------------------
// Op line: chain dkg | chain signing.  The REAL state chain is walked with Next() from the initial
// state built by the C07/C08 hooks on fixture key shares. Before every Next a marker message is
// put into the history through the current state; `kept` = the state sees every earlier marker
// (Next handed the history over), `same` = the marker is visible through the INITIAL state too
// (one shared BaseAsyncState instance). The type sequence is compared with the chain read from
// the sources (Gen/C15.lean).

type historian interface {
	ReceiveToHistory(net.Message)
	GetAllReceivedMessages(string) []net.Message
}

type markerMsg struct{ toyMsg }

func (m *markerMsg) Type() string { return "verif/marker" }

func realInitial(which string) state.AsyncState {
	seats := []int{1, 2, 3}
	switch which {
	case "dkg":
		return dkg.VerifC07NewMember(dkgrun.Logger, big.NewInt(1000), 1, 3, 1,
			dkgrun.Validator(seats), "verif", dkgrun.PreParams(0)).InitialState(nil)
	case "signing":
		return signing.VerifC08InitialState(dkgrun.Logger, big.NewInt(100), "verif", 1,
			tecdsa.NewPrivateKeyShare(dkgrun.Fixture(0)), 3, 1, nil, dkgrun.Validator(seats))
	}
	return nil
}

func shortType(v interface{}) string {
	t := fmt.Sprintf("%T", v)
	if i := strings.LastIndex(t, "."); i >= 0 {
		t = t[i+1:]
	}
	return t
}

func runChain(which string) (string, string) {
	st := realInitial(which)
	if st == nil {
		return "bad-op", "bad"
	}
	first, ok := st.(historian)
	if !ok {
		return "types=- kept=- same=- end=nohistory", "chain"
	}
	var types, kept, same []string
	end := "nil"
	b := func(x bool) string {
		if x {
			return "1"
		}
		return "0"
	}
	for i := 0; i < 64; i++ {
		h, ok := st.(historian)
		if !ok {
			end = "nohistory"
			break
		}
		types = append(types, shortType(st))
		kept = append(kept, b(len(h.GetAllReceivedMessages("verif/marker")) == i))
		h.ReceiveToHistory(&markerMsg{toyMsg{9, i}})
		same = append(same, b(len(first.GetAllReceivedMessages("verif/marker")) == i+1))
		nx, err := st.Next()
		if err != nil {
			end = "err"
			break
		}
		if nx == nil {
			break
		}
		st = nx
	}
	return fmt.Sprintf("types=%s kept=%s same=%s end=%s", hx.JoinStrs(types), hx.JoinStrs(kept), hx.JoinStrs(same), end), "chain+" + which
}

// srcChain reads the chain from the sources: for every `func (r *T) Next()` of relFile the type
// of the returned `&U{…}` and whether U is given `BaseAsyncState: r.BaseAsyncState`.
func srcChain(relFile, initial string) (types []string, handsOver []string) {
	root := os.Getenv("VERIF_REPO")
	if root == "" {
		root = "/repo"
	}
	fset := token.NewFileSet()
	file, err := parser.ParseFile(fset, filepath.Join(root, relFile), nil, 0)
	if err != nil {
		return []string{"parse-error"}, nil
	}
	next := map[string]string{}
	keeps := map[string]bool{}
	for _, d := range file.Decls {
		fd, ok := d.(*ast.FuncDecl)
		if !ok || fd.Name.Name != "Next" || fd.Recv == nil || len(fd.Recv.List) != 1 || fd.Body == nil {
			continue
		}
		star, ok := fd.Recv.List[0].Type.(*ast.StarExpr)
		if !ok {
			continue
		}
		recvType := star.X.(*ast.Ident).Name
		recvName := ""
		if len(fd.Recv.List[0].Names) == 1 {
			recvName = fd.Recv.List[0].Names[0].Name
		}
		ast.Inspect(fd.Body, func(n ast.Node) bool {
			rs, ok := n.(*ast.ReturnStmt)
			if !ok || len(rs.Results) == 0 {
				return true
			}
			ue, ok := rs.Results[0].(*ast.UnaryExpr)
			if !ok {
				return true
			}
			cl, ok := ue.X.(*ast.CompositeLit)
			if !ok {
				return true
			}
			id, ok := cl.Type.(*ast.Ident)
			if !ok {
				return true
			}
			next[recvType] = id.Name
			for _, e := range cl.Elts {
				kv, ok := e.(*ast.KeyValueExpr)
				if !ok {
					continue
				}
				if k, ok := kv.Key.(*ast.Ident); ok && k.Name == "BaseAsyncState" {
					if sel, ok := kv.Value.(*ast.SelectorExpr); ok && sel.Sel.Name == "BaseAsyncState" {
						if x, ok := sel.X.(*ast.Ident); ok && x.Name == recvName {
							keeps[recvType] = true
						}
					}
				}
			}
			return true
		})
	}
	cur := initial
	for i := 0; i < 64; i++ {
		types = append(types, cur)
		nx, ok := next[cur]
		if !ok {
			break
		}
		if keeps[cur] {
			handsOver = append(handsOver, "1")
		} else {
			handsOver = append(handsOver, "0")
		}
		cur = nx
	}
	return
}

func facts() []string {
	dt, dk := srcChain("pkg/tecdsa/dkg/states.go", shortType(realInitial("dkg")))
	st, sk := srcChain("pkg/tecdsa/signing/states.go", shortType(realInitial("signing")))
	return []string{
		"strlist dkgChain " + strings.Join(dt, ","),
		"natlist dkgNextKeepsHistory " + hx.JoinStrs(dk),
		"strlist signingChain " + strings.Join(st, ","),
		"natlist signingNextKeepsHistory " + hx.JoinStrs(sk),
	}
}

func run(op string) (string, string) {
	f := strings.Fields(op)
	if len(f) == 2 && f[0] == "chain" {
		return runChain(f[1])
	}
	if len(f) != 3 || f[0] != "async" {
		return "bad-op", "bad"
	}
	specs, ok1 := parseChain(f[1])
	evs, ok2 := parseEvents(f[2])
	if !ok1 || !ok2 {
		return "bad-op", "bad"
	}
	w := &world{specs: specs, base: state.NewBaseAsyncState(), initRet: map[int]bool{}, gateWait: map[int]bool{},
		gates: map[int]chan struct{}{}, trueSeen: map[int]bool{}}
	w.cond = sync.NewCond(&w.mu)
	st0 := &toyState{BaseAsyncState: w.base, w: w, k: 0}
	ctx, cancel := context.WithCancel(context.Background())
	defer cancel()
	am := state.NewAsyncMachine(logger, ctx, w, st0)
	var resSt state.AsyncState
	var resErr error
	go func() {
		s, err := am.Execute()
		w.mu.Lock()
		resSt, resErr = s, err
		w.closed = true
		w.cond.Broadcast()
		w.mu.Unlock()
	}()

	tags := map[string]bool{}
	flooded := 0
	lost := ""
	w.mu.Lock()
	// Initiate of state 0 must have been entered before anything is scripted
	ok := w.waitFor(func() bool { return len(w.log) > 0 || w.closed }) && w.waitFor(func() bool { return w.quiescent(st0) })
	deliver := func(e event) {
		if w.closed || w.recvCtx == nil || w.recvCtx.Err() != nil {
			w.dropped++
			return
		}
		if e.typ > w.cur {
			tags["early"] = true
		}
		if e.typ < w.cur {
			tags["late"] = true
		}
		if w.gateWait[w.cur] {
			tags["duringinit"] = true
		}
		if w.held && w.trueSeen[w.cur] {
			tags["pending"] = true
		}
		w.enqueued++
		h := w.handler
		w.mu.Unlock()
		h(&toyMsg{e.typ, e.id})
		w.mu.Lock()
	}
	for _, e := range evs {
		if !ok {
			break
		}
		switch e.kind {
		case 'm':
			deliver(e)
			ok = w.waitFor(func() bool { return w.quiescent(st0) })
		case 'M':
			tags["burst"] = true
			deliver(e)
		case 'F': // a repeating sender: cnt copies, each delivered to a quiescent machine
			ok = w.waitFor(func() bool { return w.quiescent(st0) })
			flooded += e.cnt
			if flooded >= 256 {
				tags["flood"] = true
			}
			for i := 0; ok && i < e.cnt; i++ {
				deliver(e)
				ok = w.waitFor(func() bool { return w.quiescent(st0) })
			}
		case 'B':
			ok = w.waitFor(func() bool { return w.quiescent(st0) })
			if ok && e.cnt > 0 && !w.closed && !w.held && w.recvCtx != nil && w.recvCtx.Err() == nil {
				tags["busyflood"] = true
				w.holdNext = true
				deliver(event{'m', e.typ, e.id, 1})
				ok = w.waitFor(func() bool { return w.held || w.closed })
				pushed, floodDone := 0, false
				h := w.handler
				w.enqueued += e.cnt - 1
				go func() {
					for i := 1; i < e.cnt; i++ {
						h(&toyMsg{e.typ, e.id + i})
						w.mu.Lock()
						pushed++
						w.cond.Broadcast()
						w.mu.Unlock()
					}
					w.mu.Lock()
					floodDone = true
					w.cond.Broadcast()
					w.mu.Unlock()
				}()
				fill := e.cnt - 1
				if fill > 512 {
					fill = 512 // asyncReceiveBuffer: the next handler call blocks until the loop runs again
				}
				ok = ok && w.waitFor(func() bool { return pushed >= fill || w.closed })
				if w.held {
					w.held = false
					close(w.holdCh)
				}
				ok = ok && w.waitFor(func() bool { return floodDone || w.closed })
				if ok && !w.waitForT(func() bool { return w.quiescent(st0) }, lostTimeout) {
					lost = fmt.Sprintf("LOST consumed=%d delivered=%d", w.consumed, w.enqueued)
					ok = false
				}
			}
		case 'i':
			ok = w.waitFor(func() bool { return w.quiescent(st0) })
			if ok && !w.closed && w.gateWait[w.cur] {
				close(w.gates[w.cur])
				w.gateWait[w.cur] = false // released; J follows
				ok = w.waitFor(func() bool { return w.initRet[w.cur] || w.closed }) && w.waitFor(func() bool { return w.quiescent(st0) })
			}
		case 'h':
			if !w.held && !w.closed {
				w.holdNext = true
				tags["hold"] = true
			}
		case 'u':
			w.holdNext = false
			if w.held {
				w.held = false
				close(w.holdCh)
				ok = w.waitFor(func() bool { return w.quiescent(st0) })
			}
		case 'x':
			ok = w.waitFor(func() bool { return w.quiescent(st0) })
			if ok && !w.held && !w.closed {
				tags["cancel"] = true
				cancel()
				ok = w.waitFor(func() bool { return w.closed })
			}
		}
	}
	if ok {
		w.holdNext = false
		if w.held {
			w.held = false
			close(w.holdCh)
		}
		ok = w.waitFor(func() bool { return w.quiescent(st0) })
	}
	if ok && !w.closed {
		cancel()
		ok = w.waitFor(func() bool { return w.closed })
	}
	// let every parked goroutine go
	for k, g := range w.gates {
		if w.gateWait[k] {
			w.gateWait[k] = false
			close(g)
		}
	}
	if w.held {
		w.held = false
		close(w.holdCh)
	}
	hang := !ok
	logCopy := append([]string(nil), w.log...)
	hist := append([]string(nil), w.hist...)
	dropped := w.dropped
	w.mu.Unlock()
	if lost != "" {
		return lost, "lost"
	}
	if hang {
		return "HANG", "hang"
	}

	var seq []int
	for _, l := range logCopy {
		if l[0] == 'I' {
			seq = append(seq, hx.Atoi(strings.Split(l[1:], "/")[0]))
		}
	}
	// the REAL history must agree with what Receive was handed
	var realParts []string
	for t := 0; t < 8; t++ {
		ms := st0.GetAllReceivedMessages("t" + strconv.Itoa(t))
		if len(ms) == 0 {
			continue
		}
		ids := make([]string, len(ms))
		for i, m := range ms {
			ids[i] = strconv.Itoa(m.Payload().(*toyMsg).id)
		}
		realParts = append(realParts, fmt.Sprintf("%d:%s", t, strings.Join(ids, ".")))
	}
	realN := "-"
	if len(realParts) > 0 {
		realN = strings.Join(realParts, ";")
	}
	out := ""
	switch {
	case resErr == nil:
		k := -1
		if ts, isToy := resSt.(*toyState); isToy {
			k = ts.k
		}
		out = fmt.Sprintf("final:%d", k)
		tags["final"] = true
	case errors.Is(resErr, context.Canceled):
		out = "ctx"
		tags["ctx"] = true
	case strings.Contains(resErr.Error(), "failed to initiate state"):
		out = fmt.Sprintf("err:initiate:%d", seq[len(seq)-1])
		tags["initerr"] = true
	case strings.Contains(resErr.Error(), "failed to complete state"):
		out = fmt.Sprintf("err:next:%d", seq[len(seq)-1])
		tags["nexterr"] = true
	default:
		out = "err:other"
	}
	if len(seq) > 1 {
		tags["moved"] = true
	}
	if len(seq) > 2 {
		tags["moved2"] = true
	}
	obs := fmt.Sprintf("seq=%s out=%s hist=%s real=%s drop=%d log=%s", hx.JoinInts(seq), out, hx.JoinStrs(hist), realN, dropped, hx.JoinStrs(logCopy))
	var tl []string
	for _, t := range []string{"final", "ctx", "initerr", "nexterr", "moved", "moved2", "early", "late", "duringinit", "pending", "burst", "hold", "cancel", "flood", "busyflood"} {
		if tags[t] {
			tl = append(tl, t)
		}
	}
	if len(tl) == 0 {
		tl = []string{"none"}
	}
	return obs, strings.Join(tl, "+")
}

// ---- parallel pre-execution -------------------------------------------------------
// Every transition of the real machine costs one real 100 ms ticker period
// (transitionCheckInterval is a constant), so the generated cases are executed by a worker
// pool; each case is still one self-contained, independent run of `run(op)`.

type result struct {
	obs, tag string
	done     chan struct{}
}

var (
	poolMu  sync.Mutex
	pool    map[string]*result
	poolOps []string
	started bool
)

func startPool() {
	workers := runtime.GOMAXPROCS(0) * 4
	if workers > 48 {
		workers = 48
	}
	ch := make(chan string, len(poolOps))
	for _, op := range poolOps {
		ch <- op
	}
	close(ch)
	for i := 0; i < workers; i++ {
		go func() {
			for op := range ch {
				r := pool[op]
				func() {
					defer func() {
						if e := recover(); e != nil {
							r.obs, r.tag = "PANIC "+strings.ReplaceAll(fmt.Sprint(e), "\n", " "), "panic"
						}
						close(r.done)
					}()
					r.obs, r.tag = run(op)
				}()
			}
		}()
	}
}

func exec(op string) (string, string) {
	poolMu.Lock()
	r, ok := pool[op]
	if ok && !started {
		started = true
		startPool()
	}
	poolMu.Unlock()
	if !ok {
		return run(op)
	}
	<-r.done
	return r.obs, r.tag
}

// ---- generation ------------------------------------------------------------------

// genFlood: a member that lags behind piles up a large history: one or two repeating senders
// deliver 256..600 copies of their message of one type (or a mix over two types), then the
// other members' messages of that type arrive, then the state that needs them runs.
func genFlood(r *hx.Rng) string {
	k := r.Range(2, 4)
	t := r.Range(0, k-1)
	others := r.Range(1, 3)
	variant := r.Intn(3)
	senders := 1
	if variant == 1 {
		senders = 2
	}
	var ss []string
	for j := 0; j < k; j++ {
		need := r.Range(0, 1)
		if j == t {
			need = senders + others // every other member's message is needed
		}
		s := strconv.Itoa(need)
		if j <= t && r.Chance(1, 2) {
			s += "g" // the messages arrive before Initiate returns: no ticks needed
		}
		ss = append(ss, s)
	}
	var evs []string
	switch variant {
	case 0: // one repeating sender
		evs = append(evs, fmt.Sprintf("F%d.1.%d", t, r.Range(256, 600)))
	case 1: // two repeating senders, in blocks
		evs = append(evs, fmt.Sprintf("F%d.1.%d", t, r.Range(100, 300)), fmt.Sprintf("F%d.7.%d", t, r.Range(100, 300)), fmt.Sprintf("F%d.1.%d", t, r.Range(60, 200)))
	default: // per-type mix: no single type grows large, the whole history does
		u := (t + 1) % k
		evs = append(evs, fmt.Sprintf("F%d.1.%d", t, r.Range(95, 125)), fmt.Sprintf("F%d.9.%d", u, r.Range(95, 125)), fmt.Sprintf("F%d.1.%d", t, r.Range(95, 125)))
	}
	for o := 0; o < others; o++ {
		evs = append(evs, fmt.Sprintf("m%d.%d", t, 2+o))
	}
	for j := 0; j < k; j++ {
		evs = append(evs, "i")
		if j != t {
			evs = append(evs, fmt.Sprintf("m%d.%d", j, 20+j))
		}
	}
	evs = append(evs, "i", "i")
	return fmt.Sprintf("async %s %s", strings.Join(ss, ","), hx.JoinStrs(evs))
}

// genBusy: more messages than asyncReceiveBuffer arrive while the receive loop is busy inside one
// Receive call; every one of them is needed by state t. A last state that never gets its message
// keeps the machine alive, so every delivered message must have been consumed at the end.
func genBusy(r *hx.Rng) string {
	k := r.Range(1, 3)
	t := r.Range(0, k-1)
	n := r.Range(520, 700)
	var ss []string
	for j := 0; j < k; j++ {
		need := r.Range(0, 1)
		if j == t {
			need = n
		}
		s := strconv.Itoa(need)
		if r.Chance(1, 3) {
			s += "g"
		}
		ss = append(ss, s)
	}
	ss = append(ss, "1")
	var evs []string
	if r.Chance(1, 2) {
		evs = append(evs, "i")
	}
	if r.Chance(1, 2) {
		evs = append(evs, fmt.Sprintf("m%d.%d", r.Intn(k), 1))
	}
	evs = append(evs, fmt.Sprintf("B%d.100.%d", t, n))
	for j := 0; j < k; j++ {
		evs = append(evs, "i")
		if j != t {
			evs = append(evs, fmt.Sprintf("m%d.%d", j, 20+j))
		}
	}
	evs = append(evs, "i", "i")
	return fmt.Sprintf("async %s %s", strings.Join(ss, ","), hx.JoinStrs(evs))
}

func gen(r *hx.Rng, n int, tier string) []string {
	ops := []string{"chain dkg", "chain signing"}
	for i := 0; i < n; i++ {
		k := r.Range(1, 4)
		var ss []string
		for j := 0; j < k; j++ {
			s := strconv.Itoa(r.Range(0, 3))
			if r.Chance(1, 3) {
				s += "g"
			}
			if r.Chance(1, 20) {
				s += "e"
			}
			if r.Chance(1, 20) {
				s += "n"
			}
			ss = append(ss, s)
		}
		if r.Chance(1, 15) {
			ops = append(ops, genFlood(r))
			continue
		}
		if r.Chance(1, 30) {
			ops = append(ops, genBusy(r))
			continue
		}
		style := r.Intn(4) // 0,1 fully waiting script; 2 bursts; 3 holds
		nev := r.Range(0, 14)
		var evs []string
		id := 1
		holdSeen := false
		for j := 0; j < nev; j++ {
			c := r.Intn(12)
			switch {
			case c < 7:
				t := r.Intn(k)
				if r.Chance(1, 3) {
					t = r.Intn(k + 1)
				}
				mid := id
				if id > 1 && r.Chance(1, 6) {
					mid = r.Range(1, id-1) // duplicate / retransmission
				} else {
					id++
				}
				kind := "m"
				if style == 2 && r.Chance(2, 3) {
					kind = "M"
				}
				evs = append(evs, fmt.Sprintf("%s%d.%d", kind, t, mid))
			case c < 9 && !holdSeen:
				evs = append(evs, "i")
			case c < 10 && style == 3:
				evs = append(evs, "h")
				holdSeen = true // after a hold the script only delivers (keeps the outcome schedule independent)
			case c < 11 && style == 3:
				evs = append(evs, "u")
			case c == 11 && style != 3 && r.Chance(1, 3):
				evs = append(evs, "x")
			case !holdSeen:
				evs = append(evs, "i")
			}
		}
		ops = append(ops, fmt.Sprintf("async %s %s", strings.Join(ss, ","), hx.JoinStrs(evs)))
	}
	addToPool(ops)
	return ops
}

func addToPool(ops []string) {
	poolMu.Lock()
	if pool == nil {
		pool = map[string]*result{}
	}
	for _, op := range ops {
		if _, dup := pool[op]; !dup {
			pool[op] = &result{done: make(chan struct{})}
			poolOps = append(poolOps, op)
		}
	}
	poolMu.Unlock()
}

// preload puts the op lines of -replay / -corpus files into the worker pool too, so that replays
// (shrinking, the reverse-order pass) run as fast as generated cases.
func preload() {
	readOps := func(path string) []string {
		b, err := os.ReadFile(path)
		if err != nil {
			return nil
		}
		var out []string
		for _, l := range strings.Split(string(b), "\n") {
			l = strings.TrimRight(l, "\r")
			if l == "" || strings.HasPrefix(l, "#") {
				continue
			}
			out = append(out, l)
		}
		return out
	}
	args := os.Args[1:]
	for i := 0; i < len(args); i++ {
		a := strings.TrimLeft(args[i], "-")
		val := ""
		if eq := strings.Index(a, "="); eq >= 0 {
			a, val = a[:eq], a[eq+1:]
		} else if i+1 < len(args) {
			val = args[i+1]
		}
		switch a {
		case "replay":
			addToPool(readOps(val))
		case "corpus":
			files, _ := filepath.Glob(filepath.Join(val, "*.ops"))
			sort.Strings(files)
			for _, f := range files {
				addToPool(readOps(f))
			}
		}
	}
}

func main() {
	preload()
	hx.Main(&hx.Config{
		Prop:         "C15",
		Gen:          gen,
		Exec:         exec,
		PerOpTimeout: 10 * time.Minute,
		Facts:        facts,
	})
}
