#!/bin/sh
# Regenerates harness/go.mod + go.sum from /repo (replace blocks are not inherited).
set -e
cd "$(dirname "$0")"
REPO=${VERIF_REPO:-/repo}
{
  sed "s#=> /repo#=> $REPO#" go.mod.tmpl
  awk '/^replace \(/{p=1} p{print} p&&/^\)/{exit}' "$REPO/go.mod"
  echo
  awk '/^require \(/{p=1} p{print} p&&/^\)/{p=0}' "$REPO/go.mod"
} > go.mod.new
cmp -s go.mod.new go.mod || mv go.mod.new go.mod
rm -f go.mod.new
cmp -s "$REPO/go.sum" go.sum || cp "$REPO/go.sum" go.sum
