#!/bin/sh
# usage: mkmod.sh <out.mod>   (go.sum is written next to it as <out>.sum)
# Writes the harness module file for `go build -modfile=<out.mod>`: our own header plus a
# verbatim copy of /repo's replace and require blocks (replacements are not inherited), and
# /repo's go.sum. REPO = $VERIF_REPO or /repo.
set -e
cd "$(dirname "$0")"
REPO=${VERIF_REPO:-/repo}
OUT=${1:-go.mod}
mkdir -p "$(dirname "$OUT")"
{
  sed "s#=> /repo#=> $REPO#" go.mod.tmpl
  awk '/^replace \(/{p=1} p{print} p&&/^\)/{exit}' "$REPO/go.mod"
  echo
  awk '/^require \(/{p=1} p{print} p&&/^\)/{p=0}' "$REPO/go.mod"
} > "$OUT.new"
cmp -s "$OUT.new" "$OUT" || mv "$OUT.new" "$OUT"
rm -f "$OUT.new"
SUM="${OUT%.mod}.sum"
cmp -s "$REPO/go.sum" "$SUM" || cp "$REPO/go.sum" "$SUM"
