// C42: sortition pool status changes are only requested when permitted.
//
// Op lines (one complete case each):
//
//	chk <policy> <tick>              checkOperatorStatus once          obs: <trace> <ok|err>
//	rew <tick>                       checkRewardsEligibility once      obs: <trace> <ok|err>
//	mon <reg> <policy> <t1,t2,...>   MonitorPool: the synchronous check + one check per ticker
//	                                 tick, each consuming the next scripted chain state
//	                                 obs: <ok|err:resolve|err:unknown> <trace1,trace2,...>
//
// <tick> = 10 answers, each t|f|e (e = the query/transaction returns an error), in the order
// inPool upToDate eligible canRestore restoreTx locked chaosnet beta updateTx joinTx.
// <policy> = prefix notation joined by '.': U (unconditional) B (beta operator policy)
// K0/K1 (an external policy answering false/true) C<n> (conjunction of the next n policies).
// <trace> = the chain calls in order: p d e r l c b (queries) k (external policy asked)
// R U J (restore / update / join transactions).
package main

import (
	"context"
	"errors"
	"fmt"
	"math/big"
	"strings"
	"sync"
	"time"

	"keepverif/harness/hx"

	"github.com/keep-network/keep-core/pkg/chain"
	"github.com/keep-network/keep-core/pkg/sortition"
)

// ---- no-op logger --------------------------------------------------------

type nopLogger struct{}

func (nopLogger) Debug(args ...interface{})                   {}
func (nopLogger) Debugf(format string, args ...interface{})   {}
func (nopLogger) Error(args ...interface{})                   {}
func (nopLogger) Errorf(format string, args ...interface{})   {}
func (nopLogger) Fatal(args ...interface{})                   {}
func (nopLogger) Fatalf(format string, args ...interface{})   {}
func (nopLogger) Info(args ...interface{})                    {}
func (nopLogger) Infof(format string, args ...interface{})    {}
func (nopLogger) Panic(args ...interface{})                   {}
func (nopLogger) Panicf(format string, args ...interface{})   {}
func (nopLogger) Warn(args ...interface{})                    {}
func (nopLogger) Warnf(format string, args ...interface{})    {}
func (nopLogger) Warning(args ...interface{})                 {}
func (nopLogger) Warningf(format string, args ...interface{}) {}

// ---- scripted chain ------------------------------------------------------

const (
	aInPool = iota
	aUpToDate
	aEligible
	aCanRestore
	aRestoreTx
	aLocked
	aChaosnet
	aBeta
	aUpdateTx
	aJoinTx
	nAnswers
)

var errScripted = errors.New("scripted failure")

type fakeChain struct {
	mu     sync.Mutex
	reg    byte
	script []string // remaining ticks, script[0] is consumed by the next IsOperatorInPool
	cur    string   // the tick being answered
	traces []string
	trace  strings.Builder
	open   bool
	done   chan struct{} // closed when a check starts after the script is exhausted
	closed bool
}

func (f *fakeChain) finishTick() {
	if f.open {
		f.traces = append(f.traces, f.trace.String())
		f.trace.Reset()
		f.open = false
	}
}

func (f *fakeChain) query(letter byte, idx int) (bool, error) {
	f.mu.Lock()
	defer f.mu.Unlock()
	if f.cur == "" {
		return false, errScripted
	}
	f.trace.WriteByte(letter)
	switch f.cur[idx] {
	case 't':
		return true, nil
	case 'f':
		return false, nil
	}
	return false, errScripted
}

func (f *fakeChain) tx(letter byte, idx int) error {
	_, err := f.query(letter, idx)
	return err
}

func (f *fakeChain) OperatorToStakingProvider() (chain.Address, bool, error) {
	switch f.reg {
	case 't':
		return chain.Address("0xstaking"), true, nil
	case 'f':
		return "", false, nil
	}
	return "", false, errScripted
}

func (f *fakeChain) EligibleStake(chain.Address) (*big.Int, error) { return big.NewInt(0), nil }

func (f *fakeChain) IsOperatorInPool() (bool, error) {
	f.mu.Lock()
	f.finishTick()
	if len(f.script) == 0 {
		f.cur = ""
		if !f.closed {
			f.closed = true
			close(f.done)
		}
		f.mu.Unlock()
		return false, errScripted
	}
	f.cur = f.script[0]
	f.script = f.script[1:]
	f.open = true
	f.mu.Unlock()
	return f.query('p', aInPool)
}

func (f *fakeChain) IsPoolLocked() (bool, error)       { return f.query('l', aLocked) }
func (f *fakeChain) IsOperatorUpToDate() (bool, error) { return f.query('d', aUpToDate) }
func (f *fakeChain) JoinSortitionPool() error          { return f.tx('J', aJoinTx) }
func (f *fakeChain) UpdateOperatorStatus() error       { return f.tx('U', aUpdateTx) }
func (f *fakeChain) IsEligibleForRewards() (bool, error) {
	return f.query('e', aEligible)
}
func (f *fakeChain) CanRestoreRewardEligibility() (bool, error) {
	return f.query('r', aCanRestore)
}
func (f *fakeChain) RestoreRewardEligibility() error  { return f.tx('R', aRestoreTx) }
func (f *fakeChain) IsChaosnetActive() (bool, error)  { return f.query('c', aChaosnet) }
func (f *fakeChain) IsBetaOperator() (bool, error)    { return f.query('b', aBeta) }
func (f *fakeChain) GetOperatorID(chain.Address) (chain.OperatorID, error) {
	return 0, nil
}

type constPolicy struct {
	f *fakeChain
	v bool
}

func (c *constPolicy) ShouldJoin() bool {
	c.f.mu.Lock()
	if c.f.cur != "" {
		c.f.trace.WriteByte('k')
	}
	c.f.mu.Unlock()
	return c.v
}

// parsePolicy builds the REAL policy objects of pkg/sortition from the prefix notation.
func parsePolicy(toks []string, f *fakeChain) (sortition.JoinPolicy, []string, bool) {
	if len(toks) == 0 {
		return nil, nil, false
	}
	t, rest := toks[0], toks[1:]
	switch {
	case t == "U":
		return sortition.UnconditionalJoinPolicy, rest, true
	case t == "B":
		return sortition.NewBetaOperatorPolicy(f, nopLogger{}), rest, true
	case t == "K0":
		return &constPolicy{f, false}, rest, true
	case t == "K1":
		return &constPolicy{f, true}, rest, true
	case strings.HasPrefix(t, "C"):
		n := 0
		if _, err := fmt.Sscanf(t[1:], "%d", &n); err != nil || n < 0 || n > 64 || fmt.Sprint(n) != t[1:] {
			return nil, nil, false
		}
		var ps []sortition.JoinPolicy
		for i := 0; i < n; i++ {
			p, r, ok := parsePolicy(rest, f)
			if !ok {
				return nil, nil, false
			}
			ps = append(ps, p)
			rest = r
		}
		return sortition.NewConjunctionPolicy(ps...), rest, true
	}
	return nil, nil, false
}

func validTick(s string) bool {
	if len(s) != nAnswers {
		return false
	}
	for i := 0; i < len(s); i++ {
		if s[i] != 't' && s[i] != 'f' && s[i] != 'e' {
			return false
		}
	}
	return true
}

func errTag(err error) string {
	if err != nil {
		return "err"
	}
	return "ok"
}

func traceOrDash(s string) string {
	if s == "" {
		return "-"
	}
	return s
}

func exec(op string) (string, string) {
	fs := strings.Fields(op)
	if len(fs) == 0 {
		return "bad-op", "bad"
	}
	f := &fakeChain{reg: 't', done: make(chan struct{})}
	switch fs[0] {
	case "chk":
		if len(fs) != 3 || !validTick(fs[2]) {
			return "bad-op", "bad"
		}
		pol, rest, ok := parsePolicy(strings.Split(fs[1], "."), f)
		if !ok || len(rest) != 0 {
			return "bad-op", "bad"
		}
		f.script = []string{fs[2]}
		err := sortition.VerifC42CheckOperatorStatus(nopLogger{}, f, pol)
		f.mu.Lock()
		f.finishTick()
		tr := strings.Join(f.traces, "|")
		f.mu.Unlock()
		return traceOrDash(tr) + " " + errTag(err), tagOf([]string{fs[2]}, []string{tr}, "")
	case "rew":
		if len(fs) != 2 || !validTick(fs[1]) {
			return "bad-op", "bad"
		}
		f.cur = fs[1]
		f.open = true
		err := sortition.VerifC42CheckRewardsEligibility(nopLogger{}, f)
		f.mu.Lock()
		f.finishTick()
		tr := strings.Join(f.traces, "|")
		f.mu.Unlock()
		return traceOrDash(tr) + " " + errTag(err), tagOf(nil, []string{tr}, "rew")
	case "mon":
		if len(fs) != 4 || len(fs[1]) != 1 || !strings.Contains("tfe", fs[1]) {
			return "bad-op", "bad"
		}
		ticks := hx.SplitList(fs[3])
		for _, t := range ticks {
			if !validTick(t) {
				return "bad-op", "bad"
			}
		}
		pol, rest, ok := parsePolicy(strings.Split(fs[2], "."), f)
		if !ok || len(rest) != 0 {
			return "bad-op", "bad"
		}
		f.reg = fs[1][0]
		f.script = append([]string(nil), ticks...)
		ctx, cancel := context.WithCancel(context.Background())
		defer cancel()
		err := sortition.MonitorPool(ctx, nopLogger{}, f, 200*time.Microsecond, pol)
		res := "ok"
		if err != nil {
			if errors.Is(err, sortition.VerifC42ErrOperatorUnknown) {
				res = "err:unknown"
			} else {
				res = "err:resolve"
			}
		} else {
			// the monitoring goroutine consumes one scripted state per ticker tick;
			// wait (on a condition, not on time) until it asks beyond the script.
			select {
			case <-f.done:
			case <-time.After(15 * time.Second):
				return "HANG-monitor", "hang"
			}
		}
		cancel()
		f.mu.Lock()
		f.finishTick()
		trs := make([]string, len(f.traces))
		for i, t := range f.traces {
			trs[i] = traceOrDash(t)
		}
		f.mu.Unlock()
		extra := "mon"
		if res != "ok" {
			extra = "unreg"
		}
		return res + " " + hx.JoinStrs(trs), tagOf(ticks, trs, extra)
	}
	return "bad-op", "bad"
}

func tagOf(ticks, traces []string, extra string) string {
	set := map[string]bool{}
	all := strings.Join(traces, ",")
	if strings.Contains(all, "J") {
		set["join"] = true
	}
	if strings.Contains(all, "U") {
		set["update"] = true
	}
	if strings.Contains(all, "R") {
		set["restore"] = true
	}
	for i, tk := range ticks {
		tr := ""
		if i < len(traces) {
			tr = traces[i]
		}
		if strings.Contains(tr, "l") && tk[aLocked] == 't' {
			set["locked"] = true
		}
		if (strings.Contains(tr, "c") || strings.Contains(tr, "k")) && !strings.Contains(tr, "J") {
			set["policy-deny"] = true
		}
		for j, l := range []byte("pderRlcbUJ") {
			if strings.IndexByte(tr, l) >= 0 && tk[j] == 'e' {
				set["qerr"] = true
			}
		}
		if tk[aInPool] == 't' && tk[aUpToDate] == 't' {
			set["uptodate"] = true
		}
	}
	if extra != "" {
		set[extra] = true
	}
	if len(set) == 0 {
		return "none"
	}
	var ks []string
	for _, k := range []string{"join", "update", "restore", "locked", "policy-deny", "qerr", "uptodate", "mon", "unreg", "rew"} {
		if set[k] {
			ks = append(ks, k)
		}
	}
	return strings.Join(ks, "+")
}

// ---- generator -------------------------------------------------------------

func genTick(r *hx.Rng, errPct int) string {
	b := make([]byte, nAnswers)
	for i := range b {
		switch {
		case r.Intn(100) < errPct:
			b[i] = 'e'
		case r.Bool():
			b[i] = 't'
		default:
			b[i] = 'f'
		}
	}
	return string(b)
}

func genPolicy(r *hx.Rng, depth int) string {
	k := r.Intn(10)
	if depth >= 3 && k >= 6 {
		k = r.Intn(6)
	}
	switch {
	case k < 2:
		return "U"
	case k < 5:
		return "B"
	case k == 5:
		return hx.Pick(r, []string{"K0", "K1", "K1"})
	}
	n := r.Range(0, 3)
	s := fmt.Sprintf("C%d", n)
	for i := 0; i < n; i++ {
		s += "." + genPolicy(r, depth+1)
	}
	return s
}

func gen(r *hx.Rng, n int, tier string) []string {
	var ops []string
	// exhaustive: every answer combination (t/f/e) of the seven queries, transactions
	// succeeding, under the production policy shape C2.B.U and under B alone.
	letters := []byte("tfe")
	var rec func(prefix []byte)
	rec = func(prefix []byte) {
		if len(prefix) == 7 {
			// order in prefix: inPool upToDate eligible canRestore locked chaosnet beta
			tk := []byte{prefix[0], prefix[1], prefix[2], prefix[3], 't', prefix[4], prefix[5], prefix[6], 't', 't'}
			ops = append(ops, "chk B "+string(tk))
			return
		}
		for _, l := range letters {
			rec(append(prefix, l))
		}
	}
	rec(nil)
	// every failing transaction position
	for _, tk := range []string{"tfftefttte", "tfftetttet", "ffttttftte", "tfftefttet", "fftttfttte", "tftttfttet"} {
		ops = append(ops, "chk C2.B.U "+tk)
	}
	for i := 0; i < n; i++ {
		switch k := r.Intn(10); {
		case k < 5:
			ln := r.Range(1, 6)
			var ts []string
			errPct := hx.Pick(r, []int{0, 0, 8, 25})
			for j := 0; j < ln; j++ {
				ts = append(ts, genTick(r, errPct))
			}
			reg := "t"
			if r.Chance(1, 8) {
				reg = hx.Pick(r, []string{"f", "e"})
			}
			ops = append(ops, "mon "+reg+" "+genPolicy(r, 0)+" "+hx.JoinStrs(ts))
		case k < 8:
			ops = append(ops, "chk "+genPolicy(r, 0)+" "+genTick(r, hx.Pick(r, []int{0, 10, 30})))
		case k < 9:
			ops = append(ops, "rew "+genTick(r, 20))
		default: // malformed
			ops = append(ops, hx.Pick(r, []string{
				"chk C2.B tfffffffff", "chk X tfffffffff", "chk B tfff", "mon x U tttttttttt",
				"mon t U tttttttttx", "rew", "chk C-1 tttttttttt", "foo",
			}))
		}
	}
	return ops
}

func main() {
	hx.Main(&hx.Config{Prop: "C42", Gen: gen, Exec: exec})
}
