// C43: the difficulty relay maintainer proves each epoch once with the right headers.
//
// Op lines (one complete history each):
//
//	loop <mode> <readyQ> <authQ> <heightQ> <epochQ> <lenQ> <submitQ> <hdrFail>   startControlLoop
//	sess <mode> ... same ...                                                     proveEpochs once
//
// mode: p = retarget via the maintainer proxy (RetargetWithRefund / IsAuthorizedForRefund),
// d = DisableProxy (Retarget / IsAuthorized).  Every chain call of one kind consumes the next
// answer of its queue (an entry may be repeated: `1x30` = thirty times 1): readyQ/authQ entries t|f|e(rror); heightQ (GetLatestBlockHeight),
// epochQ (CurrentEpoch, also inside waitForCurrentEpochUpdate), lenQ (ProofLength) entries
// <number>|e; submitQ entries o(k)|e.  hdrFail: heights at which GetBlockHeader fails.
// When a call finds its queue empty the history is over: the context is cancelled and every
// later call fails without being recorded.
//
// Observation: the ordered chain calls, queries with the answer they got (y:t, h:4032, c:e ...):
// y Ready, a IsAuthorized, f IsAuthorizedForRefund,
// h GetLatestBlockHeight, c CurrentEpoch, l ProofLength, g<first>:<n> n consecutive
// GetBlockHeader calls from <first>, R<first>:<n> Retarget / W<first>:<n> RetargetWithRefund
// with n headers of consecutive heights from <first> (R!<n> when not consecutive).
// `sess` prefixes the result class: nogenesis | unauthorized | error | end.
package main

import (
	"context"
	"errors"
	"fmt"
	"math/big"
	"strconv"
	"strings"
	"sync"
	"time"

	"keepverif/harness/hx"

	"github.com/keep-network/keep-core/pkg/bitcoin"
	"github.com/keep-network/keep-core/pkg/chain"
	"github.com/keep-network/keep-core/pkg/maintainer/btcdiff"
	"github.com/keep-network/keep-core/pkg/operator"
)

var (
	errScripted = errors.New("scripted failure")
	errEnd      = errors.New("history over")
)

type world struct {
	mu      sync.Mutex
	ready   []string
	auth    []string
	heights []string
	epochs  []string
	lens    []string
	submits []string
	hdrFail map[uint64]bool

	events []string
	// pending run of GetBlockHeader calls
	runFirst, runCount uint64
	runOpen            bool

	ended  bool
	cancel context.CancelFunc
	lagged int
}

func (w *world) flush() {
	if w.runOpen {
		w.events = append(w.events, fmt.Sprintf("g%d:%d", w.runFirst, w.runCount))
		w.runOpen = false
	}
}

func (w *world) end() {
	if !w.ended {
		w.flush()
		w.ended = true
		w.cancel()
	}
}

// pop consumes the next answer of a queue and records the event.
func (w *world) pop(q *[]string, ev string) (string, error) {
	w.mu.Lock()
	defer w.mu.Unlock()
	if w.ended {
		return "", errEnd
	}
	if len(*q) == 0 {
		w.end()
		return "", errEnd
	}
	w.flush()
	a := (*q)[0]
	*q = (*q)[1:]
	if len(ev) == 1 { // a query: record the answer it got
		w.events = append(w.events, ev+":"+a)
	} else {
		w.events = append(w.events, ev)
	}
	if a == "e" {
		return "", errScripted
	}
	return a, nil
}

func (w *world) popBool(q *[]string, ev string) (bool, error) {
	a, err := w.pop(q, ev)
	return a == "t", err
}

func (w *world) popNum(q *[]string, ev string) (uint64, error) {
	a, err := w.pop(q, ev)
	if err != nil {
		return 0, err
	}
	return strconv.ParseUint(a, 10, 64)
}

// ---- relay (btcdiff.Chain) ----

type relay struct{ w *world }

func (r relay) Ready() (bool, error) { return r.w.popBool(&r.w.ready, "y") }
func (r relay) IsAuthorized(chain.Address) (bool, error) {
	return r.w.popBool(&r.w.auth, "a")
}
func (r relay) IsAuthorizedForRefund(chain.Address) (bool, error) {
	return r.w.popBool(&r.w.auth, "f")
}
func (r relay) Signing() chain.Signing { return signing{} }
func (r relay) CurrentEpoch() (uint64, error) {
	return r.w.popNum(&r.w.epochs, "c")
}
func (r relay) ProofLength() (uint64, error) { return r.w.popNum(&r.w.lens, "l") }
func (r relay) GetCurrentAndPrevEpochDifficulty() (*big.Int, *big.Int, error) {
	return nil, nil, errScripted
}

func headerHeight(h *bitcoin.BlockHeader) uint64 {
	return uint64(h.Time) | uint64(h.Nonce)<<32
}

func (r relay) submit(letter string, headers []*bitcoin.BlockHeader) error {
	ev := letter
	if len(headers) == 0 {
		ev += "0:0"
	} else {
		first := headerHeight(headers[0])
		ok := true
		for i, h := range headers {
			if h == nil || headerHeight(h) != first+uint64(i) {
				ok = false
			}
		}
		if ok {
			ev += fmt.Sprintf("%d:%d", first, len(headers))
		} else {
			ev += fmt.Sprintf("!%d", len(headers))
		}
	}
	_, err := r.w.pop(&r.w.submits, ev)
	return err
}

func (r relay) Retarget(hs []*bitcoin.BlockHeader) error           { return r.submit("R", hs) }
func (r relay) RetargetWithRefund(hs []*bitcoin.BlockHeader) error { return r.submit("W", hs) }

type signing struct{}

func (signing) Address() chain.Address                       { return "0xmaintainer" }
func (signing) PublicKey() []byte                            { return nil }
func (signing) Sign([]byte) ([]byte, error)                  { return nil, errScripted }
func (signing) Verify([]byte, []byte) (bool, error)          { return false, errScripted }
func (signing) PublicKeyBytesToAddress([]byte) chain.Address { return "" }
func (signing) VerifyWithPublicKey([]byte, []byte, []byte) (bool, error) {
	return false, errScripted
}
func (signing) PublicKeyToAddress(*operator.PublicKey) (chain.Address, error) {
	return "", errScripted
}

// ---- bitcoin chain ----

type btc struct {
	bitcoin.Chain // unimplemented methods are never called by the maintainer
	w             *world
}

func (b btc) GetLatestBlockHeight() (uint, error) {
	v, err := b.w.popNum(&b.w.heights, "h")
	return uint(v), err
}

func (b btc) GetBlockHeader(height uint) (*bitcoin.BlockHeader, error) {
	w := b.w
	w.mu.Lock()
	defer w.mu.Unlock()
	if w.ended {
		return nil, errEnd
	}
	h := uint64(height)
	if w.runOpen && w.runFirst+w.runCount == h {
		w.runCount++
	} else {
		w.flush()
		w.runOpen, w.runFirst, w.runCount = true, h, 1
	}
	if w.runCount > 100000 { // runaway loop guard
		w.end()
		return nil, errEnd
	}
	if w.hdrFail[h] {
		return nil, errScripted
	}
	return &bitcoin.BlockHeader{Time: uint32(h), Nonce: uint32(h >> 32)}, nil
}

// ---- exec ----

// okList parses a queue; an entry `v` may carry a repeat count `vxN` (N copies, 1 <= N <= 500).
func okList(s string, allowed func(string) bool) ([]string, bool) {
	var out []string
	for _, x := range hx.SplitList(s) {
		n := 1
		if i := strings.IndexByte(x, 'x'); i > 0 {
			c, err := strconv.Atoi(x[i+1:])
			if err != nil || c < 1 || c > 500 || strconv.Itoa(c) != x[i+1:] {
				return nil, false
			}
			n, x = c, x[:i]
		}
		if !allowed(x) {
			return nil, false
		}
		for j := 0; j < n; j++ {
			out = append(out, x)
		}
	}
	return out, true
}

func isAns(s string) bool { return s == "t" || s == "f" || s == "e" }
func isNumOrE(s string) bool {
	if s == "e" {
		return true
	}
	_, err := strconv.ParseUint(s, 10, 64)
	return err == nil && (s == "0" || s[0] != '0') && s[0] != '+'
}
func isNum(s string) bool { return s != "e" && isNumOrE(s) }
func isSub(s string) bool { return s == "o" || s == "e" }

func execInner(op string) (string, string) {
	fs := strings.Fields(op)
	if len(fs) != 9 || (fs[0] != "loop" && fs[0] != "sess") || (fs[1] != "p" && fs[1] != "d") {
		return "bad-op", "bad"
	}
	w := &world{hdrFail: map[uint64]bool{}}
	var ok [7]bool
	w.ready, ok[0] = okList(fs[2], isAns)
	w.auth, ok[1] = okList(fs[3], isAns)
	w.heights, ok[2] = okList(fs[4], isNumOrE)
	w.epochs, ok[3] = okList(fs[5], isNumOrE)
	w.lens, ok[4] = okList(fs[6], isNumOrE)
	w.submits, ok[5] = okList(fs[7], isSub)
	var fails []string
	fails, ok[6] = okList(fs[8], isNum)
	for _, o := range ok {
		if !o {
			return "bad-op", "bad"
		}
	}
	for _, f := range fails {
		v, _ := strconv.ParseUint(f, 10, 64)
		w.hdrFail[v] = true
	}
	ctx, cancel := context.WithCancel(context.Background())
	defer cancel()
	w.cancel = cancel
	cfg := btcdiff.Config{DisableProxy: fs[1] == "d"} // both back-off times 0: no real-time waits
	res := ""
	done := make(chan struct{})
	go func() {
		defer close(done)
		if fs[0] == "loop" {
			btcdiff.VerifC43ControlLoop(ctx, cfg, btc{w: w}, relay{w})
		} else {
			err := btcdiff.VerifC43ProveEpochs(ctx, cfg, btc{w: w}, relay{w})
			w.mu.Lock()
			ended := w.ended
			w.mu.Unlock()
			switch {
			case ended:
				res = "end "
			case errors.Is(err, btcdiff.VerifC43ErrNoGenesis):
				res = "nogenesis "
			case errors.Is(err, btcdiff.VerifC43ErrNotAuthorized):
				res = "unauthorized "
			case err != nil:
				res = "error "
			default:
				res = "returned-nil "
			}
		}
	}()
	select {
	case <-done:
	case <-time.After(140 * time.Second):
		return "HANG-loop", "hang"
	}
	w.mu.Lock()
	w.flush()
	evs := append([]string(nil), w.events...)
	w.mu.Unlock()
	return res + hx.JoinStrs(evs), tagOf(fs[0], evs)
}

func tagOf(kind string, evs []string) string {
	set := map[string]bool{kind: true}
	nsub := 0
	for i, e := range evs {
		switch e[0] {
		case 'R', 'W':
			nsub++
			set["submit"] = true
			if strings.HasSuffix(e, ":0") {
				set["empty-proof"] = true
			}
			// a CurrentEpoch poll that did not end the wait?
			if i+2 < len(evs) && evs[i+1][0] == 'c' && evs[i+2][0] == 'c' {
				set["lag"] = true
			}
		case 'g':
			set["fetch"] = true
		}
	}
	if nsub >= 2 {
		set["multi"] = true
	}
	ncRun, maxRun := 0, 0
	for _, e := range evs {
		if e[0] == 'c' {
			ncRun++
			if ncRun > maxRun {
				maxRun = ncRun
			}
		} else {
			ncRun = 0
		}
	}
	if maxRun >= 30 {
		set["longlag"] = true
	}
	if len(evs) > 0 {
		last := evs[len(evs)-1]
		if last[0] == 'y' || last[0] == 'a' || last[0] == 'f' {
			set["ineligible"] = true
		}
	}
	ny := 0
	for _, e := range evs {
		if e[0] == 'y' {
			ny++
		}
	}
	if ny >= 2 {
		set["restart"] = true
	}
	for i := 0; i+3 < len(evs); i++ {
		if evs[i][0] == 'h' && evs[i+1][0] == 'c' && evs[i+2][0] == 'l' && !strings.HasSuffix(evs[i+2], ":e") && evs[i+3][0] == 'h' {
			set["idle"] = true
		}
	}
	var ks []string
	for _, k := range []string{"loop", "sess", "submit", "multi", "fetch", "idle", "lag", "longlag", "restart", "ineligible", "empty-proof"} {
		if set[k] {
			ks = append(ks, k)
		}
	}
	return strings.Join(ks, "+")
}

// ---- long relay lags ----
//
// waitForCurrentEpochUpdate sleeps one real second between polls (a literal in the code), so a
// history in which the relay lags N polls behind a successful retarget costs N seconds.  Such
// cases are started in the background when the op list is generated and collected when their
// turn comes (they are appended at the end), so they overlap with the rest of the run.

type result struct{ obs, tag string }

var (
	prefetchMu sync.Mutex
	prefetched = map[string]chan result{}
)

func prefetch(op string) {
	prefetchMu.Lock()
	defer prefetchMu.Unlock()
	if _, ok := prefetched[op]; ok {
		return
	}
	ch := make(chan result, 1)
	prefetched[op] = ch
	go func() {
		defer func() {
			if e := recover(); e != nil {
				ch <- result{"PANIC " + strings.ReplaceAll(fmt.Sprint(e), "\n", " "), "panic"}
			}
		}()
		o, t := execInner(op)
		ch <- result{o, t}
	}()
}

func exec(op string) (string, string) {
	prefetchMu.Lock()
	ch, ok := prefetched[op]
	if ok {
		delete(prefetched, op)
	}
	prefetchMu.Unlock()
	if ok {
		r := <-ch
		return r.obs, r.tag
	}
	return execInner(op)
}

// lagOp: one successful retarget for epoch 2, then the relay keeps answering 1 for n polls
// before it reports 2; a second round follows (and would resubmit epoch 2 if the wait gave up).
func lagOp(mode string, n int) string {
	return fmt.Sprintf("loop %s t t 4034,4034 1,1x%d,2,2 3,3 o,o -", mode, n)
}

// ---- generator ----

const epochLen = btcdiff.VerifC43EpochLength

func u(x uint64) string { return strconv.FormatUint(x, 10) }

func gen(r *hx.Rng, n int, tier string) []string {
	var ops []string
	lagBudget := n / 40 // cases allowed to contain a real 1 s relay-lag poll
	for i := 0; i < n; i++ {
		kind := "loop"
		if r.Chance(1, 3) {
			kind = "sess"
		}
		mode := hx.Pick(r, []string{"p", "p", "d"})
		if r.Chance(1, 25) {
			ops = append(ops, hx.Pick(r, []string{
				"loop x t t 1 1 1 o -", "loop p t t 1 1 1 o", "sess p t t 01 1 1 o -", "loop p t,x t 1 1 1 o -",
				"prove p t t 1 1 1 o -", "sess d t t 1 1 1 k -", "loop p t t 1 1 1 o e",
			}))
			continue
		}
		var ready, auth, heights, epochs, lens, submits, fails []string
		sessions := r.Range(1, 3)
		ce := uint64(r.Range(0, 400000))
		if r.Chance(1, 10) {
			ce = uint64(r.Range(0, 3))
		}
		L := uint64(hx.Pick(r, []int{1, 2, 3, 3, 4, 6, 9, 12, 20, 0}))
		stop := false
		for s := 0; s < sessions && !stop; s++ {
			ra := hx.Pick(r, []string{"t", "t", "t", "t", "t", "t", "f", "e"})
			ready = append(ready, ra)
			if ra != "t" {
				if r.Bool() {
					auth = append(auth, "t") // must stay unused
				}
				continue
			}
			aa := hx.Pick(r, []string{"t", "t", "t", "t", "t", "t", "f", "e"})
			auth = append(auth, aa)
			if aa != "t" {
				continue
			}
			iters := r.Range(1, 5)
			for k := 0; k < iters; k++ {
				E := ce + 1
				neh := E * epochLen
				last := neh + L - 1
				var h uint64
				switch r.Intn(12) {
				case 0:
					h = last - 1
				case 1:
					h = last + 1
				case 2:
					h = neh
				case 3:
					h = neh - 1
				case 4:
					h = neh - L
				case 5:
					h = last + uint64(r.Range(2, 5000))
				case 6:
					h = uint64(r.Intn(int(neh) + 1))
				case 7:
					h = last - 2
				default:
					h = last
				}
				if r.Chance(1, 30) {
					heights = append(heights, "e")
					break
				}
				heights = append(heights, u(h))
				if r.Chance(1, 30) {
					epochs = append(epochs, "e")
					break
				}
				epochs = append(epochs, u(ce))
				if r.Chance(1, 30) {
					lens = append(lens, "e")
					break
				}
				lens = append(lens, u(L))
				if h < last {
					continue // idle iteration
				}
				if L > 0 && r.Chance(1, 15) {
					fails = append(fails, u(neh-L+uint64(r.Intn(int(2*L)))))
					break
				}
				if r.Chance(1, 12) {
					submits = append(submits, "e")
					break
				}
				submits = append(submits, "o")
				switch p := r.Intn(20); {
				case p == 0:
					epochs = append(epochs, "e")
				case p == 1:
					// history ends while waiting (relay still lagging): no sleep, ctx is cancelled
					epochs = append(epochs, u(ce))
					k = iters
					stop = true
				case p == 2 && lagBudget > 0:
					lagBudget--
					epochs = append(epochs, u(ce), u(E)) // one real 1 s wait
					ce = E
				case p == 3:
					epochs = append(epochs, u(E+1)) // relay already further ahead
					ce = E + 1
				default:
					epochs = append(epochs, u(E))
					ce = E
				}
			}
			if r.Chance(1, 6) {
				L = uint64(hx.Pick(r, []int{1, 2, 5, 7}))
			}
		}
		// arithmetic edges of the uint window computation
		if r.Chance(1, 40) {
			ready, auth = []string{"t"}, []string{"t"}
			switch r.Intn(3) {
			case 0: // proof length larger than the epoch start height
				heights, epochs, lens, submits = []string{"9000"}, []string{"0", "1"}, []string{"3000"}, []string{"o"}
			case 1: // current epoch = max uint64: new epoch wraps to 0
				heights, epochs, lens, submits = []string{"5"}, []string{"18446744073709551615", "0"}, []string{"1"}, []string{"o"}
			default: // zero proof length
				heights, epochs, lens, submits = []string{"4032"}, []string{"1", "2"}, []string{"0"}, []string{"o"}
			}
			fails = nil
		}
		ops = append(ops, strings.Join([]string{kind, mode, hx.JoinStrs(ready), hx.JoinStrs(auth),
			hx.JoinStrs(heights), hx.JoinStrs(epochs), hx.JoinStrs(lens), hx.JoinStrs(submits), hx.JoinStrs(fails)}, " "))
	}
	// relay lags of 29, 30, 31 polls (thorough: also 45 and 100): run in the background from now on
	lags := []int{29, 30, 31}
	if tier == "thorough" {
		lags = append(lags, 45, 100)
	}
	if n > 0 {
		for i, l := range lags {
			op := lagOp([]string{"p", "d"}[i%2], l)
			prefetch(op)
			ops = append(ops, op)
		}
	}
	return ops
}

func main() {
	hx.Main(&hx.Config{
		Prop:         "C43",
		PerOpTimeout: 150 * time.Second,
		Gen:          gen,
		Exec:         exec,
		Facts: func() []string {
			return []string{fmt.Sprintf("nat bitcoinDifficultyEpochLength %d", uint64(epochLen))}
		},
	})
}
