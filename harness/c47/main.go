// C47: on-chain submissions use distinct member slots and stop once someone succeeded.
//
// One op line = one whole group (every member index 1..N runs the REAL submitter against the
// same scripted history).  Histories are scripted worlds: a list of occurrences (slot waiter
// fires / competing submission event / timeout) sorted by block; same-block occurrences are
// delivered in the order given by the `tie` token, one at a time over unbuffered channels, so
// the `select` loops of the real code see exactly one ready case at a time.
//
//	relay  N step entryHex start ev tie subfail inprog   beacon relayEntrySubmitter.submitRelayEntry
//	bdkg   N honest step start nsigs reg ev tie          beacon SubmittingMember.SubmitDKGResult
//	tdkg   N quorum cur nsigs state wait                 tbtc dkgResultSubmitter.SubmitResult
//	tinact N honest cur nsigs nonce chainNonce wait      tbtc inactivityClaimSubmitter.SubmitClaim
//	tappr  N submitter subBlock challenge prec seats ev tie   tbtc dkgExecutor.executeDkgValidation: the
//	       approval goroutines of the member seats this operator controls (obs: W=<awaited blocks,
//	       sorted> A=<blocks at which ApproveDKGResult was called, sorted>); ev = block at which
//	       someone else's approval is observed; tie se|es
//
// ev: block of the competing event, `-`, or (bdkg) `@` = the competing result is accepted while
// the member's IsGroupRegistered pre-check is being answered; tie: permutation of s(lot) e(vent) t(imeout);
// reg/inprog: t|f|x (x = the chain call fails); state: 0..3|x; wait: - (block reached) |
// c (context cancelled while waiting) | w (wait fails).
//
// Obs:  T=<timeout block or -> <idx>/<awaited block|->/<block of the submit call|->/<ret>,...
package main

import (
	"context"
	"crypto/ecdsa"
	"errors"
	"fmt"
	"math/big"
	"sort"
	"strings"
	"sync"
	"sync/atomic"
	"time"

	"keepverif/harness/hx"

	"github.com/bnb-chain/tss-lib/crypto"
	"github.com/bnb-chain/tss-lib/ecdsa/keygen"

	beaconchain "github.com/keep-network/keep-core/pkg/beacon/chain"
	dkgresult "github.com/keep-network/keep-core/pkg/beacon/dkg/result"
	"github.com/keep-network/keep-core/pkg/beacon/entry"
	"github.com/keep-network/keep-core/pkg/beacon/event"
	"github.com/keep-network/keep-core/pkg/chain"
	"github.com/keep-network/keep-core/pkg/chain/local_v1"
	"github.com/keep-network/keep-core/pkg/protocol/group"
	"github.com/keep-network/keep-core/pkg/protocol/inactivity"
	"github.com/keep-network/keep-core/pkg/subscription"
	"github.com/keep-network/keep-core/pkg/tbtc"
	"github.com/keep-network/keep-core/pkg/tecdsa"
	tecdsadkg "github.com/keep-network/keep-core/pkg/tecdsa/dkg"
)

// ---- no-op logger -----------------------------------------------------------

type nolog struct{}

func (nolog) Debug(...interface{})          {}
func (nolog) Debugf(string, ...interface{}) {}
func (nolog) Error(...interface{})          {}
func (nolog) Errorf(string, ...interface{}) {}
func (nolog) Fatal(...interface{})          {}
func (nolog) Fatalf(string, ...interface{}) {}
func (nolog) Info(...interface{})           {}
func (nolog) Infof(string, ...interface{})  {}
func (nolog) Panic(...interface{})          {}
func (nolog) Panicf(string, ...interface{}) {}
func (nolog) Warn(...interface{})           {}
func (nolog) Warnf(string, ...interface{})  {}

// ---- scripted block counter -------------------------------------------------

type fakeBC struct {
	cur     uint64
	awaited chan uint64
	slot    chan uint64
}

func newFakeBC(cur uint64) *fakeBC {
	return &fakeBC{cur: cur, awaited: make(chan uint64, 16), slot: make(chan uint64)}
}
func (b *fakeBC) WaitForBlockHeight(uint64) error { panic("unexpected WaitForBlockHeight") }
func (b *fakeBC) BlockHeightWaiter(h uint64) (<-chan uint64, error) {
	b.awaited <- h
	return b.slot, nil
}
func (b *fakeBC) CurrentBlock() (uint64, error)                 { return b.cur, nil }
func (b *fakeBC) WatchBlocks(ctx context.Context) <-chan uint64 { panic("unexpected WatchBlocks") }

// ---- scripted beacon chain --------------------------------------------------

type fakeBeacon struct {
	beaconchain.Interface // nil: any method not overridden below panics (caught by hx)
	cfg                   *beaconchain.Config
	now                   uint64 // atomic: block of the last occurrence delivered to the member
	subFail               bool
	inprog, reg           byte

	mu         sync.Mutex
	submits    []uint64
	handler    func(*event.DKGResultSubmission)
	subscribed bool
	evAtCheck  bool          // ev token `@`
	pending    chan struct{} // closed when the at-check notification was consumed
}

func (c *fakeBeacon) GetConfig() *beaconchain.Config { return c.cfg }
func (c *fakeBeacon) recordSubmit() {
	c.mu.Lock()
	c.submits = append(c.submits, atomic.LoadUint64(&c.now))
	c.mu.Unlock()
}
func (c *fakeBeacon) SubmitRelayEntry([]byte) error {
	c.recordSubmit()
	if c.subFail {
		return errors.New("submit failed")
	}
	return nil
}
func (c *fakeBeacon) IsEntryInProgress() (bool, error) {
	switch c.inprog {
	case 't':
		return true, nil
	case 'f':
		return false, nil
	}
	return false, errors.New("status check failed")
}
func (c *fakeBeacon) OnDKGResultSubmitted(h func(*event.DKGResultSubmission)) subscription.EventSubscription {
	c.mu.Lock()
	c.handler, c.subscribed = h, true
	c.mu.Unlock()
	return subscription.NewEventSubscription(func() {
		c.mu.Lock()
		c.subscribed = false
		c.mu.Unlock()
	})
}
func (c *fakeBeacon) IsGroupRegistered([]byte) (bool, error) {
	if c.evAtCheck && c.reg == 'f' {
		// another member's result is accepted right after this answer was computed: the chain
		// notifies whoever is subscribed at that moment (events are not replayed later)
		c.mu.Lock()
		h, sub := c.handler, c.subscribed
		c.mu.Unlock()
		if sub && h != nil {
			c.pending = make(chan struct{})
			go func() { h(&event.DKGResultSubmission{BlockNumber: atomic.LoadUint64(&c.now)}); close(c.pending) }()
		}
	}
	switch c.reg {
	case 't':
		return true, nil
	case 'f':
		return false, nil
	}
	return false, errors.New("registration check failed")
}
func (c *fakeBeacon) SubmitDKGResult(beaconchain.GroupMemberIndex, *beaconchain.DKGResult, map[beaconchain.GroupMemberIndex][]byte) error {
	c.recordSubmit()
	return nil
}

// ---- world ------------------------------------------------------------------

type occ struct {
	block uint64
	kind  byte
}

func sortOccs(os []occ, tie string) {
	sort.SliceStable(os, func(i, j int) bool {
		if os[i].block != os[j].block {
			return os[i].block < os[j].block
		}
		return strings.IndexByte(tie, os[i].kind) < strings.IndexByte(tie, os[j].kind)
	})
}

func optBlock(s string) (uint64, bool) {
	if s == "-" {
		return 0, false
	}
	return hx.AtoU64(s), true
}

func fmtMember(idx int, await uint64, haveAwait bool, subs []uint64, ret string) string {
	a, s := "-", "-"
	if haveAwait {
		a = fmt.Sprint(await)
	}
	if len(subs) > 0 {
		ss := make([]string, len(subs))
		for i, x := range subs {
			ss[i] = fmt.Sprint(x)
		}
		s = strings.Join(ss, "+")
	}
	return fmt.Sprintf("%d/%s/%s/%s", idx, a, s, ret)
}

const patience = 15 * time.Second

// recoverTo turns a panic of the goroutine running the real submitter into its result (a panic
// outside hx's own goroutine would kill the whole harness process).
func recoverTo(done chan error) {
	if e := recover(); e != nil {
		done <- fmt.Errorf("PANIC %v", e)
	}
}

func relayCfg(n int, step uint64) *beaconchain.Config {
	if step == localStep() {
		// the real GetConfig of the local chain (its own timeout formula); cached per size
		// because every Connect starts a block ticker goroutine
		return localCfg(n)
	}
	return &beaconchain.Config{GroupSize: n, HonestThreshold: n/2 + 1,
		ResultPublicationBlockStep: step, RelayEntryTimeout: uint64(n) * step}
}

var localCfgMu sync.Mutex
var localCfgs = map[int]*beaconchain.Config{}

func localCfg(n int) *beaconchain.Config {
	localCfgMu.Lock()
	defer localCfgMu.Unlock()
	if c, ok := localCfgs[n]; ok {
		return c
	}
	c := local_v1.Connect(n, n/2+1).GetConfig()
	localCfgs[n] = c
	return c
}

var localStepOnce sync.Once
var localStepV uint64

func localStep() uint64 {
	localStepOnce.Do(func() { localStepV = localCfg(3).ResultPublicationBlockStep })
	return localStepV
}

func relayErrClass(err error) string {
	switch {
	case err == nil:
		return "nil"
	case strings.Contains(err.Error(), "relay entry timed out"):
		return "timeout"
	case strings.Contains(err.Error(), "submit failed"):
		return "suberr"
	case strings.HasPrefix(err.Error(), "PANIC"):
		return "PANIC"
	}
	return "other"
}

func relayMember(cfg *beaconchain.Config, idx int, entryBytes []byte, start uint64, ev string, tie string, subFail bool, inprog byte) string {
	bc := newFakeBC(start)
	ch := &fakeBeacon{cfg: cfg, now: start, subFail: subFail, inprog: inprog}
	subCh, toCh := make(chan uint64), make(chan uint64)
	done := make(chan error, 1)
	go func() {
		defer recoverTo(done)
		done <- entry.VerifC47SubmitRelayEntry(nolog{}, ch, bc, group.MemberIndex(idx), entryBytes,
			[]byte{1}, start, subCh, toCh)
	}()
	var await uint64
	select {
	case await = <-bc.awaited:
	case err := <-done:
		select {
		case await = <-bc.awaited:
			return fmtMember(idx, await, true, ch.submits, relayErrClass(err))
		default:
		}
		return fmtMember(idx, 0, false, ch.submits, relayErrClass(err))
	case <-time.After(patience):
		return fmtMember(idx, 0, false, nil, "HANG")
	}
	occs := []occ{{await, 's'}, {start + cfg.RelayEntryTimeout, 't'}}
	if e, ok := optBlock(ev); ok {
		occs = append(occs, occ{e, 'e'})
	}
	sortOccs(occs, tie)
	var ret error
	finished := false
	for _, o := range occs {
		var target chan uint64
		switch o.kind {
		case 's':
			target = bc.slot
			atomic.StoreUint64(&ch.now, o.block)
		case 'e':
			target = subCh
		case 't':
			target = toCh
		}
		select {
		case target <- o.block:
			atomic.StoreUint64(&ch.now, o.block)
		case ret = <-done:
			finished = true
		case <-time.After(patience):
			return fmtMember(idx, await, true, nil, "HANG")
		}
		if finished {
			break
		}
	}
	if !finished {
		select {
		case ret = <-done:
		case <-time.After(patience):
			return fmtMember(idx, await, true, nil, "HANG")
		}
	}
	ch.mu.Lock()
	defer ch.mu.Unlock()
	return fmtMember(idx, await, true, ch.submits, relayErrClass(ret))
}

func bdkgErrClass(err error) string {
	switch {
	case err == nil:
		return "nil"
	case strings.Contains(err.Error(), "signatures for signature threshold"):
		return "err:sigs"
	case strings.Contains(err.Error(), "already submitted"):
		return "err:reg"
	case strings.HasPrefix(err.Error(), "PANIC"):
		return "PANIC"
	}
	return "err:other"
}

func sigMap(n int) map[group.MemberIndex][]byte {
	m := map[group.MemberIndex][]byte{}
	for i := 1; i <= n; i++ {
		m[group.MemberIndex(i)] = []byte{byte(i)}
	}
	return m
}

func bdkgMember(cfg *beaconchain.Config, idx int, start uint64, nsigs int, reg byte, ev string, tie string) string {
	bc := newFakeBC(start)
	ch := &fakeBeacon{cfg: cfg, now: start, reg: reg, evAtCheck: ev == "@"}
	if ev == "@" {
		ev = "-"
	}
	done := make(chan error, 1)
	go func() {
		defer recoverTo(done)
		sm := dkgresult.NewSubmittingMember(nolog{}, group.MemberIndex(idx))
		done <- sm.SubmitDKGResult(&beaconchain.DKGResult{GroupPublicKey: []byte{7}}, sigMap(nsigs), ch, bc, start)
	}()
	var await uint64
	select {
	case await = <-bc.awaited:
	case err := <-done:
		select { // finished already, but it may have asked for its slot before
		case await = <-bc.awaited:
			return fmtMember(idx, await, true, ch.submits, bdkgErrClass(err))
		default:
		}
		return fmtMember(idx, 0, false, ch.submits, bdkgErrClass(err))
	case <-time.After(patience):
		return fmtMember(idx, 0, false, nil, "HANG")
	}
	occs := []occ{{await, 's'}}
	if e, ok := optBlock(ev); ok {
		occs = append(occs, occ{e, 'e'})
	}
	sortOccs(occs, tie)
	var ret error
	finished := false
	if ch.pending != nil { // the at-check notification is taken before any later occurrence
		select {
		case <-ch.pending:
		case ret = <-done:
			finished = true
		case <-time.After(patience):
			return fmtMember(idx, await, true, nil, "HANG")
		}
		if finished {
			occs = nil
		}
	}
	for _, o := range occs {
		switch o.kind {
		case 's':
			atomic.StoreUint64(&ch.now, o.block)
			select {
			case bc.slot <- o.block:
			case ret = <-done:
				finished = true
			case <-time.After(patience):
				return fmtMember(idx, await, true, nil, "HANG")
			}
		case 'e':
			ch.mu.Lock()
			h, sub := ch.handler, ch.subscribed
			ch.mu.Unlock()
			if !sub || h == nil {
				continue // the chain no longer notifies an unsubscribed handler
			}
			hdone := make(chan struct{})
			go func(b uint64) { h(&event.DKGResultSubmission{BlockNumber: b}); close(hdone) }(o.block)
			select {
			case <-hdone:
				atomic.StoreUint64(&ch.now, o.block)
			case ret = <-done:
				finished = true
			case <-time.After(patience):
				return fmtMember(idx, await, true, nil, "HANG")
			}
		}
		if finished {
			break
		}
	}
	if !finished {
		select {
		case ret = <-done:
		case <-time.After(patience):
			return fmtMember(idx, await, true, nil, "HANG")
		}
	}
	ch.mu.Lock()
	defer ch.mu.Unlock()
	return fmtMember(idx, await, true, ch.submits, bdkgErrClass(ret))
}

// ---- scripted tbtc chain ----------------------------------------------------

type fakeTbtc struct {
	tbtc.Chain // nil
	cur        uint64
	now        uint64
	state      byte
	chainNonce int64
	submits    []uint64
}

func (c *fakeTbtc) GetDKGState() (tbtc.DKGState, error) {
	if c.state == 'x' {
		return 0, errors.New("state check failed")
	}
	return tbtc.DKGState(c.state - '0'), nil
}
func (c *fakeTbtc) AssembleDKGResult(idx group.MemberIndex, _ *ecdsa.PublicKey, _ []group.MemberIndex,
	_ []group.MemberIndex, _ map[group.MemberIndex][]byte, _ *tbtc.GroupSelectionResult) (*tbtc.DKGChainResult, error) {
	return &tbtc.DKGChainResult{SubmitterMemberIndex: idx}, nil
}
func (c *fakeTbtc) IsDKGResultValid(*tbtc.DKGChainResult) (bool, error) { return true, nil }
func (c *fakeTbtc) BlockCounter() (chain.BlockCounter, error)            { return newFakeBC(c.cur), nil }
func (c *fakeTbtc) SubmitDKGResult(*tbtc.DKGChainResult) error {
	c.submits = append(c.submits, c.now)
	return nil
}
func (c *fakeTbtc) GetWallet([20]byte) (*tbtc.WalletChainData, error) {
	return &tbtc.WalletChainData{EcdsaWalletID: [32]byte{9}}, nil
}
func (c *fakeTbtc) GetInactivityClaimNonce([32]byte) (*big.Int, error) {
	return big.NewInt(c.chainNonce), nil
}
func (c *fakeTbtc) AssembleInactivityClaim(id [32]byte, _ []group.MemberIndex, _ map[group.MemberIndex][]byte, hb bool) (*tbtc.InactivityClaim, error) {
	return &tbtc.InactivityClaim{WalletID: id, HeartbeatFailed: hb}, nil
}
func (c *fakeTbtc) SubmitInactivityClaim(*tbtc.InactivityClaim, *big.Int, []uint32) error {
	c.submits = append(c.submits, c.now)
	return nil
}

// ---- approval scheduling ----------------------------------------------------

type apprChain struct {
	tbtc.Chain // nil
	params     tbtc.DKGParameters
	now        uint64 // atomic
	mu         sync.Mutex
	handlers   map[int]func(*tbtc.DKGResultApprovedEvent)
	nextID     int
	approvals  []uint64
	fin        chan struct{}
}

func (c *apprChain) IsDKGResultValid(*tbtc.DKGChainResult) (bool, error) { return true, nil }
func (c *apprChain) DKGParameters() (*tbtc.DKGParameters, error)         { p := c.params; return &p, nil }
func (c *apprChain) OnDKGResultApproved(h func(*tbtc.DKGResultApprovedEvent)) subscription.EventSubscription {
	c.mu.Lock()
	id := c.nextID
	c.nextID++
	c.handlers[id] = h
	c.mu.Unlock()
	return subscription.NewEventSubscription(func() {
		c.mu.Lock()
		delete(c.handlers, id)
		c.mu.Unlock()
		c.fin <- struct{}{} // deferred by the approval goroutine: it is done
	})
}
func (c *apprChain) ApproveDKGResult(*tbtc.DKGChainResult) error {
	c.mu.Lock()
	c.approvals = append(c.approvals, atomic.LoadUint64(&c.now))
	c.mu.Unlock()
	return nil
}

type waitReq struct {
	block   uint64
	release chan struct{}
}

func runApproval(n, submitter int, subBlock, challenge, prec uint64, seats []int, ev string, tie string) string {
	const me, other = 7, 1
	ch := &apprChain{params: tbtc.DKGParameters{ChallengePeriodBlocks: challenge, ApprovePrecedencePeriodBlocks: prec},
		now: subBlock, handlers: map[int]func(*tbtc.DKGResultApprovedEvent){}, fin: make(chan struct{}, 512)}
	members := make(chain.OperatorIDs, n)
	for i := range members {
		members[i] = other
	}
	for _, s := range seats {
		members[s-1] = me
	}
	reqs := make(chan waitReq, 512)
	waitFn := func(ctx context.Context, b uint64) error {
		r := waitReq{b, make(chan struct{})}
		reqs <- r
		select {
		case <-r.release:
		case <-ctx.Done():
		}
		return nil
	}
	res := &tbtc.DKGChainResult{SubmitterMemberIndex: group.MemberIndex(submitter), Members: members}
	tbtc.VerifC47ExecuteDkgValidation(&tbtc.GroupParameters{GroupSize: n, GroupQuorum: n, HonestThreshold: n},
		func() (chain.OperatorID, error) { return me, nil }, ch, waitFn, big.NewInt(1), subBlock, res, [32]byte{})
	k := 0
	for _, m := range members {
		if m == me {
			k++
		}
	}
	var rs []waitReq
	for len(rs) < k {
		select {
		case r := <-reqs:
			rs = append(rs, r)
		case <-time.After(patience):
			return "HANG"
		}
	}
	sort.SliceStable(rs, func(i, j int) bool { return rs[i].block < rs[j].block })
	finished := 0
	waitFin := func(upTo int) bool {
		for finished < upTo {
			select {
			case <-ch.fin:
				finished++
			case <-time.After(patience):
				return false
			}
		}
		return true
	}
	evBlock, haveEv := optBlock(ev)
	evDone := !haveEv
	fire := func() bool {
		atomic.StoreUint64(&ch.now, evBlock)
		ch.mu.Lock()
		var hs []func(*tbtc.DKGResultApprovedEvent)
		for _, h := range ch.handlers {
			hs = append(hs, h)
		}
		ch.mu.Unlock()
		for _, h := range hs {
			h(&tbtc.DKGResultApprovedEvent{BlockNumber: evBlock})
		}
		evDone = true
		return waitFin(k) // every waiting goroutine wakes up through its context and leaves
	}
	for i, r := range rs {
		if !evDone && (evBlock < r.block || (evBlock == r.block && tie == "es")) {
			if !fire() {
				return "HANG"
			}
		}
		if finished >= k {
			break
		}
		atomic.StoreUint64(&ch.now, r.block)
		close(r.release)
		if !waitFin(i + 1) {
			return "HANG"
		}
	}
	if !evDone {
		fire()
	}
	var ws []uint64
	for _, r := range rs {
		ws = append(ws, r.block)
	}
	ch.mu.Lock()
	as := append([]uint64(nil), ch.approvals...)
	ch.mu.Unlock()
	sort.Slice(as, func(i, j int) bool { return as[i] < as[j] })
	return "W=" + hx.JoinInts(ws) + " A=" + hx.JoinInts(as)
}

func tbtcErrClass(err error) string {
	switch {
	case err == nil:
		return "nil"
	case strings.Contains(err.Error(), "signatures for"):
		return "err:sigs"
	case strings.Contains(err.Error(), "could not check DKG state"):
		return "err:state"
	case strings.Contains(err.Error(), "error while waiting"):
		return "err:wait"
	}
	return "err:other"
}

var walletKey = func() *ecdsa.PublicKey {
	x, y := tecdsa.Curve.ScalarBaseMult(big.NewInt(12345).Bytes())
	return &ecdsa.PublicKey{Curve: tecdsa.Curve, X: x, Y: y}
}()

func tbtcMember(kind string, n, thr, idx int, cur uint64, nsigs int, state byte, nonce, chainNonce int64, wait byte) string {
	ch := &fakeTbtc{cur: cur, now: cur, state: state, chainNonce: chainNonce}
	ctx, cancel := context.WithCancel(context.Background())
	defer cancel()
	var awaits []uint64
	waitFn := func(ctx context.Context, b uint64) error {
		awaits = append(awaits, b)
		switch wait {
		case 'c':
			cancel()
			return nil
		case 'w':
			return errors.New("block wait failed")
		}
		ch.now = b
		return nil
	}
	var err error
	if kind == "tdkg" {
		pt, _ := crypto.NewECPoint(tecdsa.Curve, walletKey.X, walletKey.Y)
		res := &tecdsadkg.Result{
			Group:           group.NewGroup(n-thr, n),
			PrivateKeyShare: tecdsa.NewPrivateKeyShare(keygen.LocalPartySaveData{ECDSAPub: pt}),
		}
		err = tbtc.VerifC47DkgSubmitResult(ctx, nolog{}, ch,
			&tbtc.GroupParameters{GroupSize: n, GroupQuorum: thr, HonestThreshold: thr},
			&tbtc.GroupSelectionResult{}, waitFn, group.MemberIndex(idx), res, sigMap(nsigs))
	} else {
		claim := inactivity.NewClaimPreimage(big.NewInt(nonce), walletKey, []group.MemberIndex{1}, true)
		err = tbtc.VerifC47InactivitySubmitClaim(ctx, nolog{}, ch,
			&tbtc.GroupParameters{GroupSize: n, GroupQuorum: thr, HonestThreshold: thr},
			nil, waitFn, group.MemberIndex(idx), claim, sigMap(nsigs))
	}
	var a uint64
	if len(awaits) > 0 {
		a = awaits[0]
	}
	ret := tbtcErrClass(err)
	if len(awaits) > 1 {
		ret += ":multi-wait"
	}
	return fmtMember(idx, a, len(awaits) > 0, ch.submits, ret)
}

// ---- exec ---------------------------------------------------------------------

func hexBytes(s string) []byte {
	if s == "-" {
		return nil
	}
	b, ok := new(big.Int).SetString(s, 16)
	if !ok {
		panic("harness: bad hex " + s)
	}
	out := b.Bytes()
	// keep leading zero bytes of the op token
	for len(out)*2 < len(s) {
		out = append([]byte{0}, out...)
	}
	return out
}

func validTie(t string, letters string) bool {
	if len(t) != len(letters) {
		return false
	}
	for _, c := range letters {
		if strings.Count(t, string(c)) != 1 {
			return false
		}
	}
	return true
}

func exec(op string) (string, string) {
	f := strings.Fields(op)
	if len(f) == 0 {
		return "bad-op", "bad"
	}
	switch {
	case f[0] == "relay" && len(f) == 9:
		n, step, start := hx.Atoi(f[1]), hx.AtoU64(f[2]), hx.AtoU64(f[4])
		if n < 1 || n > 255 || !validTie(f[6], "set") {
			return "bad-op", "bad"
		}
		eb := hexBytes(f[3])
		cfg := relayCfg(n, step)
		var ms []string
		for idx := 1; idx <= n; idx++ {
			ms = append(ms, relayMember(cfg, idx, eb, start, f[5], f[6], f[7] == "1", f[8][0]))
		}
		tag := "relay"
		if new(big.Int).Mod(new(big.Int).SetBytes(eb), big.NewInt(int64(n))).Sign() == 0 {
			tag += "+r0"
		}
		if e, ok := optBlock(f[5]); ok {
			if e < start+uint64(n)*step {
				tag += "+evfirst"
			}
			if e >= start && (e-start)%step == 0 {
				tag += "+tie"
			}
		}
		if f[7] == "1" {
			tag += "+suberr"
		}
		return fmt.Sprintf("T=%d %s", start+cfg.RelayEntryTimeout, strings.Join(ms, ",")), tag
	case f[0] == "bdkg" && len(f) == 9:
		n, honest, step, start, nsigs := hx.Atoi(f[1]), hx.Atoi(f[2]), hx.AtoU64(f[3]), hx.AtoU64(f[4]), hx.Atoi(f[5])
		if n < 1 || n > 255 || honest > n || !validTie(f[8], "se") {
			return "bad-op", "bad"
		}
		cfg := &beaconchain.Config{GroupSize: n, HonestThreshold: honest, ResultPublicationBlockStep: step,
			RelayEntryTimeout: uint64(n) * step}
		var ms []string
		for idx := 1; idx <= n; idx++ {
			ms = append(ms, bdkgMember(cfg, idx, start, nsigs, f[6][0], f[7], f[8]))
		}
		tag := "bdkg"
		if nsigs < honest+(n-honest)/2 {
			tag += "+fewsigs"
		} else if f[6] != "f" {
			tag += "+registered"
		} else if f[7] == "@" {
			tag += "+atcheck"
		} else if _, ok := optBlock(f[7]); ok {
			tag += "+dkgev"
		}
		return "T=- " + strings.Join(ms, ","), tag
	case f[0] == "tappr" && len(f) == 9:
		n, submitter := hx.Atoi(f[1]), hx.Atoi(f[2])
		seats := hx.ParseInts(f[6])
		if n < 1 || n > 255 || submitter < 1 || submitter > n || (f[8] != "se" && f[8] != "es") {
			return "bad-op", "bad"
		}
		seen := map[int]bool{}
		for _, s := range seats {
			if s < 1 || s > n || seen[s] {
				return "bad-op", "bad"
			}
			seen[s] = true
		}
		obs := runApproval(n, submitter, hx.AtoU64(f[3]), hx.AtoU64(f[4]), hx.AtoU64(f[5]), seats, f[7], f[8])
		tag := "tappr"
		for _, st := range seats {
			if st >= 19 && st != submitter { // (idx-1)*15 exceeds a byte
				tag = "tappr+hiseat"
			}
		}
		if seen[submitter] {
			tag += "+submitterseat"
		}
		if f[7] != "-" {
			tag += "+apprev"
		}
		return obs, tag
	case (f[0] == "tdkg" && len(f) == 7) || (f[0] == "tinact" && len(f) == 8):
		n, thr, cur, nsigs := hx.Atoi(f[1]), hx.Atoi(f[2]), hx.AtoU64(f[3]), hx.Atoi(f[4])
		if n < 1 || n > 255 || thr > n {
			return "bad-op", "bad"
		}
		var ms []string
		tag := f[0]
		for idx := 1; idx <= n; idx++ {
			if f[0] == "tdkg" {
				ms = append(ms, tbtcMember("tdkg", n, thr, idx, cur, nsigs, f[5][0], 0, 0, f[6][0]))
			} else {
				ms = append(ms, tbtcMember("tinact", n, thr, idx, cur, nsigs, '2',
					int64(hx.Atoi(f[5])), int64(hx.Atoi(f[6])), f[7][0]))
			}
		}
		last := f[len(f)-1]
		if nsigs < thr {
			tag += "+fewsigs"
		} else if f[0] == "tdkg" && f[5] != "2" {
			tag += "+notawaiting"
		} else if f[0] == "tinact" && hx.Atoi(f[6]) > hx.Atoi(f[5]) {
			tag += "+noncemoved"
		} else if last == "c" {
			tag += "+cancel"
		} else if last == "-" {
			tag += "+submitted"
		}
		if n >= 87 && nsigs >= thr && ((f[0] == "tdkg" && f[5] == "2") || (f[0] == "tinact" && hx.Atoi(f[6]) <= hx.Atoi(f[5]))) {
			tag += "+hiidx" // members whose (idx-1)*step exceeds a byte actually wait
		}
		return "T=- " + strings.Join(ms, ","), tag
	}
	return "bad-op", "bad"
}

// ---- generator ------------------------------------------------------------------

func entryFor(r *hx.Rng, n int, residue int) string {
	// entry = k*n + residue with a random (possibly > 64 bit) k
	k := new(big.Int).SetBytes(r.Bytes(r.Range(0, 20)))
	e := new(big.Int).Mul(k, big.NewInt(int64(n)))
	e.Add(e, big.NewInt(int64(residue)))
	s := e.Text(16)
	if len(s)%2 == 1 {
		s = "0" + s
	}
	return s
}

func pickN(r *hx.Rng) int {
	switch r.Intn(13) {
	case 10: // production sizes: tBTC wallets have 100 members, uint8 indices go up to 255
		return 100
	case 11:
		return 255
	case 12:
		return r.Range(65, 255)
	case 0:
		return 1
	case 1, 2:
		return r.Range(9, 64)
	case 3:
		return 64
	}
	return r.Range(2, 8)
}

func gen(r *hx.Rng, n int, tier string) []string {
	var ops []string
	ties3 := []string{"set", "ste", "est", "ets", "tse", "tes"}
	maxN := 12
	if tier == "thorough" {
		maxN = 64
	}
	// every (N, entry mod N) pair up to maxN: all member indices run inside one op
	for N := 1; N <= maxN; N++ {
		for res := 0; res < N; res++ {
			ops = append(ops, fmt.Sprintf("relay %d %d %s %d - set 0 t", N, r.Range(1, 4), entryFor(r, N, res), r.Intn(500)))
		}
	}
	tf := []string{"t", "f", "x"}
	for len(ops) < n+maxN*(maxN+1)/2 {
		N := pickN(r)
		switch r.Intn(12) {
		case 10, 11:
			// tBTC DKG result approval: the operator controls some member seats
			submitter := r.Range(1, N)
			var seats []int
			for j := 1; j <= N; j++ {
				if r.Chance(1, 2) || (j == submitter && r.Chance(1, 2)) || (j == 1 && r.Chance(1, 2)) {
					seats = append(seats, j)
				}
			}
			sub, chal, prec := uint64(r.Intn(5000)), uint64(r.Range(0, 30)), uint64(r.Range(1, 25))
			p := sub + chal + 1
			ev := "-"
			if r.Chance(2, 3) {
				ev = fmt.Sprint(p + uint64(r.Intn(int(prec)+15*N+2)))
				if r.Chance(1, 3) && len(seats) > 0 { // exactly on some member's approval block
					j := hx.Pick(r, seats)
					if j == submitter {
						ev = fmt.Sprint(p)
					} else {
						ev = fmt.Sprint(p + prec + uint64(j-1)*15)
					}
				}
			}
			ops = append(ops, fmt.Sprintf("tappr %d %d %d %d %d %s %s %s", N, submitter, sub, chal, prec,
				hx.JoinInts(seats), ev, hx.Pick(r, []string{"se", "es"})))
		case 0, 1, 2, 3:
			step := uint64(3)
			if r.Chance(1, 2) {
				step = uint64(r.Range(1, 6))
			}
			res := r.Intn(N)
			if r.Chance(1, 4) {
				res = 0
			}
			start := uint64(r.Intn(2000))
			ev := "-"
			if r.Chance(2, 3) {
				ev = fmt.Sprint(start + uint64(r.Intn(N*int(step)+3)))
				if r.Chance(1, 3) { // exactly on a slot boundary
					ev = fmt.Sprint(start + uint64(r.Intn(N+1))*step)
				}
			}
			sf := "0"
			if r.Chance(1, 6) {
				sf = "1"
			}
			ops = append(ops, fmt.Sprintf("relay %d %d %s %d %s %s %s %s", N, step, entryFor(r, N, res), start, ev,
				hx.Pick(r, ties3), sf, hx.Pick(r, tf)))
		case 4, 5, 6:
			honest := N/2 + 1
			if honest > N {
				honest = N
			}
			step := uint64(r.Range(1, 6))
			start := uint64(r.Intn(2000))
			thr := honest + (N-honest)/2
			nsigs := r.Range(thr, N)
			if r.Chance(1, 8) && thr > 0 {
				nsigs = thr - 1
			}
			reg := "f"
			if r.Chance(1, 6) {
				reg = hx.Pick(r, tf)
			}
			ev := "-"
			if r.Chance(2, 3) {
				ev = fmt.Sprint(start + uint64(r.Intn(N*int(step)+2)))
				if r.Chance(1, 3) {
					ev = fmt.Sprint(start + uint64(r.Intn(N))*step)
				}
			}
			if r.Chance(1, 6) {
				ev = "@" // accepted on chain between the registration check and the wait
			}
			ops = append(ops, fmt.Sprintf("bdkg %d %d %d %d %d %s %s %s", N, honest, step, start, nsigs, reg, ev,
				hx.Pick(r, []string{"se", "es"})))
		case 7, 8:
			thr := N/2 + 1
			if thr > N {
				thr = N
			}
			nsigs := r.Range(thr, N)
			if r.Chance(1, 8) && thr > 0 {
				nsigs = thr - 1
			}
			state := "2"
			if r.Chance(1, 4) {
				state = hx.Pick(r, []string{"0", "1", "3", "x"})
			}
			ops = append(ops, fmt.Sprintf("tdkg %d %d %d %d %s %s", N, thr, r.Intn(100000), nsigs, state,
				hx.Pick(r, []string{"-", "-", "c", "w"})))
		default:
			thr := N/2 + 1
			if thr > N {
				thr = N
			}
			nsigs := r.Range(thr, N)
			if r.Chance(1, 8) && thr > 0 {
				nsigs = thr - 1
			}
			nonce := r.Intn(5)
			cn := nonce
			if r.Chance(1, 3) {
				cn = r.Intn(7)
			}
			ops = append(ops, fmt.Sprintf("tinact %d %d %d %d %d %d %s", N, thr, r.Intn(100000), nsigs, nonce, cn,
				hx.Pick(r, []string{"-", "-", "c", "w"})))
		}
	}
	return ops
}

func facts() []string {
	// T1: step constants of the tbtc submitters, the DKG state the submitter waits in, and the
	// timeout formula of the local chain's GetConfig (timeout = groupSize * step) for every N.
	ok := true
	for n := 1; n <= 64; n++ {
		c := localCfg(n)
		if c.RelayEntryTimeout != uint64(c.GroupSize)*c.ResultPublicationBlockStep || c.GroupSize != n {
			ok = false
		}
	}
	return []string{
		fmt.Sprintf("nat tbtcDkgSubmissionStep %d", tbtc.VerifC47DkgResultSubmissionDelayStepBlocks),
		fmt.Sprintf("nat tbtcDkgApprovalStep %d", tbtc.VerifC47DkgResultApprovalDelayStepBlocks),
		fmt.Sprintf("nat tbtcInactivityStep %d", tbtc.VerifC47InactivityClaimSubmissionDelayStepBlocks),
		fmt.Sprintf("nat awaitingResultState %d", int(tbtc.AwaitingResult)),
		fmt.Sprintf("nat localChainStep %d", localStep()),
		fmt.Sprintf("bool localTimeoutIsSizeTimesStep %v", ok),
	}
}

func main() {
	hx.Main(&hx.Config{Prop: "C47", Gen: gen, Exec: exec, Facts: facts, PerOpTimeout: 120 * time.Second})
}
