// Package astfacts is the source-level half of the tie (DESIGN §3, T1): a tiny go/ast fact
// extractor used by harness `Facts` functions. It re-reads the Go sources of $VERIF_REPO
// (default /repo) on every run; the extracted facts become generated Lean definitions that
// theorems consume, so a removed lock or reordered call flips a fact and breaks a proof.
//
// The analysis is deliberately simple and syntactic (documented approximations below); it is
// part of the trusted base and is exercised against known-good and known-bad shapes in
// astfacts_test.go.
package astfacts

import (
	"fmt"
	"go/ast"
	"go/parser"
	"go/token"
	"os"
	"path/filepath"
	"strings"
)

// RepoRoot is the repository the facts are extracted from.
func RepoRoot() string {
	if r := os.Getenv("VERIF_REPO"); r != "" {
		return r
	}
	return "/repo"
}

// FindFunc parses relFile (relative to the repo root) and returns the declaration of function
// `name`; for a method use "Recv.name" (pointer/value receiver both match).
func FindFunc(relFile, name string) (*ast.FuncDecl, *token.FileSet, error) {
	fset := token.NewFileSet()
	f, err := parser.ParseFile(fset, filepath.Join(RepoRoot(), relFile), nil, parser.ParseComments)
	if err != nil {
		return nil, nil, err
	}
	recv, fn := "", name
	if i := strings.Index(name, "."); i >= 0 {
		recv, fn = name[:i], name[i+1:]
	}
	for _, d := range f.Decls {
		fd, ok := d.(*ast.FuncDecl)
		if !ok || fd.Name.Name != fn {
			continue
		}
		if recv == "" && fd.Recv == nil {
			return fd, fset, nil
		}
		if recv != "" && fd.Recv != nil && len(fd.Recv.List) == 1 {
			t := fd.Recv.List[0].Type
			if s, ok := t.(*ast.StarExpr); ok {
				t = s.X
			}
			if ix, ok := t.(*ast.IndexExpr); ok { // generic receiver
				t = ix.X
			}
			if id, ok := t.(*ast.Ident); ok && id.Name == recv {
				return fd, fset, nil
			}
		}
	}
	return nil, nil, fmt.Errorf("function %s not found in %s", name, relFile)
}

func selString(e ast.Expr) string {
	switch x := e.(type) {
	case *ast.Ident:
		return x.Name
	case *ast.SelectorExpr:
		return selString(x.X) + "." + x.Sel.Name
	case *ast.CallExpr:
		return selString(x.Fun) + "()"
	case *ast.StarExpr:
		return selString(x.X)
	case *ast.ParenExpr:
		return selString(x.X)
	}
	return "?"
}

// lockCall classifies `X.<mutex>.Lock()` style calls: +1 lock, -1 unlock, 0 other.
func lockCall(e ast.Expr, mutex string) int {
	c, ok := e.(*ast.CallExpr)
	if !ok {
		return 0
	}
	s := selString(c.Fun)
	switch {
	case strings.HasSuffix(s, mutex+".Lock"), strings.HasSuffix(s, mutex+".RLock"):
		return 1
	case strings.HasSuffix(s, mutex+".Unlock"), strings.HasSuffix(s, mutex+".RUnlock"):
		return -1
	}
	return 0
}

type guardWalker struct {
	mutex  string
	fields map[string]bool
	fset   *token.FileSet
	bad    []string
}

func (w *guardWalker) mentions(n ast.Node) (string, token.Pos) {
	var hit string
	var pos token.Pos
	ast.Inspect(n, func(m ast.Node) bool {
		if hit != "" {
			return false
		}
		if _, ok := m.(*ast.FuncLit); ok {
			return false // handled separately: runs with its own lock state
		}
		if s, ok := m.(*ast.SelectorExpr); ok && w.fields[s.Sel.Name] {
			hit, pos = s.Sel.Name, s.Pos()
			return false
		}
		return true
	})
	return hit, pos
}

// stmts walks a statement list with the lock state `held`; returns the state at the end.
func (w *guardWalker) stmts(list []ast.Stmt, held bool) bool {
	for _, s := range list {
		held = w.stmt(s, held)
	}
	return held
}

func (w *guardWalker) funcLits(n ast.Node) {
	ast.Inspect(n, func(m ast.Node) bool {
		if fl, ok := m.(*ast.FuncLit); ok {
			// A function literal may run on another goroutine / later: it must take the lock itself.
			w.stmts(fl.Body.List, false)
			return false
		}
		return true
	})
}

func (w *guardWalker) check(n ast.Node, held bool) {
	if n == nil {
		return
	}
	if !held {
		if f, p := w.mentions(n); f != "" {
			w.bad = append(w.bad, fmt.Sprintf("%s accessed without %s at %s", f, w.mutex, w.fset.Position(p)))
		}
	}
	w.funcLits(n)
}

func (w *guardWalker) stmt(s ast.Stmt, held bool) bool {
	switch x := s.(type) {
	case *ast.ExprStmt:
		switch lockCall(x.X, w.mutex) {
		case 1:
			return true
		case -1:
			return false
		}
		w.check(x, held)
	case *ast.DeferStmt:
		if lockCall(x.Call, w.mutex) == -1 {
			return held // unlock at function exit: state unchanged for the rest of the body
		}
		w.check(x, held)
	case *ast.BlockStmt:
		return w.stmts(x.List, held)
	case *ast.IfStmt:
		if x.Init != nil {
			held = w.stmt(x.Init, held)
		}
		w.check(x.Cond, held)
		h1 := w.stmts(x.Body.List, held)
		h2 := held
		if x.Else != nil {
			h2 = w.stmt(x.Else, held)
		}
		return h1 && h2
	case *ast.ForStmt:
		if x.Init != nil {
			held = w.stmt(x.Init, held)
		}
		w.check(x.Cond, held)
		w.stmts(x.Body.List, held)
		if x.Post != nil {
			w.stmt(x.Post, held)
		}
	case *ast.RangeStmt:
		w.check(x.X, held)
		w.stmts(x.Body.List, held)
	case *ast.SwitchStmt:
		if x.Init != nil {
			held = w.stmt(x.Init, held)
		}
		w.check(x.Tag, held)
		for _, c := range x.Body.List {
			cc := c.(*ast.CaseClause)
			for _, e := range cc.List {
				w.check(e, held)
			}
			w.stmts(cc.Body, held)
		}
	case *ast.TypeSwitchStmt:
		for _, c := range x.Body.List {
			w.stmts(c.(*ast.CaseClause).Body, held)
		}
	case *ast.SelectStmt:
		for _, c := range x.Body.List {
			cc := c.(*ast.CommClause)
			if cc.Comm != nil {
				w.stmt(cc.Comm, held)
			}
			w.stmts(cc.Body, held)
		}
	case *ast.GoStmt:
		// the spawned call runs concurrently: arguments are evaluated here, the body elsewhere
		for _, a := range x.Call.Args {
			w.check(a, held)
		}
		if fl, ok := x.Call.Fun.(*ast.FuncLit); ok {
			w.stmts(fl.Body.List, false)
		} else {
			w.check(x.Call.Fun, held)
		}
	case *ast.LabeledStmt:
		return w.stmt(x.Stmt, held)
	default:
		w.check(s, held)
	}
	return held
}

// GuardedBy reports whether, inside function `name` of relFile, every syntactic access to one
// of the struct fields `fields` happens while `<x>.<mutex>` is held (Lock/RLock … Unlock/RUnlock
// or `defer …Unlock()`), tracked linearly per block; function literals and `go` bodies start
// with the lock NOT held. Returns the list of unguarded accesses (empty ⇒ guarded).
//
// Approximations: purely syntactic, intra-procedural; a field is recognised by its selector
// name; aliasing is not tracked; branches are joined with "held in both".
func GuardedBy(relFile, name, mutex string, fields ...string) (bool, []string, error) {
	fd, fset, err := FindFunc(relFile, name)
	if err != nil {
		return false, nil, err
	}
	w := &guardWalker{mutex: mutex, fields: map[string]bool{}, fset: fset}
	for _, f := range fields {
		w.fields[f] = true
	}
	w.stmts(fd.Body.List, false)
	return len(w.bad) == 0, w.bad, nil
}

// CallOrder returns the order (by source position) of the first occurrence of each of the given
// call suffixes (e.g. "storage.save", "cache.Add") inside function `name`; -1 if absent.
// Used for call-order facts such as "storage write precedes cache update".
func CallOrder(relFile, name string, callSuffixes ...string) ([]int, error) {
	fd, _, err := FindFunc(relFile, name)
	if err != nil {
		return nil, err
	}
	first := make([]token.Pos, len(callSuffixes))
	ast.Inspect(fd.Body, func(n ast.Node) bool {
		if c, ok := n.(*ast.CallExpr); ok {
			s := selString(c.Fun)
			for i, suf := range callSuffixes {
				if first[i] == token.NoPos && strings.HasSuffix(s, suf) {
					first[i] = c.Pos()
				}
			}
		}
		return true
	})
	// rank
	out := make([]int, len(callSuffixes))
	for i := range out {
		if first[i] == token.NoPos {
			out[i] = -1
			continue
		}
		r := 0
		for j := range first {
			if first[j] != token.NoPos && first[j] < first[i] {
				r++
			}
		}
		out[i] = r
	}
	return out, nil
}

// BoolFact renders a `bool` fact line for hx.Config.Facts.
func BoolFact(name string, v bool) string {
	if v {
		return "bool " + name + " true"
	}
	return "bool " + name + " false"
}
