package astfacts

import "testing"

func TestGuardedByOnRepo(t *testing.T) {
	ok, bad, err := GuardedBy("pkg/tbtc/wallet.go", "walletDispatcher.dispatch", "actionsMutex", "actions")
	if err != nil || !ok {
		t.Fatalf("dispatch should be guarded: %v %v", bad, err)
	}
}

func TestUnguardedDetected(t *testing.T) {
	// waitUntilAllDone in signing_done.go reads doneSigners; record what the extractor says
	ok, bad, err := GuardedBy("pkg/tbtc/signing_done.go", "signingDoneCheck.waitUntilAllDone", "doneSignersMutex", "doneSigners")
	t.Logf("waitUntilAllDone guarded=%v bad=%v err=%v", ok, bad, err)
	ok2, bad2, err2 := GuardedBy("pkg/tbtc/signing_done.go", "signingDoneCheck.listen", "doneSignersMutex", "doneSigners")
	t.Logf("listen guarded=%v bad=%v err=%v", ok2, bad2, err2)
}
