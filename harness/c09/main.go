// C09: retry participant selection (pkg/tecdsa/retry) respects seat bounds and is deterministic.
//
// Op lines (one complete case per line):
//
//	sg    <seats> <seed> <retry> <k> <stream>   EvaluateRetryParticipantsForSigning
//	kg    <seats> <seed> <retry> <k> <stream>   EvaluateRetryParticipantsForKeyGeneration
//	kgall <seats> <seed> <k> <stream>           keygen for retry = 0,1,2,... until the first error (cap)
//
// <seats>  comma list of operator ids (operator id n is the address 0x%040x of n: fixed width, so the
// string order used by the code is the numeric order used by the model).
// <stream> '.'-separated raw Uint32 outputs of rand.New(rand.NewSource(s)) from the REAL math/rand
// (s = seed+retry for sg, s = seed for kg/kgall): assumption A-rng is passed as data, the model never
// re-implements the generator. Exec ignores the stream token (it only runs the real code).
//
// Obs: `ok <seats>` | `err:too-many-seats` | `err:retries:<remaining>` | `nondet`; kgall joins with `|`.
// Every call is repeated (fresh map iteration orders each time) and must return the same value.
package main

import (
	"fmt"
	"math/rand"
	"regexp"
	"strconv"
	"strings"

	"keepverif/harness/hx"

	"github.com/keep-network/keep-core/pkg/chain"
	"github.com/keep-network/keep-core/pkg/tecdsa/retry"
)

const kgallCap = 120

func addr(id int) chain.Address { return chain.Address(fmt.Sprintf("0x%040x", id)) }

func idOf(a chain.Address) int {
	v, err := strconv.ParseInt(strings.TrimPrefix(string(a), "0x"), 16, 64)
	if err != nil {
		return -1
	}
	return int(v)
}

func stream(seed int64, n int) string {
	r := rand.New(rand.NewSource(seed))
	ss := make([]string, n)
	for i := range ss {
		ss[i] = strconv.FormatUint(uint64(r.Uint32()), 10)
	}
	if n == 0 {
		return "-"
	}
	return strings.Join(ss, ".")
}

func distinct(seats []int) int {
	m := map[int]bool{}
	for _, s := range seats {
		m[s] = true
	}
	return len(m)
}

func streamLenKeygen(seats []int) int {
	m := distinct(seats)
	l := m
	if c := m * (m - 1) / 2; c > l {
		l = c
	}
	if c := m * (m - 1) * (m - 2) / 6; c > l {
		l = c
	}
	return l + 8
}

func uneven(seats []int) bool {
	c := map[int]int{}
	for _, s := range seats {
		c[s]++
	}
	first := -1
	for _, v := range c {
		if first < 0 {
			first = v
		} else if v != first {
			return true
		}
	}
	return false
}

// ---- generator -----------------------------------------------------------

func genSeats(r *hx.Rng) []int {
	var nSeats, nOps int
	switch r.Intn(10) {
	case 0, 1, 2, 3: // small, like the exhaustive space of the design
		nSeats, nOps = r.Range(1, 6), r.Range(1, 4)
	case 4, 5, 6:
		nSeats, nOps = r.Range(3, 12), r.Range(2, 7)
	case 7, 8:
		nSeats, nOps = r.Range(5, 25), r.Range(3, 9)
	default:
		nSeats, nOps = r.Range(20, 100), r.Range(2, 12)
	}
	base := r.Intn(3) * 7 // ids not always starting at 0
	seats := make([]int, 0, nSeats)
	// skewed: operator j has weight (j+1)^2 or uniform
	skew := r.Chance(2, 3)
	for i := 0; i < nSeats; i++ {
		var j int
		if skew {
			t := r.Intn(nOps * nOps)
			for j = 0; (j+1)*(j+1) <= t; j++ {
			}
		} else {
			j = r.Intn(nOps)
		}
		seats = append(seats, base+2*j)
	}
	// sometimes operators hold consecutive seats (as the sortition pool often yields), sometimes mixed
	if r.Chance(1, 3) {
		seats = hx.SortedCopy(seats)
	}
	return seats
}

func genK(r *hx.Rng, n int) int {
	switch r.Intn(8) {
	case 0:
		return 0
	case 1:
		return n
	case 2:
		return n + 1
	case 3:
		return 1
	case 4:
		return n/2 + 1
	default:
		return r.Range(0, n)
	}
}

func genSeed(r *hx.Rng) int64 {
	switch r.Intn(5) {
	case 0:
		return int64(r.Intn(4))
	case 1:
		return -int64(r.Intn(1000))
	default:
		return int64(r.U64() >> 2) // positive, far from overflow when retry is added
	}
}

// exhaustive block of the thorough tier: every seat list of length 1..6 over operators {0,1,2,3}
// (all orders), every requested count 0..len+1: all key-generation retry counts (kgall) for two
// seeds and signing for retry counts 0..2.
func genExhaustive() []string {
	var out []string
	var seats []int
	streams := map[int64]string{}
	st := func(seed int64) string {
		if _, ok := streams[seed]; !ok {
			streams[seed] = stream(seed, 16)
		}
		return streams[seed]
	}
	var rec func()
	rec = func() {
		if len(seats) > 0 {
			seeds, retries := []int64{0, 7}, 3
			if len(seats) == 6 { // the largest layer once per case
				seeds, retries = []int64{0}, 1
			}
			for k := 0; k <= len(seats)+1; k++ {
				for _, seed := range seeds {
					out = append(out, fmt.Sprintf("kgall %s %d %d %s", hx.JoinInts(seats), seed, k, st(seed)))
				}
				for retry := 0; retry < retries; retry++ {
					out = append(out, fmt.Sprintf("sg %s %d %d %d %s", hx.JoinInts(seats), 3, retry, k, st(3+int64(retry))))
				}
			}
		}
		if len(seats) == 6 {
			return
		}
		for o := 0; o < 4; o++ {
			seats = append(seats, o)
			rec()
			seats = seats[:len(seats)-1]
		}
	}
	rec()
	return out
}

func gen(r *hx.Rng, n int, tier string) []string {
	var ops []string
	if tier == "thorough" {
		ops = append(ops, genExhaustive()...)
	}
	for i := 0; i < n; i++ {
		seats := genSeats(r)
		k := genK(r, len(seats))
		seed := genSeed(r)
		m := distinct(seats)
		total := m + m*(m-1)/2 + m*(m-1)*(m-2)/6
		switch r.Intn(10) {
		case 0, 1, 2:
			retry := r.Intn(50)
			ops = append(ops, fmt.Sprintf("sg %s %d %d %d %s", hx.JoinInts(seats), seed, retry, k,
				stream(seed+int64(retry), m+8)))
		case 3, 4:
			if len(seats) <= 30 {
				ops = append(ops, fmt.Sprintf("kgall %s %d %d %s", hx.JoinInts(seats), seed, k,
					stream(seed, streamLenKeygen(seats))))
				continue
			}
			fallthrough
		default:
			retry := r.Intn(total + 3)
			if r.Chance(1, 4) { // aim at the triplet stage
				retry = m + m*(m-1)/2 + r.Intn(m*(m-1)*(m-2)/6+1)
			}
			ops = append(ops, fmt.Sprintf("kg %s %d %d %d %s", hx.JoinInts(seats), seed, retry, k,
				stream(seed, streamLenKeygen(seats))))
		}
	}
	return ops
}

// ---- exec ------------------------------------------------------------------

var reRetries = regexp.MustCompile(`still needed \[(\d+)\] more retries`)

func showResult(res []chain.Address, err error) string {
	if err != nil {
		msg := err.Error()
		switch {
		case strings.HasPrefix(msg, "asked for too many seats"):
			return "err:too-many-seats"
		case strings.HasPrefix(msg, "the retry count"):
			if m := reRetries.FindStringSubmatch(msg); m != nil {
				return "err:retries:" + m[1]
			}
			return "err:retries:?"
		}
		return "err:other"
	}
	ids := make([]int, len(res))
	for i, a := range res {
		ids[i] = idOf(a)
	}
	return "ok " + hx.JoinInts(ids)
}

type selFn func([]chain.Address, int64, uint, uint) ([]chain.Address, error)

// call runs fn three times on fresh copies (each run sees new map iteration orders) and
// checks that the input slice is not modified.
func call(fn selFn, seats []int, seed int64, retry, k int) string {
	var first string
	for rep := 0; rep < 3; rep++ {
		in := make([]chain.Address, len(seats))
		for i, s := range seats {
			in[i] = addr(s)
		}
		res, err := fn(in, seed, uint(retry), uint(k))
		for i, s := range seats {
			if in[i] != addr(s) {
				return "input-mutated"
			}
		}
		o := showResult(res, err)
		if rep == 0 {
			first = o
		} else if o != first {
			return "nondet"
		}
	}
	return first
}

func excludedCount(seats []int, obs string) int {
	if !strings.HasPrefix(obs, "ok ") {
		return -1
	}
	kept := map[int]bool{}
	for _, v := range hx.ParseInts(obs[3:]) {
		kept[v] = true
	}
	ex := map[int]bool{}
	for _, s := range seats {
		if !kept[s] {
			ex[s] = true
		}
	}
	return len(ex)
}

func kgTag(seats []int, obs string) string {
	switch {
	case obs == "err:too-many-seats":
		return "toomany"
	case strings.HasPrefix(obs, "err:retries"):
		return "retries-err"
	case strings.HasPrefix(obs, "ok "):
		switch excludedCount(seats, obs) {
		case 1:
			return "single"
		case 2:
			return "pair"
		case 3:
			return "triplet"
		}
		return "ok-other"
	}
	return "other"
}

func exec(op string) (string, string) {
	f := strings.Fields(op)
	if len(f) < 1 {
		return "bad-op", "bad"
	}
	un := ""
	switch {
	case f[0] == "sg" && len(f) == 6:
		seats := hx.ParseInts(f[1])
		if uneven(seats) {
			un = "+uneven"
		}
		seed, _ := strconv.ParseInt(f[2], 10, 64)
		obs := call(retry.EvaluateRetryParticipantsForSigning, seats, seed, hx.Atoi(f[3]), hx.Atoi(f[4]))
		tag := "sg"
		if !strings.HasPrefix(obs, "ok") {
			tag = "sg-err"
		}
		return obs, tag + un
	case f[0] == "kg" && len(f) == 6:
		seats := hx.ParseInts(f[1])
		if uneven(seats) {
			un = "+uneven"
		}
		seed, _ := strconv.ParseInt(f[2], 10, 64)
		obs := call(retry.EvaluateRetryParticipantsForKeyGeneration, seats, seed, hx.Atoi(f[3]), hx.Atoi(f[4]))
		return obs, kgTag(seats, obs) + un
	case f[0] == "kgall" && len(f) == 5:
		seats := hx.ParseInts(f[1])
		if uneven(seats) {
			un = "+uneven"
		}
		seed, _ := strconv.ParseInt(f[2], 10, 64)
		k := hx.Atoi(f[3])
		var all []string
		tags := map[string]bool{}
		for r := 0; r < kgallCap; r++ {
			obs := call(retry.EvaluateRetryParticipantsForKeyGeneration, seats, seed, r, k)
			all = append(all, strings.ReplaceAll(obs, " ", ":"))
			tags[kgTag(seats, obs)] = true
			if !strings.HasPrefix(obs, "ok") {
				break
			}
		}
		tag := "kgall"
		for _, t := range []string{"single", "pair", "triplet", "retries-err", "toomany"} {
			if tags[t] {
				tag += "+" + t
			}
		}
		return strings.Join(all, "|"), tag + un
	}
	return "bad-op", "bad"
}

func main() {
	hx.Main(&hx.Config{Prop: "C09", Gen: gen, Exec: exec})
}
