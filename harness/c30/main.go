// C30: transaction size estimates never undershoot the real size.
//
// Op lines:
//
//	size <in,in,...> <out,out,...|->
//	     in  = kind:sigLen:hiS:rlen:firstByte   kind p=P2PKH w=P2WPKH s=P2SH S=P2WSH
//	           sigLen = wanted length of DER signature + sighash byte (70..72): the harness
//	           searches an ECDSA nonce that yields it; hiS=1 hands the high-S twin to the builder
//	           rlen/firstByte = redeem script length and its first byte (script-hash kinds)
//	     out = p | w | s | S
//	der <rHex> <sHex>      length of btcec.Signature{r,s}.Serialize() plus the sighash byte
//
// Obs: `est=<vsize|err> real=<vsize|err>`  (est: TransactionSizeEstimator with the same shape,
//
//	real: mempool.GetTxVirtualSize of the transaction returned by AddSignatures), `len=<n>`.
package main

import (
	"bytes"
	"crypto/ecdsa"
	"crypto/sha256"
	"encoding/hex"
	"fmt"
	"math/big"
	"strconv"
	"strings"

	"keepverif/harness/hx"

	"github.com/btcsuite/btcd/btcec"
	"github.com/btcsuite/btcd/mempool"
	"github.com/btcsuite/btcd/txscript"
	"github.com/btcsuite/btcd/wire"
	"github.com/btcsuite/btcutil"
	"github.com/keep-network/keep-core/pkg/bitcoin"
	"github.com/keep-network/keep-core/pkg/chain"
	"github.com/keep-network/keep-core/pkg/tbtc"
	"github.com/keep-network/keep-core/pkg/tbtcpg"
)

type fakeChain struct {
	bitcoin.Chain
	txs map[bitcoin.Hash]*bitcoin.Transaction
}

func (f *fakeChain) GetTransaction(h bitcoin.Hash) (*bitcoin.Transaction, error) {
	if tx, ok := f.txs[h]; ok {
		return tx, nil
	}
	return nil, fmt.Errorf("transaction not found")
}

// EstimateSatPerVByteFee: 1 sat/vbyte, so an estimated fee IS the estimated virtual size.
func (f *fakeChain) EstimateSatPerVByteFee(blocks uint32) (int64, error) { return 1, nil }

var (
	curve   = btcec.S256()
	privKey = func() *big.Int {
		d := sha256.Sum256([]byte("c30-key"))
		s := new(big.Int).SetBytes(d[:])
		return s.Mod(s, curve.N)
	}()
	pubKey = func() *ecdsa.PublicKey {
		x, y := curve.ScalarBaseMult(privKey.Bytes())
		return &ecdsa.PublicKey{Curve: curve, X: x, Y: y}
	}()
)

type inSpec struct {
	kind   string
	sigLen int
	hiS    bool
	rlen   int
	fb     byte
}

func parseIn(s string) (*inSpec, bool) {
	f := strings.Split(s, ":")
	if len(f) != 5 || len(f[0]) != 1 || !strings.Contains("pwsS", f[0]) {
		return nil, false
	}
	sl, e1 := strconv.Atoi(f[1])
	rl, e3 := strconv.Atoi(f[3])
	fb, e4 := strconv.Atoi(f[4])
	if e1 != nil || e3 != nil || e4 != nil || sl < 70 || sl > 72 || rl < 0 || rl > 11000 || fb < 0 || fb > 255 || (fb >= 1 && fb <= 0x4e) || // push opcodes would not parse

		(f[2] != "0" && f[2] != "1") {
		return nil, false
	}
	return &inSpec{kind: f[0], sigLen: sl, hiS: f[2] == "1", rlen: rl, fb: byte(fb)}, true
}

func redeemScript(in *inSpec, i int) []byte {
	b := make([]byte, in.rlen)
	for j := range b {
		b[j] = 0x61 // OP_NOP: the sighash code tokenises the script, so it must parse
	}
	if in.rlen > 0 {
		b[0] = in.fb
	}
	return b
}

// sign finds a nonce for which the serialised signature (+ sighash byte) has the wanted
// length. Returns (r, s) with s low; nil if none found.
func sign(e *big.Int, want int, seed int) (*big.Int, *big.Int) {
	n := curve.N
	half := new(big.Int).Rsh(n, 1)
	for t := 1; t < 20000; t++ {
		kd := sha256.Sum256([]byte(fmt.Sprintf("c30-nonce-%d-%d", seed, t)))
		k := new(big.Int).SetBytes(kd[:])
		k.Mod(k, n)
		if k.Sign() == 0 {
			continue
		}
		rx, _ := curve.ScalarBaseMult(k.Bytes())
		r := new(big.Int).Mod(rx, n)
		if r.Sign() == 0 {
			continue
		}
		s := new(big.Int).Mul(r, privKey)
		s.Add(s, e)
		s.Mul(s, new(big.Int).ModInverse(k, n))
		s.Mod(s, n)
		if s.Sign() == 0 {
			continue
		}
		if s.Cmp(half) > 0 {
			s.Sub(n, s)
		}
		if len((&btcec.Signature{R: r, S: s}).Serialize())+1 == want {
			return r, s
		}
	}
	return nil, nil
}

func vsizeOf(tx *bitcoin.Transaction) (int64, bool) {
	raw := tx.Serialize(bitcoin.Witness)
	var m wire.MsgTx
	if err := m.Deserialize(bytes.NewReader(raw)); err != nil {
		return 0, false
	}
	v := mempool.GetTxVirtualSize(btcutil.NewTx(&m))
	// independent recomputation from the two serialisations
	w := int64(len(tx.Serialize(bitcoin.Standard)))*3 + int64(len(raw))
	return v, v == (w+3)/4
}

// ---- whole flows: tbtcpg estimators vs tbtc assemblers ------------------------

func newChain() *fakeChain { return &fakeChain{txs: map[bitcoin.Hash]*bitcoin.Transaction{}} }

func (f *fakeChain) addUtxo(id int, value int64, lock []byte) *bitcoin.UnspentTransactionOutput {
	// two consecutive ids are outputs 0,1 of one funding transaction (e.g. main UTXO + deposit)
	h := bitcoin.Hash(sha256.Sum256([]byte(fmt.Sprintf("c30-flow-%d", id/2))))
	if f.txs[h] == nil {
		f.txs[h] = &bitcoin.Transaction{Version: 1, Outputs: make([]*bitcoin.TransactionOutput, 2)}
	}
	f.txs[h].Outputs[id%2] = &bitcoin.TransactionOutput{Value: value, PublicKeyScript: lock}
	return &bitcoin.UnspentTransactionOutput{
		Outpoint: &bitcoin.TransactionOutpoint{TransactionHash: h, OutputIndex: uint32(id % 2)}, Value: value,
	}
}

func walletLock() []byte {
	pkh := bitcoin.PublicKeyHash(pubKey)
	sc, _ := bitcoin.PayToWitnessPublicKeyHash(pkh)
	return sc
}

// signAll signs every input with a signature of the wanted length and measures the result.
func signAll(b *bitcoin.TransactionBuilder, sigLens []int) string {
	hashes, err := b.ComputeSignatureHashes()
	if err != nil || len(hashes) != len(sigLens) {
		return "err inputs"
	}
	sigs := make([]*bitcoin.SignatureContainer, len(hashes))
	for i := range hashes {
		r, s := sign(hashes[i], sigLens[i], 1000+i)
		if r == nil {
			return "err nonce"
		}
		sigs[i] = &bitcoin.SignatureContainer{R: r, S: s, PublicKey: pubKey}
	}
	tx, err := b.AddSignatures(sigs)
	if err != nil {
		return "err"
	}
	for i, in := range tx.Inputs {
		if len(in.Witness) < 2 || len(in.Witness[0]) != sigLens[i] {
			return "err siglen"
		}
	}
	v, ok := vsizeOf(tx)
	if !ok {
		return "err vsize"
	}
	return strconv.FormatInt(v, 10)
}

func sigLenTok(s string) (int, bool) {
	v, err := strconv.Atoi(s)
	return v, err == nil && v >= 70 && v <= 72
}

func flowObs(fee int64, err error, realStr string) string {
	estStr := "err"
	if err == nil {
		estStr = strconv.FormatInt(fee, 10)
	}
	return "est=" + estStr + " real=" + realStr
}

func outScript(kind string, i int) []byte {
	var h20 [20]byte
	var h32 [32]byte
	h20[0], h32[0] = byte(i), byte(i)
	var sc bitcoin.Script
	switch kind {
	case "p":
		sc, _ = bitcoin.PayToPublicKeyHash(h20)
	case "w":
		sc, _ = bitcoin.PayToWitnessPublicKeyHash(h20)
	case "s":
		sc, _ = bitcoin.PayToScriptHash(h20)
	case "S":
		sc, _ = bitcoin.PayToWitnessScriptHash(h32)
	}
	return sc
}

func execFlow(f []string) (string, string) {
	fc := newChain()
	const big = uint64(1) << 40
	switch f[0] {
	case "txsweep":
		if len(f) != 3 {
			return "bad-op", "bad"
		}
		var sigLens []int
		var main *bitcoin.UnspentTransactionOutput
		tag := "txsweep+nomain"
		if f[1] != "-" {
			sl, ok := sigLenTok(f[1])
			if !ok {
				return "bad-op", "bad"
			}
			sigLens = append(sigLens, sl)
			main = fc.addUtxo(0, 5000000, walletLock())
			tag = "txsweep+main"
		}
		var deposits []*tbtc.Deposit
		for i, t := range hx.SplitList(f[2]) {
			p := strings.Split(t, ":")
			if len(p) != 2 || (p[0] != "e" && p[0] != "n") {
				return "bad-op", "bad"
			}
			sl, ok := sigLenTok(p[1])
			if !ok {
				return "bad-op", "bad"
			}
			sigLens = append(sigLens, sl)
			d := &tbtc.Deposit{Depositor: chain.Address(fmt.Sprintf("0x%040x", 0xd000+i))}
			copy(d.WalletPublicKeyHash[:], walletLock()[2:])
			d.BlindingFactor[0] = byte(i)
			d.RefundLocktime = [4]byte{1, 2, 3, 4}
			if p[0] == "e" {
				var extra [32]byte
				extra[0] = byte(i + 1)
				d.ExtraData = &extra
				tag += "+extra"
			} else {
				tag += "+plain"
			}
			sc, err := d.Script()
			if err != nil {
				return "harness-error deposit script", "bad"
			}
			lock, _ := bitcoin.PayToWitnessScriptHash(bitcoin.WitnessScriptHash(sc))
			d.Utxo = fc.addUtxo(i+1, int64(200000+i), lock)
			deposits = append(deposits, d)
		}
		if len(deposits) == 0 {
			return "bad-op", "bad"
		}
		fee, _, err := tbtcpg.VerifC30EstimateDepositsSweepFee(fc, len(deposits), big)
		b, aerr := tbtc.VerifC26AssembleDepositSweepTransaction(fc, pubKey, main, deposits, 1000)
		if aerr != nil {
			return "harness-error assemble: " + aerr.Error(), "bad"
		}
		return flowObs(fee, err, signAll(b, sigLens)), dedupTag(tag)

	case "txredeem":
		if len(f) != 4 || (f[2] != "0" && f[2] != "1") {
			return "bad-op", "bad"
		}
		sl, ok := sigLenTok(f[1])
		if !ok {
			return "bad-op", "bad"
		}
		var scripts []bitcoin.Script
		var reqs []*tbtc.RedemptionRequest
		total := int64(0)
		for i, k := range hx.SplitList(f[3]) {
			if len(k) != 1 || !strings.Contains("pwsS", k) {
				return "bad-op", "bad"
			}
			sc := outScript(k, i)
			scripts = append(scripts, sc)
			reqs = append(reqs, &tbtc.RedemptionRequest{RedeemerOutputScript: sc, RequestedAmount: 100000, TreasuryFee: 50})
			total += 100000 - 50
		}
		if len(reqs) == 0 {
			return "bad-op", "bad"
		}
		tag := "txredeem+nochange"
		if f[2] == "1" {
			total += 777
			tag = "txredeem+change"
		}
		main := fc.addUtxo(0, total, walletLock())
		fee, err := tbtcpg.EstimateRedemptionFee(fc, scripts)
		b, aerr := tbtc.VerifC26AssembleRedemptionTransaction(fc, pubKey, main, reqs, 1000)
		if aerr != nil {
			return "harness-error assemble: " + aerr.Error(), "bad"
		}
		return flowObs(fee, err, signAll(b, []int{sl})), tag

	case "txmove":
		if len(f) != 3 {
			return "bad-op", "bad"
		}
		sl, ok := sigLenTok(f[1])
		n, e := strconv.Atoi(f[2])
		if !ok || e != nil || n < 1 || n > 300 {
			return "bad-op", "bad"
		}
		targets := make([][20]byte, n)
		for i := range targets {
			targets[i][0], targets[i][1] = byte(i), byte(i>>8)
		}
		main := fc.addUtxo(0, 90000000, walletLock())
		fee, err := tbtcpg.EstimateMovingFundsFee(fc, n, big)
		b, aerr := tbtc.VerifC26AssembleMovingFundsTransaction(fc, main, targets, 1000)
		if aerr != nil {
			return "harness-error assemble: " + aerr.Error(), "bad"
		}
		return flowObs(fee, err, signAll(b, []int{sl})), "txmove"

	case "txmsweep":
		if len(f) != 3 {
			return "bad-op", "bad"
		}
		sl, ok := sigLenTok(f[1])
		if !ok {
			return "bad-op", "bad"
		}
		sigLens := []int{sl}
		moved := fc.addUtxo(0, 90000000, walletLock())
		var main *bitcoin.UnspentTransactionOutput
		tag := "txmsweep+nomain"
		if f[2] != "-" {
			sl2, ok := sigLenTok(f[2])
			if !ok {
				return "bad-op", "bad"
			}
			sigLens = append(sigLens, sl2)
			main = fc.addUtxo(1, 1234567, walletLock())
			tag = "txmsweep+main"
		}
		fee, err := tbtcpg.EstimateMovedFundsSweepFee(fc, main != nil, big)
		b, aerr := tbtc.VerifC26AssembleMovedFundsSweepTransaction(fc, pubKey, moved, main, 1000)
		if aerr != nil {
			return "harness-error assemble: " + aerr.Error(), "bad"
		}
		return flowObs(fee, err, signAll(b, sigLens)), tag
	}
	return "bad-op", "bad"
}

func dedupTag(t string) string {
	seen := map[string]bool{}
	var out []string
	for _, p := range strings.Split(t, "+") {
		if !seen[p] {
			seen[p] = true
			out = append(out, p)
		}
	}
	return strings.Join(out, "+")
}

// ---- one estimator used step by step ------------------------------------------

func execSteps(f []string) (string, string) {
	if len(f) != 2 {
		return "bad-op", "bad"
	}
	est := bitcoin.NewTransactionSizeEstimator()
	var qs []string
	var ins, outs []string
	tags := map[string]bool{"steps": true}
	queried := false
	for _, st := range hx.SplitList(f[1]) {
		p := strings.Split(st, ":")
		if p[0] == "q" && len(p) == 1 {
			v, err := est.VirtualSize()
			if err != nil {
				qs = append(qs, "err")
			} else {
				qs = append(qs, strconv.FormatInt(v, 10))
			}
			queried = true
			continue
		}
		if len(p) < 2 {
			return "bad-op", "bad"
		}
		n, e := strconv.Atoi(p[1])
		if e != nil || n < 0 || n > 300 {
			return "bad-op", "bad"
		}
		rlen := 0
		if p[0] == "is" || p[0] == "iS" {
			if len(p) != 3 {
				return "bad-op", "bad"
			}
			rlen, e = strconv.Atoi(p[2])
			if e != nil || rlen < 2 || rlen > 11000 {
				return "bad-op", "bad"
			}
		} else if len(p) != 2 {
			return "bad-op", "bad"
		}
		if queried && n > 0 {
			tags["after-query-"+p[0]] = true
		}
		switch p[0] {
		case "ip":
			est.AddPublicKeyHashInputs(n, false)
		case "iw":
			est.AddPublicKeyHashInputs(n, true)
		case "is":
			est.AddScriptHashInputs(n, rlen, false)
		case "iS":
			est.AddScriptHashInputs(n, rlen, true)
		case "op":
			est.AddPublicKeyHashOutputs(n, false)
		case "ow":
			est.AddPublicKeyHashOutputs(n, true)
		case "os":
			est.AddScriptHashOutputs(n, false)
		case "oS":
			est.AddScriptHashOutputs(n, true)
		default:
			return "bad-op", "bad"
		}
		for j := 0; j < n; j++ {
			switch p[0][0] {
			case 'i':
				k := p[0][1:]
				ins = append(ins, fmt.Sprintf("%s:72:0:%d:118", k, rlen))
			case 'o':
				outs = append(outs, p[0][1:])
			}
		}
	}
	if len(ins) == 0 || len(qs) == 0 {
		return "bad-op", "bad"
	}
	// the real transaction of the final shape, all signatures maximal
	obs, _ := execSize([]string{"size", hx.JoinStrs(ins), hx.JoinStrs(outs)})
	real := "?"
	for _, t := range strings.Fields(obs) {
		if strings.HasPrefix(t, "real=") {
			real = t[5:]
		}
	}
	if strings.Contains(obs, "siglen") || strings.Contains(obs, "harness-error") || real == "?" {
		return "harness-error " + obs, "bad"
	}
	var tl []string
	for t := range tags {
		tl = append(tl, t)
	}
	sortStrings(tl)
	return "q=" + strings.Join(qs, ",") + " real=" + real, strings.Join(tl, "+")
}

func exec(op string) (string, string) {
	f := strings.Fields(op)
	if len(f) > 0 && f[0] == "steps" {
		return execSteps(f)
	}
	if len(f) > 0 && strings.HasPrefix(f[0], "tx") {
		return execFlow(f)
	}
	return execSize(f)
}

func execSize(f []string) (string, string) {
	if len(f) == 3 && f[0] == "der" {
		r, ok1 := new(big.Int).SetString(f[1], 16)
		s, ok2 := new(big.Int).SetString(f[2], 16)
		if !ok1 || !ok2 {
			return "bad-op", "bad"
		}
		l := len((&btcec.Signature{R: r, S: s}).Serialize()) + 1
		tag := "der"
		if s.Cmp(new(big.Int).Rsh(curve.N, 1)) > 0 {
			tag += "+highs"
		}
		if l == 72 {
			tag += "+max"
		}
		return fmt.Sprintf("len=%d", l), tag
	}
	if len(f) != 3 || f[0] != "size" {
		return "bad-op", "bad"
	}
	var ins []*inSpec
	for _, t := range hx.SplitList(f[1]) {
		in, ok := parseIn(t)
		if !ok {
			return "bad-op", "bad"
		}
		ins = append(ins, in)
	}
	outs := hx.SplitList(f[2])
	if len(ins) == 0 {
		return "bad-op", "bad"
	}

	// ---- estimator: one call per run of equal kinds (as its API is used in tbtcpg) ----
	est := bitcoin.NewTransactionSizeEstimator()
	for _, in := range ins {
		switch in.kind {
		case "p":
			est.AddPublicKeyHashInputs(1, false)
		case "w":
			est.AddPublicKeyHashInputs(1, true)
		case "s":
			est.AddScriptHashInputs(1, in.rlen, false)
		case "S":
			est.AddScriptHashInputs(1, in.rlen, true)
		}
	}
	for _, o := range outs {
		switch o {
		case "p":
			est.AddPublicKeyHashOutputs(1, false)
		case "w":
			est.AddPublicKeyHashOutputs(1, true)
		case "s":
			est.AddScriptHashOutputs(1, false)
		case "S":
			est.AddScriptHashOutputs(1, true)
		default:
			return "bad-op", "bad"
		}
	}
	estStr := "err"
	if v, err := est.VirtualSize(); err == nil {
		estStr = strconv.FormatInt(v, 10)
	}

	// ---- real builder -------------------------------------------------------------
	fc := &fakeChain{txs: map[bitcoin.Hash]*bitcoin.Transaction{}}
	b := bitcoin.NewTransactionBuilder(fc)
	pkh := bitcoin.PublicKeyHash(pubKey)
	tags := map[string]bool{}
	for i, in := range ins {
		// three consecutive inputs are outputs 0,1,2 of one funding transaction
		h := bitcoin.Hash(sha256.Sum256([]byte(fmt.Sprintf("c30-tx-%d", i/3))))
		utxo := &bitcoin.UnspentTransactionOutput{
			Outpoint: &bitcoin.TransactionOutpoint{TransactionHash: h, OutputIndex: uint32(i % 3)},
			Value:    int64(100000 + i),
		}
		var lock bitcoin.Script
		var err error
		rs := redeemScript(in, i)
		switch in.kind {
		case "p":
			lock, err = bitcoin.PayToPublicKeyHash(pkh)
		case "w":
			lock, err = bitcoin.PayToWitnessPublicKeyHash(pkh)
		case "s":
			lock, err = bitcoin.PayToScriptHash(bitcoin.ScriptHash(rs))
		case "S":
			lock, err = bitcoin.PayToWitnessScriptHash(bitcoin.WitnessScriptHash(rs))
		}
		if err != nil {
			return "harness-error lock script", "bad"
		}
		if fc.txs[h] == nil {
			fc.txs[h] = &bitcoin.Transaction{Version: 1, Outputs: make([]*bitcoin.TransactionOutput, 3)}
		}
		fc.txs[h].Outputs[i%3] = &bitcoin.TransactionOutput{Value: utxo.Value, PublicKeyScript: lock}
		if in.kind == "p" || in.kind == "w" {
			err = b.AddPublicKeyHashInput(utxo)
		} else {
			err = b.AddScriptHashInput(utxo, rs)
		}
		if err != nil {
			return "harness-error add input: " + err.Error(), "bad"
		}
		tags["in-"+in.kind] = true
		if in.sigLen == 72 {
			tags["sig72"] = true
		} else {
			tags["sigshort"] = true
		}
		if in.hiS {
			tags["highs"] = true
		}
	}
	for i, o := range outs {
		var sc bitcoin.Script
		var h20 [20]byte
		var h32 [32]byte
		h20[0], h32[0] = byte(i), byte(i)
		switch o {
		case "p":
			sc, _ = bitcoin.PayToPublicKeyHash(h20)
		case "w":
			sc, _ = bitcoin.PayToWitnessPublicKeyHash(h20)
		case "s":
			sc, _ = bitcoin.PayToScriptHash(h20)
		case "S":
			sc, _ = bitcoin.PayToWitnessScriptHash(h32)
		}
		b.AddOutput(&bitcoin.TransactionOutput{Value: int64(1000 + i), PublicKeyScript: sc})
		tags["out-"+o] = true
	}
	hashes, err := b.ComputeSignatureHashes()
	if err != nil {
		return "harness-error sighash: " + err.Error(), "bad"
	}
	sigs := make([]*bitcoin.SignatureContainer, len(ins))
	for i, in := range ins {
		r, s := sign(hashes[i], in.sigLen, i)
		if r == nil {
			return "harness-error no nonce for wanted length", "bad"
		}
		if in.hiS {
			s = new(big.Int).Sub(curve.N, s)
		}
		sigs[i] = &bitcoin.SignatureContainer{R: r, S: s, PublicKey: pubKey}
	}
	realStr := "err"
	note := ""
	tx, err := b.AddSignatures(sigs)
	if err == nil {
		v, consistent := vsizeOf(tx)
		realStr = strconv.FormatInt(v, 10)
		if !consistent {
			note += " vsize-recomputation-differs"
		}
		// the signatures in the transaction have the lengths the op line asked for
		for i, in := range tx.Inputs {
			var sig []byte
			if len(in.Witness) >= 2 {
				sig = in.Witness[0]
			} else if pushes, e := txscript.PushedData(in.SignatureScript); e == nil && len(pushes) >= 2 {
				sig = pushes[0]
			}
			if len(sig) != ins[i].sigLen {
				note += fmt.Sprintf(" siglen[%d]=%d", i, len(sig))
			}
		}
		tags["built"] = true
	} else {
		tags["builderr"] = true
	}
	allMax := true
	for _, in := range ins {
		if in.sigLen != 72 {
			allMax = false
		}
		if (in.kind == "s") && in.rlen == 1 {
			tags["rlen1"] = true
		}
		if (in.kind == "s" || in.kind == "S") && in.rlen == 0 {
			tags["rlen0"] = true
		}
	}
	if allMax {
		tags["allmax"] = true
	}
	if len(ins) >= 253 {
		tags["manyins"] = true
	}
	var tl []string
	for t := range tags {
		tl = append(tl, t)
	}
	sortStrings(tl)
	return "est=" + estStr + " real=" + realStr + note, strings.Join(tl, "+")
}

func sortStrings(a []string) {
	for i := 1; i < len(a); i++ {
		for j := i; j > 0 && a[j] < a[j-1]; j-- {
			a[j], a[j-1] = a[j-1], a[j]
		}
	}
}

// ---- generator --------------------------------------------------------------

func genIn(r *hx.Rng, kinds string, allMax bool) string {
	kind := string(kinds[r.Intn(len(kinds))])
	sl := 72
	if !allMax {
		switch r.Intn(10) {
		case 0:
			sl = 70
		case 1, 2, 3, 4:
			sl = 71
		}
	}
	hi := r.Intn(3) == 0
	rlen, fb := 0, 0
	if kind == "s" || kind == "S" {
		switch r.Intn(14) {
		case 0:
			rlen = 0
		case 1:
			rlen = 1
			fb = hx.Pick(r, []int{0, 0x81}) // small-integer bytes: pushed as one opcode (in scope)
			if r.Chance(1, 3) {
				fb = hx.Pick(r, []int{0x51, 0xac}) // one-byte non-small script: documented edge
			}
		case 2:
			rlen = hx.Pick(r, []int{2, 74, 75, 76, 77, 254, 255, 256, 257, 519, 520})
		case 3:
			rlen = r.Range(2, 520)
		case 4:
			if kind == "s" {
				rlen = hx.Pick(r, []int{521, 522, 600, 1000}) // AddData refuses it: both sides error
			} else {
				rlen = hx.Pick(r, []int{521, 1000, 3000, 10000}) // witness items have no such limit
			}
		case 5, 6, 7, 8:
			rlen = 126 // deposit script with extra data
		default:
			rlen = 92 // plain deposit script
		}
		if rlen > 1 {
			fb = hx.Pick(r, []int{0x76, 0x51, 0x00, 0x81})
		}
	}
	h := 0
	if hi {
		h = 1
	}
	return fmt.Sprintf("%s:%d:%d:%d:%d", kind, sl, h, rlen, fb)
}

func hexOf(b *big.Int) string {
	s := b.Text(16)
	if s == "" {
		s = "0"
	}
	return s
}

func gen(r *hx.Rng, n int, tier string) []string {
	var ops []string
	n256 := new(big.Int).Lsh(big.NewInt(1), 256)
	half := new(big.Int).Rsh(curve.N, 1)
	for i := 0; i < n; i++ {
		if r.Chance(1, 4) { // signature serialisation
			pick := func() *big.Int {
				switch r.Intn(10) {
				case 0:
					return big.NewInt(int64(r.Range(1, 300)))
				case 1:
					return new(big.Int).Sub(curve.N, big.NewInt(int64(r.Range(1, 300))))
				case 2:
					return new(big.Int).Add(half, big.NewInt(int64(r.Range(-2, 2))))
				case 3: // exactly 2^(8k-1) and neighbours: top-bit boundaries
					k := r.Range(1, 32)
					v := new(big.Int).Lsh(big.NewInt(1), uint(8*k-1))
					v.Add(v, big.NewInt(int64(r.Range(-1, 1))))
					return v.Mod(v, curve.N)
				case 4: // short values
					v := new(big.Int).SetBytes(r.Bytes(r.Range(1, 31)))
					if v.Sign() == 0 {
						v.SetInt64(1)
					}
					return v
				default:
					v := new(big.Int).SetBytes(r.Bytes(32))
					v.Mod(v, n256)
					v.Mod(v, curve.N)
					if v.Sign() == 0 {
						v.SetInt64(1)
					}
					return v
				}
			}
			ops = append(ops, "der "+hexOf(pick())+" "+hexOf(pick()))
			continue
		}
		sl := func() int {
			return hx.Pick(r, []int{72, 72, 72, 71, 71, 70})
		}
		if r.Chance(1, 8) { // one estimator grown step by step with queries in between
			var st []string
			addIn := func() {
				n := hx.Pick(r, []int{0, 1, 1, 2, 3, r.Range(0, 6)})
				switch r.Intn(4) {
				case 0:
					st = append(st, fmt.Sprintf("ip:%d", n))
				case 1:
					st = append(st, fmt.Sprintf("iw:%d", n))
				case 2:
					st = append(st, fmt.Sprintf("is:%d:%d", n, hx.Pick(r, []int{92, 126, 75, 76, 300})))
				default:
					st = append(st, fmt.Sprintf("iS:%d:%d", n, hx.Pick(r, []int{92, 126, 300, 1000})))
				}
			}
			addOut := func() {
				st = append(st, fmt.Sprintf("%s:%d", hx.Pick(r, []string{"op", "ow", "os", "oS"}), hx.Pick(r, []int{0, 1, 1, 2, 3, r.Range(0, 6)})))
			}
			st = append(st, fmt.Sprintf("%s:%d", hx.Pick(r, []string{"ip", "iw"}), r.Range(1, 2)))
			for j := r.Range(1, 8); j > 0; j-- {
				switch r.Intn(5) {
				case 0:
					addIn()
				case 1, 2:
					addOut()
				default:
					st = append(st, "q")
					if r.Bool() { // exactly one kind of step between two queries
						if r.Chance(1, 3) {
							addIn()
						} else {
							addOut()
						}
						st = append(st, "q")
					}
				}
			}
			st = append(st, "q")
			ops = append(ops, "steps "+strings.Join(st, ","))
			continue
		}
		if r.Chance(1, 4) { // whole flows
			allMaxF := r.Chance(1, 3)
			sg := func() int {
				if allMaxF {
					return 72
				}
				return sl()
			}
			switch r.Intn(6) {
			case 0, 1, 2:
				main := "-"
				if r.Chance(2, 3) {
					main = strconv.Itoa(sg())
				}
				nd := r.Range(1, 20)
				var deps []string
				for j := 0; j < nd; j++ {
					deps = append(deps, fmt.Sprintf("%s:%d", hx.Pick(r, []string{"e", "n"}), sg()))
				}
				ops = append(ops, "txsweep "+main+" "+hx.JoinStrs(deps))
			case 3:
				// independent per-type counts of redeemer output scripts (0..n each), shuffled
				var outs []string
				for _, k := range []string{"p", "w", "s", "S"} {
					c := hx.Pick(r, []int{0, 0, 1, 1, 2, 3, r.Range(0, 8)})
					for j := 0; j < c; j++ {
						outs = append(outs, k)
					}
				}
				if len(outs) == 0 {
					outs = []string{hx.Pick(r, []string{"p", "w", "s", "S"})}
				}
				if r.Bool() { // grouped by type half of the time, shuffled otherwise
					pm := r.Perm(len(outs))
					sh := make([]string, len(outs))
					for j, q := range pm {
						sh[j] = outs[q]
					}
					outs = sh
				}
				ops = append(ops, fmt.Sprintf("txredeem %d %d %s", sg(), r.Intn(2), hx.JoinStrs(outs)))
			case 4:
				nn := r.Range(1, 12)
				if r.Chance(1, 20) {
					nn = r.Range(250, 256)
				}
				ops = append(ops, fmt.Sprintf("txmove %d %d", sg(), nn))
			default:
				main := "-"
				if r.Bool() {
					main = strconv.Itoa(sg())
				}
				ops = append(ops, fmt.Sprintf("txmsweep %d %s", sg(), main))
			}
			continue
		}
		var ins, outs []string
		allMax := r.Chance(1, 3)
		switch r.Intn(10) {
		case 0, 1, 2: // deposit sweep shape: optional main UTXO + deposits, one P2WPKH output
			if r.Bool() {
				ins = append(ins, genIn(r, "w", allMax))
			}
			nd := r.Range(1, 20)
			for j := 0; j < nd; j++ {
				ins = append(ins, genIn(r, "sS", allMax))
			}
			outs = []string{"w"}
		case 3, 4: // redemption shape: main UTXO, redeemer outputs + change
			ins = append(ins, genIn(r, "wp", allMax))
			no := r.Range(1, 25)
			for j := 0; j < no; j++ {
				outs = append(outs, hx.Pick(r, []string{"p", "w", "s", "S"}))
			}
		case 5: // moving funds / moved funds sweep
			ins = append(ins, genIn(r, "wp", allMax))
			if r.Bool() {
				ins = append(ins, genIn(r, "wp", allMax))
			}
			no := r.Range(1, 5)
			for j := 0; j < no; j++ {
				outs = append(outs, "w")
			}
		case 6: // legacy only: no witness flag
			ni := r.Range(1, 6)
			for j := 0; j < ni; j++ {
				ins = append(ins, genIn(r, "ps", allMax))
			}
			no := r.Range(0, 4)
			for j := 0; j < no; j++ {
				outs = append(outs, hx.Pick(r, []string{"p", "w", "s", "S"}))
			}
		default: // arbitrary mix
			ni := r.Range(1, 12)
			if r.Chance(1, 60) {
				ni = r.Range(250, 260) // input count crosses the compact-size boundary 0xfd
			}
			for j := 0; j < ni; j++ {
				ins = append(ins, genIn(r, "pwsS", allMax))
			}
			no := r.Range(0, 8)
			if r.Chance(1, 60) {
				no = r.Range(250, 260)
			}
			for j := 0; j < no; j++ {
				outs = append(outs, hx.Pick(r, []string{"p", "w", "s", "S"}))
			}
		}
		ops = append(ops, "size "+hx.JoinStrs(ins)+" "+hx.JoinStrs(outs))
	}
	return ops
}

func depositScriptLen(extra bool) int {
	d := &tbtc.Deposit{Depositor: chain.Address("0x" + strings.Repeat("ab", 20))}
	if extra {
		d.ExtraData = &[32]byte{1}
	}
	sc, err := d.Script()
	if err != nil {
		panic(err)
	}
	return len(sc)
}

func facts() []string {
	l := func(s bitcoin.Script, err error) int {
		if err != nil {
			panic(err)
		}
		return len(s)
	}
	return []string{
		fmt.Sprintf("nat signaturePlaceholderLength %d", bitcoin.VerifC30SignaturePlaceholderLength()),
		fmt.Sprintf("nat publicKeyPlaceholderLength %d", bitcoin.VerifC30PublicKeyPlaceholderLength()),
		fmt.Sprintf("nat compressedKeyLength %d", len((*btcec.PublicKey)(pubKey).SerializeCompressed())),
		fmt.Sprintf("nat maxScriptElementSize %d", txscript.MaxScriptElementSize),
		fmt.Sprintf("nat p2pkhLen %d", l(bitcoin.PayToPublicKeyHash([20]byte{}))),
		fmt.Sprintf("nat p2wpkhLen %d", l(bitcoin.PayToWitnessPublicKeyHash([20]byte{}))),
		fmt.Sprintf("nat p2shLen %d", l(bitcoin.PayToScriptHash([20]byte{}))),
		fmt.Sprintf("nat p2wshLen %d", l(bitcoin.PayToWitnessScriptHash([32]byte{}))),
		fmt.Sprintf("nat curveOrder %s", curve.N.String()),
		fmt.Sprintf("nat depositScriptByteSize %d", tbtcpg.VerifC30DepositScriptByteSize),
		fmt.Sprintf("nat depositScriptLen %d", depositScriptLen(false)),
		fmt.Sprintf("nat depositScriptExtraLen %d", depositScriptLen(true)),
	}
}

var _ = hex.EncodeToString

func main() {
	hx.Main(&hx.Config{Prop: "C30", Gen: gen, Exec: exec, Facts: facts})
}
