// C14: block-synchronized state machine runs every phase in its block window.
//
// The REAL state.SyncMachine.Execute is driven by a scripted chain.BlockCounter and a scripted
// net.BroadcastChannel. The states are instrumented toy states, or wrappers around the REAL
// GJKR / result-publication state chains (real Next/DelayBlocks/ActiveBlocks; Initiate and
// Receive stubbed).
//
// Op line:  sync <chain> <h0> <start> <mode> <events>
//
//	chain   gjkr | result | comma list of toy states  <delay>.<active>[g][e][n]
//	        g = Initiate blocks until a release event, e = Initiate fails, n = Next fails
//	h0      block height when Execute is called;  start = startBlockHeight
//	mode    det  : a reached end block fires only after the buffered messages were consumed
//	        race : end-block waiters fire eagerly (as local_v1 does): select nondeterminism
//	events  comma list:  b<h> block height becomes h (ignored if not higher),
//	        m<id> message delivered to the channel, r release the gated Initiate
//	After the script the harness drains: releases gates and raises the height to whatever the
//	machine waits for until Execute returns.
//
// Obs line: st=<k>/E<height at Recv>/I<height at Initiate>/M<msgs handed>/C<ctx live at Initiate><ctx
// cancelled at the end>;...  bc=<block counter calls W<h> (WaitForBlockHeight) A<h>
// (BlockHeightWaiter)>  end=<end block>  res=<final:k|err:...>  drop=<msgs with no live handler>
// left=<msgs still buffered>  q=<enqueue state of every handed message, race mode only>
package main

import (
	"context"
	"errors"
	"fmt"
	"math/big"
	"strconv"
	"strings"
	"sync"
	"time"

	"keepverif/harness/hx"

	"github.com/ipfs/go-log/v2"
	"github.com/keep-network/keep-core/pkg/beacon/dkg/result"
	"github.com/keep-network/keep-core/pkg/beacon/gjkr"
	"github.com/keep-network/keep-core/pkg/net"
	"github.com/keep-network/keep-core/pkg/protocol/group"
	"github.com/keep-network/keep-core/pkg/protocol/state"
)

const waitTimeout = 15 * time.Second

type spec struct {
	d, a    uint64
	g, e, n bool
}

const (
	stRunning = iota
	stWaiting
	stInitiating
	stLoop
	stDone
)

type rec struct {
	entryH   uint64
	initH    int64
	msgs     []int
	enq      []int
	ctx      context.Context
	liveInit bool
}

// run is the scripted world of one case: block counter + broadcast channel + instrumentation.
type run struct {
	mu     sync.Mutex
	cond   *sync.Cond
	height uint64
	st     int
	waitH  uint64
	waitCh chan struct{}
	loopH  uint64
	loopCh chan uint64
	gate   chan struct{}
	eager  bool
	calls  []string
	recs   []*rec

	handlers []handlerReg
	enqueued int
	received int
	dropped  []int
	enqState map[int]int
	hang     bool
}

type handlerReg struct {
	ctx context.Context
	fn  func(net.Message)
}

// ---- chain.BlockCounter -------------------------------------------------

func (r *run) WaitForBlockHeight(h uint64) error {
	r.mu.Lock()
	r.calls = append(r.calls, fmt.Sprintf("W%d", h))
	if h <= r.height {
		r.mu.Unlock()
		return nil
	}
	ch := make(chan struct{})
	r.st, r.waitH, r.waitCh = stWaiting, h, ch
	r.cond.Broadcast()
	r.mu.Unlock()
	<-ch
	return nil
}

func (r *run) BlockHeightWaiter(h uint64) (<-chan uint64, error) {
	r.mu.Lock()
	defer r.mu.Unlock()
	r.calls = append(r.calls, fmt.Sprintf("A%d", h))
	ch := make(chan uint64, 1)
	if r.eager && h <= r.height {
		ch <- h // A-bc: yields the requested height
		return ch, nil
	}
	r.st, r.loopH, r.loopCh = stLoop, h, ch
	r.cond.Broadcast()
	return ch, nil
}

func (r *run) CurrentBlock() (uint64, error) {
	r.mu.Lock()
	defer r.mu.Unlock()
	return r.height, nil
}

func (r *run) WatchBlocks(ctx context.Context) <-chan uint64 { return make(chan uint64) }

// ---- net.BroadcastChannel -------------------------------------------------

func (r *run) Name() string { return "c14" }
func (r *run) Send(ctx context.Context, m net.TaggedMarshaler, s ...net.RetransmissionStrategy) error {
	return nil
}
func (r *run) Recv(ctx context.Context, handler func(m net.Message)) {
	r.mu.Lock()
	defer r.mu.Unlock()
	r.handlers = append(r.handlers, handlerReg{ctx, handler})
	r.recs = append(r.recs, &rec{entryH: r.height, initH: -1})
}
func (r *run) SetUnmarshaler(func() net.TaggedUnmarshaler)  {}
func (r *run) SetFilter(net.BroadcastChannelFilter) error { return nil }

type toyMsg struct{ id int }

func (m *toyMsg) TransportSenderID() net.TransportIdentifier { return nil }
func (m *toyMsg) SenderPublicKey() []byte                    { return nil }
func (m *toyMsg) Payload() interface{}                       { return m.id }
func (m *toyMsg) Type() string                               { return "toy" }
func (m *toyMsg) Seqno() uint64                              { return uint64(m.id) }

// ---- states -----------------------------------------------------------------

// toyState is state k of a scripted chain. If inner != nil, DelayBlocks/ActiveBlocks/Next are
// those of the wrapped REAL state.
type toyState struct {
	r     *run
	k     int
	specs []spec
	inner state.SyncState
}

func (s *toyState) sp() spec {
	if s.inner != nil {
		return spec{}
	}
	return s.specs[s.k]
}

func (s *toyState) DelayBlocks() uint64 {
	if s.inner != nil {
		return s.inner.DelayBlocks()
	}
	return s.specs[s.k].d
}

func (s *toyState) ActiveBlocks() uint64 {
	if s.inner != nil {
		return s.inner.ActiveBlocks()
	}
	return s.specs[s.k].a
}

func (s *toyState) Initiate(ctx context.Context) error {
	r := s.r
	r.mu.Lock()
	if s.k < len(r.recs) {
		rc := r.recs[s.k]
		rc.initH = int64(r.height)
		rc.ctx = ctx
		rc.liveInit = ctx.Err() == nil
	}
	sp := s.sp()
	if sp.g {
		g := make(chan struct{})
		r.st, r.gate = stInitiating, g
		r.cond.Broadcast()
		r.mu.Unlock()
		<-g
	} else {
		r.mu.Unlock()
	}
	if sp.e {
		return errors.New("toy initiate failure")
	}
	return nil
}

func (s *toyState) Receive(msg net.Message) error {
	r := s.r
	r.mu.Lock()
	defer r.mu.Unlock()
	id := msg.Payload().(int)
	if s.k < len(r.recs) {
		r.recs[s.k].msgs = append(r.recs[s.k].msgs, id)
		r.recs[s.k].enq = append(r.recs[s.k].enq, r.enqState[id])
	}
	r.received++
	r.cond.Broadcast()
	if id%3 == 0 {
		return errors.New("toy receive failure") // only logged by the machine
	}
	return nil
}

func (s *toyState) Next() (state.SyncState, error) {
	if s.inner != nil {
		nx, err := s.inner.Next()
		if err != nil {
			return nil, err
		}
		if nx == nil {
			return nil, nil
		}
		return &toyState{r: s.r, k: s.k + 1, inner: nx}, nil
	}
	if s.specs[s.k].n {
		return nil, errors.New("toy next failure")
	}
	if s.k+1 >= len(s.specs) {
		return nil, nil
	}
	return &toyState{r: s.r, k: s.k + 1, specs: s.specs}, nil
}

func (s *toyState) MemberIndex() group.MemberIndex { return 1 }

// ---- real chains --------------------------------------------------------------

var logger = func() log.StandardLogger {
	l := log.Logger("verif-c14")
	log.SetAllLoggers(log.LevelFatal)
	return l
}()

func gjkrInitial() state.SyncState {
	m, err := gjkr.NewMember(logger, 1, 3, 1, nil, big.NewInt(7), "verif")
	if err != nil {
		panic(err)
	}
	return gjkr.VerifC14InitialState(nil, m)
}

func resultInitial() state.SyncState {
	return result.VerifC14InitialState(logger, 1, group.NewGroup(1, 3), 0)
}

// walk returns the delay/active lists of a real chain by following Next().
func walk(s state.SyncState) (ds, as []uint64, names []string) {
	for i := 0; s != nil && i < 100; i++ {
		ds = append(ds, s.DelayBlocks())
		as = append(as, s.ActiveBlocks())
		names = append(names, strings.TrimPrefix(strings.TrimPrefix(fmt.Sprintf("%T", s), "*gjkr."), "*result."))
		nx, err := s.Next()
		if err != nil {
			panic(err)
		}
		s = nx
	}
	return
}

// ---- driving -------------------------------------------------------------------

// waitFor blocks until pred holds (under r.mu); false on timeout.
func (r *run) waitFor(pred func() bool) bool {
	deadline := time.Now().Add(waitTimeout)
	timer := time.AfterFunc(waitTimeout, func() { r.mu.Lock(); r.cond.Broadcast(); r.mu.Unlock() })
	defer timer.Stop()
	for !pred() {
		if time.Now().After(deadline) {
			r.hang = true
			return false
		}
		r.cond.Wait()
	}
	return true
}

// settle waits (r.mu held) until the machine is quiescent; in det mode it fires a reached end
// block only after the current state consumed every buffered message.
func (r *run) settle() bool {
	for {
		if !r.waitFor(func() bool { return r.st != stRunning }) {
			return false
		}
		if r.st != stLoop {
			return true
		}
		if !r.waitFor(func() bool { return r.received == r.enqueued }) {
			return false
		}
		if r.height >= r.loopH {
			r.st = stRunning
			r.loopCh <- r.loopH // A-bc: yields the requested height
			continue
		}
		return true
	}
}

func (r *run) setHeight(h uint64) {
	if h > r.height {
		r.height = h
	}
	if r.st == stWaiting && r.height >= r.waitH {
		r.st = stRunning
		close(r.waitCh)
	}
	if r.eager && r.st == stLoop && r.height >= r.loopH {
		r.st = stRunning
		r.loopCh <- r.loopH
	}
}

func (r *run) release() {
	if r.st == stInitiating {
		r.st = stRunning
		close(r.gate)
	}
}

func (r *run) deliver(id int) {
	n := 0
	cur := len(r.recs) - 1
	for _, h := range r.handlers {
		if h.ctx.Err() == nil {
			r.enqState[id] = cur
			r.enqueued++
			n++
			r.mu.Unlock()
			h.fn(&toyMsg{id})
			r.mu.Lock()
		}
	}
	if n == 0 {
		r.dropped = append(r.dropped, id)
	}
}

func parseChain(s string) ([]spec, bool) {
	var out []spec
	for _, t := range strings.Split(s, ",") {
		var sp spec
		for strings.HasSuffix(t, "g") || strings.HasSuffix(t, "e") || strings.HasSuffix(t, "n") {
			switch t[len(t)-1] {
			case 'g':
				sp.g = true
			case 'e':
				sp.e = true
			case 'n':
				sp.n = true
			}
			t = t[:len(t)-1]
		}
		p := strings.Split(t, ".")
		if len(p) != 2 {
			return nil, false
		}
		d, e1 := strconv.ParseUint(p[0], 10, 32)
		a, e2 := strconv.ParseUint(p[1], 10, 32)
		if e1 != nil || e2 != nil {
			return nil, false
		}
		sp.d, sp.a = d, a
		out = append(out, sp)
	}
	return out, len(out) > 0
}

func exec(op string) (string, string) {
	f := strings.Fields(op)
	if len(f) == 4 && f[0] == "dkg" {
		return execDKG(f)
	}
	if len(f) != 6 || f[0] != "sync" {
		return "bad-op", "bad"
	}
	h0, e1 := strconv.ParseUint(f[2], 10, 32)
	start, e2 := strconv.ParseUint(f[3], 10, 32)
	if e1 != nil || e2 != nil || (f[4] != "det" && f[4] != "race") {
		return "bad-op", "bad"
	}
	r := &run{height: h0, eager: f[4] == "race", enqState: map[int]int{}}
	r.cond = sync.NewCond(&r.mu)
	var initial state.SyncState
	tags := map[string]bool{f[4]: true}
	switch f[1] {
	case "gjkr":
		initial = &toyState{r: r, inner: gjkrInitial()}
		tags["gjkr"] = true
	case "result":
		initial = &toyState{r: r, inner: resultInitial()}
		tags["result"] = true
	default:
		specs, ok := parseChain(f[1])
		if !ok {
			return "bad-op", "bad"
		}
		initial = &toyState{r: r, specs: specs}
		tags["toy"] = true
		for _, sp := range specs {
			if sp.d == 0 && sp.a == 0 {
				tags["silent"] = true
			}
			if sp.g {
				tags["gated"] = true
			}
		}
	}
	type evT struct {
		kind byte
		v    uint64
	}
	var evs []evT
	for _, t := range hx.SplitList(f[5]) {
		if t == "r" {
			evs = append(evs, evT{'r', 0})
			continue
		}
		if len(t) < 2 || (t[0] != 'b' && t[0] != 'm') {
			return "bad-op", "bad"
		}
		v, err := strconv.ParseUint(t[1:], 10, 32)
		if err != nil {
			return "bad-op", "bad"
		}
		evs = append(evs, evT{t[0], v})
	}

	sm := state.NewSyncMachine(logger, r, r, initial)
	type resT struct {
		st  state.SyncState
		end uint64
		err error
	}
	var res resT
	go func() {
		st, end, err := sm.Execute(start)
		r.mu.Lock()
		res = resT{st, end, err}
		r.st = stDone
		r.cond.Broadcast()
		r.mu.Unlock()
	}()

	r.mu.Lock()
	defer r.mu.Unlock()
	ok := r.settle()
	for _, ev := range evs {
		if !ok {
			break
		}
		switch ev.kind {
		case 'b':
			prev := r.height
			r.setHeight(ev.v)
			if r.height > prev+1 {
				tags["jump"] = true
			}
		case 'm':
			if r.st == stWaiting || r.st == stInitiating {
				tags["buffered"] = true
			}
			r.deliver(int(ev.v))
		case 'r':
			r.release()
		}
		ok = r.settle()
	}
	for i := 0; ok && r.st != stDone && i < 10000; i++ {
		switch r.st {
		case stInitiating:
			r.release()
		case stWaiting:
			r.setHeight(r.waitH)
		case stLoop:
			r.setHeight(r.loopH)
		}
		ok = r.settle()
	}
	if !ok || r.st != stDone {
		return "HANG", "hang"
	}

	var sts []string
	var qs []string
	for k, rc := range r.recs {
		ini := "-"
		if rc.initH >= 0 {
			ini = strconv.FormatInt(rc.initH, 10)
		}
		live, canc := 0, 0
		if rc.liveInit {
			live = 1
		}
		if rc.ctx != nil && rc.ctx.Err() != nil {
			canc = 1
		}
		sts = append(sts, fmt.Sprintf("%d/E%d/I%s/M%s/C%d%d", k, rc.entryH, ini, hx.JoinInts(rc.msgs), live, canc))
		for _, q := range rc.enq {
			qs = append(qs, fmt.Sprintf("%d:%d", k, q))
			if q != k {
				tags["crossed"] = true
			}
		}
		if len(rc.msgs) > 0 {
			tags["msgs"] = true
		}
	}
	resS := ""
	switch {
	case res.err == nil:
		k := -1
		if ts, isToy := res.st.(*toyState); isToy {
			k = ts.k
		}
		resS = fmt.Sprintf("final:%d", k)
		tags["final"] = true
	case strings.Contains(res.err.Error(), "failed to initiate new state"):
		resS = "err:initiate"
		tags["initerr"] = true
	case strings.Contains(res.err.Error(), "failed to complete state"):
		resS = "err:next"
		tags["nexterr"] = true
	default:
		resS = "err:other"
	}
	obs := fmt.Sprintf("st=%s bc=%s end=%d res=%s drop=%s left=%d",
		strings.Join(sts, ";"), hx.JoinStrs(r.calls), res.end, resS, hx.JoinInts(r.dropped), r.enqueued-r.received)
	if r.eager {
		obs += " q=" + hx.JoinStrs(qs)
	}
	var tl []string
	for _, t := range []string{"det", "race", "toy", "gjkr", "result", "silent", "gated", "jump", "buffered", "msgs", "crossed", "final", "initerr", "nexterr"} {
		if tags[t] {
			tl = append(tl, t)
		}
	}
	return obs, strings.Join(tl, "+")
}

// ---- generation ------------------------------------------------------------------

func genEvents(r *hx.Rng, h0, start uint64, total uint64, n int) string {
	var evs []string
	h := h0
	id := 1
	for i := 0; i < n; i++ {
		switch r.Intn(10) {
		case 0, 1, 2, 3: // next block
			h++
			evs = append(evs, fmt.Sprintf("b%d", h))
		case 4: // late blocks: jump
			h += uint64(r.Range(2, 6))
			evs = append(evs, fmt.Sprintf("b%d", h))
		case 5: // stale / duplicate block
			if h > 0 {
				evs = append(evs, fmt.Sprintf("b%d", h-uint64(r.Intn(2))))
			}
		case 6, 7, 8: // message (sometimes a burst)
			for j := r.Range(1, 3); j > 0; j-- {
				evs = append(evs, fmt.Sprintf("m%d", id))
				id++
			}
		default:
			evs = append(evs, "r")
		}
	}
	if r.Chance(1, 6) { // message after everything finished
		evs = append(evs, fmt.Sprintf("b%d", start+total+uint64(r.Intn(3))), fmt.Sprintf("m%d", id))
	}
	return hx.JoinStrs(evs)
}

func gen(r *hx.Rng, n int, tier string) []string {
	// the caller chaining both machines: one full ExecuteDKG run with a member that learns late
	// about the GJKR end block (thorough: more variants)
	// (quick: the corpus case `dkg 3 2 1` only; thorough: more variants)
	var ops []string
	if tier == "thorough" {
		ops = append(ops, "dkg 3 0 0", fmt.Sprintf("dkg 3 %d %d", r.Range(1, 3), r.Range(1, 2)),
			fmt.Sprintf("dkg 4 %d %d", r.Range(1, 4), r.Range(1, 3)))
	}
	for i := 0; i < n; i++ {
		mode := "det"
		if r.Chance(1, 4) {
			mode = "race"
		}
		h0 := uint64(r.Range(0, 6))
		start := uint64(r.Range(0, 9))
		var chain string
		var total uint64
		switch r.Intn(8) {
		case 0:
			chain = "gjkr"
			total = gjkr.ProtocolBlocks()
		case 1:
			chain = "result"
			total = result.PrePublicationBlocks()
		default:
			k := r.Range(1, 6)
			var ss []string
			for j := 0; j < k; j++ {
				d, a := uint64(r.Intn(3)), uint64(r.Intn(5))
				if r.Chance(1, 4) {
					d, a = 0, 0
				}
				s := fmt.Sprintf("%d.%d", d, a)
				if r.Chance(1, 5) {
					s += "g"
				}
				if r.Chance(1, 25) {
					s += "e"
				}
				if r.Chance(1, 25) {
					s += "n"
				}
				total += d + a
				ss = append(ss, s)
			}
			chain = strings.Join(ss, ",")
		}
		nev := r.Range(0, int(total)+8)
		if nev > 90 {
			nev = 90
		}
		ops = append(ops, fmt.Sprintf("sync %s %d %d %s %s", chain, h0, start, mode, genEvents(r, h0, start, total, nev)))
	}
	return ops
}

func natlist(xs []uint64) string { return hx.JoinInts(xs) }

func main() {
	hx.Main(&hx.Config{
		Prop: "C14",
		Gen:  gen,
		Exec: exec,
		Facts: func() []string {
			gd, ga, gn := walk(gjkrInitial())
			rd, ra, rn := walk(resultInitial())
			return []string{
				"natlist gjkrDelays " + natlist(gd),
				"natlist gjkrActives " + natlist(ga),
				"strlist gjkrStates " + strings.Join(gn, ","),
				fmt.Sprintf("nat gjkrProtocolBlocks %d", gjkr.ProtocolBlocks()),
				"natlist resultDelays " + natlist(rd),
				"natlist resultActives " + natlist(ra),
				"strlist resultStates " + strings.Join(rn, ","),
				fmt.Sprintf("nat resultPrePublicationBlocks %d", result.PrePublicationBlocks()),
				fmt.Sprintf("nat silentStateDelayBlocks %d", uint64(state.SilentStateDelayBlocks)),
				fmt.Sprintf("nat silentStateActiveBlocks %d", uint64(state.SilentStateActiveBlocks)),
			}
		},
	})
}
