// The caller that chains the two block-synchronized machines: pkg/beacon/dkg ExecuteDKG
// (gjkr.Execute, then result.Publish started at the block the GJKR machine ENDED at).
//
// Op line:  dkg <n> <slow> <late>
//
//	A full run of the REAL ExecuteDKG for every member of an n-group on the local chain and the
//	local network (one operator key holds every seat, as in the repository's own DKG tests).
//	Every member has its own recording block counter on top of one shared time-driven counter.
//	Member <slow> (0 = nobody) is notified <late> blocks late about the block at which the GJKR
//	machine ends — the waiter still yields the requested height (A-bc).
//
// Obs line: m<i>=<the first block counter calls of member i, W<h>/A<h> with h relative to the
// start block, up to the WaitForBlockHeight of the last publication state>;…
// All members started at the same block must issue the same, nominal, calls.
package main

import (
	"crypto/rand"
	"fmt"
	"math"
	"math/big"
	"strings"
	"sync"
	"time"

	"keepverif/harness/hx"

	beaconchain "github.com/keep-network/keep-core/pkg/beacon/chain"
	"github.com/keep-network/keep-core/pkg/beacon/dkg"
	"github.com/keep-network/keep-core/pkg/beacon/dkg/result"
	"github.com/keep-network/keep-core/pkg/beacon/gjkr"
	"github.com/keep-network/keep-core/pkg/chain"
	"github.com/keep-network/keep-core/pkg/chain/local_v1"
	netlocal "github.com/keep-network/keep-core/pkg/net/local"
	"github.com/keep-network/keep-core/pkg/operator"
	"github.com/keep-network/keep-core/pkg/protocol/group"
)

const dkgBlockTime = 150 * time.Millisecond

// recCounter records every height a member asks for; for the slow member the first
// notification about `slowBlock` arrives `late` blocks late.
type recCounter struct {
	chain.BlockCounter
	slowBlock uint64
	late      uint64

	mu      sync.Mutex
	delayed bool
	calls   []string
	start   uint64
}

func (c *recCounter) rec(kind string, h uint64) bool {
	c.mu.Lock()
	defer c.mu.Unlock()
	c.calls = append(c.calls, fmt.Sprintf("%s%d", kind, int64(h)-int64(c.start)))
	if c.late > 0 && h == c.slowBlock && !c.delayed {
		c.delayed = true
		return true
	}
	return false
}

func (c *recCounter) waiter(h uint64, delay bool) (<-chan uint64, error) {
	if !delay {
		return c.BlockCounter.BlockHeightWaiter(h)
	}
	lateW, err := c.BlockCounter.BlockHeightWaiter(h + c.late)
	if err != nil {
		return nil, err
	}
	w := make(chan uint64, 1)
	go func() {
		<-lateW
		w <- h // A-bc: the requested height
	}()
	return w, nil
}

func (c *recCounter) BlockHeightWaiter(h uint64) (<-chan uint64, error) {
	return c.waiter(h, c.rec("A", h))
}

func (c *recCounter) WaitForBlockHeight(h uint64) error {
	w, err := c.waiter(h, c.rec("W", h))
	if err != nil {
		return err
	}
	<-w
	return nil
}

type memberChain struct {
	beaconchain.Interface
	bc chain.BlockCounter
}

func (m *memberChain) BlockCounter() (chain.BlockCounter, error) { return m.bc, nil }

// callsCompared: Execute's start wait + 2 per GJKR state, Publish's start wait + 2 per result
// state except the BlockHeightWaiter of the last one (result submission interleaves its own,
// member specific, waits there).
func callsCompared() int {
	gd, _, _ := walk(gjkrInitial())
	rd, _, _ := walk(resultInitial())
	return 1 + 2*len(gd) + 1 + 2*len(rd) - 1
}

func execDKG(f []string) (string, string) {
	n, slow, late := hx.Atoi(f[1]), hx.Atoi(f[2]), hx.Atoi(f[3])
	if n < 2 || n > 5 || slow < 0 || slow > n || late < 0 || late > 4 {
		return "bad-op", "bad"
	}
	seed, err := rand.Int(rand.Reader, big.NewInt(math.MaxInt64))
	if err != nil {
		panic(err)
	}
	chainKey, pub, err := operator.GenerateKeyPair(local_v1.DefaultCurve)
	if err != nil {
		panic(err)
	}
	honest := n/2 + 1
	localChain := local_v1.ConnectWithKey(n, honest, chainKey)
	addr, err := localChain.Signing().PublicKeyToAddress(pub)
	if err != nil {
		panic(err)
	}
	selected := make([]chain.Address, n)
	for i := range selected {
		selected[i] = addr
	}
	channel, err := netlocal.ConnectWithKey(pub).BroadcastChannelFor(fmt.Sprintf("verif-c14-%v", seed))
	if err != nil {
		panic(err)
	}
	base, err := local_v1.BlockCounter(dkgBlockTime)
	if err != nil {
		panic(err)
	}
	cur, _ := base.CurrentBlock()
	start := cur + 3
	validator := group.NewMembershipValidator(logger, selected, localChain.Signing())
	counters := make([]*recCounter, n)
	errs := make([]error, n)
	var wg sync.WaitGroup
	for i := 1; i <= n; i++ {
		rc := &recCounter{BlockCounter: base, start: start, slowBlock: start + gjkr.ProtocolBlocks()}
		if i == slow {
			rc.late = uint64(late)
		}
		counters[i-1] = rc
		wg.Add(1)
		go func(i int) {
			defer wg.Done()
			defer func() {
				if e := recover(); e != nil {
					errs[i-1] = fmt.Errorf("PANIC %v", e)
				}
			}()
			_, errs[i-1] = dkg.ExecuteDKG(logger, seed, group.MemberIndex(i), start,
				&memberChain{Interface: localChain, bc: rc}, channel, validator, selected)
		}(i)
	}
	wg.Wait()
	k := callsCompared()
	var parts []string
	for i, rc := range counters {
		rc.mu.Lock()
		calls := rc.calls
		if len(calls) > k {
			calls = calls[:k]
		}
		parts = append(parts, fmt.Sprintf("m%d=%s", i+1, hx.JoinStrs(calls)))
		rc.mu.Unlock()
	}
	tag := "dkg"
	if slow > 0 && late > 0 {
		tag += "+dkgslow"
	}
	_ = result.PrePublicationBlocks
	return strings.Join(parts, ";"), tag
}
