// C10: attempt member selection — every member derives the same participants.
//
// Op lines (one complete case per line):
//
//	ssel <ops> <thr> <msg> <attempt> <ready> <stream1> <stream2>   signingRetryLoop.performMembersSelection
//	dsel <ops> <quorum> <seed> <attempt> <ready> <stream>          dkgRetryLoop.performMembersSelection
//
// <ops>    operator id of member 1..n (comma list; id k is the address 0x%040x of k)
// <ready>  ready member indexes in the order the announcer reported them
// <msg>/<seed> decimal big integer (the loop derives its int64 attempt seed from sha256 of it)
// <streamN> '.'-separated raw Uint32 outputs of the REAL math/rand source seeded like the code does
// (ssel: stream1 = attemptSeed+attempt-1 for the operator shuffle, stream2 = attemptSeed+attempt for the
// surplus trimming; dsel: attemptSeed).  Exec ignores the streams.
//
// Obs: `ok <excluded member indexes>` | `err` | `panic` | `order-dependent` | `member-dependent`.
// Exec calls the selection as member 1 with the given order and then again as other members with
// the ready list reversed, sorted and rotated: any difference is an observation of its own.
package main

import (
	"fmt"
	"math/big"
	"math/rand"
	"sort"
	"strconv"
	"strings"

	"keepverif/harness/hx"

	"github.com/keep-network/keep-core/pkg/chain"
	"github.com/keep-network/keep-core/pkg/protocol/group"
	"github.com/keep-network/keep-core/pkg/tbtc"
)

func addr(id int) chain.Address { return chain.Address(fmt.Sprintf("0x%040x", id)) }

func stream(seed int64, n int) string {
	r := rand.New(rand.NewSource(seed))
	ss := make([]string, n)
	for i := range ss {
		ss[i] = strconv.FormatUint(uint64(r.Uint32()), 10)
	}
	if n == 0 {
		return "-"
	}
	return strings.Join(ss, ".")
}

func distinct(xs []int) int {
	m := map[int]bool{}
	for _, s := range xs {
		m[s] = true
	}
	return len(m)
}

func keygenStreamLen(m int) int {
	l := m
	if c := m * (m - 1) / 2; c > l {
		l = c
	}
	if c := m * (m - 1) * (m - 2) / 6; c > l {
		l = c
	}
	return l + 8
}

type selFn func(member group.MemberIndex, ready []group.MemberIndex) ([]group.MemberIndex, int64, error)

func signingFn(ops []int, thr int, msg *big.Int, attempt int) selFn {
	return func(member group.MemberIndex, ready []group.MemberIndex) ([]group.MemberIndex, int64, error) {
		as := make(chain.Addresses, len(ops))
		for i, o := range ops {
			as[i] = addr(o)
		}
		return tbtc.VerifC10SigningSelection(msg, member, as,
			&tbtc.GroupParameters{GroupSize: len(ops), GroupQuorum: len(ops), HonestThreshold: thr},
			uint(attempt), ready)
	}
}

func dkgFn(ops []int, quorum int, seed *big.Int, attempt int) selFn {
	return func(member group.MemberIndex, ready []group.MemberIndex) ([]group.MemberIndex, int64, error) {
		as := make(chain.Addresses, len(ops))
		for i, o := range ops {
			as[i] = addr(o)
		}
		return tbtc.VerifC10DkgSelection(seed, member, as,
			&tbtc.GroupParameters{GroupSize: len(ops), GroupQuorum: quorum, HonestThreshold: quorum/2 + 1},
			uint(attempt), ready)
	}
}

func attemptSeedOf(fn selFn) int64 {
	defer func() { recover() }()
	_, s, _ := fn(1, nil)
	return s
}

func runOnce(fn selFn, member int, ready []int) (obs string) {
	defer func() {
		if e := recover(); e != nil {
			obs = "panic"
		}
	}()
	rs := make([]group.MemberIndex, len(ready))
	for i, r := range ready {
		rs[i] = group.MemberIndex(r)
	}
	ex, _, err := fn(group.MemberIndex(member), rs)
	for i, r := range ready {
		if rs[i] != group.MemberIndex(r) {
			return "input-mutated"
		}
	}
	if err != nil {
		return "err"
	}
	return "ok " + hx.JoinInts(ex)
}

func runAll(fn selFn, n int, ready []int) string {
	first := runOnce(fn, 1, ready)
	rev := make([]int, len(ready))
	for i, r := range ready {
		rev[len(ready)-1-i] = r
	}
	srt := hx.SortedCopy(ready)
	var rot []int
	if len(ready) > 0 {
		rot = append(append(rot, ready[len(ready)/2:]...), ready[:len(ready)/2]...)
	}
	for i, alt := range [][]int{rev, srt, rot} {
		if o := runOnce(fn, 1, alt); o != first {
			return "order-dependent"
		}
		member := n - i
		if member < 1 {
			member = 1
		}
		if o := runOnce(fn, member, ready); o != first {
			return "member-dependent"
		}
	}
	return first
}

// ---- generator -----------------------------------------------------------

func genOps(r *hx.Rng) []int {
	var n int
	switch r.Intn(10) {
	case 0, 1, 2, 3, 4:
		n = r.Range(1, 7)
	case 5, 6, 7:
		n = r.Range(5, 14)
	default:
		n = r.Range(10, 40)
	}
	var ops []int
	id := r.Intn(5)
	maxSeats := r.Range(1, 4)
	for len(ops) < n {
		s := r.Range(1, maxSeats)
		for j := 0; j < s && len(ops) < n; j++ {
			ops = append(ops, id)
		}
		id += r.Range(1, 3)
	}
	if r.Chance(1, 2) { // interleave seats of different operators
		p := r.Perm(n)
		q := make([]int, n)
		for i, j := range p {
			q[i] = ops[j]
		}
		ops = q
	}
	return ops
}

func genReady(r *hx.Rng, n, need int) []int {
	var size int
	switch r.Intn(8) {
	case 0:
		size = n
	case 1:
		size = need
	case 2:
		size = need - 1
	case 3:
		size = r.Range(0, n)
	default:
		if need <= n {
			size = r.Range(need, n)
		} else {
			size = n
		}
	}
	if size < 0 {
		size = 0
	}
	if size > n {
		size = n
	}
	p := r.Perm(n)
	ready := make([]int, size)
	for i := range ready {
		ready[i] = p[i] + 1
	}
	if r.Chance(1, 3) {
		sort.Ints(ready)
	}
	if r.Chance(1, 40) && size > 0 { // malformed: duplicate / out of range member index
		switch r.Intn(3) {
		case 0:
			ready = append(ready, ready[0])
		case 1:
			ready[r.Intn(size)] = n + 1
		default:
			ready[r.Intn(size)] = 0
		}
	}
	return ready
}

func genBig(r *hx.Rng) *big.Int {
	switch r.Intn(4) {
	case 0:
		return big.NewInt(int64(r.Intn(5)))
	default:
		return new(big.Int).SetBytes(r.Bytes(r.Range(1, 32)))
	}
}

func gen(r *hx.Rng, n int, tier string) []string {
	var out []string
	for i := 0; i < n; i++ {
		ops := genOps(r)
		nm := len(ops)
		m := distinct(ops)
		msg := genBig(r)
		if r.Chance(1, 2) {
			thr := nm/2 + 1
			if r.Chance(1, 3) {
				thr = r.Range(1, nm)
			}
			if r.Chance(1, 30) {
				thr = r.Range(0, nm+1)
			}
			attempt := r.Range(1, 20)
			ready := genReady(r, nm, thr)
			seed := attemptSeedOf(signingFn(ops, thr, msg, attempt))
			out = append(out, fmt.Sprintf("ssel %s %d %s %d %s %s %s", hx.JoinInts(ops), thr, msg, attempt,
				hx.JoinInts(ready), stream(seed+int64(attempt)-1, m+8), stream(seed+int64(attempt), nm+8)))
		} else {
			quorum := r.Range(nm/2, nm*3/4)
			if r.Chance(1, 4) {
				quorum = nm - nm/10
			}
			if r.Chance(1, 4) {
				quorum = r.Range((nm+1)/2, nm)
			}
			if r.Chance(1, 30) {
				quorum = r.Range(0, nm+1)
			}
			total := m + m*(m-1)/2 + m*(m-1)*(m-2)/6
			var attempt int
			switch r.Intn(6) {
			case 0:
				attempt = 1
			case 1:
				attempt = r.Range(1, total+3)
			default:
				attempt = r.Range(1, m+1)
			}
			if r.Chance(1, 5) {
				// tight layouts deep in the retry history: pair and triplet stages with a quorum
				// that only some pairs/triplets leave intact (e.g. 5 operators x 2 seats, quorum 6)
				mm, ss := r.Range(3, 6), r.Range(1, 3)
				ops = ops[:0]
				for o := 0; o < mm; o++ {
					for j := 0; j < ss+(o%2)*r.Intn(2); j++ {
						ops = append(ops, o)
					}
				}
				nm, m = len(ops), mm
				total = m + m*(m-1)/2 + m*(m-1)*(m-2)/6
				quorum = nm - r.Range(2*ss, 3*ss+1)
				if quorum < 1 {
					quorum = 1
				}
				attempt = r.Range(2+m, total+2)
				if r.Chance(1, 2) { // triplet stage
					attempt = r.Range(2+m+m*(m-1)/2, total+1)
				}
				all := make([]int, nm)
				for i, j := range r.Perm(nm) {
					all[i] = j + 1
				}
				seed := attemptSeedOf(dkgFn(ops, quorum, msg, attempt))
				out = append(out, fmt.Sprintf("dsel %s %d %s %d %s %s", hx.JoinInts(ops), quorum, msg, attempt,
					hx.JoinInts(all), stream(seed, keygenStreamLen(m))))
				continue
			}
			ready := genReady(r, nm, quorum)
			if r.Chance(1, 2) { // everybody (or nearly) announced readiness
				ready = genReady(r, nm, nm-r.Intn(2))
			}
			seed := attemptSeedOf(dkgFn(ops, quorum, msg, attempt))
			out = append(out, fmt.Sprintf("dsel %s %d %s %d %s %s", hx.JoinInts(ops), quorum, msg, attempt,
				hx.JoinInts(ready), stream(seed, keygenStreamLen(m))))
		}
	}
	return out
}

// ---- exec ------------------------------------------------------------------

// number of operators that have ready members but none of them included
func droppedOperators(ops, ready []int, obs string) int {
	if !strings.HasPrefix(obs, "ok ") {
		return -1
	}
	ex := map[int]bool{}
	for _, e := range hx.ParseInts(obs[3:]) {
		ex[e] = true
	}
	hasReady, hasIncl := map[int]bool{}, map[int]bool{}
	for _, m := range ready {
		if m >= 1 && m <= len(ops) {
			hasReady[ops[m-1]] = true
			if !ex[m] {
				hasIncl[ops[m-1]] = true
			}
		}
	}
	return len(hasReady) - len(hasIncl)
}

func exec(op string) (string, string) {
	f := strings.Fields(op)
	switch {
	case len(f) == 8 && f[0] == "ssel":
		ops := hx.ParseInts(f[1])
		thr := hx.Atoi(f[2])
		msg, ok := new(big.Int).SetString(f[3], 10)
		if !ok {
			return "bad-op", "bad"
		}
		ready := hx.ParseInts(f[5])
		obs := runAll(signingFn(ops, thr, msg, hx.Atoi(f[4])), len(ops), ready)
		tag := "ssel"
		switch {
		case obs == "err":
			tag = "ssel-err"
		case obs == "panic":
			tag = "ssel-panic"
		case strings.HasPrefix(obs, "ok"):
			if d := droppedOperators(ops, ready, obs); d > 0 {
				tag += "+opdrop"
			}
			if distinct(ops) < len(ops) {
				tag += "+multiseat"
			}
		}
		return obs, tag
	case len(f) == 7 && f[0] == "dsel":
		ops := hx.ParseInts(f[1])
		quorum := hx.Atoi(f[2])
		seed, ok := new(big.Int).SetString(f[3], 10)
		if !ok {
			return "bad-op", "bad"
		}
		attempt := hx.Atoi(f[4])
		ready := hx.ParseInts(f[5])
		obs := runAll(dkgFn(ops, quorum, seed, attempt), len(ops), ready)
		tag := "dsel"
		switch {
		case obs == "err":
			tag = "dsel-err"
		case obs == "panic":
			tag = "dsel-panic"
		case strings.HasPrefix(obs, "ok"):
			if attempt == 1 {
				tag = "dsel-first"
			} else {
				tag = fmt.Sprintf("dsel-drop%d", droppedOperators(ops, ready, obs))
			}
			if distinct(ops) < len(ops) {
				tag += "+multiseat"
			}
		}
		return obs, tag
	}
	return "bad-op", "bad"
}

func main() {
	hx.Main(&hx.Config{Prop: "C10", Gen: gen, Exec: exec})
}
