// C25: a wallet never runs two actions at the same time.
//
// Op lines (one complete scenario each; wallets 0..5 have secp256k1 keys, wallet 9 a P-256 key
// that marshalPublicKey rejects):
//
//	seq <steps>      steps = comma list, executed one after the other on one dispatcher:
//	    d<w>:<t>   dispatch an action of type t for wallet w            -> ok | busy | err
//	    s<w>       wait until the dispatched action of w entered execute() -> started | none
//	    e<w>:<o>   let the running action of w return (o=1: with an error) and wait until the
//	               wallet has been released                               -> end | none
//	    obs: <results> busy=<wallets still in the actions map> maxconc=<max concurrent execute() per wallet>
//	conc <rounds>    rounds = `/` list of  w:n,w:n,...;r,r,...   (`-` for none)
//	    in one round n goroutines dispatch concurrently for each listed wallet w (all wallets at the
//	    same time, started by a barrier); actions block until released; after every dispatch of the
//	    round returned, the wallets r are released.
//	    obs: per round w:<ok>:<busy>,... joined by `/`, then maxconc=<m>
//	storm <seed> <nw> <ng> <nops>
//	    ng goroutines x nops dispatches for random wallets < nw; actions end by themselves after
//	    0-3 yields (every third with an error). Not predicted by the model (schedule dependent).
//	    obs: maxconc=<m> ok=<a> exec=<b> busy=<c> total=<d> wallets=<distinct wallets dispatched>
package main

import (
	"crypto/ecdsa"
	"crypto/elliptic"
	"errors"
	"fmt"
	"math/big"
	"runtime"
	"sort"
	"strings"
	"sync"
	"sync/atomic"
	"time"

	"keepverif/harness/hx"

	"github.com/keep-network/keep-core/pkg/tbtc"
	"github.com/keep-network/keep-core/pkg/tecdsa"
)

const nWallets = 6
const badWallet = 9

var (
	keys     [nWallets]*ecdsa.PublicKey
	badKey   *ecdsa.PublicKey
	keyHex   = map[string]int{}
	initOnce sync.Once
)

func setup() {
	for i := range keys {
		x, y := tecdsa.Curve.ScalarBaseMult(big.NewInt(int64(11 + i)).Bytes())
		keys[i] = &ecdsa.PublicKey{Curve: tecdsa.Curve, X: x, Y: y}
		keyHex[fmt.Sprintf("%x", elliptic.Marshal(tecdsa.Curve, x, y))] = i
	}
	x, y := elliptic.P256().ScalarBaseMult([]byte{7})
	badKey = &ecdsa.PublicKey{Curve: elliptic.P256(), X: x, Y: y}
}

func keyOf(w int) *ecdsa.PublicKey {
	if w == badWallet {
		return badKey
	}
	return keys[w]
}

// world tracks what the scripted actions observe.
type world struct {
	d       *tbtc.VerifC25Dispatcher
	mu      sync.Mutex
	running [nWallets][]*action // actions dispatched ok and not yet told to end
	conc    [nWallets]int32
	maxconc int32
	execs   int32
}

type action struct {
	w       int
	started chan struct{}
	release chan error
}

func (wd *world) enter(w int) {
	c := atomic.AddInt32(&wd.conc[w], 1)
	for {
		m := atomic.LoadInt32(&wd.maxconc)
		if c <= m || atomic.CompareAndSwapInt32(&wd.maxconc, m, c) {
			break
		}
	}
	atomic.AddInt32(&wd.execs, 1)
}

func (wd *world) leave(w int) { atomic.AddInt32(&wd.conc[w], -1) }

// dispatchBlocking dispatches an action that blocks until released.
func (wd *world) dispatchBlocking(w int, t int) string {
	a := &action{w: w, started: make(chan struct{}), release: make(chan error, 1)}
	err := wd.d.Dispatch(&tbtc.VerifC25Action{
		WalletPublicKey: keyOf(w),
		Type:            tbtc.WalletActionType(t),
		Execute: func() error {
			wd.enter(w)
			close(a.started)
			e := <-a.release
			wd.leave(w)
			return e
		},
	})
	switch {
	case err == nil:
		wd.mu.Lock()
		wd.running[w] = append(wd.running[w], a)
		wd.mu.Unlock()
		return "ok"
	case err == tbtc.VerifC25ErrWalletBusy:
		return "busy"
	default:
		return "err"
	}
}

const waitLimit = 15 * time.Second

func waitFor(cond func() bool) bool {
	deadline := time.Now().Add(waitLimit)
	for !cond() {
		if time.Now().After(deadline) {
			return false
		}
		runtime.Gosched()
		time.Sleep(20 * time.Microsecond)
	}
	return true
}

// walletOfKey maps a key of the dispatcher's map to the wallet whose public key (its X
// coordinate) it was derived from, whatever else the key contains; -1 if none.
func walletOfKey(k string) int {
	if w, ok := keyHex[k]; ok {
		return w
	}
	for w := range keys {
		if strings.Contains(k, fmt.Sprintf("%064x", keys[w].X)) {
			return w
		}
	}
	return -1
}

func (wd *world) isBusy(w int) bool {
	for _, k := range wd.d.BusyKeys() {
		if walletOfKey(k) == w {
			return true
		}
	}
	return false
}

// end lets the oldest running action of w return and waits for the wallet's release.
func (wd *world) end(w int, outcome error) string {
	wd.mu.Lock()
	if w < 0 || w >= nWallets || len(wd.running[w]) == 0 {
		wd.mu.Unlock()
		return "none"
	}
	a := wd.running[w][0]
	wd.running[w] = wd.running[w][1:]
	more := len(wd.running[w]) > 0
	wd.mu.Unlock()
	a.release <- outcome
	if !more && !waitFor(func() bool { return !wd.isBusy(w) }) {
		return "stuck"
	}
	return "end"
}

func (wd *world) cleanup() {
	for w := 0; w < nWallets; w++ {
		for wd.end(w, nil) == "end" {
		}
	}
	waitFor(func() bool { return len(wd.d.BusyKeys()) == 0 })
}

// settle waits until every action that was dispatched and not yet ended has entered execute(),
// so that maxconc no longer depends on goroutine start-up timing.
func (wd *world) settle() {
	wd.mu.Lock()
	var as []*action
	for w := range wd.running {
		as = append(as, wd.running[w]...)
	}
	wd.mu.Unlock()
	for _, a := range as {
		select {
		case <-a.started:
		case <-time.After(waitLimit):
		}
	}
}

func (wd *world) busyList() string {
	var ws []int
	for _, k := range wd.d.BusyKeys() {
		if w := walletOfKey(k); w >= 0 {
			ws = append(ws, w)
		} else {
			ws = append(ws, 99)
		}
	}
	sort.Ints(ws)
	return hx.JoinInts(ws)
}

func newWorld() *world {
	initOnce.Do(setup)
	return &world{d: tbtc.VerifC25NewDispatcher()}
}

func validWallet(w int) bool { return (w >= 0 && w < nWallets) || w == badWallet }

func execSeq(arg string) (string, string) {
	wd := newWorld()
	defer wd.cleanup()
	var res []string
	tags := map[string]bool{}
	for _, st := range hx.SplitList(arg) {
		if len(st) < 2 {
			return "bad-op", "bad"
		}
		p := strings.Split(st[1:], ":")
		w := hx.Atoi(p[0])
		if !validWallet(w) {
			return "bad-op", "bad"
		}
		switch st[0] {
		case 'd':
			if len(p) != 2 {
				return "bad-op", "bad"
			}
			r := wd.dispatchBlocking(w, hx.Atoi(p[1]))
			tags[r] = true
			res = append(res, r)
		case 's':
			wd.mu.Lock()
			var a *action
			if w < nWallets && len(wd.running[w]) > 0 {
				a = wd.running[w][0]
			}
			wd.mu.Unlock()
			if a == nil {
				res = append(res, "none")
				break
			}
			select {
			case <-a.started:
				res = append(res, "started")
			case <-time.After(waitLimit):
				res = append(res, "stuck")
			}
		case 'e':
			if len(p) != 2 {
				return "bad-op", "bad"
			}
			var out error
			if p[1] == "1" {
				out = errors.New("scripted failure")
				tags["failing"] = true
			}
			r := "none"
			if w < nWallets {
				r = wd.end(w, out)
			}
			if r == "end" {
				tags["end"] = true
			}
			res = append(res, r)
		default:
			return "bad-op", "bad"
		}
	}
	wd.settle()
	obs := fmt.Sprintf("%s busy=%s maxconc=%d", hx.JoinStrs(res), wd.busyList(), atomic.LoadInt32(&wd.maxconc))
	t := []string{"seq"}
	for _, k := range []string{"ok", "busy", "err", "end", "failing"} {
		if tags[k] {
			t = append(t, k)
		}
	}
	return obs, strings.Join(t, "+")
}

func execConc(arg string) (string, string) {
	wd := newWorld()
	defer wd.cleanup()
	var rounds []string
	sawBusyAcross, sawMulti := false, false
	for _, rd := range strings.Split(arg, "/") {
		parts := strings.Split(rd, ";")
		if len(parts) != 2 {
			return "bad-op", "bad"
		}
		type wn struct{ w, n int }
		var plan []wn
		for _, e := range hx.SplitList(parts[0]) {
			q := strings.Split(e, ":")
			if len(q) != 2 {
				return "bad-op", "bad"
			}
			w, n := hx.Atoi(q[0]), hx.Atoi(q[1])
			if w < 0 || w >= nWallets || n < 1 || n > 32 {
				return "bad-op", "bad"
			}
			plan = append(plan, wn{w, n})
		}
		if len(plan) > 1 {
			sawMulti = true
		}
		oks := make([]int32, len(plan))
		busys := make([]int32, len(plan))
		start := make(chan struct{})
		var wg sync.WaitGroup
		for i, e := range plan {
			for g := 0; g < e.n; g++ {
				wg.Add(1)
				go func(i, w, g int) {
					defer wg.Done()
					<-start
					switch wd.dispatchBlocking(w, 1+(g%5)) {
					case "ok":
						atomic.AddInt32(&oks[i], 1)
					case "busy":
						atomic.AddInt32(&busys[i], 1)
					}
				}(i, e.w, g)
			}
		}
		close(start)
		wg.Wait()
		var rs []string
		for i, e := range plan {
			if oks[i] == 0 {
				sawBusyAcross = true
			}
			rs = append(rs, fmt.Sprintf("%d:%d:%d", e.w, oks[i], busys[i]))
		}
		rounds = append(rounds, hx.JoinStrs(rs))
		for _, r := range hx.ParseInts(parts[1]) {
			if r < 0 || r >= nWallets {
				return "bad-op", "bad"
			}
			for wd.end(r, nil) == "end" {
			}
		}
	}
	wd.settle()
	tag := "conc"
	if sawMulti {
		tag += "+multiwallet"
	}
	if sawBusyAcross {
		tag += "+heldacross"
	}
	return fmt.Sprintf("%s maxconc=%d", strings.Join(rounds, "/"), atomic.LoadInt32(&wd.maxconc)), tag
}

func execStorm(f []string) (string, string) {
	seed, nw, ng, nops := hx.AtoU64(f[1]), hx.Atoi(f[2]), hx.Atoi(f[3]), hx.Atoi(f[4])
	if nw < 1 || nw > nWallets || ng < 1 || ng > 64 || nops < 1 || nops > 2000 {
		return "bad-op", "bad"
	}
	wd := newWorld()
	var ok, busy, total int32
	var touched [nWallets]int32
	var wg sync.WaitGroup
	start := make(chan struct{})
	for g := 0; g < ng; g++ {
		wg.Add(1)
		go func(g int) {
			defer wg.Done()
			r := hx.NewRng(seed*1000 + uint64(g))
			<-start
			for i := 0; i < nops; i++ {
				w := r.Intn(nw)
				yields := r.Intn(4)
				fail := r.Intn(3) == 0
				atomic.StoreInt32(&touched[w], 1)
				err := wd.d.Dispatch(&tbtc.VerifC25Action{
					WalletPublicKey: keys[w],
					Type:            tbtc.WalletActionType(1 + r.Intn(5)),
					Execute: func() error {
						wd.enter(w)
						for y := 0; y < yields; y++ {
							runtime.Gosched()
						}
						wd.leave(w)
						if fail {
							return errors.New("scripted failure")
						}
						return nil
					},
				})
				atomic.AddInt32(&total, 1)
				if err == nil {
					atomic.AddInt32(&ok, 1)
				} else if err == tbtc.VerifC25ErrWalletBusy {
					atomic.AddInt32(&busy, 1)
				}
				if r.Intn(4) == 0 {
					runtime.Gosched()
				}
			}
		}(g)
	}
	close(start)
	wg.Wait()
	if !waitFor(func() bool { return len(wd.d.BusyKeys()) == 0 }) {
		return "stuck wallets=" + wd.busyList(), "storm"
	}
	nt := 0
	for _, t := range touched {
		nt += int(t)
	}
	return fmt.Sprintf("maxconc=%d ok=%d exec=%d busy=%d total=%d wallets=%d",
		atomic.LoadInt32(&wd.maxconc), ok, atomic.LoadInt32(&wd.execs), busy, total, nt), "storm"
}

func exec(op string) (string, string) {
	initOnce.Do(setup)
	f := strings.Fields(op)
	switch {
	case len(f) == 2 && f[0] == "seq":
		return execSeq(f[1])
	case len(f) == 2 && f[0] == "conc":
		return execConc(f[1])
	case len(f) == 5 && f[0] == "storm":
		return execStorm(f)
	}
	return "bad-op", "bad"
}

func gen(r *hx.Rng, n int, tier string) []string {
	var ops []string
	for i := 0; i < n; i++ {
		switch r.Intn(10) {
		case 0, 1, 2, 3, 4:
			nw := r.Range(1, 4)
			ln := r.Range(1, 14)
			if r.Chance(1, 10) {
				ln = r.Range(14, 60)
			}
			var st []string
			for j := 0; j < ln; j++ {
				w := r.Intn(nw)
				switch r.Intn(10) {
				case 0, 1, 2, 3, 4:
					if r.Chance(1, 25) {
						w = badWallet
					}
					st = append(st, fmt.Sprintf("d%d:%d", w, r.Range(1, 5)))
				case 5:
					st = append(st, fmt.Sprintf("s%d", w))
				default:
					st = append(st, fmt.Sprintf("e%d:%d", w, r.Intn(2)))
				}
			}
			ops = append(ops, "seq "+strings.Join(st, ","))
		case 5, 6, 7, 8:
			nr := r.Range(1, 5)
			var rounds []string
			for k := 0; k < nr; k++ {
				nw := r.Range(1, 4)
				perm := r.Perm(4)
				var es []string
				for _, w := range perm[:nw] {
					es = append(es, fmt.Sprintf("%d:%d", w, r.Range(1, 6)))
				}
				var rel []int
				for w := 0; w < 4; w++ {
					if r.Chance(1, 2) {
						rel = append(rel, w)
					}
				}
				rounds = append(rounds, strings.Join(es, ",")+";"+hx.JoinInts(rel))
			}
			ops = append(ops, "conc "+strings.Join(rounds, "/"))
		default:
			ops = append(ops, fmt.Sprintf("storm %d %d %d %d", r.U64()%100000, r.Range(1, 4), r.Range(2, 8), r.Range(20, 200)))
		}
	}
	return ops
}

func main() {
	hx.Main(&hx.Config{Prop: "C25", Gen: gen, Exec: exec, Facts: lockFacts})
}
