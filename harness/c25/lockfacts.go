package main

// T1 tie for the model's step granularity: lock-set facts of walletDispatcher.dispatch read
// from the source (go/ast) of the tree the harness was built against.

import (
	"fmt"
	"go/ast"
	"go/parser"
	"go/token"
	"os"
	"path/filepath"
)

func isMutexCall(s ast.Stmt, method string, deferred bool) bool {
	var call *ast.CallExpr
	switch x := s.(type) {
	case *ast.ExprStmt:
		if deferred {
			return false
		}
		call, _ = x.X.(*ast.CallExpr)
	case *ast.DeferStmt:
		if !deferred {
			return false
		}
		call = x.Call
	}
	if call == nil {
		return false
	}
	sel, ok := call.Fun.(*ast.SelectorExpr)
	if !ok || sel.Sel.Name != method {
		return false
	}
	inner, ok := sel.X.(*ast.SelectorExpr)
	return ok && inner.Sel.Name == "actionsMutex"
}

func mentionsActions(n ast.Node) bool {
	found := false
	ast.Inspect(n, func(x ast.Node) bool {
		if sel, ok := x.(*ast.SelectorExpr); ok && sel.Sel.Name == "actions" {
			found = true
		}
		return true
	})
	return found
}

func callsExecute(n ast.Node) bool {
	found := false
	ast.Inspect(n, func(x ast.Node) bool {
		if c, ok := x.(*ast.CallExpr); ok {
			if sel, ok := c.Fun.(*ast.SelectorExpr); ok && sel.Sel.Name == "execute" {
				found = true
			}
		}
		return true
	})
	return found
}

func lockFacts() []string {
	repo := os.Getenv("VERIF_REPO")
	if repo == "" {
		repo = "/repo"
	}
	fset := token.NewFileSet()
	file, err := parser.ParseFile(fset, filepath.Join(repo, "pkg/tbtc/wallet.go"), nil, 0)
	if err != nil {
		panic(err)
	}
	facts := map[string]bool{}
	for _, d := range file.Decls {
		fd, ok := d.(*ast.FuncDecl)
		if !ok || fd.Name.Name != "dispatch" || fd.Recv == nil {
			continue
		}
		body := fd.Body.List
		// (1) the whole body of dispatch is one critical section
		facts["dispatchBodyLocked"] = len(body) >= 2 && isMutexCall(body[0], "Lock", false) &&
			isMutexCall(body[1], "Unlock", true)
		// (2) the map is checked and written before the goroutine is spawned, in the body itself
		goIdx, insertIdx, checkIdx := -1, -1, -1
		var lit *ast.FuncLit
		for i, st := range body {
			switch x := st.(type) {
			case *ast.GoStmt:
				goIdx = i
				lit, _ = x.Call.Fun.(*ast.FuncLit)
			case *ast.AssignStmt:
				if len(x.Lhs) == 1 {
					if ix, ok := x.Lhs[0].(*ast.IndexExpr); ok && mentionsActions(ix.X) {
						insertIdx = i
					}
				}
			case *ast.IfStmt:
				if x.Init != nil && mentionsActions(x.Init) {
					checkIdx = i
				}
			}
		}
		facts["checkThenInsertBeforeSpawn"] = checkIdx >= 0 && checkIdx < insertIdx && insertIdx < goIdx
		if lit != nil {
			stmts := lit.Body.List
			// (3) the goroutine's first statement is a deferred func: Lock; delete(actions, key); Unlock
			if len(stmts) > 0 {
				if ds, ok := stmts[0].(*ast.DeferStmt); ok {
					if dl, ok := ds.Call.Fun.(*ast.FuncLit); ok && len(dl.Body.List) == 3 {
						del := false
						if es, ok := dl.Body.List[1].(*ast.ExprStmt); ok {
							if c, ok := es.X.(*ast.CallExpr); ok {
								if id, ok := c.Fun.(*ast.Ident); ok && id.Name == "delete" && mentionsActions(c) {
									del = true
								}
							}
						}
						facts["releaseDeferredUnderLock"] = del &&
							isMutexCall(dl.Body.List[0], "Lock", false) && isMutexCall(dl.Body.List[2], "Unlock", false)
					}
				}
			}
			// (4) outside that defer the goroutine neither touches the map nor the mutex, and
			// it calls execute(): execute runs outside the lock
			clean, exec := true, false
			for _, st := range stmts[1:] {
				if mentionsActions(st) {
					clean = false
				}
				ast.Inspect(st, func(x ast.Node) bool {
					if sel, ok := x.(*ast.SelectorExpr); ok && sel.Sel.Name == "actionsMutex" {
						clean = false
					}
					return true
				})
				if callsExecute(st) {
					exec = true
				}
			}
			facts["executeOutsideLock"] = clean && exec && len(stmts) > 1
		}
		// (5) the map is not touched anywhere else in the file
	}
	others := true
	for _, d := range file.Decls {
		if fd, ok := d.(*ast.FuncDecl); ok && fd.Name.Name != "dispatch" && fd.Name.Name != "newWalletDispatcher" && fd.Body != nil {
			ast.Inspect(fd.Body, func(x ast.Node) bool {
				if sel, ok := x.(*ast.SelectorExpr); ok && sel.Sel.Name == "actions" {
					if id, ok := sel.X.(*ast.Ident); ok && id.Name == "wd" {
						others = false
					}
				}
				return true
			})
		}
	}
	facts["mapOnlyInDispatch"] = others
	var out []string
	for _, k := range []string{"dispatchBodyLocked", "checkThenInsertBeforeSpawn", "releaseDeferredUnderLock", "executeOutsideLock", "mapOnlyInDispatch"} {
		out = append(out, fmt.Sprintf("bool %s %v", k, facts[k]))
	}
	return out
}
