// C23: coordination windows are triggered exactly once, in order.
// Op line:  watch <b1,b2,...>[|<c1,c2,...>|...]   one complete block stream per line; `|` = the block
//           source CLOSES the channel while the context is still active and would serve the next
//           segment to a new subscription, should the watcher ask for one. (The unchanged watcher
//           subscribes once: a closed channel yields zero blocks, which are ignored; later segments
//           are then never observed. Whatever a watcher does on a closed channel, the property must
//           hold over everything it was fed.)
// Obs line: <sorted multiset of coordination blocks for which onWindowFn ran>
package main

import (
	"context"
	"fmt"
	"runtime"
	"sort"
	"strings"
	"sync"
	"time"

	"keepverif/harness/hx"

	"github.com/keep-network/keep-core/pkg/tbtc"
)

const freq = tbtc.VerifCoordinationFrequencyBlocks

func gen(r *hx.Rng, n int, tier string) []string {
	var ops []string
	for i := 0; i < n; i++ {
		ln := r.Range(0, 12)
		if r.Chance(1, 10) {
			ln = r.Range(12, 60)
		}
		var bs []uint64
		cur := uint64(r.Range(0, 4)) * freq
		for j := 0; j < ln; j++ {
			switch r.Intn(10) {
			case 0, 1, 2: // next window start
				cur = (cur/freq + uint64(r.Range(1, 2))) * freq
			case 3: // duplicate
			case 4: // regression to an earlier window start
				k := cur / freq
				if k > 0 {
					cur = uint64(r.Intn(int(k)+1)) * freq
				}
			case 5: // off-by-small from a multiple
				cur = (cur/freq)*freq + uint64(r.Range(1, 3))
			case 6: // just before a multiple
				cur = (cur/freq+1)*freq - 1
			case 7: // arbitrary
				cur = uint64(r.Intn(int(freq) * 6))
			case 8: // zero
				cur = 0
			default: // +1
				cur++
			}
			bs = append(bs, cur)
		}
		op := "watch " + hx.JoinInts(bs)
		if r.Chance(1, 6) && len(bs) > 0 {
			// the block source closes the channel; a re-subscription would re-emit or regress
			k := r.Range(1, 2)
			for s := 0; s < k; s++ {
				var seg []uint64
				base := bs[r.Intn(len(bs))]
				switch r.Intn(3) {
				case 0: // re-emit from an already seen window start
					seg = append(seg, (base/freq)*freq, (base/freq)*freq+1, (base/freq+1)*freq)
				case 1: // regress below and walk over it again
					if base >= freq {
						seg = append(seg, (base/freq)*freq-1, (base/freq)*freq, (base/freq)*freq+1)
					} else {
						seg = append(seg, freq, freq+1)
					}
				default:
					seg = append(seg, uint64(r.Intn(int(freq)*6)), (base/freq+2)*freq)
				}
				op += "|" + hx.JoinInts(seg)
			}
		}
		ops = append(ops, op)
	}
	return ops
}

func exec(op string) (string, string) {
	f := strings.Fields(op)
	if len(f) != 2 || f[0] != "watch" {
		return "bad-op", "bad"
	}
	var segs [][]uint64
	var blocks []uint64
	for _, sg := range strings.Split(f[1], "|") {
		b := hx.ParseU64s(sg)
		segs = append(segs, b)
		blocks = append(blocks, b...)
	}
	base := runtime.NumGoroutine()
	ctx, cancel := context.WithCancel(context.Background())
	subscribed := make(chan chan uint64, 8)
	var mu sync.Mutex
	var got []uint64
	badIndex := false
	done := make(chan struct{})
	go func() {
		tbtc.VerifWatchCoordinationWindows(ctx,
			func(context.Context) <-chan uint64 {
				c := make(chan uint64)
				subscribed <- c
				return c
			},
			func(b uint64, idx uint64) {
				mu.Lock()
				got = append(got, b)
				if idx*freq != b {
					badIndex = true
				}
				mu.Unlock()
			})
		close(done)
	}()
	resub := 0
	for i, seg := range segs {
		var ch chan uint64
		select {
		case ch = <-subscribed:
		case <-time.After(func() time.Duration {
			if i == 0 {
				return 10 * time.Second
			}
			return 30 * time.Millisecond // a watcher that does not re-subscribe never asks again
		}()):
		}
		if ch == nil {
			break
		}
		if i > 0 {
			resub++
		}
		for _, b := range seg {
			ch <- b
		}
		if i == len(segs)-1 {
			ch <- 1 // not a window start: makes sure the last real block was fully handled
		} else {
			ch <- 1
			close(ch) // the block source drops the subscription while the context is active
		}
	}
	cancel()
	<-done
	// Wait until every callback goroutine the watcher spawned has run: a spawned goroutine (even one
	// that has not been scheduled yet) shows up in the all-goroutines stack dump with the watcher
	// as its creator. (Comparing runtime.NumGoroutine with a baseline is racy across cases.)
	_ = base
	deadline := time.Now().Add(10 * time.Second)
	buf := make([]byte, 1<<20)
	for time.Now().Before(deadline) {
		n := runtime.Stack(buf, true)
		if !strings.Contains(string(buf[:n]), "watchCoordinationWindows") {
			break
		}
		time.Sleep(200 * time.Microsecond)
	}
	mu.Lock()
	defer mu.Unlock()
	sort.Slice(got, func(i, j int) bool { return got[i] < got[j] })
	obs := hx.JoinInts(got)
	if badIndex {
		obs += " bad-index"
	}
	tag := "none"
	if len(segs) > 1 {
		defer func() {}()
	}
	if len(got) > 0 {
		tag = "triggered"
		// stream had a duplicate or regression of a window start?
		seen := map[uint64]bool{}
		var mx uint64
		for _, b := range blocks {
			if b%freq == 0 && b > 0 {
				if seen[b] {
					tag = "triggered+dup"
				} else if b < mx {
					tag = "triggered+regress"
				}
				seen[b] = true
				if b > mx {
					mx = b
				}
			}
		}
	}
	if len(segs) > 1 {
		tag += "+closed"
		if resub > 0 {
			tag += "+resubscribed"
		}
	}
	return obs, tag
}

func main() {
	hx.Main(&hx.Config{
		Prop: "C23",
		Gen:  gen,
		Exec: exec,
		Facts: func() []string {
			return []string{fmt.Sprintf("nat coordinationFrequencyBlocks %d", uint64(freq))}
		},
	})
}
