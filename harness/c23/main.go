// C23: coordination windows are triggered exactly once, in order.
// Op line:  watch <b1,b2,...>      (one complete block stream per line)
// Obs line: <sorted multiset of coordination blocks for which onWindowFn ran>
package main

import (
	"context"
	"fmt"
	"runtime"
	"sort"
	"strings"
	"sync"
	"time"

	"keepverif/harness/hx"

	"github.com/keep-network/keep-core/pkg/tbtc"
)

const freq = tbtc.VerifCoordinationFrequencyBlocks

func gen(r *hx.Rng, n int, tier string) []string {
	var ops []string
	for i := 0; i < n; i++ {
		ln := r.Range(0, 12)
		if r.Chance(1, 10) {
			ln = r.Range(12, 60)
		}
		var bs []uint64
		cur := uint64(r.Range(0, 4)) * freq
		for j := 0; j < ln; j++ {
			switch r.Intn(10) {
			case 0, 1, 2: // next window start
				cur = (cur/freq + uint64(r.Range(1, 2))) * freq
			case 3: // duplicate
			case 4: // regression to an earlier window start
				k := cur / freq
				if k > 0 {
					cur = uint64(r.Intn(int(k)+1)) * freq
				}
			case 5: // off-by-small from a multiple
				cur = (cur/freq)*freq + uint64(r.Range(1, 3))
			case 6: // just before a multiple
				cur = (cur/freq+1)*freq - 1
			case 7: // arbitrary
				cur = uint64(r.Intn(int(freq) * 6))
			case 8: // zero
				cur = 0
			default: // +1
				cur++
			}
			bs = append(bs, cur)
		}
		ops = append(ops, "watch "+hx.JoinInts(bs))
	}
	return ops
}

func exec(op string) (string, string) {
	f := strings.Fields(op)
	if len(f) != 2 || f[0] != "watch" {
		return "bad-op", "bad"
	}
	blocks := hx.ParseU64s(f[1])
	base := runtime.NumGoroutine()
	ctx, cancel := context.WithCancel(context.Background())
	ch := make(chan uint64)
	var mu sync.Mutex
	var got []uint64
	badIndex := false
	done := make(chan struct{})
	go func() {
		tbtc.VerifWatchCoordinationWindows(ctx,
			func(context.Context) <-chan uint64 { return ch },
			func(b uint64, idx uint64) {
				mu.Lock()
				got = append(got, b)
				if idx*freq != b {
					badIndex = true
				}
				mu.Unlock()
			})
		close(done)
	}()
	for _, b := range blocks {
		ch <- b
	}
	ch <- 1 // not a window start: makes sure the last real block was fully handled
	cancel()
	<-done
	deadline := time.Now().Add(5 * time.Second)
	for runtime.NumGoroutine() > base && time.Now().Before(deadline) {
		time.Sleep(200 * time.Microsecond)
	}
	mu.Lock()
	defer mu.Unlock()
	sort.Slice(got, func(i, j int) bool { return got[i] < got[j] })
	obs := hx.JoinInts(got)
	if badIndex {
		obs += " bad-index"
	}
	tag := "none"
	if len(got) > 0 {
		tag = "triggered"
		// stream had a duplicate or regression of a window start?
		seen := map[uint64]bool{}
		var mx uint64
		for _, b := range blocks {
			if b%freq == 0 && b > 0 {
				if seen[b] {
					tag = "triggered+dup"
				} else if b < mx {
					tag = "triggered+regress"
				}
				seen[b] = true
				if b > mx {
					mx = b
				}
			}
		}
	}
	return obs, tag
}

func main() {
	hx.Main(&hx.Config{
		Prop: "C23",
		Gen:  gen,
		Exec: exec,
		Facts: func() []string {
			return []string{fmt.Sprintf("nat coordinationFrequencyBlocks %d", uint64(freq))}
		},
	})
}
