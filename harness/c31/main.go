// C31: assembled SPV proofs prove the transaction.
//
// Op line:  spv <seed> <required> <txHeight> <txPos> <tip0> <growth g0,g1,..> <txcounts c0,c1,..>
//
// The whole chain (len(txcounts) blocks) is derived deterministically from the parameters — the
// Lean driver derives the same chain with its own SHA-256 — but only blocks 0..tip are visible;
// after the k-th chain query g_k more blocks become visible (append-only growth while the proof
// is assembled).  The simulated Electrum server answers like ElectrumX: a Merkle query for a
// height whose block does not contain the transaction fails.
//
// Obs line: ok <merkleProof> <txIndex> <headers> <coinbasePreimage> <coinbaseProof> <txid> V=<0|1>
//
//	| err:<notfound|confirmations|header|merkle|coinbase|other>
//
// V is the verdict of an independent verifier written here (Merkle path to the first header's
// root at txIndex, headers linked and of the required count, coinbase preimage/proof at
// position 0 with a path of equal length).
package main

import (
	"bytes"
	"crypto/sha256"
	"encoding/binary"
	"encoding/hex"
	"errors"
	"fmt"
	"strings"

	"keepverif/harness/hx"

	"github.com/keep-network/keep-core/pkg/bitcoin"
)

func h256(b []byte) []byte {
	a := sha256.Sum256(b)
	c := sha256.Sum256(a[:])
	return c[:]
}

func le4(v uint32) []byte {
	var b [4]byte
	binary.LittleEndian.PutUint32(b[:], v)
	return b[:]
}

func rev(b []byte) []byte {
	o := make([]byte, len(b))
	for i := range b {
		o[len(b)-1-i] = b[i]
	}
	return o
}

type block struct {
	header bitcoin.BlockHeader
	raw    []byte // 80 bytes, serialized here (not by the code under test)
	leaves [][]byte
}

type simErr struct{ class string }

func (e *simErr) Error() string { return "sim: " + e.class }

type sim struct {
	bitcoin.Chain
	blocks  []*block
	txs     map[string]*bitcoin.Transaction
	tip0    int
	growth  []int
	queries int
	tips    []int
}

// tip seen by the current query; advances the query counter.
func (s *sim) tip() int {
	last := len(s.blocks) - 1
	t := s.tip0
	if t > last {
		t = last
	}
	for k := 0; k < s.queries; k++ {
		if k < len(s.growth) {
			t += s.growth[k]
		}
		if t > last {
			t = last
		}
	}
	s.queries++
	s.tips = append(s.tips, t)
	return t
}

func (s *sim) GetTransactionConfirmations(h bitcoin.Hash) (uint, error) {
	t := s.tip()
	for i := 0; i <= t; i++ {
		for _, l := range s.blocks[i].leaves {
			if bytes.Equal(l, h[:]) {
				return uint(t - i + 1), nil
			}
		}
	}
	return 0, &simErr{"notfound"}
}

func (s *sim) GetTransaction(h bitcoin.Hash) (*bitcoin.Transaction, error) {
	s.tip()
	if tx, ok := s.txs[string(h[:])]; ok {
		return tx, nil
	}
	return nil, &simErr{"notfound"}
}

func (s *sim) GetLatestBlockHeight() (uint, error) { return uint(s.tip()), nil }

func (s *sim) GetBlockHeader(height uint) (*bitcoin.BlockHeader, error) {
	t := s.tip()
	if height > uint(t) {
		return nil, &simErr{"header"}
	}
	h := s.blocks[height].header
	return &h, nil
}

func merkleLevels(leaves [][]byte) [][][]byte {
	levels := [][][]byte{leaves}
	cur := leaves
	for len(cur) > 1 {
		var next [][]byte
		for i := 0; i < len(cur); i += 2 {
			j := i + 1
			if j == len(cur) {
				j = i
			}
			next = append(next, h256(append(append([]byte{}, cur[i]...), cur[j]...)))
		}
		levels = append(levels, next)
		cur = next
	}
	return levels
}

func (s *sim) GetTransactionMerkleProof(h bitcoin.Hash, height uint) (*bitcoin.TransactionMerkleProof, error) {
	t := s.tip()
	if height > uint(t) {
		return nil, &simErr{"merkle"}
	}
	b := s.blocks[height]
	pos := -1
	for i, l := range b.leaves {
		if bytes.Equal(l, h[:]) {
			pos = i
			break
		}
	}
	if pos < 0 {
		return nil, &simErr{"merkle"} // ElectrumX: "tx hash ... not in block ... at height"
	}
	var nodes []string
	idx := pos
	for _, lvl := range merkleLevels(b.leaves) {
		if len(lvl) == 1 {
			break
		}
		sib := idx ^ 1
		if sib >= len(lvl) {
			sib = idx
		}
		nodes = append(nodes, hex.EncodeToString(rev(lvl[sib])))
		idx /= 2
	}
	return &bitcoin.TransactionMerkleProof{BlockHeight: height, MerkleNodes: nodes, Position: uint(pos)}, nil
}

func (s *sim) GetCoinbaseTxHash(height uint) (bitcoin.Hash, error) {
	t := s.tip()
	var h bitcoin.Hash
	if height > uint(t) {
		return h, &simErr{"coinbase"}
	}
	copy(h[:], s.blocks[height].leaves[0])
	return h, nil
}

func coinbaseTx(seed, h uint32) *bitcoin.Transaction {
	return &bitcoin.Transaction{
		Version: 1,
		Inputs: []*bitcoin.TransactionInput{{
			Outpoint:        &bitcoin.TransactionOutpoint{OutputIndex: 0xffffffff},
			SignatureScript: append(le4(h), le4(seed)...),
			Sequence:        0xffffffff,
		}},
		Outputs: []*bitcoin.TransactionOutput{{Value: 5000000000, PublicKeyScript: []byte{0x51}}},
	}
}

func targetTx(seed uint32) *bitcoin.Transaction {
	hs := h256(le4(seed))
	in := &bitcoin.TransactionInput{
		Outpoint: &bitcoin.TransactionOutpoint{OutputIndex: 1},
		Witness:  [][]byte{{1, 2, 3}, {4}},
		Sequence: 0xfffffffd,
	}
	copy(in.Outpoint.TransactionHash[:], hs)
	return &bitcoin.Transaction{
		Version: 2,
		Inputs:  []*bitcoin.TransactionInput{in},
		Outputs: []*bitcoin.TransactionOutput{{Value: int64(1000 + uint64(seed)),
			PublicKeyScript: append([]byte{0, 20}, hs[:20]...)}},
	}
}

func build(seed uint32, txH, txPos int, counts []int) (*sim, bitcoin.Hash) {
	s := &sim{txs: map[string]*bitcoin.Transaction{}}
	prev := make([]byte, 32)
	var target bitcoin.Hash
	for h, c := range counts {
		b := &block{}
		for i := 0; i < c; i++ {
			var leaf []byte
			switch {
			case i == 0:
				tx := coinbaseTx(seed, uint32(h))
				id := tx.Hash()
				leaf = id[:]
				s.txs[string(leaf)] = tx
			case h == txH && i == txPos:
				tx := targetTx(seed)
				id := tx.Hash()
				leaf = id[:]
				s.txs[string(leaf)] = tx
			default:
				leaf = h256(append(append(le4(seed), le4(uint32(h))...), le4(uint32(i))...))
			}
			if h == txH && i == txPos {
				copy(target[:], leaf)
			}
			b.leaves = append(b.leaves, append([]byte{}, leaf...))
		}
		lv := merkleLevels(b.leaves)
		root := lv[len(lv)-1][0]
		b.header = bitcoin.BlockHeader{Version: 0x20000000, Time: uint32(1600000000 + 600*h),
			Bits: 0x1d00ffff, Nonce: seed + uint32(h)}
		copy(b.header.PreviousBlockHeaderHash[:], prev)
		copy(b.header.MerkleRootHash[:], root)
		b.raw = append(b.raw, le4(0x20000000)...)
		b.raw = append(b.raw, prev...)
		b.raw = append(b.raw, root...)
		b.raw = append(b.raw, le4(b.header.Time)...)
		b.raw = append(b.raw, le4(b.header.Bits)...)
		b.raw = append(b.raw, le4(b.header.Nonce)...)
		prev = h256(b.raw)
		s.blocks = append(s.blocks, b)
	}
	return s, target
}

// independent verifier
func verify(txid []byte, req int, p *bitcoin.SpvProof) bool {
	if req < 1 || len(p.BitcoinHeaders) != 80*req {
		return false
	}
	for i := 1; i < req; i++ {
		prevHash := h256(p.BitcoinHeaders[80*(i-1) : 80*i])
		if !bytes.Equal(p.BitcoinHeaders[80*i+4:80*i+36], prevHash) {
			return false
		}
	}
	root := p.BitcoinHeaders[36:68]
	walk := func(cur []byte, idx uint, proof []byte) []byte {
		for i := 0; i+32 <= len(proof); i += 32 {
			n := proof[i : i+32]
			if idx%2 == 1 {
				cur = h256(append(append([]byte{}, n...), cur...))
			} else {
				cur = h256(append(append([]byte{}, cur...), n...))
			}
			idx /= 2
		}
		return cur
	}
	if len(p.MerkleProof)%32 != 0 || len(p.CoinbaseProof) != len(p.MerkleProof) {
		return false
	}
	if !bytes.Equal(walk(txid, p.TxIndexInBlock, p.MerkleProof), root) {
		return false
	}
	cb := sha256.Sum256(p.CoinbasePreimage[:])
	return bytes.Equal(walk(cb[:], 0, p.CoinbaseProof), root)
}

func hexs(b []byte) string {
	if len(b) == 0 {
		return "_"
	}
	return hex.EncodeToString(b)
}

func exec(op string) (string, string) {
	t := strings.Fields(op)
	if len(t) != 8 || t[0] != "spv" {
		return "bad-op", "bad"
	}
	seed, req, txH, txPos, tip0 := uint32(hx.AtoU64(t[1])), hx.Atoi(t[2]), hx.Atoi(t[3]), hx.Atoi(t[4]), hx.Atoi(t[5])
	growth, counts := hx.ParseInts(t[6]), hx.ParseInts(t[7])
	if len(counts) == 0 || txH >= len(counts) || txPos >= counts[txH] {
		return "bad-op", "bad"
	}
	for _, c := range counts {
		if c < 1 {
			return "bad-op", "bad"
		}
	}
	s, target := build(seed, txH, txPos, counts)
	s.tip0, s.growth = tip0, growth
	tx, proof, err := bitcoin.AssembleSpvProof(target, uint(req), s)
	early, late := false, false
	for k := 1; k < len(s.tips); k++ {
		if s.tips[k] > s.tips[k-1] {
			if k <= 2 {
				early = true
			} else {
				late = true
			}
		}
	}
	gtag := "static"
	if early {
		gtag = "grow-early"
	} else if late {
		gtag = "grow-late"
	}
	if err != nil {
		cls := "other"
		var se *simErr
		if errors.As(err, &se) {
			cls = se.class
		} else if strings.Contains(err.Error(), "is not enough") {
			cls = "confirmations"
		}
		return "err:" + cls, "err-" + cls + "+" + gtag
	}
	id := tx.Hash()
	show := func() string {
		return fmt.Sprintf("%s %d %s %s %s %s", hexs(proof.MerkleProof), proof.TxIndexInBlock,
			hexs(proof.BitcoinHeaders), hexs(proof.CoinbasePreimage[:]), hexs(proof.CoinbaseProof), hexs(id[:]))
	}
	snapshot := show()
	// A second assembly (another transaction of another chain, as a maintainer proving
	// consecutive transactions does) while the first proof is still held: the first proof is
	// re-inspected and verified only AFTER it.
	counts2 := append([]int{}, counts...)
	counts2 = append(counts2, 3, 2)
	s2, target2 := build(seed+1, len(counts2)-2, 1, counts2)
	s2.tip0 = len(counts2) - 1
	_, _, _ = bitcoin.AssembleSpvProof(target2, 2, s2)
	s3, target3 := build(seed+2, 0, 0, counts2)
	s3.tip0 = len(counts2) - 1
	_, _, _ = bitcoin.AssembleSpvProof(target3, uint(len(counts2)), s3)
	v := 0
	if verify(target[:], req, proof) {
		v = 1
	}
	obs := fmt.Sprintf("ok %s V=%d", show(), v)
	if show() != snapshot {
		obs += " ALIASED"
	}
	tag := "ok+" + gtag
	if txPos == 0 {
		tag += "+coinbase"
	}
	if counts[txH] == 1 {
		tag += "+single"
	} else if counts[txH]&(counts[txH]-1) != 0 {
		tag += "+odd"
	}
	if txPos == counts[txH]-1 && counts[txH]%2 == 1 && counts[txH] > 1 {
		tag += "+lastdup"
	}
	return obs, tag
}

func gen(r *hx.Rng, n int, tier string) []string {
	var ops []string
	for k := 0; k < n; k++ {
		nb := r.Range(2, 14)
		counts := make([]int, nb)
		for i := range counts {
			switch r.Intn(8) {
			case 0:
				counts[i] = 1
			case 1:
				counts[i] = r.Range(2, 3)
			case 2:
				counts[i] = []int{4, 8, 16, 5, 7, 9, 15, 17}[r.Intn(8)]
			case 3:
				if tier == "thorough" {
					counts[i] = r.Range(30, 300)
				} else {
					counts[i] = r.Range(10, 40)
				}
			default:
				counts[i] = r.Range(1, 12)
			}
		}
		txH := r.Intn(nb)
		txPos := r.Intn(counts[txH])
		if r.Chance(1, 6) {
			txPos = counts[txH] - 1
		}
		if r.Chance(1, 10) {
			txPos = 0
		}
		tip0 := txH + r.Range(0, nb-1-txH)
		if r.Chance(1, 25) && txH > 0 {
			tip0 = txH - 1 // not yet visible
		}
		conf := tip0 - txH + 1
		req := r.Range(1, 7)
		if conf >= 1 && r.Chance(3, 4) {
			req = r.Range(1, conf) // enough confirmations
		}
		if r.Chance(1, 60) {
			req = 0
		}
		var growth []int
		switch r.Intn(4) {
		case 0: // static
		case 1: // one block between the confirmations query and the latest-height query
			growth = []int{r.Intn(2), r.Intn(2)}
			if growth[0]+growth[1] == 0 {
				growth[r.Intn(2)] = 1
			}
		case 2: // growth only later (during header / proof queries)
			growth = []int{0, 0}
			for i := 0; i < r.Range(1, 8); i++ {
				growth = append(growth, r.Intn(3))
			}
		default:
			for i := 0; i < r.Range(1, 10); i++ {
				growth = append(growth, r.Intn(3)*r.Intn(2))
			}
		}
		ops = append(ops, fmt.Sprintf("spv %d %d %d %d %d %s %s", uint32(r.U64()), req, txH, txPos, tip0,
			hx.JoinInts(growth), hx.JoinInts(counts)))
	}
	return ops
}

func main() {
	hx.Main(&hx.Config{Prop: "C31", Gen: gen, Exec: exec})
}
