// C02: beacon DKG (GJKR) — honest key shares are consistent with the group public key.
// Same op lines and engine as C01 (harness/c01/gjk).  Obs line: see gjk.ObsC02 — the private
// share of every honest member (exact value, predicted by the model from the injected
// coefficients), whether share·G2 equals the public key share every other honest member
// computed for it, and whether the group public key equals X·G2 for the secret X interpolated
// (independent big.Int code) from t+1 honest shares.  The Lean monitor re-interpolates EVERY
// (t+1)-subset of the observed honest shares with the model's own `interpolate0`.
package main

import (
	"fmt"

	"keepverif/harness/c01/gjk"
	"keepverif/harness/hx"
)

func exec(op string) (string, string) {
	c, ok := gjk.ParseOp(op)
	if !ok {
		return "bad-op", "bad"
	}
	outs, tag := gjk.Run(c, true)
	return gjk.ObsC02(c, outs), gjk.TagC01(c, outs, tag)
}

func main() {
	hx.Main(&hx.Config{
		Prop: "C02",
		Gen:  gjk.Gen,
		Exec: exec,
		Facts: func() []string {
			return []string{fmt.Sprintf("nat order %s", gjk.R.String())}
		},
	})
}
