module keepverif/harness

go 1.20
