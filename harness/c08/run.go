package main

import (
	"fmt"
	"math/big"
	"sort"
	"strings"
	"time"

	"keepverif/harness/c07/dkgrun"
	"keepverif/harness/hx"

	"github.com/keep-network/keep-core/pkg/chain"
	"github.com/keep-network/keep-core/pkg/protocol/group"
	"github.com/keep-network/keep-core/pkg/tbtc"
	"github.com/keep-network/keep-core/pkg/tecdsa"
)

const signTimeout = 12 * time.Minute

func parseSubsets(s string) [][]int {
	var out [][]int
	for _, t := range strings.Split(s, "|") {
		var sub []int
		if t != "-" {
			for _, x := range strings.Split(t, ".") {
				sub = append(sub, hx.Atoi(x))
			}
		}
		out = append(out, sub)
	}
	return out
}

// execSign: REAL DKG with exclusions → finalSigningGroup (as registerSigner) → signing.Execute for
// each subset of FINAL member indexes.
func execSign(f []string) (string, string) {
	n, t := hx.Atoi(f[1]), hx.Atoi(f[2])
	excluded := hx.ParseInts(f[3])
	subsets := parseSubsets(f[4])
	msg := bigOf(f[5])
	seed := new(big.Int).Add(msg, big.NewInt(12345))
	rng := hx.NewRng(msg.Uint64())

	out := dkgrun.RunDKG(dkgrun.DkgConfig{
		N: n, HonestThreshold: t, Excluded: excluded, Seed: seed,
		Session: fmt.Sprintf("%s-1", seed.Text(16)), Duplicate: true, Rng: rng,
		Timeout: 150 * time.Second,
	})
	selected := make([]chain.Address, n)
	for i := range selected {
		selected[i] = dkgrun.OperatorAddress(i + 1)
	}
	params := &tbtc.GroupParameters{GroupSize: n, GroupQuorum: t, HonestThreshold: t}
	shares := map[int]*tecdsa.PrivateKeyShare{}
	finalOf := map[int]int{} // dkg member -> final index
	var finalSeats []int
	var walletKey string
	ksOK := true
	for _, m := range dkgrun.SortedKeys(out.Results) {
		r := out.Results[m]
		if r == nil {
			return fmt.Sprintf("dkg=fail:%d", m), "sign+dkgfail"
		}
		// registerSigner
		finalOps, finalIdx, err := tbtc.VerifC08FinalSigningGroup(selected, r.Group.OperatingMemberIndexes(), params)
		if err != nil {
			return "dkg=fail:final", "sign+dkgfail"
		}
		fi, ok := finalIdx[group.MemberIndex(m)]
		if !ok {
			return "dkg=fail:index", "sign+dkgfail"
		}
		finalOf[m] = int(fi)
		shares[int(fi)] = r.PrivateKeyShare
		seats := make([]int, len(finalOps))
		for i, a := range finalOps {
			seats[i] = idOf(a)
		}
		if finalSeats == nil {
			finalSeats = seats
		} else if fmt.Sprint(finalSeats) != fmt.Sprint(seats) {
			ksOK = false
		}
		if walletKey == "" {
			walletKey = dkgrun.PublicKeyOf(r)
		} else if walletKey != dkgrun.PublicKeyOf(r) {
			return "dkg=fail:keys-differ", "sign+dkgfail"
		}
		// the stored index maps to the key-generation party identity this member used
		data := r.PrivateKeyShare.Data()
		own := new(big.Int).Add(seed, big.NewInt(int64(m)))
		if int(fi) < 1 || int(fi) > len(data.Ks) || data.Ks[fi-1].Cmp(own) != 0 ||
			data.ShareID == nil || data.ShareID.Cmp(own) != 0 {
			ksOK = false
		}
	}
	if len(shares) == 0 {
		return "dkg=fail:none", "sign+dkgfail"
	}
	var fin []string
	var ms []int
	for m := range finalOf {
		ms = append(ms, m)
	}
	sort.Ints(ms)
	for _, m := range ms {
		fin = append(fin, fmt.Sprintf("%d:%d", m, finalOf[m]))
	}
	var anyResult *tecdsa.PrivateKeyShare
	for _, s := range shares {
		anyResult = s
	}
	pk := anyResult.PublicKey()
	halfN := new(big.Int).Rsh(pk.Curve.Params().N, 1)

	var verdicts []string
	for si, sub := range subsets {
		so := dkgrun.RunSigning(rng, msg, fmt.Sprintf("%s-%d", msg.Text(16), si), len(finalSeats), t,
			sub, finalSeats, shares, 150*time.Second)
		v := "ok"
		var first *tecdsa.Signature
		for _, fi := range sub {
			sig := so.Signatures[fi]
			switch {
			case sig == nil:
				v = fmt.Sprintf("fail:member-%d-no-signature", fi)
			case first == nil:
				first = sig
			case !first.Equals(sig):
				v = "fail:signatures-differ"
			}
			if sig != nil && v == "ok" {
				if !dkgrun.VerifySignature(pk, msg, sig) {
					v = "fail:does-not-verify"
				} else if sig.S.Cmp(halfN) > 0 {
					v = "fail:high-s"
				} else if sig.RecoveryID < 0 || sig.RecoveryID > 3 {
					v = "fail:recovery-id"
				}
			}
		}
		verdicts = append(verdicts, v)
	}
	ks := "ok"
	if !ksOK {
		ks = "bad"
	}
	tag := "sign"
	if len(excluded) > 0 {
		tag += "+sign-excl"
	} else {
		tag += "+sign-full"
	}
	return fmt.Sprintf("dkg=ok final=%s ks=%s sigs=%s", hx.JoinStrs(fin), ks, strings.Join(verdicts, "|")), tag
}

func subsetsOfSize(k, size int) [][]int {
	var out [][]int
	var rec func(start int, cur []int)
	rec = func(start int, cur []int) {
		if len(cur) == size {
			out = append(out, append([]int(nil), cur...))
			return
		}
		for m := start; m <= k; m++ {
			rec(m+1, append(cur, m))
		}
	}
	rec(1, nil)
	return out
}

func showSubsets(subs [][]int) string {
	var ss []string
	for _, s := range subs {
		xs := make([]string, len(s))
		for i, x := range s {
			xs[i] = fmt.Sprint(x)
		}
		ss = append(ss, strings.Join(xs, "."))
	}
	return strings.Join(ss, "|")
}

func signOp(r *hx.Rng, n, t int, excluded []int, subs [][]int) string {
	msg := new(big.Int).SetBytes(r.Bytes(32))
	return fmt.Sprintf("sign %d %d %s %s %s", n, t, hx.JoinInts(excluded), showSubsets(subs), msg)
}

// genSign: quick = one DKG of the 3-of-5 group with one or two excluded members, then signing by
// two random honest-threshold subsets of the final group. thorough = no exclusion with every
// 3-subset, every single exclusion with every 3-subset of the 4 final members, and three double
// exclusions with the only quorum.
func genSign(r *hx.Rng, tier string) []string {
	pick := func(all [][]int, k int) [][]int {
		p := r.Perm(len(all))
		var out [][]int
		for i := 0; i < k && i < len(all); i++ {
			out = append(out, all[p[i]])
		}
		return out
	}
	var ops []string
	if tier != "thorough" {
		ex := []int{r.Range(1, 5)}
		final := 4
		if r.Chance(1, 3) {
			o := r.Range(1, 5)
			if o != ex[0] {
				ex = append(ex, o)
				sort.Ints(ex)
				final = 3
			}
		}
		all := append(subsetsOfSize(final, 3), subsetsOfSize(final, final)...)
		ops = append(ops, signOp(r, 5, 3, ex, pick(all, 2)))
		return ops
	}
	ops = append(ops, signOp(r, 5, 3, nil, append(subsetsOfSize(5, 3), subsetsOfSize(5, 4)[0], subsetsOfSize(5, 5)[0])))
	for e := 1; e <= 5; e++ {
		ops = append(ops, signOp(r, 5, 3, []int{e}, append(subsetsOfSize(4, 3), subsetsOfSize(4, 4)...)))
	}
	for _, ex := range [][]int{{1, 2}, {2, 5}, {3, 4}} {
		ops = append(ops, signOp(r, 5, 3, ex, subsetsOfSize(3, 3)))
	}
	return ops
}
