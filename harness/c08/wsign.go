package main

import (
	"context"
	"fmt"
	"math/big"
	"os"
	osexec "os/exec"
	"sort"
	"strings"
	"sync"
	"time"

	"keepverif/harness/c07/dkgrun"
	"keepverif/harness/hx"

	"github.com/keep-network/keep-core/pkg/chain"
	"github.com/keep-network/keep-core/pkg/protocol/group"
	"github.com/keep-network/keep-core/pkg/tbtc"
	"github.com/keep-network/keep-core/pkg/tecdsa"
)

// wsign <n> <t> <excluded> <msg>
//
// REAL wallet signing: DKG of the n-group with the excluded members, registerSigner's
// finalSigningGroup, then the tbtc signing executor (signingExecutor.sign: announcement, member
// selection, signing.Execute with the wallet's stored group size and member indexes, done check)
// run by one node controlling every seat of the FINAL group, over the in-process network and a
// wall-clock block counter. The whole case runs in a child process (`wsign!`), because a fault in
// the protocol goroutines started by the executor (e.g. an index outside the stored party keys)
// cannot be recovered in-process: the child's death is the observation `sig=crash`.
//
// Obs: `dkg=<ok|fail> final=<m:f,...> sig=<ok|fail:class|crash>`
func execWsign(f []string) (string, string) {
	exe, err := os.Executable()
	if err != nil {
		return "err:exe", "bad"
	}
	tmp, err := os.CreateTemp("", "c08-wsign-*.ops")
	if err != nil {
		return "err:tmp", "bad"
	}
	defer os.Remove(tmp.Name())
	fmt.Fprintf(tmp, "wsign! %s\n", strings.Join(f[1:], " "))
	tmp.Close()
	ctx, cancel := context.WithTimeout(context.Background(), 9*time.Minute)
	defer cancel()
	out, _ := osexec.CommandContext(ctx, exe, "-replay", tmp.Name()).Output()
	tag := "wsign"
	if len(hx.ParseInts(f[3])) > 0 {
		tag += "+wsign-excl"
	}
	for _, line := range strings.Split(string(out), "\n") {
		p := strings.Split(line, "\t")
		if len(p) == 3 && strings.HasPrefix(p[0], "wsign! ") {
			return p[1], tag
		}
	}
	return "dkg=? final=? sig=crash", tag
}

type blockClock struct {
	start time.Time
	per   time.Duration
}

func (c *blockClock) current() (uint64, error) {
	return 1 + uint64(time.Since(c.start)/c.per), nil
}

func (c *blockClock) wait(ctx context.Context, block uint64) error {
	for {
		cur, _ := c.current()
		if cur >= block {
			return nil
		}
		select {
		case <-ctx.Done():
			return nil
		case <-time.After(c.per / 4):
		}
	}
}

func execWsignChild(f []string) (string, string) {
	n, t := hx.Atoi(f[1]), hx.Atoi(f[2])
	excluded := hx.ParseInts(f[3])
	msg := bigOf(f[4])
	seed := new(big.Int).Add(msg, big.NewInt(777))
	rng := hx.NewRng(msg.Uint64())
	out := dkgrun.RunDKG(dkgrun.DkgConfig{
		N: n, HonestThreshold: t, Excluded: excluded, Seed: seed,
		Session: fmt.Sprintf("%s-1", seed.Text(16)), Rng: rng, Timeout: 150 * time.Second,
	})
	selected := make([]chain.Address, n)
	for i := range selected {
		selected[i] = dkgrun.OperatorAddress(1) // one node controls every seat
	}
	params := &tbtc.GroupParameters{GroupSize: n, GroupQuorum: t, HonestThreshold: t}
	byFinal := map[int]*tecdsa.PrivateKeyShare{}
	var fin []string
	var finalOps []chain.Address
	for _, m := range dkgrun.SortedKeys(out.Results) {
		r := out.Results[m]
		if r == nil {
			return "dkg=fail final=- sig=-", "wsign"
		}
		ops, idx, err := tbtc.VerifC08FinalSigningGroup(selected, r.Group.OperatingMemberIndexes(), params)
		if err != nil {
			return "dkg=fail final=- sig=-", "wsign"
		}
		finalOps = ops
		fi := int(idx[group.MemberIndex(m)])
		byFinal[fi] = r.PrivateKeyShare
		fin = append(fin, fmt.Sprintf("%d:%d", m, fi))
	}
	var keys []int
	for k := range byFinal {
		keys = append(keys, k)
	}
	sort.Ints(keys)
	shares := make([]*tecdsa.PrivateKeyShare, len(keys))
	for i, k := range keys {
		if k != i+1 {
			return fmt.Sprintf("dkg=ok final=%s sig=fail:final-indexes-not-contiguous", hx.JoinStrs(fin)), "wsign"
		}
		shares[i] = byFinal[k]
	}
	pk := shares[0].PublicKey()

	network := dkgrun.NewNetwork(rng)
	defer network.Close()
	channel := network.ChannelFor(1)
	seats := make([]int, len(shares))
	for i := range seats {
		seats[i] = 1
	}
	clock := &blockClock{start: time.Now(), per: 400 * time.Millisecond}
	ctx, cancel := context.WithTimeout(context.Background(), 6*time.Minute)
	defer cancel()
	var sig *tecdsa.Signature
	var err error
	var wg sync.WaitGroup
	wg.Add(1)
	go func() {
		defer wg.Done()
		sig, err = tbtc.VerifC08Sign(ctx, pk, finalOps, shares, channel, dkgrun.Validator(seats), params,
			clock.current, clock.wait, 6, msg, 3)
	}()
	wg.Wait()
	verdict := "ok"
	halfN := new(big.Int).Rsh(pk.Curve.Params().N, 1)
	switch {
	case err != nil || sig == nil:
		verdict = "fail:no-signature"
	case !dkgrun.VerifySignature(pk, msg, sig):
		verdict = "fail:does-not-verify"
	case sig.S.Cmp(halfN) > 0:
		verdict = "fail:high-s"
	}
	return fmt.Sprintf("dkg=ok final=%s sig=%s", hx.JoinStrs(fin), verdict), "wsign"
}

func genWsign(r *hx.Rng, tier string) []string {
	op := func(ex []int) string {
		return fmt.Sprintf("wsign 5 3 %s %s", hx.JoinInts(ex), new(big.Int).SetBytes(r.Bytes(32)))
	}
	if tier != "thorough" {
		return []string{op([]int{r.Range(1, 5)})}
	}
	return []string{op(nil), op([]int{1}), op([]int{3}), op([]int{5}), op([]int{2, 4})}
}
