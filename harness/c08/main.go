// C08: tECDSA signing — final signing group index shift vs. DKG party identities,
// signing identity converter, signature extraction, and real DKG(+exclusions) → signing runs.
//
// Op lines (one complete case per line):
//
//	final <n> <quorum> <sel> <operating> <seed>
//	    finalSigningGroup(selected, operating, {GroupSize n, GroupQuorum quorum}) combined with the
//	    DKG identity converter (seed + m), tss.SortPartyIDs (the order tss-lib stores as Ks) and the
//	    signing identity converter (Ks[idx-1]). <sel> = operator id per seat, <operating> = member
//	    indexes in the given (possibly unsorted) order.
//	    Obs: `err:invalid` | `ops=<final operator ids> map=<m:f:r:b,...>` sorted by m, where
//	    f = final index of DKG member m, r = DKG member recovered from Ks[f-1] (must be m),
//	    b = signing index recovered from key seed+m (must be f).
//	sconv <keys> <idx> <key>     signing identityConverter: `k=<keys[idx-1]> rt=<roundtrip(idx)> i=<index of key>`
//	sig <rhex> <shex> <rechex>   tecdsa.NewSignature: `r=<dec> s=<dec> v=<int8>`
//	sign <n> <t> <excluded> <subsets> <msg>   REAL run: DKG of an n-group (honest threshold t) with the
//	    excluded members, registerSigner's finalSigningGroup, then signing.Execute for each subset
//	    (`.`-separated lists of FINAL member indexes, `|` between subsets) of message <msg> (decimal).
//	    Obs: `dkg=<ok|fail> final=<m:f,...> ks=<ok|bad> sigs=<verdict per subset>` verdict =
//	    `ok` (all members same signature, verifies under the wallet key, low S) or a failure class.
package main

import (
	"encoding/hex"
	"fmt"
	"math/big"
	"sort"
	"strconv"
	"strings"

	"keepverif/harness/hx"

	tsscommon "github.com/bnb-chain/tss-lib/common"
	"github.com/bnb-chain/tss-lib/tss"
	"github.com/keep-network/keep-core/pkg/chain"
	"github.com/keep-network/keep-core/pkg/protocol/group"
	"github.com/keep-network/keep-core/pkg/tbtc"
	"github.com/keep-network/keep-core/pkg/tecdsa"
	"github.com/keep-network/keep-core/pkg/tecdsa/dkg"
	"github.com/keep-network/keep-core/pkg/tecdsa/signing"
)

func addr(id int) chain.Address { return chain.Address(fmt.Sprintf("0x%040x", id)) }

func idOf(a chain.Address) int {
	v, err := strconv.ParseInt(strings.TrimPrefix(string(a), "0x"), 16, 64)
	if err != nil {
		return -1
	}
	return int(v)
}

func bigOf(s string) *big.Int {
	v, ok := new(big.Int).SetString(s, 10)
	if !ok {
		panic("harness: bad big int " + s)
	}
	return v
}

func bigs(s string) []*big.Int {
	var out []*big.Int
	for _, t := range hx.SplitList(s) {
		out = append(out, bigOf(t))
	}
	return out
}

func joinBigs(xs []*big.Int) string {
	if len(xs) == 0 {
		return "-"
	}
	ss := make([]string, len(xs))
	for i, x := range xs {
		ss[i] = x.String()
	}
	return strings.Join(ss, ",")
}

// sortedDkgKeys is what a DKG run over `operating` hands to tss-lib and what tss-lib
// stores in LocalPartySaveData.Ks: the party keys in tss.SortPartyIDs order.
func sortedDkgKeys(seed *big.Int, operating []group.MemberIndex) []*big.Int {
	ids := make([]*tss.PartyID, len(operating))
	for i, m := range operating {
		k := dkg.VerifC07MemberIndexToKey(seed, m)
		ids[i] = tss.NewPartyID(k.Text(10), "", k)
	}
	return tss.SortPartyIDs(ids).Keys()
}

func execFinal(f []string) (string, string) {
	n, quorum := hx.Atoi(f[1]), hx.Atoi(f[2])
	selIDs := hx.ParseInts(f[3])
	opInts := hx.ParseInts(f[4])
	seed := bigOf(f[5])
	sel := make([]chain.Address, len(selIDs))
	for i, s := range selIDs {
		sel[i] = addr(s)
	}
	operating := make([]group.MemberIndex, len(opInts))
	for i, m := range opInts {
		operating[i] = group.MemberIndex(m)
	}
	ks := sortedDkgKeys(seed, operating)
	input := append([]group.MemberIndex(nil), operating...)
	finalOps, finalIdx, err := tbtc.VerifC08FinalSigningGroup(
		sel, input, &tbtc.GroupParameters{GroupSize: n, GroupQuorum: quorum, HonestThreshold: quorum},
	)
	if err != nil {
		return "err:invalid", "final-err"
	}
	ops := make([]int, len(finalOps))
	for i, a := range finalOps {
		ops[i] = idOf(a)
	}
	var ms []int
	for m := range finalIdx {
		ms = append(ms, int(m))
	}
	sort.Ints(ms)
	var parts []string
	for _, m := range ms {
		fi := finalIdx[group.MemberIndex(m)]
		key := signing.VerifC08MemberIndexToKey(ks, fi)
		r := dkg.VerifC07PartyIDToMemberIndex(seed, key)
		b := signing.VerifC08PartyIDToMemberIndex(ks, dkg.VerifC07MemberIndexToKey(seed, group.MemberIndex(m)))
		parts = append(parts, fmt.Sprintf("%d:%d:%d:%d", m, fi, r, b))
	}
	tag := "final-ok"
	if len(operating) < n {
		tag += "+excl"
	} else {
		tag += "+full"
	}
	if !sort.IntsAreSorted(opInts) {
		tag += "+perm"
	}
	return "ops=" + hx.JoinInts(ops) + " map=" + hx.JoinStrs(parts), tag
}

func execSconv(f []string) (string, string) {
	keys := bigs(f[1])
	idx := group.MemberIndex(hx.Atoi(f[2]))
	key := bigOf(f[3])
	k := signing.VerifC08MemberIndexToKey(keys, idx)
	rt := signing.VerifC08RoundTrip(keys, idx)
	i := signing.VerifC08PartyIDToMemberIndex(keys, key)
	tag := "sconv"
	if i == 0 {
		tag += "+unknown"
	} else {
		tag += "+known"
	}
	return fmt.Sprintf("k=%s rt=%d i=%d", k, rt, i), tag
}

func unhex(s string) []byte {
	if s == "-" {
		return nil
	}
	b, err := hex.DecodeString(s)
	if err != nil {
		panic("harness: bad hex " + s)
	}
	return b
}

func execSig(f []string) (string, string) {
	d := &tsscommon.SignatureData{R: unhex(f[1]), S: unhex(f[2]), SignatureRecovery: unhex(f[3])}
	s := tecdsa.NewSignature(d)
	return fmt.Sprintf("r=%s s=%s v=%d", s.R, s.S, s.RecoveryID), "sig"
}

func exec(op string) (string, string) {
	f := strings.Fields(op)
	switch {
	case len(f) == 6 && f[0] == "final":
		return execFinal(f)
	case len(f) == 4 && f[0] == "sconv":
		return execSconv(f)
	case len(f) == 4 && f[0] == "sig":
		return execSig(f)
	case len(f) == 6 && f[0] == "sign":
		return execSign(f)
	}
	return "bad-op", "bad"
}

// ---- generation -----------------------------------------------------------

func randSeed(r *hx.Rng) *big.Int {
	switch r.Intn(6) {
	case 0:
		return big.NewInt(0)
	case 1:
		return big.NewInt(int64(r.Intn(300)))
	case 2:
		return new(big.Int).SetUint64(r.U64())
	default:
		return new(big.Int).SetBytes(r.Bytes(32))
	}
}

func seats(r *hx.Rng, n int) []int {
	out := make([]int, n)
	distinct := r.Range(1, n)
	for i := range out {
		out[i] = 1 + r.Intn(distinct)
	}
	if r.Bool() { // all distinct
		for i := range out {
			out[i] = 101 + i
		}
	}
	return out
}

func genFinal(r *hx.Rng, n int, mask int, mode int) string {
	var operating []int
	for m := 1; m <= n; m++ {
		if mask&(1<<(m-1)) == 0 {
			operating = append(operating, m)
		}
	}
	if mode == 1 { // permuted input order
		p := r.Perm(len(operating))
		q := make([]int, len(operating))
		for i, j := range p {
			q[i] = operating[j]
		}
		operating = q
	}
	quorum := r.Range(0, len(operating))
	sel := seats(r, n)
	nn := n
	switch r.Intn(12) {
	case 0:
		quorum = len(operating) + r.Range(1, 2) // below quorum
	case 1:
		sel = seats(r, n+1) // wrong selection length
	case 2:
		if n > 1 {
			nn = n - 1
		}
	}
	return fmt.Sprintf("final %d %d %s %s %s", nn, quorum, hx.JoinInts(sel), hx.JoinInts(operating), randSeed(r))
}

func genSconv(r *hx.Rng) string {
	n := r.Range(1, 8)
	base := randSeed(r)
	set := map[string]bool{}
	var keys []*big.Int
	for len(keys) < n {
		k := new(big.Int).Add(base, big.NewInt(int64(r.Range(1, 20))))
		if !set[k.String()] {
			set[k.String()] = true
			keys = append(keys, k)
		}
	}
	if r.Bool() {
		sort.Slice(keys, func(i, j int) bool { return keys[i].Cmp(keys[j]) < 0 })
	}
	idx := r.Range(1, n)
	var key *big.Int
	switch r.Intn(4) {
	case 0:
		key = new(big.Int).Add(base, big.NewInt(int64(r.Range(0, 25))))
	case 1:
		key = randSeed(r)
	default:
		key = keys[r.Intn(n)]
	}
	return fmt.Sprintf("sconv %s %d %s", joinBigs(keys), idx, key)
}

func pickLen(r *hx.Rng) int {
	if r.Chance(3, 4) {
		return 32
	}
	return hx.Pick(r, []int{0, 1, 2, 31, 33, 40})
}

func genSig(r *hx.Rng) string {
	hexOf := func(n int) string {
		if n == 0 {
			return "-"
		}
		b := r.Bytes(n)
		if r.Chance(1, 4) {
			b[0] = 0 // leading zero
		}
		return hex.EncodeToString(b)
	}
	rec := []byte{byte(r.Intn(4))}
	switch r.Intn(6) {
	case 0:
		rec = []byte{byte(r.Intn(256))}
	case 1:
		rec = append(rec, r.Bytes(r.Range(1, 3))...)
	}
	return fmt.Sprintf("sig %s %s %s", hexOf(pickLen(r)), hexOf(pickLen(r)), hex.EncodeToString(rec))
}

func gen(r *hx.Rng, n int, tier string) []string {
	var ops []string
	// exhaustive: every exclusion set of every group of size 1..8 (510 sets), sorted input
	// (what OperatingMemberIndexes returns) — plus a permuted copy in the thorough tier.
	for size := 1; size <= 8; size++ {
		for mask := 0; mask < 1<<size; mask++ {
			ops = append(ops, genFinal(r, size, mask, 0))
			if tier == "thorough" {
				ops = append(ops, genFinal(r, size, mask, 1))
			}
		}
	}
	for i := 0; i < n; i++ {
		switch r.Intn(10) {
		case 0, 1, 2, 3:
			size := r.Range(1, 12)
			if r.Chance(1, 8) {
				size = r.Range(13, 40)
			}
			mask := 0
			for m := 0; m < size && m < 30; m++ {
				if r.Chance(1, 4) {
					mask |= 1 << m
				}
			}
			ops = append(ops, genFinal(r, size, mask, r.Intn(2)))
		case 4, 5, 6:
			ops = append(ops, genSconv(r))
		default:
			ops = append(ops, genSig(r))
		}
	}
	ops = append(ops, genSign(r, tier)...)
	return ops
}

func main() {
	hx.Main(&hx.Config{
		Prop:         "C08",
		Gen:          gen,
		Exec:         exec,
		PerOpTimeout: signTimeout,
	})
}
