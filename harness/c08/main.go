// C08: tECDSA signing — final signing group index shift vs. DKG party identities,
// signing identity converter, signature extraction, and real DKG(+exclusions) → signing runs.
//
// Op lines (one complete case per line):
//
//	final <n> <quorum> <sel> <operating> <seed>
//	    finalSigningGroup(selected, operating, {GroupSize n, GroupQuorum quorum}) combined with the
//	    DKG identity converter (seed + m), tss.SortPartyIDs (the order tss-lib stores as Ks) and the
//	    signing identity converter (Ks[idx-1]). <sel> = operator id per seat, <operating> = member
//	    indexes in the given (possibly unsorted) order.
//	    Obs: `err:invalid` | `ops=<final operator ids> map=<m:f:r:b,...>` sorted by m, where
//	    f = final index of DKG member m, r = DKG member recovered from Ks[f-1] (must be m),
//	    b = signing index recovered from key seed+m (must be f).
//	sconv <keys> <idx> <key>     signing identityConverter: `k=<keys[idx-1]> rt=<roundtrip(idx)> i=<index of key>`
//	sig <rhex> <shex> <rechex>   tecdsa.NewSignature: `r=<dec> s=<dec> v=<int8>`
//	srecv <n> <self> <excluded> <seats> <session> <events>
//	    the real signing state chain (ephemeral, symmetric, tss rounds 1..9, finalization) of member
//	    <self> of a final group of size n <= 5 (fixture key shares) in an attempt that excludes
//	    <excluded>, walked with Next(); <events> = comma list of `>` or `kind.sender.operator.session`
//	    delivered to the current state's Receive (kind 0..9 signing message types, 10 = foreign
//	    payload; the session id stands for "<message>-<attempt number>").
//	    `st=<state> can=<CanTransition> n=<history size> r0=… r9=<receivedMessages[T] as sender.seq>`
//	wsign <n> <t> <excluded> <msg>   REAL wallet signing through the tbtc signing executor, see wsign.go
//	sign <n> <t> <excluded> <subsets> <msg>   REAL run: DKG of an n-group (honest threshold t) with the
//	    excluded members, registerSigner's finalSigningGroup, then signing.Execute for each subset
//	    (`.`-separated lists of FINAL member indexes, `|` between subsets) of message <msg> (decimal).
//	    Obs: `dkg=<ok|fail> final=<m:f,...> ks=<ok|bad> sigs=<verdict per subset>` verdict =
//	    `ok` (all members same signature, verifies under the wallet key, low S) or a failure class.
package main

import (
	"encoding/hex"
	"fmt"
	"math/big"
	"sort"
	"strconv"
	"strings"

	"keepverif/harness/c07/dkgrun"
	"keepverif/harness/hx"

	tsscommon "github.com/bnb-chain/tss-lib/common"
	"github.com/bnb-chain/tss-lib/tss"
	"github.com/keep-network/keep-core/pkg/chain"
	"github.com/keep-network/keep-core/pkg/net"
	"github.com/keep-network/keep-core/pkg/protocol/group"
	"github.com/keep-network/keep-core/pkg/protocol/state"
	"github.com/keep-network/keep-core/pkg/tbtc"
	"github.com/keep-network/keep-core/pkg/tecdsa"
	"github.com/keep-network/keep-core/pkg/tecdsa/dkg"
	"github.com/keep-network/keep-core/pkg/tecdsa/signing"
)

func addr(id int) chain.Address { return chain.Address(fmt.Sprintf("0x%040x", id)) }

func idOf(a chain.Address) int {
	v, err := strconv.ParseInt(strings.TrimPrefix(string(a), "0x"), 16, 64)
	if err != nil {
		return -1
	}
	return int(v)
}

func bigOf(s string) *big.Int {
	v, ok := new(big.Int).SetString(s, 10)
	if !ok {
		panic("harness: bad big int " + s)
	}
	return v
}

func bigs(s string) []*big.Int {
	var out []*big.Int
	for _, t := range hx.SplitList(s) {
		out = append(out, bigOf(t))
	}
	return out
}

func joinBigs(xs []*big.Int) string {
	if len(xs) == 0 {
		return "-"
	}
	ss := make([]string, len(xs))
	for i, x := range xs {
		ss[i] = x.String()
	}
	return strings.Join(ss, ",")
}

// sortedDkgKeys is what a DKG run over `operating` hands to tss-lib and what tss-lib
// stores in LocalPartySaveData.Ks: the party keys in tss.SortPartyIDs order.
func sortedDkgKeys(seed *big.Int, operating []group.MemberIndex) []*big.Int {
	ids := make([]*tss.PartyID, len(operating))
	for i, m := range operating {
		k := dkg.VerifC07MemberIndexToKey(seed, m)
		ids[i] = tss.NewPartyID(k.Text(10), "", k)
	}
	return tss.SortPartyIDs(ids).Keys()
}

func execFinal(f []string) (string, string) {
	n, quorum := hx.Atoi(f[1]), hx.Atoi(f[2])
	selIDs := hx.ParseInts(f[3])
	opInts := hx.ParseInts(f[4])
	seed := bigOf(f[5])
	sel := make([]chain.Address, len(selIDs))
	for i, s := range selIDs {
		sel[i] = addr(s)
	}
	operating := make([]group.MemberIndex, len(opInts))
	for i, m := range opInts {
		operating[i] = group.MemberIndex(m)
	}
	ks := sortedDkgKeys(seed, operating)
	input := append([]group.MemberIndex(nil), operating...)
	finalOps, finalIdx, err := tbtc.VerifC08FinalSigningGroup(
		sel, input, &tbtc.GroupParameters{GroupSize: n, GroupQuorum: quorum, HonestThreshold: quorum},
	)
	if err != nil {
		return "err:invalid", "final-err"
	}
	ops := make([]int, len(finalOps))
	for i, a := range finalOps {
		ops[i] = idOf(a)
	}
	var ms []int
	for m := range finalIdx {
		ms = append(ms, int(m))
	}
	sort.Ints(ms)
	var parts []string
	for _, m := range ms {
		fi := finalIdx[group.MemberIndex(m)]
		key := signing.VerifC08MemberIndexToKey(ks, fi)
		r := dkg.VerifC07PartyIDToMemberIndex(seed, key)
		b := signing.VerifC08PartyIDToMemberIndex(ks, dkg.VerifC07MemberIndexToKey(seed, group.MemberIndex(m)))
		parts = append(parts, fmt.Sprintf("%d:%d:%d:%d", m, fi, r, b))
	}
	tag := "final-ok"
	if len(operating) < n {
		tag += "+excl"
	} else {
		tag += "+full"
	}
	if !sort.IntsAreSorted(opInts) {
		tag += "+perm"
	}
	return "ops=" + hx.JoinInts(ops) + " map=" + hx.JoinStrs(parts), tag
}

func execSconv(f []string) (string, string) {
	keys := bigs(f[1])
	idx := group.MemberIndex(hx.Atoi(f[2]))
	key := bigOf(f[3])
	k := signing.VerifC08MemberIndexToKey(keys, idx)
	rt := signing.VerifC08RoundTrip(keys, idx)
	i := signing.VerifC08PartyIDToMemberIndex(keys, key)
	tag := "sconv"
	if i == 0 {
		tag += "+unknown"
	} else {
		tag += "+known"
	}
	return fmt.Sprintf("k=%s rt=%d i=%d", k, rt, i), tag
}

func unhex(s string) []byte {
	if s == "-" {
		return nil
	}
	b, err := hex.DecodeString(s)
	if err != nil {
		panic("harness: bad hex " + s)
	}
	return b
}

func execSig(f []string) (string, string) {
	d := &tsscommon.SignatureData{R: unhex(f[1]), S: unhex(f[2]), SignatureRecovery: unhex(f[3])}
	s := tecdsa.NewSignature(d)
	return fmt.Sprintf("r=%s s=%s v=%d", s.R, s.S, s.RecoveryID), "sig"
}

type netMsg struct {
	payload interface{}
	key     []byte
	typ     string
	seq     uint64
}

func (m *netMsg) TransportSenderID() net.TransportIdentifier { return nil }
func (m *netMsg) SenderPublicKey() []byte                    { return m.key }
func (m *netMsg) Payload() interface{}                       { return m.payload }
func (m *netMsg) Type() string                               { return m.typ }
func (m *netMsg) Seqno() uint64                              { return m.seq }

type foreignPayload struct{}

func (p *foreignPayload) Type() string { return "verif/foreign" }

var kindAwaited = map[int]int{0: 0, 2: 1, 3: 2, 4: 3, 5: 4, 6: 5, 7: 6, 8: 7, 9: 8, 10: 9}

func execSrecv(f []string) (string, string) {
	n, self := hx.Atoi(f[1]), hx.Atoi(f[2])
	excluded := hx.ParseInts(f[3])
	seats := hx.ParseInts(f[4])
	sess := hx.Atoi(f[5])
	session := func(q int) string { return fmt.Sprintf("abc-%d", q) }
	var dq []group.MemberIndex
	for _, e := range excluded {
		if e != self { // the rule of signing.Execute
			dq = append(dq, group.MemberIndex(e))
		}
	}
	share := tecdsa.NewPrivateKeyShare(dkgrun.Fixture(self - 1))
	var st state.AsyncState = signing.VerifC08InitialState(
		dkgrun.Logger, big.NewInt(100), session(sess), group.MemberIndex(self), share, n, n/2, dq,
		dkgrun.Validator(seats),
	)
	base := signing.VerifC08Base(st)
	typeOf := func(k int) string { return signing.VerifC08NewMessage(k, 0, "").Type() }
	idx := 0
	seqOf := map[interface{}]int{}
	tags := map[string]bool{}
	for seq, ev := range hx.SplitList(f[6]) {
		if ev == ">" {
			nx, err := st.Next()
			if err != nil {
				return "err:next", "srecv+nexterr"
			}
			if nx != nil {
				st = nx
				idx++
			}
			continue
		}
		p := strings.Split(ev, ".")
		kind, sender, op, q := hx.Atoi(p[0]), group.MemberIndex(hx.Atoi(p[1])), hx.Atoi(p[2]), hx.Atoi(p[3])
		var payload interface{} = &foreignPayload{}
		typ := "verif/foreign"
		if kind < signing.VerifC08KindCount {
			pm := signing.VerifC08NewMessage(kind, sender, session(q))
			payload, typ = pm, pm.Type()
		}
		seqOf[payload] = seq
		before := len(base.GetAllReceivedMessages(typ))
		if err := st.Receive(&netMsg{payload: payload, key: dkgrun.OperatorKey(op), typ: typ, seq: uint64(seq)}); err != nil {
			return "err:receive", "srecv+recverr"
		}
		if len(base.GetAllReceivedMessages(typ)) > before {
			tags["sadmit"] = true
			if kt, ok := kindAwaited[idx]; !ok || kt != kind {
				tags["searly"] = true
			}
		} else {
			tags["sreject"] = true
		}
		tags[fmt.Sprintf("sstate%d", idx)] = true
	}
	total := 0
	var rs []string
	for k := 0; k < signing.VerifC08KindCount; k++ {
		total += len(base.GetAllReceivedMessages(typeOf(k)))
		var parts []string
		for _, pm := range signing.VerifC08ReceivedMessages(base, k) {
			parts = append(parts, fmt.Sprintf("%d.%d", pm.(interface{ SenderID() group.MemberIndex }).SenderID(), seqOf[pm]))
		}
		rs = append(rs, fmt.Sprintf("r%d=%s", k, hx.JoinStrs(parts)))
	}
	total += len(base.GetAllReceivedMessages("verif/foreign"))
	can := 0
	if st.CanTransition() {
		can = 1
		if idx != 1 && idx != 11 {
			tags["scan"] = true
		}
	}
	tag := "srecv"
	var ts []string
	for t := range tags {
		ts = append(ts, t)
	}
	sort.Strings(ts)
	for _, t := range ts {
		tag += "+" + t
	}
	return fmt.Sprintf("st=%d can=%d n=%d %s", idx, can, total, strings.Join(rs, " ")), tag
}

// genSrecvTable: the member is walked into state `st` (every one of the 12 states is drawn equally
// often), then a battery of messages that must be rejected there (another session / attempt, a
// member excluded from the attempt, the member itself, another operator's key, an index outside the
// final group, a foreign payload) plus genuine ones of random kinds is delivered.
func genSrecvTable(r *hx.Rng) string {
	n := r.Range(3, 5)
	self := r.Range(1, n)
	ex := r.Range(1, n)
	for ex == self {
		ex = r.Range(1, n)
	}
	seats := make([]int, n)
	for i := range seats {
		seats[i] = i + 1
	}
	other := 1
	for other == self || other == ex {
		other++
	}
	sess := r.Intn(3)
	st := r.Intn(12)
	var evs []string
	for i := 0; i < st; i++ {
		evs = append(evs, ">")
	}
	var msgs []string
	for i := 0; i < 3; i++ {
		k := r.Intn(10)
		msgs = append(msgs,
			fmt.Sprintf("%d.%d.%d.%d", k, other, other, (sess+1+r.Intn(2))%3), // other session / attempt
			fmt.Sprintf("%d.%d.%d.%d", r.Intn(10), ex, ex, sess),              // excluded from the attempt
			fmt.Sprintf("%d.%d.%d.%d", r.Intn(10), self, self, sess),          // own message
			fmt.Sprintf("%d.%d.%d.%d", r.Intn(10), other, ex, sess),           // another operator's key
			fmt.Sprintf("%d.%d.%d.%d", r.Intn(10), hx.Pick(r, []int{0, n + 1, 255}), other, sess),
			fmt.Sprintf("10.%d.%d.%d", other, other, sess),
			fmt.Sprintf("%d.%d.%d.%d", r.Intn(10), other, other, sess), // genuine
		)
	}
	p := r.Perm(len(msgs))
	for _, j := range p {
		evs = append(evs, msgs[j])
	}
	return fmt.Sprintf("srecv %d %d %d %s %d %s", n, self, ex, hx.JoinInts(seats), sess, hx.JoinStrs(evs))
}

func genSrecv(r *hx.Rng) string {
	if r.Chance(1, 2) {
		return genSrecvTable(r)
	}
	n := r.Range(2, 5)
	self := r.Range(1, n)
	var excl []int
	for m := 1; m <= n; m++ {
		if r.Chance(1, 4) {
			excl = append(excl, m)
		}
	}
	isEx := map[int]bool{}
	for _, e := range excl {
		isEx[e] = true
	}
	seats := make([]int, n)
	ops := r.Range(1, n)
	for i := range seats {
		seats[i] = 1 + r.Intn(ops)
	}
	if r.Chance(2, 3) {
		for i := range seats {
			seats[i] = i + 1
		}
	}
	sess := r.Intn(3)
	var evs []string
	if r.Bool() { // complete traffic of every phase
		for kind := 0; kind < 10; kind++ {
			for m := 1; m <= n; m++ {
				if m == self || (isEx[m] && !r.Chance(1, 3)) {
					continue
				}
				evs = append(evs, fmt.Sprintf("%d.%d.%d.%d", kind, m, seats[m-1], sess))
				if r.Chance(1, 6) {
					evs = append(evs, fmt.Sprintf("%d.%d.%d.%d", kind, m, seats[m-1], sess))
				}
			}
		}
		if r.Bool() {
			p := r.Perm(len(evs))
			q := make([]string, len(evs))
			for i, j := range p {
				q[i] = evs[j]
			}
			evs = q
		}
	}
	for k := r.Range(0, 25); k > 0; k-- {
		kind := r.Intn(10)
		if r.Chance(1, 12) {
			kind = 10
		}
		sender := r.Range(1, n)
		op := seats[sender-1]
		q := sess
		switch r.Intn(12) {
		case 0, 1: // another message / another attempt of the same message
			q = (sess + 1 + r.Intn(2)) % 3
		case 2:
			op = r.Intn(n + 2)
		case 3:
			sender = self
			op = seats[self-1]
		case 4:
			if len(excl) > 0 {
				sender = hx.Pick(r, excl)
				op = seats[sender-1]
			}
		case 5: // outside the final group
			sender = hx.Pick(r, []int{0, n + 1, 255})
		}
		ev := fmt.Sprintf("%d.%d.%d.%d", kind, sender, op, q)
		at := r.Intn(len(evs) + 1)
		evs = append(evs[:at], append([]string{ev}, evs[at:]...)...)
	}
	for k := r.Range(0, 12); k > 0; k-- {
		at := r.Intn(len(evs) + 1)
		evs = append(evs[:at], append([]string{">"}, evs[at:]...)...)
	}
	return fmt.Sprintf("srecv %d %d %s %s %d %s", n, self, hx.JoinInts(excl), hx.JoinInts(seats), sess, hx.JoinStrs(evs))
}

func exec(op string) (string, string) {
	f := strings.Fields(op)
	switch {
	case len(f) == 6 && f[0] == "final":
		return execFinal(f)
	case len(f) == 4 && f[0] == "sconv":
		return execSconv(f)
	case len(f) == 4 && f[0] == "sig":
		return execSig(f)
	case len(f) == 7 && f[0] == "srecv":
		return execSrecv(f)
	case len(f) == 5 && f[0] == "wsign":
		return execWsign(f)
	case len(f) == 5 && f[0] == "wsign!":
		return execWsignChild(f)
	case len(f) == 6 && f[0] == "sign":
		return execSign(f)
	}
	return "bad-op", "bad"
}

// ---- generation -----------------------------------------------------------

func randSeed(r *hx.Rng) *big.Int {
	switch r.Intn(6) {
	case 0:
		return big.NewInt(0)
	case 1:
		return big.NewInt(int64(r.Intn(300)))
	case 2:
		return new(big.Int).SetUint64(r.U64())
	default:
		return new(big.Int).SetBytes(r.Bytes(32))
	}
}

func seats(r *hx.Rng, n int) []int {
	out := make([]int, n)
	distinct := r.Range(1, n)
	for i := range out {
		out[i] = 1 + r.Intn(distinct)
	}
	if r.Bool() { // all distinct
		for i := range out {
			out[i] = 101 + i
		}
	}
	return out
}

func genFinal(r *hx.Rng, n int, mask int, mode int) string {
	var operating []int
	for m := 1; m <= n; m++ {
		if mask&(1<<(m-1)) == 0 {
			operating = append(operating, m)
		}
	}
	if mode == 1 { // permuted input order
		p := r.Perm(len(operating))
		q := make([]int, len(operating))
		for i, j := range p {
			q[i] = operating[j]
		}
		operating = q
	}
	quorum := r.Range(0, len(operating))
	sel := seats(r, n)
	nn := n
	switch r.Intn(12) {
	case 0:
		quorum = len(operating) + r.Range(1, 2) // below quorum
	case 1:
		sel = seats(r, n+1) // wrong selection length
	case 2:
		if n > 1 {
			nn = n - 1
		}
	}
	return fmt.Sprintf("final %d %d %s %s %s", nn, quorum, hx.JoinInts(sel), hx.JoinInts(operating), randSeed(r))
}

func genSconv(r *hx.Rng) string {
	n := r.Range(1, 8)
	base := randSeed(r)
	set := map[string]bool{}
	var keys []*big.Int
	for len(keys) < n {
		k := new(big.Int).Add(base, big.NewInt(int64(r.Range(1, 20))))
		if !set[k.String()] {
			set[k.String()] = true
			keys = append(keys, k)
		}
	}
	if r.Bool() {
		sort.Slice(keys, func(i, j int) bool { return keys[i].Cmp(keys[j]) < 0 })
	}
	idx := r.Range(1, n)
	var key *big.Int
	switch r.Intn(4) {
	case 0:
		key = new(big.Int).Add(base, big.NewInt(int64(r.Range(0, 25))))
	case 1:
		key = randSeed(r)
	default:
		key = keys[r.Intn(n)]
	}
	return fmt.Sprintf("sconv %s %d %s", joinBigs(keys), idx, key)
}

func pickLen(r *hx.Rng) int {
	if r.Chance(3, 4) {
		return 32
	}
	return hx.Pick(r, []int{0, 1, 2, 31, 33, 40})
}

func genSig(r *hx.Rng) string {
	hexOf := func(n int) string {
		if n == 0 {
			return "-"
		}
		b := r.Bytes(n)
		if r.Chance(1, 4) {
			b[0] = 0 // leading zero
		}
		return hex.EncodeToString(b)
	}
	rec := []byte{byte(r.Intn(4))}
	switch r.Intn(6) {
	case 0:
		rec = []byte{byte(r.Intn(256))}
	case 1:
		rec = append(rec, r.Bytes(r.Range(1, 3))...)
	}
	return fmt.Sprintf("sig %s %s %s", hexOf(pickLen(r)), hexOf(pickLen(r)), hex.EncodeToString(rec))
}

func gen(r *hx.Rng, n int, tier string) []string {
	var ops []string
	// exhaustive: every exclusion set of every group of size 1..8 (510 sets), sorted input
	// (what OperatingMemberIndexes returns) — plus a permuted copy in the thorough tier.
	for size := 1; size <= 8; size++ {
		for mask := 0; mask < 1<<size; mask++ {
			ops = append(ops, genFinal(r, size, mask, 0))
			if tier == "thorough" {
				ops = append(ops, genFinal(r, size, mask, 1))
			}
		}
	}
	for i := 0; i < n; i++ {
		switch r.Intn(14) {
		case 10, 11, 12, 13:
			ops = append(ops, genSrecv(r))
		case 0, 1, 2, 3:
			size := r.Range(1, 12)
			if r.Chance(1, 8) {
				size = r.Range(13, 40)
			}
			mask := 0
			for m := 0; m < size && m < 30; m++ {
				if r.Chance(1, 4) {
					mask |= 1 << m
				}
			}
			ops = append(ops, genFinal(r, size, mask, r.Intn(2)))
		case 4, 5, 6:
			ops = append(ops, genSconv(r))
		default:
			ops = append(ops, genSig(r))
		}
	}
	ops = append(ops, genSign(r, tier)...)
	ops = append(ops, genWsign(r, tier)...)
	return ops
}

func main() {
	hx.Main(&hx.Config{
		Prop:         "C08",
		Gen:          gen,
		Exec:         exec,
		PerOpTimeout: signTimeout,
	})
}
