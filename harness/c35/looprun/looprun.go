// Package looprun drives the REAL signingRetryLoop.start of one member together with the REAL
// signingDoneCheck (the glue around the done check: which context, timeout block and member list
// listen gets, which activity report comes back).  Used by the C35 and the C36 harness.
//
// Op line:   loop <n> <t> <gs> <self> <start> <attempt,attempt,...>
//
//	n      wallet size (operators 1..n, one seat each)     t   honest threshold
//	gs     GroupParameters.GroupSize (>= n)               self member index of this node
//	start  initial start block
//	attempt = <ready '.'-list>/<own>/<others '|'-list or ->
//	   own    = f (signingAttemptFn fails)  |  <endBlock>:<sig>  (it succeeds)
//	   others = <sender>:<attemptNumber>:<endBlock>:<sig>  done messages that arrive during the attempt
//
// After the scripted attempts the loop context is cancelled.
//
// Obs line:  <k>/<included '.'-list>/<timeout block given to listen>,...  <result>
//
//	result = ok/<sig>/<latestEndBlock>/<attemptTimeoutBlock>/<active '.'-list>/<inactive '.'-list> | err
//
// The block clock is scripted: waiting for an announcement start block makes the clock jump there
// (the loop is idle); every other wait (announcement end, done-check timeout) blocks until the clock
// gets there.  When, after everything scripted for an attempt was delivered and processed, the
// confirmations are incomplete, the clock jumps to the attempt's protocol timeout.
package looprun

import (
	"context"
	"errors"
	"fmt"
	"math/big"
	"sort"
	"strconv"
	"strings"
	"sync"
	"time"

	"keepverif/harness/hx"

	golog "github.com/ipfs/go-log/v2"
	"github.com/keep-network/keep-core/pkg/chain"
	"github.com/keep-network/keep-core/pkg/net"
	"github.com/keep-network/keep-core/pkg/operator"
	"github.com/keep-network/keep-core/pkg/protocol/group"
	"github.com/keep-network/keep-core/pkg/tbtc"
	"github.com/keep-network/keep-core/pkg/tecdsa"
)

const (
	Delay    = tbtc.VerifC35AnnouncementDelayBlocks
	Active   = tbtc.VerifC35AnnouncementActiveBlocks
	Protocol = tbtc.VerifC35MaximumProtocolBlocks
	CoolDown = tbtc.VerifC35CoolDownBlocks
	MaxBlk   = Delay + Active + Protocol + CoolDown
)

// Facts are the block-window constants for the Lean monitor.
func Facts() []string {
	return []string{
		fmt.Sprintf("nat loopDelayBlocks %d", Delay), fmt.Sprintf("nat loopActiveBlocks %d", Active),
		fmt.Sprintf("nat loopProtocolBlocks %d", Protocol), fmt.Sprintf("nat loopCoolDownBlocks %d", CoolDown),
	}
}

type fakeMsg struct {
	pk      []byte
	payload interface{}
	onRead  func()
}

func (m *fakeMsg) TransportSenderID() net.TransportIdentifier { return nil }
func (m *fakeMsg) SenderPublicKey() []byte                    { return m.pk }
func (m *fakeMsg) Type() string                               { return "tbtc/signing_done_message" }
func (m *fakeMsg) Seqno() uint64                              { return 0 }
func (m *fakeMsg) Payload() interface{} {
	if m.onRead != nil {
		m.onRead()
	}
	return m.payload
}

type handler struct {
	ctx context.Context
	h   func(net.Message)
}

type fakeChan struct {
	mu       sync.Mutex
	handlers []handler
	selfPK   []byte
}

func (c *fakeChan) Name() string { return "verif-c35-loop" }
func (c *fakeChan) Send(ctx context.Context, m net.TaggedMarshaler, _ ...net.RetransmissionStrategy) error {
	c.deliver(func() net.Message { return &fakeMsg{pk: c.selfPK, payload: m} })
	return nil
}
func (c *fakeChan) Recv(ctx context.Context, h func(m net.Message)) {
	c.mu.Lock()
	c.handlers = append(c.handlers, handler{ctx, h})
	c.mu.Unlock()
}
func (c *fakeChan) SetUnmarshaler(func() net.TaggedUnmarshaler) {}
func (c *fakeChan) SetFilter(net.BroadcastChannelFilter) error  { return nil }
func (c *fakeChan) deliver(mk func() net.Message) int {
	c.mu.Lock()
	var live []handler
	for _, h := range c.handlers {
		if h.ctx.Err() == nil {
			live = append(live, h)
		}
	}
	c.handlers = live
	c.mu.Unlock()
	for _, h := range live {
		h.h(mk())
	}
	return len(live)
}

// sync: everything delivered so far has been processed by every live listener.
func (c *fakeChan) sync() bool {
	done := make(chan struct{})
	var mu sync.Mutex
	reads, want, closed := 0, -1, false
	check := func() {
		if !closed && want >= 0 && reads >= want {
			closed = true
			close(done)
		}
	}
	n := c.deliver(func() net.Message {
		var once sync.Once
		return &fakeMsg{payload: "sentinel", onRead: func() { once.Do(func() { mu.Lock(); reads++; check(); mu.Unlock() }) }}
	})
	mu.Lock()
	want = n
	check()
	mu.Unlock()
	select {
	case <-done:
		return true
	case <-time.After(15 * time.Second):
		return false
	}
}

type fakeSigning struct{}

func (fakeSigning) Address() chain.Address              { return "" }
func (fakeSigning) PublicKey() []byte                   { return nil }
func (fakeSigning) Sign([]byte) ([]byte, error)         { return nil, nil }
func (fakeSigning) Verify([]byte, []byte) (bool, error) { return false, nil }
func (fakeSigning) VerifyWithPublicKey([]byte, []byte, []byte) (bool, error) {
	return false, nil
}
func (fakeSigning) PublicKeyToAddress(*operator.PublicKey) (chain.Address, error) {
	return "", errors.New("unused")
}
func (fakeSigning) PublicKeyBytesToAddress(pk []byte) chain.Address { return chain.Address(string(pk)) }

func opKey(i int) []byte { return []byte("operator-" + strconv.Itoa(i)) }

func sigOf(id uint64) *tecdsa.Signature {
	if id == 0 {
		return nil
	}
	return &tecdsa.Signature{R: new(big.Int).SetUint64(id), S: big.NewInt(300), RecoveryID: 1}
}

// clock is the scripted block counter.
type clock struct {
	mu    sync.Mutex
	cur   uint64
	start uint64
	wake  chan struct{}
}

func (c *clock) set(b uint64) {
	c.mu.Lock()
	if b > c.cur {
		c.cur = b
		close(c.wake)
		c.wake = make(chan struct{})
	}
	c.mu.Unlock()
}

func (c *clock) wait(ctx context.Context, b uint64) error {
	if b >= c.start+Delay && (b-c.start-Delay)%MaxBlk == 0 { // an announcement start block
		c.set(b)
		return nil
	}
	for {
		c.mu.Lock()
		cur, w := c.cur, c.wake
		c.mu.Unlock()
		if cur >= b {
			return nil
		}
		select {
		case <-w:
		case <-ctx.Done():
			return ctx.Err()
		}
	}
}

type other struct {
	sender           int
	attempt, end, sg uint64
}

type attempt struct {
	ready  []group.MemberIndex
	fail   bool
	ownEnd uint64
	ownSig uint64
	others []other
}

var log = golog.Logger("verif-c35-loop")

func num(s string, max uint64) (uint64, bool) {
	v, err := strconv.ParseUint(s, 10, 64)
	return v, err == nil && strconv.FormatUint(v, 10) == s && v <= max
}

func parse(f []string) (n, t, gs, self int, start uint64, atts []attempt, ok bool) {
	if len(f) != 7 || f[0] != "loop" {
		return
	}
	a, ok1 := num(f[1], 20)
	b, ok2 := num(f[2], 20)
	c, ok3 := num(f[3], 30)
	d, ok4 := num(f[4], 20)
	e, ok5 := num(f[5], 1<<30)
	if !(ok1 && ok2 && ok3 && ok4 && ok5) || a < 1 || b < 1 || b > a || c < a || d < 1 || d > a {
		return
	}
	n, t, gs, self, start = int(a), int(b), int(c), int(d), e
	for _, tok := range hx.SplitList(f[6]) {
		p := strings.Split(tok, "/")
		if len(p) != 3 {
			return
		}
		var at attempt
		if p[0] != "-" {
			for _, m := range strings.Split(p[0], ".") {
				v, okv := num(m, uint64(n))
				if !okv || v < 1 {
					return
				}
				at.ready = append(at.ready, group.MemberIndex(v))
			}
		}
		if p[1] == "f" {
			at.fail = true
		} else {
			q := strings.Split(p[1], ":")
			if len(q) != 2 {
				return
			}
			x, okx := num(q[0], 1<<40)
			y, oky := num(q[1], 1<<40)
			if !okx || !oky || y == 0 {
				return
			}
			at.ownEnd, at.ownSig = x, y
		}
		if p[2] != "-" {
			for _, o := range strings.Split(p[2], "|") {
				q := strings.Split(o, ":")
				if len(q) != 4 {
					return
				}
				s, o1 := num(q[0], 255)
				an, o2 := num(q[1], 1<<20)
				en, o3 := num(q[2], 1<<40)
				sg, o4 := num(q[3], 1<<40)
				if !(o1 && o2 && o3 && o4) {
					return
				}
				at.others = append(at.others, other{int(s), an, en, sg})
			}
		}
		atts = append(atts, at)
	}
	ok = len(atts) > 0 && len(atts) <= 6
	return
}

func joinIdx(ms []group.MemberIndex) string {
	if len(ms) == 0 {
		return "-"
	}
	s := make([]string, len(ms))
	for i, m := range ms {
		s[i] = strconv.Itoa(int(m))
	}
	return strings.Join(s, ".")
}

// Exec runs one loop case.
func Exec(op string) (string, string) {
	n, t, gs, self, start, atts, ok := parse(strings.Fields(op))
	if !ok {
		return "bad-op", "bad"
	}
	message := big.NewInt(4242)
	var operators chain.Addresses
	for i := 1; i <= n; i++ {
		operators = append(operators, chain.Address(string(opKey(i))))
	}
	ch := &fakeChan{selfPK: opKey(self)}
	mv := group.NewMembershipValidator(log, operators, fakeSigning{})
	dc := tbtc.VerifC35NewDoneCheck(gs, ch, mv)
	clk := &clock{cur: 0, start: start, wake: make(chan struct{})}
	ctx, cancel := context.WithCancel(context.Background())
	defer cancel()

	var mu sync.Mutex
	k := 0 // attempts announced so far (= the loop's attempt counter)
	var listens []string
	hung := false
	tags := map[string]bool{}
	protoTimeout := func(k int) uint64 { return start + uint64(k-1)*MaxBlk + Delay + Active + Protocol }
	included := map[uint64][]group.MemberIndex{}
	settle := func(attemptNumber uint64) {
		// everything scripted for this attempt is delivered: if the confirmations are incomplete
		// nothing else will come, time passes until the attempt's protocol timeout
		if !ch.sync() {
			hung = true
		}
		distinct := map[group.MemberIndex]bool{}
		for _, m := range included[attemptNumber] {
			distinct[m] = true
		}
		if dc.VerifC35DoneCount() != len(distinct) {
			clk.set(protoTimeout(int(attemptNumber)))
		}
	}
	cb := &tbtc.VerifC35LoopCallbacks{
		GetCurrentBlock: func() (uint64, error) { clk.mu.Lock(); defer clk.mu.Unlock(); return clk.cur, nil },
		WaitForBlock:    clk.wait,
		Announce: func(_ context.Context, _ group.MemberIndex, _ string) ([]group.MemberIndex, error) {
			mu.Lock()
			defer mu.Unlock()
			k++
			if k > len(atts) {
				cancel()
				return nil, errors.New("scripted: no more attempts")
			}
			return append([]group.MemberIndex(nil), atts[k-1].ready...), nil
		},
		AfterListen: func(an uint64, lt uint64, members []group.MemberIndex) {
			mu.Lock()
			at := atts[k-1]
			listens = append(listens, fmt.Sprintf("%d/%s/%d", an, joinIdx(members), lt))
			included[an] = members
			mu.Unlock()
			for _, o := range at.others {
				o := o
				ch.deliver(func() net.Message {
					return &fakeMsg{pk: opKey(o.sender), payload: tbtc.VerifC35NewDoneMessage(
						group.MemberIndex(o.sender), message, o.attempt, sigOf(o.sg), o.end)}
				})
			}
			skipped := true
			for _, m := range members {
				if int(m) == self {
					skipped = false
				}
			}
			if skipped {
				tags["skipped"] = true
				settle(an)
			} else if !ch.sync() {
				hung = true
			}
		},
		Attempt: func(number uint, _ uint64, _ uint64, _ []group.MemberIndex) (*tecdsa.Signature, uint64, error) {
			mu.Lock()
			at := atts[k-1]
			mu.Unlock()
			if at.fail {
				tags["attemptfail"] = true
				return nil, 0, errors.New("scripted: attempt failed")
			}
			return sigOf(at.ownSig), at.ownEnd, nil
		},
		AfterSignalDone: func(an uint64) { settle(an) },
	}
	type out struct {
		res *tbtc.VerifC35LoopResult
		err error
	}
	resCh := make(chan out, 1)
	go func() {
		r, err := tbtc.VerifC35RunSigningLoop(ctx, message, start, group.MemberIndex(self), operators,
			&tbtc.GroupParameters{GroupSize: gs, GroupQuorum: t, HonestThreshold: t}, dc, cb)
		resCh <- out{r, err}
	}()
	var o out
	select {
	case o = <-resCh:
	case <-time.After(50 * time.Second):
		return "HANG-loop", "hang"
	}
	if hung {
		return "HANG-sentinel", "hang"
	}
	mu.Lock()
	ls := "-"
	if len(listens) > 0 {
		ls = strings.Join(listens, ",")
	}
	mu.Unlock()
	res := "err"
	if o.err == nil && o.res != nil {
		sg := "nil"
		if o.res.Signature != nil {
			sg = o.res.Signature.R.String()
		}
		act := append([]group.MemberIndex(nil), o.res.ActiveMembers...)
		inact := append([]group.MemberIndex(nil), o.res.InactiveMembers...)
		sort.Slice(act, func(i, j int) bool { return act[i] < act[j] })
		sort.Slice(inact, func(i, j int) bool { return inact[i] < inact[j] })
		res = fmt.Sprintf("ok/%s/%d/%d/%s/%s", sg, o.res.LatestEndBlock, o.res.AttemptTimeoutBlock, joinIdx(act), joinIdx(inact))
		tags["loopok"] = true
	} else {
		tags["looperr"] = true
	}
	if gs > n {
		tags["smallwallet"] = true
	}
	ts := []string{"loop"}
	for _, x := range []string{"loopok", "looperr", "skipped", "attemptfail", "smallwallet"} {
		if tags[x] {
			ts = append(ts, x)
		}
	}
	return ls + " " + res, strings.Join(ts, "+")
}

// Gen generates one loop case.
func Gen(r *hx.Rng) string {
	n := r.Range(3, 6)
	t := r.Range(2, n)
	gs := n
	if r.Chance(1, 2) {
		gs = n + r.Range(1, 3)
	}
	self := r.Range(1, n)
	start := uint64(r.Range(10, 1000))
	na := r.Range(1, 3)
	var atts []string
	for k := 1; k <= na; k++ {
		pt := start + uint64(k-1)*MaxBlk + Delay + Active + Protocol
		var ready []string
		for m := 1; m <= n; m++ {
			if m == self || r.Chance(4, 5) {
				ready = append(ready, strconv.Itoa(m))
			}
		}
		sig := uint64(r.Range(1, 3))
		own := fmt.Sprintf("%d:%d", pt-uint64(r.Range(0, 10)), sig)
		if r.Chance(1, 4) && k < na {
			own = "f"
		}
		var others []string
		for m := 1; m <= n; m++ {
			if m == self || (k < na && r.Chance(1, 5)) {
				continue
			}
			end := pt - uint64(r.Range(0, 10))
			if r.Chance(1, 6) {
				end = pt + uint64(r.Range(1, int(CoolDown)+1)) // just after the protocol timeout
			}
			an := uint64(k)
			if r.Chance(1, 10) && k > 1 {
				an = uint64(k - 1)
			}
			others = append(others, fmt.Sprintf("%d:%d:%d:%d", m, an, end, sig))
			if r.Chance(1, 8) { // a second, valid one afterwards
				others = append(others, fmt.Sprintf("%d:%d:%d:%d", m, k, pt-1, sig))
			}
		}
		if k > 1 && r.Chance(1, 3) { // late confirmations of the previous attempt
			ppt := pt - MaxBlk
			for m := 1; m <= n; m++ {
				if m != self {
					others = append(others, fmt.Sprintf("%d:%d:%d:%d", m, k-1, ppt-1, sig))
				}
			}
		}
		os := "-"
		if len(others) > 0 {
			os = strings.Join(others, "|")
		}
		atts = append(atts, fmt.Sprintf("%s/%s/%s", strings.Join(ready, "."), own, os))
	}
	return fmt.Sprintf("loop %d %d %d %d %d %s", n, t, gs, self, start, strings.Join(atts, ","))
}
