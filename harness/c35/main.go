// C35: signing completes only when every included member confirmed the same signature.
//
// Op line (one complete case, fresh signingDoneCheck):
//
//	done <operators> <included> <message> <attempt> <timeoutBlock> <A> <B>
//
//	operators  operator id per group seat (seat i = member index i+1), e.g. 1,2,3,1,4
//	included   member indexes of the attempt (attemptMembersIndexes), e.g. 1,2,3
//	A          done messages delivered (in order) and fully processed BEFORE waitUntilAllDone starts
//	B          done messages delivered by concurrent goroutines WHILE waitUntilAllDone is polling
//	message token: <senderID>.<senderOperator>.<message>.<attempt>.<sig>.<endBlock>[.s]
//	           sig 0 = nil signature; trailing .s = sent through the real signalDone
//
// Obs line: <outcome>/<number of recorded confirmations afterwards>
//
//	outcome = ok.<sig>.<endBlock> | timeout | mismatch | err:other
package main

import (
	"context"
	"fmt"
	"math/big"
	"strconv"
	"strings"
	"sync"
	"time"

	"keepverif/harness/astfacts"
	"keepverif/harness/c35/looprun"
	"keepverif/harness/hx"

	golog "github.com/ipfs/go-log/v2"
	"github.com/keep-network/keep-core/pkg/chain"
	"github.com/keep-network/keep-core/pkg/net"
	"github.com/keep-network/keep-core/pkg/operator"
	"github.com/keep-network/keep-core/pkg/protocol/group"
	"github.com/keep-network/keep-core/pkg/tbtc"
	"github.com/keep-network/keep-core/pkg/tecdsa"
)

// ---- fakes of the exported collaborator interfaces -------------------------------

type fakeMsg struct {
	pk      []byte
	payload interface{}
	onRead  func() // called when the listener goroutine dequeues the message and reads it
}

func (m *fakeMsg) TransportSenderID() net.TransportIdentifier { return nil }
func (m *fakeMsg) SenderPublicKey() []byte                    { return m.pk }
func (m *fakeMsg) Type() string                               { return "tbtc/signing_done_message" }
func (m *fakeMsg) Seqno() uint64                              { return 0 }
func (m *fakeMsg) Payload() interface{} {
	if m.onRead != nil {
		m.onRead()
	}
	return m.payload
}

// fakeChan is a net.BroadcastChannel that hands messages straight to the registered handler.
type fakeChan struct {
	mu       sync.Mutex
	handlers []fakeHandler // like a real channel: every handler whose context is alive gets every message
	selfPK   []byte        // key stamped on messages sent through Send (signalDone)
}

type fakeHandler struct {
	ctx context.Context
	h   func(net.Message)
}

func (c *fakeChan) Name() string { return "verif-c35" }
func (c *fakeChan) Send(ctx context.Context, m net.TaggedMarshaler, _ ...net.RetransmissionStrategy) error {
	c.mu.Lock()
	pk := c.selfPK
	c.mu.Unlock()
	c.deliver(func() net.Message { return &fakeMsg{pk: pk, payload: m} })
	return nil
}
func (c *fakeChan) Recv(ctx context.Context, handler func(m net.Message)) {
	c.mu.Lock()
	c.handlers = append(c.handlers, fakeHandler{ctx, handler})
	c.mu.Unlock()
}
func (c *fakeChan) SetUnmarshaler(func() net.TaggedUnmarshaler) {}
func (c *fakeChan) SetFilter(net.BroadcastChannelFilter) error  { return nil }

// deliver hands a fresh copy of the message to every live handler; returns how many there were.
func (c *fakeChan) deliver(mk func() net.Message) int {
	c.mu.Lock()
	var live []fakeHandler
	for _, h := range c.handlers {
		if h.ctx.Err() == nil {
			live = append(live, h)
		}
	}
	c.handlers = live
	c.mu.Unlock()
	for _, h := range live {
		h.h(mk())
	}
	return len(live)
}

// fakeSigning: the address of a public key is the key itself.
type fakeSigning struct{}

func (fakeSigning) Address() chain.Address              { return "" }
func (fakeSigning) PublicKey() []byte                   { return nil }
func (fakeSigning) Sign([]byte) ([]byte, error)         { return nil, nil }
func (fakeSigning) Verify([]byte, []byte) (bool, error) { return false, nil }
func (fakeSigning) VerifyWithPublicKey([]byte, []byte, []byte) (bool, error) {
	return false, nil
}
func (fakeSigning) PublicKeyToAddress(*operator.PublicKey) (chain.Address, error) {
	return "", fmt.Errorf("unused")
}
func (fakeSigning) PublicKeyBytesToAddress(pk []byte) chain.Address {
	return chain.Address(string(pk))
}

// ---- op parsing -----------------------------------------------------------------------

type dmsg struct {
	sender, op                   int
	message, attempt, sig, endBl uint64
	viaSignal                    bool
}

func canon(s string, max uint64) (uint64, bool) {
	v, err := strconv.ParseUint(s, 10, 64)
	if err != nil || strconv.FormatUint(v, 10) != s || v > max {
		return 0, false
	}
	return v, true
}

func parseMsgs(s string) ([]dmsg, bool) {
	var out []dmsg
	for _, t := range hx.SplitList(s) {
		p := strings.Split(t, ".")
		m := dmsg{}
		if len(p) == 7 && p[6] == "s" {
			m.viaSignal = true
			p = p[:6]
		}
		if len(p) != 6 {
			return nil, false
		}
		var v [6]uint64
		for i, max := range []uint64{255, 1000, 1 << 40, 1 << 40, 1 << 40, 1 << 40} {
			x, ok := canon(p[i], max)
			if !ok {
				return nil, false
			}
			v[i] = x
		}
		m.sender, m.op, m.message, m.attempt, m.sig, m.endBl = int(v[0]), int(v[1]), v[2], v[3], v[4], v[5]
		out = append(out, m)
	}
	return out, true
}

func parseSmall(s string, lo, hi uint64, allowEmpty bool) ([]uint64, bool) {
	var out []uint64
	for _, t := range hx.SplitList(s) {
		v, ok := canon(t, hi)
		if !ok || v < lo {
			return nil, false
		}
		out = append(out, v)
	}
	return out, allowEmpty || len(out) > 0
}

func sigOf(id uint64) *tecdsa.Signature {
	if id == 0 {
		return nil
	}
	return &tecdsa.Signature{R: new(big.Int).SetUint64(id), S: big.NewInt(300), RecoveryID: 1}
}

func opKey(op int) []byte { return []byte("operator-" + strconv.Itoa(op)) }

var quietLogger = golog.Logger("verif-c35")

func exec(op string) (string, string) {
	f := strings.Fields(op)
	if len(f) > 0 && f[0] == "loop" {
		return looprun.Exec(op)
	}
	var specs [][]string
	switch {
	case len(f) == 8 && f[0] == "done":
		specs = [][]string{f[2:8]}
	case len(f) >= 8 && f[0] == "dones" && (len(f)-2)%6 == 0 && len(f) <= 2+6*8:
		for i := 2; i < len(f); i += 6 {
			specs = append(specs, f[i:i+6])
		}
	default:
		return "bad-op", "bad"
	}
	operators, ok1 := parseSmall(f[1], 0, 1000, false)
	if !ok1 || len(operators) > 255 {
		return "bad-op", "bad"
	}
	for _, sp := range specs { // validate everything before running anything
		_, ok2 := parseSmall(sp[0], 0, 255, true)
		_, ok3 := canon(sp[1], 1<<40)
		_, ok4 := canon(sp[2], 1<<40)
		_, ok5 := canon(sp[3], 1<<40)
		A, ok6 := parseMsgs(sp[4])
		B, ok7 := parseMsgs(sp[5])
		if sp[5] == "nowait" && f[0] == "dones" {
			B, ok7 = nil, true
		}
		if !(ok2 && ok3 && ok4 && ok5 && ok6 && ok7) || len(A)+len(B) > 400 {
			return "bad-op", "bad"
		}
	}
	var addrs []chain.Address
	for _, o := range operators {
		addrs = append(addrs, chain.Address(string(opKey(int(o)))))
	}
	// ONE long-lived signingDoneCheck; listen() is called again for every attempt, as the signing
	// retry loop does.
	ch := &fakeChan{}
	mv := group.NewMembershipValidator(quietLogger, addrs, fakeSigning{})
	dc := tbtc.VerifC35NewDoneCheck(len(operators), ch, mv)
	var outs []string
	tagset := map[string]bool{}
	var order []string
	// contexts of attempts that end without waitUntilAllDone stay alive (in the node: until the
	// attempt's timeout block); they are cancelled when the case is over
	var keep []context.CancelFunc
	defer func() {
		for _, c := range keep {
			c()
		}
	}()
	for _, sp := range specs {
		o, t := runAttempt(dc, ch, operators, sp, &keep)
		if strings.HasPrefix(o, "HANG") {
			return o, "hang"
		}
		outs = append(outs, o)
		for _, x := range strings.Split(t, "+") {
			if x != "" && !tagset[x] {
				tagset[x] = true
				order = append(order, x)
			}
		}
	}
	if len(specs) > 1 {
		order = append(order, "multiattempt")
	}
	return strings.Join(outs, ";"), strings.Join(order, "+")
}

// runAttempt: listen + deliveries + waitUntilAllDone of one attempt on the given check.
func runAttempt(dc *tbtc.VerifC35DoneCheck, ch *fakeChan, operators []uint64, f []string, keep *[]context.CancelFunc) (string, string) {
	included, _ := parseSmall(f[0], 0, 255, true)
	message, _ := canon(f[1], 1<<40)
	attempt, _ := canon(f[2], 1<<40)
	timeoutBlock, _ := canon(f[3], 1<<40)
	A, _ := parseMsgs(f[4])
	noWait := f[5] == "nowait"
	var B []dmsg
	if !noWait {
		B, _ = parseMsgs(f[5])
	}

	ctx, cancel := context.WithCancel(context.Background())
	if noWait {
		*keep = append(*keep, cancel)
	} else {
		defer cancel()
	}
	members := make([]group.MemberIndex, len(included))
	for i, m := range included {
		members[i] = group.MemberIndex(m)
	}
	dc.VerifC35Listen(ctx, new(big.Int).SetUint64(message), attempt, timeoutBlock, members)

	send := func(m dmsg) {
		if m.viaSignal {
			ch.mu.Lock()
			ch.selfPK = opKey(m.op)
			ch.mu.Unlock()
			_ = dc.VerifC35SignalDone(ctx, group.MemberIndex(m.sender), new(big.Int).SetUint64(m.message),
				m.attempt, sigOf(m.sig), m.endBl)
			return
		}
		ch.deliver(func() net.Message {
			return &fakeMsg{pk: opKey(m.op), payload: tbtc.VerifC35NewDoneMessage(
				group.MemberIndex(m.sender), new(big.Int).SetUint64(m.message), m.attempt, sigOf(m.sig), m.endBl)}
		})
	}
	// a sentinel is a message of another type: the listener reads its payload (=> everything
	// delivered before it has been fully processed) and skips it.
	sentinel := func() chan struct{} {
		c := make(chan struct{})
		var mu sync.Mutex
		reads, want, closed := 0, -1, false
		check := func() {
			if !closed && want >= 0 && reads >= want {
				closed = true
				close(c)
			}
		}
		n := ch.deliver(func() net.Message {
			var once sync.Once
			return &fakeMsg{payload: "sentinel", onRead: func() {
				once.Do(func() { mu.Lock(); reads++; check(); mu.Unlock() })
			}}
		})
		mu.Lock()
		want = n
		check()
		mu.Unlock()
		return c
	}
	waitFor := func(c chan struct{}, alt <-chan struct{}) bool {
		select {
		case <-c:
			return true
		case <-alt:
			return true
		case <-time.After(15 * time.Second):
			return false
		}
	}

	// phase A
	for _, m := range A {
		send(m)
	}
	if !waitFor(sentinel(), nil) {
		return "HANG-sentinel-A", "hang"
	}
	countA := dc.VerifC35DoneCount()
	if noWait {
		// the attempt fails before waitUntilAllDone is reached (signingAttemptFn error -> continue)
		return "nowait/" + strconv.Itoa(countA), "nowait"
	}

	// waiter
	type res struct {
		sig     *tecdsa.Signature
		end     uint64
		err     error
		timeout bool
	}
	resCh := make(chan res, 1)
	finished := make(chan struct{})
	go func() {
		s, e, err, to := dc.VerifC35WaitUntilAllDone(ctx)
		resCh <- res{s, e, err, to}
		close(finished)
	}()

	// phase B: arrival while the waiter polls.  The code under test has ONE listener goroutine, so
	// what races with the waiter is that goroutine; the order in which it sees the messages is the
	// order of delivery.  If two different messages of B have the same sender (first one wins) B is
	// delivered in order by one goroutine, otherwise by concurrent goroutines (order irrelevant).
	if len(B) > 0 {
		ordered := false
		for i := range B {
			for j := range B {
				if i != j && B[i].sender == B[j].sender && B[i] != B[j] {
					ordered = true
				}
			}
			if B[i].viaSignal {
				ordered = true // signalDone shares the channel's self key
			}
		}
		var wg sync.WaitGroup
		start := make(chan struct{})
		if ordered {
			wg.Add(1)
			go func() {
				defer wg.Done()
				<-start
				for _, m := range B {
					send(m)
				}
			}()
		} else {
			for _, m := range B {
				wg.Add(1)
				go func(m dmsg) {
					defer wg.Done()
					<-start
					send(m)
				}(m)
			}
		}
		close(start)
		wg.Wait()
		if !waitFor(sentinel(), finished) {
			return "HANG-sentinel-B", "hang"
		}
	}
	// Nothing more will arrive.  If the confirmations are complete the waiter returns at its next
	// tick; otherwise it can only time out: cancel its context now instead of waiting.
	expected := len(included)
	_ = expected
	select {
	case <-finished:
	default:
		if !completeNow(dc, included) {
			cancel()
		}
		select {
		case <-finished:
		case <-time.After(15 * time.Second):
			return "HANG-wait", "hang"
		}
	}
	r := <-resCh
	count := dc.VerifC35DoneCount()

	var out string
	switch {
	case r.err == nil && r.sig != nil:
		out = fmt.Sprintf("ok.%s.%d", r.sig.R.String(), r.end)
	case r.err == nil:
		out = fmt.Sprintf("ok.nil.%d", r.end)
	case r.timeout:
		out = "timeout"
	case strings.Contains(r.err.Error(), "not matching signatures detected"):
		out = "mismatch"
	default:
		out = "err:other"
	}
	out += "/" + strconv.Itoa(count)

	// branch tags
	tags := []string{}
	add := func(b bool, s string) {
		if b {
			tags = append(tags, s)
		}
	}
	inc := map[uint64]bool{}
	for _, m := range included {
		inc[m] = true
	}
	excl, dup, late, wrong, nilsig, badmember, viaSig := false, false, false, false, false, false, false
	seen := map[int]bool{}
	for _, m := range append(append([]dmsg{}, A...), B...) {
		if !inc[uint64(m.sender)] {
			excl = true
		}
		if seen[m.sender] {
			dup = true
		}
		seen[m.sender] = true
		if m.endBl > timeoutBlock {
			late = true
		}
		if m.message != message || m.attempt != attempt {
			wrong = true
		}
		if m.sig == 0 {
			nilsig = true
		}
		if m.sender < 1 || m.sender > len(operators) || int(operators[m.sender-1]) != m.op {
			badmember = true
		}
		if m.viaSignal {
			viaSig = true
		}
	}
	add(strings.HasPrefix(out, "ok."), "success")
	add(strings.HasPrefix(out, "timeout"), "timeout")
	add(strings.HasPrefix(out, "mismatch"), "mismatch")
	add(excl, "excluded")
	add(dup, "dup")
	add(late, "late")
	add(wrong, "wrongattempt")
	add(nilsig, "nilsig")
	add(badmember, "badmember")
	add(viaSig, "signaldone")
	add(len(B) > 0, "concurrent")
	add(len(B) > 0 && count > countA, "lateconfirm")
	sameSenderB := false
	for i := range B {
		for j := range B {
			if i != j && B[i].sender == B[j].sender && B[i] != B[j] {
				sameSenderB = true
			}
		}
	}
	add(sameSenderB, "firstwins")
	return out, strings.Join(tags, "+")
}

// completeNow: the waiter's completion condition holds in the current (final) state.
func completeNow(dc *tbtc.VerifC35DoneCheck, included []uint64) bool {
	distinct := map[uint64]bool{}
	for _, m := range included {
		distinct[m] = true
	}
	n := dc.VerifC35DoneCount()
	// the code compares against the size of the attempt's member set (before the repair: against
	// the length of the list); either way a final state that satisfies neither can only time out.
	return n == len(distinct) || n == len(included)
}

// ---- generator --------------------------------------------------------------------------

func fmtMsg(m dmsg) string {
	s := fmt.Sprintf("%d.%d.%d.%d.%d.%d", m.sender, m.op, m.message, m.attempt, m.sig, m.endBl)
	if m.viaSignal {
		s += ".s"
	}
	return s
}

func joinMsgs(ms []dmsg) string {
	if len(ms) == 0 {
		return "-"
	}
	ss := make([]string, len(ms))
	for i, m := range ms {
		ss[i] = fmtMsg(m)
	}
	return strings.Join(ss, ",")
}

func gen(r *hx.Rng, n int, tier string) []string {
	var ops []string
	for i := 0; i < n; i++ {
		if i%10 == 9 {
			ops = append(ops, looprun.Gen(r))
			continue
		}
		if r.Chance(1, 30) {
			ops = append(ops, hx.Pick(r, []string{"done 1,2 1 5 1 10 1.1.5.1.7 -", "done 1,2 1 5 1 10 01.1.5.1.7.3 -",
				"done - 1 5 1 10 - -", "done 1,2 1 5 1 10 1.1.5.1.7.3.x -", "done 1 2"}))
			continue
		}
		gs := r.Range(3, 8)
		nOps := r.Range(1, gs)
		operators := make([]uint64, gs)
		for j := range operators {
			operators[j] = uint64(1 + r.Intn(nOps))
		}
		// included: a subset of the seats, sometimes everyone, rarely with a duplicate
		var included []uint64
		k := r.Range(1, gs)
		for _, p := range r.Perm(gs)[:k] {
			included = append(included, uint64(p+1))
		}
		if r.Chance(1, 25) {
			included = append(included, included[0])
		}
		inc := map[uint64]bool{}
		for _, m := range included {
			inc[m] = true
		}
		message, attempt, timeoutBlock := uint64(r.Range(1, 1000)), uint64(r.Range(1, 9)), uint64(r.Range(500, 600))
		sig := uint64(r.Range(1, 5))
		good := func(sender uint64) dmsg {
			return dmsg{sender: int(sender), op: int(operators[sender-1]), message: message, attempt: attempt, sig: sig,
				endBl: uint64(r.Range(400, int(timeoutBlock)))}
		}
		var all []dmsg
		// scenario
		scen := r.Intn(10)
		// confirmations of the included members (sometimes one missing)
		missing := -1
		if scen == 0 || scen == 1 {
			missing = r.Intn(len(included))
		}
		for j, m := range included {
			if j == missing {
				continue
			}
			g := good(m)
			if r.Chance(1, 6) {
				g.viaSignal = true
			}
			all = append(all, g)
		}
		// disturbances
		nd := r.Range(0, 4)
		if scen == 1 || scen == 2 { // a confirmation from an excluded seat (with a valid membership)
			for s := 1; s <= gs; s++ {
				if !inc[uint64(s)] {
					all = append(all, good(uint64(s)))
					break
				}
			}
		}
		for j := 0; j < nd; j++ {
			base := good(uint64(r.Range(1, gs)))
			switch r.Intn(9) {
			case 0:
				base.message++
			case 1:
				base.attempt += uint64(r.Range(1, 2))
			case 2:
				base.endBl = timeoutBlock + uint64(r.Range(1, 3))
			case 3:
				base.endBl = timeoutBlock
			case 4:
				base.sig = 0
			case 5:
				base.sig = sig + 1 // mismatching signature
			case 6:
				base.op = base.op%nOps + 1 + r.Intn(2) // other operator's key for that seat
			case 7:
				base.sender = hx.Pick(r, []int{0, gs + 1, 255})
			case 8: // exact duplicate of an earlier message
				if len(all) > 0 {
					base = all[r.Intn(len(all))]
				}
			}
			all = append(all, base)
		}
		// order: mostly shuffled
		if r.Chance(3, 4) {
			p := r.Perm(len(all))
			sh := make([]dmsg, len(all))
			for a, b := range p {
				sh[a] = all[b]
			}
			all = sh
		}
		// split A | B
		cut := len(all)
		switch r.Intn(4) {
		case 0:
			cut = r.Intn(len(all) + 1)
		case 1:
			cut = 0
		}
		A, B := all[:cut], all[cut:]
		A2, B2 := A, B
		// any message (also a disturbance) may go through the real signalDone
		for k := range A2 {
			if r.Chance(1, 8) {
				A2[k].viaSignal = true
			}
		}
		for k := range B2 {
			if r.Chance(1, 8) {
				B2[k].viaSignal = true
			}
		}
		spec := fmt.Sprintf("%s %d %d %d %s %s", hx.JoinInts(included), message, attempt, timeoutBlock, joinMsgs(A2), joinMsgs(B2))
		if i%3 == 2 {
			// several attempts on one long-lived check: the next attempt has another member subset,
			// attempt number and timeout; confirmations of the previous attempt are replayed into it
			specs := []string{spec}
			prev := append(append([]dmsg{}, A2...), B2...)
			for a := 1; a <= r.Range(1, 3); a++ {
				attempt2 := attempt + uint64(a)
				timeout2 := timeoutBlock + uint64(100*a)
				var inc2 []uint64
				for _, p := range r.Perm(gs)[:r.Range(1, gs)] {
					inc2 = append(inc2, uint64(p+1))
				}
				var ms []dmsg
				skip := -1
				if r.Chance(1, 2) {
					skip = r.Intn(len(inc2))
				}
				for j, m := range inc2 {
					if j == skip {
						continue
					}
					ms = append(ms, dmsg{sender: int(m), op: int(operators[m-1]), message: message, attempt: attempt2, sig: sig,
						endBl: uint64(r.Range(400, int(timeout2)))})
				}
				if r.Chance(1, 2) && len(prev) > 0 { // stale confirmations of the previous attempt
					ms = append(ms, prev[r.Intn(len(prev))])
				}
				cut := r.Intn(len(ms) + 1)
				specs = append(specs, fmt.Sprintf("%s %d %d %d %s %s", hx.JoinInts(inc2), message, attempt2, timeout2,
					joinMsgs(ms[:cut]), joinMsgs(ms[cut:])))
				prev = ms
			}
			if r.Chance(1, 2) {
				// the first attempt fails before waitUntilAllDone: its listener is still around when
				// the next attempt listens; its (valid) confirmations arrive during the next attempt
				first := fmt.Sprintf("%s %d %d %d %s nowait", hx.JoinInts(included), message, attempt, timeoutBlock, joinMsgs(A2))
				var late []dmsg
				for _, m := range included {
					late = append(late, good(m))
				}
				second := strings.Fields(specs[1])
				if second[4] == "-" {
					second[4] = joinMsgs(late)
				} else {
					second[4] += "," + joinMsgs(late)
				}
				specs[0], specs[1] = first, strings.Join(second, " ")
			}
			ops = append(ops, fmt.Sprintf("dones %s %s", hx.JoinInts(operators), strings.Join(specs, " ")))
			continue
		}
		ops = append(ops, fmt.Sprintf("done %s %s", hx.JoinInts(operators), spec))
	}
	return ops
}

func main() {
	hx.Main(&hx.Config{
		Prop: "C35",
		Gen:  gen,
		Exec: exec,
		Facts: func() []string {
			// every syntactic access to doneSigners in the wait loop and in the completion check
			// it calls (checkAllDone, if the source has one) is under doneSignersMutex
			const file = "pkg/tbtc/signing_done.go"
			guarded, _, err := astfacts.GuardedBy(file,
				"signingDoneCheck.waitUntilAllDone", "doneSignersMutex", "doneSigners")
			ok := err == nil && guarded
			if _, _, e := astfacts.FindFunc(file, "signingDoneCheck.checkAllDone"); e == nil {
				g2, _, err2 := astfacts.GuardedBy(file,
					"signingDoneCheck.checkAllDone", "doneSignersMutex", "doneSigners")
				ok = ok && err2 == nil && g2
			}
			return append([]string{astfacts.BoolFact("waitLoopReadsGuarded", ok)}, looprun.Facts()...)
		},
		PerOpTimeout: 60 * time.Second,
	})
}
