// C06: relay entry requests are processed at most once and in order
// (pkg/beacon/event Deduplicator.NotifyRelayEntryStarted).
//
//	seq  <n1,n2,...>                 n = blk:prev:chainPrev:chainBlk  (sequential calls, the
//	                                 scripted chain answers per call)
//	conc <chainPrev> <chainBlk> <prefix n,...|-> <concurrent n,...>   n = blk:prev
//	                                 prefix sequentially, then every remaining notification from
//	                                 its own goroutine at once (binary is built with -race)
//
// prev / chainPrev: lower/upper-case hex text, `-` = empty; chainPrev `!` = the chain call fails;
// chainBlk: decimal big integer (may exceed uint64 or be negative: the code takes .Uint64()) or `!`.
// Obs: outcome letters, A = (true,nil)  R = (false,nil)  P = error from CurrentRequestPreviousEntry
// B = error from CurrentRequestStartBlock; seq: `A,R,...`; conc: `<prefix outcomes> <outcomes>`.
package main

import (
	"encoding/hex"
	"errors"
	"fmt"
	"go/ast"
	"go/parser"
	"go/token"
	"math/big"
	"os"
	"path/filepath"
	"runtime"
	"strings"
	"sync"
	"sync/atomic"
	"time"

	"keepverif/harness/hx"

	"github.com/keep-network/keep-core/pkg/beacon/event"
)

type fakeChain struct {
	mu    sync.Mutex
	prev  string // hex text | - | !
	blk   string // decimal | !
	calls int
	// concurrent batches: a chain call lingers until a second caller is inside as well (or a
	// few milliseconds passed). With the method body under one mutex no second caller can ever
	// arrive, so this changes timing only, never an answer; it widens check-then-act windows.
	rendezvous bool
	inside     int32
}

func (c *fakeChain) linger() {
	if !c.rendezvous {
		return
	}
	atomic.AddInt32(&c.inside, 1)
	deadline := time.Now().Add(3 * time.Millisecond)
	for atomic.LoadInt32(&c.inside) < 2 && time.Now().Before(deadline) {
		runtime.Gosched()
	}
	time.Sleep(200 * time.Microsecond)
	atomic.AddInt32(&c.inside, -1)
}

func (c *fakeChain) set(prev, blk string) {
	c.mu.Lock()
	c.prev, c.blk = prev, blk
	c.mu.Unlock()
}

func (c *fakeChain) CurrentRequestStartBlock() (*big.Int, error) {
	c.linger()
	c.mu.Lock()
	defer c.mu.Unlock()
	c.calls++
	if c.blk == "!" {
		return nil, errors.New("start block unavailable")
	}
	v, ok := new(big.Int).SetString(c.blk, 10)
	if !ok {
		panic("harness: bad chain block " + c.blk)
	}
	return v, nil
}

func (c *fakeChain) CurrentRequestPreviousEntry() ([]byte, error) {
	c.linger()
	c.mu.Lock()
	defer c.mu.Unlock()
	c.calls++
	if c.prev == "!" {
		return nil, errors.New("previous entry unavailable")
	}
	if c.prev == "-" {
		return []byte{}, nil
	}
	b, err := hex.DecodeString(c.prev)
	if err != nil {
		panic("harness: bad chain prev " + c.prev)
	}
	return b, nil
}

func txt(s string) string {
	if s == "-" {
		return ""
	}
	return s
}

func outcome(ok bool, err error) string {
	switch {
	case err == nil && ok:
		return "A"
	case err == nil:
		return "R"
	case ok:
		return "X" // (true, err) never happens in the model
	case strings.Contains(err.Error(), "previous entry"):
		return "P"
	case strings.Contains(err.Error(), "start block"):
		return "B"
	}
	return "E"
}

func exec(op string) (string, string) {
	f := strings.Fields(op)
	switch {
	case len(f) == 2 && f[0] == "seq":
		ch := &fakeChain{}
		d := event.NewDeduplicator(ch)
		var outs []string
		tags := map[string]bool{}
		for _, n := range hx.SplitList(f[1]) {
			p := strings.Split(n, ":")
			if len(p) != 4 {
				return "bad-op", "bad"
			}
			ch.set(p[2], p[3])
			before := ch.calls
			ok, err := d.NotifyRelayEntryStarted(hx.AtoU64(p[0]), txt(p[1]))
			o := outcome(ok, err)
			outs = append(outs, o)
			if ch.calls > before {
				tags["chain"] = true
				if o == "A" {
					tags["confirmed"] = true
				}
				if o == "R" {
					tags["reorg"] = true
				}
			}
			if o == "P" || o == "B" {
				tags["err"] = true
			}
			if o == "R" && ch.calls == before {
				tags["stale"] = true
			}
			if p[0] == "0" {
				tags["block0"] = true
			}
		}
		tag := "seq"
		for _, t := range []string{"chain", "confirmed", "reorg", "err", "stale", "block0"} {
			if tags[t] {
				tag += "+" + t
			}
		}
		return hx.JoinStrs(outs), tag
	case len(f) == 5 && f[0] == "conc":
		ch := &fakeChain{prev: f[1], blk: f[2]}
		d := event.NewDeduplicator(ch)
		var pre []string
		for _, n := range hx.SplitList(f[3]) {
			p := strings.Split(n, ":")
			if len(p) != 2 {
				return "bad-op", "bad"
			}
			ok, err := d.NotifyRelayEntryStarted(hx.AtoU64(p[0]), txt(p[1]))
			pre = append(pre, outcome(ok, err))
		}
		ns := hx.SplitList(f[4])
		ch.rendezvous = true
		outs := make([]string, len(ns))
		start := make(chan struct{})
		var wg sync.WaitGroup
		for i, n := range ns {
			p := strings.Split(n, ":")
			if len(p) != 2 {
				return "bad-op", "bad"
			}
			wg.Add(1)
			go func(i int, blk uint64, prev string) {
				defer wg.Done()
				<-start
				ok, err := d.NotifyRelayEntryStarted(blk, prev)
				outs[i] = outcome(ok, err)
			}(i, hx.AtoU64(p[0]), txt(p[1]))
		}
		close(start)
		wg.Wait()
		tag := "conc"
		seen := map[string]bool{}
		for _, n := range ns {
			if seen[n] {
				tag = "conc+dupconc"
			}
			seen[n] = true
		}
		return hx.JoinStrs(pre) + " " + hx.JoinStrs(outs), tag
	}
	return "bad-op", "bad"
}

var entries = []string{"aa", "bb", "0c", "AA", "-", "aabb", "00"}

func gen(r *hx.Rng, n int, tier string) []string {
	var ops []string
	for i := 0; i < n; i++ {
		if r.Chance(1, 4) {
			// concurrent batch
			cp := hx.Pick(r, entries[:3])
			base := uint64(r.Range(1, 50))
			cb := fmt.Sprint(base + uint64(r.Intn(4)))
			if r.Chance(1, 8) {
				cp = "!"
			}
			if r.Chance(1, 8) {
				cb = "!"
			}
			var pre, conc []string
			for j := r.Intn(3); j > 0; j-- {
				pre = append(pre, fmt.Sprintf("%d:%s", base+uint64(r.Intn(3)), hx.Pick(r, entries[:3])))
			}
			k := r.Range(2, 5)
			for j := 0; j < k; j++ {
				if j > 0 && r.Chance(1, 3) {
					conc = append(conc, conc[r.Intn(len(conc))]) // the same event delivered twice
					continue
				}
				conc = append(conc, fmt.Sprintf("%d:%s", base+uint64(r.Intn(5)), hx.Pick(r, entries[:3])))
			}
			ops = append(ops, fmt.Sprintf("conc %s %s %s %s", cp, cb, hx.JoinStrs(pre), hx.JoinStrs(conc)))
			continue
		}
		ln := r.Range(1, 10)
		if r.Chance(1, 10) {
			ln = r.Range(10, 40)
		}
		cur := uint64(r.Range(1, 30))
		if r.Chance(1, 40) {
			cur = 0
		}
		if r.Chance(1, 30) {
			cur = 1<<63 + uint64(r.Intn(5))
		}
		curPrev := hx.Pick(r, entries)
		var ns []string
		for j := 0; j < ln; j++ {
			blk, prev := cur, curPrev
			switch r.Intn(8) {
			case 0: // duplicate redelivery
			case 1: // stale
				if cur > 1 {
					blk = cur - uint64(r.Range(1, int(min64(cur-1, 5))))
				}
				prev = hx.Pick(r, entries)
			case 2, 3: // new request, new entry
				blk = cur + uint64(r.Range(1, 5))
				prev = hx.Pick(r, entries)
			case 4, 5, 6: // later request reusing the previous entry (retry or reorg)
				blk = cur + uint64(r.Range(1, 5))
			default:
				blk = uint64(r.Intn(40))
				if tier == "thorough" && r.Chance(1, 20) {
					blk = 0
				}
				prev = hx.Pick(r, entries)
			}
			cp, cb := strings.ToLower(prev), fmt.Sprint(blk) // the chain confirms…
			switch r.Intn(8) {
			case 0:
				cp = "!"
			case 1:
				cb = "!"
			case 2:
				cb = fmt.Sprint(blk + uint64(r.Range(1, 3))) // …or moved on
			case 3:
				cp = hx.Pick(r, entries[:3])
			case 4: // exceeds uint64 / negative: .Uint64() truncates
				if r.Bool() {
					cb = new(big.Int).Add(new(big.Int).Lsh(big.NewInt(int64(r.Range(1, 3))), 64), new(big.Int).SetUint64(blk)).String()
				} else {
					cb = "-" + fmt.Sprint(blk)
				}
			}
			if cp != "!" && cp != "-" {
				cp = strings.ToLower(cp)
			}
			ns = append(ns, fmt.Sprintf("%d:%s:%s:%s", blk, prev, cp, cb))
			// follow the real state only approximately: assume acceptance when newer
			if blk > cur && r.Chance(3, 4) {
				cur, curPrev = blk, prev
			}
		}
		ops = append(ops, "seq "+strings.Join(ns, ","))
	}
	return ops
}

func min64(a, b uint64) uint64 {
	if a < b {
		return a
	}
	return b
}

// T1 lock-set fact: the body of NotifyRelayEntryStarted starts with
// `d.relayEntryMutex.Lock(); defer d.relayEntryMutex.Unlock()` and no other statement touches
// the mutex (so the whole body is one critical section).
func lockFact() bool {
	repo := os.Getenv("VERIF_REPO")
	if repo == "" {
		repo = "/repo"
	}
	fset := token.NewFileSet()
	file, err := parser.ParseFile(fset, filepath.Join(repo, "pkg/beacon/event/deduplicator.go"), nil, 0)
	if err != nil {
		return false
	}
	isMutexCall := func(e ast.Expr, method string) bool {
		c, ok := e.(*ast.CallExpr)
		if !ok {
			return false
		}
		s, ok := c.Fun.(*ast.SelectorExpr)
		if !ok || s.Sel.Name != method {
			return false
		}
		m, ok := s.X.(*ast.SelectorExpr)
		return ok && m.Sel.Name == "relayEntryMutex"
	}
	for _, d := range file.Decls {
		fn, ok := d.(*ast.FuncDecl)
		if !ok || fn.Name.Name != "NotifyRelayEntryStarted" || fn.Body == nil || len(fn.Body.List) < 2 {
			continue
		}
		s0, ok0 := fn.Body.List[0].(*ast.ExprStmt)
		s1, ok1 := fn.Body.List[1].(*ast.DeferStmt)
		if !ok0 || !ok1 || !isMutexCall(s0.X, "Lock") || !isMutexCall(s1.Call, "Unlock") {
			return false
		}
		others := 0
		ast.Inspect(fn.Body, func(n ast.Node) bool {
			if s, ok := n.(*ast.SelectorExpr); ok && s.Sel.Name == "relayEntryMutex" {
				others++
			}
			return true
		})
		return others == 2
	}
	return false
}

func main() {
	hx.Main(&hx.Config{
		Prop: "C06",
		Gen:  gen,
		Exec: exec,
		Facts: func() []string {
			return []string{fmt.Sprintf("bool relayMutexHeldForWholeBody %v", lockFact())}
		},
	})
}
