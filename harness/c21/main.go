// C21: firewall admits exactly allowlisted or recognized operators.
//
// Op line (one complete history of validations on ONE firewall instance per line):
//
//	fw <allow> <napps> <steps>
//
// allow  "-" or comma list of key indices 0..K-1 on the allowlist
// napps  number of applications
// steps  comma list of <adv>/<key>/<answers>: advance the clock by <adv> seconds (a multiple of
//
//	gridSeconds), then Validate(key) while application i would answer answers[i]
//	if it is asked: y = (true, nil), n = (false, nil), e = (false, err), b = (true, err) —
//	all four combinations of the two results of IsRecognized.
//
// Obs line: comma list, one item per step: <V><calls>:<positive cache keys>:<negative cache keys>
// V = A (nil), R (errNotRecognized), E (wrapped application error); calls = IsRecognized calls
// made during the step; cache keys as k@age (age of the entry's timestamp in seconds, rounded to the grid),
// '.'-separated, sorted by key, "-" if empty (state after the step).
//
// Clock: keep-common's TimeCache reads time.Now. The firewall is created with the REAL constructor
// (real periods 12h / 1h); "advancing the clock" moves every stored timestamp of both caches back
// by <adv> (reflect/unsafe on cache.TimeCache). All advances are multiples of 420 s, the periods
// are not (nearest grid points are >= 60 s away: theorem grid_margin over the generated facts), so the real time that
// passes while a case runs (micro/milliseconds, < 60 s) never decides a comparison.
package main

import (
	"errors"
	"fmt"
	"math/big"
	"reflect"
	"sort"
	"strings"
	"sync"
	"time"
	"unsafe"

	"github.com/btcsuite/btcd/btcec"
	"github.com/keep-network/keep-common/pkg/cache"

	"keepverif/harness/hx"

	"github.com/keep-network/keep-core/pkg/firewall"
	"github.com/keep-network/keep-core/pkg/operator"
)

const (
	numKeys     = 5
	gridSeconds = 420
)

var keys []*operator.PublicKey

func init() {
	for i := 0; i < numKeys; i++ {
		x, y := btcec.S256().ScalarBaseMult(big.NewInt(int64(i + 1)).Bytes())
		keys = append(keys, &operator.PublicKey{Curve: operator.Secp256k1, X: x, Y: y})
	}
}

func posSeconds() int { return int(firewall.PositiveIsRecognizedCachePeriod / time.Second) }
func negSeconds() int { return int(firewall.NegativeIsRecognizedCachePeriod / time.Second) }

// ---- generator ------------------------------------------------------------

func gen(r *hx.Rng, n int, tier string) []string {
	var ops []string
	pos, neg := posSeconds()/gridSeconds, negSeconds()/gridSeconds // whole grid units below the period
	for i := 0; i < n; i++ {
		var allow []int
		if r.Chance(1, 2) {
			for k := 0; k < numKeys; k++ {
				if r.Chance(1, 4) {
					allow = append(allow, k)
				}
			}
		}
		napps := r.Range(0, 4)
		if r.Chance(1, 2) {
			napps = r.Range(1, 3)
		}
		nkeys := r.Range(1, numKeys)
		ln := r.Range(1, 14)
		if r.Chance(1, 10) {
			ln = r.Range(14, 40)
		}
		yes := r.Range(1, 6) // bias of the answers of this history
		errs := r.Range(0, 3)
		var steps []string
		for j := 0; j < ln; j++ {
			adv := 0
			switch r.Intn(12) {
			case 0, 1, 2, 3:
				adv = 0
			case 4:
				adv = r.Range(1, 3)
			case 5:
				adv = neg // just below the negative period
			case 6:
				adv = neg + 1 // just above
			case 7:
				adv = pos
			case 8:
				adv = pos + 1
			case 9:
				adv = r.Range(neg/2, neg+2)
			case 10:
				adv = r.Range(pos/2, pos+2)
			default:
				adv = r.Range(1, 2*pos)
			}
			var ans []byte
			for a := 0; a < napps; a++ {
				switch {
				case r.Intn(10) < errs:
					if r.Bool() {
						ans = append(ans, 'e')
					} else {
						ans = append(ans, 'b') // recognized AND error
					}
				case r.Intn(10) < yes:
					ans = append(ans, 'y')
				default:
					ans = append(ans, 'n')
				}
			}
			a := string(ans)
			if a == "" {
				a = "-"
			}
			steps = append(steps, fmt.Sprintf("%d/%d/%s", adv*gridSeconds, r.Intn(nkeys), a))
		}
		ops = append(ops, fmt.Sprintf("fw %s %d %s", hx.JoinInts(allow), napps, strings.Join(steps, ",")))
	}
	return ops
}

// ---- scripted applications ------------------------------------------------

type script struct {
	mu      sync.Mutex
	answers string
	calls   int
}

type app struct {
	s   *script
	idx int
}

var errApp = errors.New("scripted application failure")

func (a *app) IsRecognized(pk *operator.PublicKey) (bool, error) {
	a.s.mu.Lock()
	defer a.s.mu.Unlock()
	a.s.calls++
	switch a.s.answers[a.idx] {
	case 'y':
		return true, nil
	case 'n':
		return false, nil
	case 'b':
		return true, errApp
	}
	return false, errApp
}

// ---- clock ----------------------------------------------------------------

// age moves every timestamp of the cache back by d.
func age(tc *cache.TimeCache, d time.Duration) {
	v := reflect.ValueOf(tc).Elem()
	mu := (*sync.RWMutex)(unsafe.Pointer(v.FieldByName("mutex").UnsafeAddr()))
	m := *(*map[string]time.Time)(unsafe.Pointer(v.FieldByName("cache").UnsafeAddr()))
	mu.Lock()
	defer mu.Unlock()
	for k, t := range m {
		m[k] = t.Add(-d)
	}
}

// contents lists the keys Has reports, each with the age of its timestamp rounded to the grid
// ("k@age", '.'-separated, sorted by key).
func contents(tc *cache.TimeCache) string {
	v := reflect.ValueOf(tc).Elem()
	mu := (*sync.RWMutex)(unsafe.Pointer(v.FieldByName("mutex").UnsafeAddr()))
	m := *(*map[string]time.Time)(unsafe.Pointer(v.FieldByName("cache").UnsafeAddr()))
	var in []string
	for i, k := range keys {
		if tc.Has(k.String()) {
			mu.RLock()
			t := m[k.String()]
			mu.RUnlock()
			a := (time.Since(t) + gridSeconds*time.Second/2) / (gridSeconds * time.Second)
			in = append(in, fmt.Sprintf("%d@%d", i, int(a)*gridSeconds))
		}
	}
	if len(in) == 0 {
		return "-"
	}
	return strings.Join(in, ".")
}

// ---- exec -----------------------------------------------------------------

func exec(op string) (string, string) {
	f := strings.Split(op, " ")
	if len(f) != 4 || f[0] != "fw" {
		return "bad-op", "bad"
	}
	var allow []*operator.PublicKey
	for _, a := range hx.SplitList(f[1]) {
		k, ok := atoi(a)
		if !ok || k >= numKeys {
			return "bad-op", "bad"
		}
		allow = append(allow, keys[k])
	}
	napps, ok := atoi(f[2])
	if !ok || napps > 16 {
		return "bad-op", "bad"
	}
	type step struct {
		adv, key int
		ans      string
	}
	var steps []step
	for _, s := range hx.SplitList(f[3]) {
		p := strings.Split(s, "/")
		if len(p) != 3 {
			return "bad-op", "bad"
		}
		adv, ok1 := atoi(p[0])
		key, ok2 := atoi(p[1])
		ans := p[2]
		if ans == "-" {
			ans = ""
		}
		if !ok1 || !ok2 || key >= numKeys || adv%gridSeconds != 0 || len(ans) != napps ||
			strings.Trim(ans, "yneb") != "" {
			return "bad-op", "bad"
		}
		steps = append(steps, step{adv, key, ans})
	}
	if len(steps) == 0 {
		return "bad-op", "bad"
	}

	sc := &script{}
	var apps []firewall.Application
	for i := 0; i < napps; i++ {
		apps = append(apps, &app{s: sc, idx: i})
	}
	fw := firewall.AnyApplicationPolicy(apps, firewall.NewAllowList(allow))
	pos, neg := firewall.VerifCaches(fw)

	tags := map[string]bool{}
	var obs []string
	for _, st := range steps {
		if st.adv > 0 {
			d := time.Duration(st.adv) * time.Second
			age(pos, d)
			age(neg, d)
		}
		posBefore, negBefore := contents(pos), contents(neg)
		sc.mu.Lock()
		sc.answers, sc.calls = st.ans, 0
		sc.mu.Unlock()
		err := fw.Validate(keys[st.key])
		v := "A"
		switch {
		case err == nil:
		case errors.Is(err, errApp):
			v = "E"
		case strings.Contains(err.Error(), "has not been recognized by any application"):
			v = "R"
		default:
			v = "X"
		}
		sc.mu.Lock()
		calls := sc.calls
		sc.mu.Unlock()
		inPos := tagHas(posBefore, st.key)
		inNeg := tagHas(negBefore, st.key)
		switch {
		case calls > 0 && v == "A":
			tags["asked-yes"] = true
		case calls > 0 && v == "R":
			tags["asked-no"] = true
		case v == "E":
			tags["asked-err"] = true
			if calls > 0 && calls <= len(st.ans) && st.ans[calls-1] == 'b' {
				tags["asked-yes-with-err"] = true
			}
			if inNeg && !tagHas(contents(neg), st.key) {
				tags["err-after-neg-expiry"] = true
			}
		case v == "A" && tagHas(contents(pos), st.key):
			tags["pos-cached"] = true
		case v == "R" && calls == 0 && napps > 0:
			tags["neg-cached"] = true
		case v == "A":
			tags["allowlisted"] = true
		}
		if inPos && !tagHas(contents(pos), st.key) && calls > 0 {
			tags["pos-expired"] = true
		}
		if inNeg && !tagHas(contents(neg), st.key) && calls > 0 {
			tags["neg-expired"] = true
		}
		obs = append(obs, fmt.Sprintf("%s%d:%s:%s", v, calls, contents(pos), contents(neg)))
	}
	var ts []string
	for t := range tags {
		ts = append(ts, t)
	}
	sort.Strings(ts)
	if len(ts) == 0 {
		ts = []string{"none"}
	}
	return strings.Join(obs, ","), strings.Join(ts, "+")
}

func tagHas(contents string, key int) bool {
	return strings.Contains("."+contents, fmt.Sprintf(".%d@", key))
}

func atoi(s string) (int, bool) {
	if s == "" || len(s) > 9 {
		return 0, false
	}
	v := 0
	for _, c := range s {
		if c < '0' || c > '9' {
			return 0, false
		}
		v = v*10 + int(c-'0')
	}
	return v, true
}

func main() {
	hx.Main(&hx.Config{
		Prop: "C21",
		Gen:  gen,
		Exec: exec,
		Facts: func() []string {
			return []string{
				fmt.Sprintf("nat positivePeriodSeconds %d", posSeconds()),
				fmt.Sprintf("nat negativePeriodSeconds %d", negSeconds()),
				fmt.Sprintf("nat gridSeconds %d", gridSeconds),
				fmt.Sprintf("nat numKeys %d", numKeys),
			}
		},
	})
}
