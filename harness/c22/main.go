// C22: coordination leader and action checklist are the same on every member.
//
// Op lines (one complete case each):
//
//	leader <seed:64hex> <rng> <views>
//	    views = view/view/...   view = comma list of 40-hex-digit lower-case operator
//	    addresses (one per seat, `-` = no seats).  rng = table `s0;s1;...;sN`, entry n = the swap
//	    sequence `i:j,i:j,...` (`-` = none) that math/rand's Shuffle(n, ·) performs for the
//	    source seeded with the first 8 seed bytes (obtained from the real math/rand here and
//	    handed to the model: A-rng).
//	    obs = the leader computed by the real getLeader for every view, comma separated.
//	checklist <windowIndex> <seed:64hex> <k>
//	    k = numerator of the Float64 draw (Float64() = k / 2^53) of the same source.
//	    obs = the action types of the real getActionsChecklist, comma separated (`-` = nil).
//	lseq <view> <seed:64hex> <rng> [<seed:64hex> <rng>]...
//	    a SEQUENCE of leader elections (one per coordination window) on ONE long-lived executor,
//	    as the node keeps one executor per wallet; every election is also asked of a fresh
//	    executor (a member with a different call history, e.g. restarted).
//	    obs = <leaders of the long-lived executor> <leaders of fresh executors>
//	coord <walletScalar> <pkh:40hex> <block> <hashPrefix:48hex> <rng> <k> <views>
//	    whole pipeline: getSeed (safe block hash = hashPrefix ++ BE64(number asked for)),
//	    then leader per view and checklist for the window index. pkh = HASH160 of the
//	    compressed wallet key, obtained from the real code (A-hash, input of the model).
//	    obs = <pkh:40hex> <seed:64hex> <leaders> <checklist>
package main

import (
	"crypto/ecdsa"
	"encoding/binary"
	"encoding/hex"
	"fmt"
	"math/big"
	"math/rand"
	"strings"

	"keepverif/harness/hx"

	"github.com/keep-network/keep-core/pkg/chain"
	"github.com/keep-network/keep-core/pkg/tbtc"
	"github.com/keep-network/keep-core/pkg/tecdsa"
)

const maxSeats = 12

// fakeChain implements only what getSeed reads; everything else panics (nil embedded interface).
type fakeChain struct {
	tbtc.Chain
	prefix [24]byte
	asked  []uint64
}

func (fc *fakeChain) GetBlockHashByNumber(n uint64) ([32]byte, error) {
	fc.asked = append(fc.asked, n)
	var h [32]byte
	copy(h[:24], fc.prefix[:])
	binary.BigEndian.PutUint64(h[24:], n)
	return h, nil
}

func seedInt(seed [32]byte) int64 { return int64(binary.BigEndian.Uint64(seed[:8])) }

// swapsFor returns the real swap sequence of Shuffle(n, ·) for the seed.
func swapsFor(seed [32]byte, n int) string {
	rng := rand.New(rand.NewSource(seedInt(seed)))
	var ss []string
	rng.Shuffle(n, func(i, j int) { ss = append(ss, fmt.Sprintf("%d:%d", i, j)) })
	return hx.JoinStrs(ss)
}

func rngTable(seed [32]byte, maxN int) string {
	var es []string
	for n := 0; n <= maxN; n++ {
		es = append(es, swapsFor(seed, n))
	}
	return strings.Join(es, ";")
}

func drawNumerator(seed [32]byte) uint64 {
	f := rand.New(rand.NewSource(seedInt(seed))).Float64()
	return uint64(f * (1 << 53)) // exact: f = k / 2^53
}

func walletKey(scalar uint64) *ecdsa.PublicKey {
	x, y := tecdsa.Curve.ScalarBaseMult(new(big.Int).SetUint64(scalar).Bytes())
	return &ecdsa.PublicKey{Curve: tecdsa.Curve, X: x, Y: y}
}

func parseSeed(s string) ([32]byte, bool) {
	var seed [32]byte
	b, err := hex.DecodeString(s)
	if err != nil || len(b) != 32 {
		return seed, false
	}
	copy(seed[:], b)
	return seed, true
}

func parseViews(s string) [][]chain.Address {
	var views [][]chain.Address
	for _, v := range strings.Split(s, "/") {
		var ops []chain.Address
		for _, a := range hx.SplitList(v) {
			ops = append(ops, chain.Address(a))
		}
		views = append(views, ops)
	}
	return views
}

func genAddrs(r *hx.Rng, u int) []string {
	var out []string
	seen := map[string]bool{}
	common := r.Bytes(20)
	for len(out) < u {
		var b []byte
		switch r.Intn(8) {
		case 0: // shares a long prefix with the others
			b = append([]byte(nil), common...)
			b[19] = byte(r.Intn(256))
		case 1:
			b = append([]byte(nil), common...)
			b[r.Intn(20)] ^= byte(1 << r.Intn(8))
		case 2:
			b = make([]byte, 20)
			b[19] = byte(r.Intn(4))
		case 3:
			b = make([]byte, 20)
			for i := range b {
				b[i] = 0xff
			}
			b[19] -= byte(r.Intn(4))
		default:
			b = r.Bytes(20)
		}
		s := hex.EncodeToString(b)
		if !seen[s] {
			seen[s] = true
			out = append(out, s)
		}
	}
	return out
}

// genViews: several local views of the same operator set: permuted seats, repeated seats.
func genViews(r *hx.Rng) string {
	u := r.Range(1, 8)
	if r.Chance(1, 8) {
		u = 1
	}
	addrs := genAddrs(r, u)
	nv := r.Range(1, 4)
	var views []string
	for v := 0; v < nv; v++ {
		seats := append([]string(nil), addrs...)
		extra := 0
		if r.Chance(2, 3) {
			extra = r.Intn(maxSeats - u + 1)
		}
		for i := 0; i < extra; i++ {
			seats = append(seats, addrs[r.Intn(u)])
		}
		p := r.Perm(len(seats))
		out := make([]string, len(seats))
		for i, j := range p {
			out[i] = seats[j]
		}
		if v == 0 && r.Chance(1, 6) { // already sorted view
			out = append([]string(nil), addrs...)
		}
		views = append(views, strings.Join(out, ","))
	}
	return strings.Join(views, "/")
}

func genSeed(r *hx.Rng) [32]byte {
	var seed [32]byte
	copy(seed[:], r.Bytes(32))
	switch r.Intn(10) {
	case 0:
		for i := 0; i < 8; i++ {
			seed[i] = 0
		}
	case 1:
		for i := 0; i < 8; i++ {
			seed[i] = 0xff
		}
	case 2:
		seed[0] = 0x80
	}
	return seed
}

// seedWithDraw looks for a seed whose Float64 draw is below / above the probability,
// so that the rare heartbeat branch (1/16) is reached on every run.
func seedWithDraw(r *hx.Rng, want bool) [32]byte {
	for {
		s := genSeed(r)
		f := rand.New(rand.NewSource(seedInt(s))).Float64()
		if (f < tbtc.VerifC22CoordinationHeartbeatProbability) == want {
			return s
		}
	}
}

func gen(r *hx.Rng, n int, tier string) []string {
	var ops []string
	for i := 0; i < n; i++ {
		switch r.Intn(12) {
		case 10, 11:
			ops = append(ops, genLseq(r))
		case 0, 1, 2, 3, 4:
			seed := genSeed(r)
			ops = append(ops, fmt.Sprintf("leader %x %s %s", seed, rngTable(seed, maxSeats), genViews(r)))
		case 5, 6, 7:
			var seed [32]byte
			if r.Chance(1, 3) {
				seed = seedWithDraw(r, true)
			} else {
				seed = genSeed(r)
			}
			idx := uint64(r.Intn(40))
			switch r.Intn(8) {
			case 0:
				idx = 0
			case 1:
				idx = uint64(r.Range(1, 1000)) * 4
			case 2:
				idx = r.U64()
			case 3:
				idx = (r.U64() / 4) * 4
			}
			ops = append(ops, fmt.Sprintf("checklist %d %x %d", idx, seed, drawNumerator(seed)))
		default:
			ops = append(ops, genCoord(r))
		}
	}
	return ops
}

// genLseq: 2-8 consecutive windows on one executor; seeds sometimes repeat.
func genLseq(r *hx.Rng) string {
	var view string
	for {
		view = strings.Split(genViews(r), "/")[0]
		if r.Chance(1, 4) || strings.Count(view, ",") >= 2 { // mostly groups where a shuffle matters
			break
		}
	}
	n := r.Range(2, 8)
	var seeds [][32]byte
	var parts []string
	for i := 0; i < n; i++ {
		seed := genSeed(r)
		if i > 0 && r.Chance(1, 4) {
			seed = seeds[r.Intn(len(seeds))]
		}
		seeds = append(seeds, seed)
		parts = append(parts, fmt.Sprintf("%x %s", seed, rngTable(seed, maxSeats)))
	}
	return "lseq " + view + " " + strings.Join(parts, " ")
}

func genCoord(r *hx.Rng) string {
	scalar := r.U64()%1000 + 1
	block := uint64(r.Range(1, 60)) * 900
	switch r.Intn(6) {
	case 0:
		block += uint64(r.Range(1, 899)) // not a window start: index 0
	case 1:
		block = uint64(r.Range(1, 1<<20)) * 900 * 4
	case 2:
		if r.Chance(1, 3) {
			block = uint64(r.Intn(40)) // uint64 wrap-around of block - 32
		}
	}
	prefix := r.Bytes(24)
	// the seed is only known after running getSeed: obtain it from the real code to get the
	// rng table / draw for the op line (they are inputs of the model, A-rng); the model
	// recomputes the seed itself with its own SHA-256.
	var fc fakeChain
	copy(fc.prefix[:], prefix)
	ex := tbtc.VerifC22NewExecutor(&fc, walletKey(scalar), nil)
	seed, _ := ex.GetSeed(block)
	return fmt.Sprintf("coord %d %x %d %x %s %d %s", scalar, ex.WalletPublicKeyHash(), block, prefix,
		rngTable(seed, maxSeats), drawNumerator(seed), genViews(r))
}

func showActions(as []tbtc.WalletActionType) string {
	var xs []uint8
	for _, a := range as {
		xs = append(xs, uint8(a))
	}
	return hx.JoinInts(xs)
}

func leaders(seed [32]byte, views [][]chain.Address) (string, string) {
	var ls []string
	tag := "leader"
	if len(views) > 1 {
		tag += "+multiview"
	}
	for _, v := range views {
		ex := tbtc.VerifC22NewExecutor(nil, nil, v)
		ls = append(ls, string(ex.GetLeader(seed)))
		set := map[chain.Address]bool{}
		for _, a := range v {
			set[a] = true
		}
		if len(set) < len(v) && !strings.Contains(tag, "dupseats") {
			tag += "+dupseats"
		}
		if len(set) == 1 && !strings.Contains(tag, "single") {
			tag += "+single"
		}
	}
	return strings.Join(ls, ","), tag
}

func checklistTag(idx uint64, as []tbtc.WalletActionType) string {
	tag := "chk"
	if idx == 0 {
		tag += "+idx0"
	}
	for _, a := range as {
		if a == tbtc.ActionHeartbeat {
			tag += "+hb"
		}
		if a == tbtc.ActionDepositSweep {
			tag += "+every4"
		}
	}
	return tag
}

func exec(op string) (string, string) {
	f := strings.Fields(op)
	if len(f) == 0 {
		return "bad-op", "bad"
	}
	switch {
	case f[0] == "leader" && len(f) == 4:
		seed, ok := parseSeed(f[1])
		if !ok {
			return "bad-op", "bad"
		}
		return leaders(seed, parseViews(f[3]))
	case f[0] == "lseq" && len(f) >= 4 && len(f)%2 == 0:
		views := parseViews(f[1])
		if len(views) != 1 {
			return "bad-op", "bad"
		}
		long := tbtc.VerifC22NewExecutor(nil, nil, views[0])
		var ll, fl []string
		seen := map[string]bool{}
		tag := "lseq"
		for i := 2; i < len(f); i += 2 {
			seed, ok := parseSeed(f[i])
			if !ok {
				return "bad-op", "bad"
			}
			if seen[f[i]] && !strings.Contains(tag, "repeatseed") {
				tag += "+repeatseed"
			}
			seen[f[i]] = true
			ll = append(ll, string(long.GetLeader(seed)))
			fl = append(fl, string(tbtc.VerifC22NewExecutor(nil, nil, views[0]).GetLeader(seed)))
		}
		if len(ll) >= 3 {
			tag += "+long"
		}
		return strings.Join(ll, ",") + " " + strings.Join(fl, ","), tag
	case f[0] == "checklist" && len(f) == 4:
		seed, ok := parseSeed(f[2])
		if !ok {
			return "bad-op", "bad"
		}
		idx := hx.AtoU64(f[1])
		ex := tbtc.VerifC22NewExecutor(nil, nil, nil)
		as := ex.GetActionsChecklist(idx, seed)
		return showActions(as), checklistTag(idx, as)
	case f[0] == "coord" && len(f) == 8:
		scalar := hx.AtoU64(f[1])
		block := hx.AtoU64(f[3])
		prefix, err := hex.DecodeString(f[4])
		if err != nil || len(prefix) != 24 {
			return "bad-op", "bad"
		}
		var fc fakeChain
		copy(fc.prefix[:], prefix)
		ex := tbtc.VerifC22NewExecutor(&fc, walletKey(scalar), nil)
		seed, err := ex.GetSeed(block)
		if err != nil {
			return "err:seed", "coord"
		}
		pkh := ex.WalletPublicKeyHash()
		ls, ltag := leaders(seed, parseViews(f[7]))
		idx := tbtc.VerifC22WindowIndex(block)
		as := ex.GetActionsChecklist(idx, seed)
		return fmt.Sprintf("%x %x %s %s", pkh, seed, ls, showActions(as)),
			"coord+" + ltag + "+" + checklistTag(idx, as)
	}
	return "bad-op", "bad"
}

func facts() []string {
	ex := tbtc.VerifC22NewExecutor(nil, nil, nil)
	// frequencyWindows is a local variable of getActionsChecklist: recover it by probing
	// the real function (first positive window index whose checklist has the deposit sweep).
	var zero [32]byte
	freq := uint64(0)
	for idx := uint64(1); idx <= 4096 && freq == 0; idx++ {
		for _, a := range ex.GetActionsChecklist(idx, zero) {
			if a == tbtc.ActionDepositSweep {
				freq = idx
			}
		}
	}
	p := new(big.Rat).SetFloat64(tbtc.VerifC22CoordinationHeartbeatProbability)
	return []string{
		fmt.Sprintf("nat actionNoop %d", tbtc.ActionNoop),
		fmt.Sprintf("nat actionHeartbeat %d", tbtc.ActionHeartbeat),
		fmt.Sprintf("nat actionDepositSweep %d", tbtc.ActionDepositSweep),
		fmt.Sprintf("nat actionRedemption %d", tbtc.ActionRedemption),
		fmt.Sprintf("nat actionMovingFunds %d", tbtc.ActionMovingFunds),
		fmt.Sprintf("nat actionMovedFundsSweep %d", tbtc.ActionMovedFundsSweep),
		fmt.Sprintf("nat frequencyWindows %d", freq),
		fmt.Sprintf("nat heartbeatProbNum %s", p.Num().String()),
		fmt.Sprintf("nat heartbeatProbDen %s", p.Denom().String()),
		fmt.Sprintf("nat safeBlockShift %d", uint64(tbtc.VerifC22CoordinationSafeBlockShift)),
		fmt.Sprintf("nat coordinationFrequencyBlocks %d", uint64(tbtc.VerifC22CoordinationFrequencyBlocks)),
	}
}

func main() {
	hx.Main(&hx.Config{Prop: "C22", Gen: gen, Exec: exec, Facts: facts})
}
