// C18: delivered network messages are attributed to their authenticated author.
//
// Op line:  proc <registered types> <env,env,...>
//
//	one channel, a sequence of envelopes handed to channel.processContainerMessage.
//	env = outerhex/type/payloadhex/seqno/senderhex/idfact[/relayhex]     (~ = empty bytes)
//	with the 7th field the envelope is marshalled and goes through processPubsubMessage as a
//	pubsub message signed by `outer` (GetFrom) that arrived from neighbour `relay`
//	(ReceivedFrom); the relay must not matter.
//	idfact = what the libp2p LIBRARY (not keep-core) makes of the sender bytes:
//	         E (not a public key)  |  <keytype>|<peer id hex>|<operator key hex or ~>
//	It is the model's parameter `decodeIdentity/peerIdOf/toOperatorKey` (library behaviour is
//	an input of the theorem, not modelled).
//
// Obs line: per envelope  D|<sender id hex>|<sender key hex>|<type>|<seq>|<payload hex>
//
//	or X|<error class>, comma separated.
package main

import (
	"crypto/ecdsa"
	"crypto/ed25519"
	"crypto/elliptic"
	"encoding/hex"
	"fmt"
	"math/big"
	"sort"
	"strconv"
	"strings"

	"keepverif/harness/hx"

	"github.com/btcsuite/btcd/btcec/v2"
	libp2pcrypto "github.com/libp2p/go-libp2p/core/crypto"
	"github.com/libp2p/go-libp2p/core/peer"
	"google.golang.org/protobuf/proto"

	"github.com/keep-network/keep-core/pkg/net"
	"github.com/keep-network/keep-core/pkg/net/gen/pb"
	"github.com/keep-network/keep-core/pkg/net/libp2p"
)

func hexOf(b []byte) string {
	if len(b) == 0 {
		return "~"
	}
	return hex.EncodeToString(b)
}

func unhex(s string) ([]byte, bool) {
	if s == "~" {
		return nil, true
	}
	b, err := hex.DecodeString(s)
	return b, err == nil && len(b) > 0 && s == strings.ToLower(s)
}

// ---- the unmarshaler the harness registers ---------------------------------

// testMessage is shaped like keep-core's map-carrying protocol messages: the payload is a
// list of (field, value) byte pairs and Unmarshal stores every pair into the fields map WITHOUT
// clearing it first (a fresh container from the registered constructor starts empty, so on the
// real code the content is a function of the payload alone). Decoding fails on an empty payload,
// on a field byte 0xff and on a trailing single byte - possibly after some pairs were stored.
type testMessage struct {
	typ    string
	fields map[byte]byte
}

func (m *testMessage) Type() string { return m.typ }
func (m *testMessage) Unmarshal(b []byte) error {
	if len(b) == 0 {
		return fmt.Errorf("verif: bad payload")
	}
	if m.fields == nil {
		m.fields = make(map[byte]byte)
	}
	for i := 0; i < len(b); i += 2 {
		if b[i] == 0xff || i+1 >= len(b) {
			return fmt.Errorf("verif: bad payload")
		}
		m.fields[b[i]] = b[i+1]
	}
	return nil
}

// content is the canonical form of what the handler received: pairs sorted by field.
func (m *testMessage) content() string {
	keys := make([]int, 0, len(m.fields))
	for k := range m.fields {
		keys = append(keys, int(k))
	}
	sort.Ints(keys)
	var b []byte
	for _, k := range keys {
		b = append(b, byte(k), m.fields[byte(k)])
	}
	return hexOf(b)
}

// ---- library view of an identity -------------------------------------------

// idFact asks the libp2p / protobuf libraries (never keep-core) what the sender bytes are.
func idFact(sender []byte) string {
	var pbIdentity pb.Identity
	if err := proto.Unmarshal(sender, &pbIdentity); err != nil {
		return "E"
	}
	pub, err := libp2pcrypto.UnmarshalPublicKey(pbIdentity.PubKey)
	if err != nil {
		return "E"
	}
	pid, err := peer.IDFromPublicKey(pub)
	if err != nil {
		return "E"
	}
	op := "~"
	if pub.Type().String() == "Secp256k1" {
		raw, err := pub.Raw()
		if err != nil {
			return "E"
		}
		k, err := btcec.ParsePubKey(raw)
		if err != nil {
			return "E"
		}
		op = hex.EncodeToString(k.SerializeUncompressed())
	}
	return pub.Type().String() + "|" + hexOf([]byte(pid)) + "|" + op
}

func marshalIdentity(pub libp2pcrypto.PubKey) []byte {
	kb, err := libp2pcrypto.MarshalPublicKey(pub)
	if err != nil {
		panic(err)
	}
	b, err := proto.Marshal(&pb.Identity{PubKey: kb})
	if err != nil {
		panic(err)
	}
	return b
}

func peerIDOf(pub libp2pcrypto.PubKey) []byte {
	pid, err := peer.IDFromPublicKey(pub)
	if err != nil {
		panic(err)
	}
	return []byte(pid)
}

func secpKey(r *hx.Rng) libp2pcrypto.PubKey {
	for {
		b := r.Bytes(32)
		if r.Chance(1, 8) { // short scalars (padding path)
			for i := 0; i < 31; i++ {
				b[i] = 0
			}
			if b[31] == 0 {
				b[31] = 1
			}
		}
		k, err := libp2pcrypto.UnmarshalSecp256k1PrivateKey(b)
		if err == nil {
			return k.GetPublic()
		}
	}
}

func edKey(r *hx.Rng) libp2pcrypto.PubKey {
	priv := ed25519.NewKeyFromSeed(r.Bytes(32))
	pub, err := libp2pcrypto.UnmarshalEd25519PublicKey(priv.Public().(ed25519.PublicKey))
	if err != nil {
		panic(err)
	}
	return pub
}

func ecdsaKey(r *hx.Rng) libp2pcrypto.PubKey {
	curve := elliptic.P256()
	d := new(big.Int).SetBytes(r.Bytes(31))
	d.Add(d, big.NewInt(1))
	priv := &ecdsa.PrivateKey{D: d}
	priv.Curve = curve
	priv.X, priv.Y = curve.ScalarBaseMult(d.Bytes())
	_, pub, err := libp2pcrypto.ECDSAKeyPairFromKey(priv)
	if err != nil {
		panic(err)
	}
	return pub
}

// ---- generator --------------------------------------------------------------

var allTypes = []string{"alpha", "beta", "gamma"}

func gen(r *hx.Rng, n int, tier string) []string {
	var ops []string
	for i := 0; i < n; i++ {
		nreg := r.Range(1, 3)
		reg := append([]string(nil), allTypes[:nreg]...)
		cnt := r.Range(1, 6)
		pool := []libp2pcrypto.PubKey{secpKey(r), secpKey(r)}
		var envs []string
		for j := 0; j < cnt; j++ {
			author := hx.Pick(r, pool)
			outer := peerIDOf(author)
			sender := marshalIdentity(author)
			typ := hx.Pick(r, reg)
			// 1-4 (field, value) pairs over a small field space: later messages of the same
			// type regularly omit fields that earlier (possibly rejected) ones set
			var payload []byte
			for k := r.Range(1, 4); k > 0; k-- {
				payload = append(payload, byte(r.Intn(6)), byte(r.U64()))
			}
			seq := r.U64() >> uint(r.Range(0, 63))
			faults := 1
			if r.Chance(1, 6) {
				faults = 2 // two faults: the order of the checks decides the class
			}
			if r.Chance(3, 10) {
				faults = 0
			}
			for f := 0; f < faults; f++ {
				switch r.Intn(12) {
				case 0: // another peer's identity inside (tampered sender)
					sender = marshalIdentity(secpKey(r))
				case 1: // somebody else publishes the author's identity
					outer = peerIDOf(secpKey(r))
				case 2: // non-secp256k1 author, consistent envelope
					k := edKey(r)
					if r.Bool() {
						k = ecdsaKey(r)
					}
					outer, sender = peerIDOf(k), marshalIdentity(k)
				case 3: // non-secp256k1 inner identity, secp outer
					if r.Bool() {
						sender = marshalIdentity(edKey(r))
					} else {
						sender = marshalIdentity(ecdsaKey(r))
					}
				case 4: // malformed identity
					switch r.Intn(6) {
					case 0:
						sender = nil
					case 1:
						sender = sender[:r.Intn(len(sender))]
					case 2:
						sender = r.Bytes(r.Range(1, 40))
					case 3: // well-formed outer protobuf, garbage key bytes
						sender, _ = proto.Marshal(&pb.Identity{PubKey: r.Bytes(r.Range(0, 40))})
					case 4: // bit flip
						sender = append([]byte{0}, sender...)[1:]
						if len(sender) > 0 {
							sender[r.Intn(len(sender))] ^= 1 << uint(r.Intn(8))
						}
					default: // trailing bytes
						sender = append(append([]byte(nil), sender...), r.Bytes(r.Range(1, 4))...)
					}
				case 5: // unknown type
					typ = hx.Pick(r, []string{"delta", "Alpha", "alph", "x"})
					if nreg < 3 && r.Bool() {
						typ = allTypes[nreg]
					}
				case 6: // undecodable payload (empty / bad field at once / failure after some pairs)
					switch r.Intn(4) {
					case 0:
						payload = nil
					case 1:
						if len(payload) == 0 {
							payload = []byte{0xff, 0x00}
						} else {
							payload[0] = 0xff
						}
					case 2:
						payload = append(payload, byte(r.Intn(6)))
					default:
						payload = append(payload, 0xff, 0x00)
					}
				case 7: // garbage outer id
					if r.Bool() {
						outer = nil
					} else {
						outer = r.Bytes(r.Range(1, 40))
					}
				case 8: // outer id = truncated / extended author id
					if r.Bool() && len(outer) > 0 {
						outer = outer[:len(outer)-1]
					} else {
						outer = append(append([]byte(nil), outer...), 0)
					}
				case 9: // same key bytes, bit-flipped outer
					outer = append([]byte{0}, outer...)[1:]
					if len(outer) > 0 {
						outer[r.Intn(len(outer))] ^= 1 << uint(r.Intn(8))
					}
				default: // exact duplicate of the previous envelope
					if len(envs) > 0 {
						envs = append(envs, envs[len(envs)-1])
					}
				}
			}
			rec := fmt.Sprintf("%s/%s/%s/%d/%s/%s",
				hexOf(outer), typ, hexOf(payload), seq, hexOf(sender), idFact(sender))
			if r.Chance(1, 2) { // through processPubsubMessage, as received from some neighbour
				relay := outer
				switch r.Intn(4) {
				case 0: // relayed by a third peer
					relay = peerIDOf(secpKey(r))
				case 1: // received from the peer the inner identity names
					var pbIdentity pb.Identity
					if proto.Unmarshal(sender, &pbIdentity) == nil {
						if pub, err := libp2pcrypto.UnmarshalPublicKey(pbIdentity.PubKey); err == nil {
							relay = peerIDOf(pub)
						}
					}
				case 2:
					relay = peerIDOf(hx.Pick(r, pool))
				}
				rec += "/" + hexOf(relay)
			}
			envs = append(envs, rec)
			if faults > 0 && r.Chance(1, 2) {
				// rejected-then-valid: an honest message of the same type right behind, setting
				// a single field (state of the rejected envelope must not show up in it)
				honest := hx.Pick(r, pool)
				hs := marshalIdentity(honest)
				envs = append(envs, fmt.Sprintf("%s/%s/%s/%d/%s/%s",
					hexOf(peerIDOf(honest)), typ, hexOf([]byte{byte(r.Intn(6)), byte(r.U64())}),
					(seq+1)&(1<<63-1), hexOf(hs), idFact(hs)))
			}
		}
		ops = append(ops, "proc "+strings.Join(reg, ",")+" "+strings.Join(envs, ","))
	}
	return ops
}

// ---- exec ---------------------------------------------------------------------

func classify(err error) string {
	s := err.Error()
	switch {
	case strings.Contains(s, "couldn't find unmarshaler"):
		return "type"
	case strings.Contains(s, "verif: bad payload"):
		return "payload"
	case strings.Contains(s, "outer layer sender"):
		return "mismatch"
	case strings.Contains(s, "is not of correct type"):
		return "keytype"
	default:
		return "identity"
	}
}

func exec(op string) (string, string) {
	f := strings.Split(op, " ")
	if len(f) != 3 || f[0] != "proc" {
		return "bad-op", "bad"
	}
	var unmarshalers []func() net.TaggedUnmarshaler
	for _, t := range hx.SplitList(f[1]) {
		t := t
		unmarshalers = append(unmarshalers, func() net.TaggedUnmarshaler { return &testMessage{typ: t} })
	}
	type env struct {
		outer, payload, sender []byte
		typ                    string
		seq                    uint64
		pubsub                 bool
		relay                  []byte
	}
	var envs []env
	for _, e := range hx.SplitList(f[2]) {
		p := strings.Split(e, "/")
		if len(p) != 6 && len(p) != 7 {
			return "bad-op", "bad"
		}
		outer, ok1 := unhex(p[0])
		payload, ok2 := unhex(p[2])
		seq, err := strconv.ParseUint(p[3], 10, 64)
		sender, ok3 := unhex(p[4])
		if !ok1 || !ok2 || !ok3 || err != nil {
			return "bad-op", "bad"
		}
		en := env{outer: outer, payload: payload, sender: sender, typ: p[1], seq: seq}
		if len(p) == 7 {
			relay, ok := unhex(p[6])
			if !ok {
				return "bad-op", "bad"
			}
			en.pubsub, en.relay = true, relay
		}
		envs = append(envs, en)
	}
	ch := libp2p.VerifC18NewChannel(unmarshalers...)
	tags := map[string]bool{}
	var out []string
	for _, e := range envs {
		container := &pb.BroadcastNetworkMessage{
			Sender: e.sender, Payload: e.payload, Type: []byte(e.typ), SequenceNumber: e.seq,
		}
		var delivered []net.Message
		var err error
		if e.pubsub {
			data, merr := proto.Marshal(container)
			if merr != nil {
				return "PANIC marshal " + merr.Error(), "bad"
			}
			delivered, err = ch.ProcessPubsub(peer.ID(e.outer), peer.ID(e.relay), data)
			if string(e.relay) != string(e.outer) {
				tags["relayed"] = true
			}
		} else {
			delivered, err = ch.Process(peer.ID(e.outer), container)
		}
		switch {
		case err != nil && len(delivered) == 0:
			c := classify(err)
			tags[c] = true
			out = append(out, "X|"+c)
		case err == nil && len(delivered) == 1:
			m := delivered[0]
			tags["delivered"] = true
			payload := "?"
			if tm, ok := m.Payload().(*testMessage); ok {
				payload = tm.content()
			}
			sid := "?"
			if pid, err := peer.Decode(m.TransportSenderID().String()); err == nil {
				sid = hexOf([]byte(pid))
			}
			out = append(out, fmt.Sprintf("D|%s|%s|%s|%d|%s", sid, hexOf(m.SenderPublicKey()), m.Type(), m.Seqno(), payload))
		default:
			tags["odd"] = true
			out = append(out, fmt.Sprintf("O|%d|%v", len(delivered), err != nil))
		}
	}
	var ts []string
	for _, t := range []string{"relayed", "delivered", "type", "payload", "identity", "mismatch", "keytype", "odd"} {
		if tags[t] {
			ts = append(ts, t)
		}
	}
	if len(ts) == 0 {
		return hx.JoinStrs(out), "none"
	}
	return hx.JoinStrs(out), strings.Join(ts, "+")
}

func main() {
	hx.Main(&hx.Config{Prop: "C18", Gen: gen, Exec: exec})
}
