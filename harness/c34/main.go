// C34: main UTXO lookup and chain-sync check reflect the wallet's real state.
//
// The real tbtc.DetermineWalletMainUtxo / tbtc.EnsureWalletSyncedBetweenChains run against
// fake Bridge and Bitcoin chains built from the op line.
//
// Op lines (positional tokens, "-" = empty list):
//
//	main <reg> <hist> <txs>
//	   reg  : 0 (nothing registered) | E (GetWallet fails) | <tid>:<idx>:<val> (hash of that UTXO)
//	   hist : E (history call fails) | tids oldest first (as the Bitcoin client returns them)
//	   txs  : <tid>/<outs> , outs = "_" or "+"-joined <kind><value>;
//	          kind p = wallet P2PKH, w = wallet P2WPKH, o = foreign P2WPKH, q = foreign P2PKH, s = P2SH
//	          a tid in hist without a definition makes GetTransaction fail
//	sync <main> <conf> <memp> <txs> <deps> <mfs> <derr> <merr>
//	   main : nil | <tid>:<idx>:<val>
//	   conf, memp : E | list of <tid>:<idx>:<val>
//	   txs  : <tid>/<ref> first input outpoint of the transaction, ref = <h>.<i>
//	   deps, mfs : refs that are revealed deposits / moved funds sweep requests
//	   derr, merr : refs whose lookup fails
//	both <reg> <hist> <txs> <conf> : determine the main UTXO, then (if that worked) run the sync
//	   check with the result against the confirmed UTXO list conf (main-UTXO branch end to end)
//
// Observations: main: none | utxo:<tid>:<idx>:<val> | err:<class>;  sync: ok | err:<class>
package main

import (
	"crypto/sha256"
	"encoding/binary"
	"fmt"
	"strconv"
	"strings"

	"keepverif/harness/hx"

	"github.com/keep-network/keep-core/pkg/bitcoin"
	"github.com/keep-network/keep-core/pkg/tbtc"
)

var walletPKH = [20]byte{0xc3, 0x4c, 1, 2, 3, 4, 5, 6, 7, 8, 9, 10, 11, 12, 13, 14, 15, 16, 17, 0x34}
var foreignPKH = [20]byte{0xf0, 0x0f, 9, 9, 9, 9, 9, 9, 9, 9, 9, 9, 9, 9, 9, 9, 9, 9, 9, 0x01}

// ---- fakes ------------------------------------------------------------------

type utxoSpec struct {
	tid uint64
	idx uint32
	val int64
}

type ref struct {
	h uint64
	i uint32
}

type world struct {
	txs     map[uint64]*bitcoin.Transaction // tid -> tx (first definition wins)
	byHash  map[bitcoin.Hash]uint64
	regErr  bool
	reg     [32]byte
	histErr bool
	hist    []uint64
	confErr bool
	conf    []utxoSpec
	mempErr bool
	memp    []utxoSpec
	deps    map[ref]bool
	mfs     map[ref]bool
	derr    map[ref]bool
	merr    map[ref]bool
	refOf   map[bitcoin.Hash]uint64
	calls   []string
}

func newWorld() *world {
	return &world{
		txs: map[uint64]*bitcoin.Transaction{}, byHash: map[bitcoin.Hash]uint64{},
		deps: map[ref]bool{}, mfs: map[ref]bool{}, derr: map[ref]bool{}, merr: map[ref]bool{},
		refOf: map[bitcoin.Hash]uint64{},
	}
}

func refHash(h uint64) bitcoin.Hash {
	return bitcoin.Hash(sha256.Sum256([]byte(fmt.Sprintf("c34-ref-%d", h))))
}

// hashOf maps a model-level transaction id to the hash the real code sees.
func (w *world) hashOf(tid uint64) bitcoin.Hash {
	if tx, ok := w.txs[tid]; ok {
		return tx.Hash()
	}
	h := bitcoin.Hash(sha256.Sum256([]byte(fmt.Sprintf("c34-unknown-tx-%d", tid))))
	w.byHash[h] = tid
	return h
}

func (w *world) tidOf(h bitcoin.Hash) (uint64, bool) {
	t, ok := w.byHash[h]
	return t, ok
}

func (w *world) defineTx(tid uint64, first ref, outs []*bitcoin.TransactionOutput) {
	if _, dup := w.txs[tid]; dup {
		return
	}
	rh := refHash(first.h)
	w.refOf[rh] = first.h
	tx := &bitcoin.Transaction{
		Version: 1,
		Inputs: []*bitcoin.TransactionInput{{
			Outpoint: &bitcoin.TransactionOutpoint{TransactionHash: rh, OutputIndex: first.i},
			Sequence: 0xffffffff,
		}},
		Outputs:  outs,
		Locktime: uint32(tid), // makes the serialization (hence the hash) unique per tid
	}
	w.txs[tid] = tx
	w.byHash[tx.Hash()] = tid
}

func fakeMainUtxoHash(u *bitcoin.UnspentTransactionOutput) [32]byte {
	var b [32 + 4 + 8]byte
	copy(b[:32], u.Outpoint.TransactionHash[:])
	binary.BigEndian.PutUint32(b[32:], u.Outpoint.OutputIndex)
	binary.BigEndian.PutUint64(b[36:], uint64(u.Value))
	return sha256.Sum256(b[:])
}

func (w *world) utxo(s utxoSpec) *bitcoin.UnspentTransactionOutput {
	return &bitcoin.UnspentTransactionOutput{
		Outpoint: &bitcoin.TransactionOutpoint{TransactionHash: w.hashOf(s.tid), OutputIndex: s.idx},
		Value:    s.val,
	}
}

// bridge implements the part of tbtc.BridgeChain the two functions use; any other call
// hits the nil embedded interface and panics (reported as PANIC by hx).
type bridge struct {
	tbtc.BridgeChain
	w *world
}

func (b *bridge) GetWallet(pkh [20]byte) (*tbtc.WalletChainData, error) {
	if pkh != walletPKH {
		return nil, fmt.Errorf("unknown wallet")
	}
	if b.w.regErr {
		return nil, fmt.Errorf("fake wallet lookup failure")
	}
	return &tbtc.WalletChainData{MainUtxoHash: b.w.reg}, nil
}

func (b *bridge) ComputeMainUtxoHash(u *bitcoin.UnspentTransactionOutput) [32]byte {
	return fakeMainUtxoHash(u)
}

func (b *bridge) GetDepositRequest(h bitcoin.Hash, i uint32) (*tbtc.DepositChainRequest, bool, error) {
	r := ref{b.w.refOf[h], i}
	b.w.calls = append(b.w.calls, "dep")
	if b.w.derr[r] {
		return nil, false, fmt.Errorf("fake deposit lookup failure")
	}
	if b.w.deps[r] {
		return &tbtc.DepositChainRequest{}, true, nil
	}
	return nil, false, nil
}

func (b *bridge) GetMovedFundsSweepRequest(h bitcoin.Hash, i uint32) (*tbtc.MovedFundsSweepRequest, bool, error) {
	r := ref{b.w.refOf[h], i}
	b.w.calls = append(b.w.calls, "mfs")
	if b.w.merr[r] {
		return nil, false, fmt.Errorf("fake moved funds sweep lookup failure")
	}
	if b.w.mfs[r] {
		return &tbtc.MovedFundsSweepRequest{}, true, nil
	}
	return nil, false, nil
}

type btc struct {
	bitcoin.Chain
	w *world
}

func (c *btc) GetTxHashesForPublicKeyHash(pkh [20]byte) ([]bitcoin.Hash, error) {
	if pkh != walletPKH {
		return nil, fmt.Errorf("unknown wallet")
	}
	if c.w.histErr {
		return nil, fmt.Errorf("fake history failure")
	}
	var out []bitcoin.Hash
	for _, t := range c.w.hist {
		out = append(out, c.w.hashOf(t))
	}
	return out, nil
}

func (c *btc) GetTransaction(h bitcoin.Hash) (*bitcoin.Transaction, error) {
	c.w.calls = append(c.w.calls, "tx")
	if tid, ok := c.w.byHash[h]; ok {
		if tx, ok := c.w.txs[tid]; ok {
			return tx, nil
		}
	}
	return nil, fmt.Errorf("fake: transaction not found")
}

func (c *btc) GetUtxosForPublicKeyHash(pkh [20]byte) ([]*bitcoin.UnspentTransactionOutput, error) {
	if pkh != walletPKH {
		return nil, fmt.Errorf("unknown wallet")
	}
	if c.w.confErr {
		return nil, fmt.Errorf("fake utxo failure")
	}
	var out []*bitcoin.UnspentTransactionOutput
	for _, s := range c.w.conf {
		out = append(out, c.w.utxo(s))
	}
	return out, nil
}

func (c *btc) GetMempoolUtxosForPublicKeyHash(pkh [20]byte) ([]*bitcoin.UnspentTransactionOutput, error) {
	c.w.calls = append(c.w.calls, "memp")
	if pkh != walletPKH {
		return nil, fmt.Errorf("unknown wallet")
	}
	if c.w.mempErr {
		return nil, fmt.Errorf("fake mempool failure")
	}
	var out []*bitcoin.UnspentTransactionOutput
	for _, s := range c.w.memp {
		out = append(out, c.w.utxo(s))
	}
	return out, nil
}

// ---- parsing ------------------------------------------------------------------

func parseUtxo(s string) utxoSpec {
	p := strings.Split(s, ":")
	if len(p) != 3 {
		panic("harness: bad utxo " + s)
	}
	return utxoSpec{hx.AtoU64(p[0]), uint32(hx.AtoU64(p[1])), int64(hx.AtoU64(p[2]))}
}

func parseUtxos(s string) (list []utxoSpec, isErr bool) {
	if s == "E" {
		return nil, true
	}
	for _, t := range hx.SplitList(s) {
		list = append(list, parseUtxo(t))
	}
	return list, false
}

func parseRef(s string) ref {
	p := strings.Split(s, ".")
	if len(p) != 2 {
		panic("harness: bad ref " + s)
	}
	return ref{hx.AtoU64(p[0]), uint32(hx.AtoU64(p[1]))}
}

func script(kind byte) bitcoin.Script {
	var s bitcoin.Script
	var err error
	switch kind {
	case 'p':
		s, err = bitcoin.PayToPublicKeyHash(walletPKH)
	case 'w':
		s, err = bitcoin.PayToWitnessPublicKeyHash(walletPKH)
	case 'o':
		s, err = bitcoin.PayToWitnessPublicKeyHash(foreignPKH)
	case 'q':
		s, err = bitcoin.PayToPublicKeyHash(foreignPKH)
	case 's':
		s, err = bitcoin.PayToScriptHash(walletPKH) // same 20 bytes, different script class
	default:
		panic("harness: bad output kind")
	}
	if err != nil {
		panic(err)
	}
	return s
}

func (w *world) parseMainTxs(s string) {
	for _, t := range hx.SplitList(s) {
		p := strings.Split(t, "/")
		if len(p) != 2 {
			panic("harness: bad tx " + t)
		}
		tid := hx.AtoU64(p[0])
		var outs []*bitcoin.TransactionOutput
		if p[1] != "_" {
			for _, o := range strings.Split(p[1], "+") {
				if len(o) < 2 {
					panic("harness: bad output " + o)
				}
				outs = append(outs, &bitcoin.TransactionOutput{
					Value: int64(hx.AtoU64(o[1:])), PublicKeyScript: script(o[0]),
				})
			}
		}
		w.defineTx(tid, ref{1000 + tid, 0}, outs)
	}
}

func (w *world) parseSyncTxs(s string) {
	for _, t := range hx.SplitList(s) {
		p := strings.Split(t, "/")
		if len(p) != 2 {
			panic("harness: bad tx " + t)
		}
		w.defineTx(hx.AtoU64(p[0]), parseRef(p[1]), []*bitcoin.TransactionOutput{
			{Value: 1, PublicKeyScript: script('w')},
		})
	}
}

func (w *world) parseReg(s string) {
	switch s {
	case "0":
	case "E":
		w.regErr = true
	default:
		w.reg = fakeMainUtxoHash(w.utxo(parseUtxo(s)))
	}
}

func (w *world) parseHist(s string) {
	if s == "E" {
		w.histErr = true
		return
	}
	w.hist = hx.ParseU64s(s)
}

// ---- exec ---------------------------------------------------------------------

func classMain(err error) string {
	m := err.Error()
	switch {
	case strings.HasPrefix(m, "cannot get on-chain data for wallet"):
		return "err:wallet"
	case strings.HasPrefix(m, "cannot get transactions history"):
		return "err:history"
	case strings.HasPrefix(m, "cannot get transaction with hash"):
		return "err:gettx"
	case m == "main UTXO not found":
		return "err:notfound"
	}
	return "err:other"
}

func classSync(err error) string {
	m := err.Error()
	switch {
	case strings.HasPrefix(m, "cannot get confirmed UTXOs"):
		return "err:conf"
	case strings.HasPrefix(m, "wallet main UTXO exists but there are no"):
		return "err:empty"
	case strings.HasPrefix(m, "wallet main UTXO registered in the host chain Bridge is actually spent"):
		return "err:spent"
	case strings.HasPrefix(m, "cannot get mempool UTXOs"):
		return "err:memp"
	case strings.HasPrefix(m, "cannot get transaction with hash"):
		return "err:gettx"
	case strings.HasPrefix(m, "cannot get deposit request"):
		return "err:deplookup"
	case strings.Contains(m, "(deposit sweep)"):
		return "err:depositsweep"
	case strings.HasPrefix(m, "cannot get moved funds sweep request"):
		return "err:mfslookup"
	case strings.Contains(m, "(moved funds sweep)"):
		return "err:movedfundssweep"
	}
	return "err:other"
}

func (w *world) showUtxo(u *bitcoin.UnspentTransactionOutput) string {
	tid, ok := w.tidOf(u.Outpoint.TransactionHash)
	if !ok {
		return "utxo:unknown-hash"
	}
	return fmt.Sprintf("utxo:%d:%d:%d", tid, u.Outpoint.OutputIndex, u.Value)
}

func runMain(w *world) (*bitcoin.UnspentTransactionOutput, string, string) {
	u, err := tbtc.DetermineWalletMainUtxo(walletPKH, &bridge{w: w}, &btc{w: w})
	if err != nil {
		if u != nil {
			return nil, "err-with-value", "weird"
		}
		c := classMain(err)
		return nil, c, strings.TrimPrefix(c, "err:")
	}
	if u == nil {
		return nil, "none", "unregistered"
	}
	tag := "found"
	// where was it found: newest transaction or deeper in the history?
	if n := len(w.hist); n > 0 {
		if tid, ok := w.tidOf(u.Outpoint.TransactionHash); ok && w.hist[n-1] != tid {
			tag = "found+deep"
		}
	}
	return u, w.showUtxo(u), tag
}

func exec(op string) (string, string) {
	f := strings.Fields(op)
	if len(f) == 0 {
		return "bad-op", "bad"
	}
	w := newWorld()
	switch {
	case f[0] == "main" && len(f) == 4:
		w.parseMainTxs(f[3])
		w.parseReg(f[1])
		w.parseHist(f[2])
		_, obs, tag := runMain(w)
		return obs, "main-" + tag
	case f[0] == "both" && len(f) == 5:
		w.parseMainTxs(f[3])
		w.parseReg(f[1])
		w.parseHist(f[2])
		w.conf, w.confErr = parseUtxos(f[4])
		u, obs, tag := runMain(w)
		if strings.HasPrefix(obs, "err") {
			return obs + " -", "both-" + tag
		}
		err := tbtc.EnsureWalletSyncedBetweenChains(walletPKH, u, &bridge{w: w}, &btc{w: w})
		if err != nil {
			c := classSync(err)
			return obs + " " + c, "both-" + tag + "+" + strings.TrimPrefix(c, "err:")
		}
		return obs + " ok", "both-" + tag + "+synced"
	case f[0] == "sync" && len(f) == 9:
		w.parseSyncTxs(f[4])
		var mainU *bitcoin.UnspentTransactionOutput
		if f[1] != "nil" {
			mainU = w.utxo(parseUtxo(f[1]))
		}
		w.conf, w.confErr = parseUtxos(f[2])
		w.memp, w.mempErr = parseUtxos(f[3])
		for i, m := range []map[ref]bool{w.deps, w.mfs, w.derr, w.merr} {
			for _, t := range hx.SplitList(f[5+i]) {
				m[parseRef(t)] = true
			}
		}
		err := tbtc.EnsureWalletSyncedBetweenChains(walletPKH, mainU, &bridge{w: w}, &btc{w: w})
		branch := "sync-fresh"
		if mainU != nil {
			branch = "sync-main"
		}
		// the mempool is consulted only for a fresh wallet: part of the observation
		memp := 0
		for _, c := range w.calls {
			if c == "memp" {
				memp++
			}
		}
		suffix := " memp=" + strconv.Itoa(memp)
		if err != nil {
			c := classSync(err)
			return c + suffix, branch + "+" + strings.TrimPrefix(c, "err:")
		}
		tag := branch + "+synced"
		if mainU == nil && len(w.conf)+len(w.memp) > 0 {
			tag += "+spam"
		}
		return "ok" + suffix, tag
	}
	return "bad-op", "bad"
}

// ---- generator ------------------------------------------------------------------

func showUtxoSpec(u utxoSpec) string { return fmt.Sprintf("%d:%d:%d", u.tid, u.idx, u.val) }

func joinUtxos(us []utxoSpec) string {
	var ss []string
	for _, u := range us {
		ss = append(ss, showUtxoSpec(u))
	}
	return hx.JoinStrs(ss)
}

type genTx struct {
	tid  uint64
	outs []string // kind+value
}

func genHistory(r *hx.Rng) (txs []genTx, hist []uint64, walletOuts []utxoSpec) {
	n := r.Range(0, 6)
	if r.Chance(1, 8) {
		n = r.Range(6, 14)
	}
	vals := []int64{0, 1, 546, 1000, 1000, 5000, 100000}
	for i := 0; i < n; i++ {
		tid := uint64(i + 1)
		no := r.Range(0, 4)
		var outs []string
		for j := 0; j < no; j++ {
			k := hx.Pick(r, []byte{'p', 'w', 'w', 'o', 'q', 's'})
			v := hx.Pick(r, vals)
			outs = append(outs, fmt.Sprintf("%c%d", k, v))
			if k == 'p' || k == 'w' {
				walletOuts = append(walletOuts, utxoSpec{tid, uint32(j), v})
			}
		}
		txs = append(txs, genTx{tid, outs})
		hist = append(hist, tid)
	}
	// history order variations: shuffled, duplicates
	if r.Chance(1, 4) {
		p := r.Perm(len(hist))
		h2 := make([]uint64, len(hist))
		for i, j := range p {
			h2[i] = hist[j]
		}
		hist = h2
	}
	if len(hist) > 0 && r.Chance(1, 6) {
		hist = append(hist, hist[r.Intn(len(hist))])
	}
	return
}

func showTxs(txs []genTx) string {
	var ss []string
	for _, t := range txs {
		o := "_"
		if len(t.outs) > 0 {
			o = strings.Join(t.outs, "+")
		}
		ss = append(ss, fmt.Sprintf("%d/%s", t.tid, o))
	}
	return hx.JoinStrs(ss)
}

func genMainParts(r *hx.Rng) (reg, hist, txs string, registered *utxoSpec) {
	gtxs, h, wouts := genHistory(r)
	reg = "0"
	switch c := r.Intn(20); {
	case c == 0:
		reg = "E"
	case c <= 2:
		reg = "0"
	case c <= 12 && len(wouts) > 0: // a real wallet output of the history
		u := hx.Pick(r, wouts)
		registered = &u
		reg = showUtxoSpec(u)
	case c <= 14 && len(wouts) > 0: // right outpoint, wrong value
		u := hx.Pick(r, wouts)
		u.val++
		reg = showUtxoSpec(u)
	case c <= 15 && len(wouts) > 0: // right tx and value, other index
		u := hx.Pick(r, wouts)
		u.idx += uint32(r.Range(1, 2))
		reg = showUtxoSpec(u)
	case c <= 17 && len(gtxs) > 0: // an output of the history that is NOT the wallet's
		t := hx.Pick(r, gtxs)
		if len(t.outs) > 0 {
			j := r.Intn(len(t.outs))
			reg = fmt.Sprintf("%d:%d:%s", t.tid, j, t.outs[j][1:])
		} else {
			reg = fmt.Sprintf("%d:0:1000", t.tid)
		}
	default: // a transaction that is not in the history at all
		reg = fmt.Sprintf("%d:0:1000", 90+r.Intn(5))
	}
	hist = hx.JoinInts(h)
	if r.Chance(1, 25) {
		hist = "E"
	}
	// drop a definition: GetTransaction fails for that tid
	if len(gtxs) > 0 && r.Chance(1, 8) {
		k := r.Intn(len(gtxs))
		gtxs = append(gtxs[:k:k], gtxs[k+1:]...)
	}
	txs = showTxs(gtxs)
	return
}

func gen(r *hx.Rng, n int, tier string) []string {
	var ops []string
	for i := 0; i < n; i++ {
		switch c := r.Intn(10); {
		case c < 4:
			reg, hist, txs, _ := genMainParts(r)
			ops = append(ops, fmt.Sprintf("main %s %s %s", reg, hist, txs))
		case c < 6:
			reg, hist, txs, regU := genMainParts(r)
			// confirmed UTXO set: some wallet outputs, maybe including the registered one
			var conf []utxoSpec
			for k := r.Range(0, 4); k > 0; k-- {
				conf = append(conf, utxoSpec{uint64(r.Range(1, 8)), uint32(r.Intn(3)), hx.Pick(r, []int64{546, 1000, 5000})})
			}
			if regU != nil {
				switch r.Intn(6) {
				case 0, 1, 2:
					conf = append(conf, *regU)
					p := r.Intn(len(conf))
					conf[p], conf[len(conf)-1] = conf[len(conf)-1], conf[p]
				case 3:
					u := *regU
					u.val += 7
					conf = append(conf, u)
				case 4:
					u := *regU
					u.idx++
					conf = append(conf, u)
				}
			}
			cs := joinUtxos(conf)
			if r.Chance(1, 30) {
				cs = "E"
			}
			ops = append(ops, fmt.Sprintf("both %s %s %s %s", reg, hist, txs, cs))
		default:
			ops = append(ops, genSync(r))
		}
	}
	return ops
}

func genSync(r *hx.Rng) string {
	mkRef := func() ref { return ref{uint64(r.Range(1, 4)), uint32(r.Intn(2))} }
	showRef := func(x ref) string { return fmt.Sprintf("%d.%d", x.h, x.i) }
	nt := r.Range(1, 6)
	if r.Chance(1, 10) {
		nt = 0
	}
	var txs []string
	var tids []uint64
	for i := 0; i < nt; i++ {
		tid := uint64(i + 1)
		tids = append(tids, tid)
		txs = append(txs, fmt.Sprintf("%d/%s", tid, showRef(mkRef())))
	}
	mkUtxo := func() utxoSpec {
		tid := uint64(r.Range(1, 7))
		if nt > 0 && !r.Chance(1, 12) {
			tid = uint64(r.Range(1, nt)) // mostly transactions that can be fetched
		}
		idx := uint32(0)
		if r.Chance(1, 3) {
			idx = uint32(r.Range(1, 2))
		}
		return utxoSpec{tid, idx, hx.Pick(r, []int64{546, 1000, 5000})}
	}
	var conf, memp []utxoSpec
	for k := r.Range(0, 4); k > 0; k-- {
		conf = append(conf, mkUtxo())
	}
	for k := r.Range(0, 2); k > 0; k-- {
		memp = append(memp, mkUtxo())
	}
	refs := func(maxN int) string {
		var ss []string
		for k := r.Range(0, maxN); k > 0; k-- {
			ss = append(ss, showRef(mkRef()))
		}
		return hx.JoinStrs(ss)
	}
	mainS := "nil"
	if r.Chance(2, 5) {
		m := mkUtxo()
		switch r.Intn(5) {
		case 0, 1:
			if len(conf) > 0 {
				m = conf[r.Intn(len(conf))]
			}
		case 2:
			if len(conf) > 0 {
				m = conf[r.Intn(len(conf))]
				m.val++
			}
		case 3:
			if len(memp) > 0 { // only in the mempool: not confirmed
				m = memp[r.Intn(len(memp))]
			}
		}
		mainS = showUtxoSpec(m)
	}
	deps, mfs := refs(2), refs(1)
	if r.Chance(1, 2) {
		deps, mfs = "-", "-"
	}
	if mainS == "nil" && nt > 0 && r.Chance(1, 6) {
		// the wallet's first sweep is still in the mempool: nothing (or only spam at other
		// output indices) confirmed, the sweep's first input spends a deposit / moved funds
		// sweep request whose output index may be >= 1
		tid := uint64(r.Range(1, nt))
		var in ref
		fmt.Sscanf(strings.SplitN(txs[tid-1], "/", 2)[1], "%d.%d", &in.h, &in.i)
		conf = nil
		if r.Chance(1, 3) {
			conf = append(conf, utxoSpec{tid, uint32(r.Range(1, 2)), 546})
		}
		memp = []utxoSpec{{tid, 0, 5000}}
		if r.Chance(1, 2) {
			deps, mfs = showRef(in), "-"
		} else {
			deps, mfs = "-", showRef(in)
		}
	}
	cs, ms := joinUtxos(conf), joinUtxos(memp)
	if r.Chance(1, 25) {
		cs = "E"
	}
	if r.Chance(1, 25) {
		ms = "E"
	}
	derr, merr := "-", "-"
	if r.Chance(1, 6) {
		derr = refs(2)
	}
	if r.Chance(1, 6) {
		merr = refs(2)
	}
	return fmt.Sprintf("sync %s %s %s %s %s %s %s %s", mainS, cs, ms, hx.JoinStrs(txs), deps, mfs, derr, merr)
}

func main() {
	hx.Main(&hx.Config{Prop: "C34", Gen: gen, Exec: exec})
}
