// C46: wallet action deadlines nest inside the proposal validity window.
//
// T1 (facts): every timing constant is read from the compiled package (verif hook), every
// start/timeout EXPRESSION is extracted from the source AST of $VERIF_REPO/pkg/tbtc (the
// arguments of signTransaction / withCancelOnBlock / sign in each action's execute, the
// "invalid proposal expiry block" guards, node.go's expiry expression, signing.go's loop timeout,
// signing_loop.go's signingAttemptMaximumBlocks) and emitted as Lean definitions.
//
// T2 (ops):
//
//	tx <action> <cb> [<k>]   k = number of inputs of the signed transaction (signature hashes in
//	                         the batch; default 0): the deadlines must not depend on it.
//	                         cb = coordination block; start and expiry = node.go's expressions
//	                         (window end block / compiled ValidityBlocks());
//	                         the action is built by its real constructor; the extracted
//	                         start/timeout expressions are evaluated with the compiled values and
//	                         passed through the real walletTransactionExecutor.signTransaction;
//	                         obs = what reached signBatch / the block waiter.
//	hb <cb> <active> <inactive> <rounds>
//	                         the real heartbeatAction.execute() `rounds` times with fakes.
package main

import (
	"context"
	"crypto/ecdsa"
	"crypto/rand"
	"errors"
	"fmt"
	"go/ast"
	"go/parser"
	"go/token"
	"math/big"
	"os"
	"path/filepath"
	"sort"
	"strconv"
	"strings"
	"sync"
	"time"

	"keepverif/harness/hx"

	"github.com/keep-network/keep-core/pkg/bitcoin"
	"github.com/keep-network/keep-core/pkg/chain"
	"github.com/keep-network/keep-core/pkg/tbtc"
	"github.com/keep-network/keep-core/pkg/tecdsa"
)

// ---- compiled constants -----------------------------------------------------

var consts = map[string]uint64{
	"depositSweepProposalValidityBlocks":              tbtc.VerifC46DepositSweepProposalValidityBlocks,
	"depositSweepSigningTimeoutSafetyMarginBlocks":    tbtc.VerifC46DepositSweepSigningTimeoutSafetyMarginBlocks,
	"redemptionProposalValidityBlocks":                tbtc.VerifC46RedemptionProposalValidityBlocks,
	"redemptionSigningTimeoutSafetyMarginBlocks":      tbtc.VerifC46RedemptionSigningTimeoutSafetyMarginBlocks,
	"movingFundsProposalValidityBlocks":               tbtc.VerifC46MovingFundsProposalValidityBlocks,
	"movingFundsSigningTimeoutSafetyMarginBlocks":     tbtc.VerifC46MovingFundsSigningTimeoutSafetyMarginBlocks,
	"movingFundsCommitmentConfirmationBlocks":         tbtc.VerifC46MovingFundsCommitmentConfirmationBlocks,
	"movedFundsSweepProposalValidityBlocks":           tbtc.VerifC46MovedFundsSweepProposalValidityBlocks,
	"movedFundsSweepSigningTimeoutSafetyMarginBlocks": tbtc.VerifC46MovedFundsSweepSigningTimeoutSafetyMarginBlocks,
	"heartbeatTotalProposalValidityBlocks":            tbtc.VerifC46HeartbeatTotalProposalValidityBlocks,
	"heartbeatInactivityClaimValidityBlocks":          tbtc.VerifC46HeartbeatInactivityClaimValidityBlocks,
	"heartbeatTimeoutSafetyMarginBlocks":              tbtc.VerifC46HeartbeatTimeoutSafetyMarginBlocks,
	"heartbeatSigningMinimumActiveMembers":            tbtc.VerifC46HeartbeatSigningMinimumActiveMembers,
	"heartbeatConsecutiveFailureThreshold":            tbtc.VerifC46HeartbeatConsecutiveFailureThreshold,
	"signingAttemptsLimit":                            tbtc.VerifC46SigningAttemptsLimit,
	"signingAttemptAnnouncementDelayBlocks":           tbtc.VerifC46SigningAttemptAnnouncementDelayBlocks,
	"signingAttemptAnnouncementActiveBlocks":          tbtc.VerifC46SigningAttemptAnnouncementActiveBlocks,
	"signingAttemptMaximumProtocolBlocks":             tbtc.VerifC46SigningAttemptMaximumProtocolBlocks,
	"signingAttemptCoolDownBlocks":                    tbtc.VerifC46SigningAttemptCoolDownBlocks,
	"coordinationDurationBlocks":                      tbtc.VerifC46CoordinationDurationBlocks,
}

var durations = map[string]time.Duration{
	"depositSweepBroadcastTimeout":       tbtc.VerifC46DepositSweepBroadcastTimeout,
	"depositSweepBroadcastCheckDelay":    tbtc.VerifC46DepositSweepBroadcastCheckDelay,
	"redemptionBroadcastTimeout":         tbtc.VerifC46RedemptionBroadcastTimeout,
	"redemptionBroadcastCheckDelay":      tbtc.VerifC46RedemptionBroadcastCheckDelay,
	"movingFundsBroadcastTimeout":        tbtc.VerifC46MovingFundsBroadcastTimeout,
	"movingFundsBroadcastCheckDelay":     tbtc.VerifC46MovingFundsBroadcastCheckDelay,
	"movedFundsSweepBroadcastTimeout":    tbtc.VerifC46MovedFundsSweepBroadcastTimeout,
	"movedFundsSweepBroadcastCheckDelay": tbtc.VerifC46MovedFundsSweepBroadcastCheckDelay,
}

type actionInfo struct {
	name, file, recv, ctor string
	validity               func() uint64
}

var txActions = []actionInfo{
	{"depositSweep", "deposit_sweep.go", "depositSweepAction", "newDepositSweepAction", func() uint64 { return (&tbtc.DepositSweepProposal{}).ValidityBlocks() }},
	{"redemption", "redemption.go", "redemptionAction", "newRedemptionAction", func() uint64 { return (&tbtc.RedemptionProposal{}).ValidityBlocks() }},
	{"movingFunds", "moving_funds.go", "movingFundsAction", "newMovingFundsAction", func() uint64 { return (&tbtc.MovingFundsProposal{}).ValidityBlocks() }},
	{"movedFundsSweep", "moved_funds_sweep.go", "movedFundsSweepAction", "newMovedFundsSweepAction", func() uint64 { return (&tbtc.MovedFundsSweepProposal{}).ValidityBlocks() }},
}

func heartbeatValidity() uint64 { return (&tbtc.HeartbeatProposal{}).ValidityBlocks() }

// ---- AST extraction -----------------------------------------------------------

type extracted struct {
	exprs map[string]ast.Expr // name -> expression
	// per action: struct field -> constant identifier wired by the constructor
	wiring map[string]map[string]string
	// per expression name: local variables (`x := expr`) of the function it was taken from
	locals map[string]map[string]ast.Expr
	errs   []string
}

// localDefs collects the single-variable short declarations `x := expr` of a function body
// (first definition wins), so that an argument given as a local variable is followed to its
// defining expression.
func localDefs(fn *ast.FuncDecl) map[string]ast.Expr {
	out := map[string]ast.Expr{}
	ast.Inspect(fn, func(x ast.Node) bool {
		if as, ok := x.(*ast.AssignStmt); ok && as.Tok == token.DEFINE && len(as.Lhs) == 1 && len(as.Rhs) == 1 {
			if id, ok := as.Lhs[0].(*ast.Ident); ok {
				if _, seen := out[id.Name]; !seen {
					out[id.Name] = as.Rhs[0]
				}
			}
		}
		return true
	})
	return out
}

func repoDir() string {
	if d := os.Getenv("VERIF_REPO"); d != "" {
		return d
	}
	return "/repo"
}

func parseFile(name string) (*ast.File, error) {
	return parser.ParseFile(token.NewFileSet(), filepath.Join(repoDir(), "pkg", "tbtc", name), nil, 0)
}

func findFunc(f *ast.File, recv, name string) *ast.FuncDecl {
	for _, d := range f.Decls {
		fd, ok := d.(*ast.FuncDecl)
		if !ok || fd.Name.Name != name {
			continue
		}
		if recv == "" && fd.Recv == nil {
			return fd
		}
		if recv != "" && fd.Recv != nil && len(fd.Recv.List) == 1 {
			t := fd.Recv.List[0].Type
			if s, ok := t.(*ast.StarExpr); ok {
				t = s.X
			}
			if id, ok := t.(*ast.Ident); ok && id.Name == recv {
				return fd
			}
		}
	}
	return nil
}

func selName(e ast.Expr) string {
	if s, ok := e.(*ast.SelectorExpr); ok {
		return s.Sel.Name
	}
	if id, ok := e.(*ast.Ident); ok {
		return id.Name
	}
	return ""
}

// callsNamed returns the calls f(...) / x.f(...) with the given function name, in source order.
func callsNamed(n ast.Node, name string) []*ast.CallExpr {
	var out []*ast.CallExpr
	ast.Inspect(n, func(x ast.Node) bool {
		if c, ok := x.(*ast.CallExpr); ok && selName(c.Fun) == name {
			out = append(out, c)
		}
		return true
	})
	return out
}

// guardCond finds `if COND { return fmt.Errorf("invalid proposal expiry block") }`.
func guardCond(n ast.Node) ast.Expr {
	var out ast.Expr
	ast.Inspect(n, func(x ast.Node) bool {
		is, ok := x.(*ast.IfStmt)
		if !ok {
			return true
		}
		hit := false
		ast.Inspect(is.Body, func(y ast.Node) bool {
			if l, ok := y.(*ast.BasicLit); ok && strings.Contains(l.Value, "invalid proposal expiry block") {
				hit = true
			}
			return true
		})
		if hit && out == nil {
			out = is.Cond
		}
		return true
	})
	return out
}

func extract() *extracted {
	ex := &extracted{exprs: map[string]ast.Expr{}, wiring: map[string]map[string]string{}, locals: map[string]map[string]ast.Expr{}}
	fail := func(format string, a ...interface{}) { ex.errs = append(ex.errs, fmt.Sprintf(format, a...)) }
	for _, a := range txActions {
		f, err := parseFile(a.file)
		if err != nil {
			fail("%v", err)
			continue
		}
		exe := findFunc(f, a.recv, "execute")
		if exe == nil {
			fail("%s.execute not found", a.recv)
			continue
		}
		calls := callsNamed(exe, "signTransaction")
		if len(calls) != 1 || len(calls[0].Args) != 4 {
			fail("%s: expected exactly one signTransaction call with 4 arguments", a.name)
			continue
		}
		ex.exprs[a.name+"SignStart"] = calls[0].Args[2]
		ex.exprs[a.name+"SignEnd"] = calls[0].Args[3]
		ex.locals[a.name+"SignStart"] = localDefs(exe)
		ex.locals[a.name+"SignEnd"] = ex.locals[a.name+"SignStart"]
		ex.locals[a.name+"GuardFails"] = ex.locals[a.name+"SignStart"]
		if g := guardCond(exe); g != nil {
			ex.exprs[a.name+"GuardFails"] = g
		} else {
			fail("%s: expiry guard not found", a.name)
		}
		// constructor wiring: field: constant
		w := map[string]string{}
		if ctor := findFunc(f, "", a.ctor); ctor != nil {
			ast.Inspect(ctor, func(x ast.Node) bool {
				if kv, ok := x.(*ast.KeyValueExpr); ok {
					if k, ok := kv.Key.(*ast.Ident); ok {
						if v, ok := kv.Value.(*ast.Ident); ok {
							w[k.Name] = v.Name
						}
					}
				}
				return true
			})
		} else {
			fail("%s not found", a.ctor)
		}
		ex.wiring[a.name] = w
	}
	// heartbeat
	if f, err := parseFile("heartbeat.go"); err == nil {
		if exe := findFunc(f, "heartbeatAction", "execute"); exe != nil {
			wc := callsNamed(exe, "withCancelOnBlock")
			sc := callsNamed(exe, "sign")
			if len(wc) == 2 && len(wc[0].Args) == 3 && len(wc[1].Args) == 3 && len(sc) == 1 && len(sc[0].Args) == 3 {
				ex.exprs["heartbeatSignEnd"] = wc[0].Args[1]
				ex.exprs["heartbeatClaimEnd"] = wc[1].Args[1]
				ex.exprs["heartbeatSignStart"] = sc[0].Args[2]
				for _, n := range []string{"heartbeatSignEnd", "heartbeatClaimEnd", "heartbeatSignStart", "heartbeatGuardFails"} {
					ex.locals[n] = localDefs(exe)
				}
			} else {
				fail("heartbeat: expected two withCancelOnBlock calls and one sign call")
			}
			if g := guardCond(exe); g != nil {
				ex.exprs["heartbeatGuardFails"] = g
			} else {
				fail("heartbeat: expiry guard not found")
			}
		} else {
			fail("heartbeatAction.execute not found")
		}
	} else {
		fail("%v", err)
	}
	// node.go: expiryBlock := startBlock + result.proposal.ValidityBlocks()
	if f, err := parseFile("node.go"); err == nil {
		if fn := findFunc(f, "", "processCoordinationResult"); fn != nil {
			ast.Inspect(fn, func(x ast.Node) bool {
				if as, ok := x.(*ast.AssignStmt); ok && len(as.Lhs) == 1 && len(as.Rhs) == 1 && selName(as.Lhs[0]) == "expiryBlock" {
					ex.exprs["proposalExpiry"] = as.Rhs[0]
				}
				if as, ok := x.(*ast.AssignStmt); ok && len(as.Lhs) == 1 && len(as.Rhs) == 1 && selName(as.Lhs[0]) == "startBlock" {
					ex.exprs["actionStart"] = as.Rhs[0]
				}
				return true
			})
		}
		if ex.exprs["proposalExpiry"] == nil || ex.exprs["actionStart"] == nil {
			fail("node.go: startBlock / expiryBlock assignment not found")
		}
		// the signing executor is built with the signingAttemptsLimit constant
		ok := false
		for _, c := range callsNamed(f, "newSigningExecutor") {
			if len(c.Args) > 0 && selName(c.Args[len(c.Args)-1]) == "signingAttemptsLimit" {
				ok = true
			}
		}
		if !ok {
			fail("node.go: newSigningExecutor is not given signingAttemptsLimit")
		}
	} else {
		fail("%v", err)
	}
	// signing.go: loopTimeoutBlock := startBlock + uint64(se.signingAttemptsLimit*signingAttemptMaximumBlocks())
	if f, err := parseFile("signing.go"); err == nil {
		if fn := findFunc(f, "signingExecutor", "sign"); fn != nil {
			ast.Inspect(fn, func(x ast.Node) bool {
				if as, ok := x.(*ast.AssignStmt); ok && len(as.Lhs) == 1 && len(as.Rhs) == 1 && selName(as.Lhs[0]) == "loopTimeoutBlock" {
					ex.exprs["signingLoopTimeout"] = as.Rhs[0]
				}
				return true
			})
		}
		if ex.exprs["signingLoopTimeout"] == nil {
			fail("signing.go: loopTimeoutBlock assignment not found")
		}
	} else {
		fail("%v", err)
	}
	if f, err := parseFile("coordination.go"); err == nil {
		if fn := findFunc(f, "coordinationWindow", "endBlock"); fn != nil && len(fn.Body.List) == 1 {
			if r, ok := fn.Body.List[0].(*ast.ReturnStmt); ok && len(r.Results) == 1 {
				ex.exprs["windowEnd"] = r.Results[0]
			}
		}
		if ex.exprs["windowEnd"] == nil {
			fail("coordination.go: coordinationWindow.endBlock body not recognised")
		}
	} else {
		fail("%v", err)
	}
	if f, err := parseFile("signing_loop.go"); err == nil {
		if fn := findFunc(f, "", "signingAttemptMaximumBlocks"); fn != nil && len(fn.Body.List) == 1 {
			if r, ok := fn.Body.List[0].(*ast.ReturnStmt); ok && len(r.Results) == 1 {
				ex.exprs["signingAttemptMaximumBlocks"] = r.Results[0]
			}
		}
		if ex.exprs["signingAttemptMaximumBlocks"] == nil {
			fail("signing_loop.go: signingAttemptMaximumBlocks body not recognised")
		}
	} else {
		fail("%v", err)
	}
	return ex
}

// ---- expression translation / evaluation --------------------------------------

// resolveName maps an identifier / selected field to a canonical variable or constant name.
func resolveName(action, name string, wiring map[string]string) string {
	switch name {
	case "proposalProcessingStartBlock", "startBlock":
		return "start"
	case "proposalExpiryBlock", "expiryBlock":
		return "expiry"
	case "coordinationBlock":
		return "cb"
	}
	if c, ok := wiring[name]; ok {
		return c
	}
	return name
}

// curLocals: local definitions of the function the expression being translated / evaluated was
// taken from (set by withLocals); curDepth bounds the substitution depth.
var (
	curLocals map[string]ast.Expr
	curDepth  int
)

var boundNames = map[string]bool{"start": true, "expiry": true, "cb": true, "validity": true}

func withLocals(name string, f func()) {
	prev := curLocals
	curLocals = ex().locals[name]
	defer func() { curLocals = prev }()
	f()
}

// localOf returns the defining expression of a local variable that is neither one of the model's
// variables nor a known constant / wired field.
func localOf(e ast.Expr, resolved string) (ast.Expr, bool) {
	id, ok := e.(*ast.Ident)
	if !ok || boundNames[resolved] || curDepth > 8 {
		return nil, false
	}
	if _, isConst := consts[resolved]; isConst {
		return nil, false
	}
	d, ok := curLocals[id.Name]
	return d, ok
}

func toLean(action string, e ast.Expr, wiring map[string]string) (string, error) {
	switch x := e.(type) {
	case *ast.ParenExpr:
		return toLean(action, x.X, wiring)
	case *ast.BasicLit:
		if x.Kind == token.INT {
			return x.Value, nil
		}
	case *ast.Ident:
		n := resolveName(action, x.Name, wiring)
		if d, ok := localOf(x, n); ok {
			curDepth++
			defer func() { curDepth-- }()
			return toLean(action, d, wiring)
		}
		return n, nil
	case *ast.SelectorExpr:
		return resolveName(action, x.Sel.Name, wiring), nil
	case *ast.BinaryExpr:
		l, err := toLean(action, x.X, wiring)
		if err != nil {
			return "", err
		}
		r, err := toLean(action, x.Y, wiring)
		if err != nil {
			return "", err
		}
		switch x.Op {
		case token.ADD, token.SUB, token.MUL:
			return "(" + l + " " + x.Op.String() + " " + r + ")", nil
		case token.LSS, token.GTR, token.LEQ, token.GEQ:
			op := map[token.Token]string{token.LSS: "<", token.GTR: ">", token.LEQ: "≤", token.GEQ: "≥"}[x.Op]
			return "decide (" + l + " " + op + " " + r + ")", nil
		}
	case *ast.CallExpr:
		switch selName(x.Fun) {
		case "uint64", "uint":
			if len(x.Args) == 1 {
				return toLean(action, x.Args[0], wiring)
			}
		case "signingAttemptMaximumBlocks":
			return "signingAttemptMaximumBlocks", nil
		case "ValidityBlocks":
			return "validity", nil
		case "endBlock":
			return "(windowEnd cb)", nil
		}
	}
	return "", fmt.Errorf("untranslatable expression %T", e)
}

var errGuard = errors.New("comparison")

// eval evaluates with Go's uint64 wrap-around semantics.
func eval(action string, e ast.Expr, wiring map[string]string, env map[string]uint64) (uint64, error) {
	switch x := e.(type) {
	case *ast.ParenExpr:
		return eval(action, x.X, wiring, env)
	case *ast.BasicLit:
		if x.Kind == token.INT {
			return strconv.ParseUint(x.Value, 0, 64)
		}
	case *ast.Ident, *ast.SelectorExpr:
		n := resolveName(action, selName(x.(ast.Expr)), wiring)
		if v, ok := env[n]; ok {
			return v, nil
		}
		if d, ok := localOf(x.(ast.Expr), n); ok {
			curDepth++
			defer func() { curDepth-- }()
			return eval(action, d, wiring, env)
		}
		if v, ok := consts[n]; ok {
			return v, nil
		}
		return 0, fmt.Errorf("unknown name %s", n)
	case *ast.BinaryExpr:
		l, err := eval(action, x.X, wiring, env)
		if err != nil {
			return 0, err
		}
		r, err := eval(action, x.Y, wiring, env)
		if err != nil {
			return 0, err
		}
		b := func(c bool) (uint64, error) {
			if c {
				return 1, nil
			}
			return 0, nil
		}
		switch x.Op {
		case token.ADD:
			return l + r, nil
		case token.SUB:
			return l - r, nil
		case token.MUL:
			return l * r, nil
		case token.LSS:
			return b(l < r)
		case token.GTR:
			return b(l > r)
		case token.LEQ:
			return b(l <= r)
		case token.GEQ:
			return b(l >= r)
		}
	case *ast.CallExpr:
		switch selName(x.Fun) {
		case "uint64", "uint":
			if len(x.Args) == 1 {
				return eval(action, x.Args[0], wiring, env)
			}
		case "signingAttemptMaximumBlocks":
			return uint64(tbtc.VerifC46SigningAttemptMaximumBlocks()), nil
		case "ValidityBlocks":
			return env["validity"], nil
		case "endBlock":
			return tbtc.VerifC46WindowEndBlock(env["cb"]), nil
		}
	}
	return 0, fmt.Errorf("unevaluable expression %T", e)
}

// evalNamed evaluates the extracted expression `name` (following local variables of its function).
func evalNamed(name, action string, wiring map[string]string, env map[string]uint64) (v uint64, err error) {
	e, ok := ex().exprs[name]
	if !ok {
		return 0, fmt.Errorf("expression %s not extracted", name)
	}
	withLocals(name, func() { v, err = eval(action, e, wiring, env) })
	return
}

var (
	exOnce sync.Once
	exVal  *extracted
)

func ex() *extracted {
	exOnce.Do(func() { exVal = extract() })
	return exVal
}

// ---- facts ----------------------------------------------------------------------

func facts() []string {
	var out []string
	names := make([]string, 0, len(consts))
	for k := range consts {
		names = append(names, k)
	}
	sort.Strings(names)
	for _, k := range names {
		out = append(out, fmt.Sprintf("nat %s %d", k, consts[k]))
	}
	dn := make([]string, 0, len(durations))
	for k := range durations {
		dn = append(dn, k)
	}
	sort.Strings(dn)
	for _, k := range dn {
		out = append(out, fmt.Sprintf("nat %sSeconds %d", k, uint64(durations[k]/time.Second)))
	}
	out = append(out, fmt.Sprintf("nat compiledSigningAttemptMaximumBlocks %d", tbtc.VerifC46SigningAttemptMaximumBlocks()))
	for _, a := range txActions {
		out = append(out, fmt.Sprintf("nat %sCompiledValidity %d", a.name, a.validity()))
		p := tbtc.VerifC46NewActionParams(a.name, 1000, 5000)
		out = append(out, fmt.Sprintf("nat %sCompiledMargin %d", a.name, p.SigningTimeoutSafetyMarginBlocks))
		out = append(out, fmt.Sprintf("nat %sCompiledBroadcastTimeoutSeconds %d", a.name, uint64(p.BroadcastTimeout/time.Second)))
	}
	out = append(out, fmt.Sprintf("nat heartbeatCompiledValidity %d", heartbeatValidity()))
	e := ex()
	emit := func(name, action, params, ty string) {
		expr, ok := e.exprs[name]
		if !ok {
			out = append(out, "raw def "+name+" : Nat := EXTRACTION_FAILED_"+name)
			return
		}
		var s string
		var err error
		withLocals(name, func() { s, err = toLean(action, expr, e.wiring[action]) })
		if err != nil {
			out = append(out, "raw def "+name+" : Nat := UNTRANSLATABLE_"+name)
			return
		}
		out = append(out, "raw def "+name+" "+params+" : "+ty+" := "+s)
	}
	emit("signingAttemptMaximumBlocks", "", "", "Nat")
	emit("signingLoopTimeout", "", "(start : Nat)", "Nat")
	emit("windowEnd", "", "(cb : Nat)", "Nat")
	emit("actionStart", "", "(cb : Nat)", "Nat")
	emit("proposalExpiry", "", "(cb start validity : Nat)", "Nat")
	out = append(out, fmt.Sprintf("nat compiledWindowEndOf1000 %d", tbtc.VerifC46WindowEndBlock(1000)))
	for _, a := range append(append([]actionInfo{}, txActions...), actionInfo{name: "heartbeat"}) {
		emit(a.name+"SignStart", a.name, "(start expiry : Nat)", "Nat")
		emit(a.name+"SignEnd", a.name, "(start expiry : Nat)", "Nat")
		emit(a.name+"GuardFails", a.name, "(start expiry : Nat)", "Bool")
	}
	emit("heartbeatClaimEnd", "heartbeat", "(start expiry : Nat)", "Nat")
	for _, er := range e.errs {
		out = append(out, "raw def extractionError : Nat := EXTRACTION_ERROR -- "+strings.ReplaceAll(er, "\n", " "))
	}
	return out
}

// ---- exec -------------------------------------------------------------------------

var (
	keyOnce sync.Once
	key     *ecdsa.PublicKey
)

func walletKey() *ecdsa.PublicKey {
	keyOnce.Do(func() {
		k, err := ecdsa.GenerateKey(tecdsa.Curve, rand.Reader)
		if err != nil {
			panic(err)
		}
		key = &k.PublicKey
	})
	return key
}

type blockLog struct {
	mu     sync.Mutex
	blocks []uint64
	ch     chan struct{}
}

func newBlockLog() *blockLog { return &blockLog{ch: make(chan struct{}, 64)} }

func (b *blockLog) wait(ctx context.Context, block uint64) error {
	b.mu.Lock()
	b.blocks = append(b.blocks, block)
	b.mu.Unlock()
	b.ch <- struct{}{}
	return nil
}

// expect waits (on the condition) until n block-waiter calls were made.
func (b *blockLog) expect(n int) ([]uint64, bool) {
	deadline := time.After(10 * time.Second)
	for i := 0; i < n; i++ {
		select {
		case <-b.ch:
		case <-deadline:
			return nil, false
		}
	}
	b.mu.Lock()
	defer b.mu.Unlock()
	out := append([]uint64(nil), b.blocks...)
	sort.Slice(out, func(i, j int) bool { return out[i] < out[j] })
	return out, true
}

type hbChain struct {
	tbtc.Chain // unimplemented methods are not used by the heartbeat action
}

func (hbChain) OperatorToStakingProvider() (chain.Address, bool, error) {
	return "0xprovider", true, nil
}
func (hbChain) EligibleStake(chain.Address) (*big.Int, error) { return big.NewInt(1000), nil }
func (hbChain) ValidateHeartbeatProposal([20]byte, *tbtc.HeartbeatProposal) error {
	return nil
}

// txChain serves the previous transactions of the inputs of a builder.
type txChain struct {
	bitcoin.Chain
	txs map[bitcoin.Hash]*bitcoin.Transaction
}

func (c *txChain) GetTransaction(h bitcoin.Hash) (*bitcoin.Transaction, error) {
	if tx, ok := c.txs[h]; ok {
		return tx, nil
	}
	return nil, fmt.Errorf("transaction not found")
}

// builderWithInputs: an unsigned transaction spending k P2WPKH outputs of the wallet (k signature
// hashes in the signing batch) to one output.
func builderWithInputs(k int) (*bitcoin.TransactionBuilder, error) {
	if k == 0 {
		return bitcoin.NewTransactionBuilder(nil), nil
	}
	script, err := bitcoin.PayToWitnessPublicKeyHash(bitcoin.PublicKeyHash(walletKey()))
	if err != nil {
		return nil, err
	}
	prev := &bitcoin.Transaction{Version: 1}
	for i := 0; i < k; i++ {
		prev.Outputs = append(prev.Outputs, &bitcoin.TransactionOutput{Value: int64(100000 + i), PublicKeyScript: script})
	}
	b := bitcoin.NewTransactionBuilder(&txChain{txs: map[bitcoin.Hash]*bitcoin.Transaction{prev.Hash(): prev}})
	for i := 0; i < k; i++ {
		if err := b.AddPublicKeyHashInput(&bitcoin.UnspentTransactionOutput{
			Outpoint: &bitcoin.TransactionOutpoint{TransactionHash: prev.Hash(), OutputIndex: uint32(i)},
			Value:    int64(100000 + i),
		}); err != nil {
			return nil, err
		}
	}
	b.AddOutput(&bitcoin.TransactionOutput{Value: int64(90000 * k), PublicKeyScript: script})
	return b, nil
}

func actionByName(n string) *actionInfo {
	for i := range txActions {
		if txActions[i].name == n {
			return &txActions[i]
		}
	}
	return nil
}

func exec(op string) (string, string) {
	fs := strings.Fields(op)
	e := ex()
	if len(e.errs) > 0 {
		return "extraction-failed " + strings.ReplaceAll(strings.Join(e.errs, ";"), " ", "_"), "extract-error"
	}
	switch {
	case (len(fs) == 3 || len(fs) == 4) && fs[0] == "tx":
		a := actionByName(fs[1])
		cb, err := strconv.ParseUint(fs[2], 10, 63)
		if a == nil || err != nil {
			return "bad-op", "bad"
		}
		inputs := 0
		if len(fs) == 4 {
			k, err := strconv.ParseUint(fs[3], 10, 8)
			if err != nil || k > 40 || strconv.FormatUint(k, 10) != fs[3] {
				return "bad-op", "bad"
			}
			inputs = int(k)
		}
		w := e.wiring[a.name]
		validity := a.validity()
		start, err := evalNamed("actionStart", "", nil, map[string]uint64{"cb": cb})
		if err != nil {
			return "eval-error " + err.Error(), "eval-error"
		}
		expiry, err := evalNamed("proposalExpiry", "", nil, map[string]uint64{"cb": cb, "start": start, "validity": validity})
		if err != nil {
			return "eval-error " + err.Error(), "eval-error"
		}
		p := tbtc.VerifC46NewActionParams(a.name, start, expiry)
		// the field the expressions read is the one the constructor filled
		env := map[string]uint64{"start": p.StartBlock, "expiry": p.ExpiryBlock}
		for field, c := range w {
			if field == "signingTimeoutSafetyMarginBlocks" {
				env[c] = p.SigningTimeoutSafetyMarginBlocks
			}
		}
		g, err := evalNamed(a.name+"GuardFails", a.name, w, env)
		if err != nil {
			return "eval-error " + err.Error(), "eval-error"
		}
		head := fmt.Sprintf("start=%d expiry=%d margin=%d bcast=%d delay=%d", start, expiry, p.SigningTimeoutSafetyMarginBlocks,
			uint64(p.BroadcastTimeout/time.Second), uint64(p.BroadcastCheckDelay/time.Second))
		if g != 0 {
			return head + " guard-fails", a.name + "+guard"
		}
		s, err1 := evalNamed(a.name+"SignStart", a.name, w, env)
		t, err2 := evalNamed(a.name+"SignEnd", a.name, w, env)
		if err1 != nil || err2 != nil {
			return "eval-error", "eval-error"
		}
		bl := newBlockLog()
		var got []uint64
		builder, err := builderWithInputs(inputs)
		if err != nil {
			return "PANIC builder " + err.Error(), "bad"
		}
		batch := -1
		_ = tbtc.VerifC46SignTransaction(walletKey(), builder, s, t,
			func(ctx context.Context, msgs []*big.Int, startBlock uint64) ([]*tecdsa.Signature, error) {
				got = append(got, startBlock)
				batch = len(msgs)
				return nil, nil
			}, bl.wait)
		blocks, ok := bl.expect(1)
		if !ok || len(got) != 1 || len(blocks) != 1 || batch != inputs {
			return head + " executor-did-not-sign", a.name + "+nosign"
		}
		tag := a.name
		if inputs > 1 {
			tag += "+multi-input"
		}
		return fmt.Sprintf("%s signStart=%d signEnd=%d", head, got[0], blocks[0]), tag
	case len(fs) == 5 && fs[0] == "hb":
		cb, err := strconv.ParseUint(fs[1], 10, 63)
		active, err2 := strconv.Atoi(fs[2])
		inactive, err3 := strconv.Atoi(fs[3])
		rounds, err4 := strconv.Atoi(fs[4])
		if err != nil || err2 != nil || err3 != nil || err4 != nil || active < 0 || active > 200 || inactive < 0 || inactive > 200 || rounds < 1 || rounds > 6 {
			return "bad-op", "bad"
		}
		validity := heartbeatValidity()
		start, err := evalNamed("actionStart", "", nil, map[string]uint64{"cb": cb})
		if err != nil {
			return "eval-error " + err.Error(), "eval-error"
		}
		expiry, err := evalNamed("proposalExpiry", "", nil, map[string]uint64{"cb": cb, "start": start, "validity": validity})
		if err != nil {
			return "eval-error " + err.Error(), "eval-error"
		}
		bl := newBlockLog()
		var signs []uint64
		claims := 0
		errs := tbtc.VerifC46HeartbeatExecute(hbChain{}, walletKey(), rounds, start, expiry,
			func(ctx context.Context, m *big.Int, startBlock uint64) (int, int, error) {
				signs = append(signs, startBlock)
				return active, inactive, nil
			},
			func(ctx context.Context, n int) error { claims++; return nil },
			bl.wait)
		blocks, ok := bl.expect(len(signs) + claims)
		if !ok {
			return "missing-block-waiter-calls", "hb+missing"
		}
		nerr := 0
		for _, er := range errs {
			if er != nil {
				nerr++
			}
		}
		tag := "hb"
		if claims > 0 {
			tag += "+claim"
		}
		if nerr > 0 {
			tag += "+hberr"
		}
		return fmt.Sprintf("start=%d expiry=%d signStarts=%s claims=%d errors=%d deadlines=%s", start, expiry, hx.JoinInts(signs), claims, nerr, hx.JoinInts(blocks)), tag
	}
	return "bad-op", "bad"
}

func gen(r *hx.Rng, n int, tier string) []string {
	var ops []string
	for _, a := range txActions {
		for _, s := range []uint64{0, 1, 299, 300, 1199, 1200, 18000000, 1 << 40, (1 << 62)} {
			ops = append(ops, fmt.Sprintf("tx %s %d", a.name, s))
		}
		ops = append(ops, fmt.Sprintf("tx %s 18000000 2", a.name), fmt.Sprintf("tx %s 1200 20", a.name))
	}
	for i := 0; i < n; i++ {
		switch k := r.Intn(10); {
		case k < 6:
			a := hx.Pick(r, txActions)
			var s uint64
			switch r.Intn(4) {
			case 0:
				s = uint64(r.Intn(2000))
			case 1:
				s = 15000000 + uint64(r.Intn(10000000))
			case 2:
				s = uint64(r.Intn(1<<30)) * 900
			default:
				s = r.U64() >> 2
			}
			if r.Chance(1, 2) {
				ops = append(ops, fmt.Sprintf("tx %s %d %d", a.name, s, hx.Pick(r, []int{1, 2, 3, 5, 20, 40, r.Intn(41)})))
				continue
			}
			ops = append(ops, fmt.Sprintf("tx %s %d", a.name, s))
		case k < 9:
			active := hx.Pick(r, []int{100, 70, 69, 51, 0, r.Intn(101)})
			inactive := 100 - active
			if r.Chance(1, 8) {
				inactive = 0
			}
			ops = append(ops, fmt.Sprintf("hb %d %d %d %d", uint64(r.Intn(1<<30)), active, inactive, r.Range(1, 5)))
		default:
			ops = append(ops, hx.Pick(r, []string{"tx nosuch 5", "tx redemption x", "hb 1 2 3", "hb 5 300 0 1", "hb 5 50 50 9", "tx", "ty depositSweep 5"}))
		}
	}
	return ops
}

func main() {
	hx.Main(&hx.Config{Prop: "C46", Gen: gen, Exec: exec, Facts: facts})
}
