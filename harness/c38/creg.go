package main

// Third family: the wallet registry under concurrency.
//
// Op line:  creg <order-seed> <step,step,...>   steps as for `wreg`, plus
//	P<w><i><s>  register signer (w,i,s) ∥ archive wallet w ∥ lookups of w, from three goroutines.
//	            The in-memory handle gates the race: Save writes the file and then waits inside the
//	            handle; only then are the archival and the lookups started; Save is released when
//	            the archival has either entered the handle's Archive (it got past the registry mutex)
//	            or has not done so within a grace period (it is waiting on the mutex, as it must).
//	            In code that holds the registry mutex across the storage call the order is therefore
//	            register → archive; the model predicts exactly that.
//
// Obs entry for P: `<register result>+<archive result>/<snapshot at quiescence>`.

import (
	"strings"
	"time"

	"keepverif/harness/astfacts"
	"keepverif/harness/hx"

	"github.com/keep-network/keep-core/pkg/bitcoin"
)

const archiveGrace = 120 * time.Millisecond

// gate state of the handle (used only by the creg family)
type saveGate struct {
	saveDone    chan struct{} // Save has written and is waiting
	releaseSave chan struct{}
	archEntered chan struct{}
}

func execCreg(f []string) (string, string) {
	fixOnce.Do(loadFixtures)
	if fixErr != nil {
		return "fixture-error " + fixErr.Error(), "bad"
	}
	r := &wrig{h: newMemHandle(hx.AtoU64(f[1])), seen: map[string]bool{}}
	if err := r.restart(); err != nil {
		return "e:start", "bad"
	}
	tags := map[string]bool{"conc": true}
	var outs []string
	for _, st := range hx.SplitList(f[2]) {
		if st[0] != 'P' {
			// sequential step: reuse the wreg interpreter on a one-step script
			out, tag, ok := r.seqStep(st)
			if !ok {
				return "bad-op", "bad"
			}
			for _, t := range strings.Split(tag, "+") {
				if t != "" {
					tags[t] = true
				}
			}
			outs = append(outs, out)
			if r.reg == nil {
				break
			}
			continue
		}
		if len(st) != 4 {
			return "bad-op", "bad"
		}
		w, i, s := int(st[1]-'0'), int(st[2]-'0'), int(st[3]-'0')
		if w < 1 || w > 4 || i < 1 || i > 9 || s < 0 || s > 4 {
			return "bad-op", "bad"
		}
		g := &saveGate{saveDone: make(chan struct{}, 1), releaseSave: make(chan struct{}), archEntered: make(chan struct{}, 1)}
		r.h.mu.Lock()
		r.h.gate = g
		r.h.mu.Unlock()
		regDone := make(chan error, 1)
		archDone := make(chan error, 1)
		lookDone := make(chan struct{})
		reg := r.reg
		go func() {
			regDone <- reg.RegisterSigner(walletPubs[w], operators, memberIndex(i), fixShares[s])
		}()
		select {
		case <-g.saveDone:
		case <-time.After(10 * time.Second):
			return "STUCK save-gate", "stuck"
		}
		go func() { archDone <- reg.ArchiveWallet(bitcoin.PublicKeyHash(walletPubs[w])) }()
		go func() {
			defer close(lookDone)
			reg.GetSigners(walletPubs[w])
			reg.GetWalletByPublicKeyHash(bitcoin.PublicKeyHash(walletPubs[w]))
			reg.GetWalletByID(walletID(walletPubs[w]))
			reg.GetWalletsPublicKeys()
		}()
		var archErr error
		archFinished := false
		select {
		case <-g.archEntered:
			tags["overtook"] = true
		case archErr = <-archDone:
			archFinished = true
			tags["overtook"] = true
		case <-time.After(archiveGrace):
		}
		close(g.releaseSave)
		regErr := <-regDone
		if !archFinished {
			archErr = <-archDone
		}
		<-lookDone
		r.h.mu.Lock()
		r.h.gate = nil
		r.h.mu.Unlock()
		tags["par"] = true
		outs = append(outs, classify(regErr)+"+"+classify(archErr)+"/"+r.snapshot())
	}
	var ts []string
	for _, t := range []string{"conc", "par", "overtook", "reg", "dup", "savefail", "tornsave", "idfail", "archive", "notfound", "archfail", "tornarch", "crash", "restart"} {
		if tags[t] {
			ts = append(ts, t)
		}
	}
	return hx.JoinStrs(outs), strings.Join(ts, "+")
}

func genCreg(r *hx.Rng) string {
	ln := r.Range(2, 10)
	nw := r.Range(1, 2)
	var steps []string
	known := map[int]bool{}
	for j := 0; j < ln; j++ {
		w := r.Range(1, nw)
		switch r.Intn(10) {
		case 0, 1, 2:
			steps = append(steps, "R"+itoa(w)+itoa(r.Range(1, 4))+itoa(r.Range(0, 4)))
			known[w] = true
		case 3, 4, 5, 6:
			if !known[w] && r.Chance(3, 4) {
				steps = append(steps, "R"+itoa(w)+itoa(r.Range(1, 4))+itoa(r.Range(0, 4)))
			}
			steps = append(steps, "P"+itoa(w)+itoa(r.Range(1, 4))+itoa(r.Range(0, 4)))
			known[w] = false
			if r.Chance(2, 3) {
				steps = append(steps, "r")
			}
		case 7:
			steps = append(steps, "X"+itoa(w))
			known[w] = false
		default:
			steps = append(steps, "r")
		}
	}
	return "creg " + itoa(r.Intn(1000)) + " " + strings.Join(steps, ",")
}

func itoa(i int) string { return string(rune('0' + i%10)) + "" }

// ---- T1 lock-set facts ------------------------------------------------------------------

func c38Facts() []string {
	g := func(name, file, fn, mutex string, fields ...string) string {
		ok, _, err := astfacts.GuardedBy(file, fn, mutex, fields...)
		return astfacts.BoolFact(name, ok && err == nil)
	}
	out := []string{
		g("registerSignerHoldsMutex", "pkg/tbtc/registry.go", "walletRegistry.registerSigner", "mutex", "walletStorage", "walletCache"),
		g("archiveWalletHoldsMutex", "pkg/tbtc/registry.go", "walletRegistry.archiveWallet", "mutex", "walletStorage", "walletCache"),
		g("getSignersHoldsMutex", "pkg/tbtc/registry.go", "walletRegistry.getSigners", "mutex", "walletCache"),
		g("registerGroupHoldsMutex", "pkg/beacon/registry/groups.go", "Groups.RegisterGroup", "mutex", "storage", "myGroups"),
		g("unregisterStaleHoldsMutex", "pkg/beacon/registry/groups.go", "Groups.UnregisterStaleGroups", "mutex", "storage", "myGroups"),
	}
	// call order: storage first, memory second
	ord := func(name, file, fn, first, second string) string {
		o, err := astfacts.CallOrder(file, fn, first, second)
		return astfacts.BoolFact(name, err == nil && len(o) == 2 && o[0] >= 0 && o[1] >= 0 && o[0] < o[1])
	}
	out = append(out,
		ord("unregisterArchivesBeforeDelete", "pkg/beacon/registry/groups.go", "Groups.UnregisterStaleGroups", "storage.archive", "delete"),
		ord("archiveWalletArchivesBeforeDelete", "pkg/tbtc/registry.go", "walletRegistry.archiveWallet", "walletStorage.archiveWallet", "delete"),
	)
	return out
}
