// C38: wallet and group registries survive restarts exactly.
//
// Op line:  wreg <order-seed> <step,step,...>      tbtc walletRegistry (pkg/tbtc/registry.go)
//           greg <order-seed> <step,step,...>      beacon group registry (pkg/beacon/registry)
//
//	R<w><i><s>[f]  register signer/membership: wallet/group w (1-4; wallet 4 is -P of wallet 1), member index i (1-4, or 9 = member index 255), key
//	               material s (0-4 = fixture share); storage fault f on the Save:
//	               b fails before writing, a fails after writing (torn), B process dies before
//	               writing, A process dies after writing (then restart); i (wreg) the wallet-ID
//	               function fails
//	X<w>[f]        wreg: archiveWallet(w);  greg: UnregisterStaleGroups with w stale
//	               fault f on the Archive call (b, a, B, A as above)
//	r              restart: drop the registry object, rebuild it from the storage handle
//
// Obs line: per step `<result>/<snapshot>`; snapshot = for every known wallet its signers as a sorted
// multiset `w=i.s+i.s;…` (`-` = nothing known), `!w` appended when the lookups by public key, by
// public key hash and by wallet ID disagree for w, `?` when key material or wallet data differ
// from what was registered.
//
// The persistence.ProtectedHandle is in memory (current/ and archive/ maps) with one-shot fault
// injection; ReadAll delivers the descriptors in an order drawn from <order-seed>.
package main

import (
	"bytes"
	"crypto/ecdsa"
	"crypto/sha256"
	"encoding/json"
	"fmt"
	"math/big"
	"os"
	"path/filepath"
	"sort"
	"strings"
	"sync"
	"time"

	"keepverif/harness/hx"

	"github.com/bnb-chain/tss-lib/ecdsa/keygen"
	"github.com/keep-network/keep-common/pkg/persistence"
	"github.com/keep-network/keep-core/pkg/bitcoin"
	"github.com/keep-network/keep-core/pkg/chain"
	"github.com/keep-network/keep-core/pkg/protocol/group"
	"github.com/keep-network/keep-core/pkg/tbtc"
	"github.com/keep-network/keep-core/pkg/tecdsa"
)

// ---- in-memory ProtectedHandle with faults -----------------------------------

type crashSentinel struct{}

type memHandle struct {
	mu        sync.Mutex
	cur, arch map[string]map[string][]byte
	saveFault string // one-shot: "", b, a, B, A
	archFault string
	rng       *hx.Rng
	gate      *saveGate // creg family: Save waits inside the handle, Archive reports its entry
}

func newMemHandle(seed uint64) *memHandle {
	return &memHandle{cur: map[string]map[string][]byte{}, arch: map[string]map[string][]byte{}, rng: hx.NewRng(seed)}
}

func (h *memHandle) write(dir, name string, data []byte) {
	if h.cur[dir] == nil {
		h.cur[dir] = map[string][]byte{}
	}
	h.cur[dir][name] = append([]byte(nil), data...)
}

func (h *memHandle) Save(data []byte, dir, name string) error {
	h.mu.Lock()
	if g := h.gate; g != nil && h.saveFault == "" {
		h.write(dir, name, data)
		h.mu.Unlock()
		g.saveDone <- struct{}{}
		<-g.releaseSave
		return nil
	}
	defer h.mu.Unlock()
	f := h.saveFault
	h.saveFault = ""
	switch f {
	case "b":
		return fmt.Errorf("injected: save failed")
	case "a":
		h.write(dir, name, data)
		return fmt.Errorf("injected: save failed after write")
	case "B":
		panic(crashSentinel{})
	case "A":
		h.write(dir, name, data)
		panic(crashSentinel{})
	}
	h.write(dir, name, data)
	return nil
}

func (h *memHandle) move(dir string) error {
	files, ok := h.cur[dir]
	if !ok {
		return fmt.Errorf("no such directory")
	}
	if h.arch[dir] == nil {
		h.arch[dir] = map[string][]byte{}
	}
	for n, d := range files {
		h.arch[dir][n] = d
	}
	delete(h.cur, dir)
	return nil
}

func (h *memHandle) Archive(dir string) error {
	h.mu.Lock()
	defer h.mu.Unlock()
	if g := h.gate; g != nil {
		select {
		case g.archEntered <- struct{}{}:
		default:
		}
	}
	f := h.archFault
	h.archFault = ""
	switch f {
	case "b":
		return fmt.Errorf("injected: archive failed")
	case "a":
		if err := h.move(dir); err != nil {
			return err
		}
		return fmt.Errorf("injected: archive failed after move")
	case "B":
		panic(crashSentinel{})
	case "A":
		_ = h.move(dir)
		panic(crashSentinel{})
	}
	return h.move(dir)
}

func (h *memHandle) Snapshot(data []byte, dir, name string) error {
	return fmt.Errorf("snapshot not supported")
}

type memDescriptor struct {
	name, dir string
	content   []byte
}

func (d *memDescriptor) Name() string             { return d.name }
func (d *memDescriptor) Directory() string        { return d.dir }
func (d *memDescriptor) Content() ([]byte, error) { return d.content, nil }

func (h *memHandle) ReadAll() (<-chan persistence.DataDescriptor, <-chan error) {
	h.mu.Lock()
	var ds []*memDescriptor
	for dir, files := range h.cur {
		for name, data := range files {
			ds = append(ds, &memDescriptor{name, dir, append([]byte(nil), data...)})
		}
	}
	sort.Slice(ds, func(i, j int) bool {
		if ds[i].dir != ds[j].dir {
			return ds[i].dir < ds[j].dir
		}
		return ds[i].name < ds[j].name
	})
	perm := h.rng.Perm(len(ds))
	h.mu.Unlock()
	dc := make(chan persistence.DataDescriptor)
	ec := make(chan error)
	go func() {
		defer close(dc)
		defer close(ec)
		for _, i := range perm {
			dc <- ds[i]
		}
	}()
	return dc, ec
}

// ---- fixtures ---------------------------------------------------------------------

var (
	fixOnce    sync.Once
	fixShares  []*tecdsa.PrivateKeyShare
	fixBytes   [][]byte
	fixErr     error
	walletPubs [5]*ecdsa.PublicKey // 1..4; 4 = -P1 (same X coordinate as wallet 1)
	operators  = []chain.Address{"address-1", "address-2", "address-3", "address-3", "address-5"}
)

func repoDir() string {
	if r := os.Getenv("VERIF_REPO"); r != "" {
		return r
	}
	return "/repo"
}

func loadFixtures() {
	for j := 0; j < 5; j++ {
		p := filepath.Join(repoDir(), "pkg/internal/tecdsatest/testdata", fmt.Sprintf("private_key_share_data_%d.json", j))
		bz, err := os.ReadFile(p)
		if err != nil {
			fixErr = err
			return
		}
		var share keygen.LocalPartySaveData
		if err := json.Unmarshal(bz, &share); err != nil {
			fixErr = err
			return
		}
		pks := tecdsa.NewPrivateKeyShare(share)
		b, err := pks.Marshal()
		if err != nil {
			fixErr = err
			return
		}
		fixShares = append(fixShares, pks)
		fixBytes = append(fixBytes, b)
	}
	// wallet 1: 11·G; wallet 2: the first k·G (k > 20) whose Y has a leading zero byte; wallet 3:
	// the first k·G whose X has a leading zero byte (encodings that drop leading zeros lose them)
	pick := func(ok func(x, y *big.Int) bool) *ecdsa.PublicKey {
		for k := int64(21); ; k++ {
			x, y := tecdsa.Curve.ScalarBaseMult(big.NewInt(k).Bytes())
			if ok(x, y) {
				return &ecdsa.PublicKey{Curve: tecdsa.Curve, X: x, Y: y}
			}
		}
	}
	x1, y1 := tecdsa.Curve.ScalarBaseMult(big.NewInt(11).Bytes())
	walletPubs[1] = &ecdsa.PublicKey{Curve: tecdsa.Curve, X: x1, Y: y1}
	walletPubs[2] = pick(func(x, y *big.Int) bool { return len(y.Bytes()) < 32 && len(x.Bytes()) == 32 })
	walletPubs[3] = pick(func(x, y *big.Int) bool { return len(x.Bytes()) < 32 })
	negY := new(big.Int).Sub(tecdsa.Curve.Params().P, walletPubs[1].Y)
	walletPubs[4] = &ecdsa.PublicKey{Curve: tecdsa.Curve, X: new(big.Int).Set(walletPubs[1].X), Y: negY}
}

func walletID(pk *ecdsa.PublicKey) [32]byte {
	return sha256.Sum256(append(pk.X.Bytes(), pk.Y.Bytes()...))
}

// ---- tbtc wallet registry ------------------------------------------------------------

type wrig struct {
	h      *memHandle
	reg    *tbtc.VerifC38Registry
	idFail bool
	seen   map[string]bool
}

func (r *wrig) calcID(pk *ecdsa.PublicKey) ([32]byte, error) {
	if r.idFail {
		r.idFail = false
		return [32]byte{}, fmt.Errorf("injected: wallet id")
	}
	return walletID(pk), nil
}

func (r *wrig) restart() error {
	r.reg = nil
	reg, err := tbtc.VerifC38NewWalletRegistry(r.h, r.calcID)
	if err != nil {
		return err
	}
	r.reg = reg
	return nil
}

// member index digit 9 of the op line stands for the largest member index, 255
func memberIndex(i int) group.MemberIndex {
	if i == 9 {
		return group.MemberIndex(group.MaxMemberIndex)
	}
	return group.MemberIndex(i)
}

func indexDigit(m int) int {
	if m == group.MaxMemberIndex {
		return 9
	}
	return m
}

func pubEq(a, b *ecdsa.PublicKey) bool {
	return a != nil && b != nil && a.X != nil && b.X != nil && a.X.Cmp(b.X) == 0 && a.Y.Cmp(b.Y) == 0
}

func (r *wrig) snapshot() (out string) {
	defer func() {
		if e := recover(); e != nil {
			out = "PANIC-in-lookup"
		}
	}()
	var parts []string
	bad := ""
	odd := false
	keys := r.reg.GetWalletsPublicKeys()
	for w := 1; w <= 4; w++ {
		pk := walletPubs[w]
		signers := r.reg.GetSigners(pk)
		var ss []string
		for _, s := range signers {
			sid := -1
			for k, fb := range fixBytes {
				if bytes.Contains(s.Marshalled, fb) {
					sid = k
				}
			}
			if sid < 0 || !pubEq(s.WalletPublicKey, pk) || len(s.Operators) != len(operators) {
				odd = true
			} else {
				for k := range operators {
					if s.Operators[k] != operators[k] {
						odd = true
					}
				}
			}
			ss = append(ss, fmt.Sprintf("%d.%d", indexDigit(int(s.MemberIndex)), sid))
		}
		sort.Strings(ss)
		if len(ss) > 0 {
			parts = append(parts, fmt.Sprintf("%d=%s", w, strings.Join(ss, "+")))
		}
		p1, ok1 := r.reg.GetWalletByPublicKeyHash(bitcoin.PublicKeyHash(pk))
		p2, ok2 := r.reg.GetWalletByID(walletID(pk))
		inList := false
		for _, k := range keys {
			if pubEq(k, pk) {
				inList = true
			}
		}
		known := len(signers) > 0
		if ok1 != known || ok2 != known || inList != known || (ok1 && !pubEq(p1, pk)) || (ok2 && !pubEq(p2, pk)) {
			bad += fmt.Sprintf("!%d", w)
		}
	}
	if len(keys) != len(parts) {
		bad += "!n"
	}
	s := "-"
	if len(parts) > 0 {
		s = strings.Join(parts, ";")
	}
	if odd {
		s += "?"
	}
	return s + bad
}

// runStep runs fn; a crashSentinel panic is the simulated process death.
func crashable(fn func() error) (err error, crashed bool) {
	defer func() {
		if e := recover(); e != nil {
			if _, ok := e.(crashSentinel); ok {
				crashed = true
				return
			}
			panic(e)
		}
	}()
	return fn(), false
}

func classify(err error) string {
	if err == nil {
		return "ok"
	}
	m := err.Error()
	switch {
	case strings.Contains(m, "cannot save signer"):
		return "e:save"
	case strings.Contains(m, "cannot calculate wallet ID"):
		return "e:id"
	case strings.Contains(m, "wallet not found"):
		return "e:nf"
	case strings.Contains(m, "could not archive wallet"):
		return "e:arch"
	}
	return "e:other"
}

// seqStep runs one sequential step; returns the observation entry, the tags hit (joined by +)
// and false for a malformed step.
func (r *wrig) seqStep(st string) (string, string, bool) {
	tags := map[string]bool{}
	res := ""
	switch {
	case st == "r":
		res = "r"
		tags["restart"] = true
		if err := r.restart(); err != nil {
			res = "e:start"
		}
	case st[0] == 'R' && (len(st) == 4 || len(st) == 5):
		w, i, s := int(st[1]-'0'), int(st[2]-'0'), int(st[3]-'0')
		if w < 1 || w > 4 || i < 1 || i > 9 || s < 0 || s > 4 {
			return "", "", false
		}
		fault := ""
		if len(st) == 5 {
			fault = st[4:]
		}
		if fault == "i" {
			r.idFail = true
		} else {
			r.h.saveFault = fault
		}
		err, crashed := crashable(func() error {
			return r.reg.RegisterSigner(walletPubs[w], operators, memberIndex(i), fixShares[s])
		})
		r.idFail = false
		r.h.saveFault = ""
		key := st[1:3]
		if r.seen[key] {
			tags["dup"] = true
		}
		r.seen[key] = true
		switch {
		case crashed:
			res = "crash"
			tags["crash"] = true
			if err := r.restart(); err != nil {
				res = "e:start"
			}
		default:
			res = classify(err)
			tags["reg"] = true
			switch fault {
			case "b":
				tags["savefail"] = true
			case "a":
				tags["tornsave"] = true
			case "i":
				if err != nil {
					tags["idfail"] = true
				}
			}
		}
	case st[0] == 'X' && (len(st) == 2 || len(st) == 3):
		w := int(st[1] - '0')
		if w < 1 || w > 4 {
			return "", "", false
		}
		fault := ""
		if len(st) == 3 {
			fault = st[2:]
		}
		r.h.archFault = fault
		err, crashed := crashable(func() error {
			return r.reg.ArchiveWallet(bitcoin.PublicKeyHash(walletPubs[w]))
		})
		r.h.archFault = ""
		switch {
		case crashed:
			res = "crash"
			tags["crash"] = true
			if err := r.restart(); err != nil {
				res = "e:start"
			}
		default:
			res = classify(err)
			switch res {
			case "ok":
				tags["archive"] = true
			case "e:nf":
				tags["notfound"] = true
			case "e:arch":
				if fault == "a" {
					tags["tornarch"] = true
				} else {
					tags["archfail"] = true
				}
			}
		}
	default:
		return "", "", false
	}
	var ts []string
	for t := range tags {
		ts = append(ts, t)
	}
	if r.reg == nil {
		return res + "/dead", strings.Join(ts, "+"), true
	}
	return res + "/" + r.snapshot(), strings.Join(ts, "+"), true
}

func execWreg(f []string) (string, string) {
	fixOnce.Do(loadFixtures)
	if fixErr != nil {
		return "fixture-error " + fixErr.Error(), "bad"
	}
	r := &wrig{h: newMemHandle(hx.AtoU64(f[1])), seen: map[string]bool{}}
	if err := r.restart(); err != nil {
		return "e:start", "bad"
	}
	tags := map[string]bool{}
	var outs []string
	for _, st := range hx.SplitList(f[2]) {
		out, tag, ok := r.seqStep(st)
		if !ok {
			return "bad-op", "bad"
		}
		for _, t := range strings.Split(tag, "+") {
			if t != "" {
				tags[t] = true
			}
		}
		outs = append(outs, out)
		if r.reg == nil {
			break
		}
	}
	var ts []string
	for _, t := range []string{"reg", "dup", "savefail", "tornsave", "idfail", "archive", "notfound", "archfail", "tornarch", "crash", "restart"} {
		if tags[t] {
			ts = append(ts, t)
		}
	}
	if len(ts) == 0 {
		return hx.JoinStrs(outs), "none"
	}
	return hx.JoinStrs(outs), strings.Join(ts, "+")
}

func exec(op string) (string, string) {
	f := strings.Fields(op)
	switch {
	case len(f) == 3 && f[0] == "wreg":
		return execWreg(f)
	case len(f) == 3 && f[0] == "greg":
		return execGreg(f)
	case len(f) == 3 && f[0] == "creg":
		return execCreg(f)
	}
	return "bad-op", "bad"
}

func genSteps(r *hx.Rng, family string) string {
	ln := r.Range(1, 12)
	if r.Chance(1, 8) {
		ln = r.Range(12, 30)
	}
	nw := r.Range(1, 4)
	var steps []string
	for j := 0; j < ln; j++ {
		w := r.Range(1, nw)
		if nw == 4 && r.Chance(1, 2) {
			w = hx.Pick(r, []int{1, 4}) // the pair of wallets whose public keys share the X coordinate
		}
		switch r.Intn(12) {
		case 0, 1, 2, 3, 4, 5:
			f := ""
			if r.Chance(1, 3) {
				fs := []string{"b", "a", "B", "A"}
				if family == "wreg" {
					fs = append(fs, "i")
				}
				f = hx.Pick(r, fs)
			}
			idx := r.Range(1, 4)
			if r.Chance(1, 6) {
				idx = 9 // = member index 255
			}
			steps = append(steps, fmt.Sprintf("R%d%d%d%s", w, idx, r.Range(0, 4), f))
		case 6, 7, 8:
			f := ""
			if r.Chance(1, 3) {
				f = hx.Pick(r, []string{"b", "a", "B", "A"})
			}
			steps = append(steps, fmt.Sprintf("X%d%s", w, f))
		default:
			steps = append(steps, "r")
		}
	}
	return strings.Join(steps, ",")
}

func gen(r *hx.Rng, n int, tier string) []string {
	var ops []string
	for i := 0; i < n; i++ {
		if i%6 == 5 {
			ops = append(ops, genCreg(r))
			continue
		}
		fam := "wreg"
		if i%3 == 2 {
			fam = "greg"
		}
		ops = append(ops, fmt.Sprintf("%s %d %s", fam, r.Intn(1000), genSteps(r, fam)))
	}
	return ops
}

func main() {
	hx.Main(&hx.Config{Prop: "C38", Gen: gen, Exec: exec, Facts: c38Facts, PerOpTimeout: 60 * time.Second})
}
