package main

import (
	"bytes"
	"fmt"
	"math/big"
	"sort"
	"strings"
	"sync"

	"keepverif/harness/hx"

	logging "github.com/ipfs/go-log"
	"github.com/keep-network/keep-core/pkg/beacon/dkg"
	"github.com/keep-network/keep-core/pkg/beacon/event"
	"github.com/keep-network/keep-core/pkg/beacon/registry"
	"github.com/keep-network/keep-core/pkg/protocol/group"
	"github.com/keep-network/keep-core/pkg/subscription"

	bn256 "github.com/ethereum/go-ethereum/crypto/bn256/cloudflare"
)


// ---- beacon group registry (pkg/beacon/registry) -----------------------------------------

type staleChain struct {
	mu    sync.Mutex
	stale map[string]bool
}

func (c *staleChain) OnGroupRegistered(func(*event.GroupRegistration)) subscription.EventSubscription {
	return nil
}
func (c *staleChain) IsGroupRegistered([]byte) (bool, error) { return true, nil }
func (c *staleChain) IsStaleGroup(pk []byte) (bool, error) {
	c.mu.Lock()
	defer c.mu.Unlock()
	return c.stale[string(pk)], nil
}

var (
	gOnce   sync.Once
	gKeys   [5]*bn256.G2
	gLogger = logging.Logger("verif-c38")
)

func gInit() {
	logging.SetAllLoggers(logging.LevelFatal)
	for w := 1; w <= 4; w++ {
		gKeys[w] = new(bn256.G2).ScalarBaseMult(big.NewInt(int64(w + 10)))
	}
}

func gSigner(w, i, s int) *dkg.ThresholdSigner {
	return dkg.NewThresholdSigner(
		memberIndex(i),
		gKeys[w],
		big.NewInt(int64(1000+s)),
		map[group.MemberIndex]*bn256.G2{1: gKeys[w]},
		operators,
	)
}

type grig struct {
	h     *memHandle
	chain *staleChain
	reg   *registry.Groups
}

func (r *grig) restart() {
	r.reg = registry.NewGroupRegistry(gLogger, r.chain, r.h)
	r.reg.LoadExistingGroups()
}

func (r *grig) snapshot() string {
	var parts []string
	odd := false
	for w := 1; w <= 4; w++ {
		ms := r.reg.GetGroup(gSigner(w, 1, 0).GroupPublicKeyBytes())
		var ss []string
		for _, m := range ms {
			i := indexDigit(int(m.Signer.MemberID()))
			got, err := m.Signer.Marshal()
			sid := -1
			if err == nil {
				for s := 0; s <= 4; s++ {
					want, _ := gSigner(w, i, s).Marshal()
					if bytes.Equal(got, want) {
						sid = s
					}
				}
			}
			if sid < 0 || m.ChannelName != fmt.Sprintf("ch%d", w) {
				odd = true
			}
			ss = append(ss, fmt.Sprintf("%d.%d", i, sid))
		}
		sort.Strings(ss)
		if len(ss) > 0 {
			parts = append(parts, fmt.Sprintf("%d=%s", w, strings.Join(ss, "+")))
		}
	}
	s := "-"
	if len(parts) > 0 {
		s = strings.Join(parts, ";")
	}
	if odd {
		s += "?"
	}
	return s
}

func execGreg(f []string) (string, string) {
	gOnce.Do(gInit)
	r := &grig{h: newMemHandle(hx.AtoU64(f[1])), chain: &staleChain{stale: map[string]bool{}}}
	r.restart()
	tags := map[string]bool{"group": true}
	seen := map[string]bool{}
	var outs []string
	for _, st := range hx.SplitList(f[2]) {
		res := ""
		switch {
		case st == "r":
			res = "r"
			tags["restart"] = true
			r.restart()
		case st[0] == 'R' && (len(st) == 4 || len(st) == 5):
			w, i, s := int(st[1]-'0'), int(st[2]-'0'), int(st[3]-'0')
			if w < 1 || w > 4 || i < 1 || i > 9 || s < 0 || s > 4 {
				return "bad-op", "bad"
			}
			fault := ""
			if len(st) == 5 {
				fault = st[4:]
			}
			if fault == "i" {
				return "bad-op", "bad"
			}
			r.h.saveFault = fault
			err, crashed := crashable(func() error {
				return r.reg.RegisterGroup(gSigner(w, i, s), fmt.Sprintf("ch%d", w))
			})
			r.h.saveFault = ""
			if seen[st[1:3]] {
				tags["dup"] = true
			}
			seen[st[1:3]] = true
			switch {
			case crashed:
				res = "crash"
				tags["crash"] = true
				r.restart()
			case err != nil:
				res = "e:save"
				if fault == "a" {
					tags["tornsave"] = true
				} else {
					tags["savefail"] = true
				}
			default:
				res = "ok"
				tags["reg"] = true
			}
		case st[0] == 'X' && (len(st) == 2 || len(st) == 3):
			w := int(st[1] - '0')
			if w < 1 || w > 4 {
				return "bad-op", "bad"
			}
			fault := ""
			if len(st) == 3 {
				fault = st[2:]
			}
			known := len(r.reg.GetGroup(gSigner(w, 1, 0).GroupPublicKeyBytes())) > 0
			r.chain.mu.Lock()
			r.chain.stale = map[string]bool{string(gSigner(w, 1, 0).GroupPublicKeyBytes()): true}
			r.chain.mu.Unlock()
			r.h.archFault = fault
			_, crashed := crashable(func() error {
				r.reg.UnregisterStaleGroups(nil)
				return nil
			})
			r.h.archFault = ""
			res = "ok"
			if crashed {
				res = "crash"
				tags["crash"] = true
				r.restart()
			} else if known {
				switch fault {
				case "":
					tags["archive"] = true
				case "a":
					tags["tornarch"] = true
				case "b":
					tags["archfail"] = true
				}
			} else {
				tags["notfound"] = true
			}
		default:
			return "bad-op", "bad"
		}
		outs = append(outs, res+"/"+r.snapshot())
	}
	var ts []string
	for _, t := range []string{"group", "reg", "dup", "savefail", "tornsave", "archive", "notfound", "archfail", "tornarch", "crash", "restart"} {
		if tags[t] {
			ts = append(ts, t)
		}
	}
	return hx.JoinStrs(outs), strings.Join(ts, "+")
}
