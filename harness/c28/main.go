// C28: deposit scripts — wallet can sweep, refund key only after locktime, nobody else.
//
// Op line (one complete spend attempt of one deposit output):
//
//	spend <p2sh|p2wsh|nested> <depositor> <extra|-> <blinding> <walletPKH> <refundPKH> <locktime4>
//	      <sk> <pk> <hash160(pk)> <flavor> <txLocktime> <sequence> <scriptHash> <warm> <scriptHash2>
//
// all byte strings in hex.  <scriptHash> is HASH160 (p2sh) / SHA256 (p2wsh) of the script the
// bridge specification prescribes for these fields (computed by the generator with an independent
// template): together with hash160(pk) these are the concrete facts about the external hash
// functions the Lean model needs.  flavor: good | bad (signature over another digest) | highs |
// empty | ht2 (SIGHASH_NONE) | ht0 (invalid hash type) | wrongamt (engine told amount+1).
//
// nested = P2SH-wrapped P2WSH; <scriptHash2> = HASH160 of the P2WSH program (else -).
// <warm> = - | <field>:<hex>: before the script of this deposit is built, Script() is called (in the
// same process) for a sibling deposit that differs only in that field (lt, blind, wpkh, rpkh, dep,
// extra) — Script() must be a pure function of the deposit, the model ignores the token.
//
// Exec builds the script with the REAL tbtc.Deposit.Script(), locks it with the real
// bitcoin.PayTo(Witness)ScriptHash helpers, signs a spending transaction and runs btcd's
// txscript engine with StandardVerifyFlags.
// Obs line: script=<hex> lock=<pkScript hex> <accept|reject:ErrCode>   or   err:script
package main

import (
	"bytes"
	"crypto/sha256"
	"encoding/hex"
	"fmt"
	"math/big"
	"strconv"
	"strings"

	"keepverif/harness/hx"

	"github.com/btcsuite/btcd/btcec"
	"github.com/btcsuite/btcd/chaincfg/chainhash"
	"github.com/btcsuite/btcd/txscript"
	"github.com/btcsuite/btcd/wire"
	"github.com/btcsuite/btcutil"
	"github.com/keep-network/keep-core/pkg/bitcoin"
	"github.com/keep-network/keep-core/pkg/chain"
	"github.com/keep-network/keep-core/pkg/tbtc"
)

const baseAmount = int64(10000)

func hx2(b []byte) string {
	if len(b) == 0 {
		return "-"
	}
	return hex.EncodeToString(b)
}

func unhex(s string) []byte {
	if s == "-" {
		return nil
	}
	b, err := hex.DecodeString(s)
	if err != nil {
		panic("harness: bad hex " + s)
	}
	return b
}

// specScript is the deposit script of the tBTC bridge specification (Deposit.sol), written
// independently of pkg/tbtc.
func specScript(depositor, extra, blinding, wpkh, rpkh, lt []byte) []byte {
	var b bytes.Buffer
	b.WriteByte(0x14)
	b.Write(depositor)
	b.WriteByte(0x75)
	if extra != nil {
		b.WriteByte(0x20)
		b.Write(extra)
		b.WriteByte(0x75)
	}
	b.WriteByte(0x08)
	b.Write(blinding)
	b.Write([]byte{0x75, 0x76, 0xa9, 0x14})
	b.Write(wpkh)
	b.Write([]byte{0x87, 0x63, 0xac, 0x67, 0x76, 0xa9, 0x14})
	b.Write(rpkh)
	b.Write([]byte{0x88, 0x04})
	b.Write(lt)
	b.Write([]byte{0xb1, 0x75, 0xac, 0x68})
	return b.Bytes()
}

func le4(v uint32) []byte { return []byte{byte(v), byte(v >> 8), byte(v >> 16), byte(v >> 24)} }

func genKey(r *hx.Rng) *btcec.PrivateKey {
	for {
		b := r.Bytes(32)
		k := new(big.Int).SetBytes(b)
		if k.Sign() > 0 && k.Cmp(btcec.S256().N) < 0 {
			priv, _ := btcec.PrivKeyFromBytes(btcec.S256(), b)
			return priv
		}
	}
}

func gen(r *hx.Rng, n int, tier string) []string {
	var ops []string
	for i := 0; i < n; i++ {
		kind := hx.Pick(r, []string{"p2sh", "p2sh", "p2wsh", "p2wsh", "nested"})
		depositor := r.Bytes(20)
		switch r.Intn(12) {
		case 0: // leading zero nibbles / bytes (the address string starts with 0x0… or 00…)
			depositor[0] = byte(r.Intn(16))
		case 1:
			depositor[0], depositor[1] = 0, byte(r.Intn(256))
		case 2:
			depositor = make([]byte, 20)
		}
		var extra []byte
		if r.Bool() {
			extra = r.Bytes(32)
		}
		if extra != nil && r.Chance(1, 6) { // boundary values of the optional field
			extra = hx.Pick(r, [][]byte{make([]byte, 32), append(make([]byte, 31), 1), bytes.Repeat([]byte{0xff}, 32)})
		}
		blinding := r.Bytes(8)
		if r.Chance(1, 10) {
			blinding = hx.Pick(r, [][]byte{make([]byte, 8), bytes.Repeat([]byte{0xff}, 8)})
		}
		wpkh := r.Bytes(20)
		rpkh := r.Bytes(20)
		priv := genKey(r)
		pk := priv.PubKey().SerializeCompressed()
		if r.Chance(1, 12) {
			pk = priv.PubKey().SerializeUncompressed()
		}
		pkh := btcutil.Hash160(pk)
		switch c := r.Intn(100); {
		case c < 35:
			wpkh = pkh
		case c < 78:
			rpkh = pkh
		case c < 83: // same key in both roles: the wallet branch wins
			wpkh, rpkh = pkh, pkh
		case c < 88: // Script() must fail: depositor not 20 bytes
			depositor = r.Bytes(hx.Pick(r, []int{0, 1, 19, 21, 32}))
		default: // stranger
		}
		// refund locktime
		var lt uint32
		switch r.Intn(10) {
		case 0:
			lt = uint32(r.Range(1, 127)) // 4-byte push is not a minimal number
		case 1:
			lt = uint32(r.Range(1, 499999999))
		case 2:
			lt = hx.Pick(r, []uint32{499999999, 500000000, 500000001, 0x7fffffff, 0x80000000, 0xffffffff, 0, 0x00800000, 0x01000000, 0x00ffffff})
		case 3:
			lt = uint32(r.U64())
		default:
			lt = uint32(r.Range(1600000000, 1900000000))
		}
		var txLock uint32
		switch r.Intn(8) {
		case 0:
			txLock = 0
		case 1:
			txLock = lt - 1
		case 2:
			txLock = lt
		case 3:
			txLock = lt + 1
		case 4:
			txLock = uint32(r.Range(1, 499999999))
		case 5:
			txLock = uint32(r.U64())
		default:
			txLock = lt + uint32(r.Range(0, 100000))
		}
		seq := uint32(0xffffffff)
		switch r.Intn(5) {
		case 0:
		case 1:
			seq = 0xfffffffe
		case 2:
			seq = 0
		case 3:
			seq = uint32(r.U64())
		default:
			seq = 0xfffffffd
		}
		flavor := "good"
		if r.Chance(1, 4) {
			flavor = hx.Pick(r, []string{"bad", "highs", "empty", "ht2", "ht0", "wrongamt"})
		}
		var sh, sh2 []byte
		if len(depositor) == 20 {
			s := specScript(depositor, extra, blinding, wpkh, rpkh, le4(lt))
			if kind == "p2sh" {
				sh = btcutil.Hash160(s)
			} else {
				h := sha256.Sum256(s)
				sh = h[:]
				if kind == "nested" { // HASH160 of the P2WSH program that is the P2SH redeem script
					sh2 = btcutil.Hash160(append([]byte{0x00, 0x20}, sh...))
				}
			}
		} else if kind == "p2sh" {
			sh = make([]byte, 20)
		} else {
			sh = make([]byte, 32)
		}
		warm := "-"
		if r.Chance(1, 3) {
			switch r.Intn(8) {
			case 0:
				warm = "blind:" + hx2(r.Bytes(8))
			case 1:
				warm = "wpkh:" + hx2(r.Bytes(20))
			case 2:
				warm = "rpkh:" + hx2(r.Bytes(20))
			case 3:
				warm = "dep:" + hx2(r.Bytes(20))
			case 4:
				warm = "extra:" + hx2(r.Bytes(32))
			default: // same depositor parameters, another refund locktime
				warm = "lt:" + hx2(le4(lt+uint32(r.Range(1, 5000000))))
			}
		}
		ops = append(ops, strings.Join([]string{"spend", kind, hx2(depositor), hx2(extra), hx2(blinding),
			hx2(wpkh), hx2(rpkh), hx2(le4(lt)), hx2(priv.Serialize()), hx2(pk), hx2(pkh), flavor,
			fmt.Sprint(txLock), fmt.Sprint(seq), hx2(sh), warm, hx2(sh2)}, " "))
	}
	return ops
}

func derInt(v *big.Int) []byte {
	b := v.Bytes()
	if len(b) == 0 || b[0]&0x80 != 0 {
		b = append([]byte{0}, b...)
	}
	return append([]byte{0x02, byte(len(b))}, b...)
}

// rawDER encodes (r, s) as DER without normalising s.
func rawDER(r, s *big.Int) []byte {
	body := append(derInt(r), derInt(s)...)
	return append([]byte{0x30, byte(len(body))}, body...)
}

func errClass(err error) string {
	if err == nil {
		return "accept"
	}
	if se, ok := err.(txscript.Error); ok {
		switch se.ErrorCode {
		case txscript.ErrSigTooShort, txscript.ErrSigTooLong, txscript.ErrSigInvalidSeqID,
			txscript.ErrSigInvalidDataLen, txscript.ErrSigMissingSTypeID, txscript.ErrSigMissingSLen,
			txscript.ErrSigInvalidSLen, txscript.ErrSigInvalidRIntID, txscript.ErrSigZeroRLen,
			txscript.ErrSigNegativeR, txscript.ErrSigTooMuchRPadding, txscript.ErrSigInvalidSIntID,
			txscript.ErrSigZeroSLen, txscript.ErrSigNegativeS, txscript.ErrSigTooMuchSPadding:
			return "reject:ErrSigDER"
		}
		return "reject:" + se.ErrorCode.String()
	}
	return "reject:other"
}

func exec(op string) (string, string) {
	f := strings.Fields(op)
	if len(f) != 17 || f[0] != "spend" {
		return "bad-op", "bad"
	}
	kind := f[1]
	depositor, extra, blinding := unhex(f[2]), unhex(f[3]), unhex(f[4])
	wpkh, rpkh, lt := unhex(f[5]), unhex(f[6]), unhex(f[7])
	sk, pk, pkh, flavor := unhex(f[8]), unhex(f[9]), unhex(f[10]), f[11]
	txLock64, _ := strconv.ParseUint(f[12], 10, 32)
	seq64, _ := strconv.ParseUint(f[13], 10, 32)

	d := &tbtc.Deposit{}
	addr := hex.EncodeToString(depositor)
	if len(depositor) > 0 && depositor[0]&1 == 1 {
		addr = "0x" + addr
	}
	d.Depositor = chain.Address(addr)
	copy(d.BlindingFactor[:], blinding)
	copy(d.WalletPublicKeyHash[:], wpkh)
	copy(d.RefundPublicKeyHash[:], rpkh)
	copy(d.RefundLocktime[:], lt)
	if f[3] != "-" {
		var e [32]byte
		copy(e[:], extra)
		d.ExtraData = &e
	}
	warmed := false
	if f[15] != "-" {
		p := strings.SplitN(f[15], ":", 2)
		w := *d
		v := unhex(p[1])
		switch p[0] {
		case "lt":
			copy(w.RefundLocktime[:], v)
		case "blind":
			copy(w.BlindingFactor[:], v)
		case "wpkh":
			copy(w.WalletPublicKeyHash[:], v)
		case "rpkh":
			copy(w.RefundPublicKeyHash[:], v)
		case "dep":
			w.Depositor = chain.Address(hex.EncodeToString(v))
		case "extra":
			var e [32]byte
			copy(e[:], v)
			w.ExtraData = &e
		}
		_, _ = w.Script()
		warmed = true
	}
	script, err := d.Script()
	if err != nil {
		return "err:script", "scripterr"
	}

	var pkScript bitcoin.Script
	var program bitcoin.Script // nested: the P2WSH program is the P2SH redeem script
	switch kind {
	case "p2sh":
		pkScript, err = bitcoin.PayToScriptHash(bitcoin.ScriptHash(script))
	case "p2wsh":
		pkScript, err = bitcoin.PayToWitnessScriptHash(bitcoin.WitnessScriptHash(script))
	default:
		program, err = bitcoin.PayToWitnessScriptHash(bitcoin.WitnessScriptHash(script))
		if err == nil {
			pkScript, err = bitcoin.PayToScriptHash(bitcoin.ScriptHash(program))
		}
	}
	if err != nil {
		return "err:lock", "lockerr"
	}

	tx := wire.NewMsgTx(1)
	prev := chainhash.Hash(sha256.Sum256([]byte(op)))
	in := wire.NewTxIn(wire.NewOutPoint(&prev, 0), nil, nil)
	in.Sequence = uint32(seq64)
	tx.AddTxIn(in)
	outScript, _ := bitcoin.PayToWitnessPublicKeyHash([20]byte{1, 2, 3})
	tx.AddTxOut(wire.NewTxOut(baseAmount-1000, outScript))
	tx.LockTime = uint32(txLock64)

	priv, _ := btcec.PrivKeyFromBytes(btcec.S256(), sk)
	ht := txscript.SigHashAll
	switch flavor {
	case "ht2":
		ht = txscript.SigHashNone
	case "ht0":
		ht = txscript.SigHashOld
	}
	var digest []byte
	if kind == "p2sh" {
		digest, err = txscript.CalcSignatureHash(script, ht, tx, 0)
	} else {
		digest, err = txscript.CalcWitnessSigHash(script, txscript.NewTxSigHashes(tx), ht, tx, 0, baseAmount)
	}
	if err != nil {
		return "err:sighash", "sighasherr"
	}
	if flavor == "bad" {
		h := sha256.Sum256(digest)
		digest = h[:]
	}
	sig, err := priv.Sign(digest)
	if err != nil {
		return "err:sign", "signerr"
	}
	var sigBytes []byte
	if flavor == "highs" {
		// btcec's Serialize canonicalises S, so encode the high-S signature by hand
		sigBytes = append(rawDER(sig.R, new(big.Int).Sub(btcec.S256().N, sig.S)), byte(ht))
	} else if flavor != "empty" {
		sigBytes = append(sig.Serialize(), byte(ht))
	}
	if kind == "p2sh" {
		ss, err := txscript.NewScriptBuilder().AddData(sigBytes).AddData(pk).AddData(script).Script()
		if err != nil {
			return "err:scriptsig", "sserr"
		}
		tx.TxIn[0].SignatureScript = ss
	} else {
		tx.TxIn[0].Witness = wire.TxWitness{sigBytes, pk, script}
		if kind == "nested" {
			ss, err := txscript.NewScriptBuilder().AddData(program).Script()
			if err != nil {
				return "err:scriptsig", "sserr"
			}
			tx.TxIn[0].SignatureScript = ss
		}
	}
	amount := baseAmount
	if flavor == "wrongamt" {
		amount++
	}
	var verr error
	engine, verr := txscript.NewEngine(pkScript, tx, 0, txscript.StandardVerifyFlags, nil, nil, amount)
	if verr == nil {
		verr = engine.Execute()
	}
	verdict := errClass(verr)

	role := "stranger"
	if bytes.Equal(pkh, wpkh) {
		role = "wallet"
	} else if bytes.Equal(pkh, rpkh) {
		role = "refund"
	}
	tag := role + "+" + kind
	if f[3] != "-" {
		tag += "+extra"
	} else {
		tag += "+noextra"
	}
	if verr == nil {
		tag += "+accept"
	} else {
		tag += "+reject"
		if role == "refund" && (strings.Contains(verdict, "LockTime") || strings.Contains(verdict, "MinimalData")) {
			tag += "+cltvfail"
		}
	}
	if flavor != "good" {
		tag += "+sig-" + flavor
	}
	if warmed {
		tag += "+warm"
	}
	if role == "refund" && verr == nil {
		tag += "+cltvok"
	}
	return "script=" + hx2(script) + " lock=" + hx2(pkScript) + " " + verdict, tag
}

// tokens of a script format constant: byte value per hex pair, 256 for a %v placeholder
func tokens(format string) string {
	var out []string
	for i := 0; i < len(format); {
		if strings.HasPrefix(format[i:], "%v") {
			out = append(out, "256")
			i += 2
			continue
		}
		if i+2 > len(format) {
			out = append(out, "999")
			break
		}
		v, err := strconv.ParseUint(format[i:i+2], 16, 8)
		if err != nil {
			out = append(out, "999")
		} else {
			out = append(out, fmt.Sprint(v))
		}
		i += 2
	}
	return strings.Join(out, ",")
}

func main() {
	hx.Main(&hx.Config{
		Prop: "C28",
		Gen:  gen,
		Exec: exec,
		Facts: func() []string {
			return []string{
				"natlist depositScriptFormat " + tokens(tbtc.VerifC28DepositScriptFormat),
				"natlist depositWithExtraDataScriptFormat " + tokens(tbtc.VerifC28DepositWithExtraDataScriptFormat),
			}
		},
	})
}
