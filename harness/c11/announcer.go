package main

// Assumption A-ann, tested against the REAL pkg/protocol/announcer:
//
//	ann <n> <member> <k> <mode> <reps>
//
// k other members of an n-member group announce readiness for the session first (their real
// announcement messages are captured from the real Announce through a fake broadcast channel); then
// `member` calls the real Announce with a context that is ALREADY cancelled, <reps> times.
// mode strict: the channel honours the net.BroadcastChannel contract of the real libp2p channel
//              (the handler is never invoked once the context is done);
// mode eager:  the k captured announcements are handed to the handler during Recv, i.e. they sit in
//              the announcer's own buffer at the moment the context is done (what can happen when the
//              context is cancelled concurrently right after Recv was registered, as the DKG loop does).
// Obs: `only-self:<bool> wellformed:<bool>` — whether every repetition returned exactly [member];
// wellformed = every result is ascending, duplicate-free, contains member, within {member} ∪ senders.

import (
	"context"
	"fmt"
	"sort"
	"strings"
	"sync"

	"keepverif/harness/hx"

	"github.com/ipfs/go-log/v2"
	"github.com/keep-network/keep-core/pkg/chain"
	"github.com/keep-network/keep-core/pkg/net"
	"github.com/keep-network/keep-core/pkg/operator"
	"github.com/keep-network/keep-core/pkg/protocol/announcer"
	"github.com/keep-network/keep-core/pkg/protocol/group"
)

type fakeSigning struct{ chain.Signing }

func (fakeSigning) PublicKeyBytesToAddress(pk []byte) chain.Address { return chain.Address(pk) }

type fakeTransportID string

func (f fakeTransportID) String() string { return string(f) }

type fakeMsg struct {
	sender  []byte
	payload interface{}
	typ     string
	seq     uint64
}

func (m *fakeMsg) TransportSenderID() net.TransportIdentifier { return fakeTransportID(m.sender) }
func (m *fakeMsg) SenderPublicKey() []byte                    { return m.sender }
func (m *fakeMsg) Payload() interface{}                       { return m.payload }
func (m *fakeMsg) Type() string                               { return m.typ }
func (m *fakeMsg) Seqno() uint64                              { return m.seq }

// fakeChannel is one member's view of the broadcast channel.
type fakeChannel struct {
	mu          sync.Mutex
	self        []byte
	unmarshaler func() net.TaggedUnmarshaler
	sent        [][]byte   // marshalled messages this member sent
	inbox       []*fakeMsg // messages waiting for this member
	eager       bool
}

func (c *fakeChannel) Name() string { return "verif" }
func (c *fakeChannel) Send(ctx context.Context, m net.TaggedMarshaler, _ ...net.RetransmissionStrategy) error {
	b, err := m.Marshal()
	if err != nil {
		return err
	}
	c.mu.Lock()
	c.sent = append(c.sent, b)
	c.mu.Unlock()
	return nil
}
func (c *fakeChannel) Recv(ctx context.Context, handler func(m net.Message)) {
	c.mu.Lock()
	inbox := c.inbox
	c.mu.Unlock()
	for _, m := range inbox {
		if !c.eager && ctx.Err() != nil {
			return // contract of the real channel: no handler call after the context is done
		}
		handler(m)
	}
}
func (c *fakeChannel) SetUnmarshaler(u func() net.TaggedUnmarshaler) { c.unmarshaler = u }
func (c *fakeChannel) SetFilter(net.BroadcastChannelFilter) error    { return nil }

var _ = operator.PublicKey{}

func execAnn(f []string) (string, string) {
	n, member, k, mode, reps := hx.Atoi(f[1]), hx.Atoi(f[2]), hx.Atoi(f[3]), f[4], hx.Atoi(f[5])
	if n < 1 || n > 50 || member < 1 || member > n || k < 0 || k >= n || reps < 1 || (mode != "strict" && mode != "eager") {
		return "bad-op", "bad"
	}
	addrs := make([]chain.Address, n)
	for i := range addrs {
		addrs[i] = addr(i)
	}
	mv := group.NewMembershipValidator(log.Logger("verif-c11"), addrs, fakeSigning{})
	session := "12345-7"
	// 1. k other members announce for real; capture their messages
	var captured []*fakeMsg
	senders := map[int]bool{}
	for m := 1; len(senders) < k; m++ {
		if m == member {
			continue
		}
		ch := &fakeChannel{self: []byte(addrs[m-1])}
		announcer.RegisterUnmarshaller(ch)
		ctx, cancel := context.WithCancel(context.Background())
		cancel()
		if _, err := announcer.New("verif", ch, mv).Announce(ctx, group.MemberIndex(m), session); err != nil {
			return "err:announce-of-other-member", "ann-err"
		}
		for _, b := range ch.sent {
			u := ch.unmarshaler()
			if err := u.Unmarshal(b); err != nil {
				return "err:unmarshal", "ann-err"
			}
			captured = append(captured, &fakeMsg{sender: []byte(addrs[m-1]), payload: u, typ: u.Type(), seq: uint64(m)})
		}
		senders[m] = true
	}
	// 2. the late member announces on an already cancelled context
	onlySelf, wellformed, maxLen := true, true, 0
	for rep := 0; rep < reps; rep++ {
		ch := &fakeChannel{self: []byte(addrs[member-1]), inbox: captured, eager: mode == "eager"}
		announcer.RegisterUnmarshaller(ch)
		ctx, cancel := context.WithCancel(context.Background())
		cancel()
		res, err := announcer.New("verif", ch, mv).Announce(ctx, group.MemberIndex(member), session)
		if err != nil {
			return "err:announce", "ann-err"
		}
		if len(res) != 1 || int(res[0]) != member {
			onlySelf = false
		}
		if len(res) > maxLen {
			maxLen = len(res)
		}
		hasSelf := false
		if !sort.SliceIsSorted(res, func(i, j int) bool { return res[i] < res[j] }) {
			wellformed = false
		}
		for i, m := range res {
			if i > 0 && res[i-1] == m {
				wellformed = false
			}
			if int(m) == member {
				hasSelf = true
			} else if !senders[int(m)] {
				wellformed = false
			}
		}
		if !hasSelf {
			wellformed = false
		}
	}
	tag := "ann+" + mode
	if !onlySelf {
		tag += "+picked-buffered"
	}
	_ = strings.Join
	return fmt.Sprintf("only-self:%v wellformed:%v", onlySelf, wellformed), tag
}
