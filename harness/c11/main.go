// C11: retry-loop attempts have identical, non-overlapping block windows.
//
// Op lines (one complete loop run per line):
//
//	sloop <n> <thr> <member> <s0> <script>                      signingRetryLoop.start
//	sloopx <ops> <thr> <member> <s0> <msg> <script> <streams>   signingRetryLoop.start, general selection
//	dloop <ops> <quorum> <member> <s0> <seed> <script> <stream>  dkgRetryLoop.start
//
// sloopx: like sloop but ops = operator id per member (several seats per operator) and ready lists of
// any size; streams = '|'-separated raw Uint32 streams of the math/rand sources seeded attemptSeed+0,
// attemptSeed+1, ... (attempt n shuffles operators with source n-1 and trims the surplus with source n).
//
// sloop: group of n members, one seat per operator; script entry per loop iteration
// `<cur|e>/<XY>/<ready>`: cur = what getCurrentBlockFn returns (e = error); X in {W,A,-} = the wait for
// the announcement start block fails / the announcer fails / neither; Y in {E,S,U,K} = attempt function
// fails / signalDone fails / waitUntilAllDone fails / success; ready = '.'-separated ready members
// (at most thr of them, so that the member selection has no choice: C10 covers the selection).
// After the script the block counter fails and cancels the context.
// dloop: ops = operator id per member; script entry `<XY>/<ready>`: X in {W,A,-}, Y in {E,K};
// attemptsLimit = number of entries; stream = raw Uint32 outputs of the loop's seeded math/rand source.
//
// Obs: the calls the loop made on its own goroutine, in order:
// c | w<block> | a<attempt> | l<attempt>:<timeout>:<included> | f<attempt>:<start>:<timeout>:<excluded>
// | s<attempt> | d | =ok:<timeout> | =ctx | =limit | =waiterr | =selerr | =err
// then ` ~ ` and the sorted blocks other goroutines (announcement stop, done-check timeout) waited for.
package main

import (
	"context"
	"errors"
	"fmt"
	"math/big"
	"math/rand"
	"runtime"
	"sort"
	"strconv"
	"strings"
	"sync"
	"time"

	"keepverif/harness/hx"

	"github.com/keep-network/keep-core/pkg/chain"
	"github.com/keep-network/keep-core/pkg/protocol/group"
	"github.com/keep-network/keep-core/pkg/tbtc"
)

type consts struct{ delay, active, protocol, cool, max uint64 }

var sgC = consts{tbtc.VerifC11SigningAnnouncementDelayBlocks, tbtc.VerifC11SigningAnnouncementActiveBlocks,
	tbtc.VerifC11SigningMaximumProtocolBlocks, tbtc.VerifC11SigningCoolDownBlocks,
	uint64(tbtc.VerifC11SigningAttemptMaximumBlocks())}
var dkC = consts{tbtc.VerifC11DkgAnnouncementDelayBlocks, tbtc.VerifC11DkgAnnouncementActiveBlocks,
	tbtc.VerifC11DkgMaximumProtocolBlocks, tbtc.VerifC11DkgCoolDownBlocks,
	uint64(tbtc.VerifC11DkgAttemptMaximumBlocks())}

func addr(id int) chain.Address { return chain.Address(fmt.Sprintf("0x%040x", id)) }

func goid() int64 {
	var buf [64]byte
	n := runtime.Stack(buf[:], false)
	f := strings.Fields(string(buf[:n]))
	if len(f) < 2 {
		return -1
	}
	v, _ := strconv.ParseInt(f[1], 10, 64)
	return v
}

func dots(xs []group.MemberIndex) string {
	if len(xs) == 0 {
		return "-"
	}
	ss := make([]string, len(xs))
	for i, x := range xs {
		ss[i] = strconv.Itoa(int(x))
	}
	return strings.Join(ss, ".")
}

func parseDots(s string) []group.MemberIndex {
	if s == "-" || s == "" {
		return nil
	}
	var out []group.MemberIndex
	for _, t := range strings.Split(s, ".") {
		out = append(out, group.MemberIndex(hx.Atoi(t)))
	}
	return out
}

type step struct {
	curErr bool
	cur    uint64
	x, y   byte
	ready  []group.MemberIndex
}

type runner struct {
	mu       sync.Mutex
	main     []string
	async    []uint64
	mainGoid int64
	idx      int
	waits    int
	script   []step
	cancel   context.CancelFunc
	lastTo   uint64
	dkg      bool
}

var errScripted = errors.New("scripted failure")

func (r *runner) rec(s string) { r.main = append(r.main, s) }

func (r *runner) cur() *step {
	if r.idx >= 1 && r.idx <= len(r.script) {
		return &r.script[r.idx-1]
	}
	return &step{y: 'K'}
}

func (r *runner) callbacks() *tbtc.VerifC11Callbacks {
	return &tbtc.VerifC11Callbacks{
		GetCurrentBlock: func() (uint64, error) {
			r.idx++
			r.rec("c")
			if r.idx > len(r.script) {
				r.cancel()
				return 0, errScripted
			}
			if r.cur().curErr {
				return 0, errScripted
			}
			return r.cur().cur, nil
		},
		WaitForBlock: func(ctx context.Context, b uint64) error {
			if goid() != r.mainGoid {
				r.mu.Lock()
				r.async = append(r.async, b)
				r.mu.Unlock()
				return nil
			}
			if r.dkg {
				r.idx++
			}
			r.waits++
			if r.waits > len(r.script)+2 {
				// the loop ran more iterations than scripted without consulting the block
				// counter (never in the unchanged code): end it instead of spinning forever
				r.rec("runaway")
				r.cancel()
				return errScripted
			}
			r.rec(fmt.Sprintf("w%d", b))
			if r.cur().x == 'W' {
				return errScripted
			}
			return nil
		},
		Announce: func(ctx context.Context, mi group.MemberIndex, sessionID string) ([]group.MemberIndex, error) {
			r.rec("a" + sessionID[strings.LastIndex(sessionID, "-")+1:])
			if r.cur().x == 'A' {
				return nil, errScripted
			}
			return append([]group.MemberIndex(nil), r.cur().ready...), nil
		},
		Listen: func(n uint64, to uint64, members []group.MemberIndex) {
			r.rec(fmt.Sprintf("l%d:%d:%s", n, to, dots(members)))
		},
		Attempt: func(n uint, start, to uint64, excluded []group.MemberIndex) (uint64, error) {
			r.rec(fmt.Sprintf("f%d:%d:%d:%s", n, start, to, dots(excluded)))
			r.lastTo = to
			if r.cur().y == 'E' {
				return 0, errScripted
			}
			return start + 3, nil
		},
		SignalDone: func(n uint64, endBlock uint64) error {
			r.rec(fmt.Sprintf("s%d", n))
			if r.cur().y == 'S' {
				return errScripted
			}
			return nil
		},
		WaitUntilAllDone: func() (uint64, error) {
			r.rec("d")
			if r.cur().y != 'K' {
				return 0, errScripted
			}
			return 7, nil
		},
	}
}

// finish waits for the side goroutines: the loop starts one (withCancelOnBlock / go func) right
// before every Announce and every listen call, and each of them calls WaitForBlock exactly once.
func (r *runner) finish(base int, tail string) string {
	expected := 0
	for _, t := range r.main {
		if strings.HasPrefix(t, "a") || strings.HasPrefix(t, "l") {
			expected++
		}
	}
	deadline := time.Now().Add(60 * time.Second)
	for time.Now().Before(deadline) {
		r.mu.Lock()
		n := len(r.async)
		r.mu.Unlock()
		if n >= expected {
			break
		}
		time.Sleep(50 * time.Microsecond)
	}
	r.cancel()
	r.mu.Lock()
	defer r.mu.Unlock()
	sort.Slice(r.async, func(i, j int) bool { return r.async[i] < r.async[j] })
	return strings.Join(append(r.main, tail), " ") + " ~ " + hx.JoinInts(r.async)
}

func parseSScript(s string) ([]step, bool) {
	var out []step
	for _, e := range hx.SplitList(s) {
		p := strings.Split(e, "/")
		if len(p) != 3 || len(p[1]) != 2 {
			return nil, false
		}
		st := step{x: p[1][0], y: p[1][1], ready: parseDots(p[2])}
		if p[0] == "e" {
			st.curErr = true
		} else {
			st.cur = hx.AtoU64(p[0])
		}
		out = append(out, st)
	}
	return out, true
}

func parseDScript(s string) ([]step, bool) {
	var out []step
	for _, e := range hx.SplitList(s) {
		p := strings.Split(e, "/")
		if len(p) != 2 || len(p[0]) != 2 {
			return nil, false
		}
		out = append(out, step{x: p[0][0], y: p[0][1], ready: parseDots(p[1])})
	}
	return out, true
}

func tagOf(trace string, sc []step) string {
	tags := []string{}
	add := func(c bool, t string) {
		if c {
			tags = append(tags, t)
		}
	}
	add(strings.Contains(trace, " f"), "attempted")
	add(strings.Contains(trace, "=ok"), "success")
	add(strings.Contains(trace, "=ctx"), "ctxend")
	add(strings.Contains(trace, "=limit"), "limit")
	add(strings.Contains(trace, "=waiterr"), "waiterr")
	add(strings.Contains(trace, "=selerr"), "selerr")
	add(strings.Contains(trace, "c c"), "skipped")
	for _, s := range sc {
		add(s.x == 'A', "annerr")
		add(s.y == 'E', "fnerr")
	}
	if len(tags) == 0 {
		return "none"
	}
	sort.Strings(tags)
	uniq := tags[:1]
	for _, t := range tags[1:] {
		if t != uniq[len(uniq)-1] {
			uniq = append(uniq, t)
		}
	}
	return strings.Join(uniq, "+")
}

func exec(op string) (string, string) {
	f := strings.Fields(op)
	switch {
	case len(f) == 6 && f[0] == "ann":
		return execAnn(f)
	case len(f) == 6 && f[0] == "sloop":
		n, thr, member := hx.Atoi(f[1]), hx.Atoi(f[2]), hx.Atoi(f[3])
		s0 := hx.AtoU64(f[4])
		sc, ok := parseSScript(f[5])
		if !ok || n < 1 || n > 200 || member < 1 || member > n {
			return "bad-op", "bad"
		}
		for _, s := range sc {
			if len(s.ready) > thr {
				return "bad-op", "bad"
			}
		}
		ops := make(chain.Addresses, n)
		for i := range ops {
			ops[i] = addr(i)
		}
		base := runtime.NumGoroutine()
		ctx, cancel := context.WithCancel(context.Background())
		r := &runner{mainGoid: goid(), script: sc, cancel: cancel}
		to, _, err := tbtc.VerifC11RunSigningLoop(ctx, big.NewInt(12345), s0, group.MemberIndex(member), ops,
			&tbtc.GroupParameters{GroupSize: n, GroupQuorum: n, HonestThreshold: thr}, r.callbacks())
		obs := r.finish(base, signingTail(to, err))
		return obs, "s+" + tagOf(obs, sc)
	case len(f) == 8 && f[0] == "sloopx":
		opIDs := hx.ParseInts(f[1])
		thr, member := hx.Atoi(f[2]), hx.Atoi(f[3])
		s0 := hx.AtoU64(f[4])
		msg, okb := new(big.Int).SetString(f[5], 10)
		sc, ok := parseSScript(f[6])
		if !ok || !okb || member < 1 || member > len(opIDs) {
			return "bad-op", "bad"
		}
		ops := make(chain.Addresses, len(opIDs))
		for i, o := range opIDs {
			ops[i] = addr(o)
		}
		ctx, cancel := context.WithCancel(context.Background())
		r := &runner{mainGoid: goid(), script: sc, cancel: cancel}
		to, _, err := tbtc.VerifC11RunSigningLoop(ctx, msg, s0, group.MemberIndex(member), ops,
			&tbtc.GroupParameters{GroupSize: len(ops), GroupQuorum: len(ops), HonestThreshold: thr}, r.callbacks())
		obs := r.finish(0, signingTail(to, err))
		return obs, "s+x+" + tagOf(obs, sc)
	case len(f) == 8 && f[0] == "dloop":
		opIDs := hx.ParseInts(f[1])
		quorum, member := hx.Atoi(f[2]), hx.Atoi(f[3])
		s0 := hx.AtoU64(f[4])
		seed, okb := new(big.Int).SetString(f[5], 10)
		sc, ok := parseDScript(f[6])
		if !ok || !okb || len(sc) == 0 || member < 1 || member > len(opIDs) {
			return "bad-op", "bad"
		}
		ops := make(chain.Addresses, len(opIDs))
		for i, o := range opIDs {
			ops[i] = addr(o)
		}
		base := runtime.NumGoroutine()
		ctx, cancel := context.WithCancel(context.Background())
		r := &runner{mainGoid: goid(), script: sc, cancel: cancel, dkg: true}
		_, err := tbtc.VerifC11RunDkgLoop(ctx, seed, s0, group.MemberIndex(member), ops,
			&tbtc.GroupParameters{GroupSize: len(ops), GroupQuorum: quorum, HonestThreshold: quorum/2 + 1},
			uint(len(sc)), r.callbacks())
		tail := fmt.Sprintf("=ok:%d", r.lastTo)
		if err != nil {
			msg := err.Error()
			switch {
			case errors.Is(err, context.Canceled):
				tail = "=ctx"
			case strings.HasPrefix(msg, "reached the limit"):
				tail = "=limit"
			case strings.HasPrefix(msg, "failed waiting for announcement start"):
				tail = "=waiterr"
			case strings.HasPrefix(msg, "cannot select members"):
				tail = "=selerr"
			default:
				tail = "=err"
			}
		}
		obs := r.finish(base, tail)
		return obs, "d+" + tagOf(obs, sc)
	}
	return "bad-op", "bad"
}

func signingTail(to uint64, err error) string {
	switch {
	case err == nil:
		return fmt.Sprintf("=ok:%d", to)
	case errors.Is(err, context.Canceled):
		return "=ctx"
	case strings.HasPrefix(err.Error(), "cannot select members"):
		return "=selerr"
	}
	return "=err"
}

// ---- generator -----------------------------------------------------------

func pickMembers(r *hx.Rng, n, size int, self int, withSelf bool) []int {
	var pool []int
	for m := 1; m <= n; m++ {
		if m != self {
			pool = append(pool, m)
		}
	}
	p := r.Perm(len(pool))
	var out []int
	if withSelf && size > 0 {
		out = append(out, self)
	}
	for _, i := range p {
		if len(out) >= size {
			break
		}
		out = append(out, pool[i])
	}
	q := r.Perm(len(out))
	res := make([]int, len(out))
	for i, j := range q {
		res[i] = out[j]
	}
	return res
}

func dotsInts(xs []int) string {
	if len(xs) == 0 {
		return "-"
	}
	ss := make([]string, len(xs))
	for i, x := range xs {
		ss[i] = strconv.Itoa(x)
	}
	return strings.Join(ss, ".")
}

func genS0(r *hx.Rng) uint64 {
	switch r.Intn(4) {
	case 0:
		return uint64(r.Intn(3))
	case 1:
		return uint64(r.Intn(1000))
	default:
		return uint64(r.U64() % 20000000)
	}
}

func genSloop(r *hx.Rng) string {
	n := r.Range(2, 8)
	thr := r.Range(1, n)
	member := r.Range(1, n)
	s0 := genS0(r)
	ln := r.Range(1, 8)
	var es []string
	for i := 1; i <= ln; i++ {
		start := s0 + uint64(i-1)*sgC.max
		annEnd := start + sgC.delay + sgC.active
		var cur string
		switch r.Intn(12) {
		case 0:
			cur = "e"
		case 1:
			cur = fmt.Sprint(annEnd) // announcement phase just over
		case 2:
			cur = fmt.Sprint(annEnd - 1) // last block of it
		case 3:
			cur = fmt.Sprint(annEnd + uint64(r.Intn(3*int(sgC.max)))) // late: this attempt (and more) are skipped
		case 4:
			cur = fmt.Sprint(uint64(r.Intn(int(start) + 1)))
		default:
			cur = fmt.Sprint(start + uint64(r.Intn(int(sgC.delay+sgC.active))))
		}
		x := hx.Pick(r, []string{"-", "-", "-", "-", "-", "W", "A"})
		y := hx.Pick(r, []string{"E", "E", "S", "U", "K"})
		if i < ln && y == "K" && r.Chance(2, 3) {
			y = "E"
		}
		if i == ln && r.Chance(1, 2) {
			y = "K"
		}
		var ready []int
		switch r.Intn(6) {
		case 0: // minority
			ready = pickMembers(r, n, thr-1, member, r.Bool())
		case 1: // this member is not ready -> excluded
			if n > thr {
				ready = pickMembers(r, n, thr, member, false)
			} else {
				ready = pickMembers(r, n, thr, member, true)
			}
		default:
			ready = pickMembers(r, n, thr, member, true)
		}
		es = append(es, fmt.Sprintf("%s/%s%s/%s", cur, x, y, dotsInts(ready)))
	}
	return fmt.Sprintf("sloop %d %d %d %d %s", n, thr, member, s0, strings.Join(es, ","))
}

func genSloopx(r *hx.Rng) string {
	n := r.Range(2, 10)
	var ops []int
	id := 0
	for len(ops) < n {
		s := r.Range(1, 3)
		for j := 0; j < s && len(ops) < n; j++ {
			ops = append(ops, id)
		}
		id++
	}
	if r.Chance(1, 2) {
		p := r.Perm(n)
		q := make([]int, n)
		for i, j := range p {
			q[i] = ops[j]
		}
		ops = q
	}
	thr := r.Range(1, n)
	member := r.Range(1, n)
	s0 := genS0(r)
	msg := new(big.Int).SetBytes(r.Bytes(r.Range(1, 24)))
	ln := r.Range(1, 7)
	var es []string
	for i := 1; i <= ln; i++ {
		start := s0 + uint64(i-1)*sgC.max
		annEnd := start + sgC.delay + sgC.active
		var cur string
		switch r.Intn(10) {
		case 0:
			cur = "e"
		case 1:
			cur = fmt.Sprint(annEnd + uint64(r.Intn(2*int(sgC.max))))
		case 2:
			cur = fmt.Sprint(annEnd - 1)
		default:
			cur = fmt.Sprint(start + uint64(r.Intn(int(sgC.delay+sgC.active))))
		}
		x := hx.Pick(r, []string{"-", "-", "-", "-", "-", "-", "W", "A"})
		y := hx.Pick(r, []string{"E", "E", "S", "U", "K"})
		if i < ln && y == "K" && r.Chance(2, 3) {
			y = "E"
		}
		var ready []int
		switch r.Intn(6) {
		case 0:
			ready = pickMembers(r, n, thr-1, member, r.Bool())
		case 1:
			ready = pickMembers(r, n, r.Range(thr, n), member, false)
		default:
			ready = pickMembers(r, n, r.Range(thr, n), member, true)
		}
		es = append(es, fmt.Sprintf("%s/%s%s/%s", cur, x, y, dotsInts(ready)))
	}
	opAddrs := make(chain.Addresses, n)
	for i, o := range ops {
		opAddrs[i] = addr(o)
	}
	_, aseed, _ := tbtc.VerifC10SigningSelection(msg, 1, opAddrs, &tbtc.GroupParameters{HonestThreshold: thr}, 1, nil)
	var sts []string
	for i := 0; i <= ln+1; i++ {
		sts = append(sts, stream(aseed+int64(i), n+8))
	}
	return fmt.Sprintf("sloopx %s %d %d %d %s %s %s", hx.JoinInts(ops), thr, member, s0, msg,
		strings.Join(es, ","), strings.Join(sts, "|"))
}

func stream(seed int64, n int) string {
	rr := rand.New(rand.NewSource(seed))
	ss := make([]string, n)
	for i := range ss {
		ss[i] = strconv.FormatUint(uint64(rr.Uint32()), 10)
	}
	return strings.Join(ss, ".")
}

func genDloop(r *hx.Rng) string {
	n := r.Range(2, 10)
	var ops []int
	id := 0
	for len(ops) < n {
		s := r.Range(1, 3)
		for j := 0; j < s && len(ops) < n; j++ {
			ops = append(ops, id)
		}
		id++
	}
	quorum := r.Range((n+1)/2, n)
	member := r.Range(1, n)
	s0 := genS0(r)
	seed := new(big.Int).SetBytes(r.Bytes(r.Range(1, 20)))
	ln := r.Range(1, 6)
	var es []string
	for i := 1; i <= ln; i++ {
		x := hx.Pick(r, []string{"-", "-", "-", "-", "-", "-", "-", "A", "W"})
		if x == "W" && r.Chance(2, 3) {
			x = "-"
		}
		y := hx.Pick(r, []string{"E", "E", "E", "K"})
		if i == ln && r.Chance(1, 2) {
			y = "K"
		}
		var ready []int
		switch r.Intn(6) {
		case 0:
			ready = pickMembers(r, n, quorum-1, member, r.Bool())
		case 1:
			ready = pickMembers(r, n, r.Range(quorum, n), member, false)
		default:
			ready = pickMembers(r, n, r.Range(n-1, n), member, true)
		}
		es = append(es, fmt.Sprintf("%s%s/%s", x, y, dotsInts(ready)))
	}
	// the loop's attempt seed, obtained from the real constructor
	opAddrs := make(chain.Addresses, n)
	for i, o := range ops {
		opAddrs[i] = addr(o)
	}
	ctx, cancel := context.WithCancel(context.Background())
	cancel()
	aseed, _ := tbtc.VerifC11RunDkgLoop(ctx, seed, 0, 1, opAddrs, &tbtc.GroupParameters{GroupSize: n, GroupQuorum: quorum},
		1, &tbtc.VerifC11Callbacks{WaitForBlock: func(context.Context, uint64) error { return errScripted }})
	m := id
	l := m*(m-1)*(m-2)/6 + m*(m-1)/2 + m + 8
	return fmt.Sprintf("dloop %s %d %d %d %s %s %s", hx.JoinInts(ops), quorum, member, s0, seed, strings.Join(es, ","), stream(aseed, l))
}

func gen(r *hx.Rng, n int, tier string) []string {
	var out []string
	for i := 0; i < n; i++ {
		if r.Chance(1, 40) {
			nn := r.Range(2, 12)
			out = append(out, fmt.Sprintf("ann %d %d %d %s %d", nn, r.Range(1, nn), r.Range(0, nn-1),
				hx.Pick(r, []string{"strict", "eager"}), r.Range(60, 200)))
		} else if r.Chance(2, 5) {
			out = append(out, genSloop(r))
		} else if r.Chance(1, 3) {
			out = append(out, genSloopx(r))
		} else {
			out = append(out, genDloop(r))
		}
	}
	return out
}

func main() {
	hx.Main(&hx.Config{Prop: "C11", Gen: gen, Exec: exec, Facts: func() []string {
		return []string{
			fmt.Sprintf("nat signingDelay %d", sgC.delay), fmt.Sprintf("nat signingActive %d", sgC.active),
			fmt.Sprintf("nat signingProtocol %d", sgC.protocol), fmt.Sprintf("nat signingCoolDown %d", sgC.cool),
			fmt.Sprintf("nat signingMaxBlocks %d", sgC.max),
			fmt.Sprintf("nat dkgDelay %d", dkC.delay), fmt.Sprintf("nat dkgActive %d", dkC.active),
			fmt.Sprintf("nat dkgProtocol %d", dkC.protocol), fmt.Sprintf("nat dkgCoolDown %d", dkC.cool),
			fmt.Sprintf("nat dkgMaxBlocks %d", dkC.max),
		}
	}})
}
