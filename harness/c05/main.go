// C05: beacon DKG member fate (decideMemberFate / resolveGroupOperators, pkg/beacon/dkg/dkg.go).
//
//	fate <me> <N> <honest> <step> <start> <mykey> <evkey|-> <misbehaved> <order> <selected> [<localIA> <localDQ>]
//	    localIA / localDQ: members the node itself marked inactive / disqualified on
//	    gjkrResult.Group during GJKR (its LOCAL view; the fate must not depend on it).
//	    the failure path of ExecuteDKG: decideMemberFate (waitForDkgResultEvent driven with a
//	    scripted block counter and event channel), then resolveGroupOperators on its result.
//	    mykey: k<i> | nil ; evkey: k<i> | z<i> (last byte flipped) | t<i> (truncated) | e (empty) |
//	    `-` = no event at all; order: e = event delivered first, t = timeout block first.
//	dkg <N> <honest> <diverging> <lost>
//	    the composition the property is about: a full run of the REAL ExecuteDKG for every member
//	    of an N-group on the local chain / local network (every seat its own operator key), in
//	    which member <diverging> never receives the last GJKR message (phase 10) of member <lost>
//	    (0 0 = nobody loses anything).  The diverging member's local view then lists <lost> as
//	    inactive, its result is unsupported, its publication fails and ExecuteDKG takes the
//	    decideMemberFate branch.  Obs: mis=<misbehaved of the chain-accepted result|none>
//	    <idx>:ok:<group operators as seat labels> | <idx>:err   (not predicted by the model: SKIP)
//	resolve <N> <honest> <selected> <ids>
//	    resolveGroupOperators alone on arbitrary id lists.
//
// Obs: fate:    T=<awaited timeout block> ok <operators> | err:<class>
//
//	resolve: ok <operators> | err:ops | panic:index
package main

import (
	"context"
	"crypto/rand"
	"fmt"
	"math"
	"math/big"
	"os"
	"sort"
	"strings"
	"sync"
	"time"

	"keepverif/harness/hx"

	bn256 "github.com/ethereum/go-ethereum/crypto/bn256/cloudflare"

	beaconchain "github.com/keep-network/keep-core/pkg/beacon/chain"
	"github.com/keep-network/keep-core/pkg/beacon/dkg"
	dkgresult "github.com/keep-network/keep-core/pkg/beacon/dkg/result"
	"github.com/keep-network/keep-core/pkg/beacon/event"
	"github.com/keep-network/keep-core/pkg/beacon/gjkr"
	"github.com/keep-network/keep-core/pkg/chain"
	"github.com/keep-network/keep-core/pkg/chain/local_v1"
	"github.com/keep-network/keep-core/pkg/net"
	netlocal "github.com/keep-network/keep-core/pkg/net/local"
	"github.com/keep-network/keep-core/pkg/operator"
	"github.com/keep-network/keep-core/pkg/protocol/group"
)

type nolog struct{}

func (nolog) Debug(...interface{})          {}
func (nolog) Debugf(string, ...interface{}) {}
func (nolog) Error(...interface{})          {}
func (nolog) Errorf(string, ...interface{}) {}
func (nolog) Fatal(...interface{})          {}
func (nolog) Fatalf(string, ...interface{}) {}
func (nolog) Info(...interface{})           {}
func (nolog) Infof(string, ...interface{})  {}
func (nolog) Panic(...interface{})          {}
func (nolog) Panicf(string, ...interface{}) {}
func (nolog) Warn(...interface{})           {}
func (nolog) Warnf(string, ...interface{})  {}

// lossyChannel drops what `lose` selects from the messages one member receives.
type lossyChannel struct {
	net.BroadcastChannel
	lose func(net.Message) bool
}

func (c *lossyChannel) Recv(ctx context.Context, handler func(net.Message)) {
	c.BroadcastChannel.Recv(ctx, func(m net.Message) {
		if c.lose(m) {
			return
		}
		handler(m)
	})
}

// fullDKG runs ExecuteDKG for every member of an n-group; returns the observation line.
func fullDKG(n, honest, diverging, lost int) string {
	seed, err := rand.Int(rand.Reader, big.NewInt(math.MaxInt64))
	if err != nil {
		panic(err)
	}
	// One operator key holds every seat (as in the repository's own DKG tests): result
	// signatures are made with the chain handle's key and must match the network key of the
	// sender, and the local chain's state is not shared between handles. The operator list is
	// therefore n copies of one address; its LENGTH and the member's fate are what is observed.
	chainKey, pub, err := operator.GenerateKeyPair(local_v1.DefaultCurve)
	if err != nil {
		panic(err)
	}
	localChain := local_v1.ConnectWithKey(n, honest, chainKey)
	addr, err := localChain.Signing().PublicKeyToAddress(pub)
	if err != nil {
		panic(err)
	}
	selected := make([]chain.Address, n)
	label := map[chain.Address]string{addr: "op"}
	channels := make([]net.BroadcastChannel, n)
	shared, err := netlocal.ConnectWithKey(pub).BroadcastChannelFor(fmt.Sprintf("verif-c05-%v", seed))
	if err != nil {
		panic(err)
	}
	for i := 0; i < n; i++ {
		selected[i] = addr
		channels[i] = shared
	}
	if diverging >= 1 && diverging <= n {
		channels[diverging-1] = &lossyChannel{BroadcastChannel: channels[diverging-1], lose: func(m net.Message) bool {
			reveal, ok := m.Payload().(*gjkr.MisbehavedEphemeralKeysMessage)
			return ok && int(reveal.SenderID()) == lost
		}}
	}
	blockCounter, err := localChain.BlockCounter()
	if err != nil {
		panic(err)
	}
	cur, _ := blockCounter.CurrentBlock()
	validator := group.NewMembershipValidator(nolog{}, selected, localChain.Signing())
	type res struct {
		signer *dkg.ThresholdSigner
		err    error
	}
	results := make([]res, n)
	var wg sync.WaitGroup
	for i := 1; i <= n; i++ {
		wg.Add(1)
		go func(i int) {
			defer wg.Done()
			defer func() {
				if e := recover(); e != nil {
					results[i-1] = res{nil, fmt.Errorf("PANIC %v", e)}
				}
			}()
			s, err := dkg.ExecuteDKG(nolog{}, seed, group.MemberIndex(i), cur+3, localChain, channels[i-1], validator, selected)
			results[i-1] = res{s, err}
		}(i)
	}
	wg.Wait()
	mis := "none"
	if accepted, _ := localChain.GetLastDKGResult(); accepted != nil {
		ms := append([]uint8(nil), accepted.Misbehaved...)
		sort.Slice(ms, func(a, b int) bool { return ms[a] < ms[b] })
		mis = hx.JoinInts(ms)
	}
	out := []string{"mis=" + mis}
	for i, r := range results {
		if r.err != nil || r.signer == nil {
			c := "err"
			if r.err != nil && strings.HasPrefix(r.err.Error(), "PANIC") {
				c = "PANIC"
			}
			if os.Getenv("VERIF_C05_DEBUG") != "" {
				fmt.Fprintf(os.Stderr, "member %d: %v\n", i+1, r.err)
			}
			out = append(out, fmt.Sprintf("%d:%s", i+1, c))
			continue
		}
		var ls []string
		for _, a := range r.signer.GroupOperators() {
			l, ok := label[a]
			if !ok {
				l = "unknown"
			}
			ls = append(ls, l)
		}
		out = append(out, fmt.Sprintf("%d:ok:%s", i+1, hx.JoinStrs(ls)))
	}
	return strings.Join(out, " ")
}


type fakeBC struct {
	awaited chan uint64
	timeout chan uint64
}

func (b *fakeBC) WaitForBlockHeight(uint64) error { panic("unexpected WaitForBlockHeight") }
func (b *fakeBC) BlockHeightWaiter(h uint64) (<-chan uint64, error) {
	b.awaited <- h
	return b.timeout, nil
}
func (b *fakeBC) CurrentBlock() (uint64, error)             { return 0, nil }
func (b *fakeBC) WatchBlocks(context.Context) <-chan uint64 { panic("unexpected WatchBlocks") }

type fakeBeacon struct {
	beaconchain.Interface
	cfg *beaconchain.Config
	// key of the result the chain accepted (nil: none): the anchored code does not ask, but a
	// chain that is asked answers truthfully instead of crashing the harness
	registered []byte
}

func (c *fakeBeacon) IsGroupRegistered(key []byte) (bool, error) {
	return c.registered != nil && string(c.registered) == string(key), nil
}

func (c *fakeBeacon) GetConfig() *beaconchain.Config { return c.cfg }

func point(i int64) *bn256.G2 { return new(bn256.G2).ScalarBaseMult(big.NewInt(i)) }

// keyBytes maps the symbolic key tokens to pairwise distinct byte strings.
func keyBytes(tok string) []byte {
	if tok == "e" {
		return []byte{}
	}
	i := int64(hx.Atoi(tok[1:]))
	b := point(i).Marshal()
	switch tok[0] {
	case 'k':
	case 'z':
		b[len(b)-1] ^= 1
	case 't':
		b = b[:len(b)-1]
	default:
		panic("harness: bad key token " + tok)
	}
	return b
}

func errClass(err error) string {
	s := err.Error()
	switch {
	case strings.Contains(s, "timed out"):
		return "err:timeout"
	case strings.Contains(s, "group public key is nil"):
		return "err:nokey"
	case strings.Contains(s, "do not support the same group public key"):
		return "err:key"
	case strings.Contains(s, "considered as misbehaving"):
		return "err:misbehaved"
	case strings.Contains(s, "invalid input parameters"):
		return "err:ops"
	case strings.HasPrefix(s, "PANIC"):
		return "PANIC"
	}
	return "err:other"
}

func addrs(s string) []chain.Address {
	var out []chain.Address
	for _, a := range hx.SplitList(s) {
		out = append(out, chain.Address(a))
	}
	return out
}

func showAddrs(as []chain.Address) string {
	ss := make([]string, len(as))
	for i, a := range as {
		ss[i] = string(a)
	}
	return hx.JoinStrs(ss)
}

func resolve(sel []chain.Address, ids []group.MemberIndex, cfg *beaconchain.Config) (obs string) {
	defer func() {
		if e := recover(); e != nil {
			if strings.Contains(fmt.Sprint(e), "index out of range") {
				obs = "panic:index"
				return
			}
			panic(e)
		}
	}()
	ops, err := dkg.VerifC05ResolveGroupOperators(sel, ids, cfg)
	if err != nil {
		return errClass(err)
	}
	return "ok " + showAddrs(ops)
}

func exec(op string) (string, string) {
	f := strings.Fields(op)
	switch {
	case (len(f) == 11 || len(f) == 13) && f[0] == "fate":
		me, n, honest := hx.Atoi(f[1]), hx.Atoi(f[2]), hx.Atoi(f[3])
		step, start := hx.AtoU64(f[4]), hx.AtoU64(f[5])
		if n < 1 || n > 255 || honest > n || me < 0 || me > 255 {
			return "bad-op", "bad"
		}
		res := &gjkr.Result{Group: group.NewGroup(n-honest, n)}
		localView := false
		if len(f) == 13 {
			for _, m := range hx.ParseInts(f[11]) {
				res.Group.MarkMemberAsInactive(group.MemberIndex(m))
				localView = true
			}
			for _, m := range hx.ParseInts(f[12]) {
				res.Group.MarkMemberAsDisqualified(group.MemberIndex(m))
				localView = true
			}
		}
		if f[6] != "nil" {
			res.GroupPublicKey = new(bn256.G2)
			if _, err := res.GroupPublicKey.Unmarshal(keyBytes(f[6])); err != nil {
				return "bad-op", "bad"
			}
		}
		cfg := &beaconchain.Config{GroupSize: n, HonestThreshold: honest, ResultPublicationBlockStep: step}
		bc := &fakeBC{awaited: make(chan uint64, 4), timeout: make(chan uint64)}
		evCh := make(chan *event.DKGResultSubmission)
		type out struct {
			ids []group.MemberIndex
			err error
		}
		done := make(chan out, 1)
		go func() {
			defer func() { // a panic in this goroutine would kill the whole harness process
				if e := recover(); e != nil {
					done <- out{nil, fmt.Errorf("PANIC %v", e)}
				}
			}()
			fb := &fakeBeacon{cfg: cfg}
			if f[7] != "-" {
				fb.registered = keyBytes(f[7])
			}
			ids, err := dkg.VerifC05DecideMemberFate(group.MemberIndex(me), res, evCh, start, fb, bc)
			done <- out{ids, err}
		}()
		var awaited uint64
		select {
		case awaited = <-bc.awaited:
		case r := <-done: // decided without waiting for the event / timeout at all
			if r.err != nil {
				return "T=- " + errClass(r.err), "fate+nowait"
			}
			return "T=- " + resolve(addrs(f[10]), r.ids, cfg), "fate+nowait"
		case <-time.After(10 * time.Second):
			return "HANG", "hang"
		}
		var misb []uint8
		for _, m := range hx.ParseInts(f[8]) {
			misb = append(misb, uint8(m))
		}
		tag := "fate"
		if localView {
			tag += "+localview"
		}
		deliverEvent := func() bool {
			if f[7] == "-" {
				return false
			}
			select {
			case evCh <- &event.DKGResultSubmission{MemberIndex: 1, GroupPublicKey: keyBytes(f[7]), Misbehaved: misb, BlockNumber: start + 1}:
				return true
			case <-time.After(200 * time.Millisecond):
				return false // nobody listens any more (the timeout was taken first)
			}
		}
		if f[9] == "e" && f[7] != "-" {
			if !deliverEvent() {
				return "HANG", "hang"
			}
			tag += "+event"
		} else {
			select {
			case bc.timeout <- awaited:
			case <-time.After(10 * time.Second):
				return "HANG", "hang"
			}
			tag += "+timeout"
		}
		var r out
		select {
		case r = <-done:
		case <-time.After(10 * time.Second):
			return "HANG", "hang"
		}
		pre := fmt.Sprintf("T=%d ", awaited)
		if r.err != nil {
			c := errClass(r.err)
			return pre + c, tag + "+" + strings.TrimPrefix(c, "err:")
		}
		o := resolve(addrs(f[10]), r.ids, cfg)
		if strings.HasPrefix(o, "ok") {
			tag += "+stay"
			if len(misb) > 0 {
				tag += "+misb"
			}
			if localView {
				// somebody the node saw misbehaving locally is not listed by the chain
				for _, m := range append(hx.ParseInts(f[11]), hx.ParseInts(f[12])...) {
					listed := false
					for _, x := range misb {
						if int(x) == m {
							listed = true
						}
					}
					if !listed && m >= 1 && m <= n {
						tag += "+localonly"
						break
					}
				}
			}
		} else {
			tag += "+" + strings.TrimPrefix(o, "err:")
		}
		return pre + o, tag
	case len(f) == 5 && f[0] == "dkg":
		n, honest, d, l := hx.Atoi(f[1]), hx.Atoi(f[2]), hx.Atoi(f[3]), hx.Atoi(f[4])
		if n < 2 || n > 16 || honest < 1 || honest > n {
			return "bad-op", "bad"
		}
		obs := fullDKG(n, honest, d, l)
		tag := "dkg"
		// the diverging member stayed although the chain's result does not list <lost>
		if d >= 1 && d <= n && strings.Contains(obs, fmt.Sprintf(" %d:ok:", d)) && strings.HasPrefix(obs, "mis=- ") {
			tag += "+diverged"
		}
		return obs, tag
	case len(f) == 5 && f[0] == "resolve":
		n, honest := hx.Atoi(f[1]), hx.Atoi(f[2])
		var ids []group.MemberIndex
		for _, m := range hx.ParseInts(f[4]) {
			ids = append(ids, group.MemberIndex(m))
		}
		cfg := &beaconchain.Config{GroupSize: n, HonestThreshold: honest}
		o := resolve(addrs(f[3]), ids, cfg)
		tag := "resolve"
		switch {
		case strings.HasPrefix(o, "ok"):
			tag += "+resolved"
		case o == "panic:index":
			tag += "+oob"
		default:
			tag += "+invalid"
		}
		return o, tag
	}
	return "bad-op", "bad"
}

func selected(r *hx.Rng, n int) string {
	ss := make([]string, n)
	for i := range ss {
		ss[i] = fmt.Sprintf("a%d", i+1)
		if r.Chance(1, 6) && i > 0 { // one operator may hold several seats
			ss[i] = ss[r.Intn(i)]
		}
	}
	return hx.JoinStrs(ss)
}

func gen(r *hx.Rng, n int, tier string) []string {
	var ops []string
	if tier == "thorough" { // full ExecuteDKG runs are slow (real-time local chain): a handful
		for i := 0; i < 3; i++ {
			N := r.Range(3, 5)
			d := r.Range(1, N)
			l := r.Range(1, N)
			for l == d {
				l = r.Range(1, N)
			}
			ops = append(ops, fmt.Sprintf("dkg %d %d %d %d", N, N/2+1, d, l))
		}
	}
	for i := 0; i < n; i++ {
		N := r.Range(1, 9)
		if r.Chance(1, 12) {
			N = r.Range(10, 64)
		}
		honest := N/2 + 1
		if honest > N {
			honest = N
		}
		if r.Chance(1, 4) { // fewer members -> more threshold failures
			honest = r.Range(1, N)
		}
		if r.Chance(3, 10) {
			// resolveGroupOperators alone
			k := r.Range(0, N+1)
			var ids []int
			perm := r.Perm(N)
			for j := 0; j < k && j < N; j++ {
				ids = append(ids, perm[j]+1)
			}
			switch r.Intn(8) {
			case 0:
				ids = append(ids, 0) // 0-1 wraps to 255
			case 1:
				ids = append(ids, N+1)
			case 2:
				if len(ids) > 0 {
					ids = append(ids, ids[0]) // duplicate
				}
			}
			sn := N
			if r.Chance(1, 8) {
				sn = r.Range(0, N+1)
			}
			ops = append(ops, fmt.Sprintf("resolve %d %d %s %s", N, honest, selected(r, sn), hx.JoinInts(ids)))
			continue
		}
		me := r.Range(1, N)
		mykey := fmt.Sprintf("k%d", r.Range(1, 3))
		if r.Chance(1, 15) {
			mykey = "nil"
		}
		ev := "-"
		if r.Chance(9, 10) {
			ev = mykey
			if mykey == "nil" {
				ev = "k1"
			}
			switch r.Intn(8) {
			case 0:
				ev = fmt.Sprintf("k%d", r.Range(1, 3))
			case 1:
				ev = "z" + ev[1:]
			case 2:
				ev = hx.Pick(r, []string{"t" + ev[1:], "e"})
			}
		}
		var misb []int
		for j := r.Intn(4); j > 0; j-- {
			misb = append(misb, r.Range(1, N))
		}
		if r.Chance(1, 6) {
			misb = append(misb, me)
		}
		if r.Chance(1, 10) {
			misb = append(misb, hx.Pick(r, []int{0, N + 1, 255}))
		}
		if r.Chance(1, 10) && N > 2 { // many misbehaving: below the honest threshold
			misb = nil
			for j := 1; j <= N; j++ {
				if j != me && r.Chance(2, 3) {
					misb = append(misb, j)
				}
			}
		}
		order := hx.Pick(r, []string{"e", "e", "e", "t"})
		sn := N
		if r.Chance(1, 15) {
			sn = r.Range(0, N+1)
		}
		// the member's local view of the group after GJKR: arbitrary IA / DQ sets, equal to,
		// overlapping with, or disjoint from the chain's misbehaved list
		var ia, dq []int
		switch r.Intn(5) {
		case 0: // fresh group
		case 1: // same as the chain's list, split
			for _, m := range misb {
				if r.Bool() {
					ia = append(ia, m)
				} else {
					dq = append(dq, m)
				}
			}
		case 2: // so many that the local operating set is below the honest threshold
			for j := 1; j <= N; j++ {
				if j != me && r.Chance(3, 4) {
					if r.Bool() {
						ia = append(ia, j)
					} else {
						dq = append(dq, j)
					}
				}
			}
		default:
			for j := r.Intn(4); j > 0; j-- {
				ia = append(ia, r.Range(1, N))
			}
			for j := r.Intn(3); j > 0; j-- {
				dq = append(dq, r.Range(1, N))
			}
			if r.Chance(1, 8) {
				ia = append(ia, me) // the node cannot mark itself in practice; harmless
			}
			if r.Chance(1, 10) {
				dq = append(dq, hx.Pick(r, []int{0, N + 1}))
			}
		}
		ops = append(ops, fmt.Sprintf("fate %d %d %d %d %d %s %s %s %s %s %s %s", me, N, honest, r.Range(1, 6), r.Intn(5000),
			mykey, ev, hx.JoinInts(misb), order, selected(r, sn), hx.JoinInts(ia), hx.JoinInts(dq)))
	}
	return ops
}

func main() {
	hx.Main(&hx.Config{
		Prop: "C05",
		Gen:  gen,
		Exec: exec,
		PerOpTimeout: 300 * time.Second,
		Facts: func() []string {
			return []string{fmt.Sprintf("nat prePublicationBlocks %d", dkgresult.PrePublicationBlocks())}
		},
	})
}
