// C29: Bitcoin serialization and byte-order conversions round-trip.
//
// Op lines (bytes are hex, `_` = empty byte string, `-` = empty list):
//
//	tx <version> <locktime> <in,in,...> <out,out,...>
//	     in  = <prevhash>:<index>:<sigscript>:<sequence>:<witness item/item/...>
//	     out = <value>:<pkscript>
//	   obs: <Serialize(Standard)> <Serialize(Witness)> <Deserialize(std)> <Deserialize(wit)>
//	        <SerializeVersion> <SerializeInputs> <SerializeOutputs> <SerializeLocktime>
//	        <1 if Hash() == Hash() of the witness-stripped transaction>
//	        a decoded transaction is printed as <version>;<locktime>;<ins>;<outs>
//	raw <hex>            Transaction.Deserialize on arbitrary bytes -> transaction | err:<class>
//	cs <n>               writeCompactSizeUint, then readCompactSizeUint -> <hex> <value> <len>
//	csraw <hex>          readCompactSizeUint -> <value> <len> | err
//	script <hex>         ToVarLenData, then NewScriptFromVarLenData -> <hex> <script>
//	varlen <hex>         NewScriptFromVarLenData -> <script> | err
//	hash <hex32>         Hex(internal) Hex(reversed) NewHashFromString of both back, NewHash(reversed)
//	hashstr <s> <0|1>    NewHashFromString(s, order) -> <hash> | err
//	hdr <hex80>          BlockHeader.Deserialize, then Serialize -> <fields> <hex>
//	hdrf <v;prev;merkle;time;bits;nonce>   Serialize, then Deserialize -> <hex> <fields>
package main

import (
	"encoding/hex"
	"errors"
	"fmt"
	"io"
	"strconv"
	"strings"

	"keepverif/harness/hx"

	"github.com/btcsuite/btcd/wire"
	"github.com/keep-network/keep-core/pkg/bitcoin"
)

func hexs(b []byte) string {
	if len(b) == 0 {
		return "_"
	}
	return hex.EncodeToString(b)
}

func unhex(s string) []byte {
	if s == "_" {
		return []byte{}
	}
	b, err := hex.DecodeString(s)
	if err != nil {
		panic("harness: bad hex " + s)
	}
	return b
}

func u64(s string) uint64 {
	v, err := strconv.ParseUint(s, 10, 64)
	if err != nil {
		panic("harness: bad uint " + s)
	}
	return v
}

func parseTx(ver, lock, ins, outs string) *bitcoin.Transaction {
	tx := &bitcoin.Transaction{Version: int32(uint32(u64(ver))), Locktime: uint32(u64(lock))}
	for _, s := range hx.SplitList(ins) {
		f := strings.Split(s, ":")
		if len(f) != 5 {
			panic("harness: bad input " + s)
		}
		in := &bitcoin.TransactionInput{Outpoint: &bitcoin.TransactionOutpoint{}}
		copy(in.Outpoint.TransactionHash[:], unhex(f[0]))
		in.Outpoint.OutputIndex = uint32(u64(f[1]))
		if f[2] != "_" { // empty scripts stay nil, as the wallet code leaves them
			in.SignatureScript = unhex(f[2])
		}
		in.Sequence = uint32(u64(f[3]))
		if f[4] != "-" {
			for _, w := range strings.Split(f[4], "/") {
				in.Witness = append(in.Witness, unhex(w))
			}
		}
		tx.Inputs = append(tx.Inputs, in)
	}
	for _, s := range hx.SplitList(outs) {
		f := strings.Split(s, ":")
		if len(f) != 2 {
			panic("harness: bad output " + s)
		}
		tx.Outputs = append(tx.Outputs, &bitcoin.TransactionOutput{
			Value: int64(u64(f[0])), PublicKeyScript: unhex(f[1]),
		})
	}
	return tx
}

func showTx(tx *bitcoin.Transaction) string {
	var ins, outs []string
	for _, in := range tx.Inputs {
		w := "-"
		if len(in.Witness) > 0 {
			var ws []string
			for _, it := range in.Witness {
				ws = append(ws, hexs(it))
			}
			w = strings.Join(ws, "/")
		}
		ins = append(ins, fmt.Sprintf("%s:%d:%s:%d:%s", hexs(in.Outpoint.TransactionHash[:]),
			in.Outpoint.OutputIndex, hexs(in.SignatureScript), in.Sequence, w))
	}
	for _, o := range tx.Outputs {
		outs = append(outs, fmt.Sprintf("%d:%s", uint64(o.Value), hexs(o.PublicKeyScript)))
	}
	return fmt.Sprintf("%d;%d;%s;%s", uint32(tx.Version), tx.Locktime, hx.JoinStrs(ins), hx.JoinStrs(outs))
}

// a different transaction of a similar shape (other field values, one more output, scripts
// inverted and one byte longer) used as the second call of the two-call discipline
func neighbour(tx *bitcoin.Transaction) *bitcoin.Transaction {
	inv := func(b []byte) []byte {
		o := make([]byte, len(b)+1)
		for i := range b {
			o[i] = ^b[i]
		}
		return o
	}
	n := &bitcoin.Transaction{Version: tx.Version + 1, Locktime: tx.Locktime ^ 0xffffffff}
	for _, in := range tx.Inputs {
		ni := &bitcoin.TransactionInput{Outpoint: &bitcoin.TransactionOutpoint{OutputIndex: in.Outpoint.OutputIndex + 1},
			SignatureScript: inv(in.SignatureScript), Sequence: ^in.Sequence}
		copy(ni.Outpoint.TransactionHash[:], inv(in.Outpoint.TransactionHash[:]))
		for _, w := range in.Witness {
			ni.Witness = append(ni.Witness, inv(w))
		}
		n.Inputs = append(n.Inputs, ni)
	}
	if len(n.Inputs) == 0 {
		n.Inputs = append(n.Inputs, &bitcoin.TransactionInput{Outpoint: &bitcoin.TransactionOutpoint{}})
	}
	for _, o := range tx.Outputs {
		n.Outputs = append(n.Outputs, &bitcoin.TransactionOutput{Value: ^o.Value, PublicKeyScript: inv(o.PublicKeyScript)})
	}
	n.Outputs = append(n.Outputs, &bitcoin.TransactionOutput{Value: 1, PublicKeyScript: []byte{0x6a}})
	return n
}

func errClass(err error) string {
	m := err.Error()
	switch {
	case errors.Is(err, io.EOF), errors.Is(err, io.ErrUnexpectedEOF), strings.Contains(m, "EOF"):
		return "err:eof"
	case strings.Contains(m, "non-canonical varint"):
		return "err:noncanon"
	case strings.Contains(m, "too many"):
		return "err:toomany"
	case strings.Contains(m, "larger than the max allowed size"):
		return "err:toobig"
	case strings.Contains(m, "witness tx but flag byte"):
		return "err:flag"
	case strings.Contains(m, "malformed var len data"):
		return "err:malformed"
	case strings.Contains(m, "wrong hash string size"), strings.Contains(m, "wrong hash size"):
		return "err:size"
	case strings.Contains(m, "cannot decode hash string"):
		return "err:hex"
	}
	return "err:other"
}

func decode(b []byte) string {
	var tx bitcoin.Transaction
	if err := tx.Deserialize(b); err != nil {
		return errClass(err)
	}
	return showTx(&tx)
}

func showHeader(h *bitcoin.BlockHeader) string {
	return fmt.Sprintf("%d;%s;%s;%d;%d;%d", uint32(h.Version), hexs(h.PreviousBlockHeaderHash[:]),
		hexs(h.MerkleRootHash[:]), h.Time, h.Bits, h.Nonce)
}

func exec(op string) (string, string) {
	t := strings.Fields(op)
	if len(t) < 2 {
		return "bad-op", "bad"
	}
	switch t[0] {
	case "tx":
		if len(t) != 5 {
			return "bad-op", "bad"
		}
		tx := parseTx(t[1], t[2], t[3], t[4])
		std := tx.Serialize(bitcoin.Standard)
		wit := tx.Serialize(bitcoin.Witness)
		v := tx.SerializeVersion()
		l := tx.SerializeLocktime()
		stripped := &bitcoin.Transaction{Version: tx.Version, Locktime: tx.Locktime, Outputs: tx.Outputs}
		hasWit, b253, b64k := false, false, false
		note := func(n int) {
			if n >= 253 {
				b253 = true
			}
			if n >= 0x10000 {
				b64k = true
			}
		}
		note(len(tx.Inputs))
		note(len(tx.Outputs))
		for _, in := range tx.Inputs {
			stripped.Inputs = append(stripped.Inputs, &bitcoin.TransactionInput{
				Outpoint: in.Outpoint, SignatureScript: in.SignatureScript, Sequence: in.Sequence})
			note(len(in.SignatureScript))
			note(len(in.Witness))
			if len(in.Witness) > 0 {
				hasWit = true
			}
			for _, w := range in.Witness {
				note(len(w))
			}
		}
		for _, o := range tx.Outputs {
			note(len(o.PublicKeyScript))
		}
		he := 0
		if tx.Hash() == stripped.Hash() {
			he = 1
		}
		before := showTx(tx)
		dstd, dwit := decode(std), decode(wit)
		ins, outs := tx.SerializeInputs(), tx.SerializeOutputs()
		parts := func() string {
			return fmt.Sprintf("%s %s %s %s %s %s", hexs(std), hexs(wit), hexs(v[:]), hexs(ins), hexs(outs), hexs(l[:]))
		}
		snapshot := parts()
		// Second transaction through the same entry points while the results of the first one
		// are still held: results must not share storage across calls.
		other := neighbour(tx)
		_ = other.Serialize(bitcoin.Standard)
		_ = other.Serialize(bitcoin.Witness)
		_ = other.SerializeInputs()
		_ = other.SerializeOutputs()
		_ = other.Hash()
		_ = decode(other.Serialize(bitcoin.Witness))
		obs := fmt.Sprintf("%s %s %s %s %s %s %s %s %d", hexs(std), hexs(wit), dstd, dwit,
			hexs(v[:]), hexs(ins), hexs(outs), hexs(l[:]), he)
		if parts() != snapshot {
			obs += " ALIASED"
		}
		if showTx(tx) != before {
			obs += " MUTATED"
		}
		tag := "tx"
		if len(tx.Inputs) == 0 {
			tag += "+zeroin"
		} else if hasWit {
			tag += "+wit"
		} else {
			tag += "+nowit"
		}
		if b253 {
			tag += "+b253"
		}
		if b64k {
			tag += "+b64k"
		}
		return obs, tag
	case "raw":
		r := decode(unhex(t[1]))
		if strings.HasPrefix(r, "err:") {
			return r, "raw+" + strings.Replace(r, ":", "-", 1)
		}
		return r, "raw+ok"
	case "cs":
		n := u64(t[1])
		b, err := bitcoin.VerifC29WriteCompactSizeUint(n)
		if err != nil {
			return errClass(err), "cs+err"
		}
		v, ln, err := bitcoin.VerifC29ReadCompactSizeUint(b)
		if err != nil {
			return hexs(b) + " " + errClass(err), "cs+err"
		}
		return fmt.Sprintf("%s %d %d", hexs(b), v, ln), fmt.Sprintf("cs+len%d", len(b))
	case "csraw":
		v, ln, err := bitcoin.VerifC29ReadCompactSizeUint(unhex(t[1]))
		if err != nil {
			return errClass(err), "csraw+" + strings.Replace(errClass(err), ":", "-", 1)
		}
		return fmt.Sprintf("%d %d", v, ln), "csraw+ok"
	case "script":
		s := bitcoin.Script(unhex(t[1]))
		d, err := s.ToVarLenData()
		if err != nil {
			return errClass(err), "script+err"
		}
		back, err := bitcoin.NewScriptFromVarLenData(d)
		if err != nil {
			return hexs(d) + " " + errClass(err), "script+err"
		}
		return hexs(d) + " " + hexs(back), "script"
	case "varlen":
		s, err := bitcoin.NewScriptFromVarLenData(unhex(t[1]))
		if err != nil {
			return errClass(err), "varlen+" + strings.Replace(errClass(err), ":", "-", 1)
		}
		return hexs(s), "varlen+ok"
	case "hash":
		var h bitcoin.Hash
		b := unhex(t[1])
		if len(b) != 32 {
			return "bad-op", "bad"
		}
		copy(h[:], b)
		si, sr := h.Hex(bitcoin.InternalByteOrder), h.Hex(bitcoin.ReversedByteOrder)
		show := func(x bitcoin.Hash, err error) string {
			if err != nil {
				return errClass(err)
			}
			return hexs(x[:])
		}
		return fmt.Sprintf("%s %s %s %s %s %s", si, sr,
			show(bitcoin.NewHashFromString(si, bitcoin.InternalByteOrder)),
			show(bitcoin.NewHashFromString(sr, bitcoin.ReversedByteOrder)),
			show(bitcoin.NewHash(b, bitcoin.ReversedByteOrder)),
			h.String()), "hash"
	case "hashstr":
		if len(t) != 3 {
			return "bad-op", "bad"
		}
		s := t[1]
		if s == "_" {
			s = ""
		}
		o := bitcoin.InternalByteOrder
		if t[2] == "1" {
			o = bitcoin.ReversedByteOrder
		}
		h, err := bitcoin.NewHashFromString(s, o)
		if err != nil {
			return errClass(err), "hashstr+" + strings.Replace(errClass(err), ":", "-", 1)
		}
		return hexs(h[:]), "hashstr+ok"
	case "hdr":
		b := unhex(t[1])
		if len(b) != 80 {
			return "bad-op", "bad"
		}
		var raw [80]byte
		copy(raw[:], b)
		var h bitcoin.BlockHeader
		h.Deserialize(raw)
		out := h.Serialize()
		return showHeader(&h) + " " + hexs(out[:]), "hdr"
	case "hdrf":
		f := strings.Split(t[1], ";")
		if len(f) != 6 {
			return "bad-op", "bad"
		}
		h := bitcoin.BlockHeader{Version: int32(uint32(u64(f[0]))), Time: uint32(u64(f[3])),
			Bits: uint32(u64(f[4])), Nonce: uint32(u64(f[5]))}
		copy(h.PreviousBlockHeaderHash[:], unhex(f[1]))
		copy(h.MerkleRootHash[:], unhex(f[2]))
		raw := h.Serialize()
		var back bitcoin.BlockHeader
		back.Deserialize(raw)
		return hexs(raw[:]) + " " + showHeader(&back), "hdrf"
	}
	return "bad-op", "bad"
}

// ---- generators -----------------------------------------------------------

func boundaryLen(r *hx.Rng, tier string) int {
	switch r.Intn(8) {
	case 0:
		return 252
	case 1:
		return 253
	case 2:
		return 254
	case 3:
		return r.Range(255, 600)
	case 4:
		if tier == "thorough" && r.Chance(1, 8) {
			return 0xffff
		}
		return 0xfc
	case 5:
		if tier == "thorough" && r.Chance(1, 8) {
			return 0x10000
		}
		return 0xfd
	case 6:
		return 0
	}
	return r.Range(1, 80)
}

func smallLen(r *hx.Rng) int {
	switch r.Intn(6) {
	case 0:
		return 0
	case 1:
		return r.Range(1, 4)
	case 2:
		return []int{22, 23, 25, 34}[r.Intn(4)]
	}
	return r.Range(1, 110)
}

func minInt(a, b int) int {
	if a < b {
		return a
	}
	return b
}

func u32Edge(r *hx.Rng) uint32 {
	switch r.Intn(6) {
	case 0:
		return 0
	case 1:
		return 0xffffffff
	case 2:
		return 0x80000000
	case 3:
		return uint32(r.Range(1, 2))
	}
	return uint32(r.U64())
}

func genTx(r *hx.Rng, tier string, zeroIn bool) string {
	nin := r.Range(1, 4)
	nout := r.Range(0, 4)
	if r.Chance(1, 25) { // counts across the compact-size boundary
		nin = []int{252, 253, 254}[r.Intn(3)]
	}
	if r.Chance(1, 25) {
		nout = []int{252, 253, 254}[r.Intn(3)]
	}
	if tier == "thorough" && r.Chance(1, 1500) {
		nin = []int{0xffff, 0x10000}[r.Intn(2)]
	}
	if tier == "thorough" && r.Chance(1, 1500) {
		nout = []int{0xffff, 0x10000}[r.Intn(2)]
	}
	if zeroIn {
		nin = 0
	}
	many := nin+nout > 100
	ln := func() int {
		if many {
			return r.Range(0, 3)
		}
		if r.Chance(1, 10) {
			return boundaryLen(r, tier)
		}
		return smallLen(r)
	}
	witnessTx := r.Chance(3, 5)
	var ins, outs []string
	for i := 0; i < nin; i++ {
		w := "-"
		if witnessTx && !r.Chance(1, 4) {
			k := r.Range(1, 4)
			if !many && r.Chance(1, 30) {
				k = []int{252, 253, 254}[r.Intn(3)]
			}
			var items []string
			for j := 0; j < k; j++ {
				l := ln()
				if k > 100 {
					l = r.Range(0, 2)
				}
				items = append(items, hexs(r.Bytes(l)))
			}
			w = strings.Join(items, "/")
		}
		ins = append(ins, fmt.Sprintf("%s:%d:%s:%d:%s", hexs(r.Bytes(32)), u32Edge(r), hexs(r.Bytes(ln())), u32Edge(r), w))
	}
	for i := 0; i < nout; i++ {
		var v uint64
		switch r.Intn(5) {
		case 0:
			v = 0
		case 1:
			v = ^uint64(0) // -1 as int64
		case 2:
			v = 1 << 63
		default:
			v = r.U64() >> uint(r.Intn(64))
		}
		outs = append(outs, fmt.Sprintf("%d:%s", v, hexs(r.Bytes(ln()))))
	}
	return fmt.Sprintf("tx %d %d %s %s", u32Edge(r), u32Edge(r), hx.JoinStrs(ins), hx.JoinStrs(outs))
}

// mutated serializations for the malformed stream
func genRaw(r *hx.Rng, tier string) string {
	op := genTx(r, "quick", r.Chance(1, 20))
	t := strings.Fields(op)
	tx := parseTx(t[1], t[2], t[3], t[4])
	if len(tx.Inputs)+len(tx.Outputs) > 20 {
		if len(tx.Inputs) > 1 {
			tx.Inputs = tx.Inputs[:1]
		}
		if len(tx.Outputs) > 2 {
			tx.Outputs = tx.Outputs[:2]
		}
	}
	b := tx.Serialize(bitcoin.Witness)
	if r.Chance(1, 3) {
		b = tx.Serialize(bitcoin.Standard)
	}
	switch r.Intn(9) {
	case 0: // truncate
		b = b[:r.Intn(len(b)+1)]
	case 1: // trailing bytes
		b = append(b, r.Bytes(r.Range(1, 5))...)
	case 2: // flip a byte in the header region (counts, marker, flag)
		i := r.Intn(minInt(len(b), 8))
		b[i] = byte(r.U64())
	case 3: // flip any byte
		i := r.Intn(len(b))
		b[i] ^= byte(1 << uint(r.Intn(8)))
	case 4: // non canonical count: fd xx 00 after the version
		nb := append([]byte{}, b[:4]...)
		nb = append(nb, 0xfd, byte(r.Range(1, 252)), 0)
		b = append(nb, b[5:]...)
	case 5: // bad flag
		if len(b) > 5 && b[4] == 0 {
			b[5] = byte(r.Range(0, 3))
		}
	case 6: // huge count
		nb := append([]byte{}, b[:4]...)
		nb = append(nb, 0xfe, 0xff, 0xff, 0xff, byte(r.Range(0, 255)))
		b = append(nb, b[5:]...)
	case 7: // pure garbage
		b = r.Bytes(r.Range(0, 60))
		if r.Chance(1, 3) { // one input whose script length exceeds the payload limit
			b = append(r.Bytes(4), 1)
			b = append(b, r.Bytes(36)...)
			b = append(b, 0xfe, byte(r.Range(1, 255)), 0, 0, byte(r.Range(2, 255)))
			b = append(b, r.Bytes(r.Range(0, 20))...)
		}
	default: // untouched
	}
	if len(b) == 0 {
		return "raw _"
	}
	return "raw " + hex.EncodeToString(b)
}

var csEdges = []uint64{0, 1, 0xfb, 0xfc, 0xfd, 0xfe, 0xff, 0x100, 0xfffe, 0xffff, 0x10000, 0x10001,
	0xfffffffe, 0xffffffff, 0x100000000, 0x100000001, 1 << 63, ^uint64(0)}

func genSmall(r *hx.Rng, tier string) string {
	switch r.Intn(12) {
	case 0, 1:
		if r.Chance(1, 2) {
			return fmt.Sprintf("cs %d", hx.Pick(r, csEdges))
		}
		return fmt.Sprintf("cs %d", r.U64()>>uint(r.Intn(64)))
	case 2, 3:
		var b []byte
		switch r.Intn(5) {
		case 0:
			b = []byte{byte(r.Range(0xfd, 0xff))}
			b = append(b, r.Bytes(r.Range(0, 9))...)
		case 1: // non canonical
			b = []byte{0xfd, byte(r.Range(0, 0xfc)), 0}
		case 2:
			b = []byte{0xfe, byte(r.U64()), byte(r.U64()), 0, 0}
		case 3:
			b = append([]byte{0xff}, r.Bytes(4)...)
			b = append(b, 0, 0, 0, 0)
		default:
			b = r.Bytes(r.Range(0, 10))
		}
		return "csraw " + hexs(b)
	case 4, 5:
		return "script " + hexs(r.Bytes(boundaryLen(r, tier)))
	case 6, 7:
		n := boundaryLen(r, "quick")
		s := bitcoin.Script(r.Bytes(n))
		d, _ := s.ToVarLenData()
		switch r.Intn(6) {
		case 0:
			d = append(d, r.Bytes(r.Range(1, 3))...) // trailing
		case 1:
			if len(d) > 0 {
				d = d[:len(d)-1] // short
			}
		case 2:
			d = r.Bytes(r.Range(0, 12))
		case 3:
			d = []byte{0xff, 0xf7 + byte(r.Intn(9)), 0xff, 0xff, 0xff, 0xff, 0xff, 0xff, 0xff} // uint64 wrap of len+9
			d = append(d, r.Bytes(r.Intn(9))...)
		}
		return "varlen " + hexs(d)
	case 8:
		return "hash " + hexs(r.Bytes(32))
	case 9:
		const good = "0123456789abcdefABCDEF"
		const bad = "gxyz-G"
		n := 64
		if r.Chance(1, 3) {
			n = []int{0, 1, 62, 63, 65, 66, 128}[r.Intn(7)]
		}
		var sb strings.Builder
		for i := 0; i < n; i++ {
			if r.Chance(1, 200) {
				sb.WriteByte(bad[r.Intn(len(bad))])
			} else {
				sb.WriteByte(good[r.Intn(len(good))])
			}
		}
		s := sb.String()
		if s == "" {
			s = "_"
		}
		return fmt.Sprintf("hashstr %s %d", s, r.Intn(2))
	case 10:
		return "hdr " + hexs(r.Bytes(80))
	default:
		return fmt.Sprintf("hdrf %d;%s;%s;%d;%d;%d", u32Edge(r), hexs(r.Bytes(32)), hexs(r.Bytes(32)),
			u32Edge(r), u32Edge(r), u32Edge(r))
	}
}

func gen(r *hx.Rng, n int, tier string) []string {
	var ops []string
	if n > 0 {
		for _, v := range csEdges {
			ops = append(ops, fmt.Sprintf("cs %d", v))
		}
	}
	for k := 0; k < n; k++ {
		switch x := r.Intn(10); {
		case x < 5:
			ops = append(ops, genTx(r, tier, r.Chance(1, 40)))
		case x < 7:
			ops = append(ops, genRaw(r, tier))
		default:
			ops = append(ops, genSmall(r, tier))
		}
	}
	return ops
}

// ---- facts: the decode limits of the btcd version /repo builds against ------------------
// Most of them are unexported constants of btcd/wire, so they are measured on the real decoder:
// a length/count prefix is accepted (the decoder then runs out of input: err:eof) exactly up to
// the limit and refused with a limit error above it.

func varint(n uint64) []byte {
	switch {
	case n < 0xfd:
		return []byte{byte(n)}
	case n <= 0xffff:
		return []byte{0xfd, byte(n), byte(n >> 8)}
	case n <= 0xffffffff:
		return []byte{0xfe, byte(n), byte(n >> 8), byte(n >> 16), byte(n >> 24)}
	}
	b := []byte{0xff}
	for i := 0; i < 8; i++ {
		b = append(b, byte(n>>(8*uint(i))))
	}
	return b
}

// largest n in [1, 2^32] for which prefix(n) is not refused with the given limit error class
// (candidates are tried first: two probes instead of a search that allocates a lot)
func probeLimit(prefix func(n uint64) []byte, limitErr string, candidates ...uint64) uint64 {
	ok := func(n uint64) bool { return decode(prefix(n)) != limitErr }
	for _, c := range candidates {
		if !ok(c+1) && ok(c) {
			return c
		}
	}
	lo, hi := uint64(1), uint64(1)<<32 // ok(lo), !ok(hi)
	if !ok(lo) || ok(hi) {
		panic("harness: limit probe out of range for " + limitErr)
	}
	for hi-lo > 1 {
		mid := (lo + hi) / 2
		if ok(mid) {
			lo = mid
		} else {
			hi = mid
		}
	}
	return lo
}

func facts() []string {
	ver := []byte{1, 0, 0, 0}
	input := append(make([]byte, 36), 0, 0xff, 0xff, 0xff, 0xff) // outpoint, empty script, sequence
	cat := func(parts ...[]byte) []byte {
		var b []byte
		for _, p := range parts {
			b = append(b, p...)
		}
		return b
	}
	output := append(make([]byte, 8), 0)
	maxScript := probeLimit(func(n uint64) []byte { return cat(ver, []byte{1}, make([]byte, 36), varint(n)) }, "err:toobig", wire.MaxMessagePayload)
	maxIn := probeLimit(func(n uint64) []byte { return cat(ver, varint(n)) }, "err:toomany", wire.MaxMessagePayload/41+1)
	maxOut := probeLimit(func(n uint64) []byte { return cat(ver, []byte{1}, input, varint(n)) }, "err:toomany", wire.MaxMessagePayload/wire.MinTxOutPayload+1)
	wpre := cat(ver, []byte{0, 1, 1}, input, []byte{1}, output)
	maxWitItems := probeLimit(func(n uint64) []byte { return cat(wpre, varint(n)) }, "err:toomany", 4000000, 500000)
	maxWitSize := probeLimit(func(n uint64) []byte { return cat(wpre, []byte{1}, varint(n)) }, "err:toobig", 4000000, 11000)
	return []string{
		fmt.Sprintf("nat maxScriptSize %d", maxScript),
		fmt.Sprintf("nat maxTxIn %d", maxIn),
		fmt.Sprintf("nat maxTxOut %d", maxOut),
		fmt.Sprintf("nat maxWitnessItems %d", maxWitItems),
		fmt.Sprintf("nat maxWitnessItemSize %d", maxWitSize),
		fmt.Sprintf("nat maxMessagePayload %d", uint64(wire.MaxMessagePayload)),
	}
}

func main() {
	hx.Main(&hx.Config{Prop: "C29", Gen: gen, Exec: exec, Facts: facts})
}
