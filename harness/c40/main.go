// C40: key generation results and inactivity claims satisfy the on-chain rules.
//
// Op lines (one complete case per line):
//
//	dkg <chainIdHex> <startBlock> <submitter> <Xhex> <Yhex> <operating> <misbehaved> <supporters> <ids>
//	inact <chainIdHex> <nonceHex> <Xhex> <Yhex> <inactive> <hb 0|1> <walletIdHex> <supporters> <ids>
//
// operating / misbehaved / inactive: member indexes in the order handed to the client code.
// supporters: comma list, one entry per key of the Go signature map (the harness rejects duplicate
// keys while parsing): `<idx>:r` = real signature made through the client's own Signing().Sign over
// the client's own hash with the key of operator ids[idx-1]; `<idx>:s<len>:<seed>` = synthetic
// signature of <len> bytes, byte j = (7*idx + 13*seed + 3*j) mod 256.
// ids: operator ids of the selected group (uint32), position i = member index i+1.
//
// Observation: every field of the assembled chain result / claim (signatures are canonicalised to
// R<idx> / S<idx> tokens after a byte comparison with the signature that was put into the map),
// the real hash values, and per signature whether the contract's recovery rule
// (OpenZeppelin ECDSA.recover over toEthSignedMessageHash(hash)) yields the address of the operator
// `members[signingMembersIndices[i]-1]`.
package main

import (
	"bytes"
	"crypto/ecdsa"
	"encoding/hex"
	"fmt"
	"math/big"
	"os"
	"path/filepath"
	"regexp"
	"strconv"
	"strings"
	"sync"

	"github.com/ethereum/go-ethereum/common"
	"github.com/ethereum/go-ethereum/crypto"

	"keepverif/harness/hx"

	kchain "github.com/keep-network/keep-core/pkg/chain"
	"github.com/keep-network/keep-core/pkg/chain/ethereum"
	"github.com/keep-network/keep-core/pkg/protocol/group"
	"github.com/keep-network/keep-core/pkg/protocol/inactivity"
	"github.com/keep-network/keep-core/pkg/tbtc"
	"github.com/keep-network/keep-core/pkg/tecdsa/dkg"
)

// ---------------------------------------------------------------------------
// keys

var (
	keyMu    sync.Mutex
	keyCache = map[uint32]*ecdsa.PrivateKey{}
	curveN   = crypto.S256().Params().N
	curveP   = crypto.S256().Params().P
	halfN    = new(big.Int).Rsh(crypto.S256().Params().N, 1)
)

// operatorKey is the (fixed, deterministic) operator key of an operator id.
func operatorKey(id uint32) *ecdsa.PrivateKey {
	keyMu.Lock()
	defer keyMu.Unlock()
	if k, ok := keyCache[id]; ok {
		return k
	}
	d := new(big.Int).SetBytes(crypto.Keccak256([]byte(fmt.Sprintf("verif-c40-operator-%d", id))))
	d.Mod(d, new(big.Int).Sub(curveN, big.NewInt(1)))
	d.Add(d, big.NewInt(1))
	k, err := crypto.ToECDSA(leftPad(d.Bytes(), 32))
	if err != nil {
		panic(err)
	}
	keyCache[id] = k
	return k
}

func leftPad(b []byte, n int) []byte {
	if len(b) >= n {
		return b
	}
	return append(make([]byte, n-len(b)), b...)
}

// contractRecover is OpenZeppelin's `hash.toEthSignedMessageHash().recover(signature)`
// for a 65-byte signature (malleable s and v outside {27,28} are rejected).
func contractRecover(h []byte, sig []byte) (common.Address, bool) {
	if len(sig) != 65 {
		return common.Address{}, false
	}
	v := sig[64]
	if v != 27 && v != 28 {
		return common.Address{}, false
	}
	s := new(big.Int).SetBytes(sig[32:64])
	if s.Cmp(halfN) > 0 {
		return common.Address{}, false
	}
	msg := crypto.Keccak256([]byte("\x19Ethereum Signed Message:\n32"), h)
	cp := append([]byte{}, sig...)
	cp[64] -= 27
	pub, err := crypto.SigToPub(msg, cp)
	if err != nil {
		return common.Address{}, false
	}
	return crypto.PubkeyToAddress(*pub), true
}

// ---------------------------------------------------------------------------
// parsing helpers

func parseHexBig(s string) *big.Int {
	v, ok := new(big.Int).SetString(s, 16)
	if !ok {
		panic("harness: bad hex " + s)
	}
	return v
}

func parseIdx(s string) []group.MemberIndex {
	var out []group.MemberIndex
	for _, t := range hx.SplitList(s) {
		v, err := strconv.ParseUint(t, 10, 8)
		if err != nil {
			panic("harness: bad member index " + t)
		}
		out = append(out, group.MemberIndex(v))
	}
	return out
}

func parseIDs(s string) kchain.OperatorIDs {
	var out kchain.OperatorIDs
	for _, t := range hx.SplitList(s) {
		v, err := strconv.ParseUint(t, 10, 32)
		if err != nil {
			panic("harness: bad operator id " + t)
		}
		out = append(out, uint32(v))
	}
	return out
}

type supporter struct {
	idx  group.MemberIndex
	real bool
	ln   int
	seed int
}

func parseSupporters(s string) []supporter {
	var out []supporter
	seen := map[group.MemberIndex]bool{}
	for _, t := range hx.SplitList(s) {
		p := strings.Split(t, ":")
		if len(p) < 2 {
			panic("harness: bad supporter " + t)
		}
		v, err := strconv.ParseUint(p[0], 10, 8)
		if err != nil {
			panic("harness: bad supporter index " + t)
		}
		sp := supporter{idx: group.MemberIndex(v)}
		if seen[sp.idx] {
			panic("harness: duplicate supporter (a Go map has unique keys) " + t)
		}
		seen[sp.idx] = true
		if p[1] == "r" && len(p) == 2 {
			sp.real = true
		} else if len(p) == 3 && strings.HasPrefix(p[1], "s") {
			sp.ln = hx.Atoi(p[1][1:])
			sp.seed = hx.Atoi(p[2])
		} else {
			panic("harness: bad supporter " + t)
		}
		out = append(out, sp)
	}
	return out
}

func synthSig(idx group.MemberIndex, ln, seed int) []byte {
	b := make([]byte, ln)
	for j := range b {
		b[j] = byte((7*int(idx) + 13*seed + 3*j) % 256)
	}
	return b
}

func cpIdx(xs []group.MemberIndex) []group.MemberIndex {
	return append([]group.MemberIndex(nil), xs...)
}

var sigSizeRe = regexp.MustCompile(`invalid signature size for member \[(\d+)\] got \[(\d+)\] bytes`)

func errClass(err error) string {
	m := err.Error()
	if g := sigSizeRe.FindStringSubmatch(m); g != nil {
		return "err:sigsize:" + g[1] + ":" + g[2]
	}
	switch {
	case strings.Contains(m, "public key"):
		return "err:key"
	case strings.Contains(m, "members hash"):
		return "err:membershash"
	}
	return "err:other"
}

// buildSignatures makes the supporter map; real signatures go through the client's signer.
func buildSignatures(
	sups []supporter, ids kchain.OperatorIDs, chainID *big.Int, hash []byte,
) (map[group.MemberIndex][]byte, map[group.MemberIndex]string) {
	sigs := map[group.MemberIndex][]byte{}
	names := map[group.MemberIndex]string{}
	for _, sp := range sups {
		if sp.real {
			var id uint32
			if int(sp.idx) >= 1 && int(sp.idx) <= len(ids) {
				id = ids[sp.idx-1]
			}
			member := ethereum.VerifNewTbtcChain(chainID, operatorKey(id))
			sig, err := member.Signing().Sign(hash)
			if err != nil {
				panic(err)
			}
			sigs[sp.idx] = sig
			names[sp.idx] = fmt.Sprintf("R%d", sp.idx)
		} else {
			sigs[sp.idx] = synthSig(sp.idx, sp.ln, sp.seed)
			names[sp.idx] = fmt.Sprintf("S%d", sp.idx)
		}
	}
	return sigs, names
}

// describeSignatures canonicalises the concatenated signature bytes and evaluates the
// contract's recovery rule for each chunk.
func describeSignatures(
	concat []byte, signers []group.MemberIndex, sigs map[group.MemberIndex][]byte,
	names map[group.MemberIndex]string, members kchain.OperatorIDs, hash []byte,
) (string, string) {
	if len(concat)%65 != 0 || len(concat)/65 != len(signers) {
		return "raw:" + hexOrDash(concat), "-"
	}
	var toks, rec []string
	for i, idx := range signers {
		chunk := concat[65*i : 65*i+65]
		if orig, ok := sigs[idx]; ok && bytes.Equal(orig, chunk) {
			toks = append(toks, names[idx])
		} else {
			toks = append(toks, "x"+hex.EncodeToString(chunk))
		}
		r := "0"
		if int(idx) >= 1 && int(idx) <= len(members) {
			want := crypto.PubkeyToAddress(operatorKey(members[idx-1]).PublicKey)
			if got, ok := contractRecover(hash, chunk); ok && got == want {
				r = "1"
			}
		}
		rec = append(rec, r)
	}
	return hx.JoinStrs(toks), hx.JoinStrs(rec)
}

func hexOrDash(b []byte) string {
	if len(b) == 0 {
		return "-"
	}
	return hex.EncodeToString(b)
}

func isSortedIdx(xs []group.MemberIndex) bool {
	for i := 1; i < len(xs); i++ {
		if xs[i-1] > xs[i] {
			return false
		}
	}
	return true
}

// ---------------------------------------------------------------------------
// exec

func exec(op string) (string, string) {
	f := strings.Fields(op)
	if len(f) == 0 {
		return "bad-op", "bad"
	}
	switch f[0] {
	case "dkg":
		if len(f) != 10 {
			return "bad-op", "bad"
		}
		return execDkg(f)
	case "dkgr":
		if len(f) != 9 {
			return "bad-op", "bad"
		}
		return execDkgR(f)
	case "inact":
		if len(f) != 10 {
			return "bad-op", "bad"
		}
		return execInact(f)
	}
	return "bad-op", "bad"
}

func keyTags(x, y *big.Int) []string {
	if len(x.Bytes()) < 32 || len(y.Bytes()) < 32 {
		return []string{"padkey"}
	}
	return nil
}

func execDkg(f []string) (string, string) {
	operating, misbehaved := parseIdx(f[6]), parseIdx(f[7])
	return runDkg("dkg", f[1], f[2], f[3], f[4], f[5],
		func() []group.MemberIndex { return cpIdx(operating) },
		func() []group.MemberIndex { return cpIdx(misbehaved) },
		f[8], f[9], nil)
}

// execDkgR derives the operating / misbehaved lists the way the client does: from a dkg.Result
// whose group had members marked inactive (`i<idx>`) and disqualified (`d<idx>`) in the given
// order — exactly what dkgResultSigner.SignResult and dkgResultSubmitter.SubmitResult pass on
// (result.MisbehavedMembersIndexes(), result.Group.OperatingMemberIndexes()).
//
//	dkgr <chainIdHex> <startBlock> <submitter> <Xhex> <Yhex> <marks> <supporters> <ids>
func execDkgR(f []string) (string, string) {
	ids := parseIDs(f[8])
	g := group.NewGroup(0, len(ids))
	var extra []string
	anyIA, anyDQ := false, false
	for _, m := range hx.SplitList(f[6]) {
		if len(m) < 2 {
			panic("harness: bad mark " + m)
		}
		v, err := strconv.ParseUint(m[1:], 10, 8)
		if err != nil {
			panic("harness: bad mark " + m)
		}
		before := len(g.OperatingMemberIndexes())
		switch m[0] {
		case 'i':
			g.MarkMemberAsInactive(group.MemberIndex(v))
			if len(g.OperatingMemberIndexes()) < before {
				anyIA = true
			}
		case 'd':
			g.MarkMemberAsDisqualified(group.MemberIndex(v))
			if len(g.OperatingMemberIndexes()) < before {
				anyDQ = true
			}
		default:
			panic("harness: bad mark " + m)
		}
	}
	if anyIA {
		extra = append(extra, "ia")
	}
	if anyDQ {
		extra = append(extra, "dq")
	}
	result := &dkg.Result{Group: g}
	return runDkg("dkgr", f[1], f[2], f[3], f[4], f[5],
		func() []group.MemberIndex { return result.Group.OperatingMemberIndexes() },
		func() []group.MemberIndex { return result.MisbehavedMembersIndexes() },
		f[7], f[8], extra)
}

func runDkg(
	kind, fChain, fStart, fSub, fX, fY string,
	operatingFn, misbehavedFn func() []group.MemberIndex,
	fSups, fIDs string, extraTags []string,
) (string, string) {
	chainID := parseHexBig(fChain)
	startBlock := hx.AtoU64(fStart)
	submitter := group.MemberIndex(hx.Atoi(fSub))
	x, y := parseHexBig(fX), parseHexBig(fY)
	operating, misbehaved := operatingFn(), misbehavedFn()
	sups := parseSupporters(fSups)
	ids := parseIDs(fIDs)

	tags := append([]string{}, extraTags...)
	tags = append(tags, keyTags(x, y)...)
	if len(misbehaved) == 0 {
		tags = append(tags, "mis0")
	} else if len(misbehaved) == 1 {
		tags = append(tags, "mis1")
	} else {
		tags = append(tags, "misN")
	}
	if !isSortedIdx(operating) || !isSortedIdx(misbehaved) {
		tags = append(tags, "unsorted")
	}
	if startBlock >= 1<<63 {
		tags = append(tags, "bigblock")
	}

	pub := &ecdsa.PublicKey{Curve: crypto.S256(), X: x, Y: y}
	tc := ethereum.VerifNewTbtcChain(chainID, operatorKey(0))

	hash, err := tc.CalculateDKGResultSignatureHash(pub, misbehavedFn(), startBlock)
	if err != nil {
		return "err:hash", "errhash"
	}
	sigs, names := buildSignatures(sups, ids, chainID, hash[:])
	allReal, anyReal, all65 := true, false, true
	for _, sp := range sups {
		if sp.real {
			anyReal = true
		} else {
			allReal = false
			if sp.ln != 65 {
				all65 = false
			}
		}
	}
	if anyReal {
		tags = append(tags, "real")
	}
	if allReal && len(sups) > 0 {
		tags = append(tags, "allreal")
	}
	if !all65 {
		tags = append(tags, "badsig")
	}

	wid, err := tc.CalculateWalletID(pub)
	if err != nil {
		return errClass(err), "errwid"
	}

	res, err := tc.AssembleDKGResult(
		submitter, pub, operatingFn(), misbehavedFn(), sigs,
		&tbtc.GroupSelectionResult{OperatorsIDs: ids},
	)
	if err != nil {
		return errClass(err), strings.Join(append(append([]string{kind}, tags...), "err"), "+")
	}
	sigTok, rec := describeSignatures(res.Signatures, res.SigningMembersIndexes, sigs, names, res.Members, hash[:])
	obs := fmt.Sprintf("ok sub=%d key=%s mis=%s signers=%s sigs=%s members=%s mh=%s h=%s rec=%s wid=%s",
		res.SubmitterMemberIndex, hexOrDash(res.GroupPublicKey), hx.JoinInts(res.MisbehavedMembersIndexes),
		hx.JoinInts(res.SigningMembersIndexes), sigTok, hx.JoinInts(res.Members),
		hex.EncodeToString(res.MembersHash[:]), hex.EncodeToString(hash[:]), rec, hex.EncodeToString(wid[:]))
	// "quorum": the case is inside the property's domain and large enough for the contract
	if len(ids) == 100 && len(misbehaved) <= 10 && len(sups) >= 51 && len(sups) <= 100 && all65 &&
		len(operating)+len(misbehaved) == len(ids) {
		tags = append(tags, "quorum")
	} else {
		tags = append(tags, "offquorum")
	}
	return obs, strings.Join(append([]string{kind}, tags...), "+")
}

func execInact(f []string) (string, string) {
	chainID := parseHexBig(f[1])
	nonce := parseHexBig(f[2])
	x, y := parseHexBig(f[3]), parseHexBig(f[4])
	inactive := parseIdx(f[5])
	hb := f[6] == "1"
	widBytes, err := hex.DecodeString(f[7])
	if err != nil || len(widBytes) != 32 {
		return "bad-op", "bad"
	}
	var walletID [32]byte
	copy(walletID[:], widBytes)
	sups := parseSupporters(f[8])
	ids := parseIDs(f[9])

	tags := []string{"inact"}
	tags = append(tags, keyTags(x, y)...)
	if !isSortedIdx(inactive) {
		tags = append(tags, "unsorted")
	}
	seen := map[group.MemberIndex]bool{}
	for _, i := range inactive {
		if seen[i] {
			tags = append(tags, "dupinactive")
			break
		}
		seen[i] = true
	}
	if hb {
		tags = append(tags, "hb")
	}

	pub := &ecdsa.PublicKey{Curve: crypto.S256(), X: x, Y: y}
	tc := ethereum.VerifNewTbtcChain(chainID, operatorKey(0))
	claim := inactivity.NewClaimPreimage(nonce, pub, cpIdx(inactive), hb)
	hash, err := tc.CalculateInactivityClaimHash(claim)
	if err != nil {
		return "err:hash", "errhash"
	}
	sigs, names := buildSignatures(sups, ids, chainID, hash[:])
	anyReal := false
	for _, sp := range sups {
		if sp.real {
			anyReal = true
		} else if sp.ln != 65 {
			tags = append(tags, "badsig")
			break
		}
	}
	if anyReal {
		tags = append(tags, "real")
	}
	cc, err := tc.AssembleInactivityClaim(walletID, claim.InactiveMembersIndexes, sigs, hb)
	if err != nil {
		return errClass(err), strings.Join(append(tags, "err"), "+")
	}
	sigTok, rec := describeSignatures(cc.Signatures, cc.SigningMembersIndices, sigs, names, ids, hash[:])
	hbs := "0"
	if cc.HeartbeatFailed {
		hbs = "1"
	}
	obs := fmt.Sprintf("ok wid=%s inactive=%s hb=%s signers=%s sigs=%s h=%s rec=%s",
		hex.EncodeToString(cc.WalletID[:]), hx.JoinInts(cc.InactiveMembersIndices), hbs,
		hx.JoinInts(cc.SigningMembersIndices), sigTok, hex.EncodeToString(hash[:]), rec)
	return obs, strings.Join(tags, "+")
}

// ---------------------------------------------------------------------------
// generator

type keyPoint struct{ x, y *big.Int }

// special points: tiny x, and (searched) y with a leading zero byte.
func specialPoints() []keyPoint {
	var out []keyPoint
	exp := new(big.Int).Add(curveP, big.NewInt(1))
	exp.Rsh(exp, 2)
	try := func(x *big.Int) *big.Int {
		r := new(big.Int).Exp(x, big.NewInt(3), curveP)
		r.Add(r, big.NewInt(7)).Mod(r, curveP)
		y := new(big.Int).Exp(r, exp, curveP)
		if new(big.Int).Exp(y, big.NewInt(2), curveP).Cmp(r) != 0 {
			return nil
		}
		return y
	}
	for x := int64(1); len(out) < 3; x++ {
		if y := try(big.NewInt(x)); y != nil {
			out = append(out, keyPoint{big.NewInt(x), y})
		}
	}
	// y with leading zero byte(s): deterministic scan
	seed := new(big.Int).SetBytes(crypto.Keccak256([]byte("verif-c40-smally")))
	found := 0
	for i := 0; i < 20000 && found < 2; i++ {
		x := new(big.Int).Add(seed, big.NewInt(int64(i)))
		x.Mod(x, curveP)
		y := try(x)
		if y == nil {
			continue
		}
		if len(y.Bytes()) < 32 {
			out = append(out, keyPoint{x, y})
			found++
			continue
		}
		ny := new(big.Int).Sub(curveP, y)
		if len(ny.Bytes()) < 32 {
			out = append(out, keyPoint{x, ny})
			found++
		}
	}
	return out
}

func genKey(r *hx.Rng, specials []keyPoint) (string, string) {
	if r.Chance(1, 6) {
		p := hx.Pick(r, specials)
		return p.x.Text(16), p.y.Text(16)
	}
	d := new(big.Int).SetBytes(r.Bytes(32))
	d.Mod(d, new(big.Int).Sub(curveN, big.NewInt(1))).Add(d, big.NewInt(1))
	x, y := crypto.S256().ScalarBaseMult(leftPad(d.Bytes(), 32))
	return x.Text(16), y.Text(16)
}

func genChainID(r *hx.Rng) string {
	switch r.Intn(8) {
	case 0:
		return "1"
	case 1:
		return big.NewInt(31337).Text(16)
	case 2:
		return big.NewInt(11155111).Text(16)
	case 3:
		return "0"
	case 4:
		return new(big.Int).Sub(new(big.Int).Lsh(big.NewInt(1), 256), big.NewInt(1)).Text(16)
	case 5:
		return new(big.Int).SetBytes(r.Bytes(32)).Text(16)
	default:
		return new(big.Int).SetUint64(r.U64() >> uint(r.Intn(60))).Text(16)
	}
}

func genIDs(r *hx.Rng, n int) []uint32 {
	ids := make([]uint32, n)
	pool := 0
	if r.Chance(1, 4) {
		pool = r.Range(1, 20) // operators holding several seats
	}
	for i := range ids {
		switch {
		case pool > 0:
			ids[i] = uint32(1 + r.Intn(pool))
		case r.Chance(1, 50):
			ids[i] = 0xFFFFFFFF
		case r.Chance(1, 50):
			ids[i] = 0
		default:
			ids[i] = uint32(r.U64() >> uint(r.Intn(33)+32))
		}
	}
	return ids
}

func shuffleIdx(r *hx.Rng, xs []int) []int {
	p := r.Perm(len(xs))
	out := make([]int, len(xs))
	for i, j := range p {
		out[i] = xs[j]
	}
	return out
}

// genSupporters chooses `cnt` distinct member indexes from cand (falls back to 1..n).
func genSupporters(r *hx.Rng, cand []int, n, cnt int, tier string) string {
	pool := append([]int(nil), cand...)
	if len(pool) < cnt {
		pool = nil
		for i := 1; i <= n; i++ {
			pool = append(pool, i)
		}
	}
	pool = shuffleIdx(r, pool)
	if cnt > len(pool) {
		cnt = len(pool)
	}
	pool = pool[:cnt]
	mode := r.Intn(10) // 0-2 all real, 3-5 mixed, 6-8 synthetic, 9 synthetic with a bad length
	var toks []string
	badAt := -1
	if mode == 9 && cnt > 0 {
		badAt = r.Intn(cnt)
		if r.Chance(1, 3) {
			badAt = -2 // several bad
		}
	}
	for i, idx := range pool {
		real := mode <= 2 || (mode <= 5 && r.Bool())
		if real {
			toks = append(toks, fmt.Sprintf("%d:r", idx))
			continue
		}
		ln := 65
		if i == badAt || (badAt == -2 && r.Chance(1, 4)) {
			ln = hx.Pick(r, []int{0, 1, 64, 66, 130})
		}
		toks = append(toks, fmt.Sprintf("%d:s%d:%d", idx, ln, r.Intn(1000)))
	}
	return hx.JoinStrs(toks)
}

func intsToStr(xs []int) string { return hx.JoinInts(xs) }

func gen(r *hx.Rng, n int, tier string) []string {
	specials := specialPoints()
	var ops []string
	for i := 0; i < n; i++ {
		if i%4 == 3 {
			ops = append(ops, genInact(r, specials, tier))
		} else if i%4 == 1 {
			ops = append(ops, genDkgR(r, specials, tier))
		} else {
			ops = append(ops, genDkg(r, specials, tier))
		}
	}
	return ops
}

func genDkg(r *hx.Rng, specials []keyPoint, tier string) string {
	N := 100
	if r.Chance(3, 10) {
		N = r.Range(1, 110)
	}
	k := 0
	switch c := r.Intn(20); {
	case c < 5:
		k = 0
	case c < 8:
		k = 1
	case c < 16:
		k = r.Range(2, 10)
	default:
		k = r.Range(11, 60)
	}
	if k > N-1 {
		k = N - 1
	}
	perm := r.Perm(N)
	var mis, opr []int
	for i, p := range perm {
		if i < k {
			mis = append(mis, p+1)
		} else {
			opr = append(opr, p+1)
		}
	}
	if r.Bool() {
		opr = hx.SortedCopy(opr)
	}
	if r.Bool() {
		mis = hx.SortedCopy(mis)
	}
	supCand := opr
	// malformed stream (5%)
	if r.Chance(1, 20) {
		switch r.Intn(5) {
		case 0: // an operating member is missing
			if len(opr) > 1 {
				opr = opr[1:]
			}
		case 1: // overlap
			if len(mis) > 0 {
				opr = append(opr, mis[0])
			}
		case 2: // duplicate misbehaved
			if len(mis) > 0 {
				mis = append(mis, mis[r.Intn(len(mis))])
			}
		case 3: // index 0 among the operating members (uint8 wrap in the client)
			opr = append(opr, 0)
		case 4: // index beyond the group
			opr = append(opr, N+1+r.Intn(3))
		}
	}
	cnt := r.Range(51, 100)
	switch c := r.Intn(10); {
	case c == 0:
		cnt = r.Range(0, 50)
	case c == 1:
		cnt = 51
	case c == 2:
		cnt = 100
	}
	if tier == "quick" && cnt > 70 && r.Chance(2, 3) {
		cnt = r.Range(51, 70)
	}
	sups := genSupporters(r, supCand, N, cnt, tier)
	var start uint64
	switch r.Intn(10) {
	case 0:
		start = 0
	case 1:
		start = 1<<63 - 1
	case 2:
		start = hx.Pick(r, []uint64{1 << 63, 1<<64 - 1, 1<<63 + 12345})
	default:
		start = r.U64() >> uint(24+r.Intn(30))
	}
	x, y := genKey(r, specials)
	ids := genIDs(r, N)
	return fmt.Sprintf("dkg %s %d %d %s %s %s %s %s %s", genChainID(r), start, r.Range(1, N), x, y,
		intsToStr(opr), intsToStr(mis), sups, hx.JoinInts(ids))
}

// genDkgR: a DKG result whose group was marked inactive / disqualified in some order (with
// repeated and conflicting marks, which the group ignores).
func genDkgR(r *hx.Rng, specials []keyPoint, tier string) string {
	N := 100
	if r.Chance(1, 5) {
		N = r.Range(1, 110)
	}
	k := 0
	switch c := r.Intn(10); {
	case c < 1:
		k = 0
	case c < 8:
		k = r.Range(1, 10)
	default:
		k = r.Range(11, 40)
	}
	if k > N-1 {
		k = N - 1
	}
	perm := r.Perm(N)
	var marks []string
	marked := map[int]bool{}
	mode := r.Intn(4) // 0 inactive only, 1 disqualified only, 2/3 mixed
	for i := 0; i < k; i++ {
		idx := perm[i] + 1
		dq := mode == 1 || (mode >= 2 && r.Bool())
		if dq {
			marks = append(marks, fmt.Sprintf("d%d", idx))
		} else {
			marks = append(marks, fmt.Sprintf("i%d", idx))
		}
		marked[idx] = true
		if r.Chance(1, 6) { // a second, ignored, mark of an already marked member
			marks = append(marks, fmt.Sprintf("%c%d", hx.Pick(r, []byte{'i', 'd'}), perm[r.Intn(i+1)]+1))
		}
		if r.Chance(1, 30) { // a mark outside the group
			marks = append(marks, fmt.Sprintf("%c%d", hx.Pick(r, []byte{'i', 'd'}), hx.Pick(r, []int{0, N + 1, 255})))
		}
	}
	var cand []int
	for i := 1; i <= N; i++ {
		if !marked[i] {
			cand = append(cand, i)
		}
	}
	cnt := r.Range(51, 100)
	if r.Chance(1, 10) {
		cnt = r.Range(0, 50)
	}
	if tier == "quick" && cnt > 70 && r.Chance(2, 3) {
		cnt = r.Range(51, 70)
	}
	sups := genSupporters(r, cand, N, cnt, tier)
	x, y := genKey(r, specials)
	return fmt.Sprintf("dkgr %s %d %d %s %s %s %s %s", genChainID(r), r.U64()>>uint(24+r.Intn(30)), r.Range(1, N),
		x, y, hx.JoinStrs(marks), sups, hx.JoinInts(genIDs(r, N)))
}

func genInact(r *hx.Rng, specials []keyPoint, tier string) string {
	N := r.Range(51, 100)
	if r.Chance(1, 10) {
		N = r.Range(1, 60)
	}
	k := r.Range(1, 10)
	if r.Chance(1, 8) {
		k = 0
	}
	if r.Chance(1, 8) {
		k = r.Range(10, N)
	}
	if k > N {
		k = N
	}
	perm := r.Perm(N)
	var inactive []int
	for i := 0; i < k; i++ {
		inactive = append(inactive, perm[i]+1)
	}
	if r.Chance(1, 3) && len(inactive) > 0 { // duplicates
		for j := r.Range(1, 3); j > 0; j-- {
			inactive = append(inactive, inactive[r.Intn(len(inactive))])
		}
		inactive = shuffleIdx(r, inactive)
	}
	if r.Chance(1, 3) {
		inactive = hx.SortedCopy(inactive)
	}
	var cand []int
	for i := k; i < N; i++ {
		cand = append(cand, perm[i]+1)
	}
	cnt := r.Range(51, N+1)
	if r.Chance(1, 8) {
		cnt = r.Range(0, 50)
	}
	if tier == "quick" && cnt > 70 {
		cnt = r.Range(51, 70)
	}
	sups := genSupporters(r, cand, N, cnt, tier)
	var nonce string
	switch r.Intn(5) {
	case 0:
		nonce = "0"
	case 1:
		nonce = new(big.Int).SetBytes(r.Bytes(32)).Text(16)
	default:
		nonce = big.NewInt(int64(r.Intn(1000))).Text(16)
	}
	x, y := genKey(r, specials)
	hb := 0
	if r.Bool() {
		hb = 1
	}
	return fmt.Sprintf("inact %s %s %s %s %s %d %s %s %s", genChainID(r), nonce, x, y,
		intsToStr(inactive), hb, hex.EncodeToString(r.Bytes(32)), sups, hx.JoinInts(genIDs(r, N)))
}

// ---------------------------------------------------------------------------
// facts: textual extraction from the Solidity contracts and from tbtc.go

func repoRoot() string {
	if v := os.Getenv("VERIF_REPO"); v != "" {
		return v
	}
	return "/repo"
}

func mustRead(rel string) string {
	b, err := os.ReadFile(filepath.Join(repoRoot(), rel))
	if err != nil {
		panic(err)
	}
	return string(b)
}

var (
	reBlockComment = regexp.MustCompile(`(?s)/\*.*?\*/`)
	reLineComment  = regexp.MustCompile(`//[^\n]*`)
	reWs           = regexp.MustCompile(`\s+`)
)

func stripComments(src string) string {
	return reLineComment.ReplaceAllString(reBlockComment.ReplaceAllString(src, ""), "")
}

// funcText returns the text of `function <name>(` … up to its closing brace.
func funcText(src, header string) string {
	i := strings.Index(src, header)
	if i < 0 {
		panic("facts: not found: " + header)
	}
	j := strings.Index(src[i:], "{")
	if j < 0 {
		panic("facts: no body: " + header)
	}
	depth := 0
	for k := i + j; k < len(src); k++ {
		switch src[k] {
		case '{':
			depth++
		case '}':
			depth--
			if depth == 0 {
				return src[i : k+1]
			}
		}
	}
	panic("facts: unbalanced: " + header)
}

// statements: the function text cut at ; { } with whitespace collapsed.
func statements(fn string) []string {
	fn = reWs.ReplaceAllString(fn, " ")
	var out []string
	cur := strings.Builder{}
	depthParen := 0
	for _, c := range fn {
		switch c {
		case '(':
			depthParen++
		case ')':
			depthParen--
		}
		if (c == ';' || c == '{' || c == '}') && depthParen == 0 {
			s := strings.TrimSpace(cur.String())
			if s != "" {
				out = append(out, s)
			}
			cur.Reset()
			continue
		}
		cur.WriteRune(c)
	}
	if s := strings.TrimSpace(cur.String()); s != "" {
		out = append(out, s)
	}
	return out
}

func leanStrList(name string, xs []string) string {
	q := make([]string, len(xs))
	for i, x := range xs {
		q[i] = strconv.Quote(x)
	}
	return fmt.Sprintf("raw def %s : List String := [%s]", name, strings.Join(q, ", "))
}

var reAbiEncode = regexp.MustCompile(`abi\.encode\(([^()]*)\)`)

func abiEncodeArgs(fn string, nth int) []string {
	m := reAbiEncode.FindAllStringSubmatch(fn, -1)
	if nth >= len(m) {
		panic("facts: abi.encode occurrence missing")
	}
	var out []string
	for _, a := range strings.Split(m[nth][1], ",") {
		out = append(out, strings.TrimSpace(a))
	}
	return out
}

// structFields parses `struct <name> { type field; ... }`.
func structFields(src, name string) map[string]string {
	txt := funcText(src, "struct "+name+" ")
	out := map[string]string{}
	for _, st := range statements(txt)[1:] {
		p := strings.Fields(st)
		if len(p) == 2 {
			out[p[1]] = p[0]
		}
	}
	return out
}

func solType(arg, fn string, structs map[string]map[string]string) string {
	if arg == "block.chainid" {
		return "uint256"
	}
	if i := strings.Index(arg, "."); i > 0 {
		if s, ok := structs[arg[:i]]; ok {
			if t, ok := s[arg[i+1:]]; ok {
				return t
			}
		}
		return "?" + arg
	}
	re := regexp.MustCompile(`([A-Za-z0-9]+(?:\[\])?)\s+(?:calldata\s+|memory\s+|storage\s+)?` + regexp.QuoteMeta(arg) + `\b`)
	if m := re.FindStringSubmatch(fn); m != nil {
		return m[1]
	}
	return "?" + arg
}

var (
	reNewType  = regexp.MustCompile(`(\w+), err := abi\.NewType\("([^"]+)"`)
	reArgType  = regexp.MustCompile(`\{Type: (\w+)\}`)
	rePackArgs = regexp.MustCompile(`(?s)\.Pack\(([^()]*)\)`)
	reSolConst = regexp.MustCompile(`uint256 public constant (\w+) = (\d+);`)
)

func goFuncText(src, name string) string { return funcText(src, "func "+name+"(") }

func goAbiTypes(fn string) ([]string, []string) {
	vars := map[string]string{}
	for _, m := range reNewType.FindAllStringSubmatch(fn, -1) {
		vars[m[1]] = m[2]
	}
	var types []string
	for _, m := range reArgType.FindAllStringSubmatch(fn, -1) {
		types = append(types, vars[m[1]])
	}
	var args []string
	if m := rePackArgs.FindStringSubmatch(fn); m != nil {
		for _, a := range strings.Split(m[1], ",") {
			if a = strings.TrimSpace(a); a != "" {
				args = append(args, a)
			}
		}
	}
	return types, args
}

var (
	reForHeader = regexp.MustCompile(`for \([^)]*\)`)
	reStrLit    = regexp.MustCompile(`"[^"]*"`)
	reCmpOp     = regexp.MustCompile(`<=|>=|==|!=|<|>`)
)

// cmpOpFacts: every comparison operator of the `if (...)` / `require(...)` conditions of a
// Solidity function, in textual order (loop headers and string literals removed), as Lean
// functions `<prefix>Op<k>`; the hand model's comparisons are these generated functions.
func cmpOpFacts(prefix, fn string) []string {
	body := fn[strings.Index(fn, "{"):]
	body = reStrLit.ReplaceAllString(reForHeader.ReplaceAllString(body, ""), "")
	lean := map[string]string{"<": "<", ">": ">", "<=": "≤", ">=": "≥", "==": "=", "!=": "≠"}
	var out []string
	ops := reCmpOp.FindAllString(body, -1)
	for k, op := range ops {
		out = append(out, fmt.Sprintf("raw def %sOp%d (a b : Nat) : Bool := decide (a %s b)", prefix, k, lean[op]))
	}
	out = append(out, fmt.Sprintf("nat %sOpCount %d", prefix, len(ops)))
	return out
}

func facts() []string {
	var out []string
	val := stripComments(mustRead("solidity/ecdsa/contracts/EcdsaDkgValidator.sol"))
	dkg := stripComments(mustRead("solidity/ecdsa/contracts/libraries/EcdsaDkg.sol"))
	ina := stripComments(mustRead("solidity/ecdsa/contracts/libraries/EcdsaInactivity.sol"))
	wal := stripComments(mustRead("solidity/ecdsa/contracts/libraries/Wallets.sol"))
	gosrc := mustRead("pkg/chain/ethereum/tbtc.go")

	for _, m := range reSolConst.FindAllStringSubmatch(val, -1) {
		out = append(out, fmt.Sprintf("nat %s %s", m[1], m[2]))
	}
	for _, m := range reSolConst.FindAllStringSubmatch(ina, -1) {
		out = append(out, fmt.Sprintf("nat inact_%s %s", m[1], m[2]))
	}
	structs := map[string]map[string]string{
		"result": structFields(dkg, "Result"),
		"claim":  structFields(ina, "Claim"),
	}
	typed := func(fn string, args []string) []string {
		var ts []string
		for _, a := range args {
			ts = append(ts, solType(a, fn, structs))
		}
		return ts
	}
	vf := funcText(val, "function validateFields(")
	vs := funcText(val, "function validateSignatures(")
	vm := funcText(val, "function validateMembersHash(")
	vc := funcText(ina, "function verifyClaim(")
	vi := funcText(ina, "function validateMembersIndices(")
	aw := funcText(wal, "function addWallet(")
	vp := funcText(wal, "function validatePublicKey(")

	out = append(out, leanStrList("solValidateFields", statements(vf)))
	out = append(out, leanStrList("solValidateMembersHash", statements(vm)))
	out = append(out, leanStrList("solValidateSignatures", statements(vs)))
	out = append(out, leanStrList("solVerifyClaim", statements(vc)))
	out = append(out, leanStrList("solValidateMembersIndices", statements(vi)))
	out = append(out, leanStrList("solAddWallet", statements(aw)))
	out = append(out, leanStrList("solValidatePublicKey", statements(vp)))

	out = append(out, cmpOpFacts("vf", vf)...)
	out = append(out, cmpOpFacts("vc", vc)...)
	out = append(out, cmpOpFacts("vi", vi)...)

	a := abiEncodeArgs(vs, 0)
	out = append(out, "strlist solDkgSigArgs "+hx.JoinStrs(a), "strlist solDkgSigTypes "+hx.JoinStrs(typed(vs, a)))
	a = abiEncodeArgs(vm, 0)
	out = append(out, "strlist solMembersHashArgs0 "+hx.JoinStrs(a), "strlist solMembersHashTypes0 "+hx.JoinStrs(typed(vm, a)))
	a = abiEncodeArgs(vm, 1)
	out = append(out, "strlist solMembersHashArgs1 "+hx.JoinStrs(a), "strlist solMembersHashTypes1 "+hx.JoinStrs(typed(vm, a)))
	a = abiEncodeArgs(vc, 0)
	out = append(out, "strlist solInactArgs "+hx.JoinStrs(a), "strlist solInactTypes "+hx.JoinStrs(typed(vc, a)))

	t, p := goAbiTypes(goFuncText(gosrc, "calculateDKGResultSignatureHash"))
	out = append(out, "strlist goDkgSigTypes "+hx.JoinStrs(t), "strlist goDkgSigArgs "+hx.JoinStrs(p))
	t, p = goAbiTypes(goFuncText(gosrc, "calculateInactivityClaimHash"))
	out = append(out, "strlist goInactTypes "+hx.JoinStrs(t), "strlist goInactArgs "+hx.JoinStrs(p))
	t, p = goAbiTypes(goFuncText(gosrc, "computeOperatorsIDsHash"))
	out = append(out, "strlist goMembersHashTypes "+hx.JoinStrs(t), "strlist goMembersHashArgs "+hx.JoinStrs(p))
	goConst := func(fn, re, name string) {
		m := regexp.MustCompile(re).FindStringSubmatch(goFuncText(gosrc, fn))
		if m == nil {
			panic("facts: constant not found: " + name)
		}
		out = append(out, fmt.Sprintf("nat %s %s", name, m[1]))
	}
	goConst("convertSignaturesToChainFormat", `signatureSize := (\d+)`, "goSignatureSize")
	goConst("calculateDKGResultSignatureHash", `publicKeySize := (\d+)`, "goPublicKeySize")
	goConst("calculateInactivityClaimHash", `publicKeySize := (\d+)`, "goInactPublicKeySize")
	return out
}

func main() {
	hx.Main(&hx.Config{
		Prop:  "C40",
		Gen:   gen,
		Exec:  exec,
		Facts: facts,
	})
}
