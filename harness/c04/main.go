// C04: BN254 point compression round-trips, hashing to G1 lands on the curve, and
// decompression of any well-sized byte string terminates with a point or an error.
//
// Op lines (one complete case each; all values lower-case hex, fixed width):
//
//	g1 <128 hex: marshalled G1 point x||y>      compress, then decompress the result
//	g2 <256 hex: marshalled G2 point>           compress, then decompress the result
//	d1 <64 hex>                                 DecompressToG1 on arbitrary 32 bytes
//	d2 <128 hex>                                DecompressToG2 on arbitrary 64 bytes
//	hash <msg hex|-> <64 hex: sha256(msg)>      G1HashToPoint(msg), called twice
//	fmul <4 x 64 hex>                           gfP2.multiply (hook)   a.x a.y b.x b.y
//	fpow <2 x 64 hex> <exp hex>                 gfP2.pow (hook)
//
// Obs: g1/g2 `c=<compressed hex> d=<marshalled hex|err:class>`, d1/d2/hash
// `<marshalled hex|err:class>`, fmul/fpow `<x hex> <y hex>`.  A hang (per-op timeout) or a
// panic is an observation (`HANG`, `PANIC ...`) produced by hx.
package main

import (
	"bytes"
	"crypto/sha256"
	"encoding/hex"
	"fmt"
	"math/big"
	"os"
	"path/filepath"
	"regexp"
	"strings"
	"time"

	"keepverif/harness/hx"

	bn256 "github.com/ethereum/go-ethereum/crypto/bn256/cloudflare"
	"github.com/keep-network/keep-core/pkg/altbn128"
)

func errClass(err error) string {
	s := err.Error()
	switch {
	case strings.Contains(s, "failed to decompress"):
		return "err:nosqrt"
	case strings.Contains(s, "exceeds modulus"):
		return "err:exceeds"
	case strings.Contains(s, "equals modulus"):
		return "err:equals"
	case strings.Contains(s, "malformed point"):
		return "err:malformed"
	case strings.Contains(s, "limited to"):
		return "err:toolong"
	}
	return "err:other"
}

func randScalar(r *hx.Rng) *big.Int {
	switch r.Intn(10) {
	case 0:
		return big.NewInt(int64(r.Intn(5))) // 0..4 (0 = identity)
	case 1:
		return new(big.Int).Sub(bn256.Order, big.NewInt(int64(r.Intn(3)))) // r, r-1, r-2
	case 2:
		return new(big.Int).SetBytes(r.Bytes(8))
	default:
		return new(big.Int).Mod(new(big.Int).SetBytes(r.Bytes(40)), bn256.Order)
	}
}

func fieldElem(r *hx.Rng) []byte {
	p := bn256.P
	var v *big.Int
	switch r.Intn(8) {
	case 0:
		v = big.NewInt(int64(r.Intn(4)))
	case 1:
		v = new(big.Int).Sub(p, big.NewInt(int64(r.Intn(3)+1)))
	default:
		v = new(big.Int).Mod(new(big.Int).SetBytes(r.Bytes(40)), p)
	}
	b := make([]byte, 32)
	v.FillBytes(b)
	return b
}

// hardHashMessage searches (with math/big's Jacobi symbol, independently of the code under
// test) for a message whose try-and-increment search needs at least minK increments.
func hardHashMessage(r *hx.Rng, minK int) []byte {
	three := big.NewInt(3)
	for {
		m := []byte(fmt.Sprintf("relay-entry-%d", r.U64()))
		h := sha256.Sum256(m)
		x := new(big.Int).Mod(new(big.Int).SetBytes(h[:]), bn256.P)
		k := 0
		for ; k < minK; k++ {
			a := new(big.Int).Mul(x, x)
			a.Mul(a, x).Add(a, three).Mod(a, bn256.P)
			if big.Jacobi(a, bn256.P) != -1 {
				break
			}
			x.Add(x, big.NewInt(1))
		}
		if k >= minK {
			return m
		}
	}
}

func gen(r *hx.Rng, n int, tier string) []string {
	var ops []string
	// hash inputs that need many increments (a bounded search loop must not give up on them)
	hard := []int{8, 12, 16, 17, 18}
	if tier == "thorough" {
		hard = append(hard, 19, 20, 21)
	}
	if n < 50 {
		hard = hard[:2]
	}
	for _, k := range hard {
		m := hardHashMessage(r, k)
		h := sha256.Sum256(m)
		ops = append(ops, "hash "+hex.EncodeToString(m)+" "+hex.EncodeToString(h[:]))
	}
	for i := 0; i < n; i++ {
		switch k := r.Intn(20); {
		case k < 3: // G1 round trip on k*G
			g := new(bn256.G1).ScalarBaseMult(randScalar(r))
			ops = append(ops, "g1 "+hex.EncodeToString(g.Marshal()))
		case k < 6: // G2 round trip on k*G2
			g := new(bn256.G2).ScalarBaseMult(randScalar(r))
			ops = append(ops, "g2 "+hex.EncodeToString(g.Marshal()))
		case k < 9: // G1 decompression of bytes
			var b []byte
			switch r.Intn(6) {
			case 0:
				b = r.Bytes(32) // fully random (x >= p likely)
			case 1:
				b = bytes.Repeat([]byte{[]byte{0, 0xff, 0x80, 0x7f}[r.Intn(4)]}, 32)
			case 2: // p-1, p, p+1 with / without the parity bit
				v := new(big.Int).Add(bn256.P, big.NewInt(int64(r.Intn(3)-1)))
				b = make([]byte, 32)
				v.FillBytes(b)
			case 3: // a valid compressed point with the parity bit flipped
				g := altbn128.G1Point{G1: new(bn256.G1).ScalarBaseMult(new(big.Int).SetBytes(r.Bytes(31)))}
				b = g.Compress()
				b[0] ^= 0x80
			default:
				b = fieldElem(r)
			}
			if r.Chance(1, 3) {
				b[0] ^= 0x80
			}
			ops = append(ops, "d1 "+hex.EncodeToString(b))
		case k < 14: // G2 decompression of bytes
			var b []byte
			switch r.Intn(8) {
			case 0:
				b = r.Bytes(64)
			case 1:
				b = bytes.Repeat([]byte{[]byte{0, 0xff, 0x80, 0x7f}[r.Intn(4)]}, 64)
			case 2: // valid compressed point, parity flipped
				g := altbn128.G2Point{G2: new(bn256.G2).ScalarBaseMult(new(big.Int).SetBytes(r.Bytes(31)))}
				b = g.Compress()
				b[0] ^= 0x80
			case 3: // valid x with one component replaced
				g := altbn128.G2Point{G2: new(bn256.G2).ScalarBaseMult(new(big.Int).SetBytes(r.Bytes(31)))}
				b = g.Compress()
				copy(b[32:], fieldElem(r))
			case 4: // real x (imaginary part zero) or imaginary x
				b = make([]byte, 64)
				if r.Bool() {
					copy(b[32:], fieldElem(r))
				} else {
					copy(b[:32], fieldElem(r))
				}
			default:
				b = append(fieldElem(r), fieldElem(r)...)
			}
			if r.Chance(1, 3) {
				b[0] ^= 0x80
			}
			ops = append(ops, "d2 "+hex.EncodeToString(b))
		case k < 17: // hash to point
			var m []byte
			switch r.Intn(4) {
			case 0:
				m = nil
			case 1:
				m = r.Bytes(r.Range(1, 4))
			default:
				m = r.Bytes(r.Range(5, 80))
			}
			h := sha256.Sum256(m)
			ms := "-"
			if len(m) > 0 {
				ms = hex.EncodeToString(m)
			}
			ops = append(ops, "hash "+ms+" "+hex.EncodeToString(h[:]))
		case k < 19:
			ops = append(ops, "fmul "+hex.EncodeToString(fieldElem(r))+" "+hex.EncodeToString(fieldElem(r))+
				" "+hex.EncodeToString(fieldElem(r))+" "+hex.EncodeToString(fieldElem(r)))
		default:
			e := new(big.Int).SetBytes(r.Bytes(r.Range(0, 64)))
			ops = append(ops, "fpow "+hex.EncodeToString(fieldElem(r))+" "+hex.EncodeToString(fieldElem(r))+
				" "+fmt.Sprintf("%x", e))
		}
	}
	return ops
}

func unhex(s string, n int) ([]byte, bool) {
	if s == "-" {
		return nil, n == -1
	}
	b, err := hex.DecodeString(s)
	if err != nil || (n >= 0 && len(b) != n) {
		return nil, false
	}
	return b, true
}

func h32(v *big.Int) string {
	b := make([]byte, 32)
	v.FillBytes(b)
	return hex.EncodeToString(b)
}

func exec(op string) (string, string) {
	f := strings.Fields(op)
	if len(f) < 2 {
		return "bad-op", "bad"
	}
	switch f[0] {
	case "g1":
		b, ok := unhex(f[1], 64)
		if !ok || len(f) != 2 {
			return "bad-op", "bad"
		}
		g := new(bn256.G1)
		if _, err := g.Unmarshal(b); err != nil {
			return "bad-op", "bad"
		}
		tag := "g1rt"
		if bytes.Equal(b, make([]byte, 64)) {
			tag = "g1rt+identity"
		}
		c := altbn128.G1Point{G1: g}.Compress()
		flags0 := ""
		if c2 := (altbn128.G1Point{G1: g}).Compress(); !bytes.Equal(c, c2) {
			flags0 += " NONDET"
		}
		if !bytes.Equal(g.Marshal(), b) {
			flags0 += " MUTATED-INPUT"
		}
		d, flags := discipline(c, func(buf []byte) string {
			d, err := altbn128.DecompressToG1(buf)
			if err != nil {
				return errClass(err)
			}
			return hex.EncodeToString(d.Marshal())
		})
		if strings.HasPrefix(d, "err:") {
			tag += "+rterr"
		}
		return "c=" + hex.EncodeToString(c) + " d=" + d + flags0 + flags, tag
	case "g2":
		b, ok := unhex(f[1], 128)
		if !ok || len(f) != 2 {
			return "bad-op", "bad"
		}
		g := new(bn256.G2)
		if _, err := g.Unmarshal(b); err != nil {
			return "bad-op", "bad"
		}
		tag := "g2rt"
		if bytes.Equal(b, make([]byte, 128)) {
			tag = "g2rt+identity"
		}
		c := altbn128.G2Point{G2: g}.Compress()
		flags0 := ""
		if c2 := (altbn128.G2Point{G2: g}).Compress(); !bytes.Equal(c, c2) {
			flags0 += " NONDET"
		}
		if !bytes.Equal(g.Marshal(), b) {
			flags0 += " MUTATED-INPUT"
		}
		d, flags := discipline(c, func(buf []byte) string {
			d, err := altbn128.DecompressToG2(buf)
			if err != nil {
				return errClass(err)
			}
			return hex.EncodeToString(d.Marshal())
		})
		if strings.HasPrefix(d, "err:") {
			tag += "+rterr"
		}
		return "c=" + hex.EncodeToString(c) + " d=" + d + flags0 + flags, tag
	case "d1":
		b, ok := unhex(f[1], 32)
		if !ok || len(f) != 2 {
			return "bad-op", "bad"
		}
		d, flags := discipline(b, func(buf []byte) string {
			d, err := altbn128.DecompressToG1(buf)
			if err != nil {
				return errClass(err)
			}
			return hex.EncodeToString(d.Marshal())
		})
		if strings.HasPrefix(d, "err:") {
			return d + flags, "d1+" + d[4:]
		}
		return d + flags, "d1+point"
	case "d2":
		b, ok := unhex(f[1], 64)
		if !ok || len(f) != 2 {
			return "bad-op", "bad"
		}
		d, flags := discipline(b, func(buf []byte) string {
			d, err := altbn128.DecompressToG2(buf)
			if err != nil {
				return errClass(err)
			}
			return hex.EncodeToString(d.Marshal())
		})
		if strings.HasPrefix(d, "err:") {
			return d + flags, "d2+" + d[4:]
		}
		return d + flags, "d2+point"
	case "hash":
		if len(f) != 3 {
			return "bad-op", "bad"
		}
		var m []byte
		ok := true
		if f[1] != "-" {
			mm, err := hex.DecodeString(f[1])
			m, ok = mm, err == nil
		}
		hs, ok2 := unhex(f[2], 32)
		if !ok || !ok2 {
			return "bad-op", "bad"
		}
		real := sha256.Sum256(m)
		if !bytes.Equal(real[:], hs) {
			return "bad-op", "bad" // the op line must carry the real SHA-256 (external behaviour = parameter)
		}
		tag := "hash"
		if strings.HasPrefix(string(m), "relay-entry-") {
			tag = "hash+hard"
		}
		res, flags := discipline(m, func(buf []byte) string {
			p := altbn128.G1HashToPoint(buf)
			if p == nil {
				return "nil-point"
			}
			return hex.EncodeToString(p.Marshal())
		})
		return res + flags, tag
	case "fmul":
		if len(f) != 5 {
			return "bad-op", "bad"
		}
		var v [4]*big.Int
		for i := 0; i < 4; i++ {
			b, ok := unhex(f[1+i], 32)
			if !ok {
				return "bad-op", "bad"
			}
			v[i] = new(big.Int).SetBytes(b)
		}
		x, y := altbn128.VerifGfP2Mul(v[0], v[1], v[2], v[3])
		return h32(x) + " " + h32(y), "field"
	case "fpow":
		if len(f) != 4 {
			return "bad-op", "bad"
		}
		a, ok1 := unhex(f[1], 32)
		b, ok2 := unhex(f[2], 32)
		e, ok3 := new(big.Int).SetString(f[3], 16)
		if !ok1 || !ok2 || !ok3 {
			return "bad-op", "bad"
		}
		x, y := altbn128.VerifGfP2Pow(new(big.Int).SetBytes(a), new(big.Int).SetBytes(b), e)
		return h32(x) + " " + h32(y), "field"
	}
	return "bad-op", "bad"
}

// sqrtExpFromSource extracts the decimal exponent literal used inside sqrtGfP2 (a local
// variable that cannot be re-exported) from the source text.
func sqrtExpFromSource() string {
	repo := os.Getenv("VERIF_REPO")
	if repo == "" {
		repo = "/repo"
	}
	src, err := os.ReadFile(filepath.Join(repo, "pkg/altbn128/altbn128.go"))
	if err != nil {
		return "0"
	}
	i := bytes.Index(src, []byte("func sqrtGfP2("))
	if i < 0 {
		return "0"
	}
	m := regexp.MustCompile(`exp\s*=\s*bigFromBase10\("([0-9]+)"\)`).FindSubmatch(src[i:])
	if m == nil {
		return "0"
	}
	return string(m[1])
}

func main() {
	hx.Main(&hx.Config{
		Prop:         "C04",
		Gen:          gen,
		Exec:         exec,
		PerOpTimeout: 3 * time.Second,
		Facts: func() []string {
			tbx, tby := altbn128.VerifTwistB()
			hrx, hry := altbn128.VerifHexRoot()
			return []string{
				"nat fieldP " + bn256.P.String(),
				"nat groupOrder " + bn256.Order.String(),
				"nat twistBx " + tbx.String(),
				"nat twistBy " + tby.String(),
				"nat hexRootX " + hrx.String(),
				"nat hexRootY " + hry.String(),
				"nat sqrtExp " + sqrtExpFromSource(),
			}
		},
	})
}
