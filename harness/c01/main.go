// C01: beacon DKG (GJKR) — honest members agree on the group key and on who misbehaved.
// Op line:  dkg <n> <t> <seed> <ord> <adv>     (see gjk.ParseOp; adv = behaviour script of the
//           corrupt members: `<member>@<phase>:<variant>|…` comma separated, `-` = none)
// Obs line: one token per HONEST member:  <idx>/<status>/<IA>/<DQ>/<key class>
//           IA, DQ sorted, `.`-separated; key class = letter by first appearance of the
//           marshalled group public key among honest members (`nil` = no key, `-` = not finished)
package main

import (
	"fmt"

	"keepverif/harness/c01/gjk"
	"keepverif/harness/hx"
)

func exec(op string) (string, string) {
	c, ok := gjk.ParseOp(op)
	if !ok {
		return "bad-op", "bad"
	}
	outs, tag := gjk.Run(c, false)
	return gjk.ObsC01(c, outs), gjk.TagC01(c, outs, tag)
}

func main() {
	hx.Main(&hx.Config{
		Prop: "C01",
		Gen:  gjk.Gen,
		Exec: exec,
		Facts: func() []string {
			return []string{
				fmt.Sprintf("nat order %s", gjk.R.String()),
				"natlist stateActiveBlocks " + hx.JoinInts(gjk.StateActiveBlocks()),
			}
		},
	})
}
