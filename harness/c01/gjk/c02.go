package gjk

import (
	"fmt"
	"math/big"
	"strings"

	bn256 "github.com/ethereum/go-ethereum/crypto/bn256/cloudflare"
	"github.com/keep-network/keep-core/pkg/protocol/group"
)

// Interpolate0 is the harness' own Lagrange interpolation at 0 over Z_r (independent of the
// gjkr code): Σ_i y_i · Π_{j≠i} x_j / (x_j − x_i).
func Interpolate0(xs []int, ys []*big.Int) *big.Int {
	sum := new(big.Int)
	for i := range xs {
		num, den := big.NewInt(1), big.NewInt(1)
		for j := range xs {
			if j == i {
				continue
			}
			num.Mul(num, big.NewInt(int64(xs[j]))).Mod(num, R)
			den.Mul(den, big.NewInt(int64(xs[j]-xs[i]))).Mod(den, R)
		}
		term := new(big.Int).Mul(ys[i], num)
		term.Mul(term, new(big.Int).ModInverse(den, R)).Mod(term, R)
		sum.Add(sum, term).Mod(sum, R)
	}
	return sum
}

func g2eq(a, b *bn256.G2) bool {
	if a == nil || b == nil {
		return false
	}
	return KeyHex(a) == KeyHex(b)
}

// ObsC02: per honest member `<idx>/<share>/<pk flags>/<gk flag>` (or `<idx>/<status>` when it did
// not finish) and a last token `X=<secret interpolated from the first t+1 finished honest members>`.
//   pk flags: one char per OTHER finished honest member j, ascending: 1 = j's public key share
//             for idx equals share·G2, 0 = differs, x = j holds no public key share for idx
//   gk flag : 1 = the member's group public key equals X·G2
func ObsC02(c *Case, outs []MemberOut) string {
	hs := honest(c, outs)
	var fin []MemberOut
	for _, o := range hs {
		if o.Status == "ok" && o.Share != nil {
			fin = append(fin, o)
		}
	}
	var X *big.Int
	var XG *bn256.G2
	if len(fin) >= c.T+1 {
		var xs []int
		var ys []*big.Int
		for _, o := range fin[:c.T+1] {
			xs = append(xs, o.Idx)
			ys = append(ys, o.Share)
		}
		X = Interpolate0(xs, ys)
		XG = new(bn256.G2).ScalarBaseMult(X)
	}
	var toks []string
	for _, o := range hs {
		if o.Status != "ok" || o.Share == nil {
			toks = append(toks, fmt.Sprintf("%d/%s", o.Idx, o.Status))
			continue
		}
		own := new(bn256.G2).ScalarBaseMult(o.Share)
		var flags strings.Builder
		for _, p := range fin {
			if p.Idx == o.Idx {
				continue
			}
			pk, ok := p.PKShares[group.MemberIndex(o.Idx)]
			switch {
			case !ok:
				flags.WriteByte('x')
			case g2eq(pk, own):
				flags.WriteByte('1')
			default:
				flags.WriteByte('0')
			}
		}
		if flags.Len() == 0 {
			flags.WriteByte('-')
		}
		gk := "-"
		if XG != nil {
			gk = "0"
			if g2eq(o.Key, XG) {
				gk = "1"
			}
		}
		toks = append(toks, fmt.Sprintf("%d/%s/%s/%s", o.Idx, o.Share.String(), flags.String(), gk))
	}
	if X != nil {
		toks = append(toks, "X="+X.String())
	} else {
		toks = append(toks, "X=-")
	}
	return strings.Join(toks, " ")
}
