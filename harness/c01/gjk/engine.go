// Package gjk drives the REAL gjkr protocol states (pkg/beacon/gjkr/states.go) of all n
// members in lockstep, in-process: every member has its own state chain (own group.Group,
// own evidence log), its own operator key, and a capturing broadcast channel.  One round =
// every live member's Initiate, then the wire messages (marshalled, after the adversary's
// behaviour script rewrote those of the corrupt members) are unmarshalled separately for
// and delivered to every member through state.Receive in a per-receiver order, then Next.
// This is the property's own network model: synchrony (messages of a phase arrive in that
// phase) and consistent broadcast (every sender's messages reach all members in the
// sender's order; cross-sender order differs per receiver).
package gjk

import (
	"context"
	crand "crypto/rand"
	"encoding/hex"
	"fmt"
	"math/big"
	"sort"
	"strconv"
	"strings"

	"github.com/btcsuite/btcd/btcec"
	bn256 "github.com/ethereum/go-ethereum/crypto/bn256/cloudflare"

	"google.golang.org/protobuf/proto"

	"keepverif/harness/hx"

	"github.com/keep-network/keep-core/pkg/beacon/gjkr/gen/pb"

	"github.com/keep-network/keep-core/pkg/beacon/gjkr"
	"github.com/keep-network/keep-core/pkg/chain"
	"github.com/keep-network/keep-core/pkg/crypto/ephemeral"
	"github.com/keep-network/keep-core/pkg/net"
	"github.com/keep-network/keep-core/pkg/operator"
	"github.com/keep-network/keep-core/pkg/protocol/group"
	"github.com/keep-network/keep-core/pkg/protocol/state"
)

var R = bn256.Order

// ---- op line ---------------------------------------------------------------

type Mod struct {
	Name string
	Args []int
}

type Variant struct {
	Silent bool
	Mods   []Mod
}

type Case struct {
	N, T      int
	Seed, Ord uint64
	Adv       map[[2]int][]Variant // (member, phase) -> message variants, in sending order
	Corrupt   map[int]bool
}

var modNames = []string{"accw", "acc", "revw", "rev", "drop", "garb", "bad", "sess", "noS", "noC", "rs", "rm", "as", "cm", "cp", "pm", "pp", "pt", "px", "ox", "h"}

func parseMod(s string) (Mod, bool) {
	for _, nm := range modNames {
		if strings.HasPrefix(s, nm) {
			rest := s[len(nm):]
			var args []int
			if rest != "" {
				for _, a := range strings.Split(rest, ".") {
					v, err := strconv.Atoi(a)
					if err != nil || v < 0 || v > 300 {
						return Mod{}, false
					}
					args = append(args, v)
				}
			}
			return Mod{nm, args}, true
		}
	}
	return Mod{}, false
}

// ParseOp parses `dkg <n> <t> <seed> <ord> <adv>`;  adv = `-` or comma list of
// `<member>@<phase>:<variant>|<variant>…`, variant = `s` (send nothing) or `+`-joined modifiers.
func ParseOp(op string) (*Case, bool) {
	f := strings.Fields(op)
	if len(f) != 6 || f[0] != "dkg" {
		return nil, false
	}
	n, e1 := strconv.Atoi(f[1])
	t, e2 := strconv.Atoi(f[2])
	seed, e3 := strconv.ParseUint(f[3], 10, 64)
	ord, e4 := strconv.ParseUint(f[4], 10, 64)
	if e1 != nil || e2 != nil || e3 != nil || e4 != nil || n < 2 || n > 9 || t < 0 || t >= n {
		return nil, false
	}
	c := &Case{N: n, T: t, Seed: seed, Ord: ord, Adv: map[[2]int][]Variant{}, Corrupt: map[int]bool{}}
	for _, d := range hx.SplitList(f[5]) {
		at := strings.Index(d, "@")
		col := strings.Index(d, ":")
		if at < 1 || col < at+2 || col == len(d)-1 {
			return nil, false
		}
		m, e5 := strconv.Atoi(d[:at])
		ph, e6 := strconv.Atoi(d[at+1 : col])
		if e5 != nil || e6 != nil || m < 1 || m > n {
			return nil, false
		}
		var vs []Variant
		for _, v := range strings.Split(d[col+1:], "|") {
			if v == "s" {
				vs = append(vs, Variant{Silent: true})
				continue
			}
			var mods []Mod
			for _, ms := range strings.Split(v, "+") {
				md, ok := parseMod(ms)
				if !ok {
					return nil, false
				}
				mods = append(mods, md)
			}
			vs = append(vs, Variant{Mods: mods})
		}
		if _, dup := c.Adv[[2]int{m, ph}]; dup {
			return nil, false
		}
		c.Adv[[2]int{m, ph}] = vs
		c.Corrupt[m] = true
	}
	return c, true
}

// Coef is the polynomial coefficient injected for member i, slot j (slots 0..t = a_k,
// t+1..2t+1 = b_k, 50 = tamper constant).  The Lean model computes the same function.
func Coef(seed uint64, i, j int) *big.Int {
	base := new(big.Int).SetUint64(seed)
	base.Add(base, big.NewInt(1))
	base.Mul(base, big.NewInt(1000003))
	base.Add(base, big.NewInt(int64(i)*7919+int64(j)*104729+12345))
	v := new(big.Int).Exp(base, big.NewInt(7), nil)
	rm1 := new(big.Int).Sub(R, big.NewInt(1))
	v.Mod(v, rm1)
	return v.Add(v, big.NewInt(1))
}

// ---- controlled randomness ---------------------------------------------------

// CtrlReader replaces crypto/rand.Reader: 32-byte reads are served from the queue while it
// is armed (phase 3 polynomial generation), everything else from a seeded PRNG.
type CtrlReader struct {
	queue [][]byte
	rng   *hx.Rng
}

func (c *CtrlReader) Read(p []byte) (int, error) {
	if len(p) == 32 && len(c.queue) > 0 {
		copy(p, c.queue[0])
		c.queue = c.queue[1:]
		return 32, nil
	}
	for i := range p {
		p[i] = byte(c.rng.U64() >> 17)
	}
	return len(p), nil
}

var Reader = &CtrlReader{rng: hx.NewRng(1)}

func init() { crand.Reader = Reader }

// ---- plumbing: logger, signing, channel, message ------------------------------

type nopLogger struct{}

func (nopLogger) Debug(args ...interface{})                 {}
func (nopLogger) Debugf(format string, args ...interface{}) {}
func (nopLogger) Error(args ...interface{})                 {}
func (nopLogger) Errorf(format string, args ...interface{}) {}
func (nopLogger) Fatal(args ...interface{})                 {}
func (nopLogger) Fatalf(format string, args ...interface{}) {}
func (nopLogger) Info(args ...interface{})                  {}
func (nopLogger) Infof(format string, args ...interface{})  {}
func (nopLogger) Panic(args ...interface{})                 {}
func (nopLogger) Panicf(format string, args ...interface{}) {}
func (nopLogger) Warn(args ...interface{})                  {}
func (nopLogger) Warnf(format string, args ...interface{})  {}

// signing maps operator public key bytes to an address (the only part the membership
// validator uses).
type signing struct{}

func (signing) Address() chain.Address                  { return "" }
func (signing) PublicKey() []byte                       { return nil }
func (signing) Sign([]byte) ([]byte, error)             { return nil, fmt.Errorf("unused") }
func (signing) Verify([]byte, []byte) (bool, error)     { return false, fmt.Errorf("unused") }
func (signing) VerifyWithPublicKey([]byte, []byte, []byte) (bool, error) {
	return false, fmt.Errorf("unused")
}
func (signing) PublicKeyToAddress(pk *operator.PublicKey) (chain.Address, error) {
	return chain.Address(hex.EncodeToString(operator.MarshalUncompressed(pk))), nil
}
func (signing) PublicKeyBytesToAddress(pk []byte) chain.Address {
	return chain.Address(hex.EncodeToString(pk))
}

type capChannel struct{ out []net.TaggedMarshaler }

func (c *capChannel) Name() string { return "verif" }
func (c *capChannel) Send(ctx context.Context, m net.TaggedMarshaler, _ ...net.RetransmissionStrategy) error {
	c.out = append(c.out, m)
	return nil
}
func (c *capChannel) Recv(ctx context.Context, handler func(m net.Message)) {}
func (c *capChannel) SetUnmarshaler(func() net.TaggedUnmarshaler)           {}
func (c *capChannel) SetFilter(net.BroadcastChannelFilter) error            { return nil }

type tid string

func (t tid) String() string { return string(t) }

type netMsg struct {
	author  int
	pub     []byte
	payload interface{}
	typ     string
	seq     uint64
}

func (m *netMsg) TransportSenderID() net.TransportIdentifier { return tid(fmt.Sprint(m.author)) }
func (m *netMsg) SenderPublicKey() []byte                    { return m.pub }
func (m *netMsg) Payload() interface{}                       { return m.payload }
func (m *netMsg) Type() string                               { return m.typ }
func (m *netMsg) Seqno() uint64                              { return m.seq }

type wire struct {
	author int
	typ    string
	data   []byte
}

func unmarshalerFor(typ string) net.TaggedUnmarshaler {
	switch typ {
	case (&gjkr.EphemeralPublicKeyMessage{}).Type():
		return &gjkr.EphemeralPublicKeyMessage{}
	case (&gjkr.MemberCommitmentsMessage{}).Type():
		return &gjkr.MemberCommitmentsMessage{}
	case (&gjkr.PeerSharesMessage{}).Type():
		return &gjkr.PeerSharesMessage{}
	case (&gjkr.SecretSharesAccusationsMessage{}).Type():
		return &gjkr.SecretSharesAccusationsMessage{}
	case (&gjkr.MemberPublicKeySharePointsMessage{}).Type():
		return &gjkr.MemberPublicKeySharePointsMessage{}
	case (&gjkr.PointsAccusationsMessage{}).Type():
		return &gjkr.PointsAccusationsMessage{}
	case (&gjkr.MisbehavedEphemeralKeysMessage{}).Type():
		return &gjkr.MisbehavedEphemeralKeysMessage{}
	}
	return nil
}

// ---- members ----------------------------------------------------------------

type member struct {
	idx    int
	st     state.SyncState
	ch     *capChannel
	pub    []byte
	status string // "ok" while running / finished, else err:<class> or panic
	res    *gjkr.Result
	fresh  map[int]*ephemeral.KeyPair
}

func errClass(err error) string {
	s := err.Error()
	switch {
	case strings.Contains(s, "could not find public key"):
		return "err:nopubkey"
	case strings.Contains(s, "no symmetric key"):
		return "err:nosymkey"
	case strings.Contains(s, "ephemeral key pair does not exist"), strings.Contains(s, "no ephemeral key pair"):
		return "err:nokeypair"
	}
	return "err:other"
}

// step runs f for member m, mapping errors and panics to the member's status.
func (m *member) step(f func() error) {
	if m.status != "ok" {
		return
	}
	defer func() {
		if e := recover(); e != nil {
			m.status = "panic"
		}
	}()
	if err := f(); err != nil {
		m.status = errClass(err)
	}
}

func (m *member) freshKey(j int) *ephemeral.KeyPair {
	if k, ok := m.fresh[j]; ok {
		return k
	}
	k, err := ephemeral.GenerateKeyPair()
	if err != nil {
		panic(err)
	}
	m.fresh[j] = k
	return k
}

// MemberOut is what one member ended with.
type MemberOut struct {
	Idx      int
	Status   string
	IA, DQ   []int
	Key      *bn256.G2
	Share    *big.Int
	PKShares map[group.MemberIndex]*bn256.G2
}

// sendingPhase[k] = protocol phase whose messages are sent by the k-th state's Initiate.
// States: 1 eph, 2 symkeys, 3 commit, 4 verify(+accuse), 5 justify, 6 qualify, 7 points,
// 8 validate(+accuse), 9 justify, 10 reveal, 11 reconstruct, 12 combine, 13 final.
var sendsMessages = map[int]bool{1: true, 3: true, 4: true, 7: true, 8: true, 10: true}

// Run executes one case.
func Run(c *Case, wantPKShares bool) ([]MemberOut, string) {
	Reader.rng = hx.NewRng(c.Seed*31 + 7)
	Reader.queue = nil
	n, t := c.N, c.T
	seedBig := new(big.Int).SetUint64(c.Seed + 1000)
	session := "session-" + fmt.Sprint(c.Seed)

	ms := make([]*member, n+1)
	ops := make([]chain.Address, n)
	for i := 1; i <= n; i++ {
		_, pk, err := operator.GenerateKeyPair(btcec.S256())
		if err != nil {
			panic(err)
		}
		pub := operator.MarshalUncompressed(pk)
		ms[i] = &member{idx: i, ch: &capChannel{}, pub: pub, status: "ok", fresh: map[int]*ephemeral.KeyPair{}}
		ops[i-1] = signing{}.PublicKeyBytesToAddress(pub)
	}
	for i := 1; i <= n; i++ {
		mv := group.NewMembershipValidator(nopLogger{}, ops, signing{})
		st, err := gjkr.VerifC01InitialState(nopLogger{}, seedBig, session, group.MemberIndex(i), n, ms[i].ch, t, mv)
		if err != nil {
			panic(err)
		}
		ms[i].st = st
	}
	tags := map[string]bool{}
	var seq uint64
	for ph := 1; ph <= 13; ph++ {
		// Initiate
		for i := 1; i <= n; i++ {
			m := ms[i]
			if m.status != "ok" {
				continue
			}
			m.ch.out = nil
			if ph == 3 {
				Reader.queue = nil
				for j := 0; j < 2*(t+1); j++ {
					b := make([]byte, 32)
					Coef(c.Seed, i, j).FillBytes(b)
					Reader.queue = append(Reader.queue, b)
				}
			}
			m.step(func() error { return m.st.Initiate(context.Background()) })
			if ph == 3 && m.status == "ok" {
				if len(Reader.queue) != 0 {
					panic("harness: coefficient queue not consumed")
				}
				v := gjkr.VerifC01ViewOf(m.st)
				for k := 0; k <= t; k++ {
					if v.SecretCoefficients[k].Cmp(Coef(c.Seed, i, k)) != 0 {
						panic("harness: coefficient injection failed")
					}
				}
			}
			Reader.queue = nil
		}
		// wire messages of this phase
		var wires []wire
		if sendsMessages[ph] {
			for i := 1; i <= n; i++ {
				m := ms[i]
				if m.status != "ok" {
					continue
				}
				out := m.ch.out
				vs, scripted := c.Adv[[2]int{i, ph}]
				if !scripted {
					for _, msg := range out {
						wires = append(wires, mkWire(i, msg))
					}
					continue
				}
				for _, v := range vs {
					if v.Silent {
						continue
					}
					for _, msg := range applyVariant(c, m, ph, out, v, tags) {
						wires = append(wires, mkWire(i, msg))
					}
				}
			}
			// deliver
			for r := 1; r <= n; r++ {
				m := ms[r]
				if m.status != "ok" {
					continue
				}
				idx := make([]int, len(wires))
				for k := range idx {
					idx[k] = k
				}
				sort.SliceStable(idx, func(a, b int) bool {
					ka, kb := AuthorKey(c, r, ph, wires[idx[a]].author), AuthorKey(c, r, ph, wires[idx[b]].author)
					if ka != kb {
						return ka < kb
					}
					return wires[idx[a]].author < wires[idx[b]].author
				})
				for _, k := range idx {
					w := wires[k]
					u := unmarshalerFor(w.typ)
					if u == nil || u.Unmarshal(w.data) != nil {
						continue
					}
					seq++
					nm := &netMsg{author: w.author, pub: ms[w.author].pub, payload: u, typ: w.typ, seq: seq}
					m.step(func() error { return m.st.Receive(nm) })
				}
			}
		}
		// Next
		for i := 1; i <= n; i++ {
			m := ms[i]
			if m.status != "ok" {
				continue
			}
			if ph == 13 {
				m.res = gjkr.VerifC01Result(m.st)
				continue
			}
			m.step(func() error {
				nx, err := m.st.Next()
				if err != nil {
					return err
				}
				m.st = nx
				return nil
			})
		}
	}
	var outs []MemberOut
	for i := 1; i <= n; i++ {
		m := ms[i]
		o := MemberOut{Idx: i, Status: m.status}
		g := gjkr.VerifC01ViewOf(m.st).Group
		for _, x := range g.InactiveMemberIndexes() {
			o.IA = append(o.IA, int(x))
		}
		for _, x := range g.DisqualifiedMemberIndexes() {
			o.DQ = append(o.DQ, int(x))
		}
		sort.Ints(o.IA)
		sort.Ints(o.DQ)
		if m.res != nil {
			o.Key = m.res.GroupPublicKey
			o.Share = m.res.GroupPrivateKeyShare
			if wantPKShares && !c.Corrupt[i] {
				o.PKShares = m.res.GroupPublicKeyShares()
			}
		} else if m.status == "ok" {
			o.Status = "err:nofinal"
		}
		outs = append(outs, o)
	}
	var tl []string
	for k := range tags {
		tl = append(tl, k)
	}
	sort.Strings(tl)
	return outs, strings.Join(tl, "+")
}

// AuthorKey is the position key of an author in the delivery order of receiver r in phase ph:
// ord < 1000 = rotation of the authors, otherwise a pseudo-random permutation per (receiver,
// phase).  Every author's own messages keep their order (consistent broadcast).
func AuthorKey(c *Case, r, ph, a int) uint64 {
	n := uint64(c.N)
	if c.Ord < 1000 {
		return (uint64(a) + (c.Ord+3*uint64(r)+5*uint64(ph))%n) % n
	}
	v := new(big.Int).SetUint64(c.Ord + 1)
	v.Mul(v, big.NewInt(int64(a+7*r+13*ph+1)))
	v.Mul(v, big.NewInt(2654435761))
	return v.Mod(v, big.NewInt(1000003)).Uint64()
}

func mkWire(author int, m net.TaggedMarshaler) wire {
	b, err := m.Marshal()
	if err != nil {
		// an unmarshallable adversarial message never reaches the wire
		return wire{author: author, typ: "unsendable"}
	}
	return wire{author: author, typ: m.Type(), data: b}
}

// ---- adversary ----------------------------------------------------------------

func arg0(m Mod) int {
	if len(m.Args) == 0 {
		return 0
	}
	return m.Args[0]
}

func ownKeyOrFresh(m *member, view *gjkr.VerifC01View, j int) *ephemeral.PrivateKey {
	if j >= 1 && j <= 255 {
		if kp, ok := view.EphemeralKeyPairs[group.MemberIndex(j)]; ok {
			return kp.PrivateKey
		}
	}
	return m.freshKey(j).PrivateKey
}

func copyKeys(in map[group.MemberIndex]*ephemeral.PrivateKey) map[group.MemberIndex]*ephemeral.PrivateKey {
	out := map[group.MemberIndex]*ephemeral.PrivateKey{}
	for k, v := range in {
		out[k] = v
	}
	return out
}

// keyMods applies acc/accw/rev/revw/drop to a member->private-key map.
func keyMods(m *member, view *gjkr.VerifC01View, keys map[group.MemberIndex]*ephemeral.PrivateKey, v Variant, tags map[string]bool, ph int) {
	for _, md := range v.Mods {
		j := arg0(md)
		if j > 255 {
			continue
		}
		switch md.Name {
		case "acc", "rev":
			keys[group.MemberIndex(j)] = ownKeyOrFresh(m, view, j)
			tags[fmt.Sprintf("p%d%s", ph, md.Name)] = true
		case "accw", "revw":
			keys[group.MemberIndex(j)] = m.freshKey(1000 + j).PrivateKey
			tags[fmt.Sprintf("p%d%s", ph, md.Name)] = true
		case "drop":
			delete(keys, group.MemberIndex(j))
			tags[fmt.Sprintf("p%ddrop", ph)] = true
		}
	}
}

func senderAndSession(c *Case, self group.MemberIndex, session string, v Variant, tags map[string]bool) (group.MemberIndex, string) {
	s, ss := self, session
	for _, md := range v.Mods {
		switch md.Name {
		case "as":
			if arg0(md) <= 255 {
				s = group.MemberIndex(arg0(md))
				tags["as"] = true
			}
		case "sess":
			ss = session + "-x"
			tags["sess"] = true
		}
	}
	return s, ss
}

// oxArg: the `ox<j>` modifier (a raw wire map key j+256 is added to a key map)
func oxArg(v Variant) (int, bool) {
	for _, md := range v.Mods {
		if md.Name == "ox" {
			return arg0(md), true
		}
	}
	return 0, false
}

// rawMsg is an adversarial message given as raw wire bytes.
type rawMsg struct {
	typ  string
	data []byte
}

func (r rawMsg) Marshal() ([]byte, error) { return r.data, nil }
func (r rawMsg) Type() string             { return r.typ }

func hasMod(v Variant, name string) bool {
	for _, md := range v.Mods {
		if md.Name == name {
			return true
		}
	}
	return false
}

// PolyMulLinear returns p(x)·(x − s) mod r (coefficients low to high).
func PolyMulLinear(p []*big.Int, s int) []*big.Int {
	out := make([]*big.Int, len(p)+1)
	for i := range out {
		out[i] = new(big.Int)
	}
	for i, c := range p {
		out[i+1].Add(out[i+1], c)
		out[i].Sub(out[i], new(big.Int).Mul(c, big.NewInt(int64(s))))
	}
	for i := range out {
		out[i].Mod(out[i], R)
	}
	return out
}

func evalPoly(coefs []*big.Int, x int) *big.Int {
	res := new(big.Int)
	for k := len(coefs) - 1; k >= 0; k-- {
		res.Mul(res, big.NewInt(int64(x)))
		res.Add(res, coefs[k])
		res.Mod(res, R)
	}
	return res
}

func applyVariant(c *Case, m *member, ph int, out []net.TaggedMarshaler, v Variant, tags map[string]bool) []net.TaggedMarshaler {
	view := gjkr.VerifC01ViewOf(m.st)
	self := group.MemberIndex(m.idx)
	var res []net.TaggedMarshaler
	for _, raw := range out {
		switch msg := raw.(type) {
		case *gjkr.EphemeralPublicKeyMessage:
			_, keys, session := msg.VerifC01Fields()
			nk := map[group.MemberIndex]*ephemeral.PublicKey{}
			for k, x := range keys {
				nk[k] = x
			}
			for _, md := range v.Mods {
				if md.Name == "rm" && arg0(md) <= 255 {
					delete(nk, group.MemberIndex(arg0(md)))
					tags["p1rm"] = true
				}
			}
			s, ss := senderAndSession(c, self, session, v, tags)
			res = append(res, gjkr.VerifC01NewEphemeralPublicKeyMessage(s, nk, ss))
		case *gjkr.PeerSharesMessage:
			if hasMod(v, "noS") {
				tags["p3noS"] = true
				continue
			}
			_, shares, session := msg.VerifC01Fields()
			for _, md := range v.Mods {
				j := arg0(md)
				if j > 255 {
					continue
				}
				switch md.Name {
				case "rs":
					delete(shares, group.MemberIndex(j))
					tags["p3rs"] = true
				case "garb":
					shares[group.MemberIndex(j)] = [2][]byte{Reader.rng.Bytes(60), Reader.rng.Bytes(60)}
					tags["p3garb"] = true
				case "bad":
					key, ok := view.SymmetricKeys[group.MemberIndex(j)]
					if !ok {
						continue
					}
					var a, b []*big.Int
					for k := 0; k <= c.T; k++ {
						a = append(a, Coef(c.Seed, m.idx, k))
						b = append(b, Coef(c.Seed, m.idx, c.T+1+k))
					}
					sv := evalPoly(a, j)
					sv.Add(sv, big.NewInt(1)).Mod(sv, R)
					tv := evalPoly(b, j)
					es, err1 := key.Encrypt(sv.Bytes())
					et, err2 := key.Encrypt(tv.Bytes())
					if err1 != nil || err2 != nil {
						panic("harness: encrypt")
					}
					shares[group.MemberIndex(j)] = [2][]byte{es, et}
					tags["p3bad"] = true
				}
			}
			s, ss := senderAndSession(c, self, session, v, tags)
			res = append(res, gjkr.VerifC01NewPeerSharesMessage(s, shares, ss))
		case *gjkr.MemberCommitmentsMessage:
			if hasMod(v, "noC") {
				tags["p3noC"] = true
				continue
			}
			_, comms, session := msg.VerifC01Fields()
			nc := append([]*bn256.G1(nil), comms...)
			for _, md := range v.Mods {
				switch md.Name {
				case "cm":
					if len(nc) > 0 {
						nc = nc[:len(nc)-1]
					}
					tags["p3cnt"] = true
				case "cp":
					nc = append(nc, new(bn256.G1).ScalarBaseMult(big.NewInt(5)))
					tags["p3cnt"] = true
				}
			}
			s, ss := senderAndSession(c, self, session, v, tags)
			res = append(res, gjkr.VerifC01NewMemberCommitmentsMessage(s, nc, ss))
		case *gjkr.SecretSharesAccusationsMessage:
			_, keys, session := msg.VerifC01Fields()
			nk := copyKeys(keys)
			keyMods(m, view, nk, v, tags, 4)
			s, ss := senderAndSession(c, self, session, v, tags)
			{
				built := gjkr.VerifC01NewSecretSharesAccusationsMessage(s, nk, ss)
				if j, ok := oxArg(v); ok {
					raw, err := built.Marshal()
					if err != nil {
						panic(err)
					}
					var pm pb.SecretSharesAccusations
					if err := proto.Unmarshal(raw, &pm); err != nil {
						panic(err)
					}
					if pm.AccusedMembersKeys == nil {
						pm.AccusedMembersKeys = map[uint32][]byte{}
					}
					// wire-level map key above the uint8 member index range
					pm.AccusedMembersKeys[uint32(j)+256] = m.freshKey(2000 + j).PrivateKey.Marshal()
					out2, err := proto.Marshal(&pm)
					if err != nil {
						panic(err)
					}
					tags["ox"] = true
					res = append(res, rawMsg{typ: built.Type(), data: out2})
				} else {
					res = append(res, built)
				}
			}
		case *gjkr.MemberPublicKeySharePointsMessage:
			_, pts, session := msg.VerifC01Fields()
			np := append([]*bn256.G2(nil), pts...)
			for _, md := range v.Mods {
				switch md.Name {
				case "pm":
					if len(np) > 0 {
						np = np[:len(np)-1]
					}
					tags["p7cnt"] = true
				case "pp":
					np = append(np, new(bn256.G2).ScalarBaseMult(big.NewInt(5)))
					tags["p7cnt"] = true
				case "px":
					// points of the HIGHER-degree a' = a + c·Π_{s∈S}(x−s), S not truncated: more than
					// t+1 points when |S| > t, valid for every member of S
					delta := []*big.Int{Coef(c.Seed, m.idx, 50)}
					for _, s := range md.Args {
						delta = PolyMulLinear(delta, s)
					}
					cnt := c.T + 1
					if len(delta) > cnt {
						cnt = len(delta)
					}
					np = make([]*bn256.G2, cnt)
					for k := 0; k < cnt; k++ {
						e := new(big.Int)
						if k <= c.T {
							e.Set(Coef(c.Seed, m.idx, k))
						}
						if k < len(delta) {
							e.Add(e, delta[k]).Mod(e, R)
						}
						np[k] = new(bn256.G2).ScalarBaseMult(e)
					}
					tags["p7px"] = true
				case "pt":
					// points of a' = a + c·Π_{s∈S}(x−s): valid exactly for the members in S
					S := md.Args
					if len(S) > c.T {
						S = S[:c.T]
					}
					delta := []*big.Int{Coef(c.Seed, m.idx, 50)}
					for _, s := range S {
						delta = PolyMulLinear(delta, s)
					}
					np = make([]*bn256.G2, c.T+1)
					for k := 0; k <= c.T; k++ {
						e := new(big.Int).Set(Coef(c.Seed, m.idx, k))
						if k < len(delta) {
							e.Add(e, delta[k]).Mod(e, R)
						}
						np[k] = new(bn256.G2).ScalarBaseMult(e)
					}
					tags["p7pt"] = true
				}
			}
			s, ss := senderAndSession(c, self, session, v, tags)
			res = append(res, gjkr.VerifC01NewMemberPublicKeySharePointsMessage(s, np, ss))
		case *gjkr.PointsAccusationsMessage:
			_, keys, session := msg.VerifC01Fields()
			nk := copyKeys(keys)
			keyMods(m, view, nk, v, tags, 8)
			s, ss := senderAndSession(c, self, session, v, tags)
			{
				built := gjkr.VerifC01NewPointsAccusationsMessage(s, nk, ss)
				if j, ok := oxArg(v); ok {
					raw, err := built.Marshal()
					if err != nil {
						panic(err)
					}
					var pm pb.PointsAccusations
					if err := proto.Unmarshal(raw, &pm); err != nil {
						panic(err)
					}
					if pm.AccusedMembersKeys == nil {
						pm.AccusedMembersKeys = map[uint32][]byte{}
					}
					// wire-level map key above the uint8 member index range
					pm.AccusedMembersKeys[uint32(j)+256] = m.freshKey(2000 + j).PrivateKey.Marshal()
					out2, err := proto.Marshal(&pm)
					if err != nil {
						panic(err)
					}
					tags["ox"] = true
					res = append(res, rawMsg{typ: built.Type(), data: out2})
				} else {
					res = append(res, built)
				}
			}
		case *gjkr.MisbehavedEphemeralKeysMessage:
			_, keys, session := msg.VerifC01Fields()
			nk := copyKeys(keys)
			keyMods(m, view, nk, v, tags, 10)
			s, ss := senderAndSession(c, self, session, v, tags)
			{
				built := gjkr.VerifC01NewMisbehavedEphemeralKeysMessage(s, nk, ss)
				if j, ok := oxArg(v); ok {
					raw, err := built.Marshal()
					if err != nil {
						panic(err)
					}
					var pm pb.MisbehavedEphemeralKeys
					if err := proto.Unmarshal(raw, &pm); err != nil {
						panic(err)
					}
					if pm.PrivateKeys == nil {
						pm.PrivateKeys = map[uint32][]byte{}
					}
					// wire-level map key above the uint8 member index range
					pm.PrivateKeys[uint32(j)+256] = m.freshKey(2000 + j).PrivateKey.Marshal()
					out2, err := proto.Marshal(&pm)
					if err != nil {
						panic(err)
					}
					tags["ox"] = true
					res = append(res, rawMsg{typ: built.Type(), data: out2})
				} else {
					res = append(res, built)
				}
			}
		}
	}
	return res
}

// ---- canonical output helpers ----------------------------------------------------

func KeyHex(k *bn256.G2) string {
	if k == nil {
		return "nil"
	}
	return hex.EncodeToString(k.Marshal())
}

func Ints(xs []int) string {
	if len(xs) == 0 {
		return "-"
	}
	ss := make([]string, len(xs))
	for i, x := range xs {
		ss[i] = strconv.Itoa(x)
	}
	return strings.Join(ss, ".")
}
