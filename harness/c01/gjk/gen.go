package gjk

import (
	"context"
	"fmt"
	"math/big"
	"sort"
	"strings"

	"keepverif/harness/hx"

	"github.com/keep-network/keep-core/pkg/beacon/gjkr"
	"github.com/keep-network/keep-core/pkg/chain"
	"github.com/keep-network/keep-core/pkg/protocol/group"
)

var _ = context.Background

// ---- observations ----------------------------------------------------------------

func honest(c *Case, outs []MemberOut) []MemberOut {
	var hs []MemberOut
	for _, o := range outs {
		if !c.Corrupt[o.Idx] {
			hs = append(hs, o)
		}
	}
	return hs
}

func keyClasses(hs []MemberOut) []string {
	classes := map[string]string{}
	out := make([]string, len(hs))
	for i, o := range hs {
		switch {
		case o.Status != "ok":
			out[i] = "-"
		case o.Key == nil:
			out[i] = "nil"
		default:
			h := KeyHex(o.Key)
			if _, ok := classes[h]; !ok {
				classes[h] = string(rune('A' + len(classes)))
			}
			out[i] = classes[h]
		}
	}
	return out
}

// ObsC01: `<idx>/<status>/<IA>/<DQ>/<key class>` per honest member.
func ObsC01(c *Case, outs []MemberOut) string {
	hs := honest(c, outs)
	kc := keyClasses(hs)
	var toks []string
	for i, o := range hs {
		if o.Status != "ok" {
			// a member that aborted: how far its loop got depends on Go map order
			toks = append(toks, fmt.Sprintf("%d/%s/-/-/-", o.Idx, o.Status))
			continue
		}
		toks = append(toks, fmt.Sprintf("%d/%s/%s/%s/%s", o.Idx, o.Status, Ints(o.IA), Ints(o.DQ), kc[i]))
	}
	return strings.Join(toks, " ")
}

func TagC01(c *Case, outs []MemberOut, tag string) string {
	hs := honest(c, outs)
	var ts []string
	if tag != "" {
		ts = append(ts, tag)
	}
	if len(c.Corrupt) == 0 {
		ts = append(ts, "honest")
	}
	dq, ia, errd := false, false, false
	for _, o := range hs {
		dq = dq || len(o.DQ) > 0
		ia = ia || len(o.IA) > 0
		errd = errd || o.Status != "ok"
	}
	if dq {
		ts = append(ts, "dq")
	}
	if ia {
		ts = append(ts, "ia")
	}
	if errd {
		ts = append(ts, "abort")
	}
	agree := true
	kc := keyClasses(hs)
	for i, o := range hs {
		if o.Status != "ok" {
			continue
		}
		for j, p := range hs {
			if p.Status != "ok" {
				continue
			}
			if Ints(o.IA) != Ints(p.IA) || Ints(o.DQ) != Ints(p.DQ) || kc[i] != kc[j] {
				agree = false
			}
		}
	}
	if !agree {
		ts = append(ts, "disagree")
	}
	return strings.Join(ts, "+")
}

// ---- facts -----------------------------------------------------------------------

// StateActiveBlocks walks the real state chain (Next only) and returns ActiveBlocks of every
// state: the states with a non-zero value are exactly those that receive messages.
func StateActiveBlocks() []uint64 {
	ops := []chain.Address{"a", "b", "c"}
	mv := group.NewMembershipValidator(nopLogger{}, ops, signing{})
	st, err := gjkr.VerifC01InitialState(nopLogger{}, big.NewInt(1), "s", 1, 3, &capChannel{}, 1, mv)
	if err != nil {
		panic(err)
	}
	var out []uint64
	for st != nil {
		out = append(out, st.ActiveBlocks())
		nx, err := st.Next()
		if err != nil {
			panic(err)
		}
		st = nx
	}
	return out
}

// ---- generator -------------------------------------------------------------------

type sizes struct{ n, t int }

var quickSizes = []sizes{{3, 1}, {3, 1}, {4, 1}, {5, 2}, {5, 2}, {5, 2}, {5, 1}, {6, 2}, {7, 3}}

func pickMember(r *hx.Rng, n int) int {
	switch r.Intn(12) {
	case 0:
		return 0
	case 1:
		return n + 1
	}
	return r.Range(1, n)
}

func subset(r *hx.Rng, n, maxSize int) []int {
	k := r.Range(0, maxSize)
	p := r.Perm(n)
	var s []int
	for i := 0; i < k && i < n; i++ {
		s = append(s, p[i]+1)
	}
	sort.Ints(s)
	return s
}

func dots(xs []int) string {
	ss := make([]string, len(xs))
	for i, x := range xs {
		ss[i] = fmt.Sprint(x)
	}
	return strings.Join(ss, ".")
}

// randomVariant returns one message variant for phase ph.
func randomVariant(r *hx.Rng, n, t, ph int) string {
	var mods []string
	k := 1
	if r.Chance(1, 4) {
		k = 2
	}
	for i := 0; i < k; i++ {
		if r.Chance(1, 14) {
			mods = append(mods, fmt.Sprintf("as%d", pickMember(r, n)))
			continue
		}
		if r.Chance(1, 25) {
			mods = append(mods, "sess")
			continue
		}
		j := pickMember(r, n)
		switch ph {
		case 1:
			mods = append(mods, hx.Pick(r, []string{fmt.Sprintf("rm%d", j), "h"}))
		case 3:
			mods = append(mods, hx.Pick(r, []string{
				fmt.Sprintf("bad%d", j), fmt.Sprintf("bad%d", j), fmt.Sprintf("garb%d", j), fmt.Sprintf("rs%d", j),
				"noS", "noC", "cm", "cp", "h"}))
		case 4, 8:
			mods = append(mods, hx.Pick(r, []string{
				fmt.Sprintf("acc%d", j), fmt.Sprintf("acc%d", j), fmt.Sprintf("accw%d", j), fmt.Sprintf("drop%d", j), "h",
				fmt.Sprintf("acc%d+ox%d", j, j)}))
		case 7:
			mods = append(mods, hx.Pick(r, []string{
				"pt" + dots(subset(r, n, t)), "pt" + dots(subset(r, n, t)), "pt" + dots(subset(r, n, t)), "pm", "pp", "h",
				"px" + dots(subset(r, n, t+1))}))
		case 10:
			mods = append(mods, hx.Pick(r, []string{
				fmt.Sprintf("rev%d", j), fmt.Sprintf("revw%d", j), fmt.Sprintf("drop%d", j), "h", fmt.Sprintf("ox%d", j)}))
		}
	}
	return strings.Join(mods, "+")
}

var sendPhases = []int{1, 3, 4, 7, 8, 10}

func genOne(r *hx.Rng, tier string) string {
	sz := hx.Pick(r, quickSizes)
	n, t := sz.n, sz.t
	seed := r.Intn(1000000)
	ord := r.Intn(1000)
	if r.Bool() {
		ord = 1000 + r.Intn(1000000) // pseudo-random per-receiver interleavings
	}
	head := fmt.Sprintf("dkg %d %d %d %d ", n, t, seed, ord)
	if r.Chance(1, 12) {
		return head + "-"
	}
	k := r.Range(1, t)
	perm := r.Perm(n)
	corrupt := append([]int(nil), perm[:k]...)
	for i := range corrupt {
		corrupt[i]++
	}
	sort.Ints(corrupt)
	dirs := map[[2]int]string{}
	// recipe families
	switch r.Intn(19) {
	case 0: // crash from some phase on
		for _, c := range corrupt {
			p0 := hx.Pick(r, sendPhases)
			for _, p := range sendPhases {
				if p >= p0 {
					dirs[[2]int{c, p}] = "s"
				}
			}
		}
	case 1, 2: // partially valid points + (false) accusation by another corrupt member
		a := corrupt[0]
		dirs[[2]int{a, 7}] = "pt" + dots(subset(r, n, t))
		if len(corrupt) > 1 {
			dirs[[2]int{corrupt[1], 8}] = fmt.Sprintf("acc%d", a)
		}
	case 3: // bad share + accusation games
		a := corrupt[0]
		dirs[[2]int{a, 3}] = fmt.Sprintf("bad%d", r.Range(1, n))
		if len(corrupt) > 1 {
			dirs[[2]int{corrupt[1], 4}] = fmt.Sprintf("acc%d", hx.Pick(r, []int{a, r.Range(1, n)}))
		}
	case 4: // misbehaviour after QUAL + reveal games
		a := corrupt[0]
		dirs[[2]int{a, hx.Pick(r, []int{7, 8, 10})}] = "s"
		if len(corrupt) > 1 {
			dirs[[2]int{corrupt[1], 10}] = randomVariant(r, n, t, 10)
		}
	case 8, 9: // conflicting messages: first good / second bad and first bad / second good, one victim
		a := corrupt[0]
		if r.Chance(1, 3) {
			a = corrupt[len(corrupt)-1]
		}
		v := r.Range(1, n)
		ph := hx.Pick(r, sendPhases)
		var bad string
		switch ph {
		case 1:
			bad = fmt.Sprintf("rm%d", v)
		case 3:
			bad = hx.Pick(r, []string{fmt.Sprintf("bad%d", v), fmt.Sprintf("bad%d", v), fmt.Sprintf("garb%d", v), fmt.Sprintf("rs%d", v), "cm", "cp"})
		case 4, 8:
			bad = hx.Pick(r, []string{fmt.Sprintf("acc%d", v), fmt.Sprintf("accw%d", v)})
		case 7:
			bad = hx.Pick(r, []string{"pt" + dots(subset(r, n, t)), "pt" + dots(subset(r, n, t)), "pm", "pp"})
		default:
			bad = hx.Pick(r, []string{fmt.Sprintf("rev%d", v), fmt.Sprintf("revw%d", v)})
		}
		if r.Bool() {
			dirs[[2]int{a, ph}] = "h|" + bad
		} else {
			dirs[[2]int{a, ph}] = bad + "|h"
		}
		if ph == 10 || ph == 8 {
			// somebody must need reconstruction / be accusable for the message to matter
			for _, b := range corrupt {
				if b != a {
					dirs[[2]int{b, 7}] = hx.Pick(r, []string{"s", "pt" + dots(subset(r, n, t))})
				}
			}
		}
	case 10: // the highest-index member misbehaves (index range checks)
		a := n
		corrupt[len(corrupt)-1] = n
		ph := hx.Pick(r, []int{3, 7, 7, 8})
		switch ph {
		case 3:
			dirs[[2]int{a, 3}] = fmt.Sprintf("bad%d", r.Range(1, n-1))
		case 7:
			dirs[[2]int{a, 7}] = "pt" + dots(subset(r, n-1, t))
		default:
			dirs[[2]int{a, 8}] = fmt.Sprintf("acc%d", r.Range(1, n-1))
		}
	case 11, 12: // colluding pair: dealer m gives colluder k a bad share, k does not complain, m drops out later, k reveals / accuses late
		if len(corrupt) > 1 {
			m, k := corrupt[0], corrupt[1]
			if r.Bool() {
				m, k = k, m
			}
			dirs[[2]int{m, 3}] = hx.Pick(r, []string{fmt.Sprintf("bad%d", k), fmt.Sprintf("bad%d", k), fmt.Sprintf("garb%d", k)})
			dirs[[2]int{k, 4}] = fmt.Sprintf("drop%d", m)
			switch r.Intn(4) {
			case 0, 1:
				dirs[[2]int{m, 7}] = "s"
				dirs[[2]int{k, 10}] = fmt.Sprintf("rev%d", m)
			case 2:
				dirs[[2]int{m, 7}] = "pt" + dots(subset(r, n, t))
				dirs[[2]int{k, 10}] = fmt.Sprintf("rev%d", m)
			default:
				dirs[[2]int{k, 8}] = fmt.Sprintf("acc%d", m)
			}
		} else {
			dirs[[2]int{corrupt[0], 7}] = "s"
		}
	case 13: // higher-degree points valid for every honest member; the other corrupt members do not accuse
		a := corrupt[0]
		var hon []int
		for i := 1; i <= n; i++ {
			isC := false
			for _, c := range corrupt {
				if c == i {
					isC = true
				}
			}
			if !isC {
				hon = append(hon, i)
			}
		}
		dirs[[2]int{a, 7}] = "px" + dots(hon)
		for _, b := range corrupt[1:] {
			dirs[[2]int{b, 8}] = fmt.Sprintf("drop%d", a)
		}
	case 7: // corrupt-to-corrupt misbehaviour: only a corrupt member can (truthfully or not) accuse
		if len(corrupt) > 1 {
			a, b := corrupt[0], corrupt[1]
			dirs[[2]int{b, 3}] = hx.Pick(r, []string{fmt.Sprintf("bad%d", a), fmt.Sprintf("garb%d", a)})
			dirs[[2]int{a, 3}] = fmt.Sprintf("bad%d", r.Range(1, n))
			if r.Bool() {
				dirs[[2]int{a, 4}] = fmt.Sprintf("drop%d", b)
				dirs[[2]int{a, 7}] = "pt" + dots(subset(r, n, t))
				dirs[[2]int{a, 8}] = fmt.Sprintf("acc%d", b)
			}
		} else {
			dirs[[2]int{corrupt[0], 3}] = fmt.Sprintf("bad%d", r.Range(1, n))
		}
	case 5, 6: // a member drops out of (or never was in) QUAL-with-valid-points + key reveal games
		a := corrupt[0]
		switch r.Intn(6) {
		case 0:
			dirs[[2]int{a, 3}] = fmt.Sprintf("bad%d", r.Range(1, n))
		case 1:
			dirs[[2]int{a, 7}] = "s"
		case 2:
			dirs[[2]int{a, 8}] = hx.Pick(r, []string{"s", fmt.Sprintf("acc%d", r.Range(1, n))})
		case 3:
			dirs[[2]int{a, 10}] = "s"
		case 4:
			dirs[[2]int{a, 10}] = fmt.Sprintf("rev%d", r.Range(1, n))
		default:
			dirs[[2]int{a, 10}] = fmt.Sprintf("revw%d", r.Range(1, n))
		}
		for _, b := range corrupt[1:] {
			tgt := hx.Pick(r, corrupt)
			dirs[[2]int{b, 10}] = hx.Pick(r, []string{
				fmt.Sprintf("rev%d", tgt), fmt.Sprintf("revw%d", tgt), fmt.Sprintf("rev%d+drop%d", tgt, corrupt[0]),
				fmt.Sprintf("rev%d|rev%d", tgt, r.Range(1, n))})
		}
	default:
		for _, c := range corrupt {
			cnt := r.Range(1, 2)
			for i := 0; i < cnt; i++ {
				p := hx.Pick(r, sendPhases)
				var vs []string
				nv := 1
				if r.Chance(1, 6) {
					nv = 2
				}
				for v := 0; v < nv; v++ {
					if r.Chance(1, 8) {
						vs = append(vs, "s")
					} else {
						vs = append(vs, randomVariant(r, n, t, p))
					}
				}
				dirs[[2]int{c, p}] = strings.Join(vs, "|")
			}
		}
	}
	var keys [][2]int
	for k := range dirs {
		keys = append(keys, k)
	}
	sort.Slice(keys, func(i, j int) bool {
		if keys[i][0] != keys[j][0] {
			return keys[i][0] < keys[j][0]
		}
		return keys[i][1] < keys[j][1]
	})
	var ds []string
	for _, k := range keys {
		ds = append(ds, fmt.Sprintf("%d@%d:%s", k[0], k[1], dirs[k]))
	}
	return head + hx.JoinStrs(ds)
}

func Gen(r *hx.Rng, n int, tier string) []string {
	var ops []string
	for i := 0; i < n; i++ {
		ops = append(ops, genOne(r, tier))
	}
	return ops
}
