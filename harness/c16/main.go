// C16: broadcast delivery is at-most-once per message and stops on cancellation.
//
// Op lines (one complete history each):
//
//	chan <local|libp2p> <R> <step,step,...>
//	    two sender channels a, b on one broadcast channel name, R receivers registered on a
//	    (real Recv: handler loop + WithRetransmissionSupport), a harness-driven retransmission
//	    ticker (real ScheduleRetransmissions, standard strategy). Steps:
//	      s<x>.<y>  x concurrent Send on a and y on b (released together)
//	      t         one retransmission tick: every message sent so far is published again
//	      c<i>      cancel receiver i's context
//	      r         register one more receiver
//	      x<i>.<k>  receiver i's handler is blocked inside a message, k more messages queue up
//	                behind it, its context is cancelled, the handler is released
//	    after every step one more message is sent on a (it doubles as the quiescence marker).
//	    obs: per receiver  <i>:<sorted delivered ids, '.' separated>:<handler calls started
//	    after its cancellation>   joined by '|'
//	filter <G> <id,id,...>
//	    one WithRetransmissionSupport handler called from G goroutines (ids dealt round robin,
//	    all released together). obs: sorted delegate invocations (a duplicate shows twice)
//	flood <n>
//	    one WithRetransmissionSupport handler: message a0, then n further distinct messages,
//	    then a0 again (a late retransmission after a long history). obs: first=<delegate calls
//	    for a0> total=<delegate calls>
//	pfail <mask>
//	    one libp2p channel whose publisher fails transiently on the FIRST publish of the Sends
//	    marked 1 in <mask> (a string of 0/1, one sequential Send per character, Send context
//	    alive), then two retransmission ticks; a second channel carries a raw tap (the wire) and
//	    one real Recv (handler loop + duplicate filter). obs: sends errs fresh=<every distinct
//	    body on the wire has its own sequence number> wire=<distinct bodies on the wire>
//	    delivered=<distinct bodies delivered> dup=<handler calls beyond the distinct bodies>
//	seq <local|libp2p> <G> <M>
//	    G goroutines call nextSeqno M times each. obs: n=<count> distinct=<bool> min max mono=<bool>
package main

import (
	"context"
	"fmt"
	"runtime"
	"sort"
	"strconv"
	"strings"
	"sync"
	"sync/atomic"
	"time"

	"keepverif/harness/hx"

	"github.com/ipfs/go-log"

	"github.com/keep-network/keep-core/pkg/net"
	"github.com/keep-network/keep-core/pkg/net/libp2p"
	"github.com/keep-network/keep-core/pkg/net/local"
	"github.com/keep-network/keep-core/pkg/net/retransmission"
	"github.com/keep-network/keep-core/pkg/operator"
)

var logger = log.Logger("verif-c16")

// sentinel strategy: counts the ticks the ticker loop has started to handle
type counting struct{ n int64 }

func (c *counting) Tick(fn retransmission.RetransmitFn) error {
	atomic.AddInt64(&c.n, 1)
	return nil
}

// ---- generator ------------------------------------------------------------

func gen(r *hx.Rng, n int, tier string) []string {
	var ops []string
	for i := 0; i < n; i++ {
		switch r.Intn(10) {
		case 0, 1: // filter under concurrency
			g := r.Range(1, 24)
			k := r.Range(1, 40)
			distinct := r.Range(1, 6)
			var ids []string
			for j := 0; j < k; j++ {
				ids = append(ids, fmt.Sprintf("%c%d", "ab"[r.Intn(2)], r.Range(1, distinct)))
			}
			if r.Chance(1, 3) { // every goroutine the same message
				ids = ids[:1]
				for j := 1; j < g; j++ {
					ids = append(ids, ids[0])
				}
			}
			ops = append(ops, fmt.Sprintf("filter %d %s", g, strings.Join(ids, ",")))
		case 2:
			if r.Chance(1, 3) {
				k := r.Range(1, 8)
				mask := ""
				for j := 0; j < k; j++ {
					mask += hx.Pick(r, []string{"0", "0", "1"})
				}
				ops = append(ops, "pfail "+mask)
				continue
			}
			if r.Chance(1, 3) {
				ops = append(ops, fmt.Sprintf("flood %d", hx.Pick(r, []int{0, 1, 100, 2047, 2048, 4096, 8191, 8192, 8193, 20000, 30000})+r.Intn(3)))
				continue
			}
			ops = append(ops, fmt.Sprintf("seq %s %d %d", hx.Pick(r, []string{"local", "libp2p"}), r.Range(1, 16), r.Range(1, 50)))
		default:
			backend := hx.Pick(r, []string{"local", "libp2p"})
			nr := r.Range(1, 3)
			live := make([]bool, nr)
			for j := range live {
				live[j] = true
			}
			var steps []string
			sends := 0
			ns := r.Range(1, 7)
			for j := 0; j < ns && sends < 40; j++ {
				var liveIdx []int
				for k, l := range live {
					if l {
						liveIdx = append(liveIdx, k)
					}
				}
				switch c := r.Intn(10); {
				case c < 3:
					x, y := r.Range(0, 4), r.Range(0, 4)
					steps = append(steps, fmt.Sprintf("s%d.%d", x, y))
					sends += x + y
				case c < 6:
					steps = append(steps, "t")
				case c == 6 && len(liveIdx) > 0:
					k := hx.Pick(r, liveIdx)
					live[k] = false
					steps = append(steps, fmt.Sprintf("c%d", k))
				case c == 7 && len(live) < 5:
					live = append(live, true)
					steps = append(steps, "r")
				case c >= 8 && len(liveIdx) > 0:
					k := hx.Pick(r, liveIdx)
					live[k] = false
					q := r.Range(1, 6)
					steps = append(steps, fmt.Sprintf("x%d.%d", k, q))
					sends += q + 1
				default:
					steps = append(steps, "t")
				}
				sends++
			}
			ops = append(ops, fmt.Sprintf("chan %s %d %s", backend, nr, strings.Join(steps, ",")))
		}
	}
	return ops
}

// ---- messages -------------------------------------------------------------

type testMsg struct{ body string }

func (m *testMsg) Type() string             { return "verif/c16" }
func (m *testMsg) Marshal() ([]byte, error) { return []byte(m.body), nil }
func (m *testMsg) Unmarshal(b []byte) error { m.body = string(b); return nil }

type rawID string

func (r rawID) String() string { return string(r) }

type rawMsg struct {
	sender rawID
	seq    uint64
}

func (m *rawMsg) TransportSenderID() net.TransportIdentifier { return m.sender }
func (m *rawMsg) Payload() interface{}                       { return nil }
func (m *rawMsg) Type() string                               { return "raw" }
func (m *rawMsg) SenderPublicKey() []byte                    { return nil }
func (m *rawMsg) Seqno() uint64                              { return m.seq }

// A wait that times out is an observation ("stall:<where>"), never a verdict of the harness.
// After the first timeout of an op its remaining waits give up at once, and after a few stalled
// ops in one process the patience drops.
var (
	opStalled  int32
	stalledOps int32
)

func waitFor(cond func() bool) bool {
	to := 6 * time.Second
	if atomic.LoadInt32(&stalledOps) >= 6 {
		to = 200 * time.Millisecond
	}
	if atomic.LoadInt32(&opStalled) != 0 {
		to = 20 * time.Millisecond
	}
	deadline := time.Now().Add(to)
	for i := 0; !cond(); i++ {
		if time.Now().After(deadline) {
			if atomic.CompareAndSwapInt32(&opStalled, 0, 1) {
				atomic.AddInt32(&stalledOps, 1)
			}
			return false
		}
		if i < 100 {
			runtime.Gosched()
		} else {
			time.Sleep(50 * time.Microsecond)
		}
	}
	return true
}

type idT struct {
	s   byte
	seq uint64
}

func sortIDs(ids []idT) {
	sort.Slice(ids, func(i, j int) bool {
		if ids[i].s != ids[j].s {
			return ids[i].s < ids[j].s
		}
		return ids[i].seq < ids[j].seq
	})
}

func showIDs(ids []idT, sep string) string {
	if len(ids) == 0 {
		return "-"
	}
	var ss []string
	for _, id := range ids {
		ss = append(ss, fmt.Sprintf("%c%d", id.s, id.seq))
	}
	return strings.Join(ss, sep)
}

// ---- filter -----------------------------------------------------------------

func execFilter(f []string) (string, string) {
	g, err := strconv.Atoi(f[1])
	if err != nil || g < 1 || g > 64 {
		return "bad-op", "bad"
	}
	var msgs []*rawMsg
	for _, t := range hx.SplitList(f[2]) {
		if len(t) < 2 || (t[0] != 'a' && t[0] != 'b') {
			return "bad-op", "bad"
		}
		q, err := strconv.ParseUint(t[1:], 10, 32)
		if err != nil || t[1] == '+' {
			return "bad-op", "bad"
		}
		msgs = append(msgs, &rawMsg{rawID("sender-" + t[:1]), q})
	}
	var mu sync.Mutex
	var got []idT
	handler := retransmission.WithRetransmissionSupport(func(m net.Message) {
		mu.Lock()
		s := m.TransportSenderID().String()
		got = append(got, idT{s[len(s)-1], m.Seqno()})
		mu.Unlock()
	})
	gate := make(chan struct{})
	var wg sync.WaitGroup
	for w := 0; w < g; w++ {
		wg.Add(1)
		go func(w int) {
			defer wg.Done()
			<-gate
			for j := w; j < len(msgs); j += g {
				handler(msgs[j])
			}
		}(w)
	}
	close(gate)
	wg.Wait()
	sortIDs(got)
	dup := false
	seen := map[string]bool{}
	for _, t := range hx.SplitList(f[2]) {
		if seen[t] {
			dup = true
		}
		seen[t] = true
	}
	tag := "filter"
	if dup {
		tag += "+dup"
	}
	if g > 1 {
		tag += "+concurrent"
	}
	return showIDs(got, ","), tag
}

// ---- flood ------------------------------------------------------------------

func execFlood(f []string) (string, string) {
	n, err := strconv.ParseUint(f[1], 10, 32)
	if err != nil || n > 200000 || f[1][0] == '+' {
		return "bad-op", "bad"
	}
	first, total := 0, 0
	handler := retransmission.WithRetransmissionSupport(func(m net.Message) {
		total++
		if m.Seqno() == 0 {
			first++
		}
	})
	handler(&rawMsg{"sender-a", 0})
	for i := uint64(1); i <= n; i++ {
		s := rawID("sender-a")
		if i%3 == 0 {
			s = "sender-b"
		}
		handler(&rawMsg{s, i})
	}
	handler(&rawMsg{"sender-a", 0})
	tag := "flood"
	if n >= 10000 {
		tag += "+long"
	}
	return fmt.Sprintf("first=%d total=%d", first, total), tag
}

// ---- backends -----------------------------------------------------------------

type backend struct {
	a, b, t  net.BroadcastChannel
	handlers func() int // handlers registered on a
	tap      <-chan net.Message
	nextSeq  func() uint64
	idA, idB string
	close    func()
}

var chanCounter int64

func newBackend(kind string, ticker *retransmission.Ticker) (*backend, error) {
	be := &backend{}
	switch kind {
	case "local":
		name := fmt.Sprintf("verif-c16-%d", atomic.AddInt64(&chanCounter, 1))
		_, pub, err := operator.GenerateKeyPair(local.DefaultCurve)
		if err != nil {
			return nil, err
		}
		be.a = local.VerifC16NewChannel(name, pub, ticker)
		be.b = local.VerifC16NewChannel(name, pub, ticker)
		be.t = local.VerifC16NewChannel(name, pub, ticker) // delivered to last: carries the tap
		be.tap = local.VerifC16Tap(be.t, 1<<14)
		be.handlers = func() int { return local.VerifC16HandlerCount(be.a) }
		be.nextSeq = func() uint64 { return local.VerifC16NextSeqno(be.a) }
		be.idA, be.idB = local.VerifC16SenderID(be.a), local.VerifC16SenderID(be.b)
		be.close = func() { local.VerifC16Forget(name) }
	case "libp2p":
		var chans [3]net.BroadcastChannel
		for i := range chans {
			i := i
			priv, _, err := operator.GenerateKeyPair(libp2p.DefaultCurve)
			if err != nil {
				return nil, err
			}
			ch, err := libp2p.VerifC16NewChannel("verif-c16", priv, ticker, func(data []byte) error {
				for _, to := range chans { // the "network": a, b, then the tap channel
					if err := libp2p.VerifC16Inject(chans[i], to, data); err != nil {
						return err
					}
				}
				return nil
			})
			if err != nil {
				return nil, err
			}
			chans[i] = ch
		}
		be.a, be.b, be.t = chans[0], chans[1], chans[2]
		be.tap = libp2p.VerifC16Tap(be.t, 1<<14)
		be.handlers = func() int { return libp2p.VerifC16HandlerCount(be.a) }
		be.nextSeq = func() uint64 { return libp2p.VerifC16NextSeqno(be.a) }
		be.idA, be.idB = libp2p.VerifC16SenderID(be.a), libp2p.VerifC16SenderID(be.b)
		be.close = func() {}
	default:
		return nil, fmt.Errorf("backend")
	}
	for _, ch := range []net.BroadcastChannel{be.a, be.b, be.t} {
		ch.SetUnmarshaler(func() net.TaggedUnmarshaler { return &testMsg{} })
	}
	return be, nil
}

// ---- pfail ----------------------------------------------------------------------

func execPfail(f []string) (string, string) {
	mask := f[1]
	if len(mask) < 1 || len(mask) > 16 || strings.Trim(mask, "01") != "" {
		return "bad-op", "bad"
	}
	ticks := make(chan uint64)
	ticker := retransmission.NewTicker(ticks)
	var chans [2]net.BroadcastChannel
	var failNext int32
	for i := range chans {
		i := i
		priv, _, err := operator.GenerateKeyPair(libp2p.DefaultCurve)
		if err != nil {
			return "PANIC backend " + err.Error(), "bad"
		}
		ch, err := libp2p.VerifC16NewChannel("verif-c16-pfail", priv, ticker, func(data []byte) error {
			if i == 0 && atomic.CompareAndSwapInt32(&failNext, 1, 0) {
				return fmt.Errorf("transient publish failure")
			}
			return libp2p.VerifC16Inject(chans[i], chans[1], data)
		})
		if err != nil {
			return "PANIC backend " + err.Error(), "bad"
		}
		ch.SetUnmarshaler(func() net.TaggedUnmarshaler { return &testMsg{} })
		chans[i] = ch
	}
	a, t := chans[0], chans[1]
	tap := libp2p.VerifC16Tap(t, 1<<12)
	sendCtx, sendCancel := context.WithCancel(context.Background())
	defer sendCancel()
	sentinel := &counting{}
	retransmission.ScheduleRetransmissions(sendCtx, logger, ticker, func() error { return nil }, sentinel)
	waitFor(func() bool { return retransmission.VerifC17HandlerCount(ticker) == 1 })
	var mu sync.Mutex
	wire := map[string]map[uint64]bool{} // body -> sequence numbers it was seen with
	seqBodies := map[uint64]map[string]bool{}
	var tapCount int64
	tapDone := make(chan struct{})
	defer close(tapDone)
	go func() {
		for {
			select {
			case m := <-tap:
				body := ""
				if tm, ok := m.Payload().(*testMsg); ok {
					body = tm.body
				}
				mu.Lock()
				if wire[body] == nil {
					wire[body] = map[uint64]bool{}
				}
				wire[body][m.Seqno()] = true
				if seqBodies[m.Seqno()] == nil {
					seqBodies[m.Seqno()] = map[string]bool{}
				}
				seqBodies[m.Seqno()][body] = true
				mu.Unlock()
				atomic.AddInt64(&tapCount, 1)
			case <-tapDone:
				return
			}
		}
	}()
	recvCtx, recvCancel := context.WithCancel(context.Background())
	defer recvCancel()
	delivered := map[string]int{}
	var calls int64
	t.Recv(recvCtx, func(m net.Message) {
		body := ""
		if tm, ok := m.Payload().(*testMsg); ok {
			body = tm.body
		}
		mu.Lock()
		delivered[body]++
		mu.Unlock()
		atomic.AddInt64(&calls, 1)
	})
	n, errs := len(mask), 0
	expected := int64(0)
	for i, c := range mask {
		if c == '1' {
			atomic.StoreInt32(&failNext, 1)
		} else {
			expected++
		}
		if err := a.Send(sendCtx, &testMsg{fmt.Sprintf("p%d", i)}); err != nil {
			errs++
		}
	}
	stall := ""
	for tickNo := uint64(1); tickNo <= 2 && stall == ""; tickNo++ {
		if !waitFor(func() bool { return retransmission.VerifC17HandlerCount(ticker) == n+1 }) {
			stall = "schedule"
			break
		}
		ticks <- tickNo
		if !waitFor(func() bool { return atomic.LoadInt64(&sentinel.n) == int64(tickNo) }) {
			stall = "sentinel"
			break
		}
		expected += int64(n)
		if !waitFor(func() bool { return atomic.LoadInt64(&tapCount) >= expected }) {
			stall = "tap"
		}
	}
	// every distinct sequence number on the wire passes the duplicate filter exactly once
	waitFor(func() bool {
		mu.Lock()
		defer mu.Unlock()
		return atomic.LoadInt64(&calls) >= int64(len(seqBodies))
	})
	sendCancel()
	close(ticks)
	mu.Lock()
	defer mu.Unlock()
	fresh := true
	for _, seqs := range wire {
		if len(seqs) != 1 {
			fresh = false
		}
	}
	for _, bodies := range seqBodies {
		if len(bodies) != 1 {
			fresh = false
		}
	}
	dup := 0
	for _, k := range delivered {
		dup += k - 1
	}
	obs := fmt.Sprintf("sends=%d errs=%d fresh=%v wire=%d delivered=%d dup=%d", n, errs, fresh, len(wire), len(delivered), dup)
	if stall != "" {
		obs += " stall:" + stall
	}
	tag := "pfail"
	if errs > 0 {
		tag += "+publish-error"
	}
	if errs > 0 && strings.Contains(mask, "10") {
		tag += "+send-after-failed-publish"
	}
	return obs, tag
}

// ---- seq ------------------------------------------------------------------------

func execSeq(f []string) (string, string) {
	g, err1 := strconv.Atoi(f[2])
	m, err2 := strconv.Atoi(f[3])
	if err1 != nil || err2 != nil || g < 1 || g > 64 || m < 1 || m > 1000 {
		return "bad-op", "bad"
	}
	ticks := make(chan uint64)
	defer close(ticks)
	be, err := newBackend(f[1], retransmission.NewTicker(ticks))
	if err != nil {
		return "bad-op", "bad"
	}
	defer be.close()
	res := make([][]uint64, g)
	gate := make(chan struct{})
	var wg sync.WaitGroup
	for w := 0; w < g; w++ {
		wg.Add(1)
		go func(w int) {
			defer wg.Done()
			<-gate
			for j := 0; j < m; j++ {
				res[w] = append(res[w], be.nextSeq())
			}
		}(w)
	}
	close(gate)
	wg.Wait()
	seen := map[uint64]bool{}
	distinct, mono := true, true
	var mn, mx uint64
	n := 0
	for _, rs := range res {
		for j, v := range rs {
			if seen[v] {
				distinct = false
			}
			seen[v] = true
			if j > 0 && rs[j-1] >= v {
				mono = false
			}
			if n == 0 || v < mn {
				mn = v
			}
			if v > mx {
				mx = v
			}
			n++
		}
	}
	return fmt.Sprintf("n=%d distinct=%v min=%d max=%d mono=%v", n, distinct, mn, mx, mono), "seq+" + f[1]
}

// ---- chan -----------------------------------------------------------------------

type receiver struct {
	idx         int
	cancel      context.CancelFunc
	mu          sync.Mutex
	got         []idT
	late        int
	cancelled   int32
	entered     int32 // inside the blocking message
	gate        chan struct{}
	markersSeen int64
}

func execChan(f []string) (string, string) {
	nr, err := strconv.Atoi(f[2])
	if err != nil || nr < 1 || nr > 5 || (f[1] != "local" && f[1] != "libp2p") {
		return "bad-op", "bad"
	}
	type step struct {
		kind byte
		x, y int
	}
	var steps []step
	for _, t := range hx.SplitList(f[3]) {
		if t == "t" || t == "r" {
			steps = append(steps, step{t[0], 0, 0})
			continue
		}
		if len(t) < 2 {
			return "bad-op", "bad"
		}
		parts := strings.Split(t[1:], ".")
		var v []int
		for _, p := range parts {
			u, err := strconv.ParseUint(p, 10, 16)
			if err != nil || p[0] == '+' || u > 64 {
				return "bad-op", "bad"
			}
			v = append(v, int(u))
		}
		switch {
		case t[0] == 's' && len(v) == 2:
			steps = append(steps, step{'s', v[0], v[1]})
		case t[0] == 'c' && len(v) == 1:
			steps = append(steps, step{'c', v[0], 0})
		case t[0] == 'x' && len(v) == 2:
			steps = append(steps, step{'x', v[0], v[1]})
		default:
			return "bad-op", "bad"
		}
	}
	// validity (the model makes the same check): c/x only on a live receiver, ≤ 8 receivers
	{
		live := make([]bool, nr)
		for i := range live {
			live[i] = true
		}
		total := 0
		for _, s := range steps {
			switch s.kind {
			case 'r':
				live = append(live, true)
			case 'c', 'x':
				if s.x >= len(live) || !live[s.x] {
					return "bad-op", "bad"
				}
				live[s.x] = false
				total += s.y + 1
			case 's':
				total += s.x + s.y
			}
			total++
		}
		if len(live) > 8 || total > 120 {
			return "bad-op", "bad"
		}
	}

	ticks := make(chan uint64)
	ticker := retransmission.NewTicker(ticks)
	be, err := newBackend(f[1], ticker)
	if err != nil {
		return "PANIC backend " + err.Error(), "bad"
	}
	sendCtx, sendCancel := context.WithCancel(context.Background())
	// A tick is handled asynchronously by Ticker.start: the sentinel's count tells that the loop
	// holds the handler lock for tick n, so a retransmission scheduled afterwards is not part of it.
	sentinel := &counting{}
	retransmission.ScheduleRetransmissions(sendCtx, logger, ticker, func() error { return nil }, sentinel)
	waitFor(func() bool { return retransmission.VerifC17HandlerCount(ticker) == 1 })
	var tapCount int64
	tapDone := make(chan struct{})
	go func() {
		for {
			select {
			case <-be.tap:
				atomic.AddInt64(&tapCount, 1)
			case <-tapDone:
				return
			}
		}
	}()
	stall := ""
	var recvs []*receiver
	var markers int64
	register := func() {
		rc := &receiver{idx: len(recvs), gate: make(chan struct{})}
		ctx, cancel := context.WithCancel(context.Background())
		rc.cancel = cancel
		rc.markersSeen = atomic.LoadInt64(&markers)
		be.a.Recv(ctx, func(m net.Message) {
			late := atomic.LoadInt32(&rc.cancelled) != 0
			var s byte = '?'
			switch m.TransportSenderID().String() {
			case be.idA:
				s = 'a'
			case be.idB:
				s = 'b'
			}
			body := ""
			if tm, ok := m.Payload().(*testMsg); ok {
				body = tm.body
			}
			rc.mu.Lock()
			rc.got = append(rc.got, idT{s, m.Seqno()})
			if late {
				rc.late++
			}
			rc.mu.Unlock()
			if body == fmt.Sprintf("block:%d", rc.idx) {
				atomic.StoreInt32(&rc.entered, 1)
				<-rc.gate
			}
			if strings.HasPrefix(body, "marker:") {
				k, _ := strconv.ParseInt(body[7:], 10, 64)
				atomic.StoreInt64(&rc.markersSeen, k)
			}
		})
		recvs = append(recvs, rc)
	}
	for i := 0; i < nr; i++ {
		register()
	}
	sends := int64(0)    // messages sent so far (= scheduled retransmissions)
	expected := int64(0) // deliveries expected at the tap
	var sendErrs int32
	send := func(ch net.BroadcastChannel, body string) {
		if err := ch.Send(sendCtx, &testMsg{body}); err != nil {
			atomic.AddInt32(&sendErrs, 1)
		}
	}
	waitTap := func(where string) {
		if !waitFor(func() bool { return atomic.LoadInt64(&tapCount) >= expected }) && stall == "" {
			stall = where
		}
	}
	marker := func(where string) {
		k := atomic.AddInt64(&markers, 1)
		send(be.a, fmt.Sprintf("marker:%d", k))
		sends++
		expected++
		waitTap(where + "-tap")
		for _, rc := range recvs {
			if atomic.LoadInt32(&rc.cancelled) != 0 {
				continue
			}
			rc := rc
			if !waitFor(func() bool { return atomic.LoadInt64(&rc.markersSeen) >= k }) && stall == "" {
				stall = where + "-marker"
			}
		}
	}
	tickNo := uint64(0)
	tags := map[string]bool{}
	for si, s := range steps {
		if stall != "" {
			break
		}
		where := fmt.Sprintf("%d%c", si, s.kind)
		switch s.kind {
		case 's':
			gate := make(chan struct{})
			var wg sync.WaitGroup
			for j := 0; j < s.x+s.y; j++ {
				ch := be.a
				if j >= s.x {
					ch = be.b
				}
				wg.Add(1)
				go func(ch net.BroadcastChannel, j int) {
					defer wg.Done()
					<-gate
					send(ch, fmt.Sprintf("m%d", j))
				}(ch, j)
			}
			close(gate)
			wg.Wait()
			sends += int64(s.x + s.y)
			expected += int64(s.x + s.y)
			waitTap(where)
			tags["send"] = true
		case 't':
			// ScheduleRetransmissions registers its ticker handler asynchronously
			if !waitFor(func() bool { return int64(retransmission.VerifC17HandlerCount(ticker)) == sends+1 }) {
				stall = where + "-schedule"
				break
			}
			tickNo++
			ticks <- tickNo
			if !waitFor(func() bool { return atomic.LoadInt64(&sentinel.n) == int64(tickNo) }) {
				stall = where + "-sentinel"
				break
			}
			expected += sends
			waitTap(where)
			if sends > 0 {
				tags["retransmit"] = true
			}
		case 'r':
			register()
			tags["register"] = true
		case 'c':
			rc := recvs[s.x]
			before := be.handlers()
			atomic.StoreInt32(&rc.cancelled, 1)
			rc.cancel()
			if !waitFor(func() bool { return be.handlers() == before-1 }) {
				stall = where + "-remove"
			}
			tags["cancel"] = true
		case 'x':
			rc := recvs[s.x]
			send(be.a, fmt.Sprintf("block:%d", s.x))
			sends++
			expected++
			if !waitFor(func() bool { return atomic.LoadInt32(&rc.entered) != 0 }) {
				stall = where + "-enter"
				close(rc.gate)
				break
			}
			for j := 0; j < s.y; j++ {
				send(be.a, fmt.Sprintf("q%d", j))
			}
			sends += int64(s.y)
			expected += int64(s.y)
			waitTap(where)
			before := be.handlers()
			atomic.StoreInt32(&rc.cancelled, 1)
			rc.cancel()
			close(rc.gate)
			if !waitFor(func() bool { return be.handlers() == before-1 }) {
				stall = where + "-remove"
			}
			// give a (wrong) loop the chance to hand the queued messages to the handler;
			// the correct loop never does, however long this takes
			time.Sleep(300 * time.Microsecond)
			tags["blocked-cancel"] = true
		}
		if stall == "" {
			marker(where)
		}
	}
	// end of history
	for _, rc := range recvs {
		if atomic.LoadInt32(&rc.cancelled) == 0 {
			atomic.StoreInt32(&rc.cancelled, 1)
			rc.cancel()
		}
	}
	sendCancel()
	if stall == "" && !waitFor(func() bool { return be.handlers() == 0 }) {
		stall = "final-remove"
	}
	close(ticks)
	close(tapDone)
	be.close()

	var out []string
	for _, rc := range recvs {
		rc.mu.Lock()
		ids := append([]idT(nil), rc.got...)
		late := rc.late
		rc.mu.Unlock()
		sortIDs(ids)
		out = append(out, fmt.Sprintf("%d:%s:%d", rc.idx, showIDs(ids, "."), late))
	}
	obs := strings.Join(out, "|")
	if atomic.LoadInt32(&sendErrs) != 0 {
		obs += " send-errors"
	}
	if stall != "" {
		obs += " stall:" + stall
	}
	tag := "chan+" + f[1]
	for _, t := range []string{"send", "retransmit", "register", "cancel", "blocked-cancel"} {
		if tags[t] {
			tag += "+" + t
		}
	}
	return obs, tag
}

func exec(op string) (string, string) {
	atomic.StoreInt32(&opStalled, 0)
	f := strings.Split(op, " ")
	switch {
	case len(f) == 2 && f[0] == "flood":
		return execFlood(f)
	case len(f) == 3 && f[0] == "filter":
		return execFilter(f)
	case len(f) == 4 && f[0] == "seq":
		return execSeq(f)
	case len(f) == 2 && f[0] == "pfail":
		return execPfail(f)
	case len(f) == 4 && f[0] == "chan":
		return execChan(f)
	}
	return "bad-op", "bad"
}

func main() {
	hx.Main(&hx.Config{Prop: "C16", Gen: gen, Exec: exec})
}
