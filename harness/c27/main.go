// C27: signed wallet transactions pass Bitcoin script validation.
//
// Op line (one complete transaction build + sign + validate):
//
//	tx <keys> <inputs> <sigs> <mut> <h160 table> <sha256 table> <flow>
//
//	keys    sk:pk:hash160(pk),...                 key 0 is the wallet key
//	inputs  add:lock:value:redeem:label:grp,...  | -  add = pkh|sh (builder method), lock = locking
//	        script the chain reports, redeem = redeemScript argument (- = empty),
//	        label = w (proper wallet/deposit input) | x (addable, not the wallet's) | m (class mismatch)
//	        grp = previous-transaction group: inputs with the same grp spend different outputs of
//	        ONE previous transaction (output index = input position), others have their own
//	sigs    signer:claimed:digest:flavor,... | -  key that signs, key put into the container,
//	        index of the signature hash that is signed, flavor good|bad|highs
//	mut     none | amt:i | pk:i | dropredeem:i | extra:i   tampering with the *signed* transaction
//	        before it is handed to the script engine (validates the interpreter model on rejects)
//	flow    plain | recompute   recompute = ComputeSignatureHashes, then a second AddOutput, then
//	        ComputeSignatureHashes again; the second result is signed (the builder is stateful)
//	tables  data:hash,... | -                     HASH160 / SHA256 of the redeem scripts (facts about
//	        the external hash functions for the Lean model)
//
// Exec drives the REAL bitcoin.TransactionBuilder with a fake bitcoin.Chain, signs with btcec and
// runs every input through btcd's txscript engine with StandardVerifyFlags.
// Obs: err:<class>  or  in<i>=<scriptSig pushes>/<witness items>/<verdict> ...
package main

import (
	"bytes"
	"crypto/ecdsa"
	"crypto/sha256"
	"encoding/hex"
	"fmt"
	"math/big"
	"strconv"
	"strings"

	"keepverif/harness/hx"

	"github.com/btcsuite/btcd/btcec"
	"github.com/btcsuite/btcd/chaincfg/chainhash"
	"github.com/btcsuite/btcd/txscript"
	"github.com/btcsuite/btcd/wire"
	"github.com/btcsuite/btcutil"
	"github.com/keep-network/keep-core/pkg/bitcoin"
)

func hx2(b []byte) string {
	if len(b) == 0 {
		return "-"
	}
	return hex.EncodeToString(b)
}

func unhex(s string) []byte {
	if s == "-" {
		return nil
	}
	b, err := hex.DecodeString(s)
	if err != nil {
		panic("harness: bad hex " + s)
	}
	return b
}

func genKey(r *hx.Rng) *btcec.PrivateKey {
	for {
		b := r.Bytes(32)
		k := new(big.Int).SetBytes(b)
		if k.Sign() > 0 && k.Cmp(btcec.S256().N) < 0 {
			priv, _ := btcec.PrivKeyFromBytes(btcec.S256(), b)
			return priv
		}
	}
}

func le4(v uint32) []byte { return []byte{byte(v), byte(v >> 8), byte(v >> 16), byte(v >> 24)} }

// depositScript per the tBTC bridge specification (independent of pkg/tbtc).
func depositScript(depositor, extra, blinding, wpkh, rpkh, lt []byte) []byte {
	var b bytes.Buffer
	b.WriteByte(0x14)
	b.Write(depositor)
	b.WriteByte(0x75)
	if extra != nil {
		b.WriteByte(0x20)
		b.Write(extra)
		b.WriteByte(0x75)
	}
	b.WriteByte(0x08)
	b.Write(blinding)
	b.Write([]byte{0x75, 0x76, 0xa9, 0x14})
	b.Write(wpkh)
	b.Write([]byte{0x87, 0x63, 0xac, 0x67, 0x76, 0xa9, 0x14})
	b.Write(rpkh)
	b.Write([]byte{0x88, 0x04})
	b.Write(lt)
	b.Write([]byte{0xb1, 0x75, 0xac, 0x68})
	return b.Bytes()
}

func p2pkh(h []byte) []byte {
	return append(append([]byte{0x76, 0xa9, 0x14}, h...), 0x88, 0xac)
}
func p2wpkh(h []byte) []byte { return append([]byte{0x00, 0x14}, h...) }
func p2sh(h []byte) []byte   { return append(append([]byte{0xa9, 0x14}, h...), 0x87) }
func p2wsh(h []byte) []byte  { return append([]byte{0x00, 0x20}, h...) }

func sha(b []byte) []byte { h := sha256.Sum256(b); return h[:] }

func gen(r *hx.Rng, n int, tier string) []string {
	var ops []string
	for c := 0; c < n; c++ {
		nk := r.Range(2, 3)
		var keys []*btcec.PrivateKey
		var keyToks []string
		var pkhs [][]byte
		for i := 0; i < nk; i++ {
			k := genKey(r)
			keys = append(keys, k)
			pk := k.PubKey().SerializeCompressed()
			pkhs = append(pkhs, btcutil.Hash160(pk))
			keyToks = append(keyToks, hx2(k.Serialize())+":"+hx2(pk)+":"+hx2(pkhs[i]))
		}
		ni := r.Range(1, 5)
		if r.Chance(1, 25) {
			ni = 0
		}
		if r.Chance(1, 20) {
			ni = r.Range(6, 12)
		}
		h160 := map[string]string{}
		sha2 := map[string]string{}
		var h160Order, shaOrder []string
		var ins []string
		anyBadInput := false
		shareGroups := r.Chance(1, 3)
		for i := 0; i < ni; i++ {
			value := int64(r.Range(1000, 100000000))
			if r.Chance(1, 10) {
				value = hx.Pick(r, []int64{0, 1, 546, 2100000000000000})
			}
			owner := 0
			label := "w"
			if r.Chance(1, 14) {
				owner = 1 // someone else's output
				label = "x"
			}
			var lock, redeem []byte
			add := "pkh"
			mkRedeem := func() []byte {
				switch r.Intn(10) {
				case 0, 1: // P2PKH-shaped redeem script
					return p2pkh(pkhs[owner])
				case 2: // deposit where the key is the refund key: CLTV fails (locktime 0 / final sequence)
					label = "x"
					return depositScript(r.Bytes(20), nil, r.Bytes(8), r.Bytes(20), pkhs[owner], le4(uint32(r.Range(1600000000, 1900000000))))
				case 3: // unparsable / unsupported garbage
					label = "x"
					return r.Bytes(r.Range(1, 40))
				default:
					var extra []byte
					if r.Bool() {
						extra = r.Bytes(32)
					}
					return depositScript(r.Bytes(20), extra, r.Bytes(8), pkhs[owner], r.Bytes(20), le4(uint32(r.Range(1600000000, 1900000000))))
				}
			}
			switch r.Intn(4) {
			case 0:
				lock = p2pkh(pkhs[owner])
			case 1:
				lock = p2wpkh(pkhs[owner])
			case 2:
				add = "sh"
				redeem = mkRedeem()
				lock = p2sh(btcutil.Hash160(redeem))
			default:
				add = "sh"
				redeem = mkRedeem()
				lock = p2wsh(sha(redeem))
			}
			if r.Chance(1, 30) { // class mismatch: wrong builder method or a non-standard lock
				label = "m"
				switch r.Intn(3) {
				case 0:
					if add == "pkh" {
						add = "sh"
						redeem = p2pkh(pkhs[owner])
					} else {
						add = "pkh"
					}
				case 1:
					lock = append([]byte{0x51, 0x20}, r.Bytes(32)...) // witness v1 program
				default:
					lock = append([]byte{0x21}, append(keys[0].PubKey().SerializeCompressed(), 0xac)...) // P2PK
				}
			}
			if label != "w" {
				anyBadInput = true
			}
			if redeem != nil {
				k := hx2(redeem)
				if _, ok := h160[k]; !ok {
					h160[k] = hx2(btcutil.Hash160(redeem))
					sha2[k] = hx2(sha(redeem))
					h160Order = append(h160Order, k)
					shaOrder = append(shaOrder, k)
				}
			}
			grp := i
			if shareGroups && i > 0 && r.Chance(2, 3) {
				grp = r.Intn(i) // same previous transaction as an earlier input
			}
			ins = append(ins, fmt.Sprintf("%s:%s:%d:%s:%s:%d", add, hx2(lock), value, hx2(redeem), label, grp))
		}
		// signatures
		var sigs []string
		ns := ni
		if r.Chance(1, 25) {
			ns = r.Range(0, ni+1)
		}
		corrupt := -1
		if ns > 0 && r.Chance(1, 4) {
			corrupt = r.Intn(ns)
		}
		for i := 0; i < ns; i++ {
			signer, claimed, digest, flavor := 0, 0, i, "good"
			if r.Chance(1, 10) {
				flavor = "highs"
			}
			if i == corrupt {
				switch r.Intn(5) {
				case 0:
					flavor = "bad"
				case 1:
					signer = 1 // signed by another key, wallet key claimed
				case 2:
					claimed = 1 // wallet signature, other public key in the container
				case 3:
					if ni > 1 { // signature of another input's hash
						digest = (i + 1 + r.Intn(ni-1)) % ni
					} else {
						flavor = "bad"
					}
				default:
					signer, claimed = 1, 1 // consistently the wrong key: verifies, but is not the wallet key
				}
			}
			sigs = append(sigs, fmt.Sprintf("%d:%d:%d:%s", signer, claimed, digest, flavor))
		}
		mut := "none"
		if ni > 0 && !anyBadInput && corrupt < 0 && ns == ni && r.Chance(1, 4) {
			mut = hx.Pick(r, []string{"amt", "pk", "dropredeem", "extra"}) + ":" + fmt.Sprint(r.Intn(ni))
		}
		var t1, t2 []string
		for _, k := range h160Order {
			t1 = append(t1, k+":"+h160[k])
		}
		for _, k := range shaOrder {
			t2 = append(t2, k+":"+sha2[k])
		}
		flow := "plain"
		if r.Chance(1, 4) {
			flow = "recompute"
		}
		ops = append(ops, strings.Join([]string{"tx", hx.JoinStrs(keyToks), hx.JoinStrs(ins), hx.JoinStrs(sigs), mut,
			hx.JoinStrs(t1), hx.JoinStrs(t2), flow}, " "))
	}
	return ops
}

type fakeChain struct {
	bitcoin.Chain
	txs map[bitcoin.Hash]*bitcoin.Transaction
}

func (f *fakeChain) GetTransaction(h bitcoin.Hash) (*bitcoin.Transaction, error) {
	if t, ok := f.txs[h]; ok {
		return t, nil
	}
	return nil, fmt.Errorf("not found")
}

func errClass(err error) string {
	if err == nil {
		return "accept"
	}
	if se, ok := err.(txscript.Error); ok {
		switch se.ErrorCode {
		case txscript.ErrSigTooShort, txscript.ErrSigTooLong, txscript.ErrSigInvalidSeqID,
			txscript.ErrSigInvalidDataLen, txscript.ErrSigMissingSTypeID, txscript.ErrSigMissingSLen,
			txscript.ErrSigInvalidSLen, txscript.ErrSigInvalidRIntID, txscript.ErrSigZeroRLen,
			txscript.ErrSigNegativeR, txscript.ErrSigTooMuchRPadding, txscript.ErrSigInvalidSIntID,
			txscript.ErrSigZeroSLen, txscript.ErrSigNegativeS, txscript.ErrSigTooMuchSPadding:
			return "reject:ErrSigDER"
		}
		return "reject:" + se.ErrorCode.String()
	}
	return "reject:other"
}

type inSpec struct {
	add    string
	lock   []byte
	value  int64
	redeem []byte
	label  string
	grp    int
}

func classifyBuildErr(err error, i int) string {
	s := err.Error()
	switch {
	case strings.Contains(s, "is not P2PKH/P2WPKH"):
		return fmt.Sprintf("err:not-pkh:%d", i)
	case strings.Contains(s, "is not P2SH/P2WSH"):
		return fmt.Sprintf("err:not-sh:%d", i)
	case strings.Contains(s, "cannot calculate sighash for input"):
		return "err:sighash:" + between(s, "input [", "]")
	case strings.Contains(s, "signature hashes must be computed first"):
		return "err:nohashes"
	case strings.Contains(s, "wrong signatures count"):
		return "err:sigcount"
	case strings.Contains(s, "invalid signature for input"):
		return "err:invalid-signature:" + between(s, "input [", "]")
	case strings.Contains(s, "cannot build signature script for input"):
		return "err:build-script:" + between(s, "input [", "]")
	}
	return "err:other"
}

func between(s, a, b string) string {
	i := strings.Index(s, a)
	if i < 0 {
		return "?"
	}
	s = s[i+len(a):]
	j := strings.Index(s, b)
	if j < 0 {
		return "?"
	}
	return s[:j]
}

// pushes splits a push-only script into (opcode prefix, data) pairs.
func pushes(script []byte) ([][2][]byte, bool) {
	var out [][2][]byte
	for i := 0; i < len(script); {
		op := script[i]
		var n, hdr int
		switch {
		case op == 0x00:
			n, hdr = 0, 1
		case op <= 0x4b:
			n, hdr = int(op), 1
		case op == 0x4c && i+1 < len(script):
			n, hdr = int(script[i+1]), 2
		case op == 0x4d && i+2 < len(script):
			n, hdr = int(script[i+1])|int(script[i+2])<<8, 3
		case op >= 0x4f && op <= 0x60:
			out = append(out, [2][]byte{{op}, nil})
			i++
			continue
		default:
			return nil, false
		}
		if i+hdr+n > len(script) {
			return nil, false
		}
		out = append(out, [2][]byte{script[i : i+hdr], script[i+hdr : i+hdr+n]})
		i += hdr + n
	}
	return out, true
}

func exec(op string) (string, string) {
	f := strings.Fields(op)
	if len(f) != 8 || f[0] != "tx" {
		return "bad-op", "bad"
	}
	var privs []*btcec.PrivateKey
	for _, kt := range hx.SplitList(f[1]) {
		p := strings.Split(kt, ":")
		priv, _ := btcec.PrivKeyFromBytes(btcec.S256(), unhex(p[0]))
		privs = append(privs, priv)
	}
	var ins []inSpec
	for _, it := range hx.SplitList(f[2]) {
		p := strings.Split(it, ":")
		v, _ := strconv.ParseInt(p[2], 10, 64)
		ins = append(ins, inSpec{p[0], unhex(p[1]), v, unhex(p[3]), p[4], hx.Atoi(p[5])})
	}
	chain := &fakeChain{txs: map[bitcoin.Hash]*bitcoin.Transaction{}}
	builder := bitcoin.NewTransactionBuilder(chain)
	tags := map[string]bool{}
	var total int64
	// previous transactions: one per group, with one output per input of the group at the
	// input's position (distinct output indexes within one previous transaction)
	groupTx := map[int]*bitcoin.Transaction{}
	groupHash := map[int]bitcoin.Hash{}
	shared := map[int]int{}
	for i, in := range ins {
		shared[in.grp]++
		prev, ok := groupTx[in.grp]
		if !ok {
			prev = &bitcoin.Transaction{Version: 1}
			groupTx[in.grp] = prev
			var h bitcoin.Hash
			copy(h[:], sha([]byte(fmt.Sprintf("prev%d %s", in.grp, op))))
			groupHash[in.grp] = h
			chain.txs[h] = prev
		}
		for len(prev.Outputs) <= i {
			prev.Outputs = append(prev.Outputs, &bitcoin.TransactionOutput{Value: 1, PublicKeyScript: []byte{0x51}})
		}
		prev.Outputs[i] = &bitcoin.TransactionOutput{Value: in.value, PublicKeyScript: in.lock}
	}
	for i, in := range ins {
		if shared[in.grp] > 1 {
			tags["sharedprev"] = true
		}
		utxo := &bitcoin.UnspentTransactionOutput{
			Outpoint: &bitcoin.TransactionOutpoint{TransactionHash: groupHash[in.grp], OutputIndex: uint32(i)},
			Value:    in.value,
		}
		var err error
		if in.add == "pkh" {
			err = builder.AddPublicKeyHashInput(utxo)
		} else {
			err = builder.AddScriptHashInput(utxo, in.redeem)
		}
		if err != nil {
			return classifyBuildErr(err, i), "adderr"
		}
		total += in.value
		tags[string(txscript.GetScriptClass(in.lock).String())] = true
	}
	outScript, _ := bitcoin.PayToWitnessPublicKeyHash([20]byte{9, 9, 9})
	builder.AddOutput(&bitcoin.TransactionOutput{Value: total / 2, PublicKeyScript: outScript})
	if f[7] == "recompute" {
		// hashes requested, then the transaction still changes, then hashes requested again
		if _, err := builder.ComputeSignatureHashes(); err != nil {
			return classifyBuildErr(err, -1), "sighasherr"
		}
		builder.AddOutput(&bitcoin.TransactionOutput{Value: total / 4, PublicKeyScript: outScript})
		tags["recompute"] = true
	}

	hashes, err := builder.ComputeSignatureHashes()
	if err != nil {
		return classifyBuildErr(err, -1), "sighasherr"
	}
	var containers []*bitcoin.SignatureContainer
	for _, st := range hx.SplitList(f[3]) {
		p := strings.Split(st, ":")
		signer, claimed, di, flavor := hx.Atoi(p[0]), hx.Atoi(p[1]), hx.Atoi(p[2]), p[3]
		digest := make([]byte, 32)
		if di < len(hashes) {
			hashes[di].FillBytes(digest)
		}
		sig, err := privs[signer].Sign(digest)
		if err != nil {
			return "err:sign", "signerr"
		}
		r, s := sig.R, sig.S
		switch flavor {
		case "bad":
			r = new(big.Int).Add(r, big.NewInt(1))
			tags["sig-bad"] = true
		case "highs":
			s = new(big.Int).Sub(btcec.S256().N, s)
			tags["sig-highs"] = true
		}
		if signer != claimed || di != len(containers) {
			tags["sig-mismatch"] = true
		}
		containers = append(containers, &bitcoin.SignatureContainer{
			R: r, S: s, PublicKey: (*ecdsa.PublicKey)(privs[claimed].PubKey()),
		})
	}
	tx, err := builder.AddSignatures(containers)
	if err != nil {
		return classifyBuildErr(err, -1), "sigerr"
	}

	// the signed transaction as btcd sees it
	msg := wire.NewMsgTx(tx.Version)
	msg.LockTime = tx.Locktime
	for _, in := range tx.Inputs {
		h := chainhash.Hash(in.Outpoint.TransactionHash)
		ti := wire.NewTxIn(wire.NewOutPoint(&h, in.Outpoint.OutputIndex), in.SignatureScript, in.Witness)
		ti.Sequence = in.Sequence
		msg.AddTxIn(ti)
	}
	for _, o := range tx.Outputs {
		msg.AddTxOut(wire.NewTxOut(o.Value, o.PublicKeyScript))
	}
	// expected signature bytes per input (to print them symbolically)
	sigBytes := make([][]byte, len(containers))
	for i, c := range containers {
		sigBytes[i] = append((&btcec.Signature{R: c.R, S: c.S}).Serialize(), 0x01)
	}
	amounts := make([]int64, len(ins))
	for i := range ins {
		amounts[i] = ins[i].value
	}
	// tampering
	if f[4] != "none" {
		p := strings.Split(f[4], ":")
		i := hx.Atoi(p[1])
		tags["mut-"+p[0]] = true
		ti := msg.TxIn[i]
		otherPk := privs[1].PubKey().SerializeCompressed()
		rebuild := func(items [][]byte) []byte {
			b := txscript.NewScriptBuilder()
			for _, it := range items {
				b.AddData(it)
			}
			s, _ := b.Script()
			return s
		}
		var ssItems [][]byte
		if ps, ok := pushes(ti.SignatureScript); ok {
			for _, q := range ps {
				ssItems = append(ssItems, q[1])
			}
		}
		switch p[0] {
		case "amt":
			amounts[i]++
		case "pk":
			if len(ti.Witness) >= 2 {
				ti.Witness[1] = otherPk
			} else if len(ssItems) >= 2 {
				ssItems[1] = otherPk
				ti.SignatureScript = rebuild(ssItems)
			}
		case "dropredeem":
			if len(ti.Witness) == 3 {
				ti.Witness = ti.Witness[:2]
			} else if len(ssItems) == 3 {
				ti.SignatureScript = rebuild(ssItems[:2])
			}
		case "extra":
			if len(ti.Witness) > 0 {
				ti.Witness = append(wire.TxWitness{[]byte{7, 7}}, ti.Witness...)
			} else {
				ti.SignatureScript = rebuild(append([][]byte{{7, 7}}, ssItems...))
			}
		}
	}
	var parts []string
	allOK := true
	for i := range msg.TxIn {
		ti := msg.TxIn[i]
		show := func(b []byte) string {
			if bytes.Equal(b, sigBytes[i]) {
				return "sig"
			}
			return hx2(b)
		}
		ss := "-"
		if len(ti.SignatureScript) > 0 {
			ps, ok := pushes(ti.SignatureScript)
			if !ok {
				ss = "raw:" + hx2(ti.SignatureScript)
			} else {
				var xs []string
				for _, q := range ps {
					if bytes.Equal(q[1], sigBytes[i]) && len(q[0]) == 1 && int(q[0][0]) == len(q[1]) {
						xs = append(xs, "sig")
					} else {
						xs = append(xs, hx2(q[0])+":"+hx2(q[1]))
					}
				}
				ss = strings.Join(xs, ".")
			}
		}
		wit := "-"
		if len(ti.Witness) > 0 {
			var xs []string
			for _, w := range ti.Witness {
				xs = append(xs, show(w))
			}
			wit = strings.Join(xs, ".")
		}
		var verr error
		engine, verr := txscript.NewEngine(ins[i].lock, msg, i, txscript.StandardVerifyFlags, nil, nil, amounts[i])
		if verr == nil {
			verr = engine.Execute()
		}
		if verr != nil {
			allOK = false
		}
		parts = append(parts, fmt.Sprintf("in%d=%s/%s/%s", i, ss, wit, errClass(verr)))
	}
	if allOK {
		tags["accept"] = true
	} else {
		tags["reject"] = true
	}
	var ts []string
	for _, k := range []string{"pubkeyhash", "witness_v0_keyhash", "scripthash", "witness_v0_scripthash", "accept", "reject",
		"sig-bad", "sig-highs", "sig-mismatch", "sharedprev", "recompute", "mut-amt", "mut-pk", "mut-dropredeem", "mut-extra"} {
		if tags[k] {
			ts = append(ts, k)
		}
	}
	return strings.Join(parts, " "), "signed+" + strings.Join(ts, "+")
}

func main() {
	hx.Main(&hx.Config{Prop: "C27", Gen: gen, Exec: exec})
}
