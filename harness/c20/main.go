// C20: connection handshake completes exactly for honest peers on the same protocol.
//
// Op line (one complete handshake run with a network adversary per line):
//
//	hs <n1> <p1> <n2> <p2> <t1> <t2> <t3> <H>
//
// n1,n2  nonces the initiator / responder draw (crypto/rand.Reader is replaced by a scripted reader)
// p1,p2  protocol identifiers ("_" = empty string)
// t1     tampering of act 1 on the wire: "-" or comma list of n=<u64> l=<hex> p=<proto>
// t2     tampering of act 2: "-" or comma list of n=<u64> l=<hex> c=<hex> p=<proto>
// t3     tampering of act 3: "-" or c=<hex>
//
//	c=<hex> replaces the challenge FIELD by these bytes (0..40 bytes; 32 = a well-formed one),
//	l=<hex> replaces the nonce FIELD by these raw bytes (0..16 bytes; 8 = little-endian nonce):
//	fields of another length do not unmarshal (obs u<act>=err:wire).
// H      table a:b:<64 hex> of the REAL hashToChallenge values the model needs (H is a parameter
//
//	of the model; values are obtained from the real function through the verif hook)
//
// Obs line: a1=<n>:<p> r=ok a2=<n>:<c>:<p> i=ok a3=<c> f=ok   (stops at the first err:<class>)
// Every message travels through Marshal -> (tamper) -> Unmarshal like on the wire.
//
// Second op kind: the handshake as run by pkg/net/libp2p/authenticated_connection.go over a net.Pipe:
//
//	conn <R|I> <p1> <p2> <t1> <t2> <t3>
//
// R: the REAL responder (newAuthenticatedInboundConnection, protocol p2) against a harness initiator
// (protocol p1) that signs and sends what the op line says; I: the REAL initiator
// (newAuthenticatedOutboundConnection, protocol p1) against a harness responder (protocol p2).
// The nonces are random here, so alterations are relative: p=<proto>, nx=<u64 xor mask on the nonce>,
// cx=<byte pos>.<xor mask on the challenge>.  R uses t1 and t3 (t2 must be "-"), I uses t2.
// Obs: init=<ok|err:class> resp=<ok|err:class>  (err:io = the other side hung up)
package main

import (
	"bufio"
	crand "crypto/rand"
	"encoding/binary"
	"encoding/hex"
	"errors"
	"fmt"
	"io"
	"net"
	"strconv"
	"strings"
	"sync"
	"time"

	libp2pcrypto "github.com/libp2p/go-libp2p/core/crypto"
	"github.com/libp2p/go-libp2p/core/peer"
	protodelim "google.golang.org/protobuf/dev/encoding/protodelim"
	"google.golang.org/protobuf/proto"

	"keepverif/harness/hx"

	"github.com/keep-network/keep-core/pkg/firewall"
	"github.com/keep-network/keep-core/pkg/net/gen/pb"
	"github.com/keep-network/keep-core/pkg/net/libp2p"
	"github.com/keep-network/keep-core/pkg/net/security/handshake"
	"github.com/keep-network/keep-core/pkg/operator"
)

var protos = []string{"keep", "keep2", "tbtc", "_", "Keep", "keeq", "keep/1.0.0",
	"keep-network-random-beacon-and-tbtc-wallets-protocol-identifier-of-seventy-chars"}

func hstr(a, b uint64) string {
	h := handshake.VerifHashToChallenge(a, b)
	return hex.EncodeToString(h[:])
}

func flipBit(hx_ string, bit int) string {
	b, _ := hex.DecodeString(hx_)
	b[(bit/8)%len(b)] ^= 1 << (bit % 8)
	return hex.EncodeToString(b)
}

func nonce(r *hx.Rng) uint64 {
	switch r.Intn(12) {
	case 0:
		return 0
	case 1:
		return 1
	case 2:
		return ^uint64(0)
	case 3:
		return uint64(r.Intn(4))
	default:
		return r.U64()
	}
}

type htab struct {
	keys []string
	seen map[string]bool
}

func (t *htab) add(a, b uint64) string {
	k := fmt.Sprintf("%d:%d", a, b)
	h := hstr(a, b)
	if !t.seen[k] {
		t.seen[k] = true
		t.keys = append(t.keys, k+":"+h)
	}
	return h
}

// systematic: every byte position of both challenges and of both nonces is altered once per run
// (otherwise honest same-protocol handshakes), so a comparison that ignores any byte is caught.
func genSystematic(r *hx.Rng) []string {
	var ops []string
	line := func(n1, n2 uint64, p, t1, t2, t3 string, tab *htab) {
		tab.add(n1, n2)
		tab.add(n2, n1)
		ops = append(ops, fmt.Sprintf("hs %d %s %d %s %s %s %s %s", n1, p, n2, p, t1, t2, t3, hx.JoinStrs(tab.keys)))
	}
	for pos := 0; pos < 32; pos++ {
		for act := 2; act <= 3; act++ {
			n1, n2 := r.U64(), r.U64()
			tab := &htab{seen: map[string]bool{}}
			b, _ := hex.DecodeString(hstr(n1, n2))
			b[pos] ^= byte(r.Range(1, 255))
			c := "c=" + hex.EncodeToString(b)
			if act == 2 {
				line(n1, n2, hx.Pick(r, protos), "-", c, "-", tab)
			} else {
				line(n1, n2, hx.Pick(r, protos), "-", "-", c, tab)
			}
		}
	}
	// wire-level alterations: fields of the wrong length, with the right content as a prefix
	for _, extra := range []int{-32, -1, 1, 2, 8} {
		for act := 2; act <= 3; act++ {
			n1, n2 := r.U64(), r.U64()
			tab := &htab{seen: map[string]bool{}}
			b, _ := hex.DecodeString(hstr(n1, n2))
			if extra < 0 {
				b = b[:32+extra]
			} else {
				b = append(b, r.Bytes(extra)...)
			}
			c := "c=" + hex.EncodeToString(b)
			if act == 2 {
				line(n1, n2, hx.Pick(r, protos), "-", c, "-", tab)
			} else {
				line(n1, n2, hx.Pick(r, protos), "-", "-", c, tab)
			}
		}
	}
	for _, extra := range []int{-8, -1, 0, 1, 8} {
		for act := 1; act <= 2; act++ {
			n1, n2 := r.U64(), r.U64()
			tab := &htab{seen: map[string]bool{}}
			raw := le(n1)
			if act == 2 {
				raw = le(n2)
			}
			if extra < 0 {
				raw = raw[:8+extra]
			} else {
				raw = append(raw, make([]byte, extra)...)
			}
			l := "l=" + hex.EncodeToString(raw)
			if act == 1 {
				line(n1, n2, hx.Pick(r, protos), l, "-", "-", tab)
			} else {
				line(n1, n2, hx.Pick(r, protos), "-", l, "-", tab)
			}
		}
	}
	for pos := 0; pos < 8; pos++ {
		for act := 1; act <= 2; act++ {
			n1, n2 := r.U64(), r.U64()
			tab := &htab{seen: map[string]bool{}}
			mask := uint64(r.Range(1, 255)) << (8 * uint(pos))
			if act == 1 {
				tab.add(n1^mask, n2)
				line(n1, n2, hx.Pick(r, protos), fmt.Sprintf("n=%d", n1^mask), "-", "-", tab)
			} else {
				tab.add(n1, n2^mask)
				line(n1, n2, hx.Pick(r, protos), "-", fmt.Sprintf("n=%d", n2^mask), "-", tab)
			}
		}
	}
	return ops
}

func gen(r *hx.Rng, n int, tier string) []string {
	var ops []string
	if n >= 200 {
		ops = genSystematic(r)
		n -= len(ops)
	}
	for i := 0; i < n; i++ {
		if r.Chance(1, 10) {
			ops = append(ops, genConn(r))
			continue
		}
		n1, n2 := nonce(r), nonce(r)
		if r.Chance(1, 15) {
			n2 = n1
		}
		p1 := hx.Pick(r, protos)
		p2 := p1
		if r.Chance(1, 5) {
			p2 = hx.Pick(r, protos)
		}
		// another (honest) run to replay from
		o1, o2 := nonce(r), nonce(r)
		if r.Chance(1, 3) {
			o1 = n1 // same initiator nonce, different responder nonce
		} else if r.Chance(1, 3) {
			o2 = n2
		}
		tab := &htab{seen: map[string]bool{}}
		var t1, t2, t3 []string
		m1n := n1 // nonce the responder sees
		m2n := n2 // nonce the initiator sees
		altN := func(orig uint64) uint64 {
			switch r.Intn(5) {
			case 0:
				return orig ^ (1 << uint(r.Intn(64)))
			case 1:
				return orig + 1
			case 2:
				return n1 ^ n2 ^ orig // the other party's nonce
			default:
				return nonce(r)
			}
		}
		altC := func(real string) string {
			switch r.Intn(6) {
			case 0:
				return flipBit(real, r.Intn(256))
			case 1:
				return hex.EncodeToString(r.Bytes(32))
			case 2:
				return tab.add(n2, n1) // nonce order swapped
			case 3:
				return tab.add(o1, o2) // challenge of another run
			case 4:
				return strings.Repeat("00", 32)
			default:
				return flipBit(real, 8*r.Intn(32)+r.Intn(8))
			}
		}
		altP := func(orig string) string {
			for {
				p := hx.Pick(r, protos)
				if p != orig || r.Chance(1, 8) {
					return p
				}
			}
		}
		switch r.Intn(14) {
		case 0, 1: // honest run
		case 2:
			m1n = altN(n1)
			t1 = append(t1, fmt.Sprintf("n=%d", m1n))
		case 3:
			t1 = append(t1, "p="+altP(p1))
		case 4:
			m2n = altN(n2)
			t2 = append(t2, fmt.Sprintf("n=%d", m2n))
		case 5:
			t2 = append(t2, "c="+altC(hstr(n1, n2)))
		case 6:
			t2 = append(t2, "p="+altP(p2))
		case 7:
			t3 = append(t3, "c="+altC(hstr(n1, n2)))
		case 8: // replay of act 2 of another run
			m2n = o2
			t2 = append(t2, fmt.Sprintf("n=%d", o2), "c="+tab.add(o1, o2))
			if r.Bool() {
				t2 = append(t2, "p="+p2)
			}
		case 9: // replay of act 3 / act 1 of another run
			if r.Bool() {
				t3 = append(t3, "c="+tab.add(o1, o2))
			} else {
				m1n = o1
				t1 = append(t1, fmt.Sprintf("n=%d", o1), "p="+p1)
			}
		case 10: // consistent man in the middle: every check passes although act 1 was altered
			m1n = altN(n1)
			t1 = append(t1, fmt.Sprintf("n=%d", m1n))
			t2 = append(t2, "c="+tab.add(n1, n2))
			t3 = append(t3, "c="+tab.add(m1n, n2))
		case 11: // identity "tampering": fields rewritten with their own values
			t1 = append(t1, fmt.Sprintf("n=%d", n1), "p="+p1)
			t2 = append(t2, fmt.Sprintf("n=%d", n2), "c="+tab.add(n1, n2), "p="+p2)
			t3 = append(t3, "c="+tab.add(n1, n2))
		default: // random multi-field tampering
			if r.Bool() {
				m1n = altN(n1)
				t1 = append(t1, fmt.Sprintf("n=%d", m1n))
			}
			if r.Chance(1, 4) {
				t1 = append(t1, "p="+altP(p1))
			}
			if r.Bool() {
				m2n = altN(n2)
				t2 = append(t2, fmt.Sprintf("n=%d", m2n))
			}
			if r.Bool() {
				t2 = append(t2, "c="+altC(hstr(n1, m2n)))
			}
			if r.Chance(1, 4) {
				t2 = append(t2, "p="+altP(p2))
			}
			if r.Bool() {
				t3 = append(t3, "c="+altC(hstr(m1n, n2)))
			}
		}
		tab.add(m1n, n2) // what the responder derives
		tab.add(n1, m2n) // what the initiator derives
		tab.add(n1, n2)
		tab.add(n2, n1)
		ops = append(ops, fmt.Sprintf("hs %d %s %d %s %s %s %s %s", n1, p1, n2, p2,
			hx.JoinStrs(t1), hx.JoinStrs(t2), hx.JoinStrs(t3), hx.JoinStrs(tab.keys)))
	}
	return ops
}

func genConn(r *hx.Rng) string {
	p1 := hx.Pick(r, protos)
	p2 := p1
	if r.Chance(1, 6) {
		p2 = hx.Pick(r, protos)
	}
	cx := func() string { return fmt.Sprintf("cx=%d.%d", r.Intn(32), r.Range(1, 255)) }
	nx := func() string { return fmt.Sprintf("nx=%d", uint64(r.Range(1, 255))<<(8*uint(r.Intn(8)))) }
	pp := func(orig string) string {
		for {
			if p := hx.Pick(r, protos); p != orig {
				return "p=" + p
			}
		}
	}
	if r.Bool() {
		t1, t3 := "-", "-"
		switch r.Intn(8) {
		case 0, 1:
		case 2, 3, 4:
			t3 = cx() // correctly signed act 3 with a wrong challenge
		case 5:
			t1 = nx()
		case 6:
			t1 = pp(p1)
			if p1 != p2 {
				t1 = "p=" + p2 // act 1 rewritten to the responder's protocol: the initiator must refuse act 2
			}
		default:
			t1, t3 = nx(), cx()
		}
		return fmt.Sprintf("conn R %s %s %s - %s", p1, p2, t1, t3)
	}
	t2 := "-"
	switch r.Intn(8) {
	case 0, 1:
	case 2, 3:
		t2 = cx()
	case 4:
		t2 = nx()
	case 5:
		t2 = pp(p2)
	case 6:
		t2 = "cx=0.0" // rewritten with the same value
	default:
		t2 = nx() + "," + cx()
	}
	return fmt.Sprintf("conn I %s %s - %s -", p1, p2, t2)
}

// scripted replacement of crypto/rand.Reader
type scripted struct{ buf []byte }

func (s *scripted) Read(p []byte) (int, error) {
	if len(s.buf) == 0 {
		return 0, errors.New("scripted randomness exhausted")
	}
	n := copy(p, s.buf)
	s.buf = s.buf[n:]
	return n, nil
}

func le(n uint64) []byte {
	b := make([]byte, 8)
	binary.LittleEndian.PutUint64(b, n)
	return b
}

func pstr(tok string) string {
	if tok == "_" {
		return ""
	}
	return tok
}

func ptok(s string) string {
	if s == "" {
		return "_"
	}
	return s
}

func errClass(err error) string {
	s := err.Error()
	switch {
	case strings.Contains(s, "unsupported protocol"):
		return "err:protocol"
	case strings.Contains(s, "unexpected responder's challenge"):
		return "err:challenge"
	case strings.Contains(s, "unexpected initiator's challenge"):
		return "err:challenge"
	case strings.Contains(s, "nonce"), strings.Contains(s, "could not"):
		return "err:rand"
	}
	return "err:other"
}

type tamper struct {
	n    *uint64
	l    []byte // raw nonce field
	hasL bool
	c    []byte
	hasC bool
	p    *string
	used bool
}

func parseTamper(s string, allow string) (*tamper, bool) {
	t := &tamper{}
	for _, f := range hx.SplitList(s) {
		if len(f) < 2 || f[1] != '=' || !strings.ContainsRune(allow, rune(f[0])) {
			return nil, false
		}
		v := f[2:]
		t.used = true
		switch f[0] {
		case 'n':
			x, err := strconv.ParseUint(v, 10, 64)
			if err != nil || t.n != nil || t.hasL {
				return nil, false
			}
			t.n = &x
		case 'l':
			b, err := hex.DecodeString(v)
			if err != nil || len(b) > 16 || t.hasL || t.n != nil || strings.ToLower(v) != v {
				return nil, false
			}
			t.l, t.hasL = b, true
		case 'c':
			b, err := hex.DecodeString(v)
			if err != nil || len(b) > 40 || t.hasC || strings.ToLower(v) != v {
				return nil, false
			}
			t.c, t.hasC = b, true
		case 'p':
			if t.p != nil || v == "" {
				return nil, false
			}
			x := pstr(v)
			t.p = &x
		}
	}
	return t, true
}

func validTable(s string) bool {
	for _, e := range hx.SplitList(s) {
		f := strings.Split(e, ":")
		if len(f) != 3 {
			return false
		}
		if _, err := strconv.ParseUint(f[0], 10, 64); err != nil {
			return false
		}
		if _, err := strconv.ParseUint(f[1], 10, 64); err != nil {
			return false
		}
		if b, err := hex.DecodeString(f[2]); err != nil || len(b) != 32 || strings.ToLower(f[2]) != f[2] {
			return false
		}
	}
	return true
}

func exec(op string) (string, string) {
	f := strings.Split(op, " ")
	if len(f) == 7 && f[0] == "conn" {
		return execConn(f)
	}
	if len(f) != 9 || f[0] != "hs" {
		return "bad-op", "bad"
	}
	n1, e1 := strconv.ParseUint(f[1], 10, 64)
	n2, e2 := strconv.ParseUint(f[3], 10, 64)
	t1, ok1 := parseTamper(f[5], "nlp")
	t2, ok2 := parseTamper(f[6], "nlcp")
	t3, ok3 := parseTamper(f[7], "c")
	if e1 != nil || e2 != nil || !ok1 || !ok2 || !ok3 || f[2] == "" || f[4] == "" || !validTable(f[8]) {
		return "bad-op", "bad"
	}
	p1, p2 := pstr(f[2]), pstr(f[4])

	old := crand.Reader
	crand.Reader = io.Reader(&scripted{buf: append(le(n1), le(n2)...)})
	defer func() { crand.Reader = old }()

	var obs []string
	tags := []string{}
	if t1.used || t2.used || t3.used {
		tags = append(tags, "tamper")
	} else if p1 == p2 {
		tags = append(tags, "honest")
	} else {
		tags = append(tags, "honest-mismatch")
	}
	done := func(last string) (string, string) {
		return strings.Join(obs, " "), strings.Join(append([]string{last}, tags...), "+")
	}

	// act 1
	ia1, err := handshake.InitiateHandshake(p1)
	if err != nil {
		obs = append(obs, "init="+errClass(err))
		return done("init-err")
	}
	w1, err := ia1.Message().Marshal()
	if err != nil {
		return "marshal-error", "bad"
	}
	var pb1 pb.Act1Message
	if err := proto.Unmarshal(w1, &pb1); err != nil || len(pb1.Nonce) != 8 {
		return "wire-error", "bad"
	}
	obs = append(obs, fmt.Sprintf("a1=%d:%s", binary.LittleEndian.Uint64(pb1.Nonce), ptok(pb1.Protocol)))
	ia2 := ia1.Next()
	if t1.n != nil {
		pb1.Nonce = le(*t1.n)
	}
	if t1.hasL {
		pb1.Nonce = t1.l
	}
	if t1.p != nil {
		pb1.Protocol = *t1.p
	}
	w1, _ = proto.Marshal(&pb1)
	m1 := &handshake.Act1Message{}
	if err := m1.Unmarshal(w1); err != nil {
		obs = append(obs, "u1=err:wire")
		return done("wire1")
	}

	// act 2
	ra2, err := handshake.AnswerHandshake(m1, p2)
	if err != nil {
		obs = append(obs, "r="+errClass(err))
		return done("r-proto")
	}
	obs = append(obs, "r=ok")
	w2, err := ra2.Message().Marshal()
	if err != nil {
		return "marshal-error", "bad"
	}
	var pb2 pb.Act2Message
	if err := proto.Unmarshal(w2, &pb2); err != nil || len(pb2.Nonce) != 8 || len(pb2.Challenge) != 32 {
		return "wire-error", "bad"
	}
	obs = append(obs, fmt.Sprintf("a2=%d:%s:%s", binary.LittleEndian.Uint64(pb2.Nonce),
		hex.EncodeToString(pb2.Challenge), ptok(pb2.Protocol)))
	ra3 := ra2.Next()
	if t2.n != nil {
		pb2.Nonce = le(*t2.n)
	}
	if t2.hasL {
		pb2.Nonce = t2.l
	}
	if t2.hasC {
		if len(t2.c) > 32 && string(t2.c[:32]) == string(pb2.Challenge) {
			tags = append(tags, "c2-long")
		}
		pb2.Challenge = t2.c
	}
	if t2.p != nil {
		pb2.Protocol = *t2.p
	}
	w2, _ = proto.Marshal(&pb2)
	m2 := &handshake.Act2Message{}
	if err := m2.Unmarshal(w2); err != nil {
		obs = append(obs, "u2=err:wire")
		return done("wire2")
	}

	// act 3
	if t2.hasC {
		if t := diffTag("c2", t2.c, ra2.Message()); t != "" {
			tags = append(tags, t)
		}
	}
	ia3, err := ia2.Next(m2)
	if err != nil {
		obs = append(obs, "i="+errClass(err))
		if errClass(err) == "err:protocol" {
			return done("i-proto")
		}
		return done("i-chal")
	}
	obs = append(obs, "i=ok")
	w3, err := ia3.Message().Marshal()
	if err != nil {
		return "marshal-error", "bad"
	}
	var pb3 pb.Act3Message
	if err := proto.Unmarshal(w3, &pb3); err != nil || len(pb3.Challenge) != 32 {
		return "wire-error", "bad"
	}
	obs = append(obs, "a3="+hex.EncodeToString(pb3.Challenge))
	if t3.hasC {
		if t := diffTag("c3", t3.c, ra2.Message()); t != "" {
			tags = append(tags, t)
		}
		if len(t3.c) > 32 && string(t3.c[:32]) == string(pb3.Challenge) {
			tags = append(tags, "c3-long")
		}
		pb3.Challenge = t3.c
	}
	w3, _ = proto.Marshal(&pb3)
	m3 := &handshake.Act3Message{}
	if err := m3.Unmarshal(w3); err != nil {
		obs = append(obs, "u3=err:wire")
		return done("wire3")
	}
	if err := ra3.FinalizeHandshake(m3); err != nil {
		obs = append(obs, "f="+errClass(err))
		return done("f-chal")
	}
	obs = append(obs, "f=ok")
	return done("ok")
}

// ---- connection level (authenticated_connection.go) ---------------------------

type relTamper struct {
	p      *string
	nx     uint64
	cxPos  int
	cxMask byte
	hasCx  bool
	used   bool
}

func parseRel(s string, allow string) (*relTamper, bool) {
	t := &relTamper{}
	for _, it := range hx.SplitList(s) {
		kv := strings.SplitN(it, "=", 2)
		if len(kv) != 2 || kv[1] == "" || !strings.Contains(allow, kv[0]+";") {
			return nil, false
		}
		t.used = true
		switch kv[0] {
		case "p":
			if t.p != nil {
				return nil, false
			}
			x := pstr(kv[1])
			t.p = &x
		case "nx":
			x, err := strconv.ParseUint(kv[1], 10, 64)
			if err != nil || t.nx != 0 {
				return nil, false
			}
			t.nx = x
		case "cx":
			pm := strings.Split(kv[1], ".")
			if len(pm) != 2 || t.hasCx {
				return nil, false
			}
			pos, e1 := strconv.ParseUint(pm[0], 10, 8)
			mask, e2 := strconv.ParseUint(pm[1], 10, 8)
			if e1 != nil || e2 != nil || pos > 31 {
				return nil, false
			}
			t.cxPos, t.cxMask, t.hasCx = int(pos), byte(mask), true
		}
	}
	return t, true
}

type connPeer struct {
	priv libp2pcrypto.PrivKey
	id   peer.ID
}

var (
	peersOnce sync.Once
	connPeers [2]connPeer
)

func initPeers() {
	for i := range connPeers {
		opPriv, _, err := operator.GenerateKeyPair(libp2p.DefaultCurve)
		if err != nil {
			panic(err)
		}
		priv, _, err := libp2p.VerifC20NetworkKeyPair(opPriv)
		if err != nil {
			panic(err)
		}
		id, err := peer.IDFromPrivateKey(priv)
		if err != nil {
			panic(err)
		}
		connPeers[i] = connPeer{priv, id}
	}
}

func sendEnvelope(c net.Conn, who connPeer, wire []byte) error {
	sig, err := who.priv.Sign(wire)
	if err != nil {
		return err
	}
	_, err = (&protodelim.MarshalOptions{}).MarshalTo(c, &pb.HandshakeEnvelope{
		Message: wire, PeerID: []byte(who.id), Signature: sig,
	})
	return err
}

func recvEnvelope(rd *bufio.Reader) ([]byte, error) {
	var env pb.HandshakeEnvelope
	if err := (&protodelim.UnmarshalOptions{MaxSize: 1024}).UnmarshalFrom(rd, &env); err != nil {
		return nil, err
	}
	return env.Message, nil
}

func connClass(err error) string {
	if err == nil {
		return "ok"
	}
	s := err.Error()
	switch {
	case strings.Contains(s, "unsupported protocol"):
		return "err:protocol"
	case strings.Contains(s, "unexpected responder's challenge"), strings.Contains(s, "unexpected initiator's challenge"):
		return "err:challenge"
	case strings.Contains(s, "invalid challenge length"), strings.Contains(s, "invalid nonce length"):
		return "err:wire"
	case strings.Contains(s, "EOF"), strings.Contains(s, "closed pipe"):
		return "err:io"
	}
	return "err:other"
}

func xorNonce(b []byte, mask uint64) []byte {
	if len(b) != 8 {
		return b
	}
	return le(binary.LittleEndian.Uint64(b) ^ mask)
}

func execConn(f []string) (string, string) {
	role := f[1]
	if (role != "R" && role != "I") || f[2] == "" || f[3] == "" {
		return "bad-op", "bad"
	}
	t1, ok1 := parseRel(f[4], "p;nx;")
	t2, ok2 := parseRel(f[5], "p;nx;cx;")
	t3, ok3 := parseRel(f[6], "cx;")
	if !ok1 || !ok2 || !ok3 || (role == "R" && t2.used) || (role == "I" && (t1.used || t3.used)) {
		return "bad-op", "bad"
	}
	p1, p2 := pstr(f[2]), pstr(f[3])
	peersOnce.Do(initPeers)
	ini, rsp := connPeers[0], connPeers[1]
	a, b := net.Pipe() // a: initiator's end, b: responder's end
	defer a.Close()
	defer b.Close()
	real := make(chan error, 1)
	var initRes, respRes string

	if role == "R" {
		go func() { real <- libp2p.VerifC20InboundHandshake(b, rsp.id, rsp.priv, firewall.Disabled, p2) }()
		initRes = connClass(func() error {
			rd := bufio.NewReader(a)
			ia1, err := handshake.InitiateHandshake(p1)
			if err != nil {
				return err
			}
			w1, _ := ia1.Message().Marshal()
			var m1 pb.Act1Message
			if err := proto.Unmarshal(w1, &m1); err != nil {
				return err
			}
			m1.Nonce = xorNonce(m1.Nonce, t1.nx)
			if t1.p != nil {
				m1.Protocol = *t1.p
			}
			w1, _ = proto.Marshal(&m1)
			if err := sendEnvelope(a, ini, w1); err != nil {
				return err
			}
			ia2 := ia1.Next()
			w2, err := recvEnvelope(rd)
			if err != nil {
				return err
			}
			act2 := &handshake.Act2Message{}
			if err := act2.Unmarshal(w2); err != nil {
				return err
			}
			ia3, err := ia2.Next(act2)
			if err != nil {
				return err
			}
			w3, _ := ia3.Message().Marshal()
			var m3 pb.Act3Message
			if err := proto.Unmarshal(w3, &m3); err != nil {
				return err
			}
			if t3.hasCx {
				m3.Challenge[t3.cxPos] ^= t3.cxMask
			}
			w3, _ = proto.Marshal(&m3)
			return sendEnvelope(a, ini, w3)
		}())
		if initRes != "ok" {
			a.Close() // the initiator hangs up
		}
		select {
		case err := <-real:
			respRes = connClass(err)
		case <-time.After(10 * time.Second):
			respRes = "hang"
		}
	} else {
		go func() {
			real <- libp2p.VerifC20OutboundHandshake(a, ini.id, ini.priv, rsp.id, firewall.Disabled, p1)
		}()
		respRes = connClass(func() error {
			rd := bufio.NewReader(b)
			w1, err := recvEnvelope(rd)
			if err != nil {
				return err
			}
			act1 := &handshake.Act1Message{}
			if err := act1.Unmarshal(w1); err != nil {
				return err
			}
			ra2, err := handshake.AnswerHandshake(act1, p2)
			if err != nil {
				return err
			}
			w2, _ := ra2.Message().Marshal()
			var m2 pb.Act2Message
			if err := proto.Unmarshal(w2, &m2); err != nil {
				return err
			}
			m2.Nonce = xorNonce(m2.Nonce, t2.nx)
			if t2.hasCx && len(m2.Challenge) == 32 {
				m2.Challenge[t2.cxPos] ^= t2.cxMask
			}
			if t2.p != nil {
				m2.Protocol = *t2.p
			}
			w2, _ = proto.Marshal(&m2)
			if err := sendEnvelope(b, rsp, w2); err != nil {
				return err
			}
			ra3 := ra2.Next()
			w3, err := recvEnvelope(rd)
			if err != nil {
				return err
			}
			act3 := &handshake.Act3Message{}
			if err := act3.Unmarshal(w3); err != nil {
				return err
			}
			return ra3.FinalizeHandshake(act3)
		}())
		if respRes != "ok" {
			b.Close()
		}
		select {
		case err := <-real:
			initRes = connClass(err)
		case <-time.After(10 * time.Second):
			initRes = "hang"
		}
	}
	tag := "conn" + role
	switch {
	case initRes == "ok" && respRes == "ok":
		tag += "+ok"
	case respRes == "err:protocol":
		tag += "+r-proto"
	case initRes == "err:protocol":
		tag += "+i-proto"
	case initRes == "err:challenge":
		tag += "+i-chal"
	case respRes == "err:challenge":
		tag += "+f-chal+conn" + role + "-f-chal"
	}
	if t1.used || t2.used || t3.used {
		tag += "+tamper"
	}
	return "init=" + initRes + " resp=" + respRes, tag
}

// diffTag classifies a tampered challenge that differs from the responder's real one in exactly
// one byte: <pfx>-head (byte 0..7) or <pfx>-tail (byte 8..31).
func diffTag(pfx string, tampered []byte, real *handshake.Act2Message) string {
	w, err := real.Marshal()
	if err != nil {
		return ""
	}
	var m pb.Act2Message
	if proto.Unmarshal(w, &m) != nil || len(m.Challenge) != len(tampered) {
		return ""
	}
	n, at := 0, 0
	for i := range tampered {
		if tampered[i] != m.Challenge[i] {
			n++
			at = i
		}
	}
	if n != 1 {
		return ""
	}
	if at < 8 {
		return pfx + "-head"
	}
	return pfx + "-tail"
}

func main() {
	hx.Main(&hx.Config{Prop: "C20", Gen: gen, Exec: exec, Facts: func() []string {
		return []string{
			fmt.Sprintf("nat nonceByteLength %d", handshake.VerifNonceByteLength),
			fmt.Sprintf("nat challengeByteLength %d", handshake.VerifChallengeByteLength),
		}
	}})
}
