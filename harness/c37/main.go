// C37: each distinct chain event is handled exactly once, even under concurrency.
//
// Events (one token, parts joined by '.'):
//
//	s.<hexseed>                      tbtc  notifyDKGStarted
//	r.<hexseed>.<hash64>.<block>     tbtc  notifyDKGResultSubmitted
//	w.<id64>                         tbtc  notifyWalletClosed
//	b.<hexseed>                      beacon event.Deduplicator.NotifyDKGStarted
//	t.<seconds>                      (seq only) the clock advances: every stored timestamp of all
//	                                 four TimeCaches is moved back (reflect/unsafe, no sleeping);
//	                                 multiples of 1000 s only — the 7-day period (604800 s) is 200 s
//	                                 away from the nearest multiple, so the real time a case takes
//	                                 never decides a comparison
//
// Op lines (one complete case each, always on a fresh pair of deduplicators):
//
//	seq <ev,ev,...>                  sequential history; obs = the booleans returned (1/0 list)
//	conc <g> <rounds> <ev,ev,...>    every listed event is delivered by g goroutines released
//	                                 together; repeated <rounds> times on fresh deduplicators;
//	                                 obs = per list position "min-max" of the number of
//	                                 deliveries of that event that were told to proceed.
package main

import (
	"encoding/hex"
	"fmt"
	"go/ast"
	"go/token"
	"math/big"
	"reflect"
	"strconv"
	"strings"
	"sync"
	"time"
	"unsafe"

	"github.com/keep-network/keep-common/pkg/cache"

	"keepverif/harness/astfacts"
	"keepverif/harness/hx"

	beaconevent "github.com/keep-network/keep-core/pkg/beacon/event"
	"github.com/keep-network/keep-core/pkg/tbtc"
)

type dedups struct {
	t *tbtc.VerifC37Deduplicator
	b *beaconevent.Deduplicator
}

func fresh() *dedups {
	return &dedups{t: tbtc.VerifC37NewDeduplicator(), b: beaconevent.NewDeduplicator(nil)}
}

// age moves every timestamp of the cache back by d (the trick of harness/c21).
func age(tc *cache.TimeCache, d time.Duration) {
	v := reflect.ValueOf(tc).Elem()
	mu := (*sync.RWMutex)(unsafe.Pointer(v.FieldByName("mutex").UnsafeAddr()))
	m := *(*map[string]time.Time)(unsafe.Pointer(v.FieldByName("cache").UnsafeAddr()))
	mu.Lock()
	defer mu.Unlock()
	for k, t := range m {
		m[k] = t.Add(-d)
	}
}

func (d *dedups) advance(secs uint64) {
	dur := time.Duration(secs) * time.Second
	for _, tc := range d.t.VerifC37Caches() {
		age(tc, dur)
	}
	age(d.b.VerifC37SeedCache(), dur)
}

type event struct {
	kind  byte
	seed  *big.Int
	hash  [32]byte
	block uint64
	canon string
}

func parseEvent(tok string) (*event, bool) {
	p := strings.Split(tok, ".")
	ev := &event{}
	seed := func(s string) bool {
		if s == "" || strings.Trim(s, hexd) != "" || (len(s) > 1 && s[0] == '0') {
			return false
		}
		v, ok := new(big.Int).SetString(s, 16)
		if !ok || v.Sign() < 0 {
			return false
		}
		ev.seed = v
		return true
	}
	h32 := func(s string) bool {
		if len(s) != 64 || strings.Trim(s, hexd) != "" {
			return false
		}
		b, err := hex.DecodeString(s)
		if err != nil {
			return false
		}
		copy(ev.hash[:], b)
		return true
	}
	switch {
	case len(p) == 2 && p[0] == "t":
		ev.kind = 't'
		b, err := strconv.ParseUint(p[1], 10, 40)
		if err != nil || strconv.FormatUint(b, 10) != p[1] || b%1000 != 0 {
			return nil, false
		}
		ev.block = b
	case len(p) == 2 && (p[0] == "s" || p[0] == "b"):
		ev.kind = p[0][0]
		if !seed(p[1]) {
			return nil, false
		}
	case len(p) == 4 && p[0] == "r":
		ev.kind = 'r'
		if !seed(p[1]) || !h32(p[2]) {
			return nil, false
		}
		b, err := strconv.ParseUint(p[3], 10, 62)
		if err != nil || strconv.FormatUint(b, 10) != p[3] {
			return nil, false
		}
		ev.block = b
	case len(p) == 2 && p[0] == "w":
		ev.kind = 'w'
		if !h32(p[1]) {
			return nil, false
		}
	default:
		return nil, false
	}
	ev.canon = tok
	return ev, true
}

func parseEvents(s string) ([]*event, bool) {
	var out []*event
	for _, t := range hx.SplitList(s) {
		ev, ok := parseEvent(t)
		if !ok {
			return nil, false
		}
		out = append(out, ev)
	}
	return out, len(out) > 0
}

func deliver(d *dedups, ev *event) bool {
	switch ev.kind {
	case 's':
		return d.t.NotifyDKGStarted(new(big.Int).Set(ev.seed))
	case 'b':
		return d.b.NotifyDKGStarted(new(big.Int).Set(ev.seed))
	case 'r':
		return d.t.NotifyDKGResultSubmitted(new(big.Int).Set(ev.seed), ev.hash, ev.block)
	default:
		return d.t.NotifyWalletClosed(ev.hash)
	}
}

// concatKey is the separator-less concatenation an earlier version of the code used as the
// result cache key; only used to tag histories that contain such a colliding pair.
func concatKey(ev *event) string {
	return ev.seed.Text(16) + hex.EncodeToString(ev.hash[:]) + strconv.FormatUint(ev.block, 10)
}

func tagsOf(evs []*event) string {
	seen := map[string]bool{}
	last := map[string]uint64{}
	ck := map[string]string{}
	low64 := map[string]string{} // kind+low 64 bits of a seed -> seed
	mask64 := new(big.Int).SetUint64(^uint64(0))
	congruent := false
	text := map[string]byte{} // key text of seed / wallet events -> kinds seen (bit 1 = s, bit 2 = w)
	dup, collide, beacon, wallet, result, cross, expire, agedup, adv := false, false, false, false, false, false, false, false, false
	var now uint64
	for _, e := range evs {
		if e.kind == 't' {
			now += e.block
			adv = adv || e.block > 0
			continue
		}
		if seen[e.canon] {
			dup = true
			if now-last[e.canon] > periodSeconds {
				expire = true
			} else if now > last[e.canon] {
				agedup = true
			}
		}
		seen[e.canon] = true
		last[e.canon] = now
		if e.kind == 's' || e.kind == 'b' {
			k := string(e.kind) + new(big.Int).And(e.seed, mask64).Text(16)
			if o, ok := low64[k]; ok && o != e.seed.Text(16) {
				congruent = true
			}
			low64[k] = e.seed.Text(16)
		}
		switch e.kind {
		case 's':
			k := e.seed.Text(16)
			text[k] |= 1
			cross = cross || text[k] == 3
		case 'b':
			beacon = true
		case 'w':
			wallet = true
			k := hex.EncodeToString(e.hash[:])
			text[k] |= 2
			cross = cross || text[k] == 3
		case 'r':
			result = true
			k := concatKey(e)
			if o, ok := ck[k]; ok && o != e.canon {
				collide = true
			}
			ck[k] = e.canon
		}
	}
	var t []string
	for _, x := range []struct {
		b bool
		s string
	}{{dup, "dup"}, {collide, "collide"}, {beacon, "beacon"}, {wallet, "wallet"}, {result, "result"},
		{cross, "cross"}, {congruent, "congruent"}, {adv, "advance"}, {agedup, "agedup"}, {expire, "expire"}} {
		if x.b {
			t = append(t, x.s)
		}
	}
	return strings.Join(t, "+")
}

const periodSeconds = uint64(tbtc.DKGSeedCachePeriod / time.Second)

func exec(op string) (string, string) {
	f := strings.Fields(op)
	switch {
	case len(f) == 2 && f[0] == "seq":
		evs, ok := parseEvents(f[1])
		if !ok {
			return "bad-op", "bad"
		}
		d := fresh()
		var out []int
		for _, e := range evs {
			if e.kind == 't' {
				d.advance(e.block)
				continue
			}
			if deliver(d, e) {
				out = append(out, 1)
			} else {
				out = append(out, 0)
			}
		}
		tag := "seq"
		if t := tagsOf(evs); t != "" {
			tag += "+" + t
		}
		return hx.JoinInts(out), tag
	case len(f) == 4 && f[0] == "conc":
		g, err1 := strconv.Atoi(f[1])
		rounds, err2 := strconv.Atoi(f[2])
		evs, ok := parseEvents(f[3])
		if err1 != nil || err2 != nil || !ok || g < 1 || g > 64 || rounds < 1 || rounds > 5000 {
			return "bad-op", "bad"
		}
		for _, e := range evs {
			if e.kind == 't' {
				return "bad-op", "bad"
			}
		}
		// distinct event values
		idx := map[string]int{}
		var distinct []*event
		for _, e := range evs {
			if _, ok := idx[e.canon]; !ok {
				idx[e.canon] = len(distinct)
				distinct = append(distinct, e)
			}
		}
		mins := make([]int, len(distinct))
		maxs := make([]int, len(distinct))
		for i := range mins {
			mins[i] = 1 << 30
		}
		for r := 0; r < rounds; r++ {
			d := fresh()
			counts := make([]int64, len(distinct))
			var mu sync.Mutex
			var wg sync.WaitGroup
			start := make(chan struct{})
			for i, e := range distinct {
				for k := 0; k < g; k++ {
					wg.Add(1)
					go func(i int, e *event) {
						defer wg.Done()
						<-start
						if deliver(d, e) {
							mu.Lock()
							counts[i]++
							mu.Unlock()
						}
					}(i, e)
				}
			}
			close(start)
			wg.Wait()
			for i, c := range counts {
				if int(c) < mins[i] {
					mins[i] = int(c)
				}
				if int(c) > maxs[i] {
					maxs[i] = int(c)
				}
			}
		}
		var out []string
		for _, e := range evs {
			i := idx[e.canon]
			out = append(out, fmt.Sprintf("%d-%d", mins[i], maxs[i]))
		}
		tag := "conc"
		if t := tagsOf(evs); t != "" {
			tag += "+" + t
		}
		return strings.Join(out, ","), tag
	}
	return "bad-op", "bad"
}

// ---- generator ------------------------------------------------------------

const hexd = "0123456789abcdef"

func randHex(r *hx.Rng, n int) string {
	b := make([]byte, n)
	for i := range b {
		b[i] = hexd[r.Intn(16)]
	}
	return string(b)
}

func randSeed(r *hx.Rng) string {
	switch r.Intn(6) {
	case 0:
		return "0"
	case 1:
		return string(hexd[1+r.Intn(15)])
	case 2:
		return string(hexd[1+r.Intn(15)]) + randHex(r, r.Range(1, 3))
	default:
		return string(hexd[1+r.Intn(15)]) + randHex(r, r.Range(10, 63))
	}
}

func randBlock(r *hx.Rng) string {
	switch r.Intn(5) {
	case 0:
		return strconv.Itoa(r.Intn(10))
	case 1:
		return strconv.Itoa(r.Range(10, 99))
	default:
		return strconv.Itoa(r.Range(100, 30000000))
	}
}

// partner returns a *different* result event whose separator-less concatenation
// seed||hash||block is the same string (shift the 64-char hash window by one), if one exists.
func partner(r *hx.Rng, seed, hash, block string) (string, bool) {
	if r.Bool() {
		// shift right: seed gains hash[0], hash loses it and gains block[0]
		if len(block) >= 2 && block[1] != '0' && seed != "0" {
			return "r." + seed + hash[:1] + "." + hash[1:] + block[:1] + "." + block[1:], true
		}
		if len(block) == 2 && seed != "0" {
			return "r." + seed + hash[:1] + "." + hash[1:] + block[:1] + "." + block[1:], true
		}
	}
	// shift left: seed loses its last digit, block gains hash[63] in front
	last := hash[63]
	if len(seed) >= 2 && last >= '1' && last <= '9' && block != "0" && len(block) < 9 {
		return "r." + seed[:len(seed)-1] + "." + seed[len(seed)-1:] + hash[:63] + "." + string(last) + block, true
	}
	return "", false
}

func genEvents(r *hx.Rng, n int, allowDup bool) []string {
	var evs []string
	for len(evs) < n {
		switch r.Intn(11) {
		case 0, 1:
			evs = append(evs, "s."+randSeed(r))
		case 2:
			evs = append(evs, "b."+randSeed(r))
		case 3, 4:
			evs = append(evs, "w."+randHex(r, 64))
		case 5, 6, 7:
			seed, hash, block := randSeed(r), randHex(r, 64), randBlock(r)
			if r.Chance(1, 3) && hash[63] == '0' {
				hash = hash[:63] + string(hexd[1+r.Intn(9)])
			}
			evs = append(evs, "r."+seed+"."+hash+"."+block)
			if r.Chance(1, 2) {
				if p, ok := partner(r, seed, hash, block); ok {
					evs = append(evs, p)
				}
			}
		case 9: // numeric-width neighbours of an earlier seed: congruent modulo 2^32 / 2^64 / 2^128
			if len(evs) > 0 {
				e := evs[r.Intn(len(evs))]
				p := strings.Split(e, ".")
				if p[0] == "s" || p[0] == "b" || p[0] == "r" {
					v, _ := new(big.Int).SetString(p[1], 16)
					w := hx.Pick(r, []uint{32, 64, 64, 64, 128})
					k := big.NewInt(int64(r.Range(1, 3)))
					v2 := new(big.Int).Add(v, new(big.Int).Lsh(k, w))
					if r.Chance(1, 3) && v.BitLen() > int(w) { // or the truncation itself
						v2 = new(big.Int).And(v, new(big.Int).Sub(new(big.Int).Lsh(big.NewInt(1), w), big.NewInt(1)))
					}
					p[1] = v2.Text(16)
					evs = append(evs, strings.Join(p, "."))
					continue
				}
			}
			if len(evs) > 0 && allowDup {
				evs = append(evs, evs[r.Intn(len(evs))])
			}
		case 8: // same seed/hash, other block; same seed in another cache
			if len(evs) > 0 {
				e := evs[r.Intn(len(evs))]
				p := strings.Split(e, ".")
				switch p[0] {
				case "r":
					evs = append(evs, "r."+p[1]+"."+p[2]+"."+randBlock(r))
				case "s":
					evs = append(evs, "b."+p[1])
				case "b":
					evs = append(evs, "s."+p[1])
				}
			}
		default: // duplicate
			if len(evs) > 0 && allowDup {
				evs = append(evs, evs[r.Intn(len(evs))])
			}
		}
	}
	// shuffle a little: move one element
	if len(evs) > 2 && r.Bool() {
		i, j := r.Intn(len(evs)), r.Intn(len(evs))
		evs[i], evs[j] = evs[j], evs[i]
	}
	return evs
}

// crossKind: one 32-byte value used as DKG seed (tbtc and beacon), as wallet ID and as result
// seed/hash, in a random order, with duplicates.
func crossKind(r *hx.Rng) []string {
	x := string(hexd[1+r.Intn(15)]) + randHex(r, 63)
	evs := []string{"s." + x, "w." + x, "r." + x + "." + x + "." + randBlock(r), "b." + x}
	if r.Bool() {
		evs = append(evs, "r."+randSeed(r)+"."+x+"."+randBlock(r))
	}
	for k := r.Range(0, 3); k > 0; k-- {
		evs = append(evs, evs[r.Intn(len(evs))])
	}
	p := r.Perm(len(evs))
	out := make([]string, len(evs))
	for i, j := range p {
		out[i] = evs[j]
	}
	return out
}

// withAdvances inserts clock advances (multiples of 1000 s around the 604800 s period) and
// re-deliveries of earlier events.
func withAdvances(r *hx.Rng, evs []string) []string {
	var out []string
	for _, e := range evs {
		out = append(out, e)
		if r.Chance(1, 2) {
			out = append(out, "t."+strconv.Itoa(hx.Pick(r, []int{0, 1000, 302000, 604000, 605000, 1000000, 100000})))
			if r.Chance(2, 3) {
				out = append(out, out[r.Intn(len(out))])
				if strings.HasPrefix(out[len(out)-1], "t.") {
					out[len(out)-1] = e
				}
			}
		}
	}
	return out
}

func gen(r *hx.Rng, n int, tier string) []string {
	var ops []string
	for i := 0; i < n; i++ {
		switch {
		case i%8 == 1:
			ops = append(ops, "seq "+strings.Join(crossKind(r), ","))
		case i%8 == 5:
			base := genEvents(r, r.Range(1, 6), true)
			if r.Chance(1, 3) {
				base = crossKind(r)
			}
			ops = append(ops, "seq "+strings.Join(withAdvances(r, base), ","))
		case i%4 == 3:
			g := r.Range(2, 8)
			rounds := r.Range(20, 60)
			if tier == "thorough" {
				rounds = r.Range(50, 200)
			}
			evs := genEvents(r, r.Range(1, 4), r.Chance(1, 4))
			if r.Chance(1, 5) {
				evs = crossKind(r)
			}
			ops = append(ops, fmt.Sprintf("conc %d %d %s", g, rounds, strings.Join(evs, ",")))
		case r.Chance(1, 25):
			ops = append(ops, "seq "+randHex(r, r.Range(1, 9))) // malformed
		default:
			ln := r.Range(1, 10)
			if r.Chance(1, 10) {
				ln = r.Range(10, 40)
			}
			ops = append(ops, "seq "+strings.Join(genEvents(r, ln, true), ","))
		}
	}
	return ops
}

// ---- source-level facts (T1) ------------------------------------------------

func sel(e ast.Expr) string {
	switch x := e.(type) {
	case *ast.Ident:
		return x.Name
	case *ast.SelectorExpr:
		return sel(x.X) + "." + x.Sel.Name
	case *ast.CallExpr:
		return sel(x.Fun)
	case *ast.BasicLit:
		if x.Kind == token.STRING {
			if u, err := strconv.Unquote(x.Value); err == nil {
				return u
			}
		}
		return x.Value
	case *ast.ParenExpr:
		return sel(x.X)
	}
	return "?"
}

// gateOnAdd: the function never calls TimeCache.Has and its only `return` returns the result
// of a single <cache>.Add(cacheKey) call — i.e. the answer is the atomic Add's answer.
func gateOnAdd(file, fn string) bool {
	fd, _, err := astfacts.FindFunc(file, fn)
	if err != nil || fd.Body == nil {
		return false
	}
	ok, returns := true, 0
	ast.Inspect(fd.Body, func(n ast.Node) bool {
		switch x := n.(type) {
		case *ast.CallExpr:
			if strings.HasSuffix(sel(x.Fun), ".Has") {
				ok = false
			}
		case *ast.ReturnStmt:
			returns++
			if len(x.Results) != 1 {
				ok = false
				break
			}
			c, isCall := x.Results[0].(*ast.CallExpr)
			if !isCall || !strings.HasSuffix(sel(c.Fun), "Cache.Add") || len(c.Args) != 1 || sel(c.Args[0]) != "cacheKey" {
				ok = false
			}
		}
		return true
	})
	return ok && returns == 1
}

// resultKeyParts: the operands of the `+` chain assigned to cacheKey in notifyDKGResultSubmitted.
func resultKeyParts() []string {
	fd, _, err := astfacts.FindFunc("pkg/tbtc/deduplicator.go", "deduplicator.notifyDKGResultSubmitted")
	if err != nil {
		return []string{"not-found"}
	}
	var parts []string
	var flat func(e ast.Expr)
	flat = func(e ast.Expr) {
		if b, ok := e.(*ast.BinaryExpr); ok && b.Op == token.ADD {
			flat(b.X)
			flat(b.Y)
			return
		}
		parts = append(parts, strings.ReplaceAll(sel(e), ",", "<comma>"))
	}
	n := 0
	ast.Inspect(fd.Body, func(nd ast.Node) bool {
		if a, ok := nd.(*ast.AssignStmt); ok && len(a.Lhs) == 1 && len(a.Rhs) == 1 && sel(a.Lhs[0]) == "cacheKey" {
			n++
			flat(a.Rhs[0])
		}
		return true
	})
	if n != 1 {
		return []string{"ambiguous"}
	}
	return parts
}

func facts() []string {
	const tf, bf = "pkg/tbtc/deduplicator.go", "pkg/beacon/event/deduplicator.go"
	return []string{
		astfacts.BoolFact("gateTbtcDkgStarted", gateOnAdd(tf, "deduplicator.notifyDKGStarted")),
		astfacts.BoolFact("gateTbtcResultSubmitted", gateOnAdd(tf, "deduplicator.notifyDKGResultSubmitted")),
		astfacts.BoolFact("gateTbtcWalletClosed", gateOnAdd(tf, "deduplicator.notifyWalletClosed")),
		astfacts.BoolFact("gateBeaconDkgStarted", gateOnAdd(bf, "Deduplicator.NotifyDKGStarted")),
		"strlist resultKeyParts " + strings.Join(resultKeyParts(), ","),
		fmt.Sprintf("nat cachePeriodSeconds %d", int64(tbtc.DKGResultHashCachePeriod.Seconds())),
		astfacts.BoolFact("cachePeriodsEqual", tbtc.DKGSeedCachePeriod == tbtc.DKGResultHashCachePeriod &&
			tbtc.DKGSeedCachePeriod == tbtc.WalletClosedCachePeriod && tbtc.DKGSeedCachePeriod == beaconevent.DKGSeedCachePeriod),
	}
}

func main() {
	hx.Main(&hx.Config{Prop: "C37", Gen: gen, Exec: exec, Facts: facts})
}
