// C32: SPV required confirmations are minimal and sufficient across epochs.
// Op line:  info <latest> <confirmations> <factor> <currentEpoch> <dCur> <dPrev> <fail>
//
//	fail: 0 none, 1 GetLatestBlockHeight, 2 GetTransactionConfirmations,
//	      3 TxProofDifficultyFactor, 4 CurrentEpoch, 5 GetCurrentAndPrevEpochDifficulty
//
// Obs line: info <within 0|1> <accumulated> <required>  |  err:<n>  |  PANIC ...
package main

import (
	"errors"
	"fmt"
	"math/big"
	"strings"

	"keepverif/harness/hx"

	"github.com/keep-network/keep-core/pkg/bitcoin"
	"github.com/keep-network/keep-core/pkg/maintainer/btcdiff"
	"github.com/keep-network/keep-core/pkg/maintainer/spv"
)

const epochLen = spv.VerifC32DifficultyEpochLength

type input struct {
	latest, conf uint64
	f            *big.Int
	cur          uint64
	dCur, dPrev  *big.Int
	fail         int
}

// The three chains: nil embedded interfaces, only the queried methods exist;
// any other call made by a mutated getProofInfo is a nil-pointer panic = an observation.
type btcChain struct {
	bitcoin.Chain
	in    *input
	calls *[]string
}

func (c btcChain) GetLatestBlockHeight() (uint, error) {
	*c.calls = append(*c.calls, "latest")
	if c.in.fail == 1 {
		return 0, errors.New("boom")
	}
	return uint(c.in.latest), nil
}

func (c btcChain) GetTransactionConfirmations(h bitcoin.Hash) (uint, error) {
	*c.calls = append(*c.calls, "conf")
	if c.in.fail == 2 {
		return 0, errors.New("boom")
	}
	return uint(c.in.conf), nil
}

type spvChain struct {
	spv.Chain
	in *input
}

func (c spvChain) TxProofDifficultyFactor() (*big.Int, error) {
	if c.in.fail == 3 {
		return nil, errors.New("boom")
	}
	return c.in.f, nil // the same object on every call, like a caching chain handle
}

type diffChain struct {
	btcdiff.Chain
	in *input
}

func (c diffChain) CurrentEpoch() (uint64, error) {
	if c.in.fail == 4 {
		return 0, errors.New("boom")
	}
	return c.in.cur, nil
}

func (c diffChain) GetCurrentAndPrevEpochDifficulty() (*big.Int, *big.Int, error) {
	if c.in.fail == 5 {
		return nil, nil, errors.New("boom")
	}
	return c.in.dCur, c.in.dPrev, nil // the same objects on every call
}

func bigOf(s string) *big.Int {
	v, ok := new(big.Int).SetString(s, 10)
	if !ok || v.Sign() < 0 {
		panic("harness: bad big " + s)
	}
	return v
}

func exec(op string) (string, string) {
	t := strings.Fields(op)
	if len(t) != 8 || t[0] != "info" {
		return "bad-op", "bad"
	}
	in := &input{
		latest: hx.AtoU64(t[1]), conf: hx.AtoU64(t[2]), f: bigOf(t[3]), cur: hx.AtoU64(t[4]),
		dCur: bigOf(t[5]), dPrev: bigOf(t[6]), fail: hx.Atoi(t[7]),
	}
	var calls []string
	var h bitcoin.Hash
	// The call is made twice against the same chain handles; the handles return the same
	// *big.Int objects every time.  The FIRST result is the observation; a different second
	// result, or a chain-owned value changed by the calls, is appended to it (the model and
	// the monitor know neither suffix).
	f0, dCur0, dPrev0 := new(big.Int).Set(in.f), new(big.Int).Set(in.dCur), new(big.Int).Set(in.dPrev)
	run := func() string {
		within, acc, req, err := spv.VerifC32GetProofInfo(h, btcChain{in: in, calls: &calls}, spvChain{in: in}, diffChain{in: in})
		if err != nil {
			cls := "other"
			for i, p := range []string{
				"failed to get latest block height", "failed to get transaction confirmations",
				"failed to get transaction proof difficulty factor", "failed to get current epoch",
				"failed to get Bitcoin epoch difficulties"} {
				if strings.HasPrefix(err.Error(), p) {
					cls = fmt.Sprint(i + 1)
				}
			}
			return "err:" + cls
		}
		w := 0
		if within {
			w = 1
		}
		return fmt.Sprintf("info %d %d %d", w, acc, req)
	}
	obs := run()
	second := run()
	if second != obs {
		obs += " #2:" + strings.ReplaceAll(second, " ", "_")
	}
	var mutated []string
	if in.f.Cmp(f0) != 0 {
		mutated = append(mutated, "factor")
	}
	if in.dCur.Cmp(dCur0) != 0 {
		mutated = append(mutated, "dCur")
	}
	if in.dPrev.Cmp(dPrev0) != 0 {
		mutated = append(mutated, "dPrev")
	}
	if len(mutated) > 0 {
		obs += " mutated:" + strings.Join(mutated, ",")
	}
	if strings.HasPrefix(obs, "err:") {
		return obs, "err"
	}
	// branch tag from the true (unwrapped) geometry of the range
	tag := "unsupported"
	if in.conf <= in.latest+1 && in.f.IsUint64() && in.f.Sign() > 0 {
		start := in.latest + 1 - in.conf
		end := start + in.f.Uint64() - 1
		se, ee := start/epochLen, end/epochLen
		switch {
		case se == in.cur && ee == in.cur:
			tag = "cur"
		case se+1 == in.cur && ee+1 == in.cur:
			tag = "prev"
		case se+1 == in.cur && ee == in.cur:
			tag = "cross"
			switch in.dCur.Cmp(in.dPrev) {
			case -1:
				tag += "+drop"
			case 1:
				tag += "+rise"
			}
			need := new(big.Int).Mul(in.dPrev, new(big.Int).Sub(in.f, big.NewInt(int64(epochLen-start%epochLen))))
			if new(big.Int).Mod(need, in.dCur).Sign() == 0 {
				tag += "+exact"
			} else {
				tag += "+ceil"
			}
		}
	} else {
		tag = "wrap"
	}
	return obs, tag
}

func gen(r *hx.Rng, n int, tier string) []string {
	var ops []string
	emit := func(latest, conf uint64, f string, cur uint64, dCur, dPrev string, fail int) {
		ops = append(ops, fmt.Sprintf("info %d %d %s %d %s %s %d", latest, conf, f, cur, dCur, dPrev, fail))
	}
	// exhaustive small block: every offset around the boundary of epochs 1/2, factors 1..12,
	// three difficulty relations.
	if n > 0 {
		for off := -14; off <= 2; off++ {
			for f := 1; f <= 12; f++ {
				for _, d := range [][2]string{{"30", "50"}, {"50", "30"}, {"7", "7"}, {"1", "1000"}} {
					start := uint64(2*epochLen + off)
					conf := uint64(20)
					emit(start+conf-1, conf, fmt.Sprint(f), 2, d[0], d[1], 0)
				}
			}
		}
	}
	for k := 0; k < n; k++ {
		cur := uint64(r.Range(1, 500))
		if r.Chance(1, 20) {
			cur = uint64(r.Range(0, 2))
		}
		if r.Chance(1, 30) {
			cur = r.U64() >> uint(r.Intn(40))
		}
		f := uint64(r.Range(1, 12))
		if r.Chance(1, 8) {
			f = uint64(r.Range(1, 3000))
		}
		// start block: mostly near the boundary between previous and current epoch
		var start uint64
		switch r.Intn(10) {
		case 0, 1, 2, 3: // just before the boundary prev|cur
			start = cur*epochLen - uint64(r.Range(1, 14))
		case 4: // exactly at / after the boundary
			start = cur*epochLen + uint64(r.Range(0, 3))
		case 5: // boundary prevprev|prev
			start = (cur-1)*epochLen - uint64(r.Range(0, 14)) + uint64(r.Range(0, 3))
		case 6: // boundary cur|next
			start = (cur+1)*epochLen - uint64(r.Range(0, 14)) + uint64(r.Range(0, 3))
		case 7: // anywhere in prev/cur
			start = (cur-1)*epochLen + uint64(r.Intn(2*epochLen))
		default:
			start = uint64(r.Intn(int(cur+3) * epochLen))
		}
		conf := uint64(r.Range(0, 30))
		if r.Chance(1, 10) {
			conf = uint64(r.Range(0, 5000))
		}
		latest := start + conf - 1 // may wrap on purpose in rare cases (start=0, conf=0)
		mag := r.Intn(6) // one magnitude class per case: the ratio of the two difficulties stays < 2^40
		shift := uint(r.Range(60, 90))
		bigd := func() string {
			switch mag {
			case 0:
				return fmt.Sprint(r.Range(1, 60))
			case 1: // real-world sized difficulty (~ 8e13)
				return fmt.Sprint(80000000000000 + r.U64()%20000000000000)
			case 2: // beyond 64 bit
				return new(big.Int).Lsh(big.NewInt(int64(r.Range(1, 1000))), shift).String()
			default:
				return fmt.Sprint(r.Range(1, 100000))
			}
		}
		dCur, dPrev := bigd(), bigd()
		switch r.Intn(8) {
		case 0: // equal
			dCur = dPrev
		case 1: // current divides the need exactly
			dCur = "1"
		case 2: // dPrev multiple of dCur
			k := new(big.Int).Mul(bigOf(dCur), big.NewInt(int64(r.Range(1, 5))))
			dPrev = k.String()
		}
		fail := 0
		if r.Chance(1, 12) {
			fail = r.Range(1, 5)
		}
		fs := fmt.Sprint(f)
		if r.Chance(1, 40) { // malformed stream: zero factor, zero difficulty, huge values
			switch r.Intn(5) {
			case 4: // ratio of difficulties beyond 2^64: the required count is truncated
				dPrev = new(big.Int).Lsh(big.NewInt(int64(r.Range(1, 1000))), 80).String()
			case 0:
				fs = "0"
			case 1:
				dCur = "0"
			case 2:
				dPrev = "0"
			case 3:
				latest = r.U64()
				conf = r.U64()
			}
		}
		emit(latest, conf, fs, cur, dCur, dPrev, fail)
	}
	return ops
}

func main() {
	hx.Main(&hx.Config{
		Prop: "C32",
		Gen:  gen,
		Exec: exec,
		Facts: func() []string {
			return []string{fmt.Sprintf("nat difficultyEpochLength %d", uint64(epochLen))}
		},
	})
}
