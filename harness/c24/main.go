// C24: coordination followers accept only the leader's valid proposal.
//
// Op line (one complete message history per line):
//
//	follow <seats> <self> <leader> <block> <allowed> <msgs>
//	    seats   = comma list of operator ids (one per seat of the wallet, seat i has member index i+1)
//	    self    = operator id of the follower running executeFollowerRoutine
//	    leader  = operator id of the coordination leader
//	    block   = coordination block of this window
//	    allowed = comma list of allowed action types (`-` = none)
//	    msgs    = comma list of kind:net:sid:blk:w:act (`-` = silence), delivered in this order:
//	              kind 0 = coordination message, 1 = a message of another type;
//	              net  = operator id whose network key really sends the message (pool 0..5);
//	              sid  = senderID claimed in the message; blk = coordination block in the message;
//	              w    = 0: this wallet's public key hash, k>0: another hash; act = proposed action.
//	              The proposal of message number i (1-based) carries the tag i (noop: no payload, tag 0).
//	After the last message has been processed the context is cancelled (end of the active phase).
//	fcoord <seats> <self> <block> <leader> <allowed> <events>
//	    the follower side of coordinate() itself, with a scripted block clock. events = comma list of
//	    messages (as above; tag = position in the event list) and clock advances `@<block>`.
//	    leader / allowed are what getLeader / getActionsChecklist(+noop) return for the window (taken
//	    from the real code when the line is generated: they are C22's subject and inputs here).
//	    obs: cancel=<block coordinate() asked the clock to end the routine's context at>
//	         leader=<op> prop=... faults=...   |  cancel=<block> err   (routine failed: leader idle)
//
// Obs: prop=<act>:<tag>|- faults=<I<op>|M<op>|L<op>,...> err=<0|1>
package main

import (
	"context"
	"encoding/binary"
	"fmt"
	"math/big"
	"strings"
	"sync"
	"sync/atomic"
	"time"

	"keepverif/harness/hx"

	"github.com/keep-network/keep-core/pkg/chain"
	"github.com/keep-network/keep-core/pkg/chain/local_v1"
	"github.com/keep-network/keep-core/pkg/net"
	netlocal "github.com/keep-network/keep-core/pkg/net/local"
	"github.com/keep-network/keep-core/pkg/operator"
	"github.com/keep-network/keep-core/pkg/protocol/group"
	"github.com/keep-network/keep-core/pkg/tbtc"
	"github.com/keep-network/keep-core/pkg/tecdsa"

	"crypto/ecdsa"
)

const pool = 6

type quietLogger struct{}

func (quietLogger) Debug(args ...interface{})                   {}
func (quietLogger) Debugf(format string, args ...interface{})   {}
func (quietLogger) Error(args ...interface{})                   {}
func (quietLogger) Errorf(format string, args ...interface{})   {}
func (quietLogger) Fatal(args ...interface{})                   {}
func (quietLogger) Fatalf(format string, args ...interface{})   {}
func (quietLogger) Info(args ...interface{})                    {}
func (quietLogger) Infof(format string, args ...interface{})    {}
func (quietLogger) Panic(args ...interface{})                   {}
func (quietLogger) Panicf(format string, args ...interface{})   {}
func (quietLogger) Warn(args ...interface{})                    {}
func (quietLogger) Warnf(format string, args ...interface{})    {}
func (quietLogger) Warning(args ...interface{})                 {}
func (quietLogger) Warningf(format string, args ...interface{}) {}

// otherMsg is a network message of a type the follower is not interested in. The one with
// the current nonce is the end-of-history sentinel.
type otherMsg struct{ Nonce uint64 }

func (m *otherMsg) Type() string { return "verif/other_message" }
func (m *otherMsg) Marshal() ([]byte, error) {
	b := make([]byte, 8)
	binary.BigEndian.PutUint64(b, m.Nonce)
	return b, nil
}
func (m *otherMsg) Unmarshal(b []byte) error {
	if len(b) != 8 {
		return fmt.Errorf("bad length")
	}
	m.Nonce = binary.BigEndian.Uint64(b)
	return nil
}

// fakeChain: executeFollowerRoutine only uses Signing().PublicKeyBytesToAddress.
type fakeChain struct {
	tbtc.Chain
	signing chain.Signing
}

func (fc *fakeChain) Signing() chain.Signing { return fc.signing }

func (fc *fakeChain) GetBlockHashByNumber(n uint64) ([32]byte, error) {
	var h [32]byte
	for i := range h {
		h[i] = byte(0xc2 + i)
	}
	binary.BigEndian.PutUint64(h[24:], n*0x9E3779B97F4A7C15)
	return h, nil
}

// blockClock is a manually driven chain clock; it records which blocks were waited for.
type blockClock struct {
	mu      sync.Mutex
	cur     uint64
	changed chan struct{}
	asked   []uint64
	askedCh chan struct{}
}

func newBlockClock(cur uint64) *blockClock {
	return &blockClock{cur: cur, changed: make(chan struct{}), askedCh: make(chan struct{}, 16)}
}

func (c *blockClock) advance(b uint64) {
	c.mu.Lock()
	defer c.mu.Unlock()
	if b > c.cur {
		c.cur = b
		close(c.changed)
		c.changed = make(chan struct{})
	}
}

func (c *blockClock) wait(ctx context.Context, b uint64) error {
	c.mu.Lock()
	c.asked = append(c.asked, b)
	c.mu.Unlock()
	select {
	case c.askedCh <- struct{}{}:
	default:
	}
	for {
		c.mu.Lock()
		cur, changed := c.cur, c.changed
		c.mu.Unlock()
		if cur >= b {
			return nil
		}
		select {
		case <-changed:
		case <-ctx.Done():
			return nil
		}
	}
}

func (c *blockClock) askedList() []uint64 {
	c.mu.Lock()
	defer c.mu.Unlock()
	return append([]uint64(nil), c.asked...)
}

// spyChannel wraps the real pkg/net/local channel of the follower: it tells the harness when
// the handler is registered and when the follower loop *starts processing* the sentinel
// (Payload() is the first thing the loop calls on a message), i.e. when every earlier
// message has been fully processed. It changes neither content nor order of delivery.
type spyState struct {
	nonce      uint64 // the default end-of-history sentinel
	registered chan struct{}
	seen       chan struct{}
	once       sync.Once
	mu         sync.Mutex
	extra      map[uint64]chan struct{} // further sync points
}

type spyChannel struct {
	net.BroadcastChannel
	mu  sync.Mutex
	cur *spyState
}

func (s *spyChannel) arm() *spyState {
	st := &spyState{
		nonce:      atomic.AddUint64(&nonceCtr, 1),
		registered: make(chan struct{}),
		seen:       make(chan struct{}),
		extra:      map[uint64]chan struct{}{},
	}
	s.mu.Lock()
	s.cur = st
	s.mu.Unlock()
	return st
}

// syncPoint returns a fresh nonce and the channel closed when the loop reaches its message.
func (st *spyState) syncPoint() (uint64, chan struct{}) {
	n := atomic.AddUint64(&nonceCtr, 1)
	ch := make(chan struct{})
	st.mu.Lock()
	st.extra[n] = ch
	st.mu.Unlock()
	return n, ch
}

type spyMsg struct {
	net.Message
	st *spyState
}

func (m *spyMsg) Payload() interface{} {
	p := m.Message.Payload()
	if o, ok := p.(*otherMsg); ok && o.Nonce != 0 {
		if o.Nonce == m.st.nonce {
			m.st.once.Do(func() { close(m.st.seen) })
		} else {
			m.st.mu.Lock()
			if ch, ok := m.st.extra[o.Nonce]; ok {
				close(ch)
				delete(m.st.extra, o.Nonce)
			}
			m.st.mu.Unlock()
		}
	}
	return p
}

func (s *spyChannel) Recv(ctx context.Context, h func(m net.Message)) {
	s.mu.Lock()
	st := s.cur
	s.mu.Unlock()
	s.BroadcastChannel.Recv(ctx, func(m net.Message) { h(&spyMsg{m, st}) })
	close(st.registered)
}

var (
	opAddr   [pool]chain.Address
	opChan   [pool]net.BroadcastChannel
	addrToOp = map[chain.Address]int{}
	signing  chain.Signing
	walletPK *ecdsa.PublicKey
	nonceCtr uint64
	deadCtx  context.Context
	initOnce sync.Once
)

func setup() {
	curve := local_v1.DefaultCurve
	for i := 0; i < pool; i++ {
		d := big.NewInt(int64(1001 + i))
		x, y := curve.ScalarBaseMult(d.Bytes())
		priv := &operator.PrivateKey{PublicKey: operator.PublicKey{Curve: operator.Secp256k1, X: x, Y: y}, D: d}
		if signing == nil {
			signing = local_v1.NewSigner(priv)
		}
		addr, err := signing.PublicKeyToAddress(&priv.PublicKey)
		if err != nil {
			panic(err)
		}
		opAddr[i] = addr
		addrToOp[addr] = i
		ch, err := netlocal.ConnectWithKey(&priv.PublicKey).BroadcastChannelFor("verif-c24")
		if err != nil {
			panic(err)
		}
		ch.SetUnmarshaler(tbtc.VerifC24CoordinationMessageUnmarshaler)
		ch.SetUnmarshaler(func() net.TaggedUnmarshaler { return &otherMsg{} })
		opChan[i] = ch
	}
	x, y := tecdsa.Curve.ScalarBaseMult(big.NewInt(4242).Bytes())
	walletPK = &ecdsa.PublicKey{Curve: tecdsa.Curve, X: x, Y: y}
	c, cancel := context.WithCancel(context.Background())
	cancel()
	deadCtx = c // Send with a finished context: delivered once, never retransmitted
}

type msg struct {
	kind, net, sid int
	blk          uint64
	w, act       int
}

func parseMsgs(s string) ([]msg, bool) {
	var out []msg
	for _, t := range hx.SplitList(s) {
		p := strings.Split(t, ":")
		if len(p) != 6 {
			return nil, false
		}
		m := msg{kind: hx.Atoi(p[0]), net: hx.Atoi(p[1]), sid: hx.Atoi(p[2]), blk: hx.AtoU64(p[3]), w: hx.Atoi(p[4]), act: hx.Atoi(p[5])}
		if m.kind < 0 || m.kind > 2 || m.net < 0 || m.net >= pool || m.sid < 0 || m.sid > 255 || m.act < 0 || m.act > 5 || m.w < 0 || m.w > 255 {
			return nil, false
		}
		out = append(out, m)
	}
	return out, true
}

func proposalFor(act int, tag int) tbtc.CoordinationProposal {
	fee := big.NewInt(int64(tag))
	switch tbtc.WalletActionType(act) {
	case tbtc.ActionHeartbeat:
		var m [16]byte
		binary.BigEndian.PutUint64(m[:8], uint64(tag))
		return &tbtc.HeartbeatProposal{Message: m}
	case tbtc.ActionDepositSweep:
		return &tbtc.DepositSweepProposal{SweepTxFee: fee}
	case tbtc.ActionRedemption:
		return &tbtc.RedemptionProposal{RedemptionTxFee: fee}
	case tbtc.ActionMovingFunds:
		return &tbtc.MovingFundsProposal{MovingFundsTxFee: fee}
	case tbtc.ActionMovedFundsSweep:
		return &tbtc.MovedFundsSweepProposal{SweepTxFee: fee}
	}
	return &tbtc.NoopProposal{}
}

func showProposal(p tbtc.CoordinationProposal) string {
	if p == nil {
		return "-"
	}
	tag := uint64(0)
	switch q := p.(type) {
	case *tbtc.HeartbeatProposal:
		tag = binary.BigEndian.Uint64(q.Message[:8])
	case *tbtc.DepositSweepProposal:
		tag = q.SweepTxFee.Uint64()
	case *tbtc.RedemptionProposal:
		tag = q.RedemptionTxFee.Uint64()
	case *tbtc.MovingFundsProposal:
		tag = q.MovingFundsTxFee.Uint64()
	case *tbtc.MovedFundsSweepProposal:
		tag = q.SweepTxFee.Uint64()
	}
	return fmt.Sprintf("%d:%d", uint8(p.ActionType()), tag)
}

func showFaults(fs []tbtc.VerifC24Fault) string {
	var out []string
	for _, f := range fs {
		c := "?"
		if op, ok := addrToOp[f.Culprit]; ok {
			c = fmt.Sprint(op)
		}
		switch f.FaultType {
		case tbtc.FaultLeaderIdleness:
			out = append(out, "L"+c)
		case tbtc.FaultLeaderMistake:
			out = append(out, "M"+c)
		case tbtc.FaultLeaderImpersonation:
			out = append(out, "I"+c)
		default:
			out = append(out, "U"+c)
		}
	}
	return hx.JoinStrs(out)
}

type result struct {
	obs      string
	panicked interface{}
}

type follower struct {
	ex  *tbtc.VerifC24Executor
	spy *spyChannel
	pkh [20]byte
}

func newFollower(seatIDs []int, self int) (*follower, bool) {
	var seats []chain.Address
	for _, s := range seatIDs {
		if s < 0 || s >= pool {
			return nil, false
		}
		seats = append(seats, opAddr[s])
	}
	spy := &spyChannel{BroadcastChannel: opChan[self]}
	ex := tbtc.VerifC24NewExecutor(
		&fakeChain{signing: signing},
		walletPK,
		seats,
		opAddr[self],
		spy,
		group.NewMembershipValidator(quietLogger{}, seats, signing),
	)
	return &follower{ex: ex, spy: spy, pkh: ex.WalletPublicKeyHash()}, true
}

const retransmissionWait = 3*netlocal.RetransmissionTick + 20*time.Millisecond

// window runs one coordination window on the follower. cut < 0: the context ends after the
// whole history was processed; cut = k: it ends as soon as k messages were processed.
func (fw *follower) window(self, leader int, block uint64, allowed []tbtc.WalletActionType, msgs []msg, cut int) string {
	st := fw.spy.arm()
	ctx, cancel := context.WithCancel(context.Background())
	defer cancel()
	resCh := make(chan result, 1)
	go func() {
		defer func() {
			if e := recover(); e != nil {
				resCh <- result{panicked: e}
			}
		}()
		p, faults, err := fw.ex.ExecuteFollowerRoutine(ctx, opAddr[leader], block, allowed)
		e := 0
		if err != nil {
			e = 1
		}
		resCh <- result{obs: fmt.Sprintf("prop=%s faults=%s err=%d", showProposal(p), showFaults(faults), e)}
	}()
	finish := func(r result) string {
		if r.panicked != nil {
			panic(r.panicked) // reported as PANIC by hx
		}
		return r.obs
	}
	select {
	case <-st.registered:
	case r := <-resCh:
		return finish(r)
	}
	sendSentinel := func() bool {
		return opChan[(self+1)%pool].Send(deadCtx, &otherMsg{Nonce: st.nonce}) == nil
	}
	retransmitting := false
	for i, m := range msgs {
		if i == cut && !sendSentinel() {
			return "err:send"
		}
		var tm net.TaggedMarshaler
		sendCtx := deadCtx
		if m.kind == 0 || m.kind == 2 {
			h := fw.pkh
			if m.w != 0 {
				h[19] ^= byte(m.w)
			}
			tm = tbtc.VerifC24NewCoordinationMessage(group.MemberIndex(m.sid), m.blk, h, proposalFor(m.act, i+1))
			if m.kind == 2 {
				sendCtx = ctx // retransmitted (same seqno) until the window's context ends
				retransmitting = true
			}
		} else {
			tm = &otherMsg{Nonce: 0}
		}
		if err := opChan[m.net].Send(sendCtx, tm); err != nil {
			return "err:send"
		}
	}
	if retransmitting {
		// lower bound only: the result must be the same whether or not a retransmission arrived
		select {
		case r := <-resCh:
			return finish(r)
		case <-time.After(retransmissionWait):
		}
	}
	if (cut < 0 || cut >= len(msgs)) && !sendSentinel() {
		return "err:send"
	}
	// wait (on conditions, not on time) until the follower returned or reached the sentinel
	select {
	case r := <-resCh:
		return finish(r)
	case <-st.seen:
	case <-time.After(15 * time.Second):
		return "HANG before-sentinel"
	}
	cancel() // end of the active phase
	select {
	case r := <-resCh:
		return finish(r)
	case <-time.After(15 * time.Second):
		return "HANG after-cancel"
	}
}

func parseAllowed(s string) []tbtc.WalletActionType {
	var allowed []tbtc.WalletActionType
	for _, a := range hx.ParseInts(s) {
		allowed = append(allowed, tbtc.WalletActionType(a))
	}
	return allowed
}

func exec(op string) (string, string) {
	initOnce.Do(setup)
	f := strings.Fields(op)
	if len(f) == 0 {
		return "bad-op", "bad"
	}
	switch {
	case (f[0] == "follow" && len(f) == 7) || (f[0] == "frace" && len(f) == 8):
		seatIDs := hx.ParseInts(f[1])
		self, leader := hx.Atoi(f[2]), hx.Atoi(f[3])
		block := hx.AtoU64(f[4])
		msgs, ok := parseMsgs(f[6])
		if !ok || self < 0 || self >= pool || leader < 0 || leader >= pool || len(seatIDs) > 255 || len(msgs) > 200 {
			return "bad-op", "bad"
		}
		cut := -1
		if f[0] == "frace" {
			cut = hx.Atoi(f[7])
			if cut < 0 || cut > len(msgs) {
				return "bad-op", "bad"
			}
		}
		fw, ok := newFollower(seatIDs, self)
		if !ok {
			return "bad-op", "bad"
		}
		obs := fw.window(self, leader, block, parseAllowed(f[5]), msgs, cut)
		tag := tagOf(obs, msgs, block)
		if f[0] == "frace" {
			tag = "race+" + tag
		}
		return obs, tag
	case f[0] == "fcoord" && len(f) == 7:
		return execCoord(f)
	case f[0] == "fseq" && len(f) == 5:
		seatIDs := hx.ParseInts(f[1])
		self := hx.Atoi(f[2])
		if self < 0 || self >= pool || len(seatIDs) > 255 {
			return "bad-op", "bad"
		}
		fw, ok := newFollower(seatIDs, self)
		if !ok {
			return "bad-op", "bad"
		}
		allowed := parseAllowed(f[3])
		var out, tags []string
		for _, w := range strings.Split(f[4], "|") {
			p := strings.Split(w, ";")
			if len(p) != 3 {
				return "bad-op", "bad"
			}
			leader, block := hx.Atoi(p[0]), hx.AtoU64(p[1])
			msgs, ok := parseMsgs(p[2])
			if !ok || leader < 0 || leader >= pool || len(msgs) > 200 {
				return "bad-op", "bad"
			}
			obs := fw.window(self, leader, block, allowed, msgs, -1)
			out = append(out, obs)
			tags = append(tags, tagOf(obs, msgs, block))
		}
		return strings.Join(out, " / "), "fseq+" + strings.Join(tags, "+")
	}
	return "bad-op", "bad"
}

type event struct {
	clock bool
	block uint64
	m     msg
}

func parseEvents(s string) ([]event, bool) {
	var out []event
	for _, t := range hx.SplitList(s) {
		if strings.HasPrefix(t, "@") {
			out = append(out, event{clock: true, block: hx.AtoU64(t[1:])})
			continue
		}
		ms, ok := parseMsgs(t)
		if !ok || len(ms) != 1 {
			return nil, false
		}
		out = append(out, event{m: ms[0]})
	}
	return out, len(out) <= 200
}

func coordSetup(seatIDs []int, self int, clk *blockClock) (*tbtc.VerifC24Executor, *spyChannel, bool) {
	var seats []chain.Address
	for _, s := range seatIDs {
		if s < 0 || s >= pool {
			return nil, nil, false
		}
		seats = append(seats, opAddr[s])
	}
	spy := &spyChannel{BroadcastChannel: opChan[self]}
	ex := tbtc.VerifC24NewCoordinatingExecutor(
		&fakeChain{signing: signing},
		walletPK,
		seats,
		opAddr[self],
		nil, // the follower side never generates proposals
		spy,
		group.NewMembershipValidator(quietLogger{}, seats, signing),
		clk.wait,
	)
	return ex, spy, true
}

func execCoord(f []string) (string, string) {
	seatIDs := hx.ParseInts(f[1])
	self := hx.Atoi(f[2])
	block := hx.AtoU64(f[3])
	events, ok := parseEvents(f[6])
	if !ok || self < 0 || self >= pool || len(seatIDs) == 0 || len(seatIDs) > 255 {
		return "bad-op", "bad"
	}
	clk := newBlockClock(block)
	ex, spy, ok := coordSetup(seatIDs, self, clk)
	if !ok {
		return "bad-op", "bad"
	}
	realLeader, _, err := ex.LeaderAndChecklist(block)
	if err != nil || realLeader == opAddr[self] {
		return "bad-op", "bad" // the leader side is not the subject here
	}
	pkh := ex.WalletPublicKeyHash()
	st := spy.arm()
	resCh := make(chan result, 1)
	go func() {
		defer func() {
			if e := recover(); e != nil {
				resCh <- result{panicked: e}
			}
		}()
		leader, p, faults, err := ex.Coordinate(block)
		if err != nil {
			resCh <- result{obs: "err"}
			return
		}
		l := "?"
		if op, ok := addrToOp[leader]; ok {
			l = fmt.Sprint(op)
		}
		resCh <- result{obs: fmt.Sprintf("leader=%s prop=%s faults=%s", l, showProposal(p), showFaults(faults))}
	}()
	var res *result
	defer clk.advance(^uint64(0)) // release every goroutine still waiting for a block
	wait := func(ch <-chan struct{}) bool { // false: hang
		if res != nil {
			return true
		}
		select {
		case <-ch:
		case r := <-resCh:
			res = &r
		case <-time.After(15 * time.Second):
			return false
		}
		return true
	}
	if !wait(st.registered) {
		return "HANG before-recv", "hang"
	}
	if res == nil {
		// the block coordinate() ends the routine's context at has been asked of the clock
		asked := make(chan struct{})
		go func() { <-clk.askedCh; close(asked) }()
		if !wait(asked) {
			return "HANG no-cancel-block", "hang"
		}
	}
	syncLoop := func() bool {
		if res != nil {
			return true
		}
		n, ch := st.syncPoint()
		if opChan[(self+1)%pool].Send(deadCtx, &otherMsg{Nonce: n}) != nil {
			return false
		}
		return wait(ch)
	}
	passive := false
	for i, ev := range events {
		if ev.clock {
			if !syncLoop() {
				return "HANG sync", "hang"
			}
			clk.advance(ev.block)
			if ev.block >= block+uint64(tbtc.VerifC24ActivePhaseDurationBlocks) {
				passive = true
			}
			// if the context's end block has been reached the routine must return
			for _, a := range clk.askedList() {
				if res == nil && ev.block >= a {
					never := make(chan struct{})
					if !wait(never) {
						return "HANG after-cancel-block", "hang"
					}
				}
			}
			continue
		}
		m := ev.m
		var tm net.TaggedMarshaler
		if m.kind == 1 {
			tm = &otherMsg{Nonce: 0}
		} else {
			h := pkh
			if m.w != 0 {
				h[19] ^= byte(m.w)
			}
			tm = tbtc.VerifC24NewCoordinationMessage(group.MemberIndex(m.sid), m.blk, h, proposalFor(m.act, i+1))
		}
		if opChan[m.net].Send(deadCtx, tm) != nil {
			return "err:send", "bad"
		}
	}
	if !syncLoop() {
		return "HANG sync", "hang"
	}
	clk.advance(^uint64(0))
	never := make(chan struct{})
	if !wait(never) || res == nil {
		return "HANG end", "hang"
	}
	if res.panicked != nil {
		panic(res.panicked)
	}
	tag := "fcoord"
	if passive {
		tag += "+passivephase"
	}
	if strings.Contains(res.obs, "prop=") {
		tag += "+accept"
	} else {
		tag += "+idle"
	}
	return fmt.Sprintf("cancel=%s %s", hx.JoinInts(clk.askedList()), res.obs), tag
}

func tagOf(obs string, msgs []msg, block uint64) string {
	var t []string
	if strings.HasPrefix(obs, "prop=-") {
		t = append(t, "idle")
	} else {
		t = append(t, "accept")
	}
	if strings.Contains(obs, "=I") || strings.Contains(obs, ",I") {
		t = append(t, "imp")
	}
	if strings.Contains(obs, "=M") || strings.Contains(obs, ",M") {
		t = append(t, "mistake")
	}
	has := map[string]bool{}
	for _, m := range msgs {
		if m.kind == 1 {
			has["othertype"] = true
		} else {
			if m.kind == 2 {
				has["retransmit"] = true
			}
			if m.blk != block {
				has["wrongblock"] = true
			}
			if m.w != 0 {
				has["wrongwallet"] = true
			}
		}
	}
	for _, k := range []string{"othertype", "wrongblock", "wrongwallet", "retransmit"} {
		if has[k] {
			t = append(t, k)
		}
	}
	if len(msgs) == 0 {
		t = append(t, "silence")
	}
	return strings.Join(t, "+")
}

func seatsOf(seatIDs []int, op int) []int {
	var out []int
	for i, s := range seatIDs {
		if s == op {
			out = append(out, i+1)
		}
	}
	return out
}

type groupGen struct {
	seatIDs []int
	perm    []int
	nops    int
}

func genGroup(r *hx.Rng) groupGen {
	ns := r.Range(2, 10)
	if r.Chance(1, 10) {
		ns = 1
	}
	nops := r.Range(2, 5) // operators perm[0..nops-1] back the wallet, the rest of the pool are outsiders
	perm := r.Perm(pool)
	seatIDs := make([]int, ns)
	for j := range seatIDs {
		seatIDs[j] = perm[r.Intn(nops)]
	}
	return groupGen{seatIDs, perm, nops}
}

func (g groupGen) pickSelf(r *hx.Rng, leader int) int {
	ns := len(g.seatIDs)
	self := g.seatIDs[r.Intn(ns)]
	if r.Chance(9, 10) {
		for k := 0; k < 8 && self == leader; k++ {
			self = g.seatIDs[r.Intn(ns)]
		}
	}
	if r.Chance(1, 30) {
		self = g.perm[pool-1] // follower that has no seat at all
	}
	return self
}

func genAllowed(r *hx.Rng) []int {
	switch r.Intn(4) {
	case 0:
		return []int{3, 0}
	case 1:
		return []int{3, 2, 5, 4, 0}
	case 2:
		return []int{3, 1, 0}
	}
	var allowed []int
	for a := 0; a <= 5; a++ {
		if r.Bool() {
			allowed = append(allowed, a)
		}
	}
	return allowed
}

func (g groupGen) genMsgs(r *hx.Rng, self, leader int, block uint64, allowed []int, retransmit bool) []string {
	seatIDs, perm, nops := g.seatIDs, g.perm, g.nops
	ns := len(seatIDs)
	nm := r.Range(0, 10)
	if r.Chance(1, 12) {
		nm = r.Range(10, 60)
	}
	leaderSeats := seatsOf(seatIDs, leader)
	var ms []string
	for j := 0; j < nm; j++ {
		m := msg{kind: 0, blk: block, w: 0, act: r.Intn(6)}
		if r.Chance(1, 2) && len(allowed) > 0 {
			m.act = allowed[r.Intn(len(allowed))]
		}
		switch r.Intn(12) {
		case 0: // the leader, correctly
			m.net, m.sid = leader, leaderSeats[0]
		case 1: // the leader with another of its seats
			m.net, m.sid = leader, leaderSeats[r.Intn(len(leaderSeats))]
		case 2, 3: // a member with one of its own seats (impersonation if not the leader)
			k := r.Intn(ns)
			m.net, m.sid = seatIDs[k], k+1
		case 4: // somebody claims the leader's index
			m.net, m.sid = perm[r.Intn(pool)], leaderSeats[0]
		case 5: // member with somebody else's seat
			m.net, m.sid = seatIDs[r.Intn(ns)], r.Range(1, ns)
		case 6: // outsider
			m.net, m.sid = perm[pool-1-r.Intn(pool-nops)], r.Range(1, ns)
		case 7: // index out of the group
			m.net = seatIDs[r.Intn(ns)]
			m.sid = hx.Pick(r, []int{0, ns + 1, 255, 254, ns + 2})
		case 8: // another type
			m.kind, m.net, m.sid = 1, perm[r.Intn(pool)], 0
			m.act = 0
		case 9: // own index of the follower
			ss := seatsOf(seatIDs, self)
			if len(ss) > 0 {
				m.sid = ss[r.Intn(len(ss))]
			} else {
				m.sid = r.Range(1, ns)
			}
			m.net = hx.Pick(r, []int{self, leader})
		default:
			m.net, m.sid = leader, leaderSeats[0]
			if r.Bool() {
				k := r.Intn(ns)
				m.net, m.sid = seatIDs[k], k+1
			}
			if r.Bool() {
				m.blk = hx.Pick(r, []uint64{block + 1, block - 1, block + 900, block - 900, 0})
			} else {
				m.w = r.Range(1, 255)
			}
		}
		if retransmit && m.kind == 0 && r.Chance(1, 2) {
			m.kind = 2
		}
		ms = append(ms, fmt.Sprintf("%d:%d:%d:%d:%d:%d", m.kind, m.net, m.sid, m.blk, m.w, m.act))
	}
	// duplicates of earlier messages
	for j := 0; j < len(ms) && r.Chance(1, 4); j++ {
		k := r.Intn(len(ms))
		at := r.Range(k, len(ms))
		ms = append(ms[:at], append([]string{ms[k]}, ms[at:]...)...)
	}
	return ms
}

// genCoord: the follower side of coordinate() with clock advances; the leader and the checklist
// of the window come from the real getLeader / getActionsChecklist.
func genCoord(r *hx.Rng, g groupGen) (string, bool) {
	initOnce.Do(setup)
	block := uint64(r.Range(1, 50)) * 900
	ex, _, ok := coordSetup(g.seatIDs, g.seatIDs[0], newBlockClock(block))
	if !ok {
		return "", false
	}
	leaderAddr, checklist, err := ex.LeaderAndChecklist(block)
	if err != nil {
		return "", false
	}
	leader := addrToOp[leaderAddr]
	self := -1
	for _, s := range g.seatIDs {
		if s != leader {
			self = s
		}
	}
	if self < 0 {
		return "", false
	}
	var allowed []int
	for _, a := range checklist {
		allowed = append(allowed, int(a))
	}
	allowed = append(allowed, int(tbtc.ActionNoop))
	active := uint64(tbtc.VerifC24ActivePhaseDurationBlocks)
	total := uint64(tbtc.VerifC24DurationBlocks)
	leaderID := seatsOf(g.seatIDs, leader)[0]
	valid := func() string { return fmt.Sprintf("0:%d:%d:%d:0:%d", leader, leaderID, block, allowed[r.Intn(len(allowed))]) }
	var ev []string
	ev = append(ev, g.genMsgs(r, self, leader, block, allowed, false)...)
	if len(ev) > 6 {
		ev = ev[:6]
	}
	if r.Chance(1, 2) {
		ev = append(ev, fmt.Sprintf("@%d", block+uint64(r.Range(1, int(active)-1))))
		ev = append(ev, g.genMsgs(r, self, leader, block, allowed, false)...)
	}
	if r.Chance(1, 5) {
		ev = append(ev, valid()) // leader speaks in the active phase
	}
	// end of the active phase: exactly at the boundary or somewhere in the passive phase
	ev = append(ev, fmt.Sprintf("@%d", block+active+uint64(hx.Pick(r, []int{0, 0, 1, 5, int(total-active) - 1}))))
	ev = append(ev, valid()) // a perfectly valid leader proposal, but in the passive phase
	if r.Bool() {
		ev = append(ev, g.genMsgs(r, self, leader, block, allowed, false)...)
	}
	if r.Bool() {
		ev = append(ev, fmt.Sprintf("@%d", block+total))
		ev = append(ev, valid())
	}
	return fmt.Sprintf("fcoord %s %d %d %d %s %s", hx.JoinInts(g.seatIDs), self, block, leader,
		hx.JoinInts(allowed), hx.JoinStrs(ev)), true
}

func gen(r *hx.Rng, n int, tier string) []string {
	var ops []string
	for i := 0; i < n; i++ {
		g := genGroup(r)
		ns := len(g.seatIDs)
		leader := g.seatIDs[r.Intn(ns)]
		self := g.pickSelf(r, leader)
		block := uint64(r.Range(1, 50)) * 900
		allowed := genAllowed(r)
		switch k := r.Intn(40); {
		case k >= 37:
			if op, ok := genCoord(r, g); ok {
				ops = append(ops, op)
				continue
			}
			fallthrough
		case k < 5: // consecutive windows on one long-lived executor
			nw := r.Range(2, 5)
			var ws []string
			for w := 0; w < nw; w++ {
				if r.Chance(1, 2) {
					leader = g.seatIDs[r.Intn(ns)]
				}
				if !r.Chance(1, 5) { // sometimes the same window again
					block += 900
				}
				ws = append(ws, fmt.Sprintf("%d;%d;%s", leader, block,
					hx.JoinStrs(g.genMsgs(r, self, leader, block, allowed, false))))
			}
			ops = append(ops, fmt.Sprintf("fseq %s %d %s %s", hx.JoinInts(g.seatIDs), self, hx.JoinInts(allowed), strings.Join(ws, "|")))
		case k < 9: // cancellation racing with buffered messages
			ms := g.genMsgs(r, self, leader, block, allowed, false)
			ops = append(ops, fmt.Sprintf("frace %s %d %d %d %s %s %d",
				hx.JoinInts(g.seatIDs), self, leader, block, hx.JoinInts(allowed), hx.JoinStrs(ms), r.Intn(len(ms)+1)))
		default:
			ms := g.genMsgs(r, self, leader, block, allowed, k == 9)
			ops = append(ops, fmt.Sprintf("follow %s %d %d %d %s %s",
				hx.JoinInts(g.seatIDs), self, leader, block, hx.JoinInts(allowed), hx.JoinStrs(ms)))
		}
	}
	return ops
}

func facts() []string {
	return []string{
		fmt.Sprintf("nat faultLeaderIdleness %d", tbtc.FaultLeaderIdleness),
		fmt.Sprintf("nat faultLeaderMistake %d", tbtc.FaultLeaderMistake),
		fmt.Sprintf("nat faultLeaderImpersonation %d", tbtc.FaultLeaderImpersonation),
		fmt.Sprintf("nat maxMemberIndex %d", group.MaxMemberIndex),
		fmt.Sprintf("nat receiveBuffer %d", tbtc.VerifC24CoordinationMessageReceiveBuffer),
		fmt.Sprintf("nat activePhaseDurationBlocks %d", uint64(tbtc.VerifC24ActivePhaseDurationBlocks)),
		fmt.Sprintf("nat durationBlocks %d", uint64(tbtc.VerifC24DurationBlocks)),
	}
}

func main() {
	hx.Main(&hx.Config{Prop: "C24", Gen: gen, Exec: exec, Facts: facts})
}
