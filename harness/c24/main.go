// C24: coordination followers accept only the leader's valid proposal.
//
// Op line (one complete message history per line):
//
//	follow <seats> <self> <leader> <block> <allowed> <msgs>
//	    seats   = comma list of operator ids (one per seat of the wallet, seat i has member index i+1)
//	    self    = operator id of the follower running executeFollowerRoutine
//	    leader  = operator id of the coordination leader
//	    block   = coordination block of this window
//	    allowed = comma list of allowed action types (`-` = none)
//	    msgs    = comma list of kind:net:sid:blk:w:act (`-` = silence), delivered in this order:
//	              kind 0 = coordination message, 1 = a message of another type;
//	              net  = operator id whose network key really sends the message (pool 0..5);
//	              sid  = senderID claimed in the message; blk = coordination block in the message;
//	              w    = 0: this wallet's public key hash, k>0: another hash; act = proposed action.
//	              The proposal of message number i (1-based) carries the tag i (noop: no payload, tag 0).
//	After the last message has been processed the context is cancelled (end of the active phase).
//
// Obs: prop=<act>:<tag>|- faults=<I<op>|M<op>|L<op>,...> err=<0|1>
package main

import (
	"context"
	"encoding/binary"
	"fmt"
	"math/big"
	"strings"
	"sync"
	"sync/atomic"
	"time"

	"keepverif/harness/hx"

	"github.com/keep-network/keep-core/pkg/chain"
	"github.com/keep-network/keep-core/pkg/chain/local_v1"
	"github.com/keep-network/keep-core/pkg/net"
	netlocal "github.com/keep-network/keep-core/pkg/net/local"
	"github.com/keep-network/keep-core/pkg/operator"
	"github.com/keep-network/keep-core/pkg/protocol/group"
	"github.com/keep-network/keep-core/pkg/tbtc"
	"github.com/keep-network/keep-core/pkg/tecdsa"

	"crypto/ecdsa"
)

const pool = 6

type quietLogger struct{}

func (quietLogger) Debug(args ...interface{})                   {}
func (quietLogger) Debugf(format string, args ...interface{})   {}
func (quietLogger) Error(args ...interface{})                   {}
func (quietLogger) Errorf(format string, args ...interface{})   {}
func (quietLogger) Fatal(args ...interface{})                   {}
func (quietLogger) Fatalf(format string, args ...interface{})   {}
func (quietLogger) Info(args ...interface{})                    {}
func (quietLogger) Infof(format string, args ...interface{})    {}
func (quietLogger) Panic(args ...interface{})                   {}
func (quietLogger) Panicf(format string, args ...interface{})   {}
func (quietLogger) Warn(args ...interface{})                    {}
func (quietLogger) Warnf(format string, args ...interface{})    {}
func (quietLogger) Warning(args ...interface{})                 {}
func (quietLogger) Warningf(format string, args ...interface{}) {}

// otherMsg is a network message of a type the follower is not interested in. The one with
// the current nonce is the end-of-history sentinel.
type otherMsg struct{ Nonce uint64 }

func (m *otherMsg) Type() string { return "verif/other_message" }
func (m *otherMsg) Marshal() ([]byte, error) {
	b := make([]byte, 8)
	binary.BigEndian.PutUint64(b, m.Nonce)
	return b, nil
}
func (m *otherMsg) Unmarshal(b []byte) error {
	if len(b) != 8 {
		return fmt.Errorf("bad length")
	}
	m.Nonce = binary.BigEndian.Uint64(b)
	return nil
}

// fakeChain: executeFollowerRoutine only uses Signing().PublicKeyBytesToAddress.
type fakeChain struct {
	tbtc.Chain
	signing chain.Signing
}

func (fc *fakeChain) Signing() chain.Signing { return fc.signing }

// spyChannel wraps the real pkg/net/local channel of the follower: it tells the harness when
// the handler is registered and when the follower loop *starts processing* the sentinel
// (Payload() is the first thing the loop calls on a message), i.e. when every earlier
// message has been fully processed. It changes neither content nor order of delivery.
type spyChannel struct {
	net.BroadcastChannel
	nonce      uint64
	registered chan struct{}
	seen       chan struct{}
	once       sync.Once
}

type spyMsg struct {
	net.Message
	s *spyChannel
}

func (m *spyMsg) Payload() interface{} {
	p := m.Message.Payload()
	if o, ok := p.(*otherMsg); ok && o.Nonce == m.s.nonce {
		m.s.once.Do(func() { close(m.s.seen) })
	}
	return p
}

func (s *spyChannel) Recv(ctx context.Context, h func(m net.Message)) {
	s.BroadcastChannel.Recv(ctx, func(m net.Message) { h(&spyMsg{m, s}) })
	close(s.registered)
}

var (
	opAddr   [pool]chain.Address
	opChan   [pool]net.BroadcastChannel
	addrToOp = map[chain.Address]int{}
	signing  chain.Signing
	walletPK *ecdsa.PublicKey
	nonceCtr uint64
	deadCtx  context.Context
	initOnce sync.Once
)

func setup() {
	curve := local_v1.DefaultCurve
	for i := 0; i < pool; i++ {
		d := big.NewInt(int64(1001 + i))
		x, y := curve.ScalarBaseMult(d.Bytes())
		priv := &operator.PrivateKey{PublicKey: operator.PublicKey{Curve: operator.Secp256k1, X: x, Y: y}, D: d}
		if signing == nil {
			signing = local_v1.NewSigner(priv)
		}
		addr, err := signing.PublicKeyToAddress(&priv.PublicKey)
		if err != nil {
			panic(err)
		}
		opAddr[i] = addr
		addrToOp[addr] = i
		ch, err := netlocal.ConnectWithKey(&priv.PublicKey).BroadcastChannelFor("verif-c24")
		if err != nil {
			panic(err)
		}
		ch.SetUnmarshaler(tbtc.VerifC24CoordinationMessageUnmarshaler)
		ch.SetUnmarshaler(func() net.TaggedUnmarshaler { return &otherMsg{} })
		opChan[i] = ch
	}
	x, y := tecdsa.Curve.ScalarBaseMult(big.NewInt(4242).Bytes())
	walletPK = &ecdsa.PublicKey{Curve: tecdsa.Curve, X: x, Y: y}
	c, cancel := context.WithCancel(context.Background())
	cancel()
	deadCtx = c // Send with a finished context: delivered once, never retransmitted
}

type msg struct {
	kind, net, sid int
	blk          uint64
	w, act       int
}

func parseMsgs(s string) ([]msg, bool) {
	var out []msg
	for _, t := range hx.SplitList(s) {
		p := strings.Split(t, ":")
		if len(p) != 6 {
			return nil, false
		}
		m := msg{kind: hx.Atoi(p[0]), net: hx.Atoi(p[1]), sid: hx.Atoi(p[2]), blk: hx.AtoU64(p[3]), w: hx.Atoi(p[4]), act: hx.Atoi(p[5])}
		if m.net < 0 || m.net >= pool || m.sid < 0 || m.sid > 255 || m.act < 0 || m.act > 5 || m.w < 0 || m.w > 255 {
			return nil, false
		}
		out = append(out, m)
	}
	return out, true
}

func proposalFor(act int, tag int) tbtc.CoordinationProposal {
	fee := big.NewInt(int64(tag))
	switch tbtc.WalletActionType(act) {
	case tbtc.ActionHeartbeat:
		var m [16]byte
		binary.BigEndian.PutUint64(m[:8], uint64(tag))
		return &tbtc.HeartbeatProposal{Message: m}
	case tbtc.ActionDepositSweep:
		return &tbtc.DepositSweepProposal{SweepTxFee: fee}
	case tbtc.ActionRedemption:
		return &tbtc.RedemptionProposal{RedemptionTxFee: fee}
	case tbtc.ActionMovingFunds:
		return &tbtc.MovingFundsProposal{MovingFundsTxFee: fee}
	case tbtc.ActionMovedFundsSweep:
		return &tbtc.MovedFundsSweepProposal{SweepTxFee: fee}
	}
	return &tbtc.NoopProposal{}
}

func showProposal(p tbtc.CoordinationProposal) string {
	if p == nil {
		return "-"
	}
	tag := uint64(0)
	switch q := p.(type) {
	case *tbtc.HeartbeatProposal:
		tag = binary.BigEndian.Uint64(q.Message[:8])
	case *tbtc.DepositSweepProposal:
		tag = q.SweepTxFee.Uint64()
	case *tbtc.RedemptionProposal:
		tag = q.RedemptionTxFee.Uint64()
	case *tbtc.MovingFundsProposal:
		tag = q.MovingFundsTxFee.Uint64()
	case *tbtc.MovedFundsSweepProposal:
		tag = q.SweepTxFee.Uint64()
	}
	return fmt.Sprintf("%d:%d", uint8(p.ActionType()), tag)
}

func showFaults(fs []tbtc.VerifC24Fault) string {
	var out []string
	for _, f := range fs {
		c := "?"
		if op, ok := addrToOp[f.Culprit]; ok {
			c = fmt.Sprint(op)
		}
		switch f.FaultType {
		case tbtc.FaultLeaderIdleness:
			out = append(out, "L"+c)
		case tbtc.FaultLeaderMistake:
			out = append(out, "M"+c)
		case tbtc.FaultLeaderImpersonation:
			out = append(out, "I"+c)
		default:
			out = append(out, "U"+c)
		}
	}
	return hx.JoinStrs(out)
}

type result struct {
	obs      string
	panicked interface{}
}

func exec(op string) (string, string) {
	initOnce.Do(setup)
	f := strings.Fields(op)
	if len(f) != 7 || f[0] != "follow" {
		return "bad-op", "bad"
	}
	seatIDs := hx.ParseInts(f[1])
	self, leader := hx.Atoi(f[2]), hx.Atoi(f[3])
	block := hx.AtoU64(f[4])
	msgs, ok := parseMsgs(f[6])
	if !ok || self < 0 || self >= pool || leader < 0 || leader >= pool || len(seatIDs) > 255 || len(msgs) > 200 {
		return "bad-op", "bad"
	}
	var seats []chain.Address
	for _, s := range seatIDs {
		if s < 0 || s >= pool {
			return "bad-op", "bad"
		}
		seats = append(seats, opAddr[s])
	}
	var allowed []tbtc.WalletActionType
	for _, a := range hx.ParseInts(f[5]) {
		allowed = append(allowed, tbtc.WalletActionType(a))
	}

	spy := &spyChannel{
		BroadcastChannel: opChan[self],
		nonce:            atomic.AddUint64(&nonceCtr, 1),
		registered:       make(chan struct{}),
		seen:             make(chan struct{}),
	}
	ex := tbtc.VerifC24NewExecutor(
		&fakeChain{signing: signing},
		walletPK,
		seats,
		opAddr[self],
		spy,
		group.NewMembershipValidator(quietLogger{}, seats, signing),
	)
	pkh := ex.WalletPublicKeyHash()

	ctx, cancel := context.WithCancel(context.Background())
	defer cancel()
	resCh := make(chan result, 1)
	go func() {
		defer func() {
			if e := recover(); e != nil {
				resCh <- result{panicked: e}
			}
		}()
		p, faults, err := ex.ExecuteFollowerRoutine(ctx, opAddr[leader], block, allowed)
		e := 0
		if err != nil {
			e = 1
		}
		resCh <- result{obs: fmt.Sprintf("prop=%s faults=%s err=%d", showProposal(p), showFaults(faults), e)}
	}()
	finish := func(r result) (string, string) {
		if r.panicked != nil {
			panic(r.panicked) // reported as PANIC by hx
		}
		return r.obs, tagOf(r.obs, msgs, block)
	}
	select {
	case <-spy.registered:
	case r := <-resCh:
		return finish(r)
	}
	for i, m := range msgs {
		var tm net.TaggedMarshaler
		if m.kind == 0 {
			h := pkh
			if m.w != 0 {
				h[19] ^= byte(m.w)
			}
			tm = tbtc.VerifC24NewCoordinationMessage(group.MemberIndex(m.sid), m.blk, h, proposalFor(m.act, i+1))
		} else {
			tm = &otherMsg{Nonce: 0}
		}
		if err := opChan[m.net].Send(deadCtx, tm); err != nil {
			return "err:send", "bad"
		}
	}
	if err := opChan[(self+1)%pool].Send(deadCtx, &otherMsg{Nonce: spy.nonce}); err != nil {
		return "err:send", "bad"
	}
	// wait (on conditions, not on time) until the follower returned or reached the sentinel
	select {
	case r := <-resCh:
		return finish(r)
	case <-spy.seen:
	case <-time.After(15 * time.Second):
		return "HANG before-sentinel", "hang"
	}
	cancel() // end of the active phase
	select {
	case r := <-resCh:
		return finish(r)
	case <-time.After(15 * time.Second):
		return "HANG after-cancel", "hang"
	}
}

func tagOf(obs string, msgs []msg, block uint64) string {
	var t []string
	if strings.HasPrefix(obs, "prop=-") {
		t = append(t, "idle")
	} else {
		t = append(t, "accept")
	}
	if strings.Contains(obs, "=I") || strings.Contains(obs, ",I") {
		t = append(t, "imp")
	}
	if strings.Contains(obs, "=M") || strings.Contains(obs, ",M") {
		t = append(t, "mistake")
	}
	has := map[string]bool{}
	for _, m := range msgs {
		if m.kind != 0 {
			has["othertype"] = true
		} else {
			if m.blk != block {
				has["wrongblock"] = true
			}
			if m.w != 0 {
				has["wrongwallet"] = true
			}
		}
	}
	for _, k := range []string{"othertype", "wrongblock", "wrongwallet"} {
		if has[k] {
			t = append(t, k)
		}
	}
	if len(msgs) == 0 {
		t = append(t, "silence")
	}
	return strings.Join(t, "+")
}

func seatsOf(seatIDs []int, op int) []int {
	var out []int
	for i, s := range seatIDs {
		if s == op {
			out = append(out, i+1)
		}
	}
	return out
}

func gen(r *hx.Rng, n int, tier string) []string {
	var ops []string
	for i := 0; i < n; i++ {
		ns := r.Range(2, 10)
		if r.Chance(1, 10) {
			ns = 1
		}
		nops := r.Range(2, 5) // operators 0..nops-1 back the wallet, the rest of the pool are outsiders
		perm := r.Perm(pool)
		seatIDs := make([]int, ns)
		for j := range seatIDs {
			seatIDs[j] = perm[r.Intn(nops)]
		}
		leader := seatIDs[r.Intn(ns)]
		self := seatIDs[r.Intn(ns)]
		if r.Chance(9, 10) {
			for k := 0; k < 8 && self == leader; k++ {
				self = seatIDs[r.Intn(ns)]
			}
		}
		if r.Chance(1, 30) {
			self = perm[pool-1] // follower that has no seat at all
		}
		block := uint64(r.Range(1, 50)) * 900
		var allowed []int
		switch r.Intn(4) {
		case 0:
			allowed = []int{3, 0}
		case 1:
			allowed = []int{3, 2, 5, 4, 0}
		case 2:
			allowed = []int{3, 1, 0}
		default:
			for a := 0; a <= 5; a++ {
				if r.Bool() {
					allowed = append(allowed, a)
				}
			}
		}
		nm := r.Range(0, 10)
		if r.Chance(1, 12) {
			nm = r.Range(10, 60)
		}
		leaderSeats := seatsOf(seatIDs, leader)
		var ms []string
		for j := 0; j < nm; j++ {
			m := msg{kind: 0, blk: block, w: 0, act: r.Intn(6)}
			if r.Chance(1, 2) && len(allowed) > 0 {
				m.act = allowed[r.Intn(len(allowed))]
			}
			switch r.Intn(12) {
			case 0: // the leader, correctly
				m.net, m.sid = leader, leaderSeats[0]
			case 1: // the leader with another of its seats
				m.net, m.sid = leader, leaderSeats[r.Intn(len(leaderSeats))]
			case 2, 3: // a member with one of its own seats (impersonation if not the leader)
				k := r.Intn(ns)
				m.net, m.sid = seatIDs[k], k+1
			case 4: // somebody claims the leader's index
				m.net, m.sid = perm[r.Intn(pool)], leaderSeats[0]
			case 5: // member with somebody else's seat
				m.net, m.sid = seatIDs[r.Intn(ns)], r.Range(1, ns)
			case 6: // outsider
				m.net, m.sid = perm[pool-1-r.Intn(pool-nops)], r.Range(1, ns)
			case 7: // index out of the group
				m.net = seatIDs[r.Intn(ns)]
				m.sid = hx.Pick(r, []int{0, ns + 1, 255, 254, ns + 2})
			case 8: // another type
				m.kind, m.net, m.sid = 1, perm[r.Intn(pool)], 0
				m.act = 0
			case 9: // own index of the follower
				ss := seatsOf(seatIDs, self)
				if len(ss) > 0 {
					m.sid = ss[r.Intn(len(ss))]
				} else {
					m.sid = r.Range(1, ns)
				}
				m.net = hx.Pick(r, []int{self, leader})
			default:
				m.net, m.sid = leader, leaderSeats[0]
				if r.Bool() {
					k := r.Intn(ns)
					m.net, m.sid = seatIDs[k], k+1
				}
				if r.Bool() {
					m.blk = hx.Pick(r, []uint64{block + 1, block - 1, block + 900, block - 900, 0})
				} else {
					m.w = r.Range(1, 255)
				}
			}
			ms = append(ms, fmt.Sprintf("%d:%d:%d:%d:%d:%d", m.kind, m.net, m.sid, m.blk, m.w, m.act))
		}
		// duplicates of earlier messages
		for j := 0; j < len(ms) && r.Chance(1, 4); j++ {
			k := r.Intn(len(ms))
			at := r.Range(k, len(ms))
			ms = append(ms[:at], append([]string{ms[k]}, ms[at:]...)...)
		}
		ops = append(ops, fmt.Sprintf("follow %s %d %d %d %s %s",
			hx.JoinInts(seatIDs), self, leader, block, hx.JoinInts(allowed), hx.JoinStrs(ms)))
	}
	return ops
}

func facts() []string {
	return []string{
		fmt.Sprintf("nat faultLeaderIdleness %d", tbtc.FaultLeaderIdleness),
		fmt.Sprintf("nat faultLeaderMistake %d", tbtc.FaultLeaderMistake),
		fmt.Sprintf("nat faultLeaderImpersonation %d", tbtc.FaultLeaderImpersonation),
		fmt.Sprintf("nat maxMemberIndex %d", group.MaxMemberIndex),
		fmt.Sprintf("nat receiveBuffer %d", tbtc.VerifC24CoordinationMessageReceiveBuffer),
	}
}

func main() {
	hx.Main(&hx.Config{Prop: "C24", Gen: gen, Exec: exec, Facts: facts})
}
