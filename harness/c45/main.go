// C45: background pre-parameter generation pauses while a protocol runs.
//
// Op line:  sched <nproto> <nworkers> <group,group,...>
//
//	a group is one token or several tokens joined by `|` (run concurrently from separate
//	goroutines released by one barrier):  L<i> latch i Lock, U<i> latch i Unlock,
//	C checkProtocols, A compute (register one more worker), W (alone) every running worker does
//	one iteration, K<i> (alone) 2560 Lock calls on latch i from 64 goroutines, then 2560 Unlock calls,
//	O (alone) two overlapping checkProtocols calls around a Lock of latch 0.
//
// Obs line: one entry per group, taken at quiescence after the group:
//
//	<w|s>:<len(stops)>:<workers running with a live context>:<IsExecuting per latch>:<panics>
//	i<k> for W (k worker iterations happened)
//
// Real generator.Scheduler / ProtocolLatch; worker functions are the harness's (they count entries
// and block until their context is cancelled or a W probe wakes them). Built with -race.
package main

import (
	"context"
	"fmt"
	"go/ast"
	"go/parser"
	"go/token"
	"os"
	"path/filepath"
	"strings"
	"sync"
	"time"

	"keepverif/harness/hx"

	"github.com/keep-network/keep-core/pkg/generator"
)

type rig struct {
	sched   *generator.Scheduler
	latches []*generator.ProtocolLatch
	mu      sync.Mutex
	active  int // worker invocations inside workerFn whose context is live
	inside  int // worker invocations inside workerFn (any context)
	entered int
	tick    chan struct{}
	panics  int
	slow    bool // a quiescence wait already timed out in this case: do not wait long again
	gateAt  int  // index of the protocol whose next IsExecuting call is gated (-1: none)
	gate    *pollGate
}

// pollGate stops one checkProtocols call inside its poll of a protocol (the Protocol interface is
// the harness's own wrapper around the real latch), so that the harness can place other calls
// while that check is in flight.
type pollGate struct {
	reached chan struct{}
	release chan struct{}
}

type gatedProtocol struct {
	r     *rig
	idx   int
	latch *generator.ProtocolLatch
}

func (p *gatedProtocol) IsExecuting() bool {
	p.r.mu.Lock()
	var g *pollGate
	if p.r.gate != nil && p.r.gateAt == p.idx {
		g = p.r.gate
		p.r.gate = nil // one-shot
	}
	p.r.mu.Unlock()
	if g != nil {
		g.reached <- struct{}{}
		<-g.release
	}
	return p.latch.IsExecuting()
}

func (r *rig) worker(ctx context.Context) {
	r.mu.Lock()
	r.inside++
	r.active++
	r.entered++
	r.mu.Unlock()
	woken := false
	select {
	case <-ctx.Done():
	case <-r.tick:
		woken = true
	}
	_ = woken
	r.mu.Lock()
	r.inside--
	r.active--
	r.mu.Unlock()
}

const settleTimeout = 4 * time.Second

// settle waits until the worker goroutines have caught up with the scheduler's own state:
// working ⇒ len(stops) invocations are inside workerFn; stopped ⇒ none. On timeout the actual
// numbers are reported (and will not match the model).
func (r *rig) settle() (working bool, stops, active int) {
	to := settleTimeout
	if r.slow {
		to = 150 * time.Millisecond
	}
	deadline := time.Now().Add(to)
	for {
		working, _, stops = r.sched.VerifC45State()
		r.mu.Lock()
		active = r.active
		inside := r.inside
		r.mu.Unlock()
		want := 0
		if working {
			want = stops
		}
		if active == want && inside == want {
			return
		}
		if time.Now().After(deadline) {
			r.slow = true
			return
		}
		time.Sleep(50 * time.Microsecond)
	}
}

func (r *rig) do(tok string) {
	defer func() {
		if e := recover(); e != nil {
			r.mu.Lock()
			r.panics++
			r.mu.Unlock()
		}
	}()
	switch {
	case tok == "C":
		r.sched.VerifC45CheckProtocols()
	case tok == "A":
		r.sched.VerifC45Compute(r.worker)
	case tok[0] == 'L':
		r.latches[hx.Atoi(tok[1:])].Lock()
	case tok[0] == 'U':
		r.latches[hx.Atoi(tok[1:])].Unlock()
	}
}

func validTok(tok string, np int) bool {
	if tok == "C" || tok == "A" {
		return true
	}
	if len(tok) < 2 || (tok[0] != 'L' && tok[0] != 'U') {
		return false
	}
	for _, c := range tok[1:] {
		if c < '0' || c > '9' {
			return false
		}
	}
	return hx.Atoi(tok[1:]) < np
}

func exec(op string) (string, string) {
	f := strings.Fields(op)
	if len(f) == 2 && f[0] == "tss" {
		return execTss(f)
	}
	if len(f) != 4 || f[0] != "sched" {
		return "bad-op", "bad"
	}
	np, nw := hx.Atoi(f[1]), hx.Atoi(f[2])
	groups := hx.SplitList(f[3])
	r := &rig{sched: &generator.Scheduler{}, tick: make(chan struct{})}
	for i := 0; i < np; i++ {
		l := generator.NewProtocolLatch()
		r.latches = append(r.latches, l)
		r.sched.RegisterProtocol(&gatedProtocol{r: r, idx: i, latch: l})
	}
	r.gateAt = -1
	defer func() {
		// end of case: stop every worker goroutine
		l := generator.NewProtocolLatch()
		l.Lock()
		r.sched.RegisterProtocol(l)
		r.sched.VerifC45CheckProtocols()
	}()
	for i := 0; i < nw; i++ {
		r.sched.VerifC45Compute(r.worker)
	}
	r.settle()
	tags := map[string]bool{}
	var outs []string
	for _, g := range groups {
		toks := strings.Split(g, "|")
		if g == "W" {
			r.mu.Lock()
			n := r.active
			before := r.entered
			r.mu.Unlock()
			for i := 0; i < n; i++ {
				select {
				case r.tick <- struct{}{}:
				case <-time.After(settleTimeout):
				}
			}
			// every woken worker comes back into workerFn (same context)
			deadline := time.Now().Add(settleTimeout)
			for {
				r.mu.Lock()
				e := r.entered
				r.mu.Unlock()
				if e-before >= n || time.Now().After(deadline) {
					outs = append(outs, fmt.Sprintf("i%d", e-before))
					break
				}
				time.Sleep(50 * time.Microsecond)
			}
			r.settle()
			if n > 0 {
				tags["iter"] = true
			} else {
				tags["paused"] = true
			}
			continue
		}
		if len(g) == 2 && g[0] == 'K' && g[1] >= '0' && g[1] <= '9' {
			// latch counting under contention: 64 goroutines × 40 Lock calls on one latch released
			// by a barrier, then as many Unlock calls. The latch must be back where it was and no
			// Unlock may panic (an increment lost to a race makes the last Unlocks panic).
			li := int(g[1] - '0')
			if li >= np {
				return "bad-op", "bad"
			}
			const gor, per = 64, 40
			start := make(chan struct{})
			var wg sync.WaitGroup
			for k := 0; k < gor; k++ {
				wg.Add(1)
				go func() {
					defer wg.Done()
					<-start
					for x := 0; x < per; x++ {
						r.latches[li].Lock()
					}
				}()
			}
			close(start)
			wg.Wait()
			for x := 0; x < gor*per; x++ {
				r.do(fmt.Sprintf("U%d", li))
			}
			tags["count"] = true
			toks = nil
		}
		if g == "O" {
			// overlapping checks: check A is held inside its poll of the last protocol, latch 0 is
			// locked, check B is started; A is released when B has finished (it overtook A) or has
			// not finished within a grace period (it waits for A, as protocolsMutex demands)
			if np == 0 {
				return "bad-op", "bad"
			}
			gate := &pollGate{reached: make(chan struct{}, 1), release: make(chan struct{})}
			r.mu.Lock()
			r.gate, r.gateAt = gate, np-1
			r.mu.Unlock()
			aDone := make(chan struct{})
			go func() { r.do("C"); close(aDone) }()
			gated := false
			select {
			case <-gate.reached:
				gated = true
			case <-aDone:
			}
			r.do("L0")
			bDone := make(chan struct{})
			go func() { r.do("C"); close(bDone) }()
			if gated {
				select {
				case <-bDone:
					tags["overtook"] = true
				case <-time.After(120 * time.Millisecond):
				}
				close(gate.release)
				<-aDone
			}
			<-bDone
			r.mu.Lock()
			r.gate, r.gateAt = nil, -1
			r.mu.Unlock()
			tags["overlap"] = true
			toks = nil
		}
		for _, t := range toks {
			if !validTok(t, np) {
				return "bad-op", "bad"
			}
		}
		if toks == nil {
		} else if len(toks) == 1 {
			r.do(toks[0])
		} else {
			tags["par"] = true
			start := make(chan struct{})
			var wg sync.WaitGroup
			// contention on the scheduler's work mutex: goroutines that keep reading the state
			// (hook, takes workMutex) for the duration of the group. A queue of waiters makes the
			// order of the critical sections of compute / stop / resume vary from run to run, so
			// a compute whose check and start are separate critical sections gets a stop in between.
			stopPoll := make(chan struct{})
			var pollers sync.WaitGroup
			if strings.Contains(g, "A") && strings.Contains(g, "C") {
				tags["stress"] = true
				for k := 0; k < 6; k++ {
					pollers.Add(1)
					go func() {
						defer pollers.Done()
						for {
							select {
							case <-stopPoll:
								return
							default:
								r.sched.VerifC45State()
							}
						}
					}()
				}
			}
			for _, t := range toks {
				wg.Add(1)
				go func(t string) {
					defer wg.Done()
					<-start
					r.do(t)
				}(t)
			}
			close(start)
			wg.Wait()
			close(stopPoll)
			pollers.Wait()
		}
		working, stops, active := r.settle()
		flags := "-"
		if np > 0 {
			b := make([]byte, np)
			for i, l := range r.latches {
				if l.IsExecuting() {
					b[i] = '1'
				} else {
					b[i] = '0'
				}
			}
			flags = string(b)
		}
		w := "s"
		if working {
			w = "w"
		}
		r.mu.Lock()
		p := r.panics
		r.mu.Unlock()
		outs = append(outs, fmt.Sprintf("%s:%d:%d:%s:%d", w, stops, active, flags, p))
		if g == "C" {
			if working {
				tags["resume"] = true
			} else {
				tags["stop"] = true
			}
			if strings.Count(flags, "1") > 0 && strings.Count(flags, "0") > 0 {
				tags["mixed"] = true
			}
		}
		if p > 0 {
			tags["unlockpanic"] = true
		}
		if g == "A" {
			tags["compute"] = true
		}
	}
	var ts []string
	for _, t := range []string{"stop", "resume", "mixed", "par", "overlap", "overtook", "stress", "count", "iter", "paused", "compute", "unlockpanic"} {
		if tags[t] {
			ts = append(ts, t)
		}
	}
	if len(ts) == 0 {
		return hx.JoinStrs(outs), "none"
	}
	return hx.JoinStrs(outs), strings.Join(ts, "+")
}

func gen(r *hx.Rng, n int, tier string) []string {
	var ops []string
	for i := 0; i < n; i++ {
		if i == 7 || i == 203 {
			ops = append(ops, fmt.Sprintf("tss %d", r.Range(1, 2)))
			continue
		}
		if i%25 == 24 {
			// stress: a worker registration racing the check that stops the scheduler
			reps := make([]string, 15)
			for k := range reps {
				reps[k] = "L0,A|A|C,U0,C"
			}
			ops = append(ops, "sched 1 0 "+strings.Join(reps, ","))
			continue
		}
		np := r.Range(1, 3)
		if r.Chance(1, 15) {
			np = 0
		}
		nw := r.Range(0, 3)
		ln := r.Range(2, 14)
		held := make([]int, np) // locks completed in earlier groups (so that unlocks are paired)
		var groups []string
		for j := 0; j < ln; j++ {
			single := func(parallel bool) (string, func()) {
				for {
					switch r.Intn(10) {
					case 0, 1, 2:
						if np == 0 {
							continue
						}
						i := r.Intn(np)
						return fmt.Sprintf("L%d", i), func() { held[i]++ }
					case 3, 4:
						if np == 0 {
							continue
						}
						i := r.Intn(np)
						if held[i] == 0 {
							// unpaired Unlock panics: only alone, and rarely
							if parallel || !r.Chance(1, 6) {
								continue
							}
							return fmt.Sprintf("U%d", i), func() {}
						}
						held[i]--
						return fmt.Sprintf("U%d", i), func() {}
					case 5, 6, 7:
						return "C", func() {}
					case 8:
						return "A", func() {}
					default:
						if parallel {
							continue
						}
						return "W", func() {}
					}
				}
			}
			if np > 0 && r.Chance(1, 12) {
				groups = append(groups, fmt.Sprintf("K%d", r.Intn(np)))
			} else if np > 0 && r.Chance(1, 10) {
				// overlapping checks around a Lock of latch 0, then a quiescent check
				groups = append(groups, "O")
				held[0]++
				if r.Bool() {
					groups = append(groups, "C")
				}
			} else if r.Chance(1, 4) {
				k := r.Range(2, 4)
				var toks []string
				var after []func()
				for x := 0; x < k; x++ {
					t, fn := single(true)
					toks = append(toks, t)
					after = append(after, fn)
				}
				for _, fn := range after {
					fn()
				}
				groups = append(groups, strings.Join(toks, "|"))
				if r.Bool() {
					groups = append(groups, "C")
				}
			} else {
				t, fn := single(false)
				fn()
				groups = append(groups, t)
			}
		}
		ops = append(ops, fmt.Sprintf("sched %d %d %s", np, nw, strings.Join(groups, ",")))
	}
	return ops
}

// ---- T1 lock-set facts ----------------------------------------------------------
// funcLocks reports whether the body of method `name` in `file` starts with
// `<recv>.<mutex>.<lockFn>()` followed by `defer <recv>.<mutex>.<unlockFn>()`.
func funcLocks(file, name, mutex, lockFn, unlockFn string) bool {
	repo := os.Getenv("VERIF_REPO")
	if repo == "" {
		repo = "/repo"
	}
	fset := token.NewFileSet()
	f, err := parser.ParseFile(fset, filepath.Join(repo, "pkg/generator", file), nil, 0)
	if err != nil {
		return false
	}
	isCall := func(e ast.Expr, fn string) bool {
		c, ok := e.(*ast.CallExpr)
		if !ok {
			return false
		}
		s, ok := c.Fun.(*ast.SelectorExpr)
		if !ok || s.Sel.Name != fn {
			return false
		}
		m, ok := s.X.(*ast.SelectorExpr)
		return ok && m.Sel.Name == mutex
	}
	for _, d := range f.Decls {
		fd, ok := d.(*ast.FuncDecl)
		if !ok || fd.Name.Name != name || fd.Recv == nil || fd.Body == nil || len(fd.Body.List) < 2 {
			continue
		}
		es, ok := fd.Body.List[0].(*ast.ExprStmt)
		if !ok || !isCall(es.X, lockFn) {
			return false
		}
		ds, ok := fd.Body.List[1].(*ast.DeferStmt)
		return ok && isCall(ds.Call, unlockFn)
	}
	return false
}

func facts() []string {
	b := func(name string, v bool) string { return fmt.Sprintf("bool %s %v", name, v) }
	return []string{
		b("latchLockLocked", funcLocks("latch.go", "Lock", "mutex", "Lock", "Unlock")),
		b("latchUnlockLocked", funcLocks("latch.go", "Unlock", "mutex", "Lock", "Unlock")),
		b("latchIsExecutingLocked", funcLocks("latch.go", "IsExecuting", "mutex", "RLock", "RUnlock")),
		b("checkHoldsProtocolsMutex", funcLocks("scheduler.go", "checkProtocols", "protocolsMutex", "Lock", "Unlock")),
		b("registerHoldsProtocolsMutex", funcLocks("scheduler.go", "RegisterProtocol", "protocolsMutex", "Lock", "Unlock")),
		b("stopHoldsWorkMutex", funcLocks("scheduler.go", "stop", "workMutex", "Lock", "Unlock")),
		b("resumeHoldsWorkMutex", funcLocks("scheduler.go", "resume", "workMutex", "Lock", "Unlock")),
		b("computeHoldsWorkMutex", funcLocks("scheduler.go", "compute", "workMutex", "Lock", "Unlock")),
	}
}

func main() {
	hx.Main(&hx.Config{Prop: "C45", Gen: gen, Exec: exec, Facts: facts, PerOpTimeout: 120 * time.Second})
}
