package main

// Second family: the real TSS pre-parameter generator of pkg/tecdsa/dkg (newTssPreParamsPool:
// keygen.GeneratePreParamsWithContext under the scheduler's worker context).
//
// Op line:  tss <concurrency>
// A scheduler with one latch, the real pool (size 1) over an empty in-memory handle: generation
// starts at once (safe-prime search, tens of seconds of work). As soon as its goroutines exist the
// latch is locked and checkProtocols runs; the generation goroutines must be gone shortly after.
// Obs line: `quiet` (number of goroutines back at the level before the pool was created) or
// `still-generating:<extra goroutines>` after 6 s.

import (
	"fmt"
	"runtime"
	"time"

	"keepverif/harness/hx"

	logging "github.com/ipfs/go-log/v2"
	"github.com/keep-network/keep-common/pkg/persistence"
	"github.com/keep-network/keep-core/pkg/generator"
	"github.com/keep-network/keep-core/pkg/tecdsa/dkg"
)

type emptyHandle struct{}

func (emptyHandle) Save([]byte, string, string) error { return nil }
func (emptyHandle) Delete(string, string) error       { return nil }
func (emptyHandle) ReadAll() (<-chan persistence.DataDescriptor, <-chan error) {
	dc := make(chan persistence.DataDescriptor)
	ec := make(chan error)
	close(dc)
	close(ec)
	return dc, ec
}

var tssLogger = func() logging.StandardLogger {
	l := logging.Logger("verif-c45")
	logging.SetAllLoggers(logging.LevelFatal)
	return l
}()

func settleGoroutines(target int, d time.Duration) int {
	deadline := time.Now().Add(d)
	for {
		n := runtime.NumGoroutine()
		if n <= target || time.Now().After(deadline) {
			return n
		}
		time.Sleep(2 * time.Millisecond)
	}
}

func execTss(f []string) (string, string) {
	conc := hx.Atoi(f[1])
	if conc < 1 || conc > 4 {
		return "bad-op", "bad"
	}
	base := settleGoroutines(0, 300*time.Millisecond) // let earlier cases' goroutines end
	base = runtime.NumGoroutine()
	sched := &generator.Scheduler{}
	latch := generator.NewProtocolLatch()
	sched.RegisterProtocol(latch)
	dkg.VerifC45NewTssPreParamsPool(tssLogger, sched, emptyHandle{}, 1, 90*time.Second, 0, conc)
	// wait until the generation is in flight: worker goroutine + the library's search goroutines
	deadline := time.Now().Add(10 * time.Second)
	for runtime.NumGoroutine() < base+2 && time.Now().Before(deadline) {
		time.Sleep(time.Millisecond)
	}
	time.Sleep(50 * time.Millisecond)
	inflight := runtime.NumGoroutine() - base
	latch.Lock()
	sched.VerifC45CheckProtocols()
	working, _, stops := sched.VerifC45State()
	n := settleGoroutines(base, 6*time.Second)
	if working || stops != 0 {
		return "scheduler-not-stopped", "tss"
	}
	if inflight < 1 {
		return "generation-never-started", "tss"
	}
	if n > base {
		return fmt.Sprintf("still-generating:%d", n-base), "tss"
	}
	return "quiet", "tss"
}
