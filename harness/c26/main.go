// C26: wallet transactions conserve value and pay only the intended scripts.
//
// Op lines (one complete case each):
//
//	sweep  <key> <walletPkh> <main|-> <dep,dep,...> <fee>
//	redeem <key> <walletPkh> <main|-> <req,req,...|-> <fee> <shape d|0|1>
//	move   <main|-> <targetPkh,...|-> <fee>
//	msweep <key> <walletPkh> <moved|-> <main|-> <fee>
//	shares <fee> <n>
//
// with  main/moved = id:idx:value:kind          (kind: w=P2WPKH p=P2PKH s=P2SH S=P2WSH x=unknown tx)
//
//	dep        = id:idx:value:kind:flag     (flag: n=plain e=extra data b=bad depositor)
//	req        = scriptHex:requested:treasury
//
// Obs: `in=<id:idx,...> out=<scriptHex:value,...>` read from the unsigned transaction inside
// the returned TransactionBuilder, `err:<class>`, or `shares=a,b,c`.
package main

import (
	"crypto/ecdsa"
	"crypto/sha256"
	"encoding/hex"
	"fmt"
	"math/big"
	"strconv"
	"strings"

	"keepverif/harness/hx"

	"github.com/btcsuite/btcd/btcec"
	"github.com/btcsuite/btcutil"
	"github.com/keep-network/keep-core/pkg/bitcoin"
	"github.com/keep-network/keep-core/pkg/chain"
	"github.com/keep-network/keep-core/pkg/tbtc"
)

// ---- fake bitcoin.Chain ---------------------------------------------------

type fakeChain struct {
	bitcoin.Chain // nil: any other method panics (none is used by the assemblers)
	txs           map[bitcoin.Hash]*bitcoin.Transaction
}

func (f *fakeChain) GetTransaction(h bitcoin.Hash) (*bitcoin.Transaction, error) {
	if tx, ok := f.txs[h]; ok {
		return tx, nil
	}
	return nil, fmt.Errorf("transaction not found")
}

func txHash(id uint64) bitcoin.Hash {
	return bitcoin.Hash(sha256.Sum256([]byte(fmt.Sprintf("c26-tx-%d", id))))
}

// locking scripts written byte by byte (independent of pkg/bitcoin's script helpers)
func p2wpkh(h []byte) []byte { return append([]byte{0x00, 0x14}, h...) }
func p2pkh(h []byte) []byte {
	return append(append([]byte{0x76, 0xa9, 0x14}, h...), 0x88, 0xac)
}
func p2sh(h []byte) []byte  { return append(append([]byte{0xa9, 0x14}, h...), 0x87) }
func p2wsh(h []byte) []byte { return append([]byte{0x00, 0x20}, h...) }

// ---- wallet keys ------------------------------------------------------------

func walletKey(k int) *ecdsa.PublicKey {
	d := sha256.Sum256([]byte(fmt.Sprintf("c26-key-%d", k)))
	s := new(big.Int).SetBytes(d[:])
	s.Mod(s, btcec.S256().N)
	if s.Sign() == 0 {
		s.SetInt64(1)
	}
	x, y := btcec.S256().ScalarBaseMult(s.Bytes())
	return &ecdsa.PublicKey{Curve: btcec.S256(), X: x, Y: y}
}

func walletPkh(k int) []byte {
	pk := walletKey(k)
	return btcutil.Hash160((*btcec.PublicKey)(pk).SerializeCompressed())
}

// ---- parsing ----------------------------------------------------------------

type utxo struct {
	id    uint64
	idx   uint32
	value int64
	kind  string
	flag  string
}

func parseUtxo(s string, fields int) (*utxo, bool) {
	f := strings.Split(s, ":")
	if len(f) != fields {
		return nil, false
	}
	id, e1 := strconv.ParseUint(f[0], 10, 64)
	idx, e2 := strconv.ParseUint(f[1], 10, 32)
	v, e3 := strconv.ParseInt(f[2], 10, 64)
	if e1 != nil || e2 != nil || e3 != nil || idx > 8 || !strings.Contains("wpsSx", f[3]) || len(f[3]) != 1 {
		return nil, false
	}
	u := &utxo{id: id, idx: uint32(idx), value: v, kind: f[3]}
	if fields == 5 {
		if len(f[4]) != 1 || !strings.Contains("neb", f[4]) {
			return nil, false
		}
		u.flag = f[4]
	}
	return u, true
}

func parseOptUtxo(s string) (*utxo, bool) {
	if s == "-" {
		return nil, true
	}
	return parseUtxo(s, 4)
}

// register puts output u.idx of the previous transaction u.id on the chain (several UTXOs of
// one op may be different outputs of the same funding transaction); h20/h32 are what the
// locking script commits to (wallet pkh / deposit script hashes). The value the chain reports
// differs from the UTXO struct's value for odd ids: the assemblers must use the struct's.
func (f *fakeChain) register(u *utxo, h20 []byte, h32 []byte) {
	if u.kind == "x" {
		return
	}
	var script []byte
	switch u.kind {
	case "w":
		script = p2wpkh(h20)
	case "p":
		script = p2pkh(h20)
	case "s":
		script = p2sh(h20)
	case "S":
		script = p2wsh(h32)
	}
	tx := f.txs[txHash(u.id)]
	if tx == nil {
		tx = &bitcoin.Transaction{Version: 1}
		f.txs[txHash(u.id)] = tx
	}
	for len(tx.Outputs) <= 8 { // every index an op line may name exists (kind x on a shared
		// funding transaction then points at an OP_RETURN filler: unknown script class)
		tx.Outputs = append(tx.Outputs,
			&bitcoin.TransactionOutput{Value: 1, PublicKeyScript: []byte{0x6a}})
	}
	tx.Outputs[u.idx] = &bitcoin.TransactionOutput{Value: u.value + int64(u.id%2)*7, PublicKeyScript: script}
}

func toUtxo(u *utxo) *bitcoin.UnspentTransactionOutput {
	if u == nil {
		return nil
	}
	return &bitcoin.UnspentTransactionOutput{
		Outpoint: &bitcoin.TransactionOutpoint{TransactionHash: txHash(u.id), OutputIndex: u.idx},
		Value:    u.value,
	}
}

// shareTag tells whether intended inputs are different outputs of one funding transaction
// and/or the very same outpoint twice.
func shareTag(us []*utxo) string {
	t := ""
	shared, dup := false, false
	for i, a := range us {
		for _, b := range us[:i] {
			if a == nil || b == nil || a.id != b.id {
				continue
			}
			if a.idx == b.idx {
				dup = true
			} else {
				shared = true
			}
		}
	}
	if shared {
		t += "+sharedtx"
	}
	if dup {
		t += "+dupoutpoint"
	}
	return t
}

func errClass(err error) string {
	m := err.Error()
	for _, p := range [][2]string{
		{"at least one deposit is required", "no-deposits"},
		{"cannot add input pointing to wallet main UTXO", "main-input"},
		{"cannot add input pointing to main wallet UTXO", "main-input"},
		{"cannot get script for deposit", "deposit-script"},
		{"cannot add input pointing to deposit", "deposit-input"},
		{"wallet main UTXO is required", "main-required"},
		{"at least one redemption request is required", "no-requests"},
		{"at least one target wallet is required", "no-targets"},
		{"moved funds UTXO is required", "moved-required"},
		{"cannot add input pointing to moved funds UTXO", "moved-input"},
	} {
		if strings.HasPrefix(m, p[0]) {
			return "err:" + p[1]
		}
	}
	return "err:other"
}

// observe reads the unsigned transaction out of the builder.
func observe(b *bitcoin.TransactionBuilder, ids map[bitcoin.Hash]uint64) string {
	tx := b.VerifC26UnsignedTransaction()
	var ins, outs []string
	for _, in := range tx.Inputs {
		id, ok := ids[in.Outpoint.TransactionHash]
		if !ok {
			ins = append(ins, fmt.Sprintf("?:%d", in.Outpoint.OutputIndex))
			continue
		}
		ins = append(ins, fmt.Sprintf("%d:%d", id, in.Outpoint.OutputIndex))
	}
	for _, o := range tx.Outputs {
		sc := hex.EncodeToString(o.PublicKeyScript)
		if sc == "" {
			sc = "empty"
		}
		outs = append(outs, fmt.Sprintf("%s:%d", sc, o.Value))
	}
	obs := "in=" + hx.JoinStrs(ins) + " out=" + hx.JoinStrs(outs)
	if tx.Version != 1 || tx.Locktime != 0 {
		obs += " bad-version-or-locktime"
	}
	return obs
}

func checkWallet(kTok, pkhTok string) (*ecdsa.PublicKey, []byte, bool) {
	k, err := strconv.Atoi(kTok)
	if err != nil || k < 0 || k > 1000 {
		return nil, nil, false
	}
	pkh := walletPkh(k)
	if hex.EncodeToString(pkh) != pkhTok {
		return nil, nil, false
	}
	return walletKey(k), pkh, true
}

func exec(op string) (string, string) {
	f := strings.Fields(op)
	if len(f) == 0 {
		return "bad-op", "bad"
	}
	fc := &fakeChain{txs: map[bitcoin.Hash]*bitcoin.Transaction{}}
	ids := map[bitcoin.Hash]uint64{}
	note := func(u *utxo) {
		if u != nil {
			ids[txHash(u.id)] = u.id
		}
	}
	switch f[0] {
	case "sweep":
		if len(f) != 6 {
			return "bad-op", "bad"
		}
		key, pkh, ok := checkWallet(f[1], f[2])
		main, ok2 := parseOptUtxo(f[3])
		fee, e := strconv.ParseInt(f[5], 10, 64)
		if !ok || !ok2 || e != nil {
			return "bad-op", "bad"
		}
		var deposits []*tbtc.Deposit
		all := []*utxo{main}
		for i, ds := range hx.SplitList(f[4]) {
			u, ok := parseUtxo(ds, 5)
			if !ok {
				return "bad-op", "bad"
			}
			all = append(all, u)
			note(u)
			d := &tbtc.Deposit{
				Utxo:      toUtxo(u),
				Depositor: chain.Address(fmt.Sprintf("0x%040x", 0xd000+i)),
			}
			copy(d.WalletPublicKeyHash[:], pkh)
			d.BlindingFactor[0] = byte(i)
			d.RefundPublicKeyHash[1] = byte(i + 1)
			d.RefundLocktime = [4]byte{1, 2, 3, 4}
			if u.flag == "e" {
				var extra [32]byte
				extra[0] = byte(i)
				d.ExtraData = &extra
			}
			if u.flag == "b" {
				d.Depositor = chain.Address("0xzz")
			}
			var h20 [20]byte
			var h32 [32]byte
			if sc, err := d.Script(); err == nil {
				h20 = bitcoin.ScriptHash(sc)
				h32 = bitcoin.WitnessScriptHash(sc)
			}
			if u.kind == "w" || u.kind == "p" {
				fc.register(u, pkh, nil)
			} else {
				fc.register(u, h20[:], h32[:])
			}
			deposits = append(deposits, d)
		}
		if main != nil {
			note(main)
			fc.register(main, pkh, make([]byte, 32))
		}
		b, err := tbtc.VerifC26AssembleDepositSweepTransaction(fc, key, toUtxo(main), deposits, fee)
		if err != nil {
			return errClass(err), "sweep+err"
		}
		tag := "sweep+nomain"
		if main != nil {
			tag = "sweep+main"
		}
		return observe(b, ids), tag + shareTag(all)

	case "redeem", "redeemN":
		// redeemN: ONE fee distribution function (as the redemption action holds one) is first
		// evaluated on request lists of the sizes in <pre>, then used for <times> assemblies.
		if (f[0] == "redeem" && len(f) != 7) || (f[0] == "redeemN" && len(f) != 9) {
			return "bad-op", "bad"
		}
		key, pkh, ok := checkWallet(f[1], f[2])
		main, ok2 := parseOptUtxo(f[3])
		fee, e := strconv.ParseInt(f[5], 10, 64)
		if !ok || !ok2 || e != nil {
			return "bad-op", "bad"
		}
		var reqs []*tbtc.RedemptionRequest
		var redeemable int64
		for _, rs := range hx.SplitList(f[4]) {
			p := strings.Split(rs, ":")
			if len(p) != 3 {
				return "bad-op", "bad"
			}
			sc, e1 := hex.DecodeString(p[0])
			a, e2 := strconv.ParseUint(p[1], 10, 63)
			t, e3 := strconv.ParseUint(p[2], 10, 63)
			if e1 != nil || e2 != nil || e3 != nil || len(sc) == 0 {
				return "bad-op", "bad"
			}
			redeemable += int64(a) - int64(t)
			reqs = append(reqs, &tbtc.RedemptionRequest{
				RedeemerOutputScript: sc, RequestedAmount: a, TreasuryFee: t,
			})
		}
		if main != nil {
			note(main)
			fc.register(main, pkh, make([]byte, 32))
		}
		var shape []tbtc.RedemptionTransactionShape
		switch f[6] {
		case "d":
		case "0":
			shape = append(shape, tbtc.RedemptionChangeFirst)
		case "1":
			shape = append(shape, tbtc.RedemptionChangeLast)
		default:
			return "bad-op", "bad"
		}
		if f[0] == "redeemN" {
			times, e := strconv.Atoi(f[8])
			if e != nil || times < 1 || times > 4 {
				return "bad-op", "bad"
			}
			dist := tbtc.VerifC26RedemptionFeeDistribution(fee)
			for _, ps := range hx.SplitList(f[7]) {
				pn, e := strconv.Atoi(ps)
				if e != nil || pn < 1 || pn > 1000 {
					return "bad-op", "bad"
				}
				dist(make([]*tbtc.RedemptionRequest, pn))
			}
			var obs []string
			tag := "redeemN"
			for t := 0; t < times; t++ {
				b, err := tbtc.VerifC26AssembleRedemptionTransactionWith(fc, key, toUtxo(main), reqs, dist, shape...)
				if err != nil {
					obs = append(obs, errClass(err))
					tag = "redeemN+err"
					continue
				}
				obs = append(obs, observe(b, ids))
			}
			if len(reqs) >= 2 && tag == "redeemN" {
				tag += "+multi"
			}
			return strings.Join(obs, " | "), tag
		}
		b, err := tbtc.VerifC26AssembleRedemptionTransaction(fc, key, toUtxo(main), reqs, fee, shape...)
		if err != nil {
			return errClass(err), "redeem+err"
		}
		tag := "redeem"
		switch {
		case main.value > redeemable:
			tag += "+change"
		case main.value == redeemable:
			tag += "+zerochange"
		default:
			tag += "+under"
		}
		if f[6] == "1" {
			tag += "+last"
		} else {
			tag += "+first"
		}
		if fee%int64(len(reqs)) != 0 {
			tag += "+rem"
		}
		return observe(b, ids), tag

	case "move":
		if len(f) != 4 {
			return "bad-op", "bad"
		}
		main, ok := parseOptUtxo(f[1])
		fee, e := strconv.ParseInt(f[3], 10, 64)
		if !ok || e != nil {
			return "bad-op", "bad"
		}
		var targets [][20]byte
		for _, ts := range hx.SplitList(f[2]) {
			h, err := hex.DecodeString(ts)
			if err != nil || len(h) != 20 {
				return "bad-op", "bad"
			}
			var t [20]byte
			copy(t[:], h)
			targets = append(targets, t)
		}
		if main != nil {
			note(main)
			fc.register(main, make([]byte, 20), make([]byte, 32))
		}
		b, err := tbtc.VerifC26AssembleMovingFundsTransaction(fc, toUtxo(main), targets, fee)
		if err != nil {
			return errClass(err), "move+err"
		}
		tag := "move+norem"
		if (main.value-fee)%int64(len(targets)) != 0 {
			tag = "move+rem"
		}
		return observe(b, ids), tag

	case "msweep":
		if len(f) != 6 {
			return "bad-op", "bad"
		}
		key, pkh, ok := checkWallet(f[1], f[2])
		moved, ok2 := parseOptUtxo(f[3])
		main, ok3 := parseOptUtxo(f[4])
		fee, e := strconv.ParseInt(f[5], 10, 64)
		if !ok || !ok2 || !ok3 || e != nil {
			return "bad-op", "bad"
		}
		for _, u := range []*utxo{moved, main} {
			if u != nil {
				note(u)
				fc.register(u, pkh, make([]byte, 32))
			}
		}
		b, err := tbtc.VerifC26AssembleMovedFundsSweepTransaction(fc, key, toUtxo(moved), toUtxo(main), fee)
		if err != nil {
			return errClass(err), "msweep+err"
		}
		tag := "msweep+nomain"
		if main != nil {
			tag = "msweep+main"
		}
		return observe(b, ids), tag + shareTag([]*utxo{moved, main})

	case "sharesN":
		// one distribution function evaluated on consecutive request lists of sizes n1,n2,...
		if len(f) != 3 {
			return "bad-op", "bad"
		}
		fee, e := strconv.ParseInt(f[1], 10, 64)
		if e != nil {
			return "bad-op", "bad"
		}
		dist := tbtc.VerifC26RedemptionFeeDistribution(fee)
		var parts []string
		for _, ns := range hx.SplitList(f[2]) {
			n, e := strconv.Atoi(ns)
			if e != nil || n < 1 || n > 100000 {
				return "bad-op", "bad"
			}
			parts = append(parts, hx.JoinInts(dist(make([]*tbtc.RedemptionRequest, n))))
		}
		if len(parts) == 0 {
			return "bad-op", "bad"
		}
		return "shares=" + strings.Join(parts, "|"), "sharesN"

	case "shares":
		if len(f) != 3 {
			return "bad-op", "bad"
		}
		fee, e := strconv.ParseInt(f[1], 10, 64)
		n, e2 := strconv.Atoi(f[2])
		if e != nil || e2 != nil || n < 1 || n > 100000 {
			return "bad-op", "bad"
		}
		reqs := make([]*tbtc.RedemptionRequest, n)
		for i := range reqs {
			reqs[i] = &tbtc.RedemptionRequest{}
		}
		tag := "shares"
		if fee%int64(n) != 0 {
			tag += "+rem"
		}
		return "shares=" + hx.JoinInts(tbtc.VerifC26RedemptionFeeShares(fee, reqs)), tag
	}
	return "bad-op", "bad"
}

// ---- generator --------------------------------------------------------------

func genValue(r *hx.Rng) int64 {
	switch r.Intn(12) {
	case 0:
		return 0
	case 1:
		return 1
	case 2:
		return int64(r.Range(2, 20))
	case 3:
		return 2100000000000000 // total supply in satoshi
	case 4:
		return int64(r.U64() % (1 << 50))
	default:
		return int64(r.Range(10000, 2000000000))
	}
}

func genFee(r *hx.Rng, n int, total int64) int64 {
	if n < 1 {
		n = 1
	}
	switch r.Intn(12) {
	case 0:
		return 0
	case 1:
		return int64(n) * int64(r.Range(1, 5000))
	case 2:
		return int64(n)*int64(r.Range(1, 5000)) + int64(r.Range(1, n)) - 1
	case 3:
		return int64(n) - 1
	case 4:
		return -int64(r.Range(1, 40000)) // not validated by the assemblers
	case 5:
		return total + int64(r.Range(0, 3)) // consumes everything / more than everything
	case 6:
		return 1
	default:
		return int64(r.Range(100, 200000))
	}
}

var nextID uint64

// outpoints handed out for the op line being generated (reset per op)
var opOutpoints [][2]int

func genUtxo(r *hx.Rng, kinds string, badKinds string) string {
	kind := string(kinds[r.Intn(len(kinds))])
	if r.Chance(1, 25) {
		kind = string(badKinds[r.Intn(len(badKinds))])
	}
	var id, idx int
	if len(opOutpoints) > 0 && r.Chance(2, 5) {
		// another output of a funding transaction already used by this op
		id = opOutpoints[r.Intn(len(opOutpoints))][0]
		used := map[int]bool{}
		for _, o := range opOutpoints {
			if o[0] == id {
				used[o[1]] = true
			}
		}
		idx = -1
		for _, c := range r.Perm(9) {
			if !used[c] {
				idx = c
				break
			}
		}
	} else {
		idx = -1
	}
	if idx < 0 {
		// fresh funding transaction (ids unique within a run); the output index often equals
		// one already used with another hash
		nextID++
		id = int(nextID)
		idx = r.Range(0, 3)
		if len(opOutpoints) > 0 && r.Bool() {
			idx = opOutpoints[r.Intn(len(opOutpoints))][1]
		}
	}
	opOutpoints = append(opOutpoints, [2]int{id, idx})
	return fmt.Sprintf("%d:%d:%d:%s", id, idx, genValue(r), kind)
}

func genOptUtxo(r *hx.Rng, noneNum, noneDen int, kinds, bad string) string {
	if r.Chance(noneNum, noneDen) {
		return "-"
	}
	return genUtxo(r, kinds, bad)
}

func setValue(u string, v int64) string {
	p := strings.Split(u, ":")
	p[2] = strconv.FormatInt(v, 10)
	return strings.Join(p, ":")
}

func utxoValue(s string) int64 {
	if s == "-" {
		return 0
	}
	v, _ := strconv.ParseInt(strings.Split(s, ":")[2], 10, 64)
	return v
}

func count(r *hx.Rng) int {
	switch r.Intn(10) {
	case 0:
		return 0
	case 1:
		return 1
	case 2:
		return r.Range(10, 40)
	default:
		return r.Range(2, 9)
	}
}

func genScript(r *hx.Rng) string {
	h := r.Bytes(32)
	switch r.Intn(6) {
	case 0:
		return hex.EncodeToString(p2pkh(h[:20]))
	case 1:
		return hex.EncodeToString(p2wpkh(h[:20]))
	case 2:
		return hex.EncodeToString(p2sh(h[:20]))
	case 3:
		return hex.EncodeToString(p2wsh(h))
	case 4:
		return hex.EncodeToString(h[:r.Range(1, 8)]) // non-standard: copied verbatim all the same
	default:
		return hex.EncodeToString(p2wpkh(h[:20]))
	}
}

func gen(r *hx.Rng, n int, tier string) []string {
	var ops []string
	for i := 0; i < n; i++ {
		k := r.Range(0, 5)
		pkh := hex.EncodeToString(walletPkh(k))
		opOutpoints = nil
		equalValues := r.Chance(1, 8) // every amount of the op is the same number
		eqv := genValue(r)
		switch r.Intn(10) {
		case 0, 1: // deposit sweep
			main := genOptUtxo(r, 1, 3, "wp", "sSx")
			nd := count(r)
			var deps []string
			total := utxoValue(main)
			for j := 0; j < nd; j++ {
				fl := "n"
				if r.Chance(1, 3) {
					fl = "e"
				}
				if r.Chance(1, 60) {
					fl = "b"
				}
				u := genUtxo(r, "sS", "wpx")
				if equalValues {
					u = setValue(u, eqv)
				}
				if len(deps) > 0 && r.Chance(1, 40) {
					// the very same outpoint listed twice (the assembler does not deduplicate)
					prev := deps[r.Intn(len(deps))]
					u, fl = prev[:len(prev)-2], prev[len(prev)-1:]
				}
				total += utxoValue(u)
				deps = append(deps, u+":"+fl)
			}
			ops = append(ops, fmt.Sprintf("sweep %d %s %s %s %d", k, pkh, main, hx.JoinStrs(deps), genFee(r, 1, total)))
		case 2, 3, 4, 5: // redemption
			nr := count(r)
			var reqs []string
			var redeemable int64
			for j := 0; j < nr; j++ {
				a := genValue(r)
				if a > 1<<40 {
					a = 1 << 40
				}
				t := int64(0)
				if r.Chance(3, 4) {
					t = a / int64(r.Range(20, 2000))
				}
				if r.Chance(1, 40) {
					t = a + int64(r.Range(0, 3)) // treasury fee eats the request (unvalidated here)
				}
				if equalValues {
					a = eqv
					if a > 1<<40 {
						a = 1 << 40
					}
					t = a / 100
				}
				sc := genScript(r)
				if r.Chance(1, 12) {
					sc = "0014" + pkh // redeemer is the wallet itself: same script as the change
				}
				req := fmt.Sprintf("%s:%d:%d", sc, a, t)
				if len(reqs) > 0 && r.Chance(1, 8) {
					prev := strings.Split(reqs[r.Intn(len(reqs))], ":")
					if r.Bool() {
						req = strings.Join(prev, ":") // duplicate request
						a, _ = strconv.ParseInt(prev[1], 10, 64)
						t, _ = strconv.ParseInt(prev[2], 10, 64)
					} else {
						req = fmt.Sprintf("%s:%d:%d", prev[0], a, t) // same redeemer script, other amount
					}
				}
				redeemable += a - t
				reqs = append(reqs, req)
			}
			main := genOptUtxo(r, 1, 25, "wp", "sSx")
			if main != "-" {
				p := strings.Split(main, ":")
				var v int64
				switch r.Intn(8) {
				case 0:
					v = redeemable // zero change
				case 1:
					v = redeemable + 1
				case 2:
					v = redeemable - 1
				case 3:
					v = redeemable - int64(r.Range(2, 100000))
				default:
					v = redeemable + int64(r.Range(2, 2000000000))
				}
				if v < 0 {
					v = 0
				}
				p[2] = strconv.FormatInt(v, 10)
				main = strings.Join(p, ":")
			}
			shape := hx.Pick(r, []string{"d", "0", "1", "1"})
			fee := genFee(r, nr, redeemable)
			if r.Chance(1, 3) {
				pre := "-"
				if r.Bool() {
					var ps []int
					for j := r.Range(1, 3); j > 0; j-- {
						ps = append(ps, hx.Pick(r, []int{1, 2, 3, nr + 1, r.Range(1, 30)}))
					}
					pre = hx.JoinInts(ps)
				}
				ops = append(ops, fmt.Sprintf("redeemN %d %s %s %s %d %s %s %d", k, pkh, main, hx.JoinStrs(reqs), fee, shape, pre, r.Range(1, 3)))
			} else {
				ops = append(ops, fmt.Sprintf("redeem %d %s %s %s %d %s", k, pkh, main, hx.JoinStrs(reqs), fee, shape))
			}
		case 6, 7: // moving funds
			main := genOptUtxo(r, 1, 25, "wp", "sSx")
			nt := count(r)
			var ts []string
			for j := 0; j < nt; j++ {
				t := hex.EncodeToString(r.Bytes(20))
				if len(ts) > 0 && r.Chance(1, 8) {
					t = ts[r.Intn(len(ts))] // the same target wallet twice
				}
				ts = append(ts, t)
			}
			fee := genFee(r, nt, utxoValue(main))
			if r.Chance(1, 4) && nt > 0 { // exact multiple: zero remainder
				fee = utxoValue(main) % int64(nt)
			}
			ops = append(ops, fmt.Sprintf("move %s %s %d", main, hx.JoinStrs(ts), fee))
		case 8: // moved funds sweep
			moved := genOptUtxo(r, 1, 25, "wp", "sSx")
			main := genOptUtxo(r, 1, 2, "wp", "sSx")
			if moved != "-" && r.Chance(1, 30) {
				main = moved // the very same outpoint as both inputs
			}
			if equalValues && moved != "-" && main != "-" {
				moved, main = setValue(moved, eqv), setValue(main, eqv)
			}
			ops = append(ops, fmt.Sprintf("msweep %d %s %s %s %d", k, pkh, moved, main, genFee(r, 1, utxoValue(moved)+utxoValue(main))))
		default: // fee distribution alone
			nn := r.Range(1, 60)
			if r.Chance(1, 10) {
				nn = r.Range(61, 3000)
			}
			fee := genFee(r, nn, int64(r.Range(0, 100000)))
			if r.Chance(1, 10) {
				fee = int64(r.U64()>>2) - (1 << 61)
			}
			if r.Chance(1, 3) {
				ns := []int{nn}
				for j := r.Range(1, 3); j > 0; j-- {
					ns = append(ns, hx.Pick(r, []int{nn, 1, 2, r.Range(1, 60)}))
				}
				ops = append(ops, fmt.Sprintf("sharesN %d %s", fee, hx.JoinInts(ns)))
			} else {
				ops = append(ops, fmt.Sprintf("shares %d %d", fee, nn))
			}
		}
	}
	return ops
}

func main() {
	hx.Main(&hx.Config{Prop: "C26", Gen: gen, Exec: exec})
}
