package main

import (
	"fmt"
	"sort"
	"strings"

	"google.golang.org/protobuf/reflect/protoreflect"
)

// schemaFacts prints, for every protobuf message reachable from a registered type, its fields as
// a flat list num1,kind1,num2,kind2,… (T1 tie: the Lean message specs are proved equal to these
// generated lists). Kinds: 0 uint32, 1 uint64, 2 bytes, 3 string, 4 int32, 5 int64, 6 message,
// 10+k repeated k, 20+k map<uint32,k>.
func schemaFacts() []string {
	seen := map[string]string{}
	var visit func(md protoreflect.MessageDescriptor)
	kind := func(fd protoreflect.FieldDescriptor) int {
		switch fd.Kind() {
		case protoreflect.Uint32Kind:
			return 0
		case protoreflect.Uint64Kind:
			return 1
		case protoreflect.BytesKind:
			return 2
		case protoreflect.StringKind:
			return 3
		case protoreflect.Int32Kind:
			return 4
		case protoreflect.Int64Kind:
			return 5
		case protoreflect.MessageKind:
			visit(fd.Message())
			return 6
		}
		return 9
	}
	visit = func(md protoreflect.MessageDescriptor) {
		key := strings.NewReplacer(".", "_").Replace(string(md.FullName()))
		if _, ok := seen[key]; ok {
			return
		}
		seen[key] = ""
		var parts []string
		fds := md.Fields()
		for i := 0; i < fds.Len(); i++ {
			fd := fds.Get(i)
			var k int
			switch {
			case fd.IsMap(): // 20 + value kind (keys are uint32 everywhere; another key kind gives 90+)
				k = 20 + kind(fd.MapValue()) + 70*kind(fd.MapKey())
			case fd.IsList(): // 10 + element kind
				k = 10 + kind(fd)
			default:
				k = kind(fd)
			}
			parts = append(parts, fmt.Sprintf("%d,%d", fd.Number(), k))
		}
		seen[key] = strings.Join(parts, ",")
	}
	for _, t := range types {
		if t.pb != nil {
			visit(t.pb().ProtoReflect().Descriptor())
		}
	}
	var keys []string
	for k := range seen {
		keys = append(keys, k)
	}
	sort.Strings(keys)
	var out []string
	for _, k := range keys {
		v := seen[k]
		if v == "" {
			v = "-"
		}
		out = append(out, "natlist "+k+" "+v)
	}
	return out
}
