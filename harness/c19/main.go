// C19: wire and storage decoding is total and round-trips.
//
// Op line:  <type> <hex> [o:<oracle>] [wf]
//                               one decoder call: the named keep-core type's Unmarshal on the bytes
//                               (hex "-" = empty input); o: = third-party parse results for the
//                               curve points / keys inside (see oracle); wf = the bytes are the
//                               Marshal of a well-formed value (round-trip stream)
// Obs line: ok <hex> idem       Unmarshal accepted; <hex> = the value's own Marshal, re-encoded
//                               deterministically (protobuf map entries sorted by key); idem = that
//                               encoding fed back is accepted and re-marshals identically
//           ok <hex> UNSTABLE   … it is not
//           err                 Unmarshal returned an error
// Op line:  pair <type> <hexA> <hexB> [o:<oracle>]
//                               decode A into a fresh value and re-marshal it, decode B into another
//                               fresh value, then re-marshal the value obtained from A again
// Obs line: A=<r> B=<r> A2=<r>  r = ok:<hex> | err; A2 must equal A (decoded values share no state)
//           PANIC … / HANG      (caught by hx)
//
// Three streams per type (DESIGN §5 C19): (i) random well-formed values, (ii) random bytes,
// (iii) schema-directed mutations of valid encodings (systematic single-field sweep + random).
package main

import (
	"encoding/hex"
	"fmt"
	"math/big"
	"sort"
	"strings"

	"keepverif/harness/hx"

	bn256 "github.com/ethereum/go-ethereum/crypto/bn256/cloudflare"
	"github.com/btcsuite/btcd/btcec"
	libp2pcrypto "github.com/libp2p/go-libp2p/core/crypto"
	"github.com/libp2p/go-libp2p/core/peer"
	"google.golang.org/protobuf/encoding/protowire"
	"google.golang.org/protobuf/proto"
	"google.golang.org/protobuf/reflect/protoreflect"
	"google.golang.org/protobuf/types/known/timestamppb"

	bdkg "github.com/keep-network/keep-core/pkg/beacon/dkg"
	"github.com/keep-network/keep-core/pkg/beacon/dkg/result"
	resultpb "github.com/keep-network/keep-core/pkg/beacon/dkg/result/gen/pb"
	"github.com/keep-network/keep-core/pkg/beacon/entry"
	entrypb "github.com/keep-network/keep-core/pkg/beacon/entry/gen/pb"
	"github.com/keep-network/keep-core/pkg/beacon/gjkr"
	gjkrpb "github.com/keep-network/keep-core/pkg/beacon/gjkr/gen/pb"
	"github.com/keep-network/keep-core/pkg/beacon/registry"
	"github.com/keep-network/keep-core/pkg/crypto/ephemeral"
	registrypb "github.com/keep-network/keep-core/pkg/beacon/registry/gen/pb"
	netpb "github.com/keep-network/keep-core/pkg/net/gen/pb"
	"github.com/keep-network/keep-core/pkg/net/libp2p"
	"github.com/keep-network/keep-core/pkg/net/security/handshake"
	"github.com/keep-network/keep-core/pkg/protocol/announcer"
	announcerpb "github.com/keep-network/keep-core/pkg/protocol/announcer/gen/pb"
	"github.com/keep-network/keep-core/pkg/protocol/inactivity"
	inactivitypb "github.com/keep-network/keep-core/pkg/protocol/inactivity/gen/pb"
	"github.com/keep-network/keep-core/pkg/tbtc"
	tbtcpb "github.com/keep-network/keep-core/pkg/tbtc/gen/pb"
	"github.com/keep-network/keep-core/pkg/tecdsa"
	tdkg "github.com/keep-network/keep-core/pkg/tecdsa/dkg"
	tdkgpb "github.com/keep-network/keep-core/pkg/tecdsa/dkg/gen/pb"
	tecdsapb "github.com/keep-network/keep-core/pkg/tecdsa/gen/pb"
	tsign "github.com/keep-network/keep-core/pkg/tecdsa/signing"
	tsignpb "github.com/keep-network/keep-core/pkg/tecdsa/signing/gen/pb"
)

type codec interface {
	Marshal() ([]byte, error)
	Unmarshal([]byte) error
}

// typ describes one decoder under test.
type typ struct {
	name string
	mk   func() codec         // fresh keep-core value
	pb   func() proto.Message // wire schema (nil: the type has no protobuf schema)
	// fix turns a generically filled pb message into a well-formed one (fixed lengths, valid
	// curve points, nested encodings).
	fix func(r *hx.Rng, m proto.Message)
	// nested: field number -> type whose encoding lives in that bytes field
	nested map[int32]string
}

var types []*typ

// forceAction >= 0 makes the coordination message generator use that proposal action type.
var forceAction = -1
var byName = map[string]*typ{}

func reg(t *typ) { types = append(types, t); byName[t.name] = t }

// ---- value helpers ----------------------------------------------------------

func bigBytes(r *hx.Rng) []byte { // canonical big.Int bytes (no leading zero), possibly empty
	n := r.Range(0, 40)
	if r.Chance(1, 8) {
		n = 0
	}
	b := r.Bytes(n)
	if n > 0 && b[0] == 0 {
		b[0] = 1
	}
	return b
}

func secpPriv(r *hx.Rng) (*btcec.PrivateKey, *btcec.PublicKey) {
	k := r.Bytes(32)
	k[0] &= 0x7f
	k[31] |= 1
	return btcec.PrivKeyFromBytes(btcec.S256(), k)
}

func secpCompressed(r *hx.Rng) []byte { _, p := secpPriv(r); return p.SerializeCompressed() }
func secpUncompressed(r *hx.Rng) []byte {
	_, p := secpPriv(r)
	return p.SerializeUncompressed()
}
func secpXY(r *hx.Rng) ([]byte, []byte) { _, p := secpPriv(r); return p.X.Bytes(), p.Y.Bytes() }

func g1(r *hx.Rng) []byte {
	return new(bn256.G1).ScalarBaseMult(new(big.Int).SetBytes(r.Bytes(16))).Marshal()
}
func g2(r *hx.Rng) []byte {
	return new(bn256.G2).ScalarBaseMult(new(big.Int).SetBytes(r.Bytes(16))).Marshal()
}

func idx(r *hx.Rng) uint32 { // a member index, mostly valid
	switch r.Intn(12) {
	case 0:
		return 0
	case 1:
		return 255
	default:
		return uint32(r.Range(1, 255))
	}
}

func session(r *hx.Rng) string {
	switch r.Intn(6) {
	case 0:
		return ""
	case 1:
		return "séance-✓-" + fmt.Sprint(r.Intn(100))
	default:
		return fmt.Sprintf("session-%d", r.Intn(1000000))
	}
}

func validOf(r *hx.Rng, name string) []byte {
	t := byName[name]
	if t.pb == nil {
		return nil
	}
	m := t.pb()
	fill(r, m.ProtoReflect(), 0)
	if t.fix != nil {
		t.fix(r, m)
	}
	b, err := proto.MarshalOptions{Deterministic: true}.Marshal(m)
	if err != nil {
		panic("harness: cannot marshal generated " + name + ": " + err.Error())
	}
	return b
}

// fill sets every field of m generically: indices 0..255, short byte strings, valid UTF-8.
func fill(r *hx.Rng, m protoreflect.Message, depth int) {
	fds := m.Descriptor().Fields()
	for i := 0; i < fds.Len(); i++ {
		fd := fds.Get(i)
		singularMsg := fd.Kind() == protoreflect.MessageKind && !fd.IsList() && !fd.IsMap()
		if r.Chance(1, 12) && !singularMsg {
			continue // field absent (default); keep-core's Marshal always emits its sub-messages
		}
		switch {
		case fd.IsMap():
			mp := m.Mutable(fd).Map()
			n := r.Range(0, 4)
			for j := 0; j < n; j++ {
				k := protoreflect.ValueOfUint32(idx(r)).MapKey()
				if fd.MapValue().Kind() == protoreflect.MessageKind {
					v := mp.NewValue()
					fill(r, v.Message(), depth+1)
					mp.Set(k, v)
				} else {
					mp.Set(k, scalar(r, fd.MapValue()))
				}
			}
		case fd.IsList():
			l := m.Mutable(fd).List()
			n := r.Range(0, 3)
			for j := 0; j < n; j++ {
				if fd.Kind() == protoreflect.MessageKind {
					v := l.NewElement()
					fill(r, v.Message(), depth+1)
					l.Append(v)
				} else {
					l.Append(scalar(r, fd))
				}
			}
		case fd.Kind() == protoreflect.MessageKind:
			fill(r, m.Mutable(fd).Message(), depth+1)
		default:
			m.Set(fd, scalar(r, fd))
		}
	}
}

func scalar(r *hx.Rng, fd protoreflect.FieldDescriptor) protoreflect.Value {
	switch fd.Kind() {
	case protoreflect.Uint32Kind:
		if strings.Contains(strings.ToLower(string(fd.Name())), "index") && !strings.Contains(strings.ToLower(string(fd.Name())), "member") && !strings.Contains(string(fd.Name()), "sender") {
			return protoreflect.ValueOfUint32(uint32(r.U64()) >> uint(r.Intn(32)))
		}
		return protoreflect.ValueOfUint32(idx(r))
	case protoreflect.Uint64Kind:
		return protoreflect.ValueOfUint64(r.U64() >> uint(r.Range(1, 63)))
	case protoreflect.Int32Kind:
		return protoreflect.ValueOfInt32(int32(r.Range(-128, 127)))
	case protoreflect.Int64Kind:
		return protoreflect.ValueOfInt64(int64(r.U64() >> uint(r.Range(24, 63))))
	case protoreflect.StringKind:
		return protoreflect.ValueOfString(session(r))
	case protoreflect.BytesKind:
		return protoreflect.ValueOfBytes(bigBytes(r))
	}
	panic("harness: unhandled kind " + fd.Kind().String())
}

// ---- registry -----------------------------------------------------------------

func fixLen(field string, n int) func(r *hx.Rng, m proto.Message) {
	return func(r *hx.Rng, m proto.Message) {
		fd := m.ProtoReflect().Descriptor().Fields().ByName(protoreflect.Name(field))
		m.ProtoReflect().Set(fd, protoreflect.ValueOfBytes(r.Bytes(n)))
	}
}

func chain(fs ...func(r *hx.Rng, m proto.Message)) func(r *hx.Rng, m proto.Message) {
	return func(r *hx.Rng, m proto.Message) {
		for _, f := range fs {
			f(r, m)
		}
	}
}

func fixMapVals(field string, gen func(r *hx.Rng) []byte) func(r *hx.Rng, m proto.Message) {
	return func(r *hx.Rng, m proto.Message) {
		fd := m.ProtoReflect().Descriptor().Fields().ByName(protoreflect.Name(field))
		mp := m.ProtoReflect().Mutable(fd).Map()
		var keys []protoreflect.MapKey
		mp.Range(func(k protoreflect.MapKey, _ protoreflect.Value) bool { keys = append(keys, k); return true })
		sort.Slice(keys, func(i, j int) bool { return keys[i].Uint() < keys[j].Uint() })
		for _, k := range keys {
			mp.Set(k, protoreflect.ValueOfBytes(gen(r)))
		}
	}
}

func fixListVals(field string, gen func(r *hx.Rng) []byte) func(r *hx.Rng, m proto.Message) {
	return func(r *hx.Rng, m proto.Message) {
		fd := m.ProtoReflect().Descriptor().Fields().ByName(protoreflect.Name(field))
		l := m.ProtoReflect().Mutable(fd).List()
		for i := 0; i < l.Len(); i++ {
			l.Set(i, protoreflect.ValueOfBytes(gen(r)))
		}
	}
}

func priv32(r *hx.Rng) []byte { b := r.Bytes(32); b[0] |= 1; return b }

func fixPKS(r *hx.Rng, m proto.Message) {
	p := m.(*tecdsapb.PrivateKeyShare)
	if p.Data == nil {
		p.Data = &tecdsapb.LocalPartySaveData{}
	}
	x, y := secpXY(r)
	p.Data.EcdsaPub = &tecdsapb.LocalPartySaveData_ECPoint{X: x, Y: y}
	for _, pt := range p.Data.BigXj {
		pt.X, pt.Y = secpXY(r)
	}
}

func init() {
	threeField := func(name string, mk func() codec, pb func() proto.Message) {
		reg(&typ{name: name, mk: mk, pb: pb})
	}
	// beacon gjkr
	reg(&typ{name: "gjkr.EphemeralPublicKey", mk: func() codec { return &gjkr.EphemeralPublicKeyMessage{} },
		pb: func() proto.Message { return &gjkrpb.EphemeralPublicKey{} }, fix: fixMapVals("ephemeralPublicKeys", secpCompressed)})
	reg(&typ{name: "gjkr.MemberCommitments", mk: func() codec { return &gjkr.MemberCommitmentsMessage{} },
		pb: func() proto.Message { return &gjkrpb.MemberCommitments{} }, fix: fixListVals("commitments", g1)})
	threeField("gjkr.PeerShares", func() codec { return &gjkr.PeerSharesMessage{} }, func() proto.Message { return &gjkrpb.PeerShares{} })
	reg(&typ{name: "gjkr.SecretSharesAccusations", mk: func() codec { return &gjkr.SecretSharesAccusationsMessage{} },
		pb: func() proto.Message { return &gjkrpb.SecretSharesAccusations{} }, fix: fixMapVals("accusedMembersKeys", priv32)})
	reg(&typ{name: "gjkr.MemberPublicKeySharePoints", mk: func() codec { return &gjkr.MemberPublicKeySharePointsMessage{} },
		pb: func() proto.Message { return &gjkrpb.MemberPublicKeySharePoints{} }, fix: fixListVals("publicKeySharePoints", g2)})
	reg(&typ{name: "gjkr.PointsAccusations", mk: func() codec { return &gjkr.PointsAccusationsMessage{} },
		pb: func() proto.Message { return &gjkrpb.PointsAccusations{} }, fix: fixMapVals("accusedMembersKeys", priv32)})
	reg(&typ{name: "gjkr.MisbehavedEphemeralKeys", mk: func() codec { return &gjkr.MisbehavedEphemeralKeysMessage{} },
		pb: func() proto.Message { return &gjkrpb.MisbehavedEphemeralKeys{} }, fix: fixMapVals("privateKeys", priv32)})
	// beacon result / entry / registry
	reg(&typ{name: "result.DKGResultHashSignature", mk: func() codec { return &result.DKGResultHashSignatureMessage{} },
		pb: func() proto.Message { return &resultpb.DKGResultHashSignature{} }, fix: fixLen("resultHash", 32)})
	threeField("entry.SignatureShare", func() codec { return &entry.SignatureShareMessage{} }, func() proto.Message { return &entrypb.SignatureShare{} })
	fixTS := func(r *hx.Rng, m proto.Message) {
		p := m.(*registrypb.ThresholdSigner)
		p.GroupPublicKey = g2(r)
		p.GroupPrivateKeyShare = new(big.Int).SetBytes(r.Bytes(r.Range(1, 32))).String()
		for k := range p.GroupPublicKeyShares {
			p.GroupPublicKeyShares[k] = nil
		}
		keys := make([]int, 0)
		for k := range p.GroupPublicKeyShares {
			keys = append(keys, int(k))
		}
		sort.Ints(keys)
		for _, k := range keys {
			p.GroupPublicKeyShares[uint32(k)] = g2(r)
		}
	}
	reg(&typ{name: "registry.ThresholdSigner", mk: func() codec { return &bdkg.ThresholdSigner{} },
		pb: func() proto.Message { return &registrypb.ThresholdSigner{} }, fix: fixTS})
	reg(&typ{name: "registry.Membership", mk: func() codec { return &registry.Membership{} },
		pb: func() proto.Message { return &registrypb.Membership{} },
		fix:    func(r *hx.Rng, m proto.Message) { m.(*registrypb.Membership).Signer = validOf(r, "registry.ThresholdSigner") },
		nested: map[int32]string{1: "registry.ThresholdSigner"}})
	// tecdsa
	reg(&typ{name: "tecdsa.PrivateKeyShare", mk: func() codec { return &tecdsa.PrivateKeyShare{} },
		pb: func() proto.Message { return &tecdsapb.PrivateKeyShare{} }, fix: fixPKS})
	threeField("tecdsa.Signature", func() codec { return &tecdsa.Signature{} }, func() proto.Message { return &tecdsapb.Signature{} })
	// tecdsa dkg
	reg(&typ{name: "tdkg.EphemeralPublicKey", mk: func() codec { return tdkg.VerifC19New("ephemeralPublicKeyMessage") },
		pb: func() proto.Message { return &tdkgpb.EphemeralPublicKeyMessage{} }, fix: fixMapVals("ephemeralPublicKeys", secpCompressed)})
	threeField("tdkg.TSSRoundOne", func() codec { return tdkg.VerifC19New("tssRoundOneMessage") }, func() proto.Message { return &tdkgpb.TSSRoundOneMessage{} })
	threeField("tdkg.TSSRoundTwo", func() codec { return tdkg.VerifC19New("tssRoundTwoMessage") }, func() proto.Message { return &tdkgpb.TSSRoundTwoMessage{} })
	threeField("tdkg.TSSRoundThree", func() codec { return tdkg.VerifC19New("tssRoundThreeMessage") }, func() proto.Message { return &tdkgpb.TSSRoundThreeMessage{} })
	threeField("tdkg.TSSFinalization", func() codec { return tdkg.VerifC19New("tssFinalizationMessage") }, func() proto.Message { return &tdkgpb.TSSFinalizationMessage{} })
	reg(&typ{name: "tdkg.ResultSignature", mk: func() codec { return tdkg.VerifC19New("resultSignatureMessage") },
		pb: func() proto.Message { return &tdkgpb.ResultSignatureMessage{} }, fix: fixLen("resultHash", 32)})
	reg(&typ{name: "tdkg.PreParams", mk: func() codec { return &tdkg.PreParams{} },
		pb: func() proto.Message { return &tdkgpb.PreParams{} },
		fix: func(r *hx.Rng, m proto.Message) {
			p := m.(*tdkgpb.PreParams)
			p.CreationTimestamp = &timestamppb.Timestamp{Seconds: int64(r.Intn(1 << 31)), Nanos: int32(r.Intn(1000000000))}
		}})
	// tecdsa signing
	reg(&typ{name: "tsign.EphemeralPublicKey", mk: func() codec { return tsign.VerifC19New("ephemeralPublicKeyMessage") },
		pb: func() proto.Message { return &tsignpb.EphemeralPublicKeyMessage{} }, fix: fixMapVals("ephemeralPublicKeys", secpCompressed)})
	threeField("tsign.TSSRoundOne", func() codec { return tsign.VerifC19New("tssRoundOneMessage") }, func() proto.Message { return &tsignpb.TSSRoundOneMessage{} })
	threeField("tsign.TSSRoundTwo", func() codec { return tsign.VerifC19New("tssRoundTwoMessage") }, func() proto.Message { return &tsignpb.TSSRoundTwoMessage{} })
	threeField("tsign.TSSRoundThree", func() codec { return tsign.VerifC19New("tssRoundThreeMessage") }, func() proto.Message { return &tsignpb.TSSRoundThreeMessage{} })
	threeField("tsign.TSSRoundFour", func() codec { return tsign.VerifC19New("tssRoundFourMessage") }, func() proto.Message { return &tsignpb.TSSRoundFourMessage{} })
	threeField("tsign.TSSRoundFive", func() codec { return tsign.VerifC19New("tssRoundFiveMessage") }, func() proto.Message { return &tsignpb.TSSRoundFiveMessage{} })
	threeField("tsign.TSSRoundSix", func() codec { return tsign.VerifC19New("tssRoundSixMessage") }, func() proto.Message { return &tsignpb.TSSRoundSixMessage{} })
	threeField("tsign.TSSRoundSeven", func() codec { return tsign.VerifC19New("tssRoundSevenMessage") }, func() proto.Message { return &tsignpb.TSSRoundSevenMessage{} })
	threeField("tsign.TSSRoundEight", func() codec { return tsign.VerifC19New("tssRoundEightMessage") }, func() proto.Message { return &tsignpb.TSSRoundEightMessage{} })
	threeField("tsign.TSSRoundNine", func() codec { return tsign.VerifC19New("tssRoundNineMessage") }, func() proto.Message { return &tsignpb.TSSRoundNineMessage{} })
	// protocol
	reg(&typ{name: "inactivity.ClaimSignature", mk: func() codec { return inactivity.VerifC19New("claimSignatureMessage") },
		pb: func() proto.Message { return &inactivitypb.ClaimSignatureMessage{} }, fix: fixLen("claimHash", 32)})
	threeField("announcer.Announcement", func() codec { return announcer.VerifC19New("announcementMessage") }, func() proto.Message { return &announcerpb.AnnouncementMessage{} })
	// tbtc
	reg(&typ{name: "tbtc.Signer", mk: func() codec { return tbtc.VerifC19New("signer") },
		pb: func() proto.Message { return &tbtcpb.Signer{} },
		fix: func(r *hx.Rng, m proto.Message) {
			p := m.(*tbtcpb.Signer)
			if p.Wallet == nil {
				p.Wallet = &tbtcpb.Wallet{}
			}
			p.Wallet.PublicKey = secpUncompressed(r)
			p.PrivateKeyShare = validOf(r, "tecdsa.PrivateKeyShare")
		},
		nested: map[int32]string{3: "tecdsa.PrivateKeyShare"}})
	reg(&typ{name: "tbtc.SigningDone", mk: func() codec { return tbtc.VerifC19New("signingDoneMessage") },
		pb: func() proto.Message { return &tbtcpb.SigningDoneMessage{} },
		fix:    func(r *hx.Rng, m proto.Message) { m.(*tbtcpb.SigningDoneMessage).Signature = validOf(r, "tecdsa.Signature") },
		nested: map[int32]string{4: "tecdsa.Signature"}})
	proposals := []string{"tbtc.Noop", "tbtc.Heartbeat", "tbtc.DepositSweep", "tbtc.Redemption", "tbtc.MovingFunds", "tbtc.MovedFundsSweep"}
	reg(&typ{name: "tbtc.Coordination", mk: func() codec { return tbtc.VerifC19New("coordinationMessage") },
		pb: func() proto.Message { return &tbtcpb.CoordinationMessage{} },
		fix: func(r *hx.Rng, m proto.Message) {
			p := m.(*tbtcpb.CoordinationMessage)
			p.WalletPublicKeyHash = r.Bytes(20)
			at := r.Intn(6)
			if forceAction >= 0 {
				at = forceAction
			}
			p.Proposal = &tbtcpb.CoordinationProposal{ActionType: uint32(at), Payload: validOf(r, proposals[at])}
		}})
	reg(&typ{name: "tbtc.Noop", mk: func() codec { return &tbtc.NoopProposal{} }})
	reg(&typ{name: "tbtc.Heartbeat", mk: func() codec { return &tbtc.HeartbeatProposal{} },
		pb: func() proto.Message { return &tbtcpb.HeartbeatProposal{} }, fix: fixLen("message", 16)})
	reg(&typ{name: "tbtc.DepositSweep", mk: func() codec { return &tbtc.DepositSweepProposal{SweepTxFee: new(big.Int)} },
		pb: func() proto.Message { return &tbtcpb.DepositSweepProposal{} },
		fix: func(r *hx.Rng, m proto.Message) {
			for _, k := range m.(*tbtcpb.DepositSweepProposal).DepositsKeys {
				k.FundingTxHash = r.Bytes(32)
			}
		}})
	reg(&typ{name: "tbtc.Redemption", mk: func() codec { return &tbtc.RedemptionProposal{RedemptionTxFee: new(big.Int)} },
		pb: func() proto.Message { return &tbtcpb.RedemptionProposal{} }})
	reg(&typ{name: "tbtc.MovingFunds", mk: func() codec { return &tbtc.MovingFundsProposal{MovingFundsTxFee: new(big.Int)} },
		pb: func() proto.Message { return &tbtcpb.MovingFundsProposal{} },
		fix: fixListVals("targetWallets", func(r *hx.Rng) []byte { return r.Bytes(20) })})
	reg(&typ{name: "tbtc.MovedFundsSweep", mk: func() codec { return &tbtc.MovedFundsSweepProposal{SweepTxFee: new(big.Int)} },
		pb: func() proto.Message { return &tbtcpb.MovedFundsSweepProposal{} }, fix: fixLen("movingFundsTxHash", 32)})
	// net
	reg(&typ{name: "hs.Act1", mk: func() codec { return &handshake.Act1Message{} },
		pb: func() proto.Message { return &netpb.Act1Message{} }, fix: fixLen("nonce", 8)})
	reg(&typ{name: "hs.Act2", mk: func() codec { return &handshake.Act2Message{} },
		pb: func() proto.Message { return &netpb.Act2Message{} }, fix: chain(fixLen("nonce", 8), fixLen("challenge", 32))})
	reg(&typ{name: "hs.Act3", mk: func() codec { return &handshake.Act3Message{} },
		pb: func() proto.Message { return &netpb.Act3Message{} }, fix: fixLen("challenge", 32)})
	reg(&typ{name: "libp2p.Identity", mk: func() codec { return libp2p.VerifC19New("identity") },
		pb: func() proto.Message { return &netpb.Identity{} },
		fix: func(r *hx.Rng, m proto.Message) {
			_, pub := secpPriv(r)
			k, err := libp2pcrypto.UnmarshalSecp256k1PublicKey(pub.SerializeCompressed())
			if err != nil {
				panic(err)
			}
			b, err := libp2pcrypto.MarshalPublicKey(k)
			if err != nil {
				panic(err)
			}
			m.(*netpb.Identity).PubKey = b
		}})
}

// ---- wire-level mutation --------------------------------------------------------

type rawField struct {
	num protowire.Number
	wt  protowire.Type
	val []byte // encoded value without the tag (for BytesType: length prefix + payload)
}

func splitFields(b []byte) ([]rawField, bool) {
	var out []rawField
	for len(b) > 0 {
		num, wt, n := protowire.ConsumeTag(b)
		if n < 0 {
			return nil, false
		}
		b = b[n:]
		m := protowire.ConsumeFieldValue(num, wt, b)
		if m < 0 {
			return nil, false
		}
		out = append(out, rawField{num, wt, append([]byte(nil), b[:m]...)})
		b = b[m:]
	}
	return out, true
}

func joinFields(fs []rawField) []byte {
	var b []byte
	for _, f := range fs {
		b = protowire.AppendTag(b, f.num, f.wt)
		b = append(b, f.val...)
	}
	return b
}

func payload(f rawField) []byte {
	if f.wt != protowire.BytesType {
		return nil
	}
	v, n := protowire.ConsumeBytes(f.val)
	if n < 0 {
		return nil
	}
	return v
}

func lenField(num protowire.Number, p []byte) rawField {
	return rawField{num, protowire.BytesType, protowire.AppendBytes(nil, p)}
}

var bigVarints = []uint64{0, 1, 255, 256, 257, 1<<32 - 1, 1 << 32, 1<<32 + 5, 1<<63 - 1, 1 << 63, 1<<64 - 1}

const nMut = 22

// mutate applies mutation kind k to field i of the encoding b whose schema is md (may be nil).
// nested gives the keep-core type encoded inside a bytes field.
func mutate(r *hx.Rng, b []byte, md protoreflect.MessageDescriptor, nested map[int32]string, i, k int) []byte {
	fs, ok := splitFields(b)
	if !ok || len(fs) == 0 {
		return append(b, byte(r.U64()))
	}
	i = i % len(fs)
	f := fs[i]
	rep := func(nf ...rawField) []byte {
		out := append([]rawField(nil), fs[:i]...)
		out = append(out, nf...)
		out = append(out, fs[i+1:]...)
		return joinFields(out)
	}
	switch k {
	case 0: // omitted
		return rep()
	case 1: // emptied
		switch f.wt {
		case protowire.BytesType:
			return rep(lenField(f.num, nil))
		default:
			return rep(rawField{f.num, protowire.VarintType, []byte{0}})
		}
	case 2: // duplicated (adjacent)
		return rep(f, f)
	case 3: // duplicated at the end with another value: last one wins / repeated appends
		g := f
		if f.wt == protowire.VarintType {
			g.val = protowire.AppendVarint(nil, hx.Pick(r, bigVarints))
		} else if f.wt == protowire.BytesType {
			g = lenField(f.num, r.Bytes(r.Range(0, 33)))
		}
		return joinFields(append(append([]rawField(nil), fs...), g))
	case 4: // oversized / boundary scalar
		if f.wt == protowire.VarintType {
			return rep(rawField{f.num, f.wt, protowire.AppendVarint(nil, hx.Pick(r, bigVarints))})
		}
		p := payload(f)
		return rep(lenField(f.num, append(append([]byte(nil), p...), r.Bytes(r.Range(1, 3))...)))
	case 5: // one byte shorter
		p := payload(f)
		if len(p) > 0 {
			return rep(lenField(f.num, p[:len(p)-1]))
		}
		return rep(rawField{f.num, protowire.VarintType, protowire.AppendVarint(nil, 256)})
	case 6: // wrong wire type: varint
		return rep(rawField{f.num, protowire.VarintType, protowire.AppendVarint(nil, uint64(r.Intn(300)))})
	case 7: // wrong wire type: fixed32 / fixed64
		if r.Bool() {
			return rep(rawField{f.num, protowire.Fixed32Type, r.Bytes(4)})
		}
		return rep(rawField{f.num, protowire.Fixed64Type, r.Bytes(8)})
	case 8: // wrong wire type: length-delimited
		return rep(lenField(f.num, r.Bytes(r.Range(0, 5))))
	case 9: // wrong wire type: group (well formed, possibly nested) / stray end group
		switch r.Intn(4) {
		case 0:
			return rep(rawField{f.num, protowire.EndGroupType, nil})
		case 1:
			inner := protowire.AppendTag(nil, 3, protowire.VarintType)
			inner = protowire.AppendVarint(inner, 7)
			inner = protowire.AppendTag(inner, f.num, protowire.EndGroupType)
			return rep(rawField{f.num, protowire.StartGroupType, inner})
		case 2: // mismatched end group number
			inner := protowire.AppendTag(nil, f.num+1, protowire.EndGroupType)
			return rep(rawField{f.num, protowire.StartGroupType, inner})
		default: // nested group
			inner := protowire.AppendTag(nil, 9, protowire.StartGroupType)
			inner = protowire.AppendTag(inner, 9, protowire.EndGroupType)
			inner = protowire.AppendTag(inner, f.num, protowire.EndGroupType)
			return rep(rawField{f.num, protowire.StartGroupType, inner})
		}
	case 10: // truncated
		if len(b) <= 1 {
			return nil
		}
		return b[:r.Range(1, len(b)-1)]
	case 11: // truncated inside this field
		out := rep(f)
		cut := len(joinFields(fs[:i])) + 1 + r.Intn(len(f.val)+1)
		if cut > len(out) {
			cut = len(out)
		}
		return out[:cut]
	case 12: // unknown field appended / prepended
		u := rawField{protowire.Number(hx.Pick(r, []int{15, 16, 100, 2047, 2048, 1<<29 - 1})), protowire.VarintType, protowire.AppendVarint(nil, r.U64())}
		if r.Bool() {
			u = lenField(u.num, r.Bytes(r.Range(0, 6)))
		}
		if r.Bool() {
			return joinFields(append([]rawField{u}, fs...))
		}
		return joinFields(append(append([]rawField(nil), fs...), u))
	case 13: // invalid field number (0, 2^29) with a raw tag
		tag := hx.Pick(r, []uint64{0, 1, 2, 5, 1 << 32, 1 << 34, 1<<32 | 8, 1<<35 | 2})
		out := protowire.AppendVarint(nil, tag)
		out = append(out, 1)
		if r.Bool() {
			return append(out, b...)
		}
		return append(append([]byte(nil), b...), out...)
	case 14: // non-canonical (over-long) varint in the tag or the value / length
		pad := func(v []byte, extra int) []byte { // v is one varint
			v = append([]byte(nil), v...)
			v[len(v)-1] |= 0x80
			for j := 0; j < extra-1; j++ {
				v = append(v, 0x80)
			}
			return append(v, 0)
		}
		extra := hx.Pick(r, []int{1, 2, 8, 9, 10})
		tagb := protowire.AppendTag(nil, f.num, f.wt)
		var enc []byte
		if r.Bool() {
			enc = append(pad(tagb, extra), f.val...)
		} else if f.wt == protowire.VarintType {
			_, n := protowire.ConsumeVarint(f.val)
			if n+extra > 11 {
				extra = 1
			}
			enc = append(tagb, pad(f.val[:n], extra)...)
		} else if f.wt == protowire.BytesType {
			_, n := protowire.ConsumeVarint(f.val)
			enc = append(tagb, append(pad(f.val[:n], extra), f.val[n:]...)...)
		} else {
			enc = append(pad(tagb, extra), f.val...)
		}
		out := joinFields(fs[:i])
		out = append(out, enc...)
		return append(out, joinFields(fs[i+1:])...)
	case 15: // declared length beyond the end / huge
		if f.wt == protowire.BytesType {
			p := payload(f)
			l := uint64(len(p) + r.Range(1, 200))
			if r.Chance(1, 3) {
				l = hx.Pick(r, bigVarints[5:])
			}
			v := protowire.AppendVarint(nil, l)
			out := joinFields(fs[:i])
			out = protowire.AppendTag(out, f.num, f.wt)
			out = append(out, v...)
			out = append(out, p...)
			if r.Bool() {
				out = append(out, joinFields(fs[i+1:])...)
			}
			return out
		}
		return rep(rawField{f.num, f.wt, []byte{0xff, 0xff, 0xff, 0xff, 0xff, 0xff, 0xff, 0xff, 0xff, 0x7f}})
	case 16: // fields reordered
		out := append([]rawField(nil), fs...)
		j := r.Intn(len(out))
		out[i], out[j] = out[j], out[i]
		return joinFields(out)
	case 17, 18, 19: // recurse into a sub-message / map entry / nested keep-core encoding
		p := payload(f)
		if f.wt == protowire.BytesType {
			var sub protoreflect.MessageDescriptor
			var subNested map[int32]string
			if md != nil {
				if fd := md.Fields().ByNumber(f.num); fd != nil && fd.Message() != nil {
					sub = fd.Message()
				}
			}
			if tn, ok := nested[int32(f.num)]; ok && sub == nil {
				if t := byName[tn]; t != nil && t.pb != nil {
					sub = t.pb().ProtoReflect().Descriptor()
					subNested = t.nested
				}
			}
			if sub != nil {
				return rep(lenField(f.num, mutate(r, p, sub, subNested, r.Intn(8), r.Intn(nMut))))
			}
			// opaque bytes: flip / invalid UTF-8
			q := append([]byte(nil), p...)
			if len(q) == 0 || r.Chance(1, 3) {
				q = append(q, 0xff, 0xfe)
			} else {
				q[r.Intn(len(q))] ^= byte(1 << uint(r.Intn(8)))
			}
			return rep(lenField(f.num, q))
		}
		return rep(rawField{f.num, f.wt, protowire.AppendVarint(nil, uint64(r.Range(250, 260)))})
	case 20: // packed <-> unpacked repeated scalars, embedded message split in two occurrences (merge)
		if md != nil {
			if fd := md.Fields().ByNumber(f.num); fd != nil {
				if fd.IsList() && fd.Kind() == protoreflect.Uint64Kind && f.wt == protowire.BytesType {
					p := payload(f)
					var out []rawField
					for len(p) > 0 {
						v, n := protowire.ConsumeVarint(p)
						if n < 0 {
							break
						}
						out = append(out, rawField{f.num, protowire.VarintType, protowire.AppendVarint(nil, v)})
						p = p[n:]
					}
					return rep(out...)
				}
				if fd.Message() != nil && !fd.IsList() && !fd.IsMap() {
					p := payload(f)
					if sub, ok := splitFields(p); ok && len(sub) > 1 {
						c := r.Range(1, len(sub)-1)
						return rep(lenField(f.num, joinFields(sub[:c])), lenField(f.num, joinFields(sub[c:])))
					}
				}
			}
		}
		return rep(f, lenField(f.num, nil))
	default: // 21: map key collision / second entry for the same key
		if md != nil {
			if fd := md.Fields().ByNumber(f.num); fd != nil && fd.IsMap() {
				p := payload(f)
				if sub, ok := splitFields(p); ok {
					var g []rawField
					for _, s := range sub {
						if s.num == 2 && s.wt == protowire.BytesType {
							s = lenField(2, r.Bytes(r.Range(0, 34)))
						}
						g = append(g, s)
					}
					return joinFields(append(append([]rawField(nil), fs...), lenField(f.num, joinFields(g))))
				}
			}
		}
		return rep(f, f, f)
	}
}

// ---- generation --------------------------------------------------------------------

func opLine(t *typ, b []byte) string {
	h := hex.EncodeToString(b)
	if h == "" {
		h = "-"
	}
	line := t.name + " " + h
	if o := oracle(t, b); o != "" {
		line += " o:" + o
	}
	return line
}

// wfLine marks the op as "these bytes are the Marshal of a well-formed value" (round-trip stream).
func wfLine(t *typ, b []byte) string { return opLine(t, b) + " wf" }

// ---- library oracle -----------------------------------------------------------------
//
// Curve points and keys inside the messages are parsed by third-party libraries (bn256 G1/G2,
// btcec public keys, libp2p keys, big.Int decimal strings). The model treats that parsing as a
// parameter: for every such blob occurring in the input the op line carries
// <kind><hex>=<hex of the library's re-encoding> or <kind><hex>=! (rejected).

type blob struct {
	kind byte
	b    []byte
}

func blobsOf(t *typ, b []byte) []blob {
	if t.pb == nil {
		return nil
	}
	m := t.pb()
	if err := proto.Unmarshal(b, m); err != nil {
		return nil
	}
	var out []blob
	mapVals := func(kind byte, mp map[uint32][]byte) {
		for _, v := range mp {
			out = append(out, blob{kind, v})
		}
	}
	switch p := m.(type) {
	case *gjkrpb.EphemeralPublicKey:
		mapVals('e', p.EphemeralPublicKeys)
	case *tdkgpb.EphemeralPublicKeyMessage:
		mapVals('e', p.EphemeralPublicKeys)
	case *tsignpb.EphemeralPublicKeyMessage:
		mapVals('e', p.EphemeralPublicKeys)
	case *gjkrpb.MemberCommitments:
		for _, c := range p.Commitments {
			out = append(out, blob{'g', c})
		}
	case *gjkrpb.MemberPublicKeySharePoints:
		for _, c := range p.PublicKeySharePoints {
			out = append(out, blob{'h', c})
		}
	case *registrypb.ThresholdSigner:
		out = append(out, blob{'h', p.GroupPublicKey}, blob{'d', []byte(p.GroupPrivateKeyShare)})
		mapVals('h', p.GroupPublicKeyShares)
	case *registrypb.Membership:
		out = append(out, blobsOf(byName["registry.ThresholdSigner"], p.Signer)...)
	case *netpb.Identity:
		out = append(out, blob{'i', p.PubKey})
	}
	return out
}

func libParse(bl blob) ([]byte, bool) {
	defer func() { recover() }()
	switch bl.kind {
	case 'e':
		k, err := ephemeral.UnmarshalPublicKey(bl.b)
		if err != nil {
			return nil, false
		}
		return k.Marshal(), true
	case 'g':
		p := new(bn256.G1)
		if _, err := p.Unmarshal(bl.b); err != nil {
			return nil, false
		}
		return p.Marshal(), true
	case 'h':
		p := new(bn256.G2)
		if _, err := p.Unmarshal(bl.b); err != nil {
			return nil, false
		}
		return p.Marshal(), true
	case 'd':
		v, ok := new(big.Int).SetString(string(bl.b), 10)
		if !ok {
			return nil, false
		}
		return []byte(v.String()), true
	case 'i':
		k, err := libp2pcrypto.UnmarshalPublicKey(bl.b)
		if err != nil {
			return nil, false
		}
		if _, err := peer.IDFromPublicKey(k); err != nil {
			return nil, false
		}
		c, err := libp2pcrypto.MarshalPublicKey(k)
		if err != nil {
			return nil, false
		}
		return c, true
	}
	return nil, false
}

func oracle(t *typ, b []byte) string {
	seen := map[string]bool{}
	var parts []string
	for _, bl := range blobsOf(t, b) {
		key := string(bl.kind) + hex.EncodeToString(bl.b)
		if seen[key] {
			continue
		}
		seen[key] = true
		if c, ok := libParse(bl); ok {
			parts = append(parts, key+"="+hex.EncodeToString(c))
		} else {
			parts = append(parts, key+"=!")
		}
	}
	sort.Strings(parts)
	return strings.Join(parts, ",")
}

func descOf(t *typ) protoreflect.MessageDescriptor {
	if t.pb == nil {
		return nil
	}
	return t.pb().ProtoReflect().Descriptor()
}

// boundaryOps: for every uint32 field of the type (top level, and keys of map fields) an otherwise
// well-formed encoding carrying 0, 1, 255, 256 and 2^32-1 in that field.
func boundaryOps(r *hx.Rng, t *typ) []string {
	md := descOf(t)
	if md == nil {
		return nil
	}
	var ops []string
	vals := []uint64{0, 1, 255, 256, 1<<32 - 1}
	fds := md.Fields()
	for i := 0; i < fds.Len(); i++ {
		fd := fds.Get(i)
		switch {
		case fd.Kind() == protoreflect.Uint32Kind && !fd.IsList() && !fd.IsMap():
			for _, v := range vals {
				fs, _ := splitFields(validOf(r, t.name))
				var out []rawField
				for _, f := range fs {
					if f.num != fd.Number() {
						out = append(out, f)
					}
				}
				out = append(out, rawField{fd.Number(), protowire.VarintType, protowire.AppendVarint(nil, v)})
				sort.SliceStable(out, func(a, b int) bool { return out[a].num < out[b].num })
				ops = append(ops, opLine(t, joinFields(out)))
			}
		case fd.IsMap() && fd.MapKey().Kind() == protoreflect.Uint32Kind:
			for _, v := range vals {
				var fs []rawField
				var entry *rawField
				for try := 0; try < 40 && entry == nil; try++ {
					fs, _ = splitFields(validOf(r, t.name))
					for j := range fs {
						if fs[j].num == fd.Number() && fs[j].wt == protowire.BytesType {
							entry = &fs[j]
						}
					}
				}
				if entry == nil {
					continue
				}
				sub, _ := splitFields(payload(*entry))
				var ne []rawField
				ne = append(ne, rawField{1, protowire.VarintType, protowire.AppendVarint(nil, v)})
				for _, f := range sub {
					if f.num != 1 {
						ne = append(ne, f)
					}
				}
				*entry = lenField(fd.Number(), joinFields(ne))
				ops = append(ops, opLine(t, joinFields(fs)))
			}
		}
	}
	return ops
}

// omissions returns every encoding obtained from b by omitting, or emptying, exactly one field
// at any depth: sub-messages (by descriptor) and nested keep-core encodings (t.nested) are
// entered recursively, so every nested sub-message is absent once and empty once.
func omissions(b []byte, md protoreflect.MessageDescriptor, nested map[int32]string, depth int) [][]byte {
	fs, ok := splitFields(b)
	if !ok || depth > 6 {
		return nil
	}
	var out [][]byte
	for i, f := range fs {
		rep := func(nf ...rawField) []byte {
			o := append([]rawField(nil), fs[:i]...)
			o = append(o, nf...)
			o = append(o, fs[i+1:]...)
			return joinFields(o)
		}
		out = append(out, rep())
		if f.wt != protowire.BytesType {
			continue
		}
		var sub protoreflect.MessageDescriptor
		var subNested map[int32]string
		if md != nil {
			if fd := md.Fields().ByNumber(f.num); fd != nil && fd.Message() != nil {
				sub = fd.Message()
			}
		}
		if tn, ok := nested[int32(f.num)]; ok && sub == nil {
			if t := byName[tn]; t != nil && t.pb != nil {
				sub = t.pb().ProtoReflect().Descriptor()
				subNested = t.nested
			}
		}
		if sub == nil {
			continue
		}
		out = append(out, rep(lenField(f.num, nil)))
		for _, v := range omissions(payload(f), sub, subNested, depth+1) {
			out = append(out, rep(lenField(f.num, v)))
		}
	}
	return out
}

// pairLine: decode A, decode B, then look at A's value again (decoded values must be independent).
func pairLine(t *typ, a, b []byte) string {
	line := "pair " + t.name + " " + hexOrDash(a) + " " + hexOrDash(b)
	oa, ob := oracle(t, a), oracle(t, b)
	switch {
	case oa != "" && ob != "":
		line += " o:" + oa + "," + ob
	case oa != "":
		line += " o:" + oa
	case ob != "":
		line += " o:" + ob
	}
	return line
}

func gen(r *hx.Rng, n int, tier string) []string {
	var ops []string
	for _, t := range types {
		ops = append(ops, boundaryOps(r, t)...)
	}
	for _, t := range types {
		if t.pb == nil {
			ops = append(ops, pairLine(t, r.Bytes(3), r.Bytes(4)))
			continue
		}
		for i := 0; i < 2; i++ {
			ops = append(ops, pairLine(t, validOf(r, t.name), validOf(r, t.name)))
		}
		seen := map[string]bool{}
		for _, v := range omissions(validOf(r, t.name), descOf(t), t.nested, 0) {
			if l := opLine(t, v); !seen[l] {
				seen[l] = true
				ops = append(ops, l)
			}
		}
	}
	for at := 0; at < 6; at++ { // coordination messages: two messages of the same proposal kind
		forceAction = at
		t := byName["tbtc.Coordination"]
		ops = append(ops, pairLine(t, validOf(r, t.name), validOf(r, t.name)))
		forceAction = -1
	}
	// systematic sweep: every type, empty input, one valid value, every single-field mutation of it
	for _, t := range types {
		ops = append(ops, opLine(t, nil))
		if t.pb == nil {
			ops = append(ops, opLine(t, r.Bytes(5)))
			continue
		}
		reps := 1
		if tier == "thorough" {
			reps = 6
		}
		for rep := 0; rep < reps; rep++ {
			v := validOf(r, t.name)
			ops = append(ops, wfLine(t, v))
			fs, _ := splitFields(v)
			for i := range fs {
				for k := 0; k < nMut; k++ {
					m := mutate(r, v, descOf(t), t.nested, i, k)
					ops = append(ops, opLine(t, m))
					if tier == "thorough" && rep > 2 { // pairwise
						j, k2 := r.Intn(len(fs)+1), r.Intn(nMut)
						ops = append(ops, opLine(t, mutate(r, m, descOf(t), t.nested, j, k2)))
					}
				}
			}
		}
	}
	// random cases
	for c := 0; c < n; c++ {
		t := types[c%len(types)]
		if r.Chance(1, 3) {
			t = hx.Pick(r, types)
		}
		switch s := r.Intn(100); {
		case s < 8 && t.pb != nil: // pair of well-formed values
			ops = append(ops, pairLine(t, validOf(r, t.name), validOf(r, t.name)))
		case s < 35 && t.pb != nil: // (i) well-formed
			ops = append(ops, wfLine(t, validOf(r, t.name)))
		case s < 45 && t.pb != nil: // (i') generically filled, not fixed up
			m := t.pb()
			fill(r, m.ProtoReflect(), 0)
			b, err := proto.MarshalOptions{Deterministic: true}.Marshal(m)
			if err != nil {
				panic(err)
			}
			ops = append(ops, opLine(t, b))
		case s < 85 && t.pb != nil: // (iii) 1..3 mutations
			b := validOf(r, t.name)
			for j, k := 0, r.Range(1, 3); j < k; j++ {
				b = mutate(r, b, descOf(t), t.nested, r.Intn(12), r.Intn(nMut))
			}
			ops = append(ops, opLine(t, b))
		default: // (ii) random bytes, half of them starting with a plausible tag
			b := r.Bytes(r.Range(0, 24))
			if len(b) > 0 && r.Bool() {
				b[0] = byte(r.Range(1, 9)<<3 | hx.Pick(r, []int{0, 2, 2, 2, 1, 5}))
			}
			ops = append(ops, opLine(t, b))
		}
	}
	return ops
}

// ---- execution ----------------------------------------------------------------------

func canon(t *typ, b []byte) (string, bool) {
	if t.pb == nil {
		return hexOrDash(b), true
	}
	c, ok := canonBytes(t, b)
	return hexOrDash(c), ok
}

// canonBytes re-encodes b deterministically (map entries sorted), also inside the bytes fields
// that hold another keep-core encoding (t.nested).
func canonBytes(t *typ, b []byte) ([]byte, bool) {
	m := t.pb()
	if err := proto.Unmarshal(b, m); err != nil {
		return nil, false
	}
	for num, tn := range t.nested {
		fd := m.ProtoReflect().Descriptor().Fields().ByNumber(protowire.Number(num))
		inner := m.ProtoReflect().Get(fd).Bytes()
		if len(inner) == 0 {
			continue
		}
		ci, ok := canonBytes(byName[tn], inner)
		if !ok {
			return nil, false
		}
		m.ProtoReflect().Set(fd, protoreflect.ValueOfBytes(ci))
	}
	c, err := proto.MarshalOptions{Deterministic: true}.Marshal(m)
	if err != nil {
		return nil, false
	}
	return c, true
}

func hexOrDash(b []byte) string {
	if len(b) == 0 {
		return "-"
	}
	return hex.EncodeToString(b)
}

// decodeOne: Unmarshal + canonical re-marshal of one input into a fresh value.
func decodeOne(t *typ, in []byte) (codec, string) {
	v := t.mk()
	if err := v.Unmarshal(in); err != nil {
		return nil, "err"
	}
	return v, remarshal(t, v)
}

func remarshal(t *typ, v codec) string {
	out, err := v.Marshal()
	if err != nil {
		return "MARSHAL-ERROR"
	}
	c, ok := canon(t, out)
	if !ok {
		return "REMARSHAL-NOT-PROTO"
	}
	return "ok:" + c
}

func execPair(f []string) (string, string) {
	if len(f) < 4 || len(f) > 5 || (len(f) == 5 && !strings.HasPrefix(f[4], "o:")) {
		return "bad-op", "bad"
	}
	t := byName[f[1]]
	if t == nil {
		return "bad-op", "bad"
	}
	dec := func(h string) ([]byte, bool) {
		if h == "-" {
			return nil, true
		}
		b, err := hex.DecodeString(h)
		return b, err == nil
	}
	a, ok1 := dec(f[2])
	b, ok2 := dec(f[3])
	if !ok1 || !ok2 {
		return "bad-op", "bad"
	}
	va, ra := decodeOne(t, a)
	_, rb := decodeOne(t, b)
	ra2 := "err"
	if va != nil {
		ra2 = remarshal(t, va) // the value decoded from A, after B was decoded
	}
	tag := "pair"
	if ra2 != ra {
		tag = "pair+aliased"
	}
	return "A=" + ra + " B=" + rb + " A2=" + ra2, tag
}

func exec(op string) (string, string) {
	f := strings.Fields(op)
	if len(f) > 0 && f[0] == "pair" {
		return execPair(f)
	}
	if len(f) < 2 || len(f) > 4 {
		return "bad-op", "bad"
	}
	for _, x := range f[2:] {
		if x != "wf" && !strings.HasPrefix(x, "o:") {
			return "bad-op", "bad"
		}
	}
	t := byName[f[0]]
	if t == nil {
		return "bad-op", "bad"
	}
	var in []byte
	if f[1] != "-" {
		var err error
		in, err = hex.DecodeString(f[1])
		if err != nil {
			return "bad-op", "bad"
		}
	}
	v := t.mk()
	if err := v.Unmarshal(in); err != nil {
		return "err", "err"
	}
	out, err := v.Marshal()
	if err != nil {
		return "ok MARSHAL-ERROR", "unstable"
	}
	c, ok := canon(t, out)
	if !ok {
		return "ok REMARSHAL-NOT-PROTO", "unstable"
	}
	// second generation: the accepted value's own encoding must be accepted and be a fixpoint
	v2 := t.mk()
	if err := v2.Unmarshal(out); err != nil {
		return "ok " + c + " UNSTABLE", "unstable"
	}
	out2, err := v2.Marshal()
	c2, ok2 := canon(t, out2)
	if err != nil || !ok2 || c2 != c {
		return "ok " + c + " UNSTABLE", "unstable"
	}
	tag := "norm"
	if c == hexOrDash(in) {
		tag = "rt"
	}
	return "ok " + c + " idem", tag
}

func main() {
	hx.Main(&hx.Config{
		Prop: "C19",
		Gen:  gen,
		Exec: exec,
		Facts: func() []string {
			return schemaFacts()
		},
	})
}
