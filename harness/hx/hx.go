// Package hx is the shared runtime of the correspondence harness: a single
// seeded PRNG, the op-line protocol, panic/hang capture and output files.
//
// Every property binary calls hx.Main with
//   - gen:  produces the op lines of this run (from the one PRNG),
//   - exec: runs the REAL keep-core code on one op line and returns the
//     canonical observation line plus a branch tag (for coverage evidence),
//   - facts: (optional) prints `kind name value` lines that the check turns
//     into lean/KeepVerif/Gen/<ID>.lean.
package hx

import (
	"bufio"
	"flag"
	"fmt"
	"os"
	"path/filepath"
	"runtime"
	"runtime/debug"
	"sort"
	"strconv"
	"strings"
	"time"
)

// Rng is splitmix64; all random choices of a run derive from one state.
type Rng struct{ s uint64 }

func NewRng(seed uint64) *Rng { return &Rng{s: seed*0x9E3779B97F4A7C15 + 0x1234567} }

func (r *Rng) U64() uint64 {
	r.s += 0x9E3779B97F4A7C15
	z := r.s
	z = (z ^ (z >> 30)) * 0xBF58476D1CE4E5B9
	z = (z ^ (z >> 27)) * 0x94D049BB133111EB
	return z ^ (z >> 31)
}

// Intn returns a value in [0,n).
func (r *Rng) Intn(n int) int {
	if n <= 0 {
		return 0
	}
	return int(r.U64() % uint64(n))
}

// Range returns a value in [lo,hi].
func (r *Rng) Range(lo, hi int) int { return lo + r.Intn(hi-lo+1) }

func (r *Rng) Bool() bool { return r.U64()&1 == 1 }

// Chance is true with probability num/den.
func (r *Rng) Chance(num, den int) bool { return r.Intn(den) < num }

func (r *Rng) Bytes(n int) []byte {
	b := make([]byte, n)
	for i := range b {
		b[i] = byte(r.U64())
	}
	return b
}

// Pick returns one of xs.
func Pick[T any](r *Rng, xs []T) T { return xs[r.Intn(len(xs))] }

// Perm returns a permutation of 0..n-1.
func (r *Rng) Perm(n int) []int {
	p := make([]int, n)
	for i := range p {
		p[i] = i
	}
	for i := n - 1; i > 0; i-- {
		j := r.Intn(i + 1)
		p[i], p[j] = p[j], p[i]
	}
	return p
}

// ---- line helpers -------------------------------------------------------

func JoinInts[T ~int | ~int64 | ~uint64 | ~uint8 | ~uint32 | ~uint | ~int32](xs []T) string {
	if len(xs) == 0 {
		return "-"
	}
	ss := make([]string, len(xs))
	for i, x := range xs {
		ss[i] = fmt.Sprint(x)
	}
	return strings.Join(ss, ",")
}

func JoinStrs(xs []string) string {
	if len(xs) == 0 {
		return "-"
	}
	return strings.Join(xs, ",")
}

// SplitList parses "-" as empty and "a,b,c" as a list.
func SplitList(s string) []string {
	if s == "-" || s == "" {
		return nil
	}
	return strings.Split(s, ",")
}

func ParseInts(s string) []int {
	var out []int
	for _, t := range SplitList(s) {
		v, err := strconv.Atoi(t)
		if err != nil {
			panic("harness: bad int list " + s)
		}
		out = append(out, v)
	}
	return out
}

func ParseU64s(s string) []uint64 {
	var out []uint64
	for _, t := range SplitList(s) {
		v, err := strconv.ParseUint(t, 10, 64)
		if err != nil {
			panic("harness: bad uint list " + s)
		}
		out = append(out, v)
	}
	return out
}

func Atoi(s string) int {
	v, err := strconv.Atoi(s)
	if err != nil {
		panic("harness: bad int " + s)
	}
	return v
}

func AtoU64(s string) uint64 {
	v, err := strconv.ParseUint(s, 10, 64)
	if err != nil {
		panic("harness: bad uint " + s)
	}
	return v
}

func SortedCopy(xs []int) []int {
	c := append([]int(nil), xs...)
	sort.Ints(c)
	return c
}

// ---- main loop ----------------------------------------------------------

type Config struct {
	Prop string
	// Gen returns the generated op lines for this run (n = requested count).
	Gen func(r *Rng, n int, tier string) []string
	// Exec runs the real code on one op line: observation + branch tag.
	Exec func(op string) (obs string, tag string)
	// Facts prints `kind name value` lines (kind: nat|int|bool|str|natlist).
	Facts func() []string
	// PerOpTimeout: a case that exceeds it is the observation HANG.
	PerOpTimeout time.Duration
}

func safeExec(c *Config, op string) (obs, tag string) {
	type res struct{ obs, tag string }
	ch := make(chan res, 1)
	go func() {
		defer func() {
			if e := recover(); e != nil {
				msg := strings.ReplaceAll(fmt.Sprint(e), "\n", " ")
				if os.Getenv("VERIF_PANIC_TRACE") != "" {
					fmt.Fprintf(os.Stderr, "panic on op %q: %v\n%s\n", op, e, debug.Stack())
				}
				ch <- res{"PANIC " + msg, "panic"}
			}
		}()
		o, t := c.Exec(op)
		ch <- res{o, t}
	}()
	to := c.PerOpTimeout
	if to == 0 {
		to = 20 * time.Second
	}
	select {
	case r := <-ch:
		return strings.ReplaceAll(r.obs, "\n", " "), r.tag
	case <-time.After(to):
		return "HANG", "hang"
	}
}

// drain gives goroutines of the case that just finished (its safeExec goroutine, callbacks that
// are about to return) a bounded moment to exit, so that a harness which takes a
// runtime.NumGoroutine() baseline at the start of the next case does not see them.
func drain(base int) {
	for i := 0; i < 40 && runtime.NumGoroutine() > base; i++ {
		time.Sleep(50 * time.Microsecond)
	}
}

func readLines(path string) []string {
	f, err := os.Open(path)
	if err != nil {
		return nil
	}
	defer f.Close()
	var out []string
	sc := bufio.NewScanner(f)
	sc.Buffer(make([]byte, 1<<20), 1<<26)
	for sc.Scan() {
		l := strings.TrimRight(sc.Text(), "\r\n")
		if l == "" || strings.HasPrefix(l, "#") {
			continue
		}
		out = append(out, l)
	}
	return out
}

func Main(c *Config) {
	seed := flag.Uint64("seed", 0, "PRNG seed")
	n := flag.Int("n", 100, "number of generated cases")
	tier := flag.String("tier", "quick", "quick|thorough")
	out := flag.String("out", "", "output directory (ops.txt impl.txt tags.txt)")
	replay := flag.String("replay", "", "file with op lines to run instead of generating")
	corpus := flag.String("corpus", "", "directory with *.ops files run first")
	facts := flag.Bool("facts", false, "print extracted facts and exit")
	flag.Parse()

	if *facts {
		if c.Facts != nil {
			for _, l := range c.Facts() {
				fmt.Println(l)
			}
		}
		return
	}
	var ops []string
	if *replay != "" {
		ops = readLines(*replay)
	} else {
		if *corpus != "" {
			files, _ := filepath.Glob(filepath.Join(*corpus, "*.ops"))
			sort.Strings(files)
			for _, f := range files {
				ops = append(ops, readLines(f)...)
			}
		}
		ops = append(ops, c.Gen(NewRng(*seed), *n, *tier)...)
	}
	if *out == "" {
		for _, op := range ops {
			base := runtime.NumGoroutine()
			obs, tag := safeExec(c, op)
			drain(base)
			fmt.Printf("%s\t%s\t%s\n", op, obs, tag)
		}
		return
	}
	must(os.MkdirAll(*out, 0o755))
	fo := create(filepath.Join(*out, "ops.txt"))
	fi := create(filepath.Join(*out, "impl.txt"))
	ft := create(filepath.Join(*out, "tags.txt"))
	for _, op := range ops {
		if strings.ContainsAny(op, "\t\n") {
			panic("harness: op line contains tab/newline")
		}
		base := runtime.NumGoroutine()
		obs, tag := safeExec(c, op)
		drain(base)
		fmt.Fprintln(fo, op)
		fmt.Fprintln(fi, obs)
		fmt.Fprintln(ft, tag)
		fo.Flush()
		fi.Flush()
		ft.Flush()
	}
}

func must(err error) {
	if err != nil {
		fmt.Fprintln(os.Stderr, "harness:", err)
		os.Exit(3)
	}
}

func create(p string) *bufio.Writer {
	f, err := os.Create(p)
	must(err)
	return bufio.NewWriterSize(f, 1<<16)
}
