// C03: threshold BLS recovery (pkg/bls) and share validation (pkg/beacon/entry).
//
// Points are given by their exponents: a G1 value `v` stands for v*G1gen, a G2 value for v*G2gen.
// Op lines (one complete case each):
//
//	rec <thr> <entries> <coefs> <m>
//	    bls.RecoverSignature on the entries, in this order. entry = `n` (nil pointer) |
//	    `<I>:x` (V == nil) | `<I>:<v>` (index I, may be negative; share value v*G).
//	    coefs = a0,a1,.. the polynomial the generator used (secret a0), m = message exponent;
//	    the result is then verified with bls.VerifyG1(a0*G2, m*G, sig).
//	    obs: `<128 hex sig> v=<t|f>` | `err:notenough`
//	recpk <thr> <entries>      bls.RecoverPublicKey, values are G2 exponents; obs `<256 hex>` | err
//	basis <i> <x0,x1,..>       lagrangeBasis (hook); obs decimal
//	share <sender> <i:pk,..> <prev> <e:<v>|raw:<hex>>
//	    entry.extractAndValidateShare (hook) with the public key shares pk_i*G2, previous entry
//	    prev*G and share bytes (marshalled v*G or raw bytes);
//	    obs `ok <128 hex>` | err:unmarshal | err:nosender | err:invalid
//	complete <thr> <i:v,..>    entry.completeSignature (hook) on a Go map (random iteration order)
//	    obs `<128 hex>` | err:notenough
package main

import (
	"encoding/hex"
	"fmt"
	"math/big"
	"strconv"
	"strings"
	"time"

	"keepverif/harness/hx"

	bn256 "github.com/ethereum/go-ethereum/crypto/bn256/cloudflare"
	"github.com/ipfs/go-log/v2"
	"github.com/keep-network/keep-core/pkg/beacon/dkg"
	"github.com/keep-network/keep-core/pkg/beacon/entry"
	"github.com/keep-network/keep-core/pkg/bls"
	"github.com/keep-network/keep-core/pkg/protocol/group"
)

var order = bn256.Order

func randScalar(r *hx.Rng) *big.Int {
	switch r.Intn(12) {
	case 0:
		return big.NewInt(int64(r.Intn(3)))
	case 1:
		return new(big.Int).Sub(order, big.NewInt(int64(1+r.Intn(2))))
	default:
		return new(big.Int).Mod(new(big.Int).SetBytes(r.Bytes(40)), order)
	}
}

func evalPoly(coefs []*big.Int, x int64) *big.Int {
	acc := big.NewInt(0)
	bx := big.NewInt(x)
	for j := len(coefs) - 1; j >= 0; j-- {
		acc.Mul(acc, bx)
		acc.Add(acc, coefs[j])
		acc.Mod(acc, order)
	}
	return acc
}

func joinBig(xs []*big.Int) string {
	if len(xs) == 0 {
		return "-"
	}
	ss := make([]string, len(xs))
	for i, x := range xs {
		ss[i] = x.String()
	}
	return strings.Join(ss, ",")
}

// distinct indices for a group: mostly 1..n, sometimes 0, large or sparse values.
func pickIndices(r *hx.Rng, k int) []int64 {
	seen := map[int64]bool{}
	var out []int64
	for len(out) < k {
		var v int64
		switch r.Intn(10) {
		case 0:
			v = 0
		case 1:
			v = int64(r.U64() >> 1) // large
		case 2:
			v = int64(r.Range(200, 260))
		default:
			v = int64(r.Range(1, k+4))
		}
		if !seen[v] {
			seen[v] = true
			out = append(out, v)
		}
	}
	return out
}

func skipEntry(r *hx.Rng) string {
	switch r.Intn(3) {
	case 0:
		return "n"
	case 1:
		return fmt.Sprintf("%d:x", r.Range(-3, 9))
	default:
		return fmt.Sprintf("%d:%s", -int64(r.Range(1, 300)), randScalar(r))
	}
}

func gen(r *hx.Rng, n int, tier string) []string {
	var ops []string
	// multi-step histories, the real message loop and GJKR keys (see seq.go)
	nSeq, nEntry, nGjkr := n/12+2, 3, 2
	if tier == "thorough" {
		nEntry, nGjkr = 25, 12
	}
	for i := 0; i < nSeq; i++ {
		ops = append(ops, genSeq(r, "recseq"), genSeq(r, "shareseq"))
		if i%2 == 0 {
			ops = append(ops, genSeq(r, "pkseq"))
		}
	}
	for i := 0; i < nEntry; i++ {
		ops = append(ops, genSeq(r, "entry"))
	}
	// index sets that only differ in indexes >= 64 (same low-64-bit bitmap), one after the other
	for i := 0; i < 2; i++ {
		k := r.Range(2, 4)
		coefs := make([]*big.Int, k)
		for j := range coefs {
			coefs[j] = randScalar(r)
		}
		m := randScalar(r)
		base := pickIndices(r, k-1)
		for j := range base {
			base[j] = base[j]%63 + 1
		}
		seen := map[int64]bool{}
		var low []int64
		for _, v := range base {
			if !seen[v] {
				seen[v] = true
				low = append(low, v)
			}
		}
		hi1, hi2 := int64(64+r.Intn(3)), int64(67+r.Intn(200))
		A := append(append([]int64(nil), low...), hi1)
		B := append(append([]int64(nil), low...), hi2)
		C := append(append([]int64(nil), low...), hi1%64+ 0)
		steps := []string{stepFor(r, A, coefs[:len(A)], m, false), stepFor(r, B, coefs[:len(A)], m, false)}
		if C[len(C)-1] != 0 && !seen[C[len(C)-1]] {
			steps = append(steps, stepFor(r, C, coefs[:len(A)], m, false))
		}
		ops = append(ops, "recseq "+joinBig(coefs[:len(A)])+" "+m.String()+" "+strings.Join(steps, " "))
	}
	for i := 0; i < nGjkr; i++ {
		ops = append(ops, genSeq(r, "gjkr"))
	}
	for i := 0; i < n; i++ {
		switch k := r.Intn(20); {
		case k < 10: // recover signature
			thr := r.Range(1, 9)
			coefs := make([]*big.Int, thr)
			for j := range coefs {
				coefs[j] = randScalar(r)
			}
			m := randScalar(r)
			cnt := thr + r.Intn(4)
			if r.Chance(1, 10) && thr > 1 {
				cnt = r.Intn(thr) // not enough
			}
			idx := pickIndices(r, cnt)
			var ents []string
			for _, x := range idx {
				v := new(big.Int).Mod(new(big.Int).Mul(evalPoly(coefs, x), m), order)
				if r.Chance(1, 25) { // a wrong share
					v = randScalar(r)
				}
				ents = append(ents, fmt.Sprintf("%d:%s", x, v))
			}
			if r.Chance(1, 30) && len(ents) > 1 { // duplicate index
				ents[len(ents)-1] = ents[0]
			}
			// interleave skip entries (front, middle, back)
			if r.Chance(1, 2) {
				ns := r.Range(1, 3)
				for s := 0; s < ns; s++ {
					pos := r.Intn(len(ents) + 1)
					if r.Chance(1, 3) {
						pos = 0
					}
					ents = append(ents[:pos], append([]string{skipEntry(r)}, ents[pos:]...)...)
				}
			}
			t := thr
			switch r.Intn(25) {
			case 0:
				t = 0
			case 1:
				t = -1
			case 2:
				t = thr + 1
			}
			ops = append(ops, fmt.Sprintf("rec %d %s %s %s", t, hx.JoinStrs(ents), joinBig(coefs), m))
		case k < 12: // recover public key
			thr := r.Range(1, 6)
			coefs := make([]*big.Int, thr)
			for j := range coefs {
				coefs[j] = randScalar(r)
			}
			idx := pickIndices(r, thr+r.Intn(3))
			var ents []string
			for _, x := range idx {
				ents = append(ents, fmt.Sprintf("%d:%s", x, evalPoly(coefs, x)))
			}
			if r.Chance(1, 2) {
				pos := r.Intn(len(ents) + 1)
				ents = append(ents[:pos], append([]string{skipEntry(r)}, ents[pos:]...)...)
			}
			ops = append(ops, fmt.Sprintf("recpk %d %s", thr, hx.JoinStrs(ents)))
		case k < 14: // lagrange basis
			cnt := r.Range(1, 8)
			idx := pickIndices(r, cnt)
			if r.Chance(1, 8) && cnt > 1 {
				idx[cnt-1] = idx[0]
			}
			ops = append(ops, fmt.Sprintf("basis %d %s", r.Intn(cnt), hx.JoinInts(idx)))
		case k < 18: // share validation
			cnt := r.Range(1, 6)
			var pks []string
			sks := map[int]*big.Int{}
			for j := 1; j <= cnt; j++ {
				if r.Chance(1, 6) {
					continue // member without a public key share
				}
				sks[j] = randScalar(r)
				pks = append(pks, fmt.Sprintf("%d:%s", j, sks[j]))
			}
			prev := randScalar(r)
			sender := r.Range(1, cnt)
			if r.Chance(1, 10) {
				sender = r.Range(0, 255)
			}
			var share string
			sk, has := sks[sender]
			switch c := r.Intn(10); {
			case c < 5 && has: // honest share
				share = "e:" + new(big.Int).Mod(new(big.Int).Mul(sk, prev), order).String()
			case c < 6 && has: // honest share marshalled, then one byte flipped
				b := new(bn256.G1).ScalarBaseMult(new(big.Int).Mul(sk, prev)).Marshal()
				b[r.Intn(len(b))] ^= byte(1 << uint(r.Intn(8)))
				share = "raw:" + hex.EncodeToString(b)
			case c < 7: // another member's share
				o := r.Range(1, cnt)
				if s2, ok := sks[o]; ok {
					share = "e:" + new(big.Int).Mod(new(big.Int).Mul(s2, prev), order).String()
				} else {
					share = "e:" + randScalar(r).String()
				}
			case c < 8: // truncated / random / zero bytes
				switch r.Intn(3) {
				case 0:
					share = "raw:" + hex.EncodeToString(r.Bytes(r.Range(1, 63)))
				case 1:
					share = "raw:" + hex.EncodeToString(r.Bytes(64))
				default:
					share = "raw:" + hex.EncodeToString(make([]byte, 64))
				}
			default:
				share = "e:" + randScalar(r).String()
			}
			ops = append(ops, fmt.Sprintf("share %d %s %s %s", sender, hx.JoinStrs(pks), prev, share))
		default: // complete signature from a map
			thr := r.Range(1, 7)
			coefs := make([]*big.Int, thr)
			for j := range coefs {
				coefs[j] = randScalar(r)
			}
			cnt := thr
			if r.Chance(1, 8) && thr > 1 {
				cnt = thr - 1
			}
			seen := map[int]bool{}
			var ents []string
			for len(ents) < cnt {
				x := r.Range(1, 255)
				if r.Chance(2, 3) {
					x = r.Range(1, thr+3)
				}
				if seen[x] {
					continue
				}
				seen[x] = true
				ents = append(ents, fmt.Sprintf("%d:%s", x, evalPoly(coefs, int64(x))))
			}
			ops = append(ops, fmt.Sprintf("complete %d %s", thr, hx.JoinStrs(ents)))
		}
	}
	return ops
}

func parseBig(s string) (*big.Int, bool) {
	v, ok := new(big.Int).SetString(s, 10)
	if !ok || v.Sign() < 0 {
		return nil, false
	}
	return v, true
}

func errClass(err error) string {
	s := err.Error()
	switch {
	case strings.Contains(s, "not enough shares"):
		return "err:notenough"
	case strings.Contains(s, "could not unmarshal"):
		return "err:unmarshal"
	case strings.Contains(s, "not found"):
		return "err:nosender"
	case strings.Contains(s, "invalid signature share"):
		return "err:invalid"
	}
	return "err:other"
}

type ent struct {
	kind string // n | x | v
	i    int
	v    *big.Int
}

func parseEntries(s string) ([]ent, bool) {
	var out []ent
	for _, t := range hx.SplitList(s) {
		if t == "n" {
			out = append(out, ent{kind: "n"})
			continue
		}
		p := strings.SplitN(t, ":", 2)
		if len(p) != 2 {
			return nil, false
		}
		i, err := strconv.Atoi(p[0])
		if err != nil {
			return nil, false
		}
		if p[1] == "x" {
			out = append(out, ent{kind: "x", i: i})
			continue
		}
		v, ok := parseBig(p[1])
		if !ok {
			return nil, false
		}
		out = append(out, ent{kind: "v", i: i, v: v})
	}
	return out, true
}

var logger = log.Logger("keep-verif-c03")

func exec(op string) (string, string) {
	f := strings.Fields(op)
	if len(f) < 2 {
		return "bad-op", "bad"
	}
	switch f[0] {
	case "recseq", "pkseq", "shareseq", "entry", "gjkr":
		return execSeq(f)
	case "rec":
		if len(f) != 5 {
			return "bad-op", "bad"
		}
		thr, err := strconv.Atoi(f[1])
		ents, ok := parseEntries(f[2])
		if err != nil || !ok {
			return "bad-op", "bad"
		}
		var coefs []*big.Int
		for _, c := range hx.SplitList(f[3]) {
			v, ok := parseBig(c)
			if !ok {
				return "bad-op", "bad"
			}
			coefs = append(coefs, v)
		}
		m, ok := parseBig(f[4])
		if !ok || len(coefs) == 0 {
			return "bad-op", "bad"
		}
		var shares []*bls.SignatureShare
		tag := "rec"
		nvalid := 0
		skipBefore := false
		for _, e := range ents {
			switch e.kind {
			case "n":
				shares = append(shares, nil)
			case "x":
				shares = append(shares, &bls.SignatureShare{I: e.i})
			default:
				shares = append(shares, &bls.SignatureShare{I: e.i, V: new(bn256.G1).ScalarBaseMult(e.v)})
			}
			if e.kind == "v" && e.i >= 0 {
				nvalid++
			} else if thr < 0 || nvalid < thr {
				skipBefore = true
			}
		}
		if skipBefore {
			tag += "+skip"
		}
		if thr >= 0 && nvalid > thr {
			tag += "+extra"
		}
		snap := snapshotShares(shares)
		sig, err := bls.RecoverSignature(shares, thr)
		flags := ""
		if snapshotShares(shares) != snap {
			flags += " MUTATED-INPUT"
		}
		sig2, err2 := bls.RecoverSignature(shares, thr)
		if (err == nil) != (err2 == nil) || (err == nil && hex.EncodeToString(sig.Marshal()) != hex.EncodeToString(sig2.Marshal())) {
			flags += " NONDET"
		}
		if err != nil {
			return errClass(err) + flags, tag + "+err"
		}
		sigHex := hex.EncodeToString(sig.Marshal()) // (also initialises a zero-value result)
		pk := new(bn256.G2).ScalarBaseMult(coefs[0])
		msg := new(bn256.G1).ScalarBaseMult(m)
		v := "f"
		if bls.VerifyG1(pk, msg, sig) {
			v = "t"
			tag += "+verified"
		} else {
			tag += "+unverified"
		}
		return sigHex + " v=" + v + flags, tag
	case "recpk":
		if len(f) != 3 {
			return "bad-op", "bad"
		}
		thr, err := strconv.Atoi(f[1])
		ents, ok := parseEntries(f[2])
		if err != nil || !ok {
			return "bad-op", "bad"
		}
		var shares []*bls.PublicKeyShare
		for _, e := range ents {
			switch e.kind {
			case "n":
				shares = append(shares, nil)
			case "x":
				shares = append(shares, &bls.PublicKeyShare{I: e.i})
			default:
				shares = append(shares, &bls.PublicKeyShare{I: e.i, V: new(bn256.G2).ScalarBaseMult(e.v)})
			}
		}
		pk, err := bls.RecoverPublicKey(shares, thr)
		if err != nil {
			return errClass(err), "recpk+err"
		}
		return hex.EncodeToString(pk.Marshal()), "recpk"
	case "basis":
		if len(f) != 3 {
			return "bad-op", "bad"
		}
		i, err := strconv.Atoi(f[1])
		var xs []*big.Int
		for _, t := range hx.SplitList(f[2]) {
			v, ok := parseBig(t)
			if !ok {
				return "bad-op", "bad"
			}
			xs = append(xs, v)
		}
		if err != nil || i < 0 || i >= len(xs) {
			return "bad-op", "bad"
		}
		return bls.VerifLagrangeBasis(i, xs).String(), "basis"
	case "share":
		if len(f) != 5 {
			return "bad-op", "bad"
		}
		sender, err := strconv.Atoi(f[1])
		if err != nil || sender < 0 || sender > 255 {
			return "bad-op", "bad"
		}
		pks := map[group.MemberIndex]*bn256.G2{}
		for _, t := range hx.SplitList(f[2]) {
			p := strings.SplitN(t, ":", 2)
			if len(p) != 2 {
				return "bad-op", "bad"
			}
			i, err := strconv.Atoi(p[0])
			v, ok := parseBig(p[1])
			if err != nil || !ok || i < 0 || i > 255 {
				return "bad-op", "bad"
			}
			pks[group.MemberIndex(i)] = new(bn256.G2).ScalarBaseMult(v)
		}
		prev, ok := parseBig(f[3])
		if !ok {
			return "bad-op", "bad"
		}
		var shareBytes []byte
		switch {
		case strings.HasPrefix(f[4], "e:"):
			v, ok := parseBig(f[4][2:])
			if !ok {
				return "bad-op", "bad"
			}
			shareBytes = new(bn256.G1).ScalarBaseMult(v).Marshal()
		case strings.HasPrefix(f[4], "raw:"):
			b, err := hex.DecodeString(f[4][4:])
			if err != nil {
				return "bad-op", "bad"
			}
			shareBytes = b
		default:
			return "bad-op", "bad"
		}
		prevPt := new(bn256.G1).ScalarBaseMult(prev)
		res, flags := discipline(shareBytes, func(buf []byte) string {
			sh, err := entry.VerifExtractAndValidateShare(group.MemberIndex(sender), buf, pks, prevPt)
			if err != nil {
				return errClass(err)
			}
			return "ok " + hex.EncodeToString(sh.Marshal())
		})
		if strings.HasPrefix(res, "err:") {
			return res + flags, "share+" + res[4:]
		}
		return res + flags, "share+accepted"
	case "complete":
		if len(f) != 3 {
			return "bad-op", "bad"
		}
		thr, err := strconv.Atoi(f[1])
		ents, ok := parseEntries(f[2])
		if err != nil || !ok {
			return "bad-op", "bad"
		}
		shares := map[group.MemberIndex]*bn256.G1{}
		for _, e := range ents {
			if e.kind != "v" || e.i < 0 || e.i > 255 {
				return "bad-op", "bad"
			}
			shares[group.MemberIndex(e.i)] = new(bn256.G1).ScalarBaseMult(e.v)
		}
		signer := dkg.NewThresholdSigner(1, new(bn256.G2), big.NewInt(1), nil, nil)
		sig, err := entry.VerifCompleteSignature(logger, signer, shares, thr)
		if err != nil {
			return errClass(err), "complete+err"
		}
		return hex.EncodeToString(sig.Marshal()), "complete"
	}
	return "bad-op", "bad"
}

func main() {
	log.SetAllLoggers(log.LevelFatal)
	hx.Main(&hx.Config{
		Prop:         "C03",
		Gen:          gen,
		Exec:         exec,
		PerOpTimeout: 20 * time.Second,
		Facts: func() []string {
			g2 := new(bn256.G2).ScalarBaseMult(big.NewInt(1)).Marshal()
			c := func(k int) string { return new(big.Int).SetBytes(g2[32*k : 32*k+32]).String() }
			return []string{
				"nat fieldP " + bn256.P.String(),
				"nat groupOrder " + bn256.Order.String(),
				"nat g2GenXi " + c(0),
				"nat g2GenXr " + c(1),
				"nat g2GenYi " + c(2),
				"nat g2GenYr " + c(3),
			}
		},
	})
}

// snapshotShares renders the share slice (pointers' contents) for the input-unchanged check.
func snapshotShares(shares []*bls.SignatureShare) string {
	var b strings.Builder
	for _, s := range shares {
		switch {
		case s == nil:
			b.WriteString("n;")
		case s.V == nil:
			fmt.Fprintf(&b, "%d:x;", s.I)
		default:
			fmt.Fprintf(&b, "%d:%x;", s.I, new(bn256.G1).Set(s.V).Marshal())
		}
	}
	return b.String()
}
