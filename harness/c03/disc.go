// Buffer discipline: hash / decompress are functions of the byte CONTENT of their argument only
// and must leave the argument unchanged.  Every op that passes a byte slice to the code under
// test goes through `discipline`, which reports `MUTATED-INPUT`, `ALIASED` or `NONDET` in the
// observation (the model never produces them, the monitor rejects them).
package main

import "bytes"

// otherInput returns a different input of the same length (nil if there is none).
func otherInput(in []byte) []byte {
	if len(in) == 0 {
		return nil
	}
	o := append([]byte(nil), in...)
	o[len(o)-1] ^= 0x01
	if len(o) > 3 {
		o[len(o)/2] ^= 0x5a
	}
	return o
}

func clone(b []byte) []byte {
	// exact-capacity copy plus spare capacity variants are both plausible callers; use a
	// buffer with spare capacity so that append-into-input tricks are visible too
	c := make([]byte, len(b), len(b)+16)
	copy(c, b)
	return c
}

// discipline returns the result of `call` on a fresh slice and the violation flags
// (a leading space each, or "").
func discipline(in []byte, call func([]byte) string) (string, string) {
	flags := ""
	add := func(f string) {
		if !bytes.Contains([]byte(flags), []byte(f)) {
			flags += " " + f
		}
	}
	result := call(clone(in))
	other := otherInput(in)
	expectOther := ""
	if other != nil {
		expectOther = call(clone(other))
	}
	// (a) the input buffer is byte-identical after the call
	buf := clone(in)
	if r := call(buf); r != result {
		add("NONDET")
	}
	if !bytes.Equal(buf, in) {
		add("MUTATED-INPUT")
	}
	// (c) twice on the same buffer: identical results, identical input bytes
	buf2 := clone(in)
	r1 := call(buf2)
	r2 := call(buf2)
	if r1 != result || r2 != result {
		add("NONDET")
	}
	if !bytes.Equal(buf2, in) {
		add("MUTATED-INPUT")
	}
	// (b) the same buffer reused for different content of the same length
	if other != nil {
		buf3 := clone(in)
		_ = call(buf3)
		copy(buf3, other)
		if r := call(buf3); r != expectOther {
			add("ALIASED")
		}
		// and back again
		copy(buf3, in)
		if r := call(buf3); r != result {
			add("ALIASED")
		}
	}
	return result, flags
}
