// Multi-step histories inside one op line (the model is stateless: any dependence of the real
// code on earlier calls in the same process is a disagreement), the relay entry message loop and
// an end-to-end case on keys of a real GJKR run.
//
//	recseq <coefs> <m> <thr|entries> <thr|entries> ...
//	    bls.RecoverSignature for every step in this order, each result verified with
//	    bls.VerifyG1 under a0*G2. obs: step results joined by `;` (`<128 hex>:v=t|f`,
//	    err:notenough, panic).
//	pkseq <coefs> <thr|entries> ...           the same for bls.RecoverPublicKey (`<256 hex>`)
//	shareseq <self> <i:pk,..> <prev> <msg> ...   msg = <sender>:e:<v> | <sender>:raw:<hex>
//	    the body of the SignAndSubmit receive loop on a message history: own messages are
//	    skipped, the others go through entry.extractAndValidateShare (hook).
//	    obs: per message `self` | `ok:<128 hex>` | err:<class>, joined by `;`
//	entry <self> <n> <thr> <coefs> <prev> <msg> ...
//	    the REAL entry.SignAndSubmit of member <self> (key shares f(i) of the polynomial) on the
//	    local chain and local broadcast channel; the scripted messages of the other members are
//	    (re)sent until it returns. obs: `entry:<128 hex>:v=t|f` (relay entry submitted to the
//	    chain, verified under the group key) | `timeout` | err:<text class>
//	gjkr <n> <t> <seed> <prev>
//	    a real GJKR run (harness/c01/gjk engine, all members honest); every member signs prev*G
//	    with its share, every share is validated by every other member, the first t+1 members'
//	    shares are completed and verified under the group key the DKG produced.
//	    obs: `members=<k> accepted=<a>/<b> verified=<t|f> same=<t|f>`
package main

import (
	"context"
	"encoding/hex"
	"fmt"
	"math/big"
	"sort"
	"strconv"
	"strings"
	"sync/atomic"
	"time"

	"keepverif/harness/c01/gjk"
	"keepverif/harness/hx"

	bn256 "github.com/ethereum/go-ethereum/crypto/bn256/cloudflare"
	"github.com/keep-network/keep-core/pkg/beacon/dkg"
	"github.com/keep-network/keep-core/pkg/beacon/entry"
	"github.com/keep-network/keep-core/pkg/bls"
	"github.com/keep-network/keep-core/pkg/chain/local_v1"
	netlocal "github.com/keep-network/keep-core/pkg/net/local"
	"github.com/keep-network/keep-core/pkg/operator"
	"github.com/keep-network/keep-core/pkg/protocol/group"
)

func mulmod(a, b *big.Int) *big.Int { return new(big.Int).Mod(new(big.Int).Mul(a, b), order) }

// collidingLists returns two different lists of k distinct indices whose decimal
// representations concatenate to the same string, e.g. [1,23,4] and [12,3,4].
func collidingLists(r *hx.Rng, k int) ([]int64, []int64) {
	for {
		p := r.Intn(k - 1)
		a := int64(r.Range(1, 99))
		b := int64(r.Range(10, 999))
		bs := strconv.FormatInt(b, 10)
		if bs[1] == '0' {
			continue
		}
		a2, _ := strconv.ParseInt(strconv.FormatInt(a, 10)+bs[:1], 10, 64)
		b2, _ := strconv.ParseInt(bs[1:], 10, 64)
		A := make([]int64, k)
		B := make([]int64, k)
		for i := 0; i < k; i++ {
			v := int64(r.Range(1, 300))
			A[i], B[i] = v, v
		}
		A[p], A[p+1] = a, b
		B[p], B[p+1] = a2, b2
		ok := true
		for _, l := range [][]int64{A, B} {
			seen := map[int64]bool{}
			for _, v := range l {
				if seen[v] {
					ok = false
				}
				seen[v] = true
			}
		}
		if ok {
			return A, B
		}
	}
}

func stepFor(r *hx.Rng, idx []int64, coefs []*big.Int, m *big.Int, withSkips bool) string {
	var ents []string
	for _, x := range idx {
		ents = append(ents, fmt.Sprintf("%d:%s", x, mulmod(evalPoly(coefs, x), m)))
	}
	if withSkips {
		pos := r.Intn(len(ents) + 1)
		ents = append(ents[:pos], append([]string{skipEntry(r)}, ents[pos:]...)...)
	}
	return fmt.Sprintf("%d|%s", len(idx), strings.Join(ents, ","))
}

func genSeq(r *hx.Rng, kind string) string {
	switch kind {
	case "recseq", "pkseq":
		k := r.Range(2, 5)
		coefs := make([]*big.Int, k)
		for j := range coefs {
			coefs[j] = randScalar(r)
		}
		m := randScalar(r)
		if kind == "pkseq" {
			m = big.NewInt(1)
		}
		var steps []string
		A, B := collidingLists(r, k)
		lists := [][]int64{A, B}
		if r.Bool() {
			lists = [][]int64{B, A}
		}
		switch r.Intn(4) {
		case 0: // a third list, reversed order of the first, and the first again
			rev := append([]int64(nil), lists[0]...)
			for i, j := 0, len(rev)-1; i < j; i, j = i+1, j-1 {
				rev[i], rev[j] = rev[j], rev[i]
			}
			lists = append(lists, rev, lists[0])
		case 1:
			C, D := collidingLists(r, k)
			lists = append(lists, C, D)
		}
		for _, l := range lists {
			steps = append(steps, stepFor(r, l, coefs, m, r.Chance(1, 3)))
		}
		if kind == "pkseq" {
			return "pkseq " + joinBig(coefs) + " " + strings.Join(steps, " ")
		}
		return "recseq " + joinBig(coefs) + " " + m.String() + " " + strings.Join(steps, " ")
	case "shareseq", "entry":
		n := r.Range(3, 5)
		thr := r.Range(2, n)
		coefs := make([]*big.Int, thr)
		for j := range coefs {
			coefs[j] = randScalar(r)
		}
		prev := randScalar(r)
		if prev.Sign() == 0 {
			prev = big.NewInt(7)
		}
		self := r.Range(1, n)
		share := func(i int) string { return mulmod(evalPoly(coefs, int64(i)), prev).String() }
		var msgs []string
		nm := r.Range(2, 9)
		valid := map[int]bool{self: true}
		for len(msgs) < nm {
			s := r.Range(1, n)
			switch r.Intn(8) {
			case 0: // another member's share bytes under this sender (replay)
				o := r.Range(1, n)
				msgs = append(msgs, fmt.Sprintf("%d:e:%s", s, share(o)))
				if o == s {
					valid[s] = true
				}
			case 1: // garbage
				msgs = append(msgs, fmt.Sprintf("%d:raw:%s", s, hex.EncodeToString(r.Bytes(r.Range(1, 64)))))
			case 2: // wrong scalar
				msgs = append(msgs, fmt.Sprintf("%d:e:%s", s, randScalar(r)))
			case 3: // unknown sender
				msgs = append(msgs, fmt.Sprintf("%d:e:%s", n+r.Range(1, 3), share(s)))
			default: // honest (possibly a duplicate of an earlier one)
				msgs = append(msgs, fmt.Sprintf("%d:e:%s", s, share(s)))
				valid[s] = true
			}
		}
		if kind == "shareseq" {
			var pks []string
			for i := 1; i <= n; i++ {
				pks = append(pks, fmt.Sprintf("%d:%s", i, evalPoly(coefs, int64(i))))
			}
			// always contains the replay history: A's share accepted, then the same bytes under B
			a := self%n + 1
			b := a%n + 1
			msgs = append(msgs, fmt.Sprintf("%d:e:%s", a, share(a)), fmt.Sprintf("%d:e:%s", b, share(a)))
			return fmt.Sprintf("shareseq %d %s %s %s", self, strings.Join(pks, ","), prev, strings.Join(msgs, " "))
		}
		if kind == "entry" && r.Chance(1, 3) {
			// replay-short history: one member short of the threshold, and the missing members
			// only ever send (after the genuine sender) a copy of another member's share bytes
			n, thr = 3, 3
			coefs = coefs[:0]
			for j := 0; j < thr; j++ {
				coefs = append(coefs, randScalar(r))
			}
			self = r.Range(1, 3)
			a := self%3 + 1
			b := a%3 + 1
			sa := mulmod(evalPoly(coefs, int64(a)), prev).String()
			msgs = []string{fmt.Sprintf("%d:e:%s", a, sa), fmt.Sprintf("%d:e:%s", b, sa), fmt.Sprintf("%d:e:%s", a, sa)}
			return fmt.Sprintf("entry %d %d %d %s %s %s", self, n, thr, joinBig(coefs), prev, strings.Join(msgs, " "))
		}
		if r.Chance(2, 3) { // make most entry cases completable: late valid shares at the end
			for i := 1; i <= n; i++ {
				if !valid[i] {
					msgs = append(msgs, fmt.Sprintf("%d:e:%s", i, share(i)))
				}
			}
		}
		return fmt.Sprintf("entry %d %d %d %s %s %s", self, n, thr, joinBig(coefs), prev, strings.Join(msgs, " "))
	default: // gjkr
		n := r.Range(3, 5)
		return fmt.Sprintf("gjkr %d %d %d %s", n, r.Range(1, (n-1)/2), r.U64()%100000, randScalarNZ(r))
	}
}

func randScalarNZ(r *hx.Rng) *big.Int {
	for {
		v := randScalar(r)
		if v.Sign() != 0 {
			return v
		}
	}
}

func guarded(f func() string) (out string) {
	defer func() {
		if e := recover(); e != nil {
			out = "panic"
		}
	}()
	return f()
}

func parseCoefs(s string) ([]*big.Int, bool) {
	var coefs []*big.Int
	for _, c := range hx.SplitList(s) {
		v, ok := parseBig(c)
		if !ok {
			return nil, false
		}
		coefs = append(coefs, v)
	}
	return coefs, len(coefs) > 0
}

func parseStep(s string) (int, []ent, bool) {
	p := strings.SplitN(s, "|", 2)
	if len(p) != 2 {
		return 0, nil, false
	}
	thr, err := strconv.Atoi(p[0])
	ents, ok := parseEntries(p[1])
	return thr, ents, err == nil && ok
}

type scriptMsg struct {
	sender int
	bytes  []byte
}

func parseMsgs(fs []string) ([]scriptMsg, bool) {
	var out []scriptMsg
	for _, t := range fs {
		p := strings.SplitN(t, ":", 3)
		if len(p) != 3 {
			return nil, false
		}
		s, err := strconv.Atoi(p[0])
		if err != nil || s < 0 || s > 255 {
			return nil, false
		}
		switch p[1] {
		case "e":
			v, ok := parseBig(p[2])
			if !ok {
				return nil, false
			}
			out = append(out, scriptMsg{s, new(bn256.G1).ScalarBaseMult(v).Marshal()})
		case "raw":
			b, err := hex.DecodeString(p[2])
			if err != nil {
				return nil, false
			}
			out = append(out, scriptMsg{s, b})
		default:
			return nil, false
		}
	}
	return out, true
}

var chanCounter uint64

func execSeq(f []string) (string, string) {
	switch f[0] {
	case "recseq":
		if len(f) < 4 {
			return "bad-op", "bad"
		}
		coefs, ok := parseCoefs(f[1])
		m, ok2 := parseBig(f[2])
		if !ok || !ok2 {
			return "bad-op", "bad"
		}
		pk := new(bn256.G2).ScalarBaseMult(coefs[0])
		msg := new(bn256.G1).ScalarBaseMult(m)
		var res []string
		for _, st := range f[3:] {
			thr, ents, ok := parseStep(st)
			if !ok {
				return "bad-op", "bad"
			}
			res = append(res, guarded(func() string {
				var shares []*bls.SignatureShare
				for _, e := range ents {
					switch e.kind {
					case "n":
						shares = append(shares, nil)
					case "x":
						shares = append(shares, &bls.SignatureShare{I: e.i})
					default:
						shares = append(shares, &bls.SignatureShare{I: e.i, V: new(bn256.G1).ScalarBaseMult(e.v)})
					}
				}
				sig, err := bls.RecoverSignature(shares, thr)
				if err != nil {
					return errClass(err)
				}
				h := hex.EncodeToString(sig.Marshal())
				if bls.VerifyG1(pk, msg, sig) {
					return h + ":v=t"
				}
				return h + ":v=f"
			}))
		}
		return strings.Join(res, ";"), "recseq"
	case "pkseq":
		if len(f) < 3 {
			return "bad-op", "bad"
		}
		if _, ok := parseCoefs(f[1]); !ok {
			return "bad-op", "bad"
		}
		var res []string
		for _, st := range f[2:] {
			thr, ents, ok := parseStep(st)
			if !ok {
				return "bad-op", "bad"
			}
			res = append(res, guarded(func() string {
				var shares []*bls.PublicKeyShare
				for _, e := range ents {
					switch e.kind {
					case "n":
						shares = append(shares, nil)
					case "x":
						shares = append(shares, &bls.PublicKeyShare{I: e.i})
					default:
						shares = append(shares, &bls.PublicKeyShare{I: e.i, V: new(bn256.G2).ScalarBaseMult(e.v)})
					}
				}
				pk, err := bls.RecoverPublicKey(shares, thr)
				if err != nil {
					return errClass(err)
				}
				return hex.EncodeToString(pk.Marshal())
			}))
		}
		return strings.Join(res, ";"), "pkseq"
	case "shareseq":
		if len(f) < 5 {
			return "bad-op", "bad"
		}
		self, err := strconv.Atoi(f[1])
		prev, ok := parseBig(f[3])
		msgs, ok2 := parseMsgs(f[4:])
		if err != nil || !ok || !ok2 {
			return "bad-op", "bad"
		}
		pks := map[group.MemberIndex]*bn256.G2{}
		for _, t := range hx.SplitList(f[2]) {
			p := strings.SplitN(t, ":", 2)
			if len(p) != 2 {
				return "bad-op", "bad"
			}
			i, err := strconv.Atoi(p[0])
			v, ok := parseBig(p[1])
			if err != nil || !ok || i < 0 || i > 255 {
				return "bad-op", "bad"
			}
			pks[group.MemberIndex(i)] = new(bn256.G2).ScalarBaseMult(v)
		}
		prevPt := new(bn256.G1).ScalarBaseMult(prev)
		var res []string
		for _, mg := range msgs {
			if mg.sender == self {
				res = append(res, "self")
				continue
			}
			mg := mg
			res = append(res, guarded(func() string {
				sh, err := entry.VerifExtractAndValidateShare(group.MemberIndex(mg.sender), mg.bytes, pks, prevPt)
				if err != nil {
					return errClass(err)
				}
				return "ok:" + hex.EncodeToString(sh.Marshal())
			}))
		}
		return strings.Join(res, ";"), "shareseq"
	case "entry":
		return execEntry(f)
	case "gjkr":
		return execGjkr(f)
	}
	return "bad-op", "bad"
}

// execEntry runs the real entry.SignAndSubmit of one member against scripted messages.
func execEntry(f []string) (string, string) {
	if len(f) < 6 {
		return "bad-op", "bad"
	}
	self, e1 := strconv.Atoi(f[1])
	n, e2 := strconv.Atoi(f[2])
	thr, e3 := strconv.Atoi(f[3])
	coefs, ok := parseCoefs(f[4])
	prev, ok2 := parseBig(f[5])
	msgs, ok3 := parseMsgs(f[6:])
	if e1 != nil || e2 != nil || e3 != nil || !ok || !ok2 || !ok3 || n < 2 || n > 9 || self < 1 || self > n || thr < 1 || thr > n {
		return "bad-op", "bad"
	}
	pks := map[group.MemberIndex]*bn256.G2{}
	for i := 1; i <= n; i++ {
		pks[group.MemberIndex(i)] = new(bn256.G2).ScalarBaseMult(evalPoly(coefs, int64(i)))
	}
	groupKey := new(bn256.G2).ScalarBaseMult(coefs[0])
	signer := dkg.NewThresholdSigner(group.MemberIndex(self), groupKey, evalPoly(coefs, int64(self)), pks, nil)

	privSelf, pubSelf, err := operator.GenerateKeyPair(local_v1.DefaultCurve)
	if err != nil {
		return "err:keygen", "entry"
	}
	_, pubOther, _ := operator.GenerateKeyPair(local_v1.DefaultCurve)
	name := fmt.Sprintf("verif-c03-entry-%d", atomic.AddUint64(&chanCounter, 1))
	chSelf, err := netlocal.ConnectWithKey(pubSelf).BroadcastChannelFor(name)
	if err != nil {
		return "err:net", "entry"
	}
	chOther, err := netlocal.ConnectWithKey(pubOther).BroadcastChannelFor(name)
	if err != nil {
		return "err:net", "entry"
	}
	entry.RegisterUnmarshallers(chSelf)
	entry.RegisterUnmarshallers(chOther)
	localChain := local_v1.ConnectWithKey(n, thr, privSelf)
	bc, _ := localChain.BlockCounter()
	start, _ := bc.CurrentBlock()
	prevBytes := new(bn256.G1).ScalarBaseMult(prev).Marshal()
	sessionID := hex.EncodeToString(prevBytes)

	done := make(chan error, 1)
	go func() {
		done <- entry.SignAndSubmit(logger, bc, chSelf, localChain, prevBytes, thr, signer, start)
	}()
	// the other members' messages are retransmitted until the member under test returns
	// (no assumption on when it starts listening; duplicates are part of the history anyway)
	var result error
	finished := false
	deadline := time.Now().Add(18 * time.Second)
	for !finished && time.Now().Before(deadline) {
		for _, mg := range msgs {
			_ = chOther.Send(context.Background(), entry.NewSignatureShareMessage(group.MemberIndex(mg.sender), mg.bytes, sessionID))
		}
		select {
		case result = <-done:
			finished = true
		case <-time.After(150 * time.Millisecond):
		}
	}
	if !finished {
		return "HANG", "hang"
	}
	if result != nil {
		if strings.Contains(result.Error(), "timed out") {
			return "timeout", "entry+timeout"
		}
		return "err:other " + strings.ReplaceAll(result.Error(), "\t", " "), "entry+err"
	}
	got := localChain.GetLastRelayEntry()
	sig := new(bn256.G1)
	if _, err := sig.Unmarshal(got); err != nil {
		return "err:badentry " + hex.EncodeToString(got), "entry+err"
	}
	v := "f"
	if bls.VerifyG1(groupKey, new(bn256.G1).ScalarBaseMult(prev), sig) {
		v = "t"
	}
	return "entry:" + hex.EncodeToString(got) + ":v=" + v, "entry+submitted"
}

func execGjkr(f []string) (string, string) {
	if len(f) != 5 {
		return "bad-op", "bad"
	}
	prev, ok := parseBig(f[4])
	c, ok2 := gjk.ParseOp(fmt.Sprintf("dkg %s %s %s 0 -", f[1], f[2], f[3]))
	if !ok || !ok2 || prev.Sign() == 0 {
		return "bad-op", "bad"
	}
	outs, _ := gjk.Run(c, true)
	prevPt := new(bn256.G1).ScalarBaseMult(prev)
	var fin []gjk.MemberOut
	for _, o := range outs {
		if o.Key != nil && o.Share != nil && o.PKShares != nil {
			fin = append(fin, o)
		}
	}
	sort.Slice(fin, func(i, j int) bool { return fin[i].Idx < fin[j].Idx })
	if len(fin) < c.T+1 {
		return fmt.Sprintf("members=%d", len(fin)), "gjkr"
	}
	shares := map[int]*bn256.G1{}
	for _, o := range fin {
		shares[o.Idx] = bls.SignG1(o.Share, prevPt)
	}
	acc, tot := 0, 0
	for _, o := range fin {
		for _, p := range fin {
			if p.Idx == o.Idx {
				continue
			}
			tot++
			if _, err := entry.VerifExtractAndValidateShare(group.MemberIndex(p.Idx), shares[p.Idx].Marshal(), o.PKShares, prevPt); err == nil {
				acc++
			}
		}
	}
	// every (t+1)-subset window of the finished members completes to the same verified signature
	verified, same := true, true
	var first []byte
	for s := 0; s+c.T+1 <= len(fin); s++ {
		m := map[group.MemberIndex]*bn256.G1{}
		for _, o := range fin[s : s+c.T+1] {
			m[group.MemberIndex(o.Idx)] = shares[o.Idx]
		}
		signer := dkg.NewThresholdSigner(group.MemberIndex(fin[s].Idx), fin[s].Key, fin[s].Share, fin[s].PKShares, nil)
		sig, err := entry.VerifCompleteSignature(logger, signer, m, c.T+1)
		if err != nil || !bls.VerifyG1(fin[0].Key, prevPt, sig) {
			verified = false
			continue
		}
		if first == nil {
			first = sig.Marshal()
		} else if hex.EncodeToString(first) != hex.EncodeToString(sig.Marshal()) {
			same = false
		}
	}
	b := func(x bool) string {
		if x {
			return "t"
		}
		return "f"
	}
	return fmt.Sprintf("members=%d accepted=%d/%d verified=%s same=%s", len(fin), acc, tot, b(verified), b(same)), "gjkr"
}
